(* Proofs/LifecyclePost.v — what holds once a Reader.Close call has returned *)
From Coq Require Import List Arith Bool Lia.
From KV Require Import Lib.LTS Model.Lifecycle Proofs.LifecycleBase Proofs.LifecycleSafe Proofs.LifecycleGen.
Import ListNotations.

Lemma invs_reach : forall c ls s, run step (init c) ls = Some s -> inv1 s /\ inv2 s.
Proof.
  intros c. apply reach_ind.
  - split; [apply inv1_init|apply inv2_init].
  - intros s l s' [A B] St. split; [eapply inv1_step|eapply inv2_step]; eauto.
Qed.

Lemma cl_at_same : forall n s s', closers s' = closers s -> cl_at n s -> cl_at n s'.
Proof. intros n s s' E (k & p & H1 & H2). exists k, p. rewrite E. auto. Qed.

(* the Close return event is in the history only if some Close call is in its final phase *)
Definition inv_h1 (s : state) : Prop := existsb is_closed_ev (hist s) = true -> cl_at 6 s.

Lemma inv_h1_step : forall s l s', inv_h1 s -> step s l = Some s' -> inv_h1 s'.
Proof.
  intros s l s' I St. unfold inv_h1 in *.
  destruct l;
  try solve [ step_inv St; unf; try rewrite reply_all_calls_only; destr_goal; cbn; intros H;
              (apply cl_at_same with (s := s); [cbn; reflexivity|auto]) ].
  - (* LCloseCall *)
    step_inv St. cbn. intros H. destruct (I H) as (j & p & H1 & H2). exists j, p. split; auto.
    cbn. rewrite nth_error_app1; auto. eapply nth_some_lt; eauto.
  - (* LCloseStep *)
    step_inv St; cbn; intros H;
    try (destruct (I H) as (j & p & H1 & H2); exists j, p; split; auto; cbn;
         rewrite nth_upd; destruct (Nat.eqb_spec k j); auto; subst; rewrite Heqo in H1; inversion H1; subst; cbn in H2; lia);
    try (exists k, CLRet; split; [eapply nth_upd_eq; eauto|cbn; lia]).
Qed.

Lemma inv_h1_reach : forall c ls s, run step (init c) ls = Some s -> inv_h1 s.
Proof. intros c. apply reach_ind; [intros H; discriminate|apply inv_h1_step]. Qed.

(* ---- everything Close accounts for is gone once Close passed <-r.done ---- *)
Record quiet (s : state) : Prop := {
  q_fetchers : all_exited s = true;
  q_conn : forall k g, nth_error (gens s) k = Some g -> g_conn g = false;
  q_gph : gph s = GExited \/ gph s = GNone;
  q_rph : rph s = RExited \/ rph s = RNone;
  q_fns : forall i f, nth_error (fns s) i = Some f -> n_acc f = true -> nexit f = true }.

Lemma quiet_of : forall s, inv1 s -> inv2 s -> cl_at 5 s -> quiet s.
Proof.
  intros s I1 I2 C.
  assert (C4 : cl_at 4 s) by (apply (cl_at_mono 5); [lia|exact C]).
  pose proof (i_exited _ I1 C4) as Hx.
  destruct (c_group (cfg s)) eqn:G.
  - pose proof (i_rdone _ I1 C G) as Hd. pose proof (j_rdone _ I2 Hd) as Hr.
    assert (Hg : gph s = GExited) by (apply (j_gexit _ I2); rewrite Hr; reflexivity).
    assert (Hp : forall k g, nth_error (gens s) k = Some g -> gen_past s k g).
    { intros k g H. destruct (j_past _ I2 k g H) as [A|A]; auto. rewrite Hg in A. discriminate. }
    split; auto.
    + intros k g H. apply (Hp k g H).
    + intros i f H Ha. pose proof (j_fngen _ I2 i f H) as L.
      destruct (nth_error (gens s) (n_gen f)) as [g|] eqn:Eg; [|apply nth_error_None in Eg; lia].
      destruct (Hp _ _ Eg) as (A & _). pose proof (forallb_nth _ _ _ _ _ A H) as P.
      unfold pastp, acc_of in P. rewrite Nat.eqb_refl, Ha in P. exact P.
  - destruct (j_nogroup _ I2 G) as (A & B & C0 & D & E). split; auto.
    + intros k g H. rewrite C0 in H. destruct k; discriminate.
    + intros i f H. rewrite D in H. destruct i; discriminate.
Qed.

Lemma closed_quiet : forall c ls s, run step (init c) ls = Some s -> existsb is_closed_ev (hist s) = true -> quiet s.
Proof.
  intros c ls s R H. destruct (invs_reach _ _ _ R) as [I1 I2].
  apply quiet_of; auto. apply (cl_at_mono 6); [lia|]. apply (inv_h1_reach _ _ _ R H).
Qed.

(* ---- silence after Close ---- *)
Lemma silent_step : forall s l s', (existsb is_closed_ev (hist s) = true -> quiet s) ->
  mon_silent (hist s) = true -> step s l = Some s' -> mon_silent (hist s') = true.
Proof.
  intros s l s' Q IH St.
  destruct l;
  try solve [ step_inv St; unf; try rewrite reply_all_calls_only; destr_goal; cbn; rewrite ?IH; reflexivity ].
  all: step_inv St; unf; try rewrite reply_all_calls_only; destr_goal; cbn; rewrite ?IH; try reflexivity;
       rewrite ?andb_true_r; destruct (existsb is_closed_ev (hist s)) eqn:E; try reflexivity; exfalso;
       destruct (Q eq_refl) as [Q1 Q2 Q3 Q4 Q5].
  all: try fexit_contra.
  all: try (destruct Q3; congruence).
  all: match goal with H : gen_conn ?s0 ?k = true |- _ =>
         unfold gen_conn in H; destruct (nth_error (gens s0) k) eqn:Eg; [|discriminate];
         pose proof (Q2 _ _ Eg); congruence end.
Qed.

Lemma silent_holds : forall c ls s, run step (init c) ls = Some s -> mon_silent (hist s) = true.
Proof.
  intros c. apply (reach_ind2 c (fun s => existsb is_closed_ev (hist s) = true -> quiet s)).
  - intros ls s R. apply (closed_quiet _ _ _ R).
  - reflexivity.
  - intros s l s' Q _ IH St. eapply silent_step; eauto.
Qed.

(* ---- leave on close ---- *)
Definition g_nomid (g : gphase) : bool := match g with GBackoff | GOffer _ true => true | _ => false end.
Definition g_out (g : gphase) : bool := match g with GExited | GNone => true | _ => false end.
Record inv3 (s : state) : Prop := {
  l_stat : mstat (hist s) <> 0 -> mstat (hist s) = mnum (mid s);
  l_none : g_nomid (gph s) = true -> mid s = None;
  l_exit : g_out (gph s) = true -> mstat (hist s) = 0 }.

Lemma inv3_step : forall s l s', inv3 s -> step s l = Some s' -> inv3 s'.
Proof.
  intros s l s' [L1 L2 L3] St.
  destruct l;
  step_inv St; unf; try rewrite reply_all_calls_only; destr_goal;
    rw_ph; split; cbn in *; intros; rw_ph; cbn in *; auto; try discriminate; try congruence; try lia;
    try (match goal with H : mid _ = None |- _ => rewrite H in *; cbn in *; lia end);
    try (specialize (L2 eq_refl); rewrite L2 in *; cbn in *; destruct (Nat.eq_dec (mstat (hist s)) 0); auto; lia).
  all: rewrite Heqo; cbn; auto.
Qed.

Lemma inv3_reach : forall c ls s, run step (init c) ls = Some s -> inv3 s.
Proof.
  intros c. apply reach_ind; [|apply inv3_step].
  split; cbn; intros; auto; try congruence. 
Qed.

Lemma leave_step : forall s l s', inv1 s -> inv2 s -> inv3 s ->
  mon_leave (hist s) = true -> step s l = Some s' -> mon_leave (hist s') = true.
Proof.
  intros s l s' I1 I2 I3 IH St.
  destruct l;
  try solve [ step_inv St; unf; try rewrite reply_all_calls_only; destr_goal; cbn; rewrite ?IH; reflexivity ].
  (* LCloseStep: the EClosed event *)
  step_inv St; unf; destr_goal; cbn; rewrite ?IH; try reflexivity; rewrite andb_true_r; apply Nat.eqb_eq;
  apply (l_exit _ I3);
  (assert (C : cl_at 5 s) by (eexists k, _; split; [eassumption|cbn; lia]));
  destruct (quiet_of _ I1 I2 C) as [_ _ [G|G] _ _]; rewrite G; reflexivity.
Qed.

Lemma leave_holds : forall c ls s, run step (init c) ls = Some s -> mon_leave (hist s) = true.
Proof.
  intros c. apply (reach_ind2 c (fun s => inv1 s /\ inv2 s /\ inv3 s)).
  - intros ls s R. destruct (invs_reach _ _ _ R). split; auto. split; auto. eapply inv3_reach; eauto.
  - reflexivity.
  - intros s l s' (A & B & C) _ IH St. eapply leave_step; eauto.
Qed.

(* ---- close(r.msgs) happens at most once, never panics ---- *)
Definition is_first (p : clphase) : bool :=
  match p with CLCancel true | CLStop true | CLJoin true | CLDone true | CLMsgs true => true | _ => false end.
Definition b2n (b : bool) : nat := if b then 1 else 0.
Record inv4 (s : state) : Prop := {
  m_count : count is_first (closers s) + b2n (mclosed s) = b2n (closed s);
  m_nopanic : panicked s = false;
  m_hist : msgs_closes (hist s) = b2n (mclosed s) }.

Local Arguments count : simpl never.

Lemma count_ge1 : forall A (p : A -> bool) l i y, nth_error l i = Some y -> p y = true -> 1 <= count p l.
Proof.
  induction l; intros [|i] y H Hp; simpl in *; try discriminate; rewrite count_cons.
  - inversion H; subst. rewrite Hp. lia.
  - specialize (IHl _ _ H Hp). lia.
Qed.

Lemma inv4_step : forall s l s', inv4 s -> step s l = Some s' -> inv4 s'.
Proof.
  intros s l s' [M1 M2 M3] St.
  destruct l;
  try solve [ step_inv St; unf; try rewrite reply_all_calls_only; destr_goal;
              split; unfold msgs_closes, count in *; cbn in *; auto;
              repeat match goal with H : closed _ = _ |- _ => rewrite H in *; revert H
                                   | H : mclosed _ = _ |- _ => rewrite H in *; revert H end; intros; auto; try congruence ].
  - (* LCloseCall *)
    step_inv St. split; unfold msgs_closes in *; cbn in *; auto.
    rewrite count_app. change (count is_first [CLMark]) with 0. lia.
  - (* LCloseStep *)
    step_inv St; split; unfold msgs_closes in *; cbn [closers closed mclosed panicked hist set_closers set_closed set_curcan set_stctx set_hist set_mclosed set_panicked ev] in *; unf; cbn [closers closed mclosed panicked hist set_closers set_closed set_curcan set_stctx set_hist set_mclosed set_panicked]; auto;
    try (match goal with |- context [upd k ?p' (closers s)] => pose proof (count_upd _ is_first _ _ p' _ Heqo) as U; cbn in U end);
    rewrite ?count_cons; cbn;
    repeat match goal with
    | |- context [closed ?s] => destruct (closed s) eqn:?
    | |- context [mclosed ?s] => destruct (mclosed s) eqn:?
    | H : context [if ?b then _ else _] |- _ => destruct b eqn:?
    end; cbn in *; try lia; try reflexivity.
  all: pose proof (count_ge1 _ is_first _ _ _ Heqo eq_refl) as G1; destruct (closed s); cbn in *; lia.
Qed.

Lemma inv4_reach : forall c ls s, run step (init c) ls = Some s -> inv4 s.
Proof. intros c. apply reach_ind; [split; reflexivity|apply inv4_step]. Qed.

Lemma close_returned_at : forall s, close_returned s = true -> cl_at 6 s.
Proof.
  intros s H. unfold close_returned in H. apply existsb_nth in H as (i & p & H1 & H2).
  exists i, p. split; auto. destruct p; try discriminate. cbn. lia.
Qed.

Definition unacc_live (s : state) : nat := count (fun f => negb (n_acc f) && negb (nexit f)) (fns s).

Lemma count_false : forall A (p : A -> bool) l, (forall x, In x l -> p x = false) -> count p l = 0.
Proof.
  induction l; intros H; [reflexivity|]. rewrite count_cons, (H a (or_introl eq_refl)), IHl; auto.
  intros x Hx. apply H. right. exact Hx.
Qed.
Lemma count_split_acc : forall l,
  count (fun f => negb (nexit f)) l =
  count (fun f => n_acc f && negb (nexit f)) l + count (fun f => negb (n_acc f) && negb (nexit f)) l.
Proof. induction l; [reflexivity|]. rewrite !count_cons, IHl. destruct (n_acc a), (nexit a); cbn; lia. Qed.

Lemma cfg_reach : forall c ls s, run step (init c) ls = Some s -> cfg s = c.
Proof.
  intros c. apply (reach_ind c (fun s => cfg s = c)); [reflexivity|].
  intros s l s' IH St. rewrite (cfg_step _ _ _ St). exact IH.
Qed.
(* helpers of [inners]: IDial / IConn belong to readLag, ILookup / IOrphan to a partition reader's leader lookup *)
Definition ilag (i : iphase) : bool := match i with IDial | IConn => true | _ => false end.
Lemma nolag_reach : forall c ls s, run step (init c) ls = Some s -> c_lag c = false ->
  lag s = LagOff /\ forallb (fun i => negb (ilag i)) (inners s) = true.
Proof.
  intros c ls s R NL. rewrite <- (cfg_reach _ _ _ R) in NL. revert NL. revert ls s R.
  apply (reach_ind c (fun s => c_lag (cfg s) = false -> lag s = LagOff /\ forallb (fun i => negb (ilag i)) (inners s) = true)); [auto|].
  intros s l s' IH St G. pose proof (cfg_step _ _ _ St) as E. rewrite E in G. destruct (IH G) as [A B].
  destruct l; step_inv St; unf; try rewrite reply_all_calls_only; destr_goal; cbn; auto; try congruence;
  try (rewrite G in *; discriminate);
  try (split; [assumption|]); try (rewrite forallb_app1, B; reflexivity); try (apply forallb_upd; auto; fail);
  try (match goal with H : nth_error (inners s) ?i = Some ?x |- _ => pose proof (forallb_nth _ _ _ _ _ B H) as X; discriminate end).
Qed.

(* an open lookup connection belongs to a partition reader that is inside LookupPartition *)
Definition inv8 (s : state) : Prop :=
  forall j, nth_error (inners s) j = Some ILookup ->
    exists i f, nth_error (fetchers s) i = Some f /\ f_ph f = FLookup j.

Lemma inv8_step : forall s l s', inv8 s -> step s l = Some s' -> inv8 s'.
Proof.
  intros s l s' I St. unfold inv8 in *.
  destruct l;
  try solve [ step_inv St; unf; try rewrite reply_all_calls_only; destr_goal; cbn; intros jj Hj;
              destruct (I jj Hj) as (oi & ofe & H1 & H2); exists oi, ofe; split; auto;
              try (rewrite nth_error_app1; [exact H1|eapply nth_some_lt; eauto]) ];
  try solve [ (* a partition reader other than in FLookup moves; helpers untouched *)
    step_inv St; unf; destr_goal; cbn; intros jj Hj;
    destruct (I jj Hj) as (oi & ofe & H1 & H2);
    match goal with E : nth_error (fetchers s) ?i0 = Some ?f0 |- _ =>
      destruct (Nat.eqb_spec i0 oi);
      [ subst oi; rewrite E in H1; injection H1 as H1; subst ofe; congruence
      | exists oi, ofe; split; [rewrite nth_upd_neq; auto|auto] ] end ].
  - (* LFDial *)
    step_inv St; unf; cbn; intros jj Hj.
    + apply nth_app_cases in Hj as [Hj|[Ej _]].
      * destruct (I jj Hj) as (oi & ofe & H1 & H2).
        destruct (Nat.eqb_spec i oi); [subst oi; rewrite Heqo in H1; injection H1 as H1; subst ofe; congruence|].
        exists oi, ofe. split; [rewrite nth_upd_neq; auto|auto].
      * subst jj. eexists i, _. split; [eapply nth_upd_eq; eauto|reflexivity].
    + destruct (I jj Hj) as (oi & ofe & H1 & H2).
      destruct (Nat.eqb_spec i oi); [subst oi; rewrite Heqo in H1; injection H1 as H1; subst ofe; congruence|].
      exists oi, ofe. split; [rewrite nth_upd_neq; auto|auto].
    + destruct (I jj Hj) as (oi & ofe & H1 & H2).
      destruct (Nat.eqb_spec i oi); [subst oi; rewrite Heqo in H1; injection H1 as H1; subst ofe; congruence|].
      exists oi, ofe. split; [rewrite nth_upd_neq; auto|auto].
  - (* LFLookup *)
    step_inv St; unf; cbn; intros jj Hj; rewrite nth_upd in Hj;
    (destruct (Nat.eqb_spec j jj); [destr_in Hj; discriminate|]);
    destruct (I jj Hj) as (oi & ofe & H1 & H2);
    (destruct (Nat.eqb_spec i oi); [subst oi; rewrite Heqo in H1; injection H1 as H1; subst ofe; congruence|]);
    exists oi, ofe; (split; [rewrite nth_upd_neq; auto|auto]).
  - (* LFSeeCancel *)
    step_inv St; unf; cbn; intros jj Hj;
    try (rewrite nth_upd in Hj; destruct (Nat.eqb_spec j jj); [destr_in Hj; discriminate|]);
    destruct (I jj Hj) as (oi & ofe & H1 & H2);
    (destruct (Nat.eqb_spec i oi); [subst oi; rewrite Heqo in H1; injection H1 as H1; subst ofe; congruence|]);
    exists oi, ofe; (split; [rewrite nth_upd_neq; auto|auto]).
  - (* LLagBegin *)
    step_inv St; cbn; intros jj Hj. apply nth_app_cases in Hj as [Hj|[_ Hx]]; [auto|discriminate].
  - (* LInDial *)
    step_inv St; cbn; intros jj Hj; rewrite nth_upd in Hj;
    (destruct (Nat.eqb_spec i jj); [destr_in Hj; discriminate|auto]).
  - (* LInOffsets *)
    step_inv St; cbn; intros jj Hj; rewrite nth_upd in Hj;
    (destruct (Nat.eqb_spec i jj); [destr_in Hj; discriminate|auto]).
  - (* LInExit *)
    step_inv St; cbn; intros jj Hj; rewrite nth_upd in Hj;
    (destruct (Nat.eqb_spec j jj); [destr_in Hj; discriminate|auto]).
Qed.

Lemma inv8_reach : forall c ls s, run step (init c) ls = Some s -> inv8 s.
Proof. intros c. apply reach_ind; [intros j H; destruct j; discriminate|apply inv8_step]. Qed.

(* After a Close call has returned: every goroutine Close accounts for has ended and every
   connection they held is closed; what may remain are functions started on an already closed
   generation (unaccounted by Generation.Start) and the readLag goroutines. *)
Theorem close_post_registry : forall c ls s, run step (init c) ls = Some s -> close_returned s = true ->
  live_acc s = 0 /\
  live s = unacc_live s + lag_live (lag s) + count (fun i => negb (idone i)) (inners s) /\
  conns s = count iconn (inners s) /\
  (forall j, nth_error (inners s) j <> Some ILookup) /\
  (c_lag c = false -> live s = unacc_live s + count (fun i => negb (idone i)) (inners s) /\ conns s = 0).
Proof.
  intros c ls s R H. destruct (invs_reach _ _ _ R) as [I1 I2].
  pose proof (close_returned_at _ H) as C6.
  assert (C5 : cl_at 5 s) by (apply (cl_at_mono 6); [lia|exact C6]).
  destruct (quiet_of _ I1 I2 C5) as [Q1 Q2 Q3 Q4 Q5].
  assert (F1 : count (fun f => negb (fdone f)) (fetchers s) = 0).
  { apply count_false. intros x Hx. unfold all_exited in Q1. rewrite forallb_forall in Q1. rewrite (Q1 x Hx). reflexivity. }
  assert (F2 : count f_conn (fetchers s) = 0).
  { apply count_false. intros x Hx. unfold all_exited in Q1. rewrite forallb_forall in Q1. specialize (Q1 x Hx).
    unfold fdone in Q1. unfold f_conn. destruct (f_ph x); try discriminate; reflexivity. }
  assert (F3 : count g_conn (gens s) = 0).
  { apply count_false. intros x Hx. apply In_nth_error in Hx as (k & Hk). eapply Q2; eauto. }
  assert (F4 : count (fun f => n_acc f && negb (nexit f)) (fns s) = 0).
  { apply count_false. intros x Hx. apply In_nth_error in Hx as (k & Hk). destruct (n_acc x) eqn:A; [|reflexivity].
    rewrite (Q5 _ _ Hk A). reflexivity. }
  assert (F5 : r_live (rph s) = 0) by (destruct Q4 as [E|E]; rewrite E; reflexivity).
  assert (F6 : g_live (gph s) = 0 /\ g_hasconn (gph s) = 0) by (destruct Q3 as [E|E]; rewrite E; split; reflexivity).
  destruct F6 as [F6 F7].
  assert (L : live s = unacc_live s + lag_live (lag s) + count (fun i => negb (idone i)) (inners s)).
  { unfold live, unacc_live. rewrite count_split_acc, F1, F4, F5, F6. lia. }
  assert (K : conns s = count iconn (inners s)) by (unfold conns; rewrite F2, F3, F7; lia).
  split; [unfold live_acc; rewrite F1, F4, F5, F6; reflexivity|]. split; [exact L|]. split; [exact K|].
  assert (NoL : forall j, nth_error (inners s) j <> Some ILookup).
  { intros j Hj. destruct (inv8_reach _ _ _ R j Hj) as (i & f & H1 & H2).
    pose proof (fexit_stuck_help s i f Q1 H1) as E. rewrite E in H2. discriminate. }
  split; [exact NoL|].
  intros NL.
  pose proof (nolag_reach _ _ _ R NL) as [A B]. rewrite L, K, A. split; [cbn; lia|].
  apply count_false. intros x Hx. apply In_nth_error in Hx as (j & Hj).
  pose proof (forallb_nth _ _ _ _ _ B Hj) as X. destruct x; try reflexivity; try discriminate.
  exfalso. exact (NoL j Hj).
Qed.

Theorem close_post_msgs : forall c ls s, run step (init c) ls = Some s ->
  panicked s = false /\ msgs_closes (hist s) <= 1 /\
  (mclosed s = true <-> msgs_closes (hist s) = 1) /\
  (close_returned s = true -> (forall k p, nth_error (closers s) k = Some p -> p = CLRet) -> msgs_closes (hist s) = 1).
Proof.
  intros c ls s R. destruct (inv4_reach _ _ _ R) as [M1 M2 M3]. destruct (invs_reach _ _ _ R) as [I1 _].
  split; auto. rewrite M3. split; [destruct (mclosed s); cbn; lia|]. split; [destruct (mclosed s); cbn; split; auto; discriminate|].
  intros H All.
  assert (Hc : closed s = true) by (apply (i_closed _ I1); apply (cl_at_mono 6); [lia|apply close_returned_at; exact H]).
  assert (Z : count is_first (closers s) = 0).
  { apply count_false. intros x Hx. apply In_nth_error in Hx as (k & Hk). rewrite (All _ _ Hk). reflexivity. }
  rewrite Z, Hc in M1. cbn in M1. lia.
Qed.

(* ---- a generation that ended on its own is still joined before the group moves on ---- *)
Definition inv7 (s : state) : Prop :=
  forall k g, cur_gen (gph s) = Some k -> nth_error (gens s) k = Some g -> g_conn g = true.

Lemma inv7_step : forall s l s', inv7 s -> step s l = Some s' -> inv7 s'.
Proof.
  intros s l s' I St. unfold inv7 in *.
  destruct l;
  try solve [ step_inv St; unf; try rewrite reply_all_calls_only; destr_goal; intros kk gg Hc Hn; cbn in *; rw_ph; cbn in *;
              try discriminate; eauto;
              try (rewrite nth_upd in Hn; destruct (Nat.eqb_spec _ kk); [subst; destr_in Hn; try discriminate; injection Hn as Hn; subst gg; cbn; eauto|eauto]) ].
  - (* LGOfetch *)
    step_inv St; unf; destr_goal; intros kk gg Hc Hn; cbn in *; rw_ph; cbn in *; try discriminate; eauto.
    injection Hc as Hc; subst kk. rewrite nth_app_last in Hn. injection Hn as Hn; subst gg. reflexivity.
  - (* LGClose *)
    step_inv St; unf; destr_goal; intros kk gg Hc Hn; cbn in *; rw_ph; cbn in *; try discriminate; eauto.
    all: injection Hc as Hc; subst kk; rewrite (nth_upd_eq _ _ _ _ _ Heqo) in Hn; injection Hn as Hn; subst gg; cbn; eapply I; eauto.
  - (* LFnHandler *)
    step_inv St; unf; destr_goal; intros kk gg Hc Hn; cbn in *; rw_ph; cbn in *; try discriminate; eauto.
    all: rewrite nth_upd in Hn; destruct (Nat.eqb_spec (n_gen f0) kk);
         [subst kk; rewrite Heqo0 in Hn; injection Hn as Hn; subst gg; cbn; eapply I; eauto|eauto].
Qed.

Lemma inv7_reach : forall c ls s, run step (init c) ls = Some s -> inv7 s.
Proof.
  intros c. apply reach_ind; [|apply inv7_step].
  intros k g H. cbn in H. destruct (c_group c); discriminate.
Qed.

(* A generation is over for ConsumerGroup.run — its coordinator connection closed (the deferred
   conn.Close() of nextGeneration), the next JoinGroup possible — only when every function that
   Generation.Start accounted on it has run its exit handler, no matter whether the generation was
   closed by Close or had already ended on its own (failed heartbeat, a function returning):
   gen.close() reaches <-g.joined on every path. *)
Theorem generation_joined_proof : forall c ls s, run step (init c) ls = Some s ->
  (forall k g, nth_error (gens s) k = Some g -> g_conn g = false ->
     acc_exited k s = true /\ g_done g = true /\ cur_gen (gph s) <> Some k) /\
  (cur_gen (gph s) = None -> forall k g, nth_error (gens s) k = Some g ->
     acc_exited k s = true /\ g_conn g = false /\ g_done g = true) /\
  (forall k w, gph s = GCloseWait k w -> acc_exited k s = false -> step s LGJoined = None).
Proof.
  intros c ls s R. destruct (invs_reach _ _ _ R) as [_ I2]. pose proof (inv7_reach _ _ _ R) as I7.
  split; [|split].
  - intros k g Hk Hc. destruct (j_past _ I2 k g Hk) as [A|(A & B & C)].
    + rewrite (I7 k g A Hk) in Hc. discriminate.
    + split; [exact A|]. split; [exact C|]. intros E. rewrite (I7 k g E Hk) in Hc. discriminate.
  - intros N k g Hk. destruct (j_past _ I2 k g Hk) as [A|(A & B & C)]; [congruence|]. split; [exact A|]. split; assumption.
  - intros k w E Ha. unfold step. destruct (panicked s); [reflexivity|]. rewrite E, Ha. reflexivity.
Qed.
