(* Proofs/QueriesMerge.v — list-offsets Split / Merge (property C19):
   split_exact, listoffsets_exact, listoffsets_all_failed, error_isolation.

   Outline
   1. strings: str_eqb decides equality, str_ltb is a strict total order;
   2. insertion sort: a permutation, sorted for a total comparison;
   3. the topic map: tmap_append adds exactly the appended entries, keys stay unique;
   4. one merge_step on a sub-request adds exactly its expected entry;
   5. the fold over all sub-requests (entries, key uniqueness, throttle, error count);
   6. merge_finish: permutation of the entries, sorted;
   7. the four theorems. *)
From Coq Require Import List NArith ZArith Bool Lia Sorting.Permutation Sorting.Sorted.
From Coq Require Import ZifyN ZifyNat ZifyBool.
From KV Require Import Lib.Bits Model.Queries Proofs.QueriesSpec.
Import ListNotations. Open Scope Z_scope.

(* ------------------------------------------------------------------------- *)
(* Split                                                                     *)

Lemma split_exact : forall r,
  listoffsets_split r = map (sub_request (q_replica r) (q_isolation r)) (req_entries r).
Proof.
  intro r. unfold listoffsets_split, req_entries.
  induction (q_topics r) as [|t ts IH]; [reflexivity|].
  cbn [flat_map]. rewrite map_app, IH. f_equal.
  unfold split_topic. rewrite map_map. apply map_ext.
  intros [p ep ts']. reflexivity.
Qed.

(* ------------------------------------------------------------------------- *)
(* 1. strings                                                                *)

Lemma str_eqb_eq : forall a b, str_eqb a b = true <-> a = b.
Proof.
  induction a as [|x a IH]; destruct b as [|y b]; cbn [str_eqb];
    split; intro H; try reflexivity; try discriminate.
  - apply andb_true_iff in H. destruct H as [H1 H2].
    apply N.eqb_eq in H1. apply IH in H2. subst. reflexivity.
  - inversion H; subst. rewrite N.eqb_refl. cbn [andb]. apply IH. reflexivity.
Qed.

Lemma str_eqb_refl : forall a, str_eqb a a = true.
Proof. intro a. apply str_eqb_eq. reflexivity. Qed.

Lemma str_eqb_neq : forall a b, str_eqb a b = false -> a <> b.
Proof. intros a b H E. apply str_eqb_eq in E. congruence. Qed.

Lemma str_ltb_irrefl : forall a, str_ltb a a = false.
Proof.
  induction a as [|x a IH]; cbn [str_ltb]; [reflexivity|].
  rewrite N.ltb_irrefl. exact IH.
Qed.

Lemma str_ltb_trans : forall a b c,
  str_ltb a b = true -> str_ltb b c = true -> str_ltb a c = true.
Proof.
  induction a as [|x a IH]; intros [|y b] [|z c]; cbn [str_ltb];
    try discriminate; try reflexivity.
  destruct (N.ltb_spec x y), (N.ltb_spec y x), (N.ltb_spec y z), (N.ltb_spec z y),
           (N.ltb_spec x z), (N.ltb_spec z x);
    intros Hab Hbc; try reflexivity; try discriminate; try lia.
  eapply IH; eassumption.
Qed.

Lemma str_ltb_asym : forall a b, str_ltb a b = true -> str_ltb b a = false.
Proof.
  intros a b H. destruct (str_ltb b a) eqn:E; [|reflexivity].
  rewrite <- (str_ltb_irrefl a). symmetry. eapply str_ltb_trans; eassumption.
Qed.

Lemma str_ltb_trichotomy : forall a b,
  str_ltb a b = false -> str_ltb b a = false -> a = b.
Proof.
  induction a as [|x a IH]; intros [|y b]; cbn [str_ltb];
    try discriminate; try reflexivity.
  destruct (N.ltb_spec x y), (N.ltb_spec y x); try discriminate; try lia.
  intros H1 H2. f_equal; [lia | apply IH; assumption].
Qed.

(* ------------------------------------------------------------------------- *)
(* 2. insertion sort                                                         *)

Lemma insert_by_perm : forall {A} (le : A -> A -> bool) x l,
  Permutation (insert_by le x l) (x :: l).
Proof.
  intros A le x l. induction l as [|y r IH]; cbn [insert_by]; [reflexivity|].
  destruct (le x y); [reflexivity|].
  rewrite IH. apply perm_swap.
Qed.

Lemma isort_perm : forall {A} (le : A -> A -> bool) l, Permutation (isort le l) l.
Proof.
  intros A le l. unfold isort. induction l as [|x r IH]; cbn [fold_right]; [reflexivity|].
  rewrite insert_by_perm. apply perm_skip. exact IH.
Qed.

(* the relation a comparison decides, and totality of a comparison *)
Definition le_rel {A} (le : A -> A -> bool) (a b : A) : Prop := le a b = true.
Definition le_total {A} (le : A -> A -> bool) : Prop := forall a b, le a b = false -> le b a = true.

Lemma insert_by_hdrel : forall {A} (le : A -> A -> bool) a x l,
  le_rel le a x -> HdRel (le_rel le) a l -> HdRel (le_rel le) a (insert_by le x l).
Proof.
  intros A le a x l Hax Hl. destruct l as [|y r]; cbn [insert_by].
  - constructor. exact Hax.
  - destruct (le x y); constructor; [exact Hax|].
    apply HdRel_inv in Hl. exact Hl.
Qed.

Lemma insert_by_sorted : forall {A} (le : A -> A -> bool), le_total le ->
  forall x l, Sorted (le_rel le) l -> Sorted (le_rel le) (insert_by le x l).
Proof.
  intros A le Htot x l. induction l as [|y r IH]; intro H; cbn [insert_by].
  - constructor; constructor.
  - destruct (le x y) eqn:E.
    + constructor; [exact H|]. constructor. exact E.
    + apply Sorted_inv in H. destruct H as [Hr Hy].
      constructor; [apply IH; exact Hr|].
      apply insert_by_hdrel; [|exact Hy]. apply Htot. exact E.
Qed.

Lemma isort_sorted : forall {A} (le : A -> A -> bool), le_total le ->
  forall l, Sorted (fun a b => le a b = true) (isort le l).
Proof.
  intros A le Htot l. change (Sorted (le_rel le) (isort le l)).
  unfold isort. induction l as [|x r IH]; cbn [fold_right].
  - constructor.
  - apply insert_by_sorted; [exact Htot | exact IH].
Qed.

Lemma part_le_total : le_total part_le.
Proof.
  intros a b. unfold part_le. rewrite (Z.eqb_sym (rp_partition b)).
  destruct (Z.eqb_spec (rp_partition a) (rp_partition b)); lia.
Qed.

Lemma topic_le_total : forall {V}, le_total (@topic_le V).
Proof.
  intros V a b. unfold topic_le. intro H.
  apply negb_false_iff in H. apply str_ltb_asym in H. rewrite H. reflexivity.
Qed.

(* a list sorted by topic_le whose names are pairwise distinct is strictly ascending *)
Lemma topic_sorted_strict : forall {V} (l : list (str * V)),
  Sorted (fun a b => topic_le a b = true) l -> NoDup (map fst l) ->
  StronglySorted str_lt (map fst l).
Proof.
  intros V l Hs Hn. apply Sorted_StronglySorted.
  - intros x y z. unfold str_lt. apply str_ltb_trans.
  - induction Hs as [|a l Hs IH Hd]; cbn [map]; [constructor|].
    cbn [map] in Hn. inversion Hn as [|? ? Hnotin Hn']; subst.
    constructor; [apply IH; exact Hn'|].
    destruct Hd as [|b l' Hab]; cbn [map]; constructor.
    unfold topic_le in Hab. apply negb_true_iff in Hab.
    unfold str_lt. destruct (str_ltb (fst a) (fst b)) eqn:E; [reflexivity|].
    exfalso. apply Hnotin. cbn [map]. left.
    symmetry. apply str_ltb_trichotomy; assumption.
Qed.

(* ------------------------------------------------------------------------- *)
(* 3. the topic map                                                          *)

Lemma tmap_append_nil : forall t l, tmap_append [] t l = [(t, l)].
Proof. reflexivity. Qed.

Lemma tmap_append_cons : forall k v (r : tmap) t l,
  tmap_append ((k, v) :: r) t l =
  if str_eqb k t then (k, v ++ l) :: r else (k, v) :: tmap_append r t l.
Proof.
  intros. unfold tmap_append, tmap_parts. cbn [amap_get amap_set].
  destruct (str_eqb k t); reflexivity.
Qed.

Lemma entries_tmap_append : forall (m : tmap) t l,
  Permutation (resp_entries (tmap_append m t l)) (resp_entries m ++ map (pair t) l).
Proof.
  induction m as [|[k v] r IH]; intros t l.
  - rewrite tmap_append_nil. unfold resp_entries. cbn [flat_map fst snd app].
    rewrite app_nil_r. reflexivity.
  - rewrite tmap_append_cons. destruct (str_eqb k t) eqn:E.
    + apply str_eqb_eq in E. subst k. unfold resp_entries. cbn [flat_map fst snd].
      rewrite map_app, <- !app_assoc. apply Permutation_app_head. apply Permutation_app_comm.
    + unfold resp_entries in *. cbn [flat_map fst snd].
      rewrite <- app_assoc. apply Permutation_app_head. apply IH.
Qed.

Lemma keys_tmap_append_in : forall (m : tmap) t l k,
  In k (map fst (tmap_append m t l)) -> k = t \/ In k (map fst m).
Proof.
  induction m as [|[k' v] r IH]; intros t l k H.
  - rewrite tmap_append_nil in H. cbn in H. destruct H as [H|[]]. left. symmetry. exact H.
  - rewrite tmap_append_cons in H. destruct (str_eqb k' t) eqn:E.
    + right. exact H.
    + cbn [map fst In] in H |- *. destruct H as [H|H]; [right; left; exact H|].
      apply IH in H. destruct H as [H|H]; [left; exact H | right; right; exact H].
Qed.

Lemma keys_tmap_append_nodup : forall (m : tmap) t l,
  NoDup (map fst m) -> NoDup (map fst (tmap_append m t l)).
Proof.
  induction m as [|[k v] r IH]; intros t l H.
  - rewrite tmap_append_nil. cbn. constructor; [intros []|constructor].
  - rewrite tmap_append_cons. destruct (str_eqb k t) eqn:E; [exact H|].
    cbn [map fst] in H |- *. inversion H as [|? ? Hnotin H']; subst.
    constructor; [|apply IH; exact H'].
    intro Hin. apply keys_tmap_append_in in Hin. destruct Hin as [Hin|Hin].
    + apply str_eqb_neq in E. congruence.
    + contradiction.
Qed.

(* ------------------------------------------------------------------------- *)
(* 4. one step                                                               *)

Lemma ltb_max : forall a b, (if a <? b then b else a) = Z.max a b.
Proof. intros a b. destruct (Z.ltb_spec a b); lia. Qed.

Definition step_throttle (m : Z) (o : outcome) : Z :=
  match o with OAnswer _ _ _ _ th => Z.max m th | OFail _ => m end.

Definition fail_count (o : outcome) : nat := if is_answer o then 0%nat else 1%nat.

Lemma merge_step_sub : forall rep iso e o s,
  merge_step s (sub_request rep iso e, result_of e o) =
  {| ms_topics := tmap_append (ms_topics s) (fst e) [snd (expected_entry e o)];
     ms_throttle := step_throttle (ms_throttle s) o;
     ms_errors := (ms_errors s + N.of_nat (fail_count o))%N |}.
Proof.
  intros rep iso e o s. destruct o as [err ts off ep th|x].
  - unfold merge_step, result_of, sub_request. cbn [fst snd].
    unfold merge_ok, ts_index, restore_ts.
    cbn [q_topics r_topics r_throttle flat_map map fst snd app fold_left ts_lookup rp_partition
         rp_error rp_offset rp_epoch].
    rewrite str_eqb_refl, Z.eqb_refl. cbn [andb].
    rewrite ltb_max. unfold fail_count. cbn [is_answer N.of_nat].
    rewrite N.add_0_r. reflexivity.
  - unfold merge_step, result_of, sub_request. cbn [fst snd].
    unfold merge_fail. cbn [q_topics fold_left fst snd map]. reflexivity.
Qed.

(* ------------------------------------------------------------------------- *)
(* 5. the fold                                                               *)

Definition count_fail (outs : list outcome) : nat :=
  fold_right (fun o n => (fail_count o + n)%nat) 0%nat outs.

Lemma results_of_cons : forall e es o outs,
  results_of (e :: es) (o :: outs) = result_of e o :: results_of es outs.
Proof. reflexivity. Qed.

Lemma expected_entries_cons : forall e es o outs,
  expected_entries (e :: es) (o :: outs) = expected_entry e o :: expected_entries es outs.
Proof. reflexivity. Qed.

Lemma results_of_length : forall es outs,
  length outs = length es -> length (results_of es outs) = length outs.
Proof.
  intros es outs H. unfold results_of. rewrite map_length, combine_length. lia.
Qed.

Lemma expected_entry_fst : forall e o, fst (expected_entry e o) = fst e.
Proof. intros e [? ? ? ? ?|?]; reflexivity. Qed.

Lemma merge_fold : forall rep iso es outs s,
  length outs = length es -> NoDup (map fst (ms_topics s)) ->
  let s' := fold_left merge_step
                      (combine (map (sub_request rep iso) es) (results_of es outs)) s in
  Permutation (resp_entries (ms_topics s')) (resp_entries (ms_topics s) ++ expected_entries es outs) /\
  NoDup (map fst (ms_topics s')) /\
  ms_throttle s' = fold_left step_throttle outs (ms_throttle s) /\
  ms_errors s' = (ms_errors s + N.of_nat (count_fail outs))%N.
Proof.
  intros rep iso. induction es as [|e es IH]; intros [|o outs] s Hlen Hnd;
    try discriminate Hlen.
  - cbn. rewrite app_nil_r, N.add_0_r. auto.
  - cbn [map]. rewrite results_of_cons, expected_entries_cons.
    cbn [combine fold_left]. rewrite merge_step_sub.
    cbn [length] in Hlen. injection Hlen as Hlen.
    match goal with |- context [fold_left merge_step _ ?s0] => set (s1 := s0) end.
    specialize (IH outs s1 Hlen).
    assert (Hnd1 : NoDup (map fst (ms_topics s1))).
    { subst s1. cbn [ms_topics]. apply keys_tmap_append_nodup. exact Hnd. }
    specialize (IH Hnd1). cbv zeta in IH. destruct IH as (Hp & Hn & Ht & He).
    cbv zeta. repeat split.
    + rewrite Hp. subst s1. cbn [ms_topics]. rewrite entries_tmap_append.
      rewrite <- app_assoc. apply Permutation_app_head. cbn [map app].
      rewrite <- (expected_entry_fst e o), <- surjective_pairing. reflexivity.
    + exact Hn.
    + rewrite Ht. reflexivity.
    + rewrite He. subst s1. cbn [ms_errors count_fail fold_right].
      fold (count_fail outs). lia.
Qed.

Definition merge_init : merge_state := {| ms_topics := []; ms_throttle := 0; ms_errors := 0 |}.

Definition merge_final (rep iso : Z) (es : list (str * req_part)) (outs : list outcome) : merge_state :=
  fold_left merge_step (combine (map (sub_request rep iso) es) (results_of es outs)) merge_init.

Lemma merge_final_spec : forall rep iso es outs,
  length outs = length es ->
  let s := merge_final rep iso es outs in
  Permutation (resp_entries (ms_topics s)) (expected_entries es outs) /\
  NoDup (map fst (ms_topics s)) /\
  ms_throttle s = max_throttle outs /\
  ms_errors s = N.of_nat (count_fail outs).
Proof.
  intros rep iso es outs Hlen.
  assert (Hnd : NoDup (map fst (ms_topics merge_init))) by (cbn; constructor).
  destruct (merge_fold rep iso es outs merge_init Hlen Hnd) as (Hp & Hn & Ht & He).
  cbv zeta. unfold merge_final. repeat split; try assumption.
Qed.

(* Merge on the split of a request, in terms of the failure count *)
Lemma merge_unfold : forall rep iso es outs,
  length outs = length es ->
  listoffsets_merge (map (sub_request rep iso) es) (results_of es outs) =
  if ((0 <? count_fail outs) && (count_fail outs =? length outs))%nat then
    match results_of es outs with
    | SubErr e :: _ => MergeErr e
    | _ => MergePanic
    end
  else MergeOk {| r_throttle := max_throttle outs;
                  r_topics := merge_finish (ms_topics (merge_final rep iso es outs)) |}.
Proof.
  intros rep iso es outs Hlen. unfold listoffsets_merge.
  rewrite map_length, results_of_length by exact Hlen.
  rewrite Hlen, Nat.ltb_irrefl. fold merge_init. fold (merge_final rep iso es outs).
  destruct (merge_final_spec rep iso es outs Hlen) as (_ & _ & Ht & He).
  cbv zeta in Ht, He. rewrite Ht, He.
  replace ((0 <? N.of_nat (count_fail outs))%N && (N.of_nat (count_fail outs) =? N.of_nat (length es))%N)
    with ((0 <? count_fail outs) && (count_fail outs =? length es))%nat by lia.
  reflexivity.
Qed.

Lemma count_fail_le : forall outs, (count_fail outs <= length outs)%nat.
Proof.
  induction outs as [|o outs IH]; cbn [count_fail fold_right length]; [lia|].
  fold (count_fail outs). unfold fail_count. destruct (is_answer o); lia.
Qed.

Lemma count_fail_answer : forall outs,
  existsb is_answer outs = true -> (count_fail outs < length outs)%nat.
Proof.
  induction outs as [|o outs IH]; cbn [existsb count_fail fold_right length]; [discriminate|].
  fold (count_fail outs). unfold fail_count. pose proof (count_fail_le outs) as Hle.
  destruct (is_answer o); cbn [orb]; intro H; [lia|].
  apply IH in H. lia.
Qed.

Lemma count_fail_all : forall outs,
  existsb is_answer outs = false -> count_fail outs = length outs.
Proof.
  induction outs as [|o outs IH]; cbn [existsb count_fail fold_right length]; [reflexivity|].
  fold (count_fail outs). unfold fail_count.
  destruct (is_answer o); cbn [orb]; intro H; [discriminate|].
  rewrite (IH H). reflexivity.
Qed.

(* ------------------------------------------------------------------------- *)
(* 6. merge_finish                                                           *)

Lemma entries_sort_parts : forall (l : list resp_topic),
  Permutation (resp_entries (map (fun t : resp_topic => (fst t, isort part_le (snd t))) l))
              (resp_entries l).
Proof.
  induction l as [|t l IH]; [reflexivity|].
  unfold resp_entries in *. cbn [map flat_map fst snd].
  apply Permutation_app; [|exact IH].
  apply Permutation_map. apply isort_perm.
Qed.

Lemma merge_finish_entries : forall m,
  Permutation (resp_entries (merge_finish m)) (resp_entries m).
Proof.
  intro m. unfold merge_finish. rewrite entries_sort_parts.
  unfold resp_entries. apply Permutation_flat_map. apply isort_perm.
Qed.

Lemma merge_finish_sorted : forall m,
  NoDup (map fst m) -> merged_sorted (merge_finish m).
Proof.
  intros m Hnd. unfold merged_sorted, merge_finish. split.
  - rewrite map_map. cbn [fst].
    change (map (fun x : resp_topic => fst x) (isort topic_le m))
      with (map fst (isort topic_le m)).
    apply topic_sorted_strict.
    + apply isort_sorted. exact topic_le_total.
    + eapply Permutation_NoDup; [|exact Hnd].
      apply Permutation_map. symmetry. apply isort_perm.
  - apply Forall_forall. intros t Hin. apply in_map_iff in Hin.
    destruct Hin as (t0 & <- & _). cbn [snd]. unfold part_sorted.
    apply isort_sorted. exact part_le_total.
Qed.

(* ------------------------------------------------------------------------- *)
(* 7. the theorems                                                           *)

Lemma listoffsets_exact : forall r outs,
  length outs = length (req_entries r) ->
  existsb is_answer outs = true \/ outs = [] ->
  exists resp,
    listoffsets_merge (listoffsets_split r) (results_of (req_entries r) outs) = MergeOk resp /\
    Permutation (resp_entries (r_topics resp)) (expected_entries (req_entries r) outs) /\
    r_throttle resp = max_throttle outs /\
    merged_sorted (r_topics resp).
Proof.
  intros r outs Hlen Hans. rewrite split_exact, merge_unfold by exact Hlen.
  assert (Hc : ((0 <? count_fail outs) && (count_fail outs =? length outs))%nat = false).
  { destruct Hans as [Hans|Hans].
    - apply count_fail_answer in Hans. lia.
    - subst outs. reflexivity. }
  rewrite Hc. eexists. split; [reflexivity|]. cbn [r_topics r_throttle].
  destruct (merge_final_spec (q_replica r) (q_isolation r) (req_entries r) outs Hlen)
    as (Hp & Hn & _ & _).
  cbv zeta in Hp, Hn. repeat split.
  - rewrite merge_finish_entries. exact Hp.
  - apply merge_finish_sorted. exact Hn.
  - apply merge_finish_sorted. exact Hn.
Qed.

Lemma listoffsets_all_failed : forall r outs,
  length outs = length (req_entries r) -> outs <> [] -> existsb is_answer outs = false ->
  listoffsets_merge (listoffsets_split r) (results_of (req_entries r) outs) = MergeErr (first_error outs).
Proof.
  intros r outs Hlen Hne Hall. rewrite split_exact, merge_unfold by exact Hlen.
  rewrite (count_fail_all outs Hall).
  destruct outs as [|o outs]; [congruence|].
  destruct (req_entries r) as [|e es]; [discriminate Hlen|].
  cbn [length]. rewrite Nat.eqb_refl. cbn [Nat.ltb Nat.leb andb].
  rewrite results_of_cons. cbn [existsb] in Hall. apply orb_false_iff in Hall.
  destruct Hall as [Ho _]. destruct o as [? ? ? ? ?|x]; [discriminate Ho|].
  reflexivity.
Qed.

Lemma set_nth_length : forall {A} i (x : A) l, length (set_nth i x l) = length l.
Proof.
  intros A i x l. revert i. induction l as [|y l IH]; intros [|i]; cbn [set_nth length];
    try reflexivity.
  rewrite IH. reflexivity.
Qed.

Lemma set_nth_fail_answer : forall i e outs,
  existsb is_answer (set_nth i (OFail e) outs) = true -> existsb is_answer outs = true.
Proof.
  intros i e outs. revert i. induction outs as [|o outs IH]; intros [|i];
    cbn [set_nth existsb is_answer orb]; try discriminate.
  - intro H. rewrite H. apply orb_true_r.
  - intro H. apply orb_true_iff in H. apply orb_true_iff.
    destruct H as [H|H]; [left; exact H | right; eapply IH; exact H].
Qed.

Lemma expected_entries_set_nth : forall i es outs q o x,
  nth_error es i = Some q -> nth_error outs i = Some o ->
  exists l1 l2,
    expected_entries es outs = l1 ++ expected_entry q o :: l2 /\
    expected_entries es (set_nth i x outs) = l1 ++ expected_entry q x :: l2.
Proof.
  induction i as [|i IH]; intros [|e es] [|o' outs] q o x Hq Ho; try discriminate.
  - cbn [nth_error] in Hq, Ho. injection Hq as ->. injection Ho as ->.
    exists [], (expected_entries es outs). cbn [set_nth app].
    rewrite !expected_entries_cons. split; reflexivity.
  - cbn [nth_error] in Hq, Ho. destruct (IH es outs q o x Hq Ho) as (l1 & l2 & H1 & H2).
    exists (expected_entry e o' :: l1), l2. cbn [set_nth].
    rewrite !expected_entries_cons, H1, H2. split; reflexivity.
Qed.

Lemma nth_error_lt : forall {A} (l : list A) i, (i < length l)%nat -> exists x, nth_error l i = Some x.
Proof.
  intros A l i H. destruct (nth_error l i) as [x|] eqn:E; [exists x; reflexivity|].
  apply nth_error_None in E. lia.
Qed.

Lemma error_isolation : forall r outs i e,
  length outs = length (req_entries r) -> (i < length outs)%nat ->
  existsb is_answer (set_nth i (OFail e) outs) = true ->
  exists resp resp' q o l1 l2,
    nth_error (req_entries r) i = Some q /\ nth_error outs i = Some o /\
    listoffsets_merge (listoffsets_split r) (results_of (req_entries r) outs) = MergeOk resp /\
    listoffsets_merge (listoffsets_split r) (results_of (req_entries r) (set_nth i (OFail e) outs)) = MergeOk resp' /\
    Permutation (resp_entries (r_topics resp)) (l1 ++ expected_entry q o :: l2) /\
    Permutation (resp_entries (r_topics resp')) (l1 ++ (fst q, fail_part (snd q)) :: l2).
Proof.
  intros r outs i e Hlen Hi Hans.
  destruct (nth_error_lt outs i Hi) as (o & Ho).
  destruct (nth_error_lt (req_entries r) i) as (q & Hq); [lia|].
  assert (Hlen' : length (set_nth i (OFail e) outs) = length (req_entries r))
    by (rewrite set_nth_length; exact Hlen).
  destruct (listoffsets_exact r outs Hlen (or_introl (set_nth_fail_answer i e outs Hans)))
    as (resp & Hm & Hp & _).
  destruct (listoffsets_exact r _ Hlen' (or_introl Hans)) as (resp' & Hm' & Hp' & _).
  destruct (expected_entries_set_nth i (req_entries r) outs q o (OFail e) Hq Ho)
    as (l1 & l2 & H1 & H2).
  exists resp, resp', q, o, l1, l2.
  rewrite H1 in Hp. rewrite H2 in Hp'. cbn [expected_entry] in Hp'.
  repeat split; assumption.
Qed.
