(* Proofs/ReaderMixedFinal.v — C02, L1: a response that begins with uncompressed v0 / v1
   messages and goes on with v2 batches (the layout of a partition whose message format was
   upgraded), for every fetch offset inside the v0/v1 part and every legal cut. *)
From Coq Require Import List NArith ZArith Bool Lia.
From Coq Require Import ZifyN ZifyNat ZifyBool.
From KV Require Import Lib.Bits Lib.Bytes Model.MsgSetReader Model.ReaderModel Spec.FetchSpec
  Proofs.ReaderPrim Proofs.ReaderV2 Proofs.ReaderV1 Proofs.ReaderV1Run Proofs.ReaderV1Final
  Proofs.ReaderV2Run Proofs.ReaderV2Sound Proofs.ReaderV2Final Proofs.ReaderProofs.
Import ListNotations.
Open Scope Z_scope.

Lemma from_offset_app_l lg v2 o : from_offset lg o <> [] -> from_offset (lg ++ v2) o = from_offset lg o ++ v2.
Proof.
  induction lg as [|b t IH]; intros H; [contradiction|]. cbn [from_offset app] in *.
  destruct (pb_last b <? o); [apply IH; exact H|reflexivity].
Qed.

Lemma chain_zero lo bs : Forall pbatch_ok bs -> chain lo bs -> chain 0 bs.
Proof.
  intros Hp Hc. destruct bs as [|b t]; [exact I|]. destruct Hc as (C1 & C2 & C3 & C4 & C5).
  pose proof (Forall_inv Hp) as (_ & _ & Hb & _). unfold small in Hb. cbn [chain]. repeat split; try assumption; lia.
Qed.

Section Mixed.
Variable compress : Z -> list N -> list N.
Variable decomp : Z -> list N -> option (list N).
Hypothesis decomp_law : forall c x, decomp c (compress c x) = Some x.

Theorem batch_decode_exact_legacy_then_v2_full log lg v2 o k hwm :
  log_ok log -> layout_ok log (lg ++ v2) ->
  Forall legacy_ok lg -> Forall (fun b => pb_fmt b = 2) v2 -> Forall (v2ok compress) v2 -> 0 <= o ->
  from_offset lg o <> [] -> valid_cut compress (lg ++ v2) o k -> hwm <> o ->
  forall fuel, (length (all_items (from_offset lg o)) + tokens [] v2 + 5 <= fuel)%nat ->
  exists ms f,
    fetch_run decomp fuel o hwm (fetch_response compress (lg ++ v2) o k) (Z.of_nat k) false = Some (ms, EEOF, f)
    /\ fetch_ok log o ms f /\ ms <> [].
Proof.
  intros (Hlog1 & Hlog2) (Hrecs & Hpb & Hranges) Hleg Hfmt2 Hv2 Ho0 Hne Hcut Hhwm fuel Hfuel.
  destruct (from_offset_split lg o) as (pre & Hsplit & Hpre).
  pose proof (from_offset_app_l lg v2 o Hne) as Hfo.
  set (bs := from_offset lg o) in *.
  destruct bs as [|b1 bs'] eqn:Ebs; [contradiction|].
  assert (Hleg_bs : Forall legacy_ok (b1 :: bs')) by (rewrite Hsplit in Hleg; apply Forall_app in Hleg; apply Hleg).
  assert (Hleg_pre : Forall legacy_ok pre) by (rewrite Hsplit in Hleg; apply Forall_app in Hleg; apply Hleg).
  assert (Hpb_lg : Forall pbatch_ok lg) by (apply Forall_app in Hpb; apply Hpb).
  assert (Hpb_v2 : Forall pbatch_ok v2) by (apply Forall_app in Hpb; apply Hpb).
  assert (Hpb_bs : Forall pbatch_ok (b1 :: bs')) by (rewrite Hsplit in Hpb_lg; apply Forall_app in Hpb_lg; apply Hpb_lg).
  set (tlrecs := flat_map pb_recs v2).
  set (tl := encs compress v2).
  assert (Hlogsplit : log = flat_map pb_recs pre ++ flat_map pb_recs (b1 :: bs') ++ tlrecs).
  { rewrite <- Hrecs. unfold layout_records. rewrite flat_map_app. rewrite Hsplit at 1. rewrite flat_map_app, <- app_assoc. reflexivity. }
  pose proof (Forall_inv Hleg_bs) as (Hf1 & Hc1 & Hm1).
  pose proof (Forall_inv Hpb_bs) as (_ & _ & _ & _ & _ & _ & Hne1 & _).
  specialize (Hne1 ltac:(lia)).
  destruct (pb_recs b1) as [|r1 rs1] eqn:Er1; [contradiction|].
  set (it1 := (pb_fmt b1, r1)).
  assert (Hitems : all_items (b1 :: bs') = it1 :: (map (fun r => (pb_fmt b1, r)) rs1 ++ all_items bs')).
  { cbn [all_items flat_map]. unfold items_of at 1. rewrite Er1. reflexivity. }
  set (rest := map (fun r => (pb_fmt b1, r)) rs1 ++ all_items bs') in *.
  pose proof (items_ok (b1 :: bs') Hleg_bs) as Hiok. rewrite Hitems in Hiok.
  apply Forall_cons_iff in Hiok as [Hok1 Hokr].
  (* the bytes *)
  assert (Hbytes : flat_map (enc_batch compress) ((b1 :: bs') ++ v2) = stream (it1 :: rest) ++ tl).
  { rewrite flat_map_app, (encs_stream compress (b1 :: bs') Hleg_bs), Hitems, (encs_eq compress v2 Hfmt2). reflexivity. }
  unfold fetch_response, fetch_bytes, enc_layout. rewrite Hfo, Hbytes.
  unfold valid_cut in Hcut. rewrite Hfo in Hcut. cbn [app] in Hcut.
  unfold fetch_bytes, enc_layout in Hcut. rewrite Hfo, Hbytes in Hcut.
  rewrite (enc_legacy_stream compress b1 (Forall_inv Hleg_bs)) in Hcut.
  destruct Hcut as [Hk1 Hk2].
  pose proof (mh_pos decomp tl it1 Hok1) as Hmh.
  assert (Hkmh : len (mh (fst it1) (snd it1)) <= Z.of_nat k).
  { unfold items_of in Hk1. rewrite Er1 in Hk1. cbn [map stream flat_map] in Hk1. unfold enc_item in Hk1.
    cbn [fst snd] in Hk1. rewrite !app_length in Hk1. unfold len, it1. cbn [fst snd]. lia. }
  rewrite <- ztake_firstn.
  set (j0 := Z.of_nat k - len (mh (fst it1) (snd it1))).
  assert (Hlenk : len (ztake (Z.of_nat k) (stream (it1 :: rest) ++ tl)) = Z.of_nat k).
  { rewrite ztake_firstn. unfold len. rewrite firstn_length. lia. }
  assert (Hstart : fetch_run decomp fuel o hwm (ztake (Z.of_nat k) (stream (it1 :: rest) ++ tl)) (Z.of_nat k) false
                   = batch_run decomp fuel (LB tl o (PIn it1 rest j0) o) []).
  { unfold fetch_run, new_batch. replace (hwm =? o) with false by lia.
    unfold new_msr. rewrite <- Hlenk at 2.
    change (mkMsr [mkFrame ?i (len ?i) 0 0 hdr0] false 0 (-1)) with (st i 0 hdr0 0 (-1)).
    rewrite (stream_cons tl), ztake_ge by lia.
    rewrite (mheader_ok (fst it1) (snd it1) _ 0 hdr0 0 (-1) Hok1). reflexivity. }
  rewrite Hstart.
  assert (Hpos : pos_ok1 (PIn it1 rest j0)) by (cbn [pos_ok1]; split; [exact Hok1|split; [exact Hokr|unfold j0; lia]]).
  assert (Hcnt : (pcount (PIn it1 rest j0) + 3 <= fuel)%nat).
  { cbn [pcount]. rewrite Hitems in Hfuel. cbn [length] in Hfuel. lia. }
  assert (Hpend : pend (PIn it1 rest j0) = flat_map pb_recs (b1 :: bs')).
  { cbn [pend]. rewrite <- recs_of_items, Hitems. reflexivity. }
  assert (Hinc_all : exists lo, increasing lo (flat_map pb_recs (b1 :: bs') ++ tlrecs))
    by (rewrite Hlogsplit in Hlog2; apply (increasing_app_r _ _ _ Hlog2)).
  assert (HI : linv tlrecs o (PIn it1 rest j0) o).
  { split; [exact Ho0|]. split; [lia|]. rewrite Hpend. split; [exact Hinc_all|].
    split; [|intros r _ H; exact H].
    intros _.
    assert (Hlast1 : o <= pb_last b1).
    { unfold bs in Ebs. clear -Ebs. induction lg as [|b t IH]; [discriminate|].
      cbn [from_offset] in Ebs. destruct (pb_last b <? o) eqn:E; [apply IH; exact Ebs|].
      injection Ebs as <- _. lia. }
    unfold pb_last in Hlast1. replace (pb_fmt b1 =? 2) with false in Hlast1 by lia. rewrite Er1 in Hlast1.
    destruct Hinc_all as [lo Hinc]. apply increasing_app_l in Hinc. cbn [flat_map] in *. rewrite Er1 in *.
    destruct (last_off_in ((r1 :: rs1) ++ flat_map pb_recs bs') 0 ltac:(discriminate)) as (rl & Hrl & Hel).
    rewrite <- Hel.
    destruct (last_off_in (r1 :: rs1) (pb_base b1 + pb_lod b1) ltac:(discriminate)) as (r0 & Hr0 & He0).
    rewrite <- He0 in Hlast1.
    pose proof (last_off_max _ _ 0 r0 Hinc (in_or_app _ _ r0 (or_introl Hr0))). lia. }
  assert (Hwit : exists r, In r (r1 :: rs1) /\ o <= r_off r).
  { assert (Hlast1 : o <= pb_last b1).
    { unfold bs in Ebs. clear -Ebs. induction lg as [|b t IH]; [discriminate|].
      cbn [from_offset] in Ebs. destruct (pb_last b <? o) eqn:E; [apply IH; exact Ebs|].
      injection Ebs as <- _. lia. }
    unfold pb_last in Hlast1. replace (pb_fmt b1 =? 2) with false in Hlast1 by lia. rewrite Er1 in Hlast1.
    destruct (last_off_in (r1 :: rs1) (pb_base b1 + pb_lod b1) ltac:(discriminate)) as (r0 & Hr0 & He0).
    exists r0. split; [exact Hr0|lia]. }
  assert (Hfirst : exists it' items' j', lstep o (PIn it1 rest j0) = LDeliver it' items' j').
  { cbn [lstep]. apply (lg_read_delivers decomp tl o rest it1 j0 (length rs1)).
    - unfold rest. rewrite firstn_app, firstn_all2 by (rewrite map_length; lia).
      rewrite map_length, Nat.sub_diag. cbn [firstn]. rewrite app_nil_r.
      unfold items_of in Hk1. rewrite Er1 in Hk1. cbn [map] in Hk1.
      change (stream ((pb_fmt b1, r1) :: map (fun r => (pb_fmt b1, r)) rs1))
        with (enc_item it1 ++ stream (map (fun r => (pb_fmt b1, r)) rs1)) in Hk1.
      unfold enc_item in Hk1. rewrite !app_length in Hk1. unfold j0, len. lia.
    - unfold rest. rewrite firstn_app, firstn_all2 by (rewrite map_length; lia).
      rewrite map_length, Nat.sub_diag. cbn [firstn]. rewrite app_nil_r.
      destruct Hwit as (r & Hr & Hge). exists r. split; [|exact Hge].
      unfold recs_of. rewrite map_map. cbn [snd]. rewrite map_id. exact Hr. }
  destruct Hfirst as (itf & itemsf & jf & Hfirst).
  assert (Hne0 : match l_run fuel (PIn it1 rest j0) o [] with
                 | LDone ms x => ms <> [] | LGo _ _ _ acc' _ => acc' <> [] | LFail => True end).
  { destruct fuel as [|f0]; [lia|]. apply (l_run_nonempty decomp tl tlrecs o f0 _ o [] itf itemsf jf HI Hfirst). }
  pose proof (run_refine_v1 decomp tl tlrecs o fuel (PIn it1 rest j0) o [] Hpos HI Hcnt) as Href.
  pose proof (l_run_spec decomp tl tlrecs o fuel (PIn it1 rest j0) o [] HI) as Hspec.
  (* the records before the response are below o *)
  assert (Hprebelow : Forall (fun r => r_off r < o) (flat_map pb_recs pre)).
  { rewrite Hlogsplit in Hlog2. pose proof (increasing_app_l _ _ _ Hlog2) as Hip.
    apply (pre_below_legacy o pre 0 Hleg_pre Hpre Hip). }
  (* how a run that stops gives the contract *)
  assert (Hfinish : forall ms x Rp Rs,
             flat_map pb_recs (b1 :: bs') ++ tlrecs = Rp ++ Rs ->
             ms = mm (filter (fun r => o <=? r_off r) Rp) ->
             Forall (fun r => r_off r < x) Rp -> (forall r, In r Rs -> o <= r_off r -> x <= r_off r) -> o <= x ->
             fetch_ok log o ms x).
  { intros ms x Rp Rs G1 G2 G3 G4 G5. left. split; [exact G5|]. rewrite G2. unfold mm. f_equal.
    rewrite Hlogsplit. unfold between. rewrite filter_app, G1, filter_app.
    rewrite (filter_all_false _ (flat_map pb_recs pre)) by (eapply Forall_impl; [|exact Hprebelow]; cbn; intros; lia).
    rewrite (filter_all_false _ Rs) by (apply Forall_forall; intros r Hr; specialize (G4 r Hr); lia).
    cbn [app]. rewrite app_nil_r. apply filter_ext_in'.
    eapply Forall_impl; [|exact G3]. cbn. intros a Ha. lia. }
  destruct (l_run fuel (PIn it1 rest j0) o []) as [ms x|j h off' acc' f'|]; [| |contradiction].
  - (* the response is cut inside the v0/v1 part *)
    exists ms, x. split; [exact Href|]. split; [|exact Hne0]. destruct Hspec as (Rp & Rs & G1 & G2 & G3 & G4 & G5).
    apply (Hfinish ms x Rp (Rs ++ tlrecs)); try assumption.
    rewrite <- Hpend, G1, <- app_assoc. reflexivity.
  - (* the v0/v1 part was read whole: on with the v2 batches *)
    destruct Href as (Hr1 & Hf' & Hoo & Hjj & Hfb). destruct Hspec as (G1 & G2 & G3 & G4).
    cbn [rev app] in G1. rewrite Hr1.
    assert (Hv2chain : chain 0 v2).
    { destruct (ranges_ok_app _ _ _ Hranges) as [lo2 Hr2].
      apply (chain_zero lo2); [exact Hpb_v2|].
      apply chain_of; [exact Hpb_v2|exact Hr2|].
      rewrite <- Hrecs in Hlog2. unfold layout_records in Hlog2. rewrite flat_map_app in Hlog2.
      apply (increasing_app_r _ _ _ Hlog2). }
    set (pb := mkPos b1 [] v2 j h off' (-1) (-1) MPlain 1).
    assert (Hsame : LB tl o (PBnd [] j h) off' = conc compress o pb) by reflexivity.
    rewrite Hsame.
    assert (Hposb : pos_ok compress pb).
    { unfold pos_ok, pb. cbn [a_j a_bs a_rs a_lr a_last a_el]. split; [exact Hjj|]. split; [exact Hv2|].
      split; [intros _; right; lia|]. intros H; contradiction. }
    assert (HTb : (T pb < f')%nat).
    { unfold T, pb. cbn [a_rs a_bs]. cbn [pcount] in Hfb. rewrite Hitems in Hfuel. cbn [length] in Hfuel.
      change (tokens [] v2) with (tokens [] v2) in *. lia. }
    pose proof (run_refine compress decomp decomp_law o f' pb acc' Hposb HTb) as Href2.
    destruct (a_run compress o f' pb acc') as [[ms x]|] eqn:Erun; [|contradiction].
    exists ms, x. split; [exact Href2|].
    assert (HInvb : Inv o pb).
    { split; [unfold pb; cbn [a_off]; exact Hoo|]. exists 0, 0. unfold pb. cbn [a_b a_rs a_bs a_j a_hdr a_off a_last a_el a_mode a_lr].
      split; [exact I|]. split; [exact Hv2chain|]. split; [intros r []|]. split; [lia|]. split; [lia|].
      split; [intros _; lia|]. split; [intros H; contradiction|].
      destruct G4 as (_ & _ & _ & _ & HJ). intros r Hr. apply HJ. cbn [pend recs_of map app]. exact Hr. }
    destruct (a_run_spec compress decomp decomp_law o f' pb acc' ms x HInvb Erun) as (Rp & Rs & A1 & A2 & A3 & A4 & A5).
    unfold pb in A5. cbn [a_off] in A5.
    split.
    2:{ rewrite A2. intros Hn. apply app_eq_nil in Hn as [Hn _]. apply Hne0.
        destruct acc' as [|a t]; [reflexivity|cbn [rev] in Hn; destruct (rev t); discriminate]. }
    apply (Hfinish ms x (flat_map pb_recs (b1 :: bs') ++ Rp) Rs).
    + unfold remp, pb in A1. cbn [a_rs a_bs app] in A1. fold tlrecs in A1. rewrite A1, app_assoc. reflexivity.
    + rewrite A2, G1, filter_app, <- Hpend. unfold mm. rewrite map_app. reflexivity.
    + apply Forall_app. split; [|exact A3]. rewrite <- Hpend. eapply Forall_impl; [|exact G2]. cbn. intros a Ha. lia.
    + exact A4.
    + lia.
Qed.

Theorem batch_decode_exact_legacy_then_v2 log lg v2 o k hwm :
  log_ok log -> layout_ok log (lg ++ v2) ->
  Forall legacy_ok lg -> Forall (fun b => pb_fmt b = 2) v2 -> Forall (v2ok compress) v2 -> 0 <= o ->
  from_offset lg o <> [] -> valid_cut compress (lg ++ v2) o k -> hwm <> o ->
  forall fuel, (length (all_items (from_offset lg o)) + tokens [] v2 + 5 <= fuel)%nat ->
  exists ms f,
    fetch_run decomp fuel o hwm (fetch_response compress (lg ++ v2) o k) (Z.of_nat k) false = Some (ms, EEOF, f)
    /\ fetch_ok log o ms f.
Proof.
  intros H1 H2 H3 H4 H5 H6 H7 H8 H9 fuel H10.
  destruct (batch_decode_exact_legacy_then_v2_full log lg v2 o k hwm H1 H2 H3 H4 H5 H6 H7 H8 H9 fuel H10) as (ms & f & Hr & Hok & _).
  exists ms, f. split; assumption.
Qed.

Theorem progress_legacy_then_v2 log lg v2 o k hwm :
  log_ok log -> layout_ok log (lg ++ v2) ->
  Forall legacy_ok lg -> Forall (fun b => pb_fmt b = 2) v2 -> Forall (v2ok compress) v2 -> 0 <= o ->
  from_offset lg o <> [] -> valid_cut compress (lg ++ v2) o k -> hwm <> o ->
  forall fuel ms e f, (length (all_items (from_offset lg o)) + tokens [] v2 + 5 <= fuel)%nat ->
  fetch_run decomp fuel o hwm (fetch_response compress (lg ++ v2) o k) (Z.of_nat k) false = Some (ms, e, f) ->
  ms <> [].
Proof.
  intros H1 H2 H3 H4 H5 H6 H7 H8 H9 fuel ms e f H10 Hrun.
  destruct (batch_decode_exact_legacy_then_v2_full log lg v2 o k hwm H1 H2 H3 H4 H5 H6 H7 H8 H9 fuel H10) as (ms0 & f0 & Hr0 & _ & Hp).
  rewrite Hr0 in Hrun. injection Hrun as <- _ _. exact Hp.
Qed.

Theorem contract_legacy_then_v2 log lg v2 k hwm fuel g :
  log_ok log -> layout_ok log (lg ++ v2) ->
  Forall legacy_ok lg -> Forall (fun b => pb_fmt b = 2) v2 -> Forall (v2ok compress) v2 -> 0 <= g_conn g ->
  from_offset lg (g_conn g) <> [] -> valid_cut compress (lg ++ v2) (g_conn g) k -> hwm <> g_conn g ->
  (length (all_items (from_offset lg (g_conn g))) + tokens [] v2 + 5 <= fuel)%nat ->
  ev_ok (fetch_run decomp fuel) log g
        (GFetch (FData hwm (fetch_response compress (lg ++ v2) (g_conn g) k) (Z.of_nat k) false)).
Proof.
  intros H1 H2 H3 H4 H5 H6 H7 H8 H9 H10 _.
  destruct (batch_decode_exact_legacy_then_v2 log lg v2 (g_conn g) k hwm H1 H2 H3 H4 H5 H6 H7 H8 H9 fuel H10)
    as (ms & f & Hr & Hok).
  exists ms, EEOF, f. split; assumption.
Qed.

End Mixed.
