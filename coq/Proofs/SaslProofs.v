(* Proofs/SaslProofs.v — invariants of the connection set-up transition systems of Model/Sasl.v *)
From Coq Require Import List ZArith Bool Lia.
From KV Require Import Model.Sasl.
Import ListNotations.
Open Scope Z_scope.

(* ------------------------------------------------------------------ *)
(* facts about versions and framing that do not involve the machine *)

Lemma hs_range : forall p a, -1 <= hs_version p a <= 1.
Proof.
  intros p a. unfold hs_version, dialer_negotiate01, transport_select01, select_version.
  destruct p; destruct (hs_max a) as [v|];
    repeat match goal with |- context [if ?b then _ else _] => destruct b eqn:? end; lia.
Qed.

(* what C18_version_framing says about one written message *)
Definition vf_ok (p : path) (a : advert) (m : msg) : Prop :=
  (forall v, m = MReq K_SaslHandshake v -> v = hs_version p a /\ 0 <= v <= 1)
  /\ (authbytes_msg m = true -> (m = MRaw <-> hs_version p a = 0))
  /\ (forall v, m = MReq K_SaslAuthenticate v -> v = auth_version p a /\ hs_version p a = 1).

Lemma vf_api : forall p a, vf_ok p a (MReq K_ApiVersions 0).
Proof. intros p a. repeat split; intros; discriminate. Qed.

Lemma vf_hs : forall p a, (hs_version p a <? 0) = false ->
  vf_ok p a (MReq K_SaslHandshake (hs_version p a)).
Proof.
  intros p a H. apply Z.ltb_ge in H. pose proof (hs_range p a) as R.
  split; [|split].
  - intros v E. injection E as <-. split; [reflexivity|lia].
  - intros E. discriminate E.
  - intros v E. discriminate E.
Qed.

Lemma vf_auth : forall p a, 0 <= hs_version p a ->
  vf_ok p a (authbytes_of p a (framing_of p (hs_version p a))).
Proof.
  intros p a H. pose proof (hs_range p a) as R. unfold framing_of.
  assert (Hraw : hs_version p a = 0 -> vf_ok p a MRaw).
  { intros Z0. split; [|split]; intros; try discriminate. tauto. }
  assert (Hfr : hs_version p a = 1 ->
                vf_ok p a (MReq K_SaslAuthenticate (auth_version p a))).
  { intros Z1. split; [|split].
    - intros v E. discriminate E.
    - intros _. split; [intros E; discriminate E | lia].
    - intros v E. injection E as <-. split; [reflexivity|exact Z1]. }
  destruct p; match goal with |- context [if ?b then _ else _] => destruct b eqn:E end;
    cbn [authbytes_of]; (apply Z.eqb_eq in E || apply Z.eqb_neq in E);
    (apply Hraw || apply Hfr); lia.
Qed.

Lemma vf_use : forall p a k v, (k =? K_SaslHandshake) || (k =? K_SaslAuthenticate) = false ->
  vf_ok p a (MReq k v).
Proof.
  intros p a k v H. apply orb_false_iff in H. destruct H as [H1 H2].
  apply Z.eqb_neq in H1, H2.
  split; [|split].
  - intros v0 E. injection E as E1 E2. contradiction.
  - cbn [authbytes_msg]. intros E. apply Z.eqb_eq in E. contradiction.
  - intros v0 E. injection E as E1 E2. contradiction.
Qed.

Lemma auth_msg_authbytes : forall p a f, auth_msg (authbytes_of p a f) = true.
Proof. intros p a f. destruct f; reflexivity. Qed.

(* the "nothing before the verdict" shape of a newest-first trace *)
Fixpoint guarded (t : list event) : Prop :=
  match t with
  | [] => True
  | ESend m :: t' => (auth_msg m = true \/ In EVerdict t') /\ guarded t'
  | _ :: t' => guarded t'
  end.

Lemma guarded_split : forall l m l', guarded (l ++ ESend m :: l') -> auth_msg m = false ->
  In EVerdict l'.
Proof.
  induction l as [|e l IH]; intros m l' G F.
  - cbn in G. destruct G as [[G|G] _]; [congruence|exact G].
  - apply (IH m l'); [|exact F]. destruct e; cbn in G; tauto.
Qed.

(* ------------------------------------------------------------------ *)
Section Machine.
  Variable mstate : Type.
  Variable mech_start : option (mstate * bytes).
  Variable mech_next : mstate -> bytes -> (bool * mstate * bytes * bool).
  Variable p : path.
  Variable a : advert.

  Local Notation stt := (state mstate).
  Local Notation stp := (step mstate mech_start mech_next p a).
  Local Notation reach := (reachable mstate mech_start mech_next p a).
  Local Notation onch := (on_challenge mstate mech_next p a).
  Local Notation failst := (fail mstate).
  Local Notation abytes := (authbytes_of p a).

  Definition pre (x : phase mstate) : Prop :=
    match x with PApiSent | PHsSent _ | PAuth _ _ _ _ => True | _ => False end.
  Definition post (x : phase mstate) : Prop :=
    match x with PAccepted | PHandedOut | PUserClosed => True | _ => False end.

  (* the step function as a relation, one constructor per kind of outcome *)
  Inductive stepR (s : stt) : label -> stt -> Prop :=
  | SR_start : ph s = PDialed -> dialer_refuses p a = false ->
      stepR s LStart (mkState PApiSent (ESend (MReq K_ApiVersions 0) :: tr s))
  | SR_refused : ph s = PDialed -> dialer_refuses p a = true ->
      stepR s LDialRefused (mkState PRefused (ERefused :: tr s))
  | SR_fail r : pre (ph s) -> stepR s (LBroker r) (failst s r)
  | SR_hs pl : ph s = PApiSent -> (hs_version p a <? 0) = false -> transport_refuses p a = false ->
      stepR s (LBroker (ROk pl))
        (mkState (PHsSent (hs_version p a))
           (ESend (MReq K_SaslHandshake (hs_version p a)) :: ERecv (ROk pl) :: tr s))
  | SR_auth0 pl v ms out : ph s = PHsSent v -> mech_start = Some (ms, out) ->
      stepR s (LBroker (ROk pl))
        (mkState (PAuth (framing_of p v) O ms out)
           (ESend (abytes (framing_of p v)) :: ERecv (ROk pl) :: tr s))
  | SR_next r ch f i ms out ms' resp : ph s = PAuth f i ms out ->
      r = ROk ch -> snd (mech_next ms ch) = true ->
      stepR s (LBroker r)
        (mkState (PAuth f (S i) ms' resp) (ESend (abytes f) :: ERecv r :: tr s))
  | SR_acc r ch f i ms out : ph s = PAuth f i ms out ->
      r = ROk ch -> snd (mech_next ms ch) = true ->
      stepR s (LBroker r) (mkState PAccepted (EVerdict :: ERecv r :: tr s))
  | SR_ret : ph s = PAccepted -> stepR s LReturn (mkState PHandedOut (EHandOut :: tr s))
  | SR_use k v : ph s = PHandedOut ->
      (k =? K_SaslHandshake) || (k =? K_SaslAuthenticate) = false ->
      stepR s (LUse k v) (mkState PHandedOut (ESend (MReq k v) :: tr s))
  | SR_close : ph s = PHandedOut ->
      stepR s LUserClose (mkState PUserClosed (EClose :: tr s)).

  Lemma onch_stepR : forall s f i ms out r ch, ph s = PAuth f i ms out ->
    r = ROk ch -> stepR s (LBroker r) (onch s f i ms r ch).
  Proof.
    intros s f i ms out r ch E Hr. unfold on_challenge.
    destruct (mech_next ms ch) as [[[d ms'] resp] ok] eqn:N.
    assert (snd (mech_next ms ch) = ok) by (rewrite N; reflexivity).
    destruct ok.
    - destruct d; [eapply SR_acc | eapply SR_next]; eauto.
    - destruct d; apply SR_fail; rewrite E; exact I.
  Qed.

  Lemma step_stepR : forall s l s', stp s l = Some s' -> stepR s l s'.
  Proof.
    intros s l s'. unfold step. intros H.
    destruct (ph s) eqn:E; destruct l as [| |r| |k ver|]; try discriminate H.
    - destruct (dialer_refuses p a) eqn:D; [discriminate H|]. injection H as <-. apply SR_start; assumption.
    - destruct (dialer_refuses p a) eqn:D; [|discriminate H]. injection H as <-. apply SR_refused; assumption.
    - destruct r as [pl|c| | |]; try discriminate H.
      + cbv zeta in H. destruct (hs_version p a <? 0) eqn:V; destruct (transport_refuses p a) eqn:T;
          cbn [orb] in H; injection H as <-.
        * apply SR_fail; rewrite E; exact I.
        * apply SR_fail; rewrite E; exact I.
        * apply SR_fail; rewrite E; exact I.
        * apply SR_hs; assumption.
      + destruct (c =? 0); [discriminate H|]. injection H as <-. apply SR_fail; rewrite E; exact I.
      + injection H as <-. apply SR_fail; rewrite E; exact I.
      + injection H as <-. apply SR_fail; rewrite E; exact I.
    - destruct r as [pl|c| | |]; try discriminate H.
      + destruct mech_start as [[ms out]|] eqn:M; injection H as <-.
        * eapply SR_auth0; eauto.
        * apply SR_fail; rewrite E; exact I.
      + destruct (c =? 0); [discriminate H|]. injection H as <-. apply SR_fail; rewrite E; exact I.
      + injection H as <-. apply SR_fail; rewrite E; exact I.
      + injection H as <-. apply SR_fail; rewrite E; exact I.
    - destruct r as [pl|c| | |].
      + injection H as <-. eapply onch_stepR; eauto.
      + destruct f; [|discriminate H]. destruct (c =? 0); [discriminate H|].
        injection H as <-. apply SR_fail; rewrite E; exact I.
      + injection H as <-. apply SR_fail; rewrite E; exact I.
      + destruct f; [discriminate H|]. injection H as <-. apply SR_fail; rewrite E; exact I.
      + injection H as <-. apply SR_fail; rewrite E; exact I.
    - injection H as <-. apply SR_ret; exact E.
    - destruct ((k =? K_SaslHandshake) || (k =? K_SaslAuthenticate)) eqn:G; [discriminate H|].
      injection H as <-. apply SR_use; assumption.
    - injection H as <-. apply SR_close; exact E.
  Qed.

  Lemma trace_monotone : forall (s s' : stt) l,
    stp s l = Some s' -> exists evs, evs <> [] /\ tr s' = evs ++ tr s.
  Proof.
    intros s s' l H. apply step_stepR in H. destruct H; cbn [tr fail];
      match goal with
      | |- exists evs, _ /\ ?x :: ?y :: ?z :: tr ?s = _ => exists [x; y; z]
      | |- exists evs, _ /\ ?x :: ?y :: tr ?s = _ => exists [x; y]
      | |- exists evs, _ /\ ?x :: tr ?s = _ => exists [x]
      end; (split; [discriminate | reflexivity]).
  Qed.

  Ltac ph_solve :=
    match goal with
    | E : ph ?s = _ |- _ => rewrite E; exact I
    | Hp : pre (ph ?s) |- _ => revert Hp; destruct (ph s); cbn; tauto
    end.

  (* ---- nothing before the verdict ---- *)
  Lemma guarded_inv : forall s, reach s ->
    guarded (tr s) /\ (post (ph s) -> In EVerdict (tr s)).
  Proof.
    induction 1 as [|s l s' R [G V] H].
    - cbn. tauto.
    - apply step_stepR in H. destruct H; cbn [tr ph fail guarded post];
        try (assert (In EVerdict (tr s)) by (apply V; ph_solve));
        try rewrite auth_msg_authbytes; cbn [In]; try tauto.
  Qed.

  Lemma nothing_before_auth : forall s : stt, reach s ->
    forall l1 m l2, trace s = l1 ++ ESend m :: l2 -> auth_msg m = false -> In EVerdict l1.
  Proof.
    intros s R l1 m l2 T F. destruct (guarded_inv s R) as [G _].
    unfold trace in T. apply (f_equal (@rev event)) in T. rewrite rev_involutive in T.
    rewrite rev_app_distr in T. cbn [rev] in T. rewrite <- app_assoc in T. cbn [app] in T.
    rewrite T in G. apply in_rev. eapply guarded_split; eauto.
  Qed.

  (* ---- before acceptance: no verdict, no hand-out ---- *)
  Lemma early_inv : forall s, reach s -> ~ post (ph s) ->
    ~ In EHandOut (tr s) /\ ~ In EVerdict (tr s).
  Proof.
    induction 1 as [|s l s' R IH H].
    - cbn. tauto.
    - apply step_stepR in H. destruct H; cbn [tr ph fail post In]; intros NP;
        try (exfalso; apply NP; exact I);
        (assert (NP' : ~ post (ph s))
           by (match goal with
               | E : ph s = _ |- _ => rewrite E; cbn; tauto
               | Hp : pre (ph s) |- _ => revert Hp; destruct (ph s); cbn; tauto
               end));
        destruct (IH NP') as [A B]; split; intros [X|X]; try discriminate X;
        try (destruct X as [X|X]; try discriminate X);
        try (destruct X as [X|X]; try discriminate X); tauto.
  Qed.

  Lemma failure_closes : forall (s s' : stt) r,
    reach s -> stp s (LBroker r) = Some s' -> failing mstate mech_start mech_next p a s r ->
    ph s' = PFailed /\ tr s' = EClose :: ERecv r :: tr s
    /\ ~ In EHandOut (tr s') /\ ~ In EVerdict (tr s')
    /\ (forall l, stp s' l = None).
  Proof.
    intros s s' r R H F.
    assert (D : pre (ph s) /\ s' = failst s r).
    { apply step_stepR in H. remember (LBroker r) as l eqn:L. unfold failing in F.
      destruct H as [E D0 | E D0 | r0 P | pl E V T | pl v ms out E M
                    | r0 ch f i ms out ms' resp E D N | r0 ch f i ms out E D N
                    | E | k v E G | E];
        try discriminate L; injection L as <-; cbv beta iota in F.
      - auto.
      - rewrite E in F. destruct F as [F|F]; [apply Z.ltb_ge in V; lia | congruence].
      - rewrite E in F. congruence.
      - subst r0. cbv beta iota in F. rewrite E in F. congruence.
      - subst r0. cbv beta iota in F. rewrite E in F. congruence. }
    destruct D as [P ->].
    assert (NP : ~ post (ph s)) by (revert P; destruct (ph s); cbn; tauto).
    destruct (early_inv s R NP) as [A B].
    cbn [ph tr fail]. repeat split.
    - intros [X|[X|X]]; try discriminate X; tauto.
    - intros [X|[X|X]]; try discriminate X; tauto.
  Qed.

  (* ---- versions and framing ---- *)
  Lemma version_inv : forall s, reach s ->
    (forall m, In (ESend m) (tr s) -> vf_ok p a m)
    /\ (forall v, ph s = PHsSent v -> v = hs_version p a /\ 0 <= v)
    /\ (forall f i ms out, ph s = PAuth f i ms out ->
          f = framing_of p (hs_version p a) /\ 0 <= hs_version p a).
  Proof.
    induction 1 as [|s l s' R (IM & IH & IA) H].
    - cbn. repeat split; intros; try discriminate; tauto.
    - apply step_stepR in H. destruct H; cbn [tr ph fail];
        (split; [intros m0 [X|X]; try discriminate X;
                 try (destruct X as [X|X]; try discriminate X);
                 try (destruct X as [X|X]; try discriminate X);
                 try (apply IM; exact X); try (injection X as <-)
                | split; intros; try discriminate]).
      + apply vf_api.
      + apply vf_hs; assumption.
      + match goal with Q : PHsSent _ = PHsSent _ |- _ => injection Q as <- end.
        split; [reflexivity|]. apply Z.ltb_ge. assumption.
      + destruct (IH v H) as [-> Z0]. apply vf_auth; exact Z0.
      + match goal with Q : PAuth _ _ _ _ = PAuth _ _ _ _ |- _ => injection Q as <- _ _ _ end.
        destruct (IH v H) as [-> Z0]. split; [reflexivity|exact Z0].
      + destruct (IA _ _ _ _ H) as [-> Z0]. apply vf_auth; exact Z0.
      + match goal with Q : PAuth _ _ _ _ = PAuth _ _ _ _ |- _ => injection Q as <- _ _ _ end.
        exact (IA _ _ _ _ H).
      + apply vf_use; assumption.
  Qed.

  Lemma version_framing : forall s : stt, reach s ->
    forall m, In (ESend m) (tr s) ->
      (forall v, m = MReq K_SaslHandshake v -> v = hs_version p a /\ 0 <= v <= 1)
      /\ (authbytes_msg m = true -> (m = MRaw <-> hs_version p a = 0))
      /\ (forall v, m = MReq K_SaslAuthenticate v -> v = auth_version p a /\ hs_version p a = 1).
  Proof. intros s R m M. exact (proj1 (version_inv s R) m M). Qed.
End Machine.

(* ------------------------------------------------------------------ *)
Section Run.
  Variable mstate : Type.
  Variable mech_start : option (mstate * bytes).
  Variable mech_next : mstate -> bytes -> (bool * mstate * bytes * bool).
  Variable p : path.
  Variable a : advert.
  Variable sstate : Type.
  Variable srv_init : sstate.
  Variable srv_next : sstate -> bytes -> sreply sstate.

  Local Notation stt := (state mstate).
  Local Notation stp := (step mstate mech_start mech_next p a).
  Local Notation reach := (reachable mstate mech_start mech_next p a).
  Local Notation drv := (drive mstate mech_start mech_next p a sstate srv_next).
  Local Notation crn := (corun mstate mech_next sstate srv_next).

  Lemma drive_reachable : forall n fault k (s : stt) ss, reach s -> reach (drv n fault k s ss).
  Proof.
    induction n as [|n IH]; intros fault k s ss R; cbn [drive]; [exact R|].
    destruct (ph s); try exact R;
      try (destruct (srv_reply sstate srv_next ss out) as [[ss' pl]|]);
      match goal with
      | |- context [match Sasl.step _ _ _ _ _ ?s0 ?l with _ => _ end] =>
          destruct (Sasl.step mstate mech_start mech_next p a s0 l) eqn:St
      end; try exact R; try (apply IH; eapply reach_step; eauto).
    destruct (Sasl.step mstate mech_start mech_next p a s LDialRefused) eqn:St2; [|exact R].
    eapply reach_step; eauto.
  Qed.

  Lemma first_use_reachable : forall (s : stt) k v,
    reach s -> reach (first_use mstate mech_start mech_next p a s k v).
  Proof.
    intros s k v R. unfold first_use.
    destruct (stp s (LUse k v)) as [s1|] eqn:E1; [|exact R].
    assert (R1 : reach s1) by (eapply reach_step; eauto).
    destruct (stp s1 LUserClose) as [s2|] eqn:E2; [|exact R1].
    eapply reach_step; eauto.
  Qed.

  Lemma drive_stuck : forall n fault k (s : stt) ss,
    ph s = PFailed \/ ph s = PHandedOut \/ ph s = PUserClosed ->
    drv n fault k s ss = s.
  Proof.
    intros n fault k s ss H. destruct n; cbn [drive]; [reflexivity|].
    destruct H as [H|[H|H]]; rewrite H; reflexivity.
  Qed.

  Lemma drive_accepted : forall n fault k (s : stt) ss,
    accepted_or_out s = true -> accepted_or_out (drv n fault k s ss) = true.
  Proof.
    intros n fault k s ss H. destruct n; cbn [drive]; [exact H|].
    unfold accepted_or_out in H. destruct (ph s) eqn:E; try discriminate H.
    - unfold step. rewrite E. rewrite drive_stuck; [reflexivity|cbn; tauto].
    - unfold accepted_or_out. rewrite E. reflexivity.
    - unfold accepted_or_out. rewrite E. reflexivity.
  Qed.

  Lemma drive_corun : forall n (s : stt) ss k f i ms out, ph s = PAuth f i ms out ->
    accepted_or_out (drv n None k s ss) = crn n ms ss out.
  Proof.
    induction n as [|n IH]; intros s ss k f i ms out E.
    - cbn [drive corun]. unfold accepted_or_out. rewrite E. reflexivity.
    - cbn [drive corun]. rewrite E.
      destruct (srv_reply sstate srv_next ss out) as [[ss' pl]|].
      + cbn [pick]. unfold step. rewrite E. unfold on_challenge.
        destruct (mech_next ms pl) as [[[d ms'] resp] ok]. destruct d, ok.
        * apply drive_accepted. reflexivity.
        * rewrite drive_stuck; [reflexivity|cbn; tauto].
        * eapply IH. reflexivity.
        * rewrite drive_stuck; [reflexivity|cbn; tauto].
      + cbn [pick]. unfold step. rewrite E.
        destruct f; cbn; (rewrite drive_stuck; [reflexivity|cbn; tauto]).
  Qed.

  Lemma exchange_complete : forall n,
    port_is_number (dial_addr a) = true ->
    0 <= hs_version p a ->
    accepted_or_out (drv (3 + n) None 0 init (Some srv_init)) =
    match mech_start with
    | None => false
    | Some (ms, out) => crn n ms (Some srv_init) out
    end.
  Proof.
    intros n PN H. apply Z.ltb_ge in H.
    assert (DR : dialer_refuses p a = false) by (unfold dialer_refuses; rewrite PN; destruct p; reflexivity).
    assert (TR : transport_refuses p a = false) by (unfold transport_refuses; rewrite PN; destruct p; reflexivity).
    change (3 + n)%nat with (S (S (S n))). unfold init.
    cbn [drive ph tr step pick]. rewrite DR. cbn [drive ph tr step pick]. rewrite H, TR.
    cbn [orb drive ph tr step pick].
    destruct mech_start as [[ms out]|] eqn:M; rewrite <- M.
    - eapply drive_corun. reflexivity.
    - rewrite drive_stuck; [reflexivity|cbn; tauto].
  Qed.
End Run.

Lemma run_case_reachable : forall p a k c fault,
  reachable nat (shape_start k) (shape_next k) p a (run_case p a k c fault).
Proof.
  intros p a k c fault. unfold run_case.
  match goal with |- context [handed_out ?s] => set (s0 := s) end.
  assert (R : reachable nat (shape_start k) (shape_next k) p a s0)
    by (apply drive_reachable; apply reach_init).
  cbv zeta. destruct (handed_out s0); [apply first_use_reachable|]; exact R.
Qed.
