(* Proofs/WriterC01a.v — C01_no_foreign_log, C01_duplicates_only_by_retry,
   C08_rejected_never_sent. *)
From Coq Require Import List NArith Bool Arith Lia ZifyN ZifyNat ZifyBool.
From KV Require Import Lib.LTS Model.Writer Proofs.WriterStmts Proofs.WriterBase.
Import ListNotations.

(* ---------------------------------------------------------------- tactics *)
Ltac inv_step H :=
  repeat match type of H with
  | match ?x with _ => _ end = Some _ => let E := fresh "E" in destruct x eqn:E; try discriminate H
  end; inversion H; subst; clear H.

(* ---------------------------------------------------------------- lists *)
Lemma In_upd_nth : forall A (l : list A) i x y, In y (upd l i x) ->
  (y = x /\ i < length l) \/ In y l.
Proof.
  intros A l i x y H. apply In_nth_error in H. destruct H as [j H].
  apply nth_error_upd in H. destruct H as [[-> [-> L]]|[N H]]; [left; auto|right].
  eapply nth_error_In; eauto.
Qed.

Lemma snoc_decomp : forall A (j : list A) x j1 a j2 b j3,
  j ++ [x] = j1 ++ a :: j2 ++ b :: j3 ->
  (exists j3', j3 = j3' ++ [x] /\ j = j1 ++ a :: j2 ++ b :: j3') \/
  (j3 = [] /\ b = x /\ j = j1 ++ a :: j2).
Proof.
  intros A j x j1 a j2 b j3 H.
  destruct j3 as [|y j3] using rev_ind.
  - right. replace (j1 ++ a :: j2 ++ [b]) with ((j1 ++ a :: j2) ++ [b]) in H
      by (rewrite <- app_assoc; reflexivity).
    apply app_inj_tail in H. destruct H; subst; auto.
  - left. clear IHj3.
    replace (j1 ++ a :: j2 ++ b :: j3 ++ [y]) with ((j1 ++ a :: j2 ++ b :: j3) ++ [y]) in H.
    + apply app_inj_tail in H. destruct H; subst. eauto.
    + rewrite <- app_assoc. simpl. rewrite <- app_assoc. reflexivity.
Qed.

Definition timer_pw (pw : pwriter) (k : nat) : pwriter :=
  match pw_curr pw with
  | Some b => if Nat.eqb (b_k b) k then set_curr (put pw b) None else pw
  | None => pw
  end.

Lemma timer_pw_cases : forall pw k,
  timer_pw pw k = pw \/ exists b, pw_curr pw = Some b /\ timer_pw pw k = set_curr (put pw b) None.
Proof.
  intros pw k. unfold timer_pw. destruct (pw_curr pw) as [b|]; auto.
  destruct (b_k b =? k); eauto.
Qed.

Section WithCfg.
Variable cfg : config.

(* ---------------------------------------------------------------- pw_all *)
Definition pw_done (pw : pwriter) : list batch :=
  map fst (pw_fin pw) ++ opt_list (option_map sd_batch (pw_snd pw)).

Lemma pw_all_done : forall pw, pw_all pw = pw_done pw ++ pw_queue pw ++ opt_list (pw_curr pw).
Proof. intros. unfold pw_all, pw_done. rewrite <- app_assoc. reflexivity. Qed.

Lemma pw_done_all : forall pw b, In b (pw_done pw) -> In b (pw_all pw).
Proof. intros. rewrite pw_all_done. apply in_or_app; auto. Qed.

(* ---------------------------------------------------------------- pw_add *)
(* what pw_add does to the set of batches *)
Lemma pw_add_spec : forall pw m pw' k sp, pw_add cfg pw m = (pw', k, sp) ->
  pw_tp pw' = pw_tp pw /\ pw_fin pw' = pw_fin pw /\ pw_snd pw' = pw_snd pw /\
  forall b', In b' (pw_all pw') ->
    In b' (pw_all pw) \/
    exists b, b' = add_msg b m /\ b_k b = k /\ (pw_curr pw = Some b \/ b_msgs b = []).
Proof.
  intros pw m pw' k sp H. unfold pw_add, new_batch, put in H.
  destruct (pw_curr pw) as [b|] eqn:C; [destruct (add_fits cfg b m) eqn:F|];
  simpl in H; destruct (pw_open pw) eqn:O; simpl in H;
  match type of H with context [full cfg ?x] => destruct (full cfg x) eqn:Fu end;
  simpl in H; rewrite ?O in H; simpl in H;
  inversion H; subst; clear H; simpl;
  refine (conj eq_refl (conj eq_refl (conj eq_refl _)));
  unfold pw_all; simpl; rewrite ?C; intros b'; rewrite ?in_app_iff; simpl; rewrite ?in_app_iff; simpl;
  intros HH;
  repeat (destruct HH as [HH|HH]; auto 6);
  try contradiction;
  try (right; eexists; split; [symmetry; exact HH|]; simpl; auto; fail).
Qed.

(* pws_add / assign_one: an optional fresh partition writer, then pw_add on one open
   partition writer registered for the message's topic-partition *)
Lemma pws_add_spec : forall tp m pws i pws' ref sp,
  pws_add cfg tp m i pws = Some (pws', ref, sp) ->
  exists j pw pw' k, nth_error pws j = Some pw /\ pw_open pw = true /\ pw_tp pw = tp /\
    pw_add cfg pw m = (pw', k, sp) /\ pws' = upd pws j pw' /\ ref = (i + j, k).
Proof.
  induction pws as [|p r IH]; simpl; intros i pws' ref sp H; [discriminate|].
  destruct (pw_open p && tp_eqb (pw_tp p) tp) eqn:E.
  - destruct (pw_add cfg p m) as [[p' k] sp'] eqn:A. inversion H; subst; clear H.
    apply andb_true_iff in E. destruct E as [O T]. apply tp_eqb_eq in T.
    exists 0, p, p', k. simpl. rewrite Nat.add_0_r. auto 10.
  - destruct (pws_add cfg tp m (S i) r) as [[[r' ref'] sp']|] eqn:R; [|discriminate].
    inversion H; subst; clear H.
    destruct (IH _ _ _ _ R) as (j & pw & pw' & k & N & O & T & A & U & F).
    exists (S j), pw, pw', k. simpl. subst. replace (i + S j) with (S i + j) by lia. auto 10.
Qed.

Lemma assign_one_spec : forall pws wg refs m pws' wg' refs',
  assign_one cfg (pws, wg, refs) m = (pws', wg', refs') ->
  exists pws0 j pw pw' k sp,
    (pws0 = pws \/ pws0 = pws ++ [new_pw (tp_of cfg m)]) /\
    nth_error pws0 j = Some pw /\ pw_open pw = true /\ pw_tp pw = tp_of cfg m /\
    pw_add cfg pw m = (pw', k, sp) /\ pws' = upd pws0 j pw' /\ refs' = refs ++ [(j, k)].
Proof.
  intros pws wg refs m pws' wg' refs' H. unfold assign_one in H.
  destruct (pws_add cfg (tp_of cfg m) m 0 pws) as [[[r' ref'] sp']|] eqn:R.
  - inversion H; subst; clear H.
    destruct (pws_add_spec _ _ _ _ _ _ _ R) as (j & pw & pw' & k & N & O & T & A & U & F).
    exists pws, j, pw, pw', k, sp'. simpl in F. subst. auto 10.
  - destruct (pw_add cfg (new_pw (tp_of cfg m)) m) as [[p' k] sp'] eqn:A.
    inversion H; subst; clear H.
    exists (pws ++ [new_pw (tp_of cfg m)]), (length pws), (new_pw (tp_of cfg m)), p', k, sp'.
    split; [auto|]. split; [rewrite nth_error_app2, Nat.sub_diag by lia; reflexivity|].
    split; [reflexivity|]. split; [reflexivity|]. split; [exact A|]. split; [|reflexivity].
    clear. induction pws; simpl; congruence.
Qed.

(* induction principle for assign_all: a property of (pws, refs) preserved by adding a fresh
   partition writer and by one pw_add *)
Lemma assign_all_ind : forall (P : list msg -> list pwriter -> list (nat * nat) -> Prop) ms0,
  (forall pre m pws refs, P pre pws refs -> forall post, ms0 = pre ++ m :: post ->
     forall pws0 j pw pw' k sp,
     (pws0 = pws \/ pws0 = pws ++ [new_pw (tp_of cfg m)]) ->
     nth_error pws0 j = Some pw -> pw_open pw = true -> pw_tp pw = tp_of cfg m ->
     pw_add cfg pw m = (pw', k, sp) ->
     P (pre ++ [m]) (upd pws0 j pw') (refs ++ [(j, k)])) ->
  forall pws wg, P [] pws [] ->
  forall pws' wg' refs', assign_all cfg pws wg ms0 = (pws', wg', refs') -> P ms0 pws' refs'.
Proof.
  intros P ms0 Hstep pws wg H0 pws' wg' refs'. unfold assign_all.
  assert (G : forall post pre pws wg refs, ms0 = pre ++ post -> P pre pws refs ->
            fold_left (assign_one cfg) post (pws, wg, refs) = (pws', wg', refs') -> P ms0 pws' refs').
  { induction post as [|m post IH]; intros pre pws1 wg1 refs1 E HP HF; cbn [fold_left] in HF.
    - inversion HF; subst. rewrite app_nil_r. exact HP.
    - destruct (assign_one cfg (pws1, wg1, refs1) m) as [[pws2 wg2] refs2] eqn:A.
      destruct (assign_one_spec _ _ _ _ _ _ _ A) as (pws0 & j & pw & pw' & k & sp & H1 & H2 & H3 & H4 & H5 & H6 & H7).
      subst pws2 refs2.
      eapply (IH (pre ++ [m])); [rewrite <- app_assoc; exact E| |exact HF].
      eapply Hstep; eauto. }
  intros HF. eapply (G ms0 []); eauto.
Qed.

(* ---------------------------------------------------------------- routing (J2) *)
Definition route (pw : pwriter) : Prop :=
  forall b, In b (pw_all pw) -> forall m, In m (b_msgs b) -> tp_of cfg m = pw_tp pw.

Lemma route_incl : forall pw pw', pw_tp pw' = pw_tp pw ->
  (forall b, In b (pw_all pw') -> In b (pw_all pw)) -> route pw -> route pw'.
Proof. intros pw pw' T I R b Hb m Hm. rewrite T. eapply R; eauto. Qed.

Lemma flush_incl : forall pw b, pw_curr pw = Some b ->
  forall x, In x (pw_all (set_curr (put pw b) None)) -> In x (pw_all pw).
Proof.
  intros pw b C x. unfold put. destruct (pw_open pw); unfold pw_all; simpl; rewrite C;
    rewrite ?in_app_iff; simpl; rewrite ?in_app_iff; simpl; tauto.
Qed.

Lemma close_pw_incl : forall pw x, In x (pw_all (close_pw pw)) -> In x (pw_all pw).
Proof.
  intros pw x. unfold close_pw. destruct (pw_open pw) eqn:O; auto.
  destruct (pw_curr pw) as [b|] eqn:C; auto.
  intros H. apply (flush_incl pw b C). exact H.
Qed.

Lemma close_pw_tp : forall pw, pw_tp (close_pw pw) = pw_tp pw.
Proof.
  intros pw. unfold close_pw, put. destruct (pw_open pw); auto. destruct (pw_curr pw); auto.
Qed.

Lemma route_pw_add : forall pw m pw' k sp, pw_add cfg pw m = (pw', k, sp) ->
  pw_tp pw = tp_of cfg m -> route pw -> route pw'.
Proof.
  intros pw m pw' k sp A T R b' Hb x Hx.
  destruct (pw_add_spec _ _ _ _ _ A) as (T' & _ & _ & S). rewrite T'.
  destruct (S _ Hb) as [I|(b & -> & _ & C)]; [eapply R; eauto|].
  simpl in Hx. apply in_app_or in Hx. destruct Hx as [Hx|[<-|[]]]; [|auto].
  destruct C as [C|C]; [|rewrite C in Hx; destruct Hx].
  eapply R; [|exact Hx]. unfold pw_all. rewrite C. rewrite !in_app_iff. simpl. auto.
Qed.

Definition routes (pws : list pwriter) : Prop := forall pw, In pw pws -> route pw.

Lemma routes_upd : forall pws p pw, routes pws -> route pw -> routes (upd pws p pw).
Proof. intros pws p pw R Rp x Hx. apply upd_In in Hx. destruct Hx as [->|Hx]; auto. Qed.

Lemma route_new : forall tp, route (new_pw tp).
Proof. intros tp b Hb. destruct Hb. Qed.

Lemma routes_assign : forall pws wg ms pws' wg' refs',
  assign_all cfg pws wg ms = (pws', wg', refs') -> routes pws -> routes pws'.
Proof.
  intros pws wg ms pws' wg' refs' A R.
  apply (assign_all_ind (fun _ pws _ => routes pws) ms) with (pws := pws) (wg := wg) (wg' := wg') (refs' := refs'); auto.
  intros pre m pws1 refs R1 post E pws0 j pw pw' k sp H0 N O T PA.
  assert (R0 : routes pws0).
  { destruct H0 as [->| ->]; auto. intros x Hx. apply in_app_or in Hx.
    destruct Hx as [Hx|[<-|[]]]; auto. apply route_new. }
  apply routes_upd; auto. eapply route_pw_add; eauto. apply R0. eapply nth_error_In; eauto.
Qed.

Lemma routes_step : forall s l s', routes (s_pws s) -> step cfg s l = Some s' -> routes (s_pws s').
Proof.
  intros s l s' R H. destruct l; simpl in H.
  - inv_step H; simpl; auto.
  - inv_step H; simpl; [auto|eapply routes_assign; eauto].
  - inv_step H; simpl; apply routes_upd; auto.
    assert (Rp : route p0) by (apply R; eapply nth_error_In; eauto).
    fold (timer_pw p0 k). destruct (timer_pw_cases p0 k) as [->|(b & C & ->)].
    + eapply route_incl; [| |exact Rp]; [reflexivity|]; auto.
    + eapply route_incl; [| |exact Rp].
      * unfold put; destruct (pw_open p0); reflexivity.
      * intros x Hx. apply (flush_incl p0 b C). exact Hx.
  - inv_step H; simpl; apply routes_upd; auto.
    assert (Rp : route p0) by (apply R; eapply nth_error_In; eauto).
    eapply route_incl; [| |exact Rp]; [reflexivity|].
    intros x. unfold pw_all; simpl. rewrite E1, E2. simpl. rewrite !in_app_iff. simpl. tauto.
  - inv_step H; simpl; apply routes_upd; auto.
    assert (Rp : route p0) by (apply R; eapply nth_error_In; eauto).
    eapply route_incl; [| |exact Rp]; [reflexivity|].
    intros x. unfold pw_all; simpl. rewrite E1, E2. simpl. auto.
  - inv_step H; simpl; apply routes_upd; auto.
    assert (Rp : route p0) by (apply R; eapply nth_error_In; eauto).
    eapply route_incl; [| |exact Rp]; [reflexivity|].
    intros x. unfold pw_all; simpl. rewrite E0. simpl. auto.
  - inv_step H; simpl; apply routes_upd; auto.
    assert (Rp : route p0) by (apply R; eapply nth_error_In; eauto).
    eapply route_incl; [| |exact Rp]; [reflexivity|].
    intros x. unfold pw_all; simpl. rewrite E0. simpl. auto.
  - inv_step H; simpl; apply routes_upd; auto.
    assert (Rp : route p0) by (apply R; eapply nth_error_In; eauto).
    eapply route_incl; [| |exact Rp]; [reflexivity|].
    intros x. unfold pw_all; simpl. rewrite E0. simpl. rewrite map_app, !in_app_iff. simpl. rewrite ?in_app_iff. tauto.
  - inv_step H; simpl; auto.
  - inv_step H; simpl; auto.
  - inv_step H; simpl. intros pw Hpw. apply in_map_iff in Hpw. destruct Hpw as (pw0 & <- & Hpw).
    eapply route_incl; [apply close_pw_tp|apply close_pw_incl|auto].
  - inv_step H; simpl; auto.
Qed.

(* ---------------------------------------------------------------- journal / log steps *)
Lemma step_journal : forall s l s', step cfg s l = Some s' ->
  (s_journal s' = s_journal s /\ s_log s' = s_log s /\ forall p r, l <> Attempt p r) \/
  exists p r pw b n, l = Attempt p r /\ nth_error (s_pws s) p = Some pw /\
    pw_snd pw = Some (mkSnd b n PAttempt) /\
    s_pws s' = upd (s_pws s) p (set_snd pw (Some (mkSnd b (S n) (after_attempt cfg n (r_seen r))))) /\
    s_calls s' = s_calls s /\
    s_journal s' = s_journal s ++ [mkAtt p (b_k b) (pw_tp pw) (b_msgs b) (r_applied r) (r_seen r)] /\
    s_log s' = s_log s ++ (if r_applied r then map (pair (pw_tp pw)) (b_msgs b) else []).
Proof.
  intros s l s' H. destruct l; simpl in H;
    try (left; inv_step H; simpl; repeat split; auto; congruence).
  right. inv_step H. simpl. eauto 15.
Qed.

Lemma snd_in_all : forall pw b n ph, pw_snd pw = Some (mkSnd b n ph) -> In b (pw_all pw).
Proof. intros pw b n ph E. unfold pw_all. rewrite E. simpl. rewrite !in_app_iff. simpl. auto. Qed.

Definition log_ok (s : state) : Prop := forall tp m, In (tp, m) (s_log s) -> tp = tp_of cfg m.

Lemma log_ok_step : forall s l s', routes (s_pws s) -> log_ok s -> step cfg s l = Some s' -> log_ok s'.
Proof.
  intros s l s' R L H. destruct (step_journal _ _ _ H) as [(_ & E & _)|(p & r & pw & b & n & _ & N & S & _ & _ & _ & E)];
    unfold log_ok; rewrite E; auto.
  intros tp m Hm. apply in_app_or in Hm. destruct Hm as [Hm|Hm]; auto.
  destruct (r_applied r); [|destruct Hm].
  apply in_map_iff in Hm. destruct Hm as (x & Hx & Hi). inversion Hx; subst.
  symmetry. eapply R; [eapply nth_error_In; eauto|eapply snd_in_all; eauto|exact Hi].
Qed.

(* ---------------------------------------------------------------- numbering (J3) *)
Definition seqinv (pw : pwriter) : Prop :=
  map b_k (pw_all pw) = seq 0 (pw_nb pw) /\ (pw_curr pw <> None -> pw_open pw = true).

Ltac ks_norm := unfold pw_all; simpl; rewrite ?map_app; simpl; rewrite <- ?app_assoc; simpl.

Lemma seqinv_flush : forall pw b, pw_curr pw = Some b -> seqinv pw ->
  seqinv (set_curr (put pw b) None).
Proof.
  intros pw b C [S O]. unfold put. rewrite O by congruence. split; [|simpl; congruence].
  revert S. ks_norm. rewrite C. simpl. auto.
Qed.

Lemma seqinv_pw_add : forall pw m pw' k sp, pw_add cfg pw m = (pw', k, sp) ->
  pw_open pw = true -> seqinv pw -> seqinv pw'.
Proof.
  intros pw m pw' k sp H O [HS _]. unfold pw_add, new_batch, put in H.
  destruct (pw_curr pw) as [b|] eqn:C; [destruct (add_fits cfg b m) eqn:F|];
  simpl in H; rewrite ?O in H; simpl in H;
  match type of H with context [full cfg ?x] => destruct (full cfg x) eqn:Fu end;
  simpl in H; rewrite ?O in H; simpl in H;
  inversion H; subst; clear H; (split; [|simpl; auto; congruence]);
  revert HS; ks_norm; rewrite ?C; simpl; intros HS; auto.
  all: change (0 :: seq 1 (pw_nb pw)) with (seq 0 (S (pw_nb pw))); rewrite seq_S; simpl;
    rewrite <- HS, <- ?app_assoc; simpl; auto.
Qed.

Lemma seqinv_close : forall pw, seqinv pw -> seqinv (close_pw pw).
Proof.
  intros pw SI. unfold close_pw. destruct (pw_open pw) eqn:O; auto.
  destruct (pw_curr pw) as [b|] eqn:C.
  - destruct (seqinv_flush pw b C SI) as [HS _]. split; [exact HS|].
    unfold put. rewrite O. simpl. congruence.
  - destruct SI as [HS _]. split; [exact HS|]. simpl. congruence.
Qed.

Definition seqinvs (pws : list pwriter) : Prop := forall pw, In pw pws -> seqinv pw.

Lemma seqinvs_upd : forall pws p pw, seqinvs pws -> seqinv pw -> seqinvs (upd pws p pw).
Proof. intros pws p pw R Rp x Hx. apply upd_In in Hx. destruct Hx as [->|Hx]; auto. Qed.

Lemma seqinvs_assign : forall pws wg ms pws' wg' refs',
  assign_all cfg pws wg ms = (pws', wg', refs') -> seqinvs pws -> seqinvs pws'.
Proof.
  intros pws wg ms pws' wg' refs' A R.
  apply (assign_all_ind (fun _ pws _ => seqinvs pws) ms) with (pws := pws) (wg := wg) (wg' := wg') (refs' := refs'); auto.
  intros pre m pws1 refs R1 post E pws0 j pw pw' k sp H0 N O T PA.
  assert (R0 : seqinvs pws0).
  { destruct H0 as [->| ->]; auto. intros x Hx. apply in_app_or in Hx.
    destruct Hx as [Hx|[<-|[]]]; auto. split; simpl; auto. }
  apply seqinvs_upd; auto. eapply seqinv_pw_add; eauto. apply R0. eapply nth_error_In; eauto.
Qed.

Lemma seqinvs_step : forall s l s', seqinvs (s_pws s) -> step cfg s l = Some s' -> seqinvs (s_pws s').
Proof.
  intros s l s' R H. destruct l; simpl in H.
  - inv_step H; simpl; auto.
  - inv_step H; simpl; [auto|eapply seqinvs_assign; eauto].
  - inv_step H; simpl; apply seqinvs_upd; auto.
    assert (Rp : seqinv p0) by (apply R; eapply nth_error_In; eauto).
    fold (timer_pw p0 k). destruct (timer_pw_cases p0 k) as [->|(b & C & ->)].
    + exact Rp.
    + apply (seqinv_flush p0 b C Rp).
  - inv_step H; simpl; apply seqinvs_upd; auto.
    assert (Rp : seqinv p0) by (apply R; eapply nth_error_In; eauto).
    destruct Rp as [HS HO]. split; [|exact HO]. revert HS. ks_norm. rewrite E1, E2. simpl. rewrite ?map_app. simpl. rewrite <- ?app_assoc. simpl. auto.
  - inv_step H; simpl; apply seqinvs_upd; auto.
    assert (Rp : seqinv p0) by (apply R; eapply nth_error_In; eauto).
    destruct Rp as [HS HO]. split; [|simpl; rewrite <- E3; exact HO]. revert HS. ks_norm. rewrite E1, E2. simpl. rewrite ?map_app. simpl. rewrite <- ?app_assoc. simpl. auto.
  - inv_step H; simpl; apply seqinvs_upd; auto.
    assert (Rp : seqinv p0) by (apply R; eapply nth_error_In; eauto).
    destruct Rp as [HS HO]. split; [|exact HO]. revert HS. ks_norm. rewrite E0. simpl. rewrite ?map_app. simpl. rewrite <- ?app_assoc. simpl. auto.
  - inv_step H; simpl; apply seqinvs_upd; auto.
    assert (Rp : seqinv p0) by (apply R; eapply nth_error_In; eauto).
    destruct Rp as [HS HO]. split; [|exact HO]. revert HS. ks_norm. rewrite E0. simpl. rewrite ?map_app. simpl. rewrite <- ?app_assoc. simpl. auto.
  - inv_step H; simpl; apply seqinvs_upd; auto.
    assert (Rp : seqinv p0) by (apply R; eapply nth_error_In; eauto).
    destruct Rp as [HS HO]. split; [|exact HO]. revert HS. ks_norm. rewrite E0. simpl. rewrite ?map_app. simpl. rewrite <- ?app_assoc. simpl. auto.
  - inv_step H; simpl; auto.
  - inv_step H; simpl; auto.
  - inv_step H; simpl. intros pw Hpw. apply in_map_iff in Hpw. destruct Hpw as (pw0 & <- & Hpw).
    apply seqinv_close. auto.
  - inv_step H; simpl; auto.
Qed.

(* ---------------------------------------------------------------- journal vs partition writers *)
Lemma NoDup_app_disj : forall A (l1 l2 : list A) x, NoDup (l1 ++ l2) -> In x l1 -> In x l2 -> False.
Proof.
  induction l1 as [|y l1 IH]; simpl; intros l2 x N H1 H2; [contradiction|].
  inversion N; subst. destruct H1 as [->|H1].
  - apply H3. apply in_or_app; auto.
  - eapply IH; eauto.
Qed.

Lemma NoDup_map_inj : forall A B (f : A -> B) l x y,
  NoDup (map f l) -> In x l -> In y l -> f x = f y -> x = y.
Proof.
  induction l as [|z l IH]; simpl; intros x y N Hx Hy E; [contradiction|].
  inversion N; subst. destruct Hx as [->|Hx], Hy as [->|Hy]; auto.
  - exfalso. apply H1. rewrite E. apply in_map. exact Hy.
  - exfalso. apply H1. rewrite <- E. apply in_map. exact Hx.
Qed.

Lemma seqinv_inj : forall pw b1 b2, seqinv pw -> In b1 (pw_all pw) -> In b2 (pw_all pw) ->
  b_k b1 = b_k b2 -> b1 = b2.
Proof.
  intros pw b1 b2 [HS _] H1 H2 E. eapply NoDup_map_inj; eauto. rewrite HS. apply seq_NoDup.
Qed.

Lemma seqinv_done_rest : forall pw b1 b2, seqinv pw -> In b1 (pw_done pw) ->
  In b2 (pw_queue pw ++ opt_list (pw_curr pw)) -> b_k b1 <> b_k b2.
Proof.
  intros pw b1 b2 [HS _] H1 H2 E. rewrite pw_all_done, map_app in HS.
  eapply NoDup_app_disj.
  - rewrite HS. apply seq_NoDup.
  - apply in_map. exact H1.
  - rewrite E. apply in_map. exact H2.
Qed.

Definition count (p k : nat) (j : list attempt) : nat :=
  length (filter (fun a => Nat.eqb (a_pw a) p && Nat.eqb (a_k a) k) j).

Lemma count_app : forall p k j1 j2, count p k (j1 ++ j2) = count p k j1 + count p k j2.
Proof. intros. unfold count. rewrite filter_app, app_length. reflexivity. Qed.

Lemma count_zero : forall p k j, (forall a, In a j -> a_pw a = p -> a_k a = k -> False) -> count p k j = 0.
Proof.
  induction j as [|a j IH]; intros H; [reflexivity|]. unfold count in *. simpl.
  destruct (Nat.eqb (a_pw a) p && Nat.eqb (a_k a) k) eqn:E.
  - apply andb_true_iff in E. destruct E as [E1 E2]. apply Nat.eqb_eq in E1, E2.
    exfalso. eapply H; simpl; eauto.
  - apply IH. intros a' Ha. apply H. simpl; auto.
Qed.

Definition retr (a : attempt) : Prop := exists e, a_seen a = Some e /\ retriable cfg e = true.

Definition JA (pws : list pwriter) (j : list attempt) : Prop :=
  forall a, In a j -> exists pw b, nth_error pws (a_pw a) = Some pw /\ In b (pw_done pw) /\
    b_k b = a_k a /\ b_msgs b = a_msgs a /\ a_tp a = pw_tp pw.

Definition JBp (p : nat) (b : batch) (n : nat) (ph : sphase) (j : list attempt) : Prop :=
  count p (b_k b) j = n /\
  match ph with
  | PFinish _ => n <= maxAttempts cfg
  | _ => n < maxAttempts cfg /\ forall a, In a j -> a_pw a = p -> a_k a = b_k b -> retr a
  end.

Definition JB (pws : list pwriter) (j : list attempt) : Prop :=
  forall p pw b n ph, nth_error pws p = Some pw -> pw_snd pw = Some (mkSnd b n ph) -> JBp p b n ph j.

Definition JC (j : list attempt) : Prop := forall p k, count p k j <= maxAttempts cfg.

(* the partition writers keep tp, fin and snd; new ones have no batch in flight *)
Definition same_done (pws pws' : list pwriter) : Prop :=
  length pws <= length pws' /\
  forall p pw', nth_error pws' p = Some pw' ->
    match nth_error pws p with
    | Some pw => pw_tp pw' = pw_tp pw /\ pw_fin pw' = pw_fin pw /\ pw_snd pw' = pw_snd pw
    | None => pw_snd pw' = None
    end.

Lemma same_done_refl : forall pws, same_done pws pws.
Proof. intros pws. split; auto. intros p pw' H. rewrite H. auto. Qed.

Lemma same_done_trans : forall a b c, same_done a b -> same_done b c -> same_done a c.
Proof.
  intros a b c [L1 H1] [L2 H2]. split; [lia|]. intros p pw'' H.
  specialize (H2 p pw'' H). destruct (nth_error b p) as [pw'|] eqn:E.
  - specialize (H1 p pw' E). destruct (nth_error a p) as [pw|].
    + destruct H2 as (-> & -> & ->). exact H1.
    + destruct H2 as (_ & _ & ->). exact H1.
  - assert (nth_error a p = None) as ->; auto.
    apply nth_error_None. apply nth_error_None in E. lia.
Qed.

Lemma same_done_upd : forall pws p pw x, nth_error pws p = Some pw ->
  pw_tp x = pw_tp pw -> pw_fin x = pw_fin pw -> pw_snd x = pw_snd pw -> same_done pws (upd pws p x).
Proof.
  intros pws p pw x N T F S. split; [rewrite upd_length; auto|]. intros q pw' H.
  apply nth_error_upd in H. destruct H as [(-> & -> & _)|[_ H]].
  - rewrite N. auto.
  - rewrite H. auto.
Qed.

Lemma same_done_snoc : forall pws x, pw_snd x = None -> same_done pws (pws ++ [x]).
Proof.
  intros pws x S. split; [rewrite app_length; lia|]. intros q pw' H.
  destruct (nth_error pws q) as [pw|] eqn:E.
  - rewrite nth_error_app1 in H by (apply nth_error_Some; congruence). rewrite E in H. inversion H; auto.
  - apply nth_error_None in E. rewrite nth_error_app2 in H by exact E.
    destruct (q - length pws) as [|d]; simpl in H; [inversion H; subst; auto|destruct d; discriminate].
Qed.

Lemma close_pw_same : forall pw, pw_tp (close_pw pw) = pw_tp pw /\ pw_fin (close_pw pw) = pw_fin pw /\
  pw_snd (close_pw pw) = pw_snd pw.
Proof.
  intros pw. unfold close_pw, put. destruct (pw_open pw); auto. destruct (pw_curr pw); auto.
Qed.

Lemma same_done_close : forall pws, same_done pws (map close_pw pws).
Proof.
  intros pws. split; [rewrite map_length; auto|]. intros p pw' H.
  rewrite nth_error_map in H. destruct (nth_error pws p) as [pw|]; [|discriminate].
  inversion H; subst. apply close_pw_same.
Qed.

Lemma same_done_assign : forall pws wg ms pws' wg' refs',
  assign_all cfg pws wg ms = (pws', wg', refs') -> same_done pws pws'.
Proof.
  intros pws wg ms pws' wg' refs' A.
  apply (assign_all_ind (fun _ x _ => same_done pws x) ms) with (pws := pws) (wg := wg) (wg' := wg') (refs' := refs'); auto.
  - intros pre m pws1 refs R1 post E pws0 j pw pw' k sp H0 N O T PA.
    destruct (pw_add_spec _ _ _ _ _ PA) as (T' & F' & S' & _).
    eapply same_done_trans; [|eapply same_done_upd; eauto].
    destruct H0 as [->| ->]; auto. eapply same_done_trans; [exact R1|]. apply same_done_snoc. reflexivity.
  - apply same_done_refl.
Qed.

Lemma same_done_J : forall pws pws' j, same_done pws pws' -> JA pws j /\ JB pws j -> JA pws' j /\ JB pws' j.
Proof.
  intros pws pws' j [L H] [A B]. split.
  - intros a Ha. destruct (A a Ha) as (pw & b & N & Hb & K & M & T).
    destruct (nth_error pws' (a_pw a)) as [pw'|] eqn:E.
    + specialize (H _ _ E). rewrite N in H. destruct H as (T' & F' & S').
      exists pw', b. unfold pw_done in *. rewrite F', S', T'. auto.
    + exfalso. apply nth_error_None in E. assert (a_pw a < length pws) by (apply nth_error_Some; congruence). lia.
  - intros p pw' b n ph N S. specialize (H _ _ N). destruct (nth_error pws p) as [pw|] eqn:E.
    + destruct H as (_ & _ & S'). eapply B; eauto. congruence.
    + congruence.
Qed.

Lemma JA_upd : forall pws j p pw x, JA pws j -> nth_error pws p = Some pw ->
  pw_tp x = pw_tp pw -> (forall b, In b (pw_done pw) -> In b (pw_done x)) -> JA (upd pws p x) j.
Proof.
  intros pws j p pw x A N T I a Ha. destruct (A a Ha) as (pw0 & b & N0 & Hb & K & M & T0).
  destruct (Nat.eq_dec p (a_pw a)) as [Ep|D].
  - rewrite <- Ep in *. rewrite N in N0. inversion N0; subst pw0. exists x, b.
    rewrite nth_error_upd_eq by (apply nth_error_Some; congruence). rewrite T. auto 6.
  - exists pw0, b. rewrite nth_error_upd_neq by exact D. auto 6.
Qed.

Lemma JB_upd : forall pws j p x, JB pws j ->
  (forall b n ph, pw_snd x = Some (mkSnd b n ph) -> JBp p b n ph j) -> JB (upd pws p x) j.
Proof.
  intros pws j p x B Hx q pw' b n ph N S.
  apply nth_error_upd in N. destruct N as [(-> & -> & _)|[_ N]]; eauto.
Qed.

Definition JJ (s : state) : Prop := JA (s_pws s) (s_journal s) /\ JB (s_pws s) (s_journal s) /\ JC (s_journal s).

Lemma JJ_same : forall s s', JJ s -> s_journal s' = s_journal s -> same_done (s_pws s) (s_pws s') -> JJ s'.
Proof.
  intros s s' (A & B & C) EJ SD. unfold JJ. rewrite EJ.
  destruct (same_done_J _ _ _ SD (conj A B)). auto.
Qed.

Lemma count_one : forall p k a, count p k [a] = if Nat.eqb (a_pw a) p && Nat.eqb (a_k a) k then 1 else 0.
Proof. intros. unfold count. simpl. destruct (_ && _); reflexivity. Qed.

Lemma JJ_step : forall s l s', seqinvs (s_pws s) -> JJ s -> step cfg s l = Some s' -> JJ s'.
Proof.
  intros s l s' SI J H. destruct l; simpl in H.
  - (* Call *) inv_step H; (eapply JJ_same; [exact J|reflexivity|apply same_done_refl]).
  - (* Assign *) inv_step H; (eapply JJ_same; [exact J|reflexivity|]); simpl; [apply same_done_refl|eapply same_done_assign; eauto].
  - (* Timer *) inv_step H. eapply JJ_same; [exact J|reflexivity|]. simpl.
    eapply same_done_upd; eauto; fold (timer_pw p0 k);
      destruct (timer_pw_cases p0 k) as [->|(b & C & ->)]; auto;
      unfold put; destruct (pw_open p0); reflexivity.
  - (* Get *) inv_step H. destruct J as (A & B & C). unfold JJ; simpl. split; [|split; auto].
    + eapply JA_upd; eauto. intros x. unfold pw_done; simpl. rewrite E1. simpl. rewrite !in_app_iff. simpl. tauto.
    + apply JB_upd; auto. simpl. intros b0 n ph Hs. inversion Hs; subst; clear Hs.
      assert (Z : forall a, In a (s_journal s) -> a_pw a = p -> a_k a = b_k b0 -> False).
      { intros a Ha Hp Hk. destruct (A a Ha) as (pw0 & b1 & N0 & Hb & K & _).
        rewrite Hp, E in N0. inversion N0; subst pw0.
        eapply (seqinv_done_rest p0 b1 b0); [apply SI; eapply nth_error_In; eauto|exact Hb| |congruence].
        rewrite E2. simpl; auto. }
      split; [apply count_zero; exact Z|].
      destruct (0 <? maxAttempts cfg) eqn:M; [|lia].
      split; [apply Nat.ltb_lt in M; exact M|]. intros a Ha Hp Hk. exfalso. eapply Z; eauto.
  - (* SenderExit *) inv_step H. eapply JJ_same; [exact J|reflexivity|]. simpl.
    eapply same_done_upd; eauto.
  - (* Attempt *) inv_step H. destruct J as (A & B & C). unfold JJ; simpl.
    destruct (B _ _ _ _ _ E E0) as [Cn [Lt Rt]].
    assert (Lp : p < length (s_pws s)) by (apply nth_error_Some; congruence).
    set (new := mkAtt p (b_k sd_batch) (pw_tp p0) (b_msgs sd_batch) (r_applied r) (r_seen r)).
    split; [|split].
    + intros a Ha. apply in_app_or in Ha. destruct Ha as [Ha|[<-|[]]].
      * eapply JA_upd; eauto. intros x. unfold pw_done; simpl. rewrite E0. auto.
      * exists (set_snd p0 (Some (mkSnd sd_batch (S sd_att) (after_attempt cfg sd_att (r_seen r))))), sd_batch.
        simpl. rewrite nth_error_upd_eq by exact Lp. unfold pw_done. simpl. rewrite in_app_iff. simpl. auto 7.
    + intros q pw' b n ph N S. apply nth_error_upd in N. destruct N as [(<- & -> & _)|[D N]].
      * simpl in S. inversion S; subst b n ph; clear S. split.
        { rewrite count_app, count_one. simpl. rewrite !Nat.eqb_refl. simpl. lia. }
        unfold after_attempt. destruct (r_seen r) as [e|] eqn:Se; [|lia].
        destruct (retriable cfg e) eqn:Re; [|lia].
        destruct (S sd_att <? maxAttempts cfg) eqn:M; [|lia].
        apply Nat.ltb_lt in M. split; [exact M|].
        intros a Ha Hp Hk. apply in_app_or in Ha. destruct Ha as [Ha|[<-|[]]]; auto.
        exists e. simpl. auto.
      * destruct (B _ _ _ _ _ N S) as [Cn' Ph']. split.
        { rewrite count_app, count_one. simpl. replace (p =? q) with false by (symmetry; apply Nat.eqb_neq; exact D).
          simpl. lia. }
        destruct ph; auto; destruct Ph' as [L' R']; (split; [exact L'|]);
          intros a Ha Hp Hk; (apply in_app_or in Ha; destruct Ha as [Ha|[<-|[]]]; [auto|simpl in Hp; congruence]).
    + intros q k. rewrite count_app, count_one. simpl.
      destruct ((p =? q) && (b_k sd_batch =? k)) eqn:M.
      * apply andb_true_iff in M. destruct M as [M1 M2]. apply Nat.eqb_eq in M1, M2. subst q k. lia.
      * specialize (C q k). lia.
  - (* BackoffDone *) inv_step H. destruct J as (A & B & C). unfold JJ; simpl. split; [|split; auto].
    + eapply JA_upd; eauto. intros x. unfold pw_done; simpl. rewrite E0. auto.
    + apply JB_upd; auto. simpl. intros b0 n ph Hs. inversion Hs; subst; clear Hs.
      exact (B _ _ _ _ _ E E0).
  - (* Finish *) inv_step H. destruct J as (A & B & C). unfold JJ; simpl. split; [|split; auto].
    + eapply JA_upd; eauto. intros x. unfold pw_done; simpl. rewrite E0. simpl.
      rewrite map_app, !in_app_iff. simpl. tauto.
    + apply JB_upd; auto. simpl. intros b0 n ph Hs. discriminate.
  - (* Return *) inv_step H; (eapply JJ_same; [exact J|reflexivity|apply same_done_refl]).
  - (* CtxDone *) inv_step H; (eapply JJ_same; [exact J|reflexivity|apply same_done_refl]).
  - (* CloseMark *) inv_step H. eapply JJ_same; [exact J|reflexivity|]. simpl. apply same_done_close.
  - (* CloseWaitDone *) inv_step H; (eapply JJ_same; [exact J|reflexivity|apply same_done_refl]).
Qed.

(* ---------------------------------------------------------------- J1: log = applied attempts *)
Definition log_of_journal (j : list attempt) : list (tpart * msg) :=
  flat_map (fun a => if a_applied a then map (pair (a_tp a)) (a_msgs a) else []) j.

Lemma J1_step : forall s l s', s_log s = log_of_journal (s_journal s) -> step cfg s l = Some s' ->
  s_log s' = log_of_journal (s_journal s').
Proof.
  intros s l s' L H.
  destruct (step_journal _ _ _ H) as [(EJ & E & _)|(p & r & pw & b & n & _ & N & S & _ & _ & EJ & E)];
    rewrite E, EJ; auto.
  unfold log_of_journal in *. rewrite flat_map_app. simpl. rewrite app_nil_r. rewrite <- L. reflexivity.
Qed.

(* ---------------------------------------------------------------- J5: ids and provenance *)
Lemma NoDup_app_intro : forall A (l1 l2 : list A), NoDup l1 -> NoDup l2 ->
  (forall x, In x l1 -> In x l2 -> False) -> NoDup (l1 ++ l2).
Proof.
  induction l1 as [|y l1 IH]; simpl; intros l2 N1 N2 D; auto.
  inversion N1; subst. constructor.
  - intros H. apply in_app_or in H. destruct H as [H|H]; [auto|]. eapply D; eauto.
  - apply IH; auto. intros x Hx. apply D. auto.
Qed.

Lemma NoDup_app_l : forall A (l1 l2 : list A), NoDup (l1 ++ l2) -> NoDup l1.
Proof.
  induction l1 as [|y l1 IH]; simpl; intros l2 N; [constructor|].
  inversion N; subst. constructor; eauto. intros H. apply H1. apply in_or_app; auto.
Qed.

Lemma NoDup_app_r : forall A (l1 l2 : list A), NoDup (l1 ++ l2) -> NoDup l2.
Proof. induction l1 as [|y l1 IH]; simpl; intros l2 N; auto. inversion N; subst. auto. Qed.

Lemma nodupb_NoDup : forall l, nodupb l = true -> NoDup l.
Proof.
  induction l as [|x l IH]; simpl; intros H; [constructor|].
  apply andb_true_iff in H. destruct H as [H1 H2]. constructor; auto.
  intros I. apply negb_true_iff in H1.
  assert (existsb (N.eqb x) l = true); [|congruence].
  apply existsb_exists. exists x. split; auto. apply N.eqb_refl.
Qed.

Lemma used_ids_snoc : forall cs cl, used_ids (cs ++ [cl]) = used_ids cs ++ map m_id (c_msgs cl).
Proof. intros. unfold used_ids. rewrite flat_map_app. simpl. rewrite app_nil_r. reflexivity. Qed.

Lemma used_ids_upd : forall cs c cl cl', nth_error cs c = Some cl -> c_msgs cl' = c_msgs cl ->
  used_ids (upd cs c cl') = used_ids cs.
Proof.
  induction cs as [|x cs IH]; intros c cl cl' N M; destruct c; simpl in *; try discriminate.
  - inversion N; subst. rewrite M. reflexivity.
  - f_equal. eapply IH; eauto.
Qed.

Lemma admissible_NoDup : forall s g msgs cl, call_admissible s g msgs = true ->
  c_msgs cl = msgs -> NoDup (used_ids (s_calls s)) -> NoDup (used_ids (s_calls s ++ [cl])).
Proof.
  intros s g msgs cl H M N. unfold call_admissible in H.
  apply andb_true_iff in H. destruct H as [H H3]. apply andb_true_iff in H. destruct H as [_ H2].
  rewrite used_ids_snoc, M. apply NoDup_app_intro; auto.
  - apply nodupb_NoDup. exact H2.
  - intros x H1 Hx. apply in_map_iff in Hx. destruct Hx as (m & <- & Hm).
    rewrite forallb_forall in H3. specialize (H3 m Hm). apply negb_true_iff in H3.
    assert (existsb (N.eqb (m_id m)) (used_ids (s_calls s)) = true); [|congruence].
    apply existsb_exists. exists (m_id m). split; auto. apply N.eqb_refl.
Qed.

Lemma used_ids_unique : forall cs c cl i m c' cl' i',
  NoDup (used_ids cs) ->
  nth_error cs c = Some cl -> nth_error (c_msgs cl) i = Some m ->
  nth_error cs c' = Some cl' -> nth_error (c_msgs cl') i' = Some m -> c = c' /\ i = i'.
Proof.
  induction cs as [|x cs IH]; intros c cl i m c' cl' i' N H1 H2 H3 H4; [destruct c; discriminate|].
  change (used_ids (x :: cs)) with (map m_id (c_msgs x) ++ used_ids cs) in N.
  assert (IN : forall d dl k, nth_error cs d = Some dl -> nth_error (c_msgs dl) k = Some m ->
               In (m_id m) (used_ids cs)).
  { intros d dl k D1 D2. unfold used_ids. apply in_flat_map. exists dl.
    split; [eapply nth_error_In; eauto|]. apply in_map. eapply nth_error_In; eauto. }
  destruct c as [|c], c' as [|c']; simpl in H1, H3.
  - inversion H1; inversion H3; subst. split; auto.
    apply NoDup_app_l in N. rewrite NoDup_nth_error in N. apply N.
    + rewrite map_length. apply nth_error_Some. congruence.
    + rewrite (map_nth_error m_id _ _ H2), (map_nth_error m_id _ _ H4). reflexivity.
  - exfalso. inversion H1; subst. eapply NoDup_app_disj; [exact N| |eapply IN; eauto].
    apply in_map. eapply nth_error_In; eauto.
  - exfalso. inversion H3; subst. eapply NoDup_app_disj; [exact N| |eapply IN; eauto].
    apply in_map. eapply nth_error_In; eauto.
  - apply NoDup_app_r in N. destruct (IH _ _ _ _ _ _ _ N H1 H2 H3 H4). auto.
Qed.

Definition witness (cs : list call) (p k : nat) (m : msg) : Prop :=
  exists c cl i, nth_error cs c = Some cl /\ c_ph cl <> CEntered /\ rejected cl = false /\
    nth_error (c_msgs cl) i = Some m /\ nth_error (c_refs cl) i = Some (p, k).

Definition prov (cs : list call) (pws : list pwriter) : Prop :=
  forall p pw b m, nth_error pws p = Some pw -> In b (pw_all pw) -> In m (b_msgs b) ->
    witness cs p (b_k b) m.

Definition calls_ext (cs cs' : list call) : Prop :=
  forall c cl, nth_error cs c = Some cl -> c_ph cl <> CEntered -> rejected cl = false ->
    exists cl', nth_error cs' c = Some cl' /\ c_msgs cl' = c_msgs cl /\ c_refs cl' = c_refs cl /\
                c_ph cl' <> CEntered /\ rejected cl' = false.

Lemma witness_ext : forall cs cs' p k m, calls_ext cs cs' -> witness cs p k m -> witness cs' p k m.
Proof.
  intros cs cs' p k m X (c & cl & i & N & P & R & M & F).
  destruct (X c cl N P R) as (cl' & N' & M' & F' & P' & R').
  exists c, cl', i. rewrite M', F'. auto 6.
Qed.

Lemma calls_ext_refl : forall cs, calls_ext cs cs.
Proof. intros cs c cl N P R. exists cl. auto 6. Qed.

Lemma calls_ext_snoc : forall cs x, calls_ext cs (cs ++ [x]).
Proof.
  intros cs x c cl N P R. exists cl. rewrite nth_error_app1 by (apply nth_error_Some; congruence). auto 6.
Qed.

Lemma calls_ext_upd : forall cs c cl x, nth_error cs c = Some cl ->
  (c_ph cl <> CEntered -> c_msgs x = c_msgs cl /\ c_refs x = c_refs cl /\ c_ph x <> CEntered /\ rejected x = false) ->
  calls_ext cs (upd cs c x).
Proof.
  intros cs c cl x N H d dl Nd P R. destruct (Nat.eq_dec c d) as [<-|D].
  - rewrite N in Nd. inversion Nd; subst dl. exists x.
    rewrite nth_error_upd_eq by (apply nth_error_Some; congruence). destruct (H P) as (? & ? & ? & ?). auto 6.
  - exists dl. rewrite nth_error_upd_neq by exact D. auto 6.
Qed.

Definition pws_sub (pws pws' : list pwriter) : Prop :=
  forall p pw', nth_error pws' p = Some pw' ->
    exists pw, nth_error pws p = Some pw /\ forall b, In b (pw_all pw') -> In b (pw_all pw).

Lemma pws_sub_refl : forall pws, pws_sub pws pws.
Proof. intros pws p pw' N. eauto. Qed.

Lemma pws_sub_upd : forall pws p pw x, nth_error pws p = Some pw ->
  (forall b, In b (pw_all x) -> In b (pw_all pw)) -> pws_sub pws (upd pws p x).
Proof.
  intros pws p pw x N I q pw' H. apply nth_error_upd in H. destruct H as [(<- & -> & _)|[_ H]]; eauto.
Qed.

Lemma prov_sub : forall cs cs' pws pws', calls_ext cs cs' -> pws_sub pws pws' -> prov cs pws -> prov cs' pws'.
Proof.
  intros cs cs' pws pws' X S P p pw' b m N Hb Hm.
  destruct (S p pw' N) as (pw & N0 & I). eapply witness_ext; eauto.
Qed.

Lemma step_pws_sub : forall s l s', step cfg s l = Some s' -> (forall c, l <> Assign c) ->
  pws_sub (s_pws s) (s_pws s').
Proof.
  intros s l s' H NA. destruct l; simpl in H.
  - inv_step H; simpl; apply pws_sub_refl.
  - exfalso. eapply NA; eauto.
  - inv_step H; simpl. eapply pws_sub_upd; eauto.
    fold (timer_pw p0 k). destruct (timer_pw_cases p0 k) as [->|(b & C & ->)]; auto.
    intros x Hx. apply (flush_incl p0 b C). exact Hx.
  - inv_step H; simpl. eapply pws_sub_upd; eauto.
    intros x. unfold pw_all; simpl. rewrite E1, E2. simpl. rewrite !in_app_iff. simpl. tauto.
  - inv_step H; simpl. eapply pws_sub_upd; eauto.
    intros x. unfold pw_all; simpl. rewrite E1, E2. simpl. auto.
  - inv_step H; simpl. eapply pws_sub_upd; eauto.
    intros x. unfold pw_all; simpl. rewrite E0. simpl. auto.
  - inv_step H; simpl. eapply pws_sub_upd; eauto.
    intros x. unfold pw_all; simpl. rewrite E0. simpl. auto.
  - inv_step H; simpl. eapply pws_sub_upd; eauto.
    intros x. unfold pw_all; simpl. rewrite E0. simpl. rewrite map_app, !in_app_iff. simpl. rewrite ?in_app_iff. tauto.
  - inv_step H; simpl; apply pws_sub_refl.
  - inv_step H; simpl; apply pws_sub_refl.
  - inv_step H; simpl. intros p pw' N. rewrite nth_error_map in N.
    destruct (nth_error (s_pws s) p) as [pw|]; [|discriminate]. inversion N; subst.
    exists pw. split; auto. apply close_pw_incl.
  - inv_step H; simpl; apply pws_sub_refl.
Qed.

Lemma step_calls_ext : forall s l s', step cfg s l = Some s' -> calls_ext (s_calls s) (s_calls s').
Proof.
  intros s l s' H. destruct l; simpl in H;
    try (inv_step H; simpl; apply calls_ext_refl; fail).
  - inv_step H; simpl; apply calls_ext_snoc.
  - inv_step H; simpl; (eapply calls_ext_upd; [eauto|]); intros; congruence.
  - inv_step H; simpl; (eapply calls_ext_upd; [eauto|]); intros _; simpl; repeat split; try congruence.
    destruct (forallb is_none l); reflexivity.
  - inv_step H; simpl; (eapply calls_ext_upd; [eauto|]); intros _; simpl; repeat split; congruence.
Qed.

Lemma step_used_ids : forall s l s', step cfg s l = Some s' -> NoDup (used_ids (s_calls s)) ->
  NoDup (used_ids (s_calls s')).
Proof.
  intros s l s' H N. destruct l; simpl in H;
    try (inv_step H; simpl; auto; fail).
  - inv_step H; simpl; eapply admissible_NoDup; eauto.
  - inv_step H; simpl; erewrite used_ids_upd; eauto.
  - inv_step H; simpl; erewrite used_ids_upd; eauto.
  - inv_step H; simpl; erewrite used_ids_upd; eauto.
Qed.

Lemma prov_assign : forall cs pws wg ms pws' wg' refs',
  assign_all cfg pws wg ms = (pws', wg', refs') -> prov cs pws ->
  forall p pw b m, nth_error pws' p = Some pw -> In b (pw_all pw) -> In m (b_msgs b) ->
    witness cs p (b_k b) m \/
    exists i, nth_error ms i = Some m /\ nth_error refs' i = Some (p, b_k b).
Proof.
  intros cs pws wg ms pws' wg' refs' A P.
  apply (assign_all_ind (fun pre x refs => length refs = length pre /\
          forall p pw b m, nth_error x p = Some pw -> In b (pw_all pw) -> In m (b_msgs b) ->
            witness cs p (b_k b) m \/
            exists i, nth_error pre i = Some m /\ nth_error refs i = Some (p, b_k b)) ms)
    with (pws := pws) (wg := wg) (wg' := wg') (refs' := refs'); auto.
  - intros pre m0 pws1 refs [L R1] post E pws0 j pw pw' k sp H0 N O T PA.
    split; [rewrite !app_length; simpl; lia|].
    assert (R0 : forall p pw b m, nth_error pws0 p = Some pw -> In b (pw_all pw) -> In m (b_msgs b) ->
              witness cs p (b_k b) m \/
              exists i, nth_error (pre ++ [m0]) i = Some m /\ nth_error (refs ++ [(j, k)]) i = Some (p, b_k b)).
    { intros p1 pw1 b1 m1 N1 Hb Hm.
      assert (N1' : nth_error pws1 p1 = Some pw1).
      { destruct H0 as [->| ->]; auto.
        destruct (Nat.lt_ge_cases p1 (length pws1)) as [Lt|Ge].
        - rewrite nth_error_app1 in N1 by exact Lt. exact N1.
        - rewrite nth_error_app2 in N1 by exact Ge.
          destruct (p1 - length pws1) as [|d]; simpl in N1; [|destruct d; discriminate].
          inversion N1; subst pw1. destruct Hb. }
      destruct (R1 _ _ _ _ N1' Hb Hm) as [W|(i & I1 & I2)]; auto.
      right. exists i.
      rewrite !nth_error_app1; auto; apply nth_error_Some; congruence. }
    intros p1 pw1 b1 m1 N1 Hb Hm.
    apply nth_error_upd in N1. destruct N1 as [(<- & -> & _)|[_ N1]]; [|eauto].
    destruct (pw_add_spec _ _ _ _ _ PA) as (_ & _ & _ & SP).
    destruct (SP _ Hb) as [I|(b & -> & K & C)]; [eauto|].
    simpl in Hm. apply in_app_or in Hm. destruct Hm as [Hm|[<-|[]]].
    + destruct C as [C|C]; [|rewrite C in Hm; destruct Hm].
      apply (R0 j pw b m1 N); auto. unfold pw_all. rewrite C. rewrite !in_app_iff. simpl. auto.
    + right. exists (length pre). simpl. rewrite K.
      rewrite nth_error_app2, Nat.sub_diag by lia. rewrite <- L.
      rewrite nth_error_app2, Nat.sub_diag by lia. auto.
  - split; auto. intros; left; eapply P; eauto.
Qed.

Definition CI (s : state) : Prop := NoDup (used_ids (s_calls s)) /\ prov (s_calls s) (s_pws s).

Lemma CI_step : forall s l s', CI s -> step cfg s l = Some s' -> CI s'.
Proof.
  intros s l s' [N P] H. split; [eapply step_used_ids; eauto|].
  destruct l; try (eapply prov_sub; [eapply step_calls_ext; eauto|eapply step_pws_sub; eauto; congruence|exact P]).
  simpl in H. inv_step H; simpl.
  { eapply prov_sub; [|apply pws_sub_refl|exact P].
    eapply calls_ext_upd; [eauto|]. intros; congruence. }
  intros p pw b m Np Hb Hm.
  destruct (prov_assign _ _ _ _ _ _ _ E2 P _ _ _ _ Np Hb Hm) as [W|(i & I1 & I2)].
  - eapply witness_ext; [|exact W]. eapply calls_ext_upd; eauto. intros; congruence.
  - exists c, (mkCall (c_g c0) (c_msgs c0) l CWaiting), i. simpl.
    rewrite nth_error_upd_eq by (apply nth_error_Some; congruence).
    repeat split; auto; congruence.
Qed.

(* ---------------------------------------------------------------- dups (b) *)
Definition DD (s : state) : Prop :=
  forall j1 a j2 b j3, s_journal s = j1 ++ a :: j2 ++ b :: j3 ->
    (exists m, In m (a_msgs a) /\ In m (a_msgs b)) ->
    a_msgs a = a_msgs b /\ a_tp a = a_tp b /\ exists e, a_seen a = Some e /\ retriable cfg e = true.

Lemma DD_step : forall s l s', seqinvs (s_pws s) -> JJ s -> CI s -> DD s -> step cfg s l = Some s' -> DD s'.
Proof.
  intros s l s' SI (A & B & _) [N P] D H.
  destruct (step_journal _ _ _ H) as [(EJ & _ & _)|(p & r & pw & sb & n & _ & Np & S & _ & _ & EJ & _)];
    unfold DD; rewrite EJ; auto.
  intros j1 a j2 b j3 Ej (m & Ma & Mb).
  apply snoc_decomp in Ej. destruct Ej as [(j3' & -> & Ej)|(-> & -> & Ej)]; [eapply D; eauto|].
  simpl in *.
  assert (Ha : In a (s_journal s)) by (rewrite Ej; apply in_elt).
  destruct (A a Ha) as (pw0 & b0 & N0 & Hb0 & K0 & M0 & T0).
  rewrite <- M0 in Ma.
  destruct (P _ _ _ _ N0 (pw_done_all _ _ Hb0) Ma) as (c & cl & i & C1 & _ & _ & C4 & C5).
  destruct (P _ _ _ _ Np (snd_in_all _ _ _ _ S) Mb) as (c' & cl' & i' & C1' & _ & _ & C4' & C5').
  destruct (used_ids_unique _ _ _ _ _ _ _ _ N C1 C4 C1' C4') as [<- <-].
  rewrite C1 in C1'. inversion C1'; subst cl'. rewrite C5 in C5'. inversion C5'.
  assert (pw0 = pw) by congruence. subst pw0.
  assert (b0 = sb).
  { eapply seqinv_inj; eauto. apply SI. eapply nth_error_In; eauto. apply pw_done_all; auto.
    eapply snd_in_all; eauto. }
  subst b0. split; [auto|]. split; [auto|].
  destruct (B _ _ _ _ _ Np S) as [_ [_ Rt]]. apply Rt; auto; congruence.
Qed.

End WithCfg.








Lemma C01_no_foreign_log_proof : stmt_C01_no_foreign_log.
Proof.
  intros cfg ls s Hr.
  assert (H : routes cfg (s_pws s) /\ log_ok cfg s).
  { revert ls s Hr. apply runs_inv.
    - split; [intros x []|intros tp m []].
    - intros s l s' [R L] St. split; [eapply routes_step; eauto|eapply log_ok_step; eauto]. }
  exact (proj2 H).
Qed.

Lemma base_inv : forall cfg ls s, runs cfg ls s ->
  routes cfg (s_pws s) /\ seqinvs (s_pws s) /\ JJ cfg s /\ s_log s = log_of_journal (s_journal s).
Proof.
  intros cfg. apply runs_inv.
  - split; [intros x []|]. split; [intros x []|]. split; [|reflexivity].
    split; [intros x []|]. split; [intros p pw b n ph N; destruct p; discriminate|].
    intros p k. simpl. unfold count. simpl. lia.
  - intros s l s' (R & SI & J & L) St.
    split; [eapply routes_step; eauto|]. split; [eapply seqinvs_step; eauto|].
    split; [eapply JJ_step; eauto|eapply J1_step; eauto].
Qed.

Lemma C01_dups_log_proof : forall cfg ls s, runs cfg ls s ->
  s_log s = flat_map (fun a => if a_applied a then map (pair (a_tp a)) (a_msgs a) else []) (s_journal s).
Proof. intros cfg ls s Hr. exact (proj2 (proj2 (proj2 (base_inv _ _ _ Hr)))). Qed.

Lemma C01_dups_count_proof : forall cfg ls s, runs cfg ls s ->
  forall p k, length (filter (fun a => Nat.eqb (a_pw a) p && Nat.eqb (a_k a) k) (s_journal s))
              <= maxAttempts cfg.
Proof.
  intros cfg ls s Hr. destruct (base_inv _ _ _ Hr) as (_ & _ & (_ & _ & C) & _). exact C.
Qed.

Lemma full_inv : forall cfg ls s, runs cfg ls s ->
  seqinvs (s_pws s) /\ JJ cfg s /\ CI s /\ DD cfg s.
Proof.
  intros cfg. apply runs_inv.
  - split; [intros x []|]. split; [|split].
    + split; [intros x []|]. split; [intros p pw b n ph N; destruct p; discriminate|].
      intros p k. simpl. unfold count. simpl. lia.
    + split; [constructor|]. intros p pw b m N. destruct p; discriminate.
    + intros j1 a j2 b j3 E. simpl in E. destruct j1; discriminate.
  - intros s l s' (SI & J & C & D) St.
    split; [eapply seqinvs_step; eauto|]. split; [eapply JJ_step; eauto|].
    split; [eapply CI_step; eauto|eapply DD_step; eauto].
Qed.

Lemma C01_dups_retry_proof : forall cfg ls s, runs cfg ls s ->
  forall j1 a j2 b j3, s_journal s = j1 ++ a :: j2 ++ b :: j3 ->
    (exists m, In m (a_msgs a) /\ In m (a_msgs b)) ->
    a_msgs a = a_msgs b /\ a_tp a = a_tp b /\
    exists e, a_seen a = Some e /\ retriable cfg e = true.
Proof. intros cfg ls s Hr. exact (proj2 (proj2 (proj2 (full_inv _ _ _ Hr)))). Qed.

Lemma C01_duplicates_only_by_retry_proof : stmt_C01_duplicates_only_by_retry.
Proof.
  intros cfg ls s Hr. split; [eapply C01_dups_log_proof; eauto|].
  split; [eapply C01_dups_retry_proof; eauto|eapply C01_dups_count_proof; eauto].
Qed.

Lemma C08_rejected_never_sent_proof : stmt_C08_rejected_never_sent.
Proof.
  intros cfg ls s Hr c cl Nc Rj m a Hm Ha Hma.
  destruct (full_inv _ _ _ Hr) as (_ & (A & _ & _) & (N & P) & _).
  destruct (A a Ha) as (pw & b & Np & Hb & _ & M & _).
  rewrite <- M in Hma.
  destruct (P _ _ _ _ Np (pw_done_all _ _ Hb) Hma) as (c' & cl' & i' & C1 & _ & C3 & C4 & _).
  apply In_nth_error in Hm. destruct Hm as [i Hi].
  destruct (used_ids_unique _ _ _ _ _ _ _ _ N Nc Hi C1 C4) as [<- _].
  congruence.
Qed.

Print Assumptions C01_no_foreign_log_proof.
Print Assumptions C01_duplicates_only_by_retry_proof.
Print Assumptions C08_rejected_never_sent_proof.
