(* Proofs/LifecycleBase.v — list lemmas and the step-inversion tactic for Model/Lifecycle.v *)
From Coq Require Import List Arith Bool Lia.
From KV Require Import Lib.LTS Model.Lifecycle.
Import ListNotations.

Lemma nth_upd_eq : forall A (l : list A) i x y, nth_error l i = Some y -> nth_error (upd i x l) i = Some x.
Proof. induction l; intros [|i] x y H; simpl in *; try discriminate; eauto. Qed.
Lemma nth_upd_neq : forall A (l : list A) i j x, i <> j -> nth_error (upd i x l) j = nth_error l j.
Proof. induction l; intros [|i] [|j] x H; simpl; auto; try congruence. Qed.
Lemma nth_upd : forall A (l : list A) i j x,
  nth_error (upd i x l) j = if Nat.eqb i j then (match nth_error l j with Some _ => Some x | None => None end) else nth_error l j.
Proof.
  intros. destruct (Nat.eqb_spec i j).
  - subst. destruct (nth_error l j) eqn:E; [eapply nth_upd_eq; eauto|].
    revert j E. induction l; intros [|j] E; simpl in *; auto; discriminate.
  - apply nth_upd_neq; auto.
Qed.
Lemma upd_length : forall A (l : list A) i x, length (upd i x l) = length l.
Proof. induction l; intros [|i] x; simpl; auto. Qed.
Lemma nth_app_last : forall A (l : list A) x, nth_error (l ++ [x]) (length l) = Some x.
Proof. induction l; simpl; auto. Qed.
Lemma nth_some_lt : forall A (l : list A) i x, nth_error l i = Some x -> i < length l.
Proof. intros. apply nth_error_Some. congruence. Qed.

Lemma forallb_upd : forall A (p : A -> bool) l i x,
  forallb p l = true -> p x = true -> forallb p (upd i x l) = true.
Proof.
  induction l; intros [|i] x H Hx; simpl in *; auto; apply andb_true_iff in H as [H1 H2];
    apply andb_true_iff; split; auto.
Qed.
Lemma forallb_nth : forall A (p : A -> bool) l i x, forallb p l = true -> nth_error l i = Some x -> p x = true.
Proof. intros. rewrite forallb_forall in H. apply H. eapply nth_error_In; eauto. Qed.
Lemma forallb_app1 : forall A (p : A -> bool) l x, forallb p (l ++ [x]) = forallb p l && p x.
Proof. intros. rewrite forallb_app. simpl. rewrite andb_true_r. reflexivity. Qed.
Lemma forallb_false_nth : forall A (p : A -> bool) l, forallb p l = false -> exists i x, nth_error l i = Some x /\ p x = false.
Proof.
  induction l; simpl; intros H; [discriminate|]. destruct (p a) eqn:E.
  - destruct (IHl H) as (i & x & H1 & H2). exists (S i), x. auto.
  - exists 0, a. auto.
Qed.
Lemma existsb_nth : forall A (p : A -> bool) l, existsb p l = true -> exists i x, nth_error l i = Some x /\ p x = true.
Proof.
  induction l; simpl; intros H; [discriminate|]. destruct (p a) eqn:E.
  - exists 0, a. auto.
  - destruct (IHl H) as (i & x & H1 & H2). exists (S i), x. auto.
Qed.
Lemma existsb_nth_intro : forall A (p : A -> bool) l i x, nth_error l i = Some x -> p x = true -> existsb p l = true.
Proof. intros. apply existsb_exists. exists x. split; auto. eapply nth_error_In; eauto. Qed.
Lemma forallb_repeat : forall A (p : A -> bool) x n, (n = 0 \/ p x = true) -> forallb p (repeat x n) = true.
Proof. induction n; simpl; auto. intros [H|H]; [discriminate|]. rewrite H. auto. Qed.

Lemma count_app : forall A (p : A -> bool) l1 l2, count p (l1 ++ l2) = count p l1 + count p l2.
Proof. intros. unfold count. rewrite filter_app, app_length. reflexivity. Qed.
Lemma count_cons : forall A (p : A -> bool) a l, count p (a :: l) = (if p a then 1 else 0) + count p l.
Proof. intros. unfold count. simpl. destruct (p a); reflexivity. Qed.
Lemma count_upd : forall A (p : A -> bool) l i x y, nth_error l i = Some y ->
  count p (upd i x l) + (if p y then 1 else 0) = count p l + (if p x then 1 else 0).
Proof.
  induction l; intros [|i] x y H; simpl in *; try discriminate.
  - inversion H; subst. rewrite !count_cons. lia.
  - rewrite !count_cons. specialize (IHl _ x _ H). lia.
Qed.
Lemma count_zero_forallb : forall A (p : A -> bool) l, count p l = 0 <-> forallb (fun x => negb (p x)) l = true.
Proof.
  induction l; simpl; [tauto|]. rewrite count_cons. destruct (p a); simpl; [split; [lia|discriminate]|]. exact IHl.
Qed.
Lemma count_repeat : forall A (p : A -> bool) x n, count p (repeat x n) = if p x then n else 0.
Proof. induction n; simpl; [destruct (p x); reflexivity|]. rewrite count_cons, IHn. destruct (p x); reflexivity. Qed.

(* ---- runs ---- *)
Definition reach (c : config) (s : state) : Prop := exists ls, run step (init c) ls = Some s.
Lemma reach_ind : forall c (P : state -> Prop),
  P (init c) -> (forall s l s', P s -> step s l = Some s' -> P s') -> forall ls s, run step (init c) ls = Some s -> P s.
Proof. intros c P H0 Hs ls s Hr. eapply (inv_run _ _ step P); eauto. Qed.
Lemma reach_ind2 : forall c (Q P : state -> Prop),
  (forall ls s, run step (init c) ls = Some s -> Q s) ->
  P (init c) -> (forall s l s', Q s -> Q s' -> P s -> step s l = Some s' -> P s') ->
  forall ls s, run step (init c) ls = Some s -> P s.
Proof.
  intros c Q P HQ H0 Hs ls0.
  induction ls0 as [|l ls0 IH] using rev_ind; intros s Hr.
  - simpl in Hr. inversion Hr; subst; auto.
  - destruct (run_prefix _ _ step _ _ _ _ Hr) as (s1 & H1 & H2). simpl in H2.
    destruct (step s1 l) eqn:E; [|discriminate]. inversion H2; subst.
    exact (Hs s1 l s (HQ _ _ H1) (HQ _ _ Hr) (IH _ H1) E).
Qed.

Lemma reply_calls_only : forall c ok s, reply c ok s = set_calls (calls (reply c ok s)) s.
Proof.
  intros. unfold reply. destruct (nth_error (calls s) c); [|destruct s; reflexivity].
  destruct (k_ph c0) as [| | | |[rp|]| | |]; destruct s; reflexivity.
Qed.
Lemma reply_all_calls_only : forall cs ok s, reply_all cs ok s = set_calls (calls (reply_all cs ok s)) s.
Proof.
  induction cs; intros; simpl; [destruct s; reflexivity|].
  rewrite IHcs. rewrite (reply_calls_only a ok s) at 2. destruct s; reflexivity.
Qed.

Ltac unf := unfold after_close, fail_ng, enter_leave, finish_leave, exit_cg, cl_finish, fn_return, start_fn,
  ret, set_call, start, set_f, push, end_gen, close_conn, set_fn, set_fn_dirty, ev in *.
Ltac destr_in H :=
  repeat match type of H with
  | context [match ?x with _ => _ end] => destruct x eqn:?; try discriminate
  | context [if ?x then _ else _] => destruct x eqn:?; try discriminate
  end.
Ltac destr_goal :=
  repeat match goal with
  | |- context [match ?x with _ => _ end] => destruct x eqn:?
  | |- context [if ?x then _ else _] => destruct x eqn:?
  end.
(* case analysis of one step: one goal per label and per branch of its guards *)
Ltac step_inv St :=
  unfold step in St;
  match type of St with context [panicked ?s] => destruct (panicked s) eqn:Hpan; [discriminate|] end;
  try (match type of St with context [match ?l with LCall _ => _ | _ => _ end] => is_var l; destruct l end);
  cbv beta iota zeta in St; destr_in St;
  match type of St with Some _ = Some ?x => injection St as St; subst x end.

Lemma cfg_step : forall s l s', step s l = Some s' -> cfg s' = cfg s.
Proof.
  intros s l s' St. step_inv St; unf; try rewrite reply_all_calls_only; cbn; destr_goal; reflexivity.
Qed.
