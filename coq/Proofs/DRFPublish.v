(* Proofs/DRFPublish.v — C10: the two ownership-phase arguments behind the policy kinds
   WriteOnceBeforePublish and HandedOff.  The semantic conditions (a publication /
   hand-off event that happens-before every later access) are NOT established by the
   syntactic check; they are what "safe publication" and "hand-off through channel c" mean. *)
From Coq Require Import List Arith Bool Lia Relations.
From KV Require Import Model.DRF Proofs.DRFSound.
Import ListNotations.

(* x is written (or otherwise accessed) only by its constructor thread t0 before the
   publication event at index p; every other access is a plain read that the publication
   happens-before *)
Definition published (tr : trace) (x : loc) (t0 : thread) (p : nat) : Prop :=
  (exists e, ev tr p = Some (t0, e)) /\
  forall i t a, ev tr i = Some (t, a) -> acc_loc a = Some x ->
    (t = t0 /\ i < p) \/ (is_rd a = true /\ hb tr p i).

(* x is accessed by the sender ts before the hand-off event at p (a Send/Close), and
   afterwards only by the single receiver t1, after the hand-off happened-before it *)
Definition handed_off (tr : trace) (x : loc) (ts t1 : thread) (p : nat) : Prop :=
  (exists e, ev tr p = Some (ts, e)) /\
  forall i t a, ev tr i = Some (t, a) -> acc_loc a = Some x ->
    (t = ts /\ i < p) \/ (t = t1 /\ hb tr p i).

Lemma po_hb : forall tr i j t a b, i < j -> ev tr i = Some (t, a) -> ev tr j = Some (t, b) -> hb tr i j.
Proof. intros. apply t_step. eapply e_po; eauto. Qed.

Lemma publish_no_race : forall tr x t0 p, published tr x t0 p -> ~ race_on tr x.
Proof.
  intros tr x t0 p [[e Hp] H] (i & j & t1 & t2 & a1 & a2 & Hij & Hi & Hj & Hne & Hx1 & Hx2 & Hc & Hnhb).
  destruct (H i t1 a1 Hi Hx1) as [[E1 L1]|[R1 B1]]; destruct (H j t2 a2 Hj Hx2) as [[E2 L2]|[R2 B2]].
  - subst. congruence.
  - subst. apply Hnhb. eapply t_trans; [eapply po_hb; eauto|exact B2].
  - apply hb_lt in B1. lia.
  - unfold conflict in Hc. rewrite R1, R2 in Hc. discriminate.
Qed.

Lemma handoff_no_race : forall tr x ts t1 p, handed_off tr x ts t1 p -> ~ race_on tr x.
Proof.
  intros tr x ts t1 p [[e Hp] H] (i & j & u1 & u2 & a1 & a2 & Hij & Hi & Hj & Hne & Hx1 & Hx2 & Hc & Hnhb).
  destruct (H i u1 a1 Hi Hx1) as [[E1 L1]|[E1 B1]]; destruct (H j u2 a2 Hj Hx2) as [[E2 L2]|[E2 B2]].
  - subst. congruence.
  - subst. apply Hnhb. eapply t_trans; [eapply po_hb; eauto|exact B2].
  - apply hb_lt in B1. lia.
  - subst. congruence.
Qed.

Lemma publish_sound : forall tr x t0 p,
  (exists e, ev tr p = Some (t0, e)) ->
  (forall i t a, ev tr i = Some (t, a) -> acc_loc a = Some x ->
     (t = t0 /\ i < p) \/ (is_rd a = true /\ hb tr p i)) ->
  ~ race_on tr x.
Proof. intros tr x t0 p H1 H2. exact (publish_no_race tr x t0 p (conj H1 H2)). Qed.

Lemma handoff_sound : forall tr x ts t1 p,
  (exists e, ev tr p = Some (ts, e)) ->
  (forall i t a, ev tr i = Some (t, a) -> acc_loc a = Some x ->
     (t = ts /\ i < p) \/ (t = t1 /\ hb tr p i)) ->
  ~ race_on tr x.
Proof. intros tr x ts t1 p H1 H2. exact (handoff_no_race tr x ts t1 p (conj H1 H2)). Qed.

(* non-vacuity: a value written before a channel send and read after the matching receive *)
Definition tr_handoff : trace :=
  [(0, Go 1); (0, Wr 7); (0, Send 3); (1, Recv 3); (1, Rd 7); (1, Wr 7)].
Lemma tr_handoff_ok : handed_off tr_handoff 7 0 1 2.
Proof.
  split; [eexists; reflexivity|].
  assert (E23 : hb tr_handoff 2 3).
  { apply t_step. eapply e_send with (c := 3); try reflexivity. lia. }
  assert (P34 : hb tr_handoff 3 4) by (eapply po_hb; [|reflexivity|reflexivity]; lia).
  assert (P35 : hb tr_handoff 3 5) by (eapply po_hb; [|reflexivity|reflexivity]; lia).
  intros i t a Hi Hx.
  destruct i as [|[|[|[|[|[|i]]]]]]; cbn in Hi; inversion Hi; subst; cbn in Hx; try discriminate.
  - left. split; [reflexivity|lia].
  - right. split; [reflexivity|]. eapply t_trans; [exact E23|exact P34].
  - right. split; [reflexivity|]. eapply t_trans; [exact E23|exact P35].
  - destruct i; discriminate.
Qed.
