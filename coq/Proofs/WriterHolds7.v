(* Proofs/WriterHolds7.v — the extracted boolean predicate C07_holds_for is true on every
   model run without late Assign. *)
From Coq Require Import List NArith Bool Arith Lia ZifyN ZifyNat ZifyBool.
From KV Require Import Lib.LTS Model.Writer Proofs.WriterStmts Proofs.WriterBase Proofs.WriterC07.
Import ListNotations.

(* ------------------------------------------------------------------ list facts *)
Lemma index_of_spec : forall m l i r, index_of m l i = Some r ->
  exists x, nth_error l (r - i) = Some x /\ m_id x = m_id m /\ i <= r.
Proof.
  induction l as [|a l IH]; simpl; intros i r H; [discriminate|].
  destruct (N.eqb (m_id a) (m_id m)) eqn:E.
  - inv H. exists a. rewrite Nat.sub_diag. simpl. apply N.eqb_eq in E. auto.
  - apply IH in H. destruct H as (x & Hx & Ex & L). exists x.
    replace (r - i) with (S (r - S i)) by lia. simpl. split; auto. split; auto. lia.
Qed.

Lemma in_ranks : forall sub ms z, In z (ranks sub ms) -> exists y, In y ms /\ index_of y sub 0 = Some z.
Proof.
  intros sub ms z H. unfold ranks in H. apply in_flat_map in H. destruct H as (y & Hy & Hz).
  exists y. split; auto. destruct (index_of y sub 0); simpl in Hz; [destruct Hz as [->|[]]; auto|destruct Hz].
Qed.

Lemma increasing_cons : forall r L, increasing L = true -> (forall z, In z L -> r < z) -> increasing (r :: L) = true.
Proof.
  intros r L H K. destruct L as [|z L]; [reflexivity|].
  change (((r <? z) && increasing (z :: L)) = true). rewrite H, andb_true_r. apply Nat.ltb_lt. apply K. left; auto.
Qed.

Lemma increasing_ranks : forall sub ms,
  (forall x y rx ry, before ms x y -> index_of x sub 0 = Some rx -> index_of y sub 0 = Some ry -> rx < ry) ->
  increasing (ranks sub ms) = true.
Proof.
  intros sub. induction ms as [|m ms IH]; intros H; [reflexivity|].
  assert (IH' : increasing (ranks sub ms) = true).
  { apply IH. intros x y rx ry B. apply H. change (m :: ms) with ([m] ++ ms). apply before_app_r; auto. }
  unfold ranks in *. simpl. destruct (index_of m sub 0) as [r|] eqn:E; simpl; [|exact IH'].
  apply increasing_cons; auto. intros z Hz. apply in_ranks in Hz. destruct Hz as (y & Hy & Ey).
  eapply (H m y); eauto. change (m :: ms) with ([m] ++ ms). apply before_app_mid; [left; auto|auto].
Qed.

Fixpoint allpairs {A} (Rel : A -> A -> Prop) (l : list A) {struct l} : Prop :=
  match l with
  | [] => True
  | a :: r => (forall b, In b r -> Rel a b) /\ allpairs Rel r
  end.

Lemma allpairs_nth : forall A (Rel : A -> A -> Prop) l,
  (forall i i' a b, i < i' -> nth_error l i = Some a -> nth_error l i' = Some b -> Rel a b) -> allpairs Rel l.
Proof.
  induction l as [|a l IH]; intros H; simpl; [exact I|]. split.
  - intros b Hb. apply In_nth_error in Hb. destruct Hb as [n Hn]. apply (H 0 (S n)); auto. lia.
  - apply IH. intros i i' x y L Hi Hi'. apply (H (S i) (S i')); auto. lia.
Qed.

Lemma allpairs_filter : forall A (Rel : A -> A -> Prop) (p : A -> bool) l,
  allpairs (fun a b => p a = true -> p b = true -> Rel a b) l -> allpairs Rel (filter p l).
Proof.
  induction l as [|a l IH]; simpl; [intros _; exact I|intros [H1 H2]].
  destruct (p a) eqn:E; [|auto]. simpl. split; auto.
  intros b Hb. apply filter_In in Hb. destruct Hb. auto.
Qed.

Definition ne (b : list nat) : bool := match b with [] => false | _ => true end.

Lemma list_nat_eqb_refl : forall a, list_nat_eqb a a = true.
Proof.
  intros a. unfold list_nat_eqb. rewrite Nat.eqb_refl. simpl.
  induction a; simpl; auto. rewrite Nat.eqb_refl. auto.
Qed.

Lemma last_In : forall (l : list nat) d, l <> [] -> In (last l d) l.
Proof.
  induction l as [|a l IH]; intros d H; [congruence|]. destruct l as [|b l]; [left; reflexivity|].
  right. apply IH. discriminate.
Qed.

Lemma blocks_ok_sorted : forall A (R : A -> list nat) (E : list A),
  allpairs (fun a b => R a = R b \/ (forall x y, In x (R a) -> In y (R b) -> x < y)) E ->
  blocks_ok (filter ne (map R E)) = true.
Proof.
  intros A R. induction E as [|a E IH]; simpl; intros H; [reflexivity|]. destruct H as [Ha Hr].
  specialize (IH Hr). destruct (R a) as [|n l] eqn:Ra; simpl; [exact IH|].
  destruct (filter ne (map R E)) as [|hb t] eqn:F; [reflexivity|].
  change (((list_nat_eqb (n :: l) hb || match hb with x :: _ => last (n :: l) 0 <? x | [] => true end)
           && blocks_ok (hb :: t)) = true).
  rewrite IH, andb_true_r.
  assert (Hin : In hb (filter ne (map R E))) by (rewrite F; left; auto).
  apply filter_In in Hin. destruct Hin as [Hin Hne]. apply in_map_iff in Hin. destruct Hin as (b & Eb & Hb).
  destruct (Ha b Hb) as [Eq|Lt].
  - rewrite <- Eb, <- Eq. rewrite list_nat_eqb_refl. reflexivity.
  - apply orb_true_iff. right. destruct hb as [|y hb]; [reflexivity|]. apply Nat.ltb_lt.
    apply Lt; [apply last_In; discriminate|rewrite Eb; left; auto].
Qed.

(* ------------------------------------------------------------------ ranks and the partition writer's sequence *)
Lemma sub_in_call : forall cs g x, In x (submitted cs g) -> exists c cl, nth_error cs c = Some cl /\ In x (c_msgs cl).
Proof.
  intros cs g x H. unfold submitted in H. apply in_flat_map in H. destruct H as (cl & Hcl & Hx).
  destruct (N.eqb (c_g cl) g && negb (rejected cl)); [|destruct Hx].
  apply In_nth_error in Hcl. destruct Hcl as [c Hc]. eauto.
Qed.

Lemma ident : forall cfg s g q x m, Inv2 cfg s -> In x (submitted (s_calls s) g) -> In m (oseq (s_pws s) q) ->
  m_id x = m_id m -> x = m.
Proof.
  intros cfg s g q x m I Hx Hm E. apply sub_in_call in Hx. destruct Hx as (c1 & cl1 & H1 & In1).
  destruct (i2_prov _ _ I _ _ Hm) as (c2 & cl2 & H2 & In2 & _).
  assert (c1 = c2) by (eapply ids_idx; eauto; apply I). subst c2. assert (cl2 = cl1) by congruence. subst cl2.
  eapply (NoDup_map_inj_in _ _ m_id (c_msgs cl1)); eauto. eapply ids_call_nodup; [apply I|eauto].
Qed.

Section Core.
Variable cfg : config.
Variable s : state.
Variable g : N.
Variable tp : tpart.
Hypothesis I : Inv2 cfg s.
Let sub := filter (fun m => tp_eqb (tp_of cfg m) tp) (submitted (s_calls s) g).

Lemma core : forall q pw m1 m2 x y, nth_error (s_pws s) q = Some pw -> before (pw_seq pw) m1 m2 ->
  index_of m1 sub 0 = Some x -> index_of m2 sub 0 = Some y -> x < y.
Proof.
  intros q pw m1 m2 x y Hq B Hx Hy.
  assert (O : oseq (s_pws s) q = pw_seq pw) by (apply oseq_some; auto).
  assert (ND : NoDup (pw_seq pw)) by (eapply NoDup_map_inv; rewrite <- O; apply (i2_nodup _ _ I)).
  apply index_of_spec in Hx, Hy. destruct Hx as (x1 & Nx & Ex & _), Hy as (y1 & Ny & Ey & _).
  rewrite Nat.sub_0_r in Nx, Ny.
  assert (Sx : In x1 (submitted (s_calls s) g)) by (apply nth_error_In in Nx; apply filter_In in Nx; tauto).
  assert (Sy : In y1 (submitted (s_calls s) g)) by (apply nth_error_In in Ny; apply filter_In in Ny; tauto).
  assert (x1 = m1) by (eapply ident; eauto; rewrite O; eapply before_in_l; eauto).
  assert (y1 = m2) by (eapply ident; eauto; rewrite O; eapply before_in_r; eauto). subst x1 y1.
  destruct (Nat.lt_ge_cases x y) as [L|L]; auto. exfalso.
  destruct (Nat.eq_dec x y) as [->|N].
  - assert (m1 = m2) by congruence. subst. eapply NoDup_before_irrefl; eauto.
  - assert (B' : before (submitted (s_calls s) g) m2 m1).
    { eapply before_filter. exists y, x. split; [lia|split; eauto]. }
    eapply (NoDup_before_asym (pw_seq pw) m1 m2); eauto. rewrite <- O.
    eapply (i2_order _ _ I); eauto; rewrite O; [eapply before_in_r|eapply before_in_l]; eauto.
Qed.

End Core.

Lemma C07_holds_for_runs : forall cfg ls s g tp, runs cfg ls s ->
  C07_holds_for cfg (s_calls s) (s_journal s) g tp = true.
Proof.
  intros cfg ls s g tp Hr. destruct (Inv12_runs _ _ _ Hr) as [J I].
  unfold C07_holds_for.
  set (sub := filter (fun m => tp_eqb (tp_of cfg m) tp) (submitted (s_calls s) g)).
  set (p := fun a => a_applied a && tp_eqb (a_tp a) tp).
  apply andb_true_iff. split.
  - apply forallb_forall. intros blk Hb. apply filter_In in Hb. destruct Hb as [Hb _].
    apply in_map_iff in Hb. destruct Hb as (a & <- & Ha). apply filter_In in Ha. destruct Ha as [Ha _].
    destruct (i1_jr _ J a Ha) as (pw & b & E & T & Hb & Hk & Hm).
    apply increasing_ranks. intros x y rx ry B Hx Hy.
    eapply (core cfg s g tp I (a_pw a) pw x y); eauto.
    unfold pw_seq. eapply before_flat_map_in; [apply fs_incl_all; eauto|]. rewrite Hm. exact B.
  - apply (blocks_ok_sorted _ (fun a => ranks sub (a_msgs a))).
    apply allpairs_filter. apply allpairs_nth. intros i i' a b L Hi Hi' Pa Pb.
    unfold p in Pa, Pb. apply andb_true_iff in Pa, Pb. destruct Pa as [_ Pa], Pb as [_ Pb].
    apply tp_eqb_eq in Pa, Pb.
    destruct (C07_retries_contiguous_proof cfg ls s Hr i i' a b Hi Hi') as (_ & R2 & R3).
    assert (Epw : a_pw a = a_pw b) by (apply R3; congruence).
    assert (Le : a_k a <= a_k b) by (eapply (i1_sorted _ J i i'); eauto).
    destruct (Nat.eq_dec (a_k a) (a_k b)) as [Ek|Nk].
    + left. destruct (R2 Epw Ek) as [-> _]. reflexivity.
    + right. intros x y Hx Hy. apply in_ranks in Hx, Hy.
      destruct Hx as (m1 & In1 & E1), Hy as (m2 & In2 & E2).
      destruct (i1_jr _ J a (nth_error_In _ _ Hi)) as (pwa & ba & A1 & A2 & A3 & A4 & A5).
      destruct (i1_jr _ J b (nth_error_In _ _ Hi')) as (pwb & bb & B1 & B2 & B3 & B4 & B5).
      rewrite Epw in A1. assert (pwa = pwb) by congruence. subst pwb.
      destruct (i1_ok _ J _ _ A1) as [Hk _]. apply fs_incl_all in A3, B3.
      apply In_nth_error in A3, B3. destruct A3 as [ia Hia], B3 as [ib Hib].
      assert (b_k ba = ia) by (eapply seq_idx; eauto).
      assert (b_k bb = ib) by (eapply seq_idx; eauto).
      eapply (core cfg s g tp I (a_pw b) pwa m1 m2); eauto. unfold pw_seq.
      eapply (before_flat_map_lt _ _ b_msgs (pw_all pwa) ia ib ba bb); eauto; [lia|rewrite A5; auto|rewrite B5; auto].
Qed.

Print Assumptions C07_holds_for_runs.
