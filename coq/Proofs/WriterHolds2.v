(* Proofs/WriterHolds2.v — the extracted boolean history predicates of Model/Writer.v
   (Section Hist) are true on every run of the model. *)
From Coq Require Import List NArith Bool Arith Lia ZifyN ZifyNat ZifyBool.
From KV Require Import Lib.LTS Model.Writer Proofs.WriterStmts Proofs.WriterBase Proofs.WriterC01a.
Import ListNotations.

(* ids are unique across calls and positions *)
Lemma used_ids_unique_id : forall cs c cl i m c' cl' i' m',
  NoDup (used_ids cs) ->
  nth_error cs c = Some cl -> nth_error (c_msgs cl) i = Some m ->
  nth_error cs c' = Some cl' -> nth_error (c_msgs cl') i' = Some m' ->
  m_id m = m_id m' -> c = c' /\ i = i'.
Proof.
  induction cs as [|x cs IH]; intros c cl i m c' cl' i' m' N H1 H2 H3 H4 EQ; [destruct c; discriminate|].
  change (used_ids (x :: cs)) with (map m_id (c_msgs x) ++ used_ids cs) in N.
  assert (IN : forall d dl k y, nth_error cs d = Some dl -> nth_error (c_msgs dl) k = Some y ->
               In (m_id y) (used_ids cs)).
  { intros d dl k y D1 D2. unfold used_ids. apply in_flat_map. exists dl.
    split; [eapply nth_error_In; eauto|]. apply in_map. eapply nth_error_In; eauto. }
  destruct c as [|c], c' as [|c']; simpl in H1, H3.
  - inversion H1; inversion H3; subst. split; auto.
    apply NoDup_app_l in N. rewrite NoDup_nth_error in N. apply N.
    + rewrite map_length. apply nth_error_Some. congruence.
    + rewrite (map_nth_error m_id _ _ H2), (map_nth_error m_id _ _ H4). congruence.
  - exfalso. inversion H1; subst. eapply NoDup_app_disj; [exact N| |eapply IN; eauto].
    rewrite <- EQ. apply in_map. eapply nth_error_In; eauto.
  - exfalso. inversion H3; subst. eapply NoDup_app_disj; [exact N| |eapply IN; eauto].
    rewrite EQ. apply in_map. eapply nth_error_In; eauto.
  - apply NoDup_app_r in N. destruct (IH _ _ _ _ _ _ _ _ N H1 H2 H3 H4 EQ). auto.
Qed.

Lemma rejected_sends_nothing_holds_runs : forall cfg ls s, runs cfg ls s ->
  rejected_sends_nothing_holds (s_calls s) (s_journal s) = true.
Proof.
  intros cfg ls s Hr.
  destruct (full_inv _ _ _ Hr) as (_ & (A & _ & _) & (N & P) & _).
  unfold rejected_sends_nothing_holds. apply forallb_forall. intros cl Hcl.
  destruct (rejected cl) eqn:R; simpl; auto.
  apply forallb_forall. intros m Hm. apply negb_true_iff.
  destruct (existsb (fun a => mem_id m (a_msgs a)) (s_journal s)) eqn:E; auto. exfalso.
  apply existsb_exists in E. destruct E as (a & Ha & Hma).
  unfold mem_id in Hma. apply existsb_exists in Hma. destruct Hma as (x & Hx & Hid).
  apply N.eqb_eq in Hid.
  destruct (A a Ha) as (pw & b & Np & Hb & _ & M & _). rewrite <- M in Hx.
  destruct (P _ _ _ _ Np (pw_done_all _ _ Hb) Hx) as (c' & cl' & i' & C1 & _ & C3 & C4 & _).
  apply In_nth_error in Hcl. destruct Hcl as [c Hc].
  apply In_nth_error in Hm. destruct Hm as [i Hi].
  destruct (used_ids_unique_id _ _ _ _ _ _ _ _ _ N C1 C4 Hc Hi Hid) as [<- _].
  congruence.
Qed.

(* two messages carried by journal entries with the same id are the same message *)
Lemma journal_id_eq : forall cfg ls s, runs cfg ls s ->
  forall a a' m x, In a (s_journal s) -> In a' (s_journal s) ->
    In m (a_msgs a) -> In x (a_msgs a') -> m_id x = m_id m -> x = m.
Proof.
  intros cfg ls s Hr a a' m x Ha Ha' Hm Hx Hid.
  destruct (full_inv _ _ _ Hr) as (_ & (A & _ & _) & (N & P) & _).
  destruct (A a Ha) as (pw & b & Np & Hb & _ & M & _). rewrite <- M in Hm.
  destruct (A a' Ha') as (pw' & b' & Np' & Hb' & _ & M' & _). rewrite <- M' in Hx.
  destruct (P _ _ _ _ Np (pw_done_all _ _ Hb) Hm) as (c & cl & i & C1 & _ & _ & C4 & _).
  destruct (P _ _ _ _ Np' (pw_done_all _ _ Hb') Hx) as (c' & cl' & i' & C1' & _ & _ & C4' & _).
  destruct (used_ids_unique_id _ _ _ _ _ _ _ _ _ N C1' C4' C1 C4 Hid) as [-> ->].
  congruence.
Qed.

Lemma ids_eqb_refl : forall l, ids_eqb l l = true.
Proof.
  intros l. unfold ids_eqb. rewrite Nat.eqb_refl. simpl.
  induction l as [|x l IH]; simpl; auto. rewrite N.eqb_refl. exact IH.
Qed.

Definition Qb (cfg : config) (a' a : attempt) : bool :=
  negb (existsb (fun m => mem_id m (a_msgs a')) (a_msgs a))
  || (ids_eqb (a_msgs a') (a_msgs a) && tp_eqb (a_tp a') (a_tp a)
      && match a_seen a' with Some e => retriable cfg e | None => false end).

Lemma retries_ok_gen : forall cfg j seen,
  (forall a' a, In a' seen -> In a j -> Qb cfg a' a = true) ->
  (forall j1 a' j2 a j3, j = j1 ++ a' :: j2 ++ a :: j3 -> Qb cfg a' a = true) ->
  retries_ok cfg seen j = true.
Proof.
  induction j as [|a r IH]; intros seen H1 H2; simpl; auto.
  apply andb_true_iff. split.
  - apply forallb_forall. intros a' Ha'. apply (H1 a' a Ha'). simpl; auto.
  - apply IH.
    + intros a' a2 [Ea|Ha'] Ha2.
      * subst a'. apply in_split in Ha2. destruct Ha2 as (l1 & l2 & ->).
        apply (H2 [] a l1 a2 l2). reflexivity.
      * apply H1; simpl; auto.
    + intros j1 a' j2 a2 j3 E. apply (H2 (a :: j1) a' j2 a2 j3). rewrite E. reflexivity.
Qed.

Lemma retries_ok_runs : forall cfg ls s, runs cfg ls s -> retries_ok cfg [] (s_journal s) = true.
Proof.
  intros cfg ls s Hr. apply retries_ok_gen; [intros a' a []|].
  intros j1 a' j2 a j3 E. unfold Qb.
  destruct (existsb (fun m => mem_id m (a_msgs a')) (a_msgs a)) eqn:X; simpl; auto.
  apply existsb_exists in X. destruct X as (m & Hm & Hx).
  unfold mem_id in Hx. apply existsb_exists in Hx. destruct Hx as (x & Hx & Hid). apply N.eqb_eq in Hid.
  assert (Ha' : In a' (s_journal s)) by (rewrite E; apply in_elt).
  assert (Ha : In a (s_journal s)).
  { rewrite E. apply in_or_app. right. right. apply in_elt. }
  assert (x = m) by exact (journal_id_eq _ _ _ Hr a a' m x Ha Ha' Hm Hx Hid). subst x.
  destruct (C01_dups_retry_proof _ _ _ Hr _ _ _ _ _ E (ex_intro _ m (conj Hx Hm))) as (M & T & e & Se & Re).
  rewrite M, T, Se, Re, ids_eqb_refl, tp_eqb_refl. reflexivity.
Qed.

(* ---------------------------------------------------------------- distinct ids inside a batch *)
Lemma NoDup_flat_map_in : forall A B (f : A -> list B) l x, NoDup (flat_map f l) -> In x l -> NoDup (f x).
Proof.
  induction l as [|y l IH]; simpl; intros x N H; [contradiction|].
  destruct H as [->|H]; [eapply NoDup_app_l; eauto|]. apply IH; auto. eapply NoDup_app_r; eauto.
Qed.

Definition BN (pws : list pwriter) : Prop :=
  forall p pw b, nth_error pws p = Some pw -> In b (pw_all pw) -> NoDup (map m_id (b_msgs b)).

Lemma BN_assign : forall cfg cs c cl pws wg pws' wg' refs',
  NoDup (used_ids cs) -> prov cs pws -> nth_error cs c = Some cl -> c_ph cl = CEntered ->
  assign_all cfg pws wg (c_msgs cl) = (pws', wg', refs') -> BN pws -> BN pws'.
Proof.
  intros cfg cs c cl pws wg pws' wg' refs' N P Nc Ph A B.
  set (ms := c_msgs cl) in *.
  assert (Nms : NoDup (map m_id ms)).
  { apply (NoDup_flat_map_in _ _ (fun c => map m_id (c_msgs c)) cs cl N). eapply nth_error_In; eauto. }
  assert (G : forall p pw b, nth_error pws' p = Some pw -> In b (pw_all pw) ->
            NoDup (map m_id (b_msgs b)) /\
            forall y, In y (b_msgs b) -> (forall z, In z ms -> m_id y <> m_id z) \/ In y ms);
    [|intros p pw b Np Hb; exact (proj1 (G p pw b Np Hb))].
  apply (assign_all_ind cfg (fun pre x _ => forall p pw b, nth_error x p = Some pw -> In b (pw_all pw) ->
            NoDup (map m_id (b_msgs b)) /\
            forall y, In y (b_msgs b) -> (forall z, In z ms -> m_id y <> m_id z) \/ In y pre) ms)
    with (pws := pws) (wg := wg) (wg' := wg') (refs' := refs'); auto.
  - intros pre m0 pws1 refs R1 post E pws0 j pw pw' k sp H0 Nj O T PA.
    assert (R0 : forall p pw b, nth_error pws0 p = Some pw -> In b (pw_all pw) ->
              NoDup (map m_id (b_msgs b)) /\
              forall y, In y (b_msgs b) -> (forall z, In z ms -> m_id y <> m_id z) \/ In y pre).
    { intros p1 pw1 b1 N1 Hb. destruct H0 as [->| ->]; [eauto|].
      destruct (Nat.lt_ge_cases p1 (length pws1)) as [Lt|Ge].
      - rewrite nth_error_app1 in N1 by exact Lt. eauto.
      - rewrite nth_error_app2 in N1 by exact Ge.
        destruct (p1 - length pws1) as [|d]; simpl in N1; [|destruct d; discriminate].
        inversion N1; subst pw1. destruct Hb. }
    assert (W : forall p pw b, nth_error pws0 p = Some pw -> In b (pw_all pw) ->
              NoDup (map m_id (b_msgs b)) /\
              forall y, In y (b_msgs b) -> (forall z, In z ms -> m_id y <> m_id z) \/ In y (pre ++ [m0])).
    { intros p1 pw1 b1 N1 Hb. destruct (R0 _ _ _ N1 Hb) as [X Y]. split; auto.
      intros y Hy. destruct (Y y Hy); auto. right. apply in_or_app; auto. }
    intros p1 pw1 b1 N1 Hb.
    apply nth_error_upd in N1. destruct N1 as [(<- & -> & _)|[_ N1]]; [|eauto].
    destruct (pw_add_spec _ _ _ _ _ _ PA) as (_ & _ & _ & SP).
    destruct (SP _ Hb) as [I|(b & -> & K & C)]; [eauto|]. simpl.
    assert (Hb0 : NoDup (map m_id (b_msgs b)) /\
              forall y, In y (b_msgs b) -> (forall z, In z ms -> m_id y <> m_id z) \/ In y pre).
    { destruct C as [C|C].
      - apply (R0 j pw b Nj). unfold pw_all. rewrite C. rewrite !in_app_iff. simpl. auto.
      - rewrite C. split; [constructor|intros y []]. }
    destruct Hb0 as [X Y]. split.
    + rewrite map_app. apply NoDup_app_intro; auto.
      * simpl. constructor; [intros []|constructor].
      * intros i Hi [<-|[]]. apply in_map_iff in Hi. destruct Hi as (y & Ey & Hy).
        destruct (Y y Hy) as [D|D].
        { apply (D m0); auto. fold ms. rewrite E. apply in_elt. }
        { fold ms in Nms. rewrite E, map_app in Nms. eapply NoDup_app_disj; [exact Nms| |].
          - apply in_map. exact D.
          - rewrite Ey. simpl. auto. }
    + intros y Hy. apply in_app_or in Hy. destruct Hy as [Hy|[<-|[]]].
      * destruct (Y y Hy); auto. right. apply in_or_app; auto.
      * right. apply in_or_app. simpl. auto.
  - intros p pw b Np Hb. split; [eapply B; eauto|].
    intros y Hy. left. intros z Hz EQ.
    destruct (P _ _ _ _ Np Hb Hy) as (c0 & cl0 & i0 & C1 & C2 & _ & C4 & _).
    apply In_nth_error in Hz. destruct Hz as [iz Hz].
    destruct (used_ids_unique_id _ _ _ _ _ _ _ _ _ N C1 C4 Nc Hz EQ) as [-> _].
    congruence.
Qed.

Lemma BN_step : forall cfg s l s', CI s -> BN (s_pws s) -> step cfg s l = Some s' -> BN (s_pws s').
Proof.
  intros cfg s l s' [N P] B H.
  assert (SUB : (forall c, l <> Assign c) -> BN (s_pws s')).
  { intros NA p pw' b Np Hb. destruct (step_pws_sub _ _ _ _ H NA p pw' Np) as (pw & Np0 & I).
    eapply B; eauto. }
  destruct l; try (apply SUB; congruence).
  simpl in H. inv_step H; simpl; [exact B|eapply BN_assign; eauto].
Qed.

Lemma BN_runs : forall cfg ls s, runs cfg ls s -> CI s /\ BN (s_pws s).
Proof.
  intros cfg. apply runs_inv.
  - split; [split; [constructor|]|]; intros p; intros; destruct p; discriminate.
  - intros s l s' [C B] St. split; [eapply CI_step; eauto|eapply BN_step; eauto].
Qed.

(* ---------------------------------------------------------------- count_log = count_applied *)
Lemma filter_id_none : forall i l, ~ In i (map m_id l) -> length (filter (fun x => N.eqb (m_id x) i) l) = 0.
Proof.
  induction l as [|x l IH]; simpl; intros H; auto.
  destruct (N.eqb (m_id x) i) eqn:E; [apply N.eqb_eq in E; exfalso; auto|]. apply IH. auto.
Qed.

Lemma filter_id_one : forall m l, NoDup (map m_id l) ->
  length (filter (fun x => N.eqb (m_id x) (m_id m)) l) = if mem_id m l then 1 else 0.
Proof.
  induction l as [|x l IH]; simpl; intros N; auto. inversion N; subst.
  destruct (N.eqb (m_id x) (m_id m)) eqn:E; simpl.
  - apply N.eqb_eq in E. rewrite filter_id_none; auto. rewrite <- E. exact H1.
  - apply IH. exact H2.
Qed.

Lemma filter_pair : forall t tp m l,
  length (filter (fun e : tpart * msg => tp_eqb (fst e) tp && N.eqb (m_id (snd e)) (m_id m)) (map (pair t) l))
  = if tp_eqb t tp then length (filter (fun x => N.eqb (m_id x) (m_id m)) l) else 0.
Proof.
  induction l as [|x l IH]; simpl; [destruct (tp_eqb t tp); reflexivity|].
  destruct (tp_eqb t tp); simpl in *; [destruct (N.eqb (m_id x) (m_id m)); simpl; rewrite IH; reflexivity|exact IH].
Qed.

Lemma count_log_journal : forall j tp m,
  (forall a, In a j -> NoDup (map m_id (a_msgs a))) ->
  count_log (log_of_journal j) tp m = count_applied j tp m.
Proof.
  induction j as [|a j IH]; intros tp m H; [reflexivity|].
  unfold count_log, count_applied in *. unfold log_of_journal in *. simpl.
  rewrite filter_app, app_length, IH by (intros; apply H; simpl; auto).
  assert (Na : NoDup (map m_id (a_msgs a))) by (apply H; simpl; auto).
  destruct (a_applied a); simpl; [|reflexivity].
  rewrite filter_pair. destruct (tp_eqb (a_tp a) tp); simpl; [|reflexivity].
  rewrite filter_id_one by exact Na. destruct (mem_id m (a_msgs a)); reflexivity.
Qed.

Lemma count_log_applied_runs : forall cfg ls s, runs cfg ls s ->
  forallb (fun e => count_log (s_log s) (fst e) (snd e) =? count_applied (s_journal s) (fst e) (snd e))
          (s_log s) = true.
Proof.
  intros cfg ls s Hr. apply forallb_forall. intros e _. apply Nat.eqb_eq.
  rewrite (C01_dups_log_proof _ _ _ Hr). apply count_log_journal.
  intros a Ha. destruct (BN_runs _ _ _ Hr) as [_ B].
  destruct (full_inv _ _ _ Hr) as (_ & (A & _ & _) & _).
  destruct (A a Ha) as (pw & b & Np & Hb & _ & M & _). rewrite <- M.
  eapply B; eauto. apply pw_done_all; auto.
Qed.

(* ---------------------------------------------------------------- batches are never empty *)
Definition NE (pws : list pwriter) : Prop :=
  forall p pw b, nth_error pws p = Some pw -> In b (pw_all pw) -> b_msgs b <> [].

Lemma NE_step : forall cfg s l s', NE (s_pws s) -> step cfg s l = Some s' -> NE (s_pws s').
Proof.
  intros cfg s l s' B H.
  assert (SUB : (forall c, l <> Assign c) -> NE (s_pws s')).
  { intros NA p pw' b Np Hb. destruct (step_pws_sub _ _ _ _ H NA p pw' Np) as (pw & Np0 & I).
    eapply B; eauto. }
  destruct l; try (apply SUB; congruence).
  simpl in H. inv_step H; simpl; [exact B|].
  apply (assign_all_ind cfg (fun _ x _ => NE x) (c_msgs c0))
    with (pws := s_pws s) (wg := s_wg s) (wg' := n) (refs' := l); auto.
  intros pre m0 pws1 refs R1 post Epost pws0 j pw pw' k sp H0 Nj O T PA.
  assert (R0 : NE pws0).
  { intros p1 pw1 b1 N1 Hb. destruct H0 as [->| ->]; [eauto|].
    destruct (Nat.lt_ge_cases p1 (length pws1)) as [Lt|Ge].
    - rewrite nth_error_app1 in N1 by exact Lt. eauto.
    - rewrite nth_error_app2 in N1 by exact Ge.
      destruct (p1 - length pws1) as [|d]; simpl in N1; [|destruct d; discriminate].
      inversion N1; subst pw1. destruct Hb. }
  intros p1 pw1 b1 N1 Hb.
  apply nth_error_upd in N1. destruct N1 as [(<- & -> & _)|[_ N1]]; [|eauto].
  destruct (pw_add_spec _ _ _ _ _ _ PA) as (_ & _ & _ & SP).
  destruct (SP _ Hb) as [I|(b & -> & _)]; [eauto|]. simpl. intros X. apply app_eq_nil in X. destruct X; discriminate.
Qed.

Lemma NE_runs : forall cfg ls s, runs cfg ls s -> NE (s_pws s).
Proof.
  intros cfg. apply runs_inv; [intros p; intros; destruct p; discriminate|].
  intros; eapply NE_step; eauto.
Qed.

Lemma filter_length_le : forall A (f g : A -> bool) l,
  (forall x, In x l -> f x = true -> g x = true) -> length (filter f l) <= length (filter g l).
Proof.
  induction l as [|x l IH]; simpl; intros H; auto.
  assert (IH' := IH (fun y Hy => H y (or_intror Hy))).
  destruct (f x) eqn:F; [rewrite (H x (or_introl eq_refl) F); simpl; lia|].
  destruct (g x); simpl; lia.
Qed.

Lemma attempts_per_ids_runs : forall cfg ls s, runs cfg ls s ->
  forallb (fun a => length (filter (fun a' => ids_eqb (a_msgs a') (a_msgs a)) (s_journal s)) <=? maxAttempts cfg)
          (s_journal s) = true.
Proof.
  intros cfg ls s Hr. apply forallb_forall. intros a Ha. apply Nat.leb_le.
  eapply Nat.le_trans; [|apply (C01_dups_count_proof _ _ _ Hr (a_pw a) (a_k a))].
  apply filter_length_le. intros a' Ha' I.
  destruct (full_inv _ _ _ Hr) as (_ & (A & _ & _) & (N & P) & _).
  assert (NEs := NE_runs _ _ _ Hr).
  destruct (A a Ha) as (pw & b & Np & Hb & K & M & _).
  destruct (A a' Ha') as (pw' & b' & Np' & Hb' & K' & M' & _).
  assert (Hne := NEs _ _ _ Np (pw_done_all _ _ Hb)). rewrite M in Hne.
  unfold ids_eqb in I. apply andb_true_iff in I. destruct I as [L I]. apply Nat.eqb_eq in L.
  destruct (a_msgs a) as [|m r] eqn:Ea; [congruence|].
  destruct (a_msgs a') as [|x r'] eqn:Ea'; [discriminate|].
  simpl in I. apply andb_true_iff in I. destruct I as [I _]. apply N.eqb_eq in I.
  assert (Hm : In m (a_msgs a)) by (rewrite Ea; simpl; auto).
  assert (Hx : In x (a_msgs a')) by (rewrite Ea'; simpl; auto).
  assert (x = m) by exact (journal_id_eq _ _ _ Hr a a' m x Ha Ha' Hm Hx I). subst x.
  assert (Hm1 : In m (b_msgs b)) by (rewrite M; simpl; auto).
  assert (Hx1 : In m (b_msgs b')) by (rewrite M'; simpl; auto).
  destruct (P _ _ _ _ Np (pw_done_all _ _ Hb) Hm1) as (c & cl & i & C1 & _ & _ & C4 & C5).
  destruct (P _ _ _ _ Np' (pw_done_all _ _ Hb') Hx1) as (c' & cl' & i' & C1' & _ & _ & C4' & C5').
  destruct (used_ids_unique _ _ _ _ _ _ _ _ N C1 C4 C1' C4') as [<- <-].
  rewrite C1 in C1'. inversion C1'; subst cl'. rewrite C5 in C5'. inversion C5'.
  apply andb_true_iff. split; apply Nat.eqb_eq; congruence.
Qed.

Lemma C01_dups_holds_runs : forall cfg ls s, runs cfg ls s ->
  C01_dups_holds cfg (s_journal s) (s_log s) = true.
Proof.
  intros cfg ls s Hr. unfold C01_dups_holds.
  rewrite (count_log_applied_runs _ _ _ Hr), (retries_ok_runs _ _ _ Hr), (attempts_per_ids_runs _ _ _ Hr).
  reflexivity.
Qed.

Print Assumptions rejected_sends_nothing_holds_runs.
Print Assumptions retries_ok_runs.
Print Assumptions count_log_applied_runs.
Print Assumptions C01_dups_holds_runs.
