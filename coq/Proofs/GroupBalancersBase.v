(* Proofs/GroupBalancersBase.v — byte strings, association maps, grouping and sorting
   lemmas behind Properties/C14.v *)
From Coq Require Import List NArith ZArith Bool Arith Lia Permutation Sorted.
From KV Require Import Model.GroupBalancers.
Import ListNotations.

(* ------------------------------------------------------------------ byte strings *)
Lemma bytes_eqb_spec a b : reflect (a = b) (bytes_eqb a b).
Proof.
  revert b. induction a as [|x a IH]; intros [|y b]; cbn [bytes_eqb]; try (constructor; congruence).
  destruct (N.eqb_spec x y); cbn [andb].
  - destruct (IH b); constructor; congruence.
  - constructor; congruence.
Qed.

Lemma bytes_eqb_refl a : bytes_eqb a a = true.
Proof. destruct (bytes_eqb_spec a a); congruence. Qed.

Lemma bytes_eqb_sym a b : bytes_eqb a b = bytes_eqb b a.
Proof. destruct (bytes_eqb_spec a b), (bytes_eqb_spec b a); congruence. Qed.

Lemma bytes_eqb_neq a b : a <> b -> bytes_eqb a b = false.
Proof. destruct (bytes_eqb_spec a b); congruence. Qed.

Definition bytes_eq_dec (a b : bytes) : {a = b} + {a <> b}.
Proof. destruct (bytes_eqb_spec a b); [left|right]; assumption. Defined.

Lemma bytes_ltb_irrefl a : bytes_ltb a a = false.
Proof.
  induction a as [|x a IH]; cbn [bytes_ltb]; [reflexivity|].
  rewrite N.ltb_irrefl, N.eqb_refl. exact IH.
Qed.

Lemma bytes_ltb_trans a b c : bytes_ltb a b = true -> bytes_ltb b c = true -> bytes_ltb a c = true.
Proof.
  revert b c. induction a as [|x a IH]; intros [|y b] [|z c]; cbn [bytes_ltb]; try congruence.
  destruct (N.ltb_spec x y), (N.eqb_spec x y), (N.ltb_spec y z), (N.eqb_spec y z),
           (N.ltb_spec x z), (N.eqb_spec x z); try congruence; try lia.
  apply IH.
Qed.

Lemma bytes_ltb_total a b : bytes_ltb a b = false -> bytes_ltb b a = false -> a = b.
Proof.
  revert b. induction a as [|x a IH]; intros [|y b]; cbn [bytes_ltb]; try congruence.
  destruct (N.ltb_spec x y), (N.eqb_spec x y), (N.ltb_spec y x), (N.eqb_spec y x);
    try congruence; try lia.
  intros H1 H2. subst. f_equal. apply IH; assumption.
Qed.

Lemma bytes_ltb_asym a b : bytes_ltb a b = true -> bytes_ltb b a = false.
Proof.
  intros H. destruct (bytes_ltb b a) eqn:E; [|reflexivity].
  pose proof (bytes_ltb_trans _ _ _ H E) as H2. rewrite bytes_ltb_irrefl in H2. discriminate.
Qed.

(* ------------------------------------------------------------------ association maps *)
Section AMap.
Context {V : Type}.
Implicit Types (m : amap V) (k : bytes) (vs : list V).

Definition akeys m : list bytes := map fst m.

Lemma aget_aappend k k' vs m :
  aget k (aappend k' vs m) = if bytes_eqb k k' then aget k m ++ vs else aget k m.
Proof.
  induction m as [|[k0 l] r IH]; cbn [aappend aget].
  - destruct (bytes_eqb_spec k k'); reflexivity.
  - destruct (bytes_eqb_spec k' k0) as [->|N0]; cbn [aget].
    + destruct (bytes_eqb_spec k k0); reflexivity.
    + destruct (bytes_eqb_spec k k0) as [->|N1].
      * rewrite bytes_eqb_neq by congruence. reflexivity.
      * exact IH.
Qed.

Lemma akeys_aappend_in k vs m : In k (akeys m) -> akeys (aappend k vs m) = akeys m.
Proof.
  unfold akeys. induction m as [|[k0 l] r IH]; cbn [aappend map fst]; [intros []|].
  intros H. destruct (bytes_eqb_spec k k0) as [->|N0]; cbn [map fst]; [reflexivity|].
  f_equal. apply IH. destruct H; congruence.
Qed.

Lemma akeys_aappend_notin k vs m : ~ In k (akeys m) -> akeys (aappend k vs m) = akeys m ++ [k].
Proof.
  unfold akeys. induction m as [|[k0 l] r IH]; cbn [aappend map fst app]; [reflexivity|].
  intros H. destruct (bytes_eqb_spec k k0) as [->|N0]; cbn [map fst].
  - exfalso. apply H. left. reflexivity.
  - f_equal. apply IH. intros H1. apply H. right. exact H1.
Qed.

Lemma akeys_aappend_incl k vs m x : In x (akeys (aappend k vs m)) -> x = k \/ In x (akeys m).
Proof.
  destruct (in_dec bytes_eq_dec k (akeys m)) as [Hi|Hn].
  - rewrite akeys_aappend_in by exact Hi. auto.
  - rewrite akeys_aappend_notin by exact Hn. rewrite in_app_iff. cbn. intuition.
Qed.

Lemma akeys_aappend_mono k vs m x : In x (akeys m) -> In x (akeys (aappend k vs m)).
Proof.
  destruct (in_dec bytes_eq_dec k (akeys m)) as [Hi|Hn].
  - rewrite akeys_aappend_in by exact Hi. auto.
  - rewrite akeys_aappend_notin by exact Hn. rewrite in_app_iff. auto.
Qed.

Lemma akeys_aappend_self k vs m : In k (akeys (aappend k vs m)).
Proof.
  destruct (in_dec bytes_eq_dec k (akeys m)) as [Hi|Hn].
  - rewrite akeys_aappend_in by exact Hi. auto.
  - rewrite akeys_aappend_notin by exact Hn. rewrite in_app_iff. cbn. auto.
Qed.

Lemma NoDup_akeys_aappend k vs m : NoDup (akeys m) -> NoDup (akeys (aappend k vs m)).
Proof.
  intros H. destruct (in_dec bytes_eq_dec k (akeys m)) as [Hi|Hn].
  - rewrite akeys_aappend_in by exact Hi. exact H.
  - rewrite akeys_aappend_notin by exact Hn.
    apply NoDup_rev in H. rewrite <- (rev_involutive (akeys m ++ [k])).
    apply NoDup_rev. rewrite rev_app_distr. cbn. constructor; [|exact H].
    rewrite <- in_rev. exact Hn.
Qed.

Lemma aget_notin k m : ~ In k (akeys m) -> aget k m = [].
Proof.
  unfold akeys. induction m as [|[k0 l] r IH]; cbn [aget map fst]; [reflexivity|].
  intros H. destruct (bytes_eqb_spec k k0) as [->|N0].
  - exfalso. apply H. left. reflexivity.
  - apply IH. intros H1. apply H. right. exact H1.
Qed.

Lemma amem_iff k m : amem k m = true <-> In k (akeys m).
Proof.
  unfold akeys. induction m as [|[k0 l] r IH]; cbn [amem map fst In]; [split; [discriminate|tauto]|].
  destruct (bytes_eqb_spec k k0) as [->|N0]; [tauto|].
  rewrite IH. split; [auto|]. intros [H|H]; [congruence|exact H].
Qed.

Lemma in_aget k m : NoDup (akeys m) -> In k (akeys m) -> In (k, aget k m) m.
Proof.
  unfold akeys. induction m as [|[k0 l] r IH]; cbn [aget map fst In]; [tauto|].
  intros Hnd H. inversion Hnd; subst.
  destruct (bytes_eqb_spec k k0) as [->|N0]; [left; reflexivity|].
  right. apply IH; [assumption|]. destruct H; congruence.
Qed.

Lemma aget_in k l m : NoDup (akeys m) -> In (k, l) m -> aget k m = l.
Proof.
  unfold akeys. induction m as [|[k0 l0] r IH]; cbn [aget map fst In]; [tauto|].
  intros Hnd H. inversion Hnd; subst.
  destruct H as [H|H].
  - inversion H; subst. rewrite bytes_eqb_refl. reflexivity.
  - destruct (bytes_eqb_spec k k0) as [->|N0].
    + exfalso. apply H2. apply (in_map fst) in H. exact H.
    + apply IH; assumption.
Qed.

(* aremove / aset *)
Lemma aget_aremove k k' m : NoDup (akeys m) ->
  aget k (aremove k' m) = if bytes_eqb k k' then [] else aget k m.
Proof.
  unfold akeys. induction m as [|[k0 l] r IH]; cbn [aremove aget map fst]; intros Hnd.
  - destruct (bytes_eqb k k'); reflexivity.
  - inversion Hnd; subst.
    destruct (bytes_eqb_spec k' k0) as [->|N0].
    + destruct (bytes_eqb_spec k k0) as [->|N1]; [|reflexivity].
      apply aget_notin. exact H1.
    + cbn [aget]. destruct (bytes_eqb_spec k k0) as [->|N1].
      * rewrite bytes_eqb_neq by congruence. reflexivity.
      * apply IH. exact H2.
Qed.

Lemma aget_aset k k' vs m :
  aget k (aset k' vs m) = if bytes_eqb k k' then vs else aget k m.
Proof.
  induction m as [|[k0 l] r IH]; cbn [aset aget].
  - destruct (bytes_eqb k k'); reflexivity.
  - destruct (bytes_eqb_spec k' k0) as [->|N0]; cbn [aget].
    + destruct (bytes_eqb_spec k k0); reflexivity.
    + destruct (bytes_eqb_spec k k0) as [->|N1].
      * rewrite bytes_eqb_neq by congruence. reflexivity.
      * exact IH.
Qed.

Lemma akeys_aset_in k vs m : In k (akeys m) -> akeys (aset k vs m) = akeys m.
Proof.
  unfold akeys. induction m as [|[k0 l] r IH]; cbn [aset map fst]; [intros []|].
  intros H. destruct (bytes_eqb_spec k k0) as [->|N0]; cbn [map fst]; [reflexivity|].
  f_equal. apply IH. destruct H; congruence.
Qed.

Lemma akeys_aremove_incl k m x : In x (akeys (aremove k m)) -> In x (akeys m).
Proof.
  unfold akeys. induction m as [|[k0 l] r IH]; cbn [aremove map fst]; [tauto|].
  destruct (bytes_eqb k k0); cbn [map fst In]; intuition.
Qed.

Lemma NoDup_akeys_aremove k m : NoDup (akeys m) -> NoDup (akeys (aremove k m)).
Proof.
  unfold akeys. induction m as [|[k0 l] r IH]; cbn [aremove map fst]; [auto|].
  intros H. inversion H; subst. destruct (bytes_eqb k k0); [assumption|].
  cbn [map fst]. constructor; [|auto].
  intros Hin. apply H2. apply (akeys_aremove_incl k r). exact Hin.
Qed.

(* total content of a map *)
Definition avalues m : list V := concat (map snd m).

Lemma avalues_aappend k vs m : Permutation (avalues (aappend k vs m)) (avalues m ++ vs).
Proof.
  unfold avalues. induction m as [|[k0 l] r IH]; cbn [aappend map snd concat].
  - rewrite app_nil_r. reflexivity.
  - destruct (bytes_eqb k k0); cbn [map snd concat].
    + rewrite <- !app_assoc. apply Permutation_app_head. apply Permutation_app_comm.
    + rewrite <- app_assoc. apply Permutation_app_head. exact IH.
Qed.

Lemma avalues_split k m : NoDup (akeys m) -> In k (akeys m) ->
  Permutation (avalues m) (aget k m ++ avalues (aremove k m)).
Proof.
  unfold avalues, akeys. induction m as [|[k0 l] r IH]; cbn [aremove aget map fst snd concat In]; [tauto|].
  intros Hnd H. inversion Hnd; subst.
  destruct (bytes_eqb_spec k k0) as [->|N0]; [reflexivity|].
  cbn [map snd concat]. rewrite IH; [|assumption|destruct H; congruence].
  rewrite !app_assoc. apply Permutation_app_tail. apply Permutation_app_comm.
Qed.

Lemma avalues_aset k vs m : NoDup (akeys m) -> In k (akeys m) ->
  Permutation (avalues (aset k vs m)) (vs ++ avalues (aremove k m)).
Proof.
  unfold avalues, akeys. induction m as [|[k0 l] r IH]; cbn [aremove aset map fst snd concat In]; [tauto|].
  intros Hnd H. inversion Hnd; subst.
  destruct (bytes_eqb_spec k k0) as [->|N0]; [reflexivity|].
  cbn [map snd concat]. rewrite IH; [|assumption|destruct H; congruence].
  rewrite !app_assoc. apply Permutation_app_tail. apply Permutation_app_comm.
Qed.

End AMap.

(* ------------------------------------------------------------------ fold_left aappend *)
(* grouping a list by a key: the bucket of k is the sub-list of elements with key k *)
Section Group.
Context {A V : Type} (key : A -> bytes) (val : A -> V).

Definition grp (l : list A) (acc : amap V) : amap V :=
  fold_left (fun acc a => aappend (key a) [val a] acc) l acc.

Lemma aget_grp k l acc :
  aget k (grp l acc) = aget k acc ++ map val (filter (fun a => bytes_eqb (key a) k) l).
Proof.
  unfold grp. revert acc. induction l as [|a l IH]; intros acc; cbn [fold_left filter map].
  - rewrite app_nil_r. reflexivity.
  - rewrite IH, aget_aappend. rewrite (bytes_eqb_sym k (key a)).
    destruct (bytes_eqb (key a) k); cbn [map]; [rewrite <- app_assoc|]; reflexivity.
Qed.

Lemma NoDup_akeys_grp l acc : NoDup (akeys acc) -> NoDup (akeys (grp l acc)).
Proof.
  unfold grp. revert acc. induction l as [|a l IH]; intros acc H; cbn [fold_left]; [exact H|].
  apply IH. apply NoDup_akeys_aappend. exact H.
Qed.

Lemma akeys_grp l acc x :
  In x (akeys (grp l acc)) <-> In x (akeys acc) \/ In x (map key l).
Proof.
  unfold grp. revert acc. induction l as [|a l IH]; intros acc; cbn [fold_left map In]; [tauto|].
  rewrite IH. split.
  - intros [H|H]; [|tauto]. apply akeys_aappend_incl in H. destruct H; [subst|]; tauto.
  - intros [H|[H|H]]; [left; apply akeys_aappend_mono; exact H| |tauto].
    subst. left. apply akeys_aappend_self.
Qed.

Lemma avalues_grp l acc : Permutation (avalues (grp l acc)) (avalues acc ++ map val l).
Proof.
  unfold grp. revert acc. induction l as [|a l IH]; intros acc; cbn [fold_left map].
  - rewrite app_nil_r. reflexivity.
  - rewrite IH, avalues_aappend. rewrite <- app_assoc. reflexivity.
Qed.
End Group.

(* ------------------------------------------------------------------ findMembersByTopic *)
Definition subscribes (t : bytes) (m : member) : bool :=
  existsb (fun t' => bytes_eqb t' t) (m_topics m).

Definition wf_group (ms : list member) : Prop :=
  NoDup (map m_id ms) /\ forall m, In m ms -> NoDup (m_topics m).

Lemma subscribes_iff t m : subscribes t m = true <-> In t (m_topics m).
Proof.
  unfold subscribes. rewrite existsb_exists. split.
  - intros [x [H1 H2]]. destruct (bytes_eqb_spec x t); congruence.
  - intros H. exists t. split; [exact H|apply bytes_eqb_refl].
Qed.

Lemma filter_eq_nodup t (l : list bytes) : NoDup l ->
  filter (fun t' => bytes_eqb t' t) l = if existsb (fun t' => bytes_eqb t' t) l then [t] else [].
Proof.
  induction l as [|x l IH]; cbn [filter existsb]; [reflexivity|].
  intros H. inversion H; subst. destruct (bytes_eqb_spec x t) as [->|N0]; cbn [orb].
  - rewrite IH by assumption.
    destruct (existsb (fun t' => bytes_eqb t' t) l) eqn:E; [|reflexivity].
    exfalso. apply H2. apply existsb_exists in E. destruct E as [y [Hy1 Hy2]].
    destruct (bytes_eqb_spec y t); congruence.
  - apply IH. assumption.
Qed.

Definition gbt_from (ms : list member) (acc : amap member) : amap member :=
  fold_left (fun acc m => fold_left (fun acc t => aappend t [m] acc) (m_topics m) acc) ms acc.

Lemma group_by_topic_eq ms : group_by_topic ms = gbt_from ms [].
Proof. reflexivity. Qed.

Lemma aget_gbt_from t ms acc : (forall m, In m ms -> NoDup (m_topics m)) ->
  aget t (gbt_from ms acc) = aget t acc ++ filter (subscribes t) ms.
Proof.
  unfold gbt_from. revert acc. induction ms as [|m ms IH]; intros acc H; cbn [fold_left filter].
  - rewrite app_nil_r. reflexivity.
  - rewrite IH by (intros; apply H; right; assumption).
    change (fold_left (fun acc0 t0 => aappend t0 [m] acc0) (m_topics m) acc)
      with (grp (fun t0 : bytes => t0) (fun _ : bytes => m) (m_topics m) acc).
    rewrite aget_grp. rewrite filter_eq_nodup by (apply H; left; reflexivity).
    unfold subscribes. destruct (existsb (fun t' => bytes_eqb t' t) (m_topics m)); cbn [map].
    + rewrite <- app_assoc. reflexivity.
    + rewrite app_nil_r. reflexivity.
Qed.

Lemma NoDup_akeys_gbt_from ms acc : NoDup (akeys acc) -> NoDup (akeys (gbt_from ms acc)).
Proof.
  unfold gbt_from. revert acc. induction ms as [|m ms IH]; intros acc H; cbn [fold_left]; [exact H|].
  apply IH.
  change (fold_left (fun acc0 t0 => aappend t0 [m] acc0) (m_topics m) acc)
    with (grp (fun t0 : bytes => t0) (fun _ : bytes => m) (m_topics m) acc).
  apply NoDup_akeys_grp. exact H.
Qed.

Lemma akeys_gbt_from ms acc t :
  In t (akeys (gbt_from ms acc)) <-> In t (akeys acc) \/ exists m, In m ms /\ In t (m_topics m).
Proof.
  unfold gbt_from. revert acc. induction ms as [|m ms IH]; intros acc; cbn [fold_left].
  - split; [auto|]. intros [H|[m [[] _]]]. exact H.
  - rewrite IH.
    change (fold_left (fun acc0 t0 => aappend t0 [m] acc0) (m_topics m) acc)
      with (grp (fun t0 : bytes => t0) (fun _ : bytes => m) (m_topics m) acc).
    rewrite akeys_grp, map_id. split.
    + intros [[H|H]|[m' [H1 H2]]]; [tauto| |].
      * right. exists m. split; [left; reflexivity|exact H].
      * right. exists m'. split; [right; exact H1|exact H2].
    + intros [H|[m' [[->|H1] H2]]]; [tauto|tauto|].
      right. exists m'. tauto.
Qed.

Lemma aget_group_by_topic t ms : wf_group ms ->
  aget t (group_by_topic ms) = filter (subscribes t) ms.
Proof. intros [_ H]. rewrite group_by_topic_eq, aget_gbt_from by exact H. reflexivity. Qed.

Lemma NoDup_akeys_group_by_topic ms : NoDup (akeys (group_by_topic ms)).
Proof. apply NoDup_akeys_gbt_from. constructor. Qed.

Lemma akeys_group_by_topic ms t :
  In t (akeys (group_by_topic ms)) <-> exists m, In m ms /\ In t (m_topics m).
Proof. rewrite group_by_topic_eq, akeys_gbt_from. cbn. tauto. Qed.

(* ------------------------------------------------------------------ sorting by id *)
Definition id_lt (a b : member) : Prop := bytes_ltb (m_id a) (m_id b) = true.

Lemma insert_member_perm m l : Permutation (insert_member m l) (m :: l).
Proof.
  induction l as [|x l IH]; cbn [insert_member]; [reflexivity|].
  destruct (bytes_ltb (m_id x) (m_id m)); [|reflexivity].
  rewrite IH. apply perm_swap.
Qed.

Lemma sort_members_perm l : Permutation (sort_members l) l.
Proof.
  induction l as [|x l IH]; cbn [sort_members fold_right]; [reflexivity|].
  fold (sort_members l). rewrite insert_member_perm, IH. reflexivity.
Qed.

Lemma sort_members_length l : length (sort_members l) = length l.
Proof. apply Permutation_length, sort_members_perm. Qed.

Lemma insert_member_sorted m l :
  StronglySorted id_lt l -> ~ In (m_id m) (map m_id l) -> StronglySorted id_lt (insert_member m l).
Proof.
  induction l as [|x l IH]; cbn [insert_member map In]; intros Hs Hn.
  - constructor; constructor.
  - inversion Hs; subst.
    destruct (bytes_ltb (m_id x) (m_id m)) eqn:E.
    + constructor; [apply IH; [assumption|tauto]|].
      rewrite Forall_forall. intros y Hy.
      apply (Permutation_in _ (insert_member_perm m l)) in Hy. destruct Hy as [<-|Hy]; [exact E|].
      rewrite Forall_forall in H2. apply H2. exact Hy.
    + assert (Hmx : id_lt m x).
      { unfold id_lt. destruct (bytes_ltb (m_id m) (m_id x)) eqn:E2; [reflexivity|].
        exfalso. apply Hn. left. apply bytes_ltb_total; assumption. }
      constructor; [exact Hs|]. constructor; [exact Hmx|].
      rewrite Forall_forall in *. intros y Hy. unfold id_lt in *.
      eapply bytes_ltb_trans; [exact Hmx|apply H2; exact Hy].
Qed.

Lemma sort_members_sorted l : NoDup (map m_id l) -> StronglySorted id_lt (sort_members l).
Proof.
  induction l as [|x l IH]; cbn [sort_members fold_right map]; intros H; [constructor|].
  fold (sort_members l). inversion H; subst.
  apply insert_member_sorted; [apply IH; assumption|].
  intros Hin. apply H2. eapply Permutation_in; [|exact Hin].
  apply Permutation_map, sort_members_perm.
Qed.

Lemma sorted_perm_eq l l' :
  StronglySorted id_lt l -> StronglySorted id_lt l' -> Permutation l l' -> l = l'.
Proof.
  revert l'. induction l as [|a l IH]; intros l' Hs Hs' Hp.
  - apply Permutation_nil in Hp. congruence.
  - destruct l' as [|a' l']; [apply Permutation_sym, Permutation_nil in Hp; discriminate|].
    inversion Hs; subst. inversion Hs'; subst.
    rewrite Forall_forall in *.
    assert (a = a').
    { assert (Ha : In a (a' :: l')) by (eapply Permutation_in; [exact Hp|left; reflexivity]).
      assert (Ha' : In a' (a :: l)) by (eapply Permutation_in; [apply Permutation_sym; exact Hp|left; reflexivity]).
      destruct Ha as [Ha|Ha]; [congruence|]. destruct Ha' as [Ha'|Ha']; [congruence|].
      exfalso. pose proof (H2 _ Ha') as P1. pose proof (H4 _ Ha) as P2. unfold id_lt in *.
      rewrite (bytes_ltb_asym _ _ P1) in P2. discriminate. }
    subst a'. f_equal. apply IH; [assumption|assumption|].
    eapply Permutation_cons_inv. exact Hp.
Qed.

Lemma sort_members_perm_eq l l' : NoDup (map m_id l) -> Permutation l l' ->
  sort_members l = sort_members l'.
Proof.
  intros Hnd Hp. apply sorted_perm_eq.
  - apply sort_members_sorted. exact Hnd.
  - apply sort_members_sorted. eapply Permutation_NoDup; [apply Permutation_map; exact Hp|exact Hnd].
  - rewrite !sort_members_perm. exact Hp.
Qed.

Lemma NoDup_map_filter {A B} (f : A -> B) p (l : list A) : NoDup (map f l) -> NoDup (map f (filter p l)).
Proof.
  induction l as [|a l IH]; cbn [map filter]; intros H; [constructor|].
  inversion H; subst. destruct (p a); cbn [map]; [|auto].
  constructor; [|auto]. intros Hin. apply H2. apply in_map_iff in Hin.
  destruct Hin as [x [E Hx]]. apply filter_In in Hx. rewrite <- E. apply in_map. tauto.
Qed.

Lemma filter_perm {A} p (l l' : list A) : Permutation l l' -> Permutation (filter p l) (filter p l').
Proof.
  induction 1; cbn [filter]; try (destruct (p x); auto; fail).
  - constructor.
  - destruct (p x), (p y); auto. apply perm_swap.
  - etransitivity; eassumption.
Qed.

Lemma aget_map_values {V W} (f : list V -> list W) k (m : amap V) : f [] = [] ->
  aget k (map (fun e => (fst e, f (snd e))) m) = f (aget k m).
Proof.
  intros Hf. induction m as [|[k0 l] r IH]; cbn [map aget fst snd]; [auto|].
  destruct (bytes_eqb k k0); auto.
Qed.

Lemma akeys_map_values {V W} (f : list V -> list W) (m : amap V) :
  akeys (map (fun e => (fst e, f (snd e))) m) = akeys m.
Proof. unfold akeys. rewrite map_map. reflexivity. Qed.

(* the sorted subscriber list of a topic *)
Definition subscribers (t : bytes) (ms : list member) : list member :=
  sort_members (filter (subscribes t) ms).

Lemma aget_find_members_by_topic t ms : wf_group ms ->
  aget t (find_members_by_topic ms) = subscribers t ms.
Proof.
  intros H. unfold find_members_by_topic, subscribers.
  rewrite (aget_map_values sort_members) by reflexivity.
  rewrite aget_group_by_topic by exact H. reflexivity.
Qed.

Lemma subscribers_perm t ms ms' : wf_group ms -> Permutation ms ms' ->
  subscribers t ms = subscribers t ms'.
Proof.
  intros [H _] Hp. unfold subscribers. apply sort_members_perm_eq.
  - apply NoDup_map_filter. exact H.
  - apply filter_perm. exact Hp.
Qed.

Lemma wf_group_perm ms ms' : wf_group ms -> Permutation ms ms' -> wf_group ms'.
Proof.
  intros [H1 H2] Hp. split.
  - eapply Permutation_NoDup; [apply Permutation_map; exact Hp|exact H1].
  - intros m Hm. apply H2. eapply Permutation_in; [apply Permutation_sym; exact Hp|exact Hm].
Qed.

Lemma in_subscribers t ms m : In m (subscribers t ms) <-> In m ms /\ In t (m_topics m).
Proof.
  unfold subscribers. split.
  - intros H. apply (Permutation_in _ (sort_members_perm _)) in H.
    apply filter_In in H. rewrite subscribes_iff in H. exact H.
  - intros H. apply (Permutation_in _ (Permutation_sym (sort_members_perm _))).
    apply filter_In. rewrite subscribes_iff. exact H.
Qed.

Lemma NoDup_ids_subscribers t ms : NoDup (map m_id ms) -> NoDup (map m_id (subscribers t ms)).
Proof.
  intros H. unfold subscribers.
  eapply Permutation_NoDup; [apply Permutation_map, Permutation_sym, sort_members_perm|].
  apply NoDup_map_filter. exact H.
Qed.
