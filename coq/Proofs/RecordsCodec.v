(* Proofs/RecordsCodec.v — the reference codec of Spec/RecordFormat.v decodes what it encodes. *)
From Coq Require Import List NArith ZArith Bool Lia.
From Coq Require Import ZifyN ZifyNat ZifyBool.
From KV Require Import Lib.Bits Lib.Bytes Lib.Crc Spec.RecordFormat.
Import ListNotations.
Open Scope Z_scope.

(* ------------------------------------------------------------------ lists, fixed ints *)
Lemma zlen_app {A} (a b : list A) : zlen (a ++ b) = zlen a + zlen b.
Proof. unfold zlen. rewrite app_length. lia. Qed.
Lemma zlen_nonneg {A} (a : list A) : 0 <= zlen a.
Proof. unfold zlen. lia. Qed.
Lemma zlen_put_bes w z : zlen (put_bes w z) = Z.of_nat w.
Proof. unfold zlen, put_bes. rewrite put_be_length. reflexivity. Qed.
Lemma zlen_put_be w x : zlen (put_be w x) = Z.of_nat w.
Proof. unfold zlen. rewrite put_be_length. reflexivity. Qed.

Lemma take_app n a r : length a = n -> take n (a ++ r) = Some (a, r).
Proof.
  intros <-. induction a as [|x a IH]; cbn [length take app]; [reflexivity|]. rewrite IH. reflexivity.
Qed.
Lemma take_all n a : length a = n -> take n a = Some (a, []).
Proof. intros H. rewrite <- (app_nil_r a) at 1. apply take_app. exact H. Qed.
Lemma take_zlen a r : take (Z.to_nat (zlen a)) (a ++ r) = Some (a, r).
Proof. apply take_app. unfold zlen. lia. Qed.

Lemma get_i_put w z r : (0 < w)%nat -> in_signed w z -> get_i w (put_bes w z ++ r) = Some (z, r).
Proof.
  intros Hw Hz. unfold get_i. rewrite take_app by (unfold put_bes; apply put_be_length).
  rewrite get_put_bes by assumption. reflexivity.
Qed.

Lemma in_signed_1 z : -128 <= z < 128 -> in_signed 1 z.
Proof. unfold in_signed. change (pow256 1) with 256%N. change (256 / 2)%N with 128%N. lia. Qed.
Lemma in_signed_2 z : -32768 <= z < 32768 -> in_signed 2 z.
Proof. unfold in_signed. change (pow256 2) with 65536%N. change (65536 / 2)%N with 32768%N. lia. Qed.
Lemma in_signed_4 z : in_i32 z -> in_signed 4 z.
Proof. unfold in_signed, in_i32, ZM31. change (pow256 4) with 4294967296%N. change (4294967296 / 2)%N with 2147483648%N. lia. Qed.
Lemma in_signed_8 z : in_i64 z -> in_signed 8 z.
Proof. unfold in_signed, in_i64, ZM63. change (pow256 8) with 18446744073709551616%N.
  change (18446744073709551616 / 2)%N with 9223372036854775808%N. lia. Qed.

Lemma bytes_eqb_refl a : bytes_eqb a a = true.
Proof. induction a as [|x a IH]; cbn [bytes_eqb]; [reflexivity|]. rewrite N.eqb_refl, IH. reflexivity. Qed.

(* ------------------------------------------------------------------ varints *)
Definition pow128 (n : nat) : N := (128 ^ N.of_nat n)%N.
Lemma pow128_S n : pow128 (S n) = (128 * pow128 n)%N.
Proof. unfold pow128. rewrite Nat2N.inj_succ, N.pow_succ_r'. reflexivity. Qed.

Lemma uv_dec_enc : forall fuel x r, (x < pow128 (S fuel))%N ->
  uv_dec (S fuel) (uv_enc fuel x ++ r) = Some (x, r).
Proof.
  induction fuel as [|f IH]; intros x r Hx.
  - cbn [uv_enc app uv_dec]. change (pow128 1) with 128%N in Hx.
    destruct (N.ltb_spec x 128); [reflexivity|lia].
  - cbn [uv_enc]. rewrite pow128_S in Hx.
    destruct (N.ltb_spec x 128) as [Hlt|Hge].
    + cbn [app uv_dec]. destruct (N.ltb_spec x 128); [reflexivity|lia].
    + cbn [app]. change (uv_dec (S (S f)) ((x mod 128 + 128)%N :: uv_enc f (x / 128)%N ++ r))
        with (if (x mod 128 + 128 <? 128)%N then Some ((x mod 128 + 128)%N, uv_enc f (x / 128)%N ++ r)
              else match uv_dec (S f) (uv_enc f (x / 128)%N ++ r) with
                   | Some (v, r0) => Some ((x mod 128 + 128 - 128 + 128 * v)%N, r0)
                   | None => None end).
      destruct (N.ltb_spec (x mod 128 + 128) 128); [lia|].
      rewrite IH by (apply N.div_lt_upper_bound; lia).
      f_equal. f_equal. pose proof (N.div_mod x 128 ltac:(discriminate)). lia.
Qed.

Lemma zz_enc_lt z : in_i64 z -> (zz_enc z < M64)%N.
Proof. unfold in_i64, ZM63, zz_enc, M64. intros H. destruct (Z.ltb_spec z 0); lia. Qed.
Lemma zz_dec_enc z : zz_dec (zz_enc z) = z.
Proof.
  unfold zz_dec, zz_enc. destruct (Z.ltb_spec z 0) as [Hn|Hp].
  - destruct (N.eqb_spec (Z.to_N (-2 * z - 1) mod 2) 0) as [He|He].
    + exfalso. lia.
    + lia.
  - destruct (N.eqb_spec (Z.to_N (2 * z) mod 2) 0) as [He|He].
    + lia.
    + exfalso. lia.
Qed.

Lemma M64_lt_pow128_10 : (M64 < pow128 10)%N.
Proof. unfold M64, pow128. vm_compute. reflexivity. Qed.

Lemma sv_dec_enc z r : in_i64 z -> sv_dec (sv_enc z ++ r) = Some (z, r).
Proof.
  intros Hz. unfold sv_dec, sv_enc.
  rewrite uv_dec_enc by (pose proof (zz_enc_lt z Hz); pose proof M64_lt_pow128_10; lia).
  rewrite zz_dec_enc. reflexivity.
Qed.

(* ------------------------------------------------------------------ byte strings *)
Definition small {A} (l : list A) : Prop := zlen l < ZM31.
Definition osmall (b : obytes) : Prop := match b with None => True | Some l => small l end.

Lemma small_i32 {A} (l : list A) : small l -> in_i32 (zlen l).
Proof. unfold small, in_i32, ZM31, zlen. lia. Qed.
Lemma small_i64 {A} (l : list A) : small l -> in_i64 (zlen l).
Proof. unfold small, in_i64, ZM31, ZM63, zlen. lia. Qed.
Lemma m1_i64 : in_i64 (-1). Proof. unfold in_i64, ZM63. lia. Qed.

Lemma dec_enc_nbytes b r : osmall b -> dec_nbytes (enc_nbytes b ++ r) = Some (b, r).
Proof.
  intros Hb. unfold dec_nbytes, enc_nbytes. destruct b as [l|].
  - rewrite <- app_assoc. rewrite get_i_put by (try lia; apply in_signed_4, small_i32, Hb).
    pose proof (zlen_nonneg l). destruct (Z.ltb_spec (zlen l) 0); [lia|].
    rewrite take_zlen. reflexivity.
  - rewrite get_i_put by (try lia; apply in_signed_4; unfold in_i32, ZM31; lia).
    reflexivity.
Qed.

Lemma dec_enc_vbytes b r : osmall b -> dec_vbytes (enc_vbytes b ++ r) = Some (b, r).
Proof.
  intros Hb. unfold dec_vbytes, enc_vbytes. destruct b as [l|].
  - rewrite <- app_assoc. rewrite sv_dec_enc by (apply small_i64, Hb).
    pose proof (zlen_nonneg l). destruct (Z.ltb_spec (zlen l) 0); [lia|].
    rewrite take_zlen. reflexivity.
  - rewrite sv_dec_enc by apply m1_i64. reflexivity.
Qed.

(* ------------------------------------------------------------------ v2 records *)
Definition wf_hdr (h : header) : Prop := small (fst h) /\ osmall (snd h).
Definition wf_rec (r : rec2) : Prop :=
  in_i64 (r_tsd r) /\ in_i64 (r_offd r) /\ osmall (r_key r) /\ osmall (r_val r) /\
  small (r_hdrs r) /\ Forall wf_hdr (r_hdrs r) /\ small (rec_body r).

Lemma dec_enc_hdr h r : wf_hdr h -> dec_hdr (enc_hdr h ++ r) = Some (h, r).
Proof.
  intros [Hk Hv]. unfold dec_hdr, enc_hdr. rewrite <- !app_assoc.
  rewrite sv_dec_enc by (apply small_i64, Hk).
  pose proof (zlen_nonneg (fst h)). destruct (Z.ltb_spec (zlen (fst h)) 0); [lia|].
  rewrite take_zlen. rewrite dec_enc_vbytes by exact Hv. destruct h; reflexivity.
Qed.

Lemma dec_enc_hdrs hs : forall r, Forall wf_hdr hs ->
  dec_hdrs (length hs) (concat (map enc_hdr hs) ++ r) = Some (hs, r).
Proof.
  induction hs as [|h hs IH]; intros r H; cbn [length map concat dec_hdrs app]; [reflexivity|].
  apply Forall_cons_iff in H as [Hh Hs].
  rewrite <- app_assoc. rewrite dec_enc_hdr by exact Hh. rewrite IH by exact Hs. reflexivity.
Qed.

Lemma dec_enc_rec_body r : wf_rec r -> dec_rec_body (rec_body r) = Some r.
Proof.
  intros (Ht & Ho & Hk & Hv & Hn & Hh & _). unfold dec_rec_body, rec_body.
  rewrite get_i_put by (try lia; apply in_signed_1; lia).
  rewrite sv_dec_enc by exact Ht. rewrite sv_dec_enc by exact Ho.
  rewrite dec_enc_vbytes by exact Hk. rewrite dec_enc_vbytes by exact Hv.
  rewrite sv_dec_enc by (apply small_i64, Hn).
  pose proof (zlen_nonneg (r_hdrs r)). destruct (Z.ltb_spec (zlen (r_hdrs r)) 0); [lia|].
  replace (Z.to_nat (zlen (r_hdrs r))) with (length (r_hdrs r)) by (unfold zlen; lia).
  rewrite <- (app_nil_r (concat (map enc_hdr (r_hdrs r)))).
  rewrite dec_enc_hdrs by exact Hh. destruct r; reflexivity.
Qed.

Lemma dec_enc_recs rs : Forall wf_rec rs ->
  dec_recs (length rs) (concat (map enc_rec rs)) = Some rs.
Proof.
  induction rs as [|r rs IH]; intros H; cbn [length map concat dec_recs]; [reflexivity|].
  apply Forall_cons_iff in H as [Hr Hs].
  unfold enc_rec at 1. rewrite <- app_assoc.
  assert (Hsm : small (rec_body r)) by apply Hr.
  rewrite sv_dec_enc by (apply small_i64, Hsm).
  pose proof (zlen_nonneg (rec_body r)). destruct (Z.ltb_spec (zlen (rec_body r)) 0); [lia|].
  rewrite take_zlen. rewrite dec_enc_rec_body by exact Hr. rewrite IH by exact Hs. reflexivity.
Qed.

(* ------------------------------------------------------------------ messages (formats 0, 1) *)
Definition wf_msg (m : msg) : Prop :=
  (m_magic m = 0 \/ m_magic m = 1) /\ (m_magic m = 0 -> m_ts m = 0) /\
  -128 <= m_attrs m < 128 /\ in_i64 (m_ts m) /\ in_i64 (m_off m) /\
  osmall (m_key m) /\ osmall (m_val m) /\ 4 + zlen (msg_body m) < ZM31.

Lemma dec_enc_msg_body m : wf_msg m ->
  dec_msg_body (m_off m) (put_be 4 (crc32_ieee (msg_body m)) ++ msg_body m) = Some m.
Proof.
  intros (Hmg & Hts0 & Ha & Hts & Ho & Hk & Hv & _). unfold dec_msg_body.
  rewrite take_app by apply put_be_length. rewrite bytes_eqb_refl. cbn [negb].
  unfold msg_body.
  rewrite get_i_put by (try lia; apply in_signed_1; lia).
  replace ((m_magic m =? 0) || (m_magic m =? 1)) with true by (destruct Hmg as [->| ->]; reflexivity).
  cbn [negb].
  rewrite get_i_put by (try lia; apply in_signed_1; lia).
  destruct (Z.eqb_spec (m_magic m) 0) as [H0|H0].
  - cbn [app]. rewrite dec_enc_nbytes by exact Hk.
    rewrite <- (app_nil_r (enc_nbytes (m_val m))). rewrite dec_enc_nbytes by exact Hv.
    destruct m; cbn in *. rewrite (Hts0 H0). subst. reflexivity.
  - rewrite get_i_put by (try lia; apply in_signed_8, Hts).
    rewrite dec_enc_nbytes by exact Hk.
    rewrite <- (app_nil_r (enc_nbytes (m_val m))). rewrite dec_enc_nbytes by exact Hv.
    destruct m; reflexivity.
Qed.

Lemma split_enc_msg m rest : wf_msg m ->
  split_item (enc_msg m ++ rest) =
  Some (m_off m, put_be 4 (crc32_ieee (msg_body m)) ++ msg_body m, rest).
Proof.
  intros (_ & _ & _ & _ & Ho & _ & _ & Hsz). unfold split_item, enc_msg. rewrite <- !app_assoc.
  rewrite get_i_put by (try lia; apply in_signed_8, Ho).
  pose proof (zlen_nonneg (msg_body m)).
  rewrite get_i_put by (try lia; apply in_signed_4; unfold in_i32, ZM31 in *; lia).
  destruct (Z.ltb_spec (4 + zlen (msg_body m)) 0); [lia|].
  rewrite app_assoc. rewrite take_app; [reflexivity|].
  rewrite app_length, put_be_length. unfold zlen. lia.
Qed.

Lemma dec_enc_msgs ms : forall fuel, Forall wf_msg ms ->
  (length (concat (map enc_msg ms)) <= fuel)%nat ->
  dec_msgs fuel (concat (map enc_msg ms)) = Some ms.
Proof.
  induction ms as [|m ms IH]; intros fuel H Hf.
  - cbn. destruct fuel; reflexivity.
  - apply Forall_cons_iff in H as [Hm Hs]. cbn [map concat] in *.
    assert (Hlen : (16 <= length (enc_msg m))%nat).
    { unfold enc_msg. rewrite !app_length. unfold put_bes. rewrite !put_be_length. lia. }
    rewrite app_length in Hf.
    destruct fuel as [|fuel]; [lia|].
    cbn [dec_msgs].
    destruct (enc_msg m ++ concat (map enc_msg ms)) as [|b t] eqn:Hbt.
    { exfalso. apply (f_equal (@length N)) in Hbt. rewrite app_length in Hbt. cbn in Hbt. lia. }
    rewrite <- Hbt.
    rewrite split_enc_msg by exact Hm. rewrite dec_enc_msg_body by exact Hm.
    rewrite IH by (try exact Hs; lia). reflexivity.
Qed.
