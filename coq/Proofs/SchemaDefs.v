(* Proofs/SchemaDefs.v — vocabulary of the codec theorems: well-formed values,
   the canonical form decoding returns, the bytes a decode allocates. *)
From Coq Require Import List NArith ZArith Bool Lia.
From KV Require Import Lib.Bits Lib.Bytes Lib.Varint Model.Schema Proofs.SchemaBase.
Import ListNotations.

Definition is_nil {A} (l : list A) : bool := match l with [] => true | _ => false end.
Definition is_none {A} (o : option A) : bool := match o with None => true | _ => false end.

(* values the Go types can hold and the encoder renders faithfully *)
Fixpoint wfb (flex : bool) (t : ty) (v : value) {struct t} : bool :=
  match t, v with
  | TBool, VBool _ => true
  | TInt w, VInt z => in_signedb w z
  | TFloat64, VFloat bits => (bits <? M64)%N
  | TString _, VString s => bytes_okb s && (flex || (Z.of_nat (length s) <? 32768)%Z)
  | TBytes _, VBytes b =>
      let bs := match b with None => [] | Some l => l end in
      bytes_okb bs && (Z.of_nat (length bs) <? ZM31)%Z
  | TArray _ _ elem, VArray a pad =>
      (pad =? 0)%N &&
      let es := match a with None => [] | Some l => l end in
      (Z.of_nat (length es) <? ZM31)%Z &&
      (fix go (l : list value) : bool :=
         match l with [] => true | x :: r => wfb flex elem x && go r end) es
  | TStruct fields tagged, VStruct fs ts =>
      (fix go (tl : list ty) (vl : list value) : bool :=
         match tl, vl with
         | [], [] => true
         | ft :: tr, fv :: vr => wfb flex ft fv && go tr vr
         | _, _ => false
         end) fields fs
      && (fix go (tl : list (Z * ty)) (vl : list value) : bool :=
            match tl, vl with
            | [], [] => true
            | (_, ft) :: tr, fv :: vr => wfb flex ft fv && go tr vr
            | _, _ => false
            end) tagged ts
  | TMarker, VUnit => true
  | TRecords _, VRecords raw =>
      (* a size prefix n followed by exactly n bytes (n <= 0: nothing) *)
      bytes_okb raw &&
      match raw with
      | b0 :: b1 :: b2 :: b3 :: body =>
          let n := get_bes 4 [b0; b1; b2; b3] in
          if (n <? 0)%Z then is_nil body else (n =? Z.of_nat (length body))%Z
      | _ => false
      end
  | _, _ => false
  end.

(* what the decoder returns for an encoded value: the identity except where the Go
   types cannot tell nil from empty on the wire *)
Fixpoint canon (t : ty) (v : value) {struct t} : value :=
  match t, v with
  | TBytes nullable, VBytes None => if nullable then VBytes None else VBytes (Some [])
  | TArray nullable _ elem, VArray a pad =>
      match a with
      | None => if nullable then VArray None 0 else VArray (Some []) 0
      | Some es =>
          VArray (Some ((fix go (l : list value) : list value :=
                           match l with [] => [] | x :: r => canon elem x :: go r end) es)) pad
      end
  | TStruct fields tagged, VStruct fs ts =>
      VStruct ((fix go (tl : list ty) (vl : list value) : list value :=
                  match tl, vl with
                  | ft :: tr, fv :: vr => canon ft fv :: go tr vr
                  | _, _ => []
                  end) fields fs)
              ((fix go (tl : list (Z * ty)) (vl : list value) : list value :=
                  match tl, vl with
                  | (_, ft) :: tr, fv :: vr => canon ft fv :: go tr vr
                  | _, _ => []
                  end) tagged ts)
  | TRecords _, VRecords raw =>
      match raw with
      | b0 :: b1 :: b2 :: b3 :: body => VRecords raw
      | _ => VRecords raw
      end
  | _, _ => v
  end.

(* bytes allocated while decoding the encoding of v *)
Fixpoint alloc_of (t : ty) (v : value) {struct t} : N :=
  match t, v with
  | TString _, VString s => N.of_nat (length s)
  | TBytes _, VBytes (Some l) => N.of_nat (length l)
  | TArray nullable esize elem, VArray a _ =>
      match a with
      | None => 0
      | Some es =>
          (N.of_nat (length es) * esize +
           (fix go (l : list value) : N :=
              match l with [] => 0 | x :: r => alloc_of elem x + go r end) es)%N
      end
  | TStruct fields tagged, VStruct fs ts =>
      ((fix go (tl : list ty) (vl : list value) : N :=
          match tl, vl with
          | ft :: tr, fv :: vr => alloc_of ft fv + go tr vr
          | _, _ => 0
          end) fields fs
       + (fix go (tl : list (Z * ty)) (vl : list value) : N :=
            match tl, vl with
            | (_, ft) :: tr, fv :: vr => (if is_marker ft then 0 else alloc_of ft fv) + go tr vr
            | _, _ => 0
            end) tagged ts)%N
  | TRecords _, VRecords raw => N.of_nat (length raw - 4)
  | _, _ => 0
  end.
