(* Proofs/LifecycleGen.v — invariants of Reader.run, ConsumerGroup.run and the generations *)
From Coq Require Import List Arith Bool Lia.
From KV Require Import Lib.LTS Model.Lifecycle Proofs.LifecycleBase Proofs.LifecycleSafe.
Import ListNotations.

(* ---------------------------------------------------------------- run, cg, generations *)
Definition cur_gen (g : gphase) : option nat :=
  match g with GPublish k | GWait k | GClose k _ | GCloseWait k _ => Some k | _ => None end.
Definition r_gen (r : rphase) : option nat :=
  match r with RSub k | RStartC k | RStartU k => Some k | _ => None end.
Definition r_closing (r : rphase) : bool := match r with RCgWait | RDone | RExited => true | _ => false end.
Definition r_after (r : rphase) : bool := match r with RDone | RExited => true | _ => false end.
Definition pastp (k : nat) (f : fn) : bool := negb (acc_of k f) || nexit f.
Definition gen_past (s : state) (k : nat) (g : gen) : Prop :=
  forallb (pastp k) (fns s) = true /\ g_conn g = false /\ g_done g = true.

Record inv2 (s : state) : Prop := {
  j_nogroup : c_group (cfg s) = false -> gph s = GNone /\ rph s = RNone /\ gens s = [] /\ fns s = [] /\ rdone s = false;
  j_rdone : rdone s = true -> rph s = RExited;
  j_cgdone : r_closing (rph s) = true -> cgdone s = true;
  j_gexit : r_after (rph s) = true -> gph s = GExited;
  j_cur : forall k, cur_gen (gph s) = Some k -> k < length (gens s);
  j_rgen : forall k, r_gen (rph s) = Some k -> k < length (gens s);
  j_fngen : forall i f, nth_error (fns s) i = Some f -> n_gen f < length (gens s);
  j_past : forall k g, nth_error (gens s) k = Some g -> cur_gen (gph s) = Some k \/ gen_past s k g;
  j_late : forall i f, nth_error (fns s) i = Some f -> n_acc f = false -> gen_done s (n_gen f) = true }.

Lemma inv2_init : forall c, inv2 (init c).
Proof.
  intros c. split; cbn; intros; try discriminate; auto;
    try (destruct (c_group c); cbn in *; try discriminate; auto; fail);
    try (destruct k; discriminate); try (destruct i; discriminate).
Qed.

Lemma past_setfn : forall k l i f kd d ph,
  forallb (pastp k) l = true -> nth_error l i = Some f -> nexit f = false ->
  forallb (pastp k) (upd i (mkFn (n_gen f) kd (n_acc f) d ph) l) = true.
Proof.
  intros. apply forallb_upd; auto. pose proof (forallb_nth _ _ _ _ _ H H0) as P.
  unfold pastp, acc_of in *. cbn. rewrite H1 in P. rewrite orb_false_r in P. rewrite P. reflexivity.
Qed.
Lemma past_app : forall k l f, forallb (pastp k) l = true -> acc_of k f = false -> forallb (pastp k) (l ++ [f]) = true.
Proof. intros. rewrite forallb_app1, H. unfold pastp. rewrite H0. reflexivity. Qed.
Lemma nexit_false : forall f, n_ph f <> NExit -> nexit f = false.
Proof. intros. unfold nexit. destruct (n_ph f); congruence. Qed.

Ltac rw_ph :=
  repeat match goal with
  | H : rph ?s = _ |- _ => is_var s; rewrite H in *; revert H
  | H : gph ?s = _ |- _ => is_var s; rewrite H in *; revert H
  end; intros.
Ltac j_close J0 J1 :=
  eauto; try discriminate; try congruence;
  try (match goal with H : c_group _ = false |- _ => destruct (J0 H) as (?&?&?&?&?); congruence end);
  try (match goal with H : rdone _ = true |- _ => specialize (J1 H); congruence end);
  try lia.

Lemma inv2_step : forall s l s', inv2 s -> step s l = Some s' -> inv2 s'.
Proof.
  intros s l s' I St.
  assert (Cfg := cfg_step _ _ _ St).
  destruct l;
  try solve [
    step_inv St; unf; try rewrite reply_all_calls_only;
    repeat match goal with |- context [if closed ?s then _ else _] => destruct (closed s) eqn:? end;
    destruct I as [J0 J1 J2 J3 J4 J5 J6 J7 J8]; rw_ph; split; intros; unfold gen_past, gen_done in *; cbn in *;
    j_close J0 J1 ].
  all: match goal with St : step _ ?l = _ |- _ => idtac l end.
Abort.
