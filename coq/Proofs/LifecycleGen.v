(* Proofs/LifecycleGen.v — invariants of Reader.run, ConsumerGroup.run and the generations *)
From Coq Require Import List Arith Bool Lia.
From KV Require Import Lib.LTS Model.Lifecycle Proofs.LifecycleBase Proofs.LifecycleSafe.
Import ListNotations.

(* ---------------------------------------------------------------- run, cg, generations *)
Definition cur_gen (g : gphase) : option nat :=
  match g with GPublish k | GWait k | GClose k _ | GCloseWait k _ => Some k | _ => None end.
Definition r_gen (r : rphase) : option nat :=
  match r with RSub k | RStartC k | RStartU k => Some k | _ => None end.
Definition r_closing (r : rphase) : bool := match r with RCgWait | RDone | RExited => true | _ => false end.
Definition r_after (r : rphase) : bool := match r with RDone | RExited => true | _ => false end.
Definition pastp (k : nat) (f : fn) : bool := negb (acc_of k f) || nexit f.
Definition gen_past (s : state) (k : nat) (g : gen) : Prop :=
  forallb (pastp k) (fns s) = true /\ g_conn g = false /\ g_done g = true.

Record inv2 (s : state) : Prop := {
  j_nogroup : c_group (cfg s) = false -> gph s = GNone /\ rph s = RNone /\ gens s = [] /\ fns s = [] /\ rdone s = false;
  j_rdone : rdone s = true -> rph s = RExited;
  j_cgdone : r_closing (rph s) = true -> cgdone s = true;
  j_gexit : r_after (rph s) = true -> gph s = GExited;
  j_cur : forall k, cur_gen (gph s) = Some k -> k < length (gens s);
  j_rgen : forall k, r_gen (rph s) = Some k -> k < length (gens s);
  j_fngen : forall i f, nth_error (fns s) i = Some f -> n_gen f < length (gens s);
  j_past : forall k g, nth_error (gens s) k = Some g -> cur_gen (gph s) = Some k \/ gen_past s k g;
  j_late : forall i f, nth_error (fns s) i = Some f -> n_acc f = false -> gen_done s (n_gen f) = true;
  j_cw : forall k w, gph s = GCloseWait k w -> gen_done s k = true }.

Lemma inv2_init : forall c, inv2 (init c).
Proof.
  intros c. split; cbn; intros; try discriminate; auto;
    try (destruct (c_group c); cbn in *; try discriminate; auto; fail);
    try (destruct k; discriminate); try (destruct i; discriminate).
Qed.

Lemma past_setfn : forall k l i f kd d ph,
  forallb (pastp k) l = true -> nth_error l i = Some f -> nexit f = false ->
  forallb (pastp k) (upd i (mkFn (n_gen f) kd (n_acc f) d ph) l) = true.
Proof.
  intros. apply forallb_upd; auto. pose proof (forallb_nth _ _ _ _ _ H H0) as P.
  unfold pastp, acc_of in *. cbn. rewrite H1 in P. rewrite orb_false_r in P. rewrite P. reflexivity.
Qed.
Lemma past_app : forall k l f, forallb (pastp k) l = true -> acc_of k f = false -> forallb (pastp k) (l ++ [f]) = true.
Proof. intros. rewrite forallb_app1, H. unfold pastp. rewrite H0. reflexivity. Qed.
Lemma nexit_false : forall f, n_ph f <> NExit -> nexit f = false.
Proof. intros. unfold nexit. destruct (n_ph f); congruence. Qed.

Lemma nth_app_cases : forall A (l : list A) x i y,
  nth_error (l ++ [x]) i = Some y -> nth_error l i = Some y \/ (i = length l /\ y = x).
Proof.
  intros. destruct (Nat.lt_ge_cases i (length l)).
  - rewrite nth_error_app1 in H by auto. auto.
  - rewrite nth_error_app2 in H by auto. destruct (i - length l) as [|[|]] eqn:E; cbn in H; try discriminate.
    inversion H; subst. right. split; auto. lia.
Qed.

Lemma inv2_ext : forall s s', inv2 s -> cfg s' = cfg s -> gph s' = gph s -> rph s' = rph s -> gens s' = gens s ->
  fns s' = fns s -> rdone s' = rdone s -> cgdone s' = cgdone s -> inv2 s'.
Proof.
  intros s s' [J0 J1 J2 J3 J4 J5 J6 J7 J8 J9] E1 E2 E3 E4 E5 E6 E7.
  split; unfold gen_past, gen_done in *; rewrite ?E1, ?E2, ?E3, ?E4, ?E5, ?E6, ?E7; auto.
Qed.

(* a function that has not exited changes phase (generation and accounting bit are fixed) *)
Lemma inv2_fn_upd : forall s s' i f kd d ph, inv2 s -> nth_error (fns s) i = Some f -> nexit f = false ->
  cfg s' = cfg s -> gph s' = gph s -> rph s' = rph s -> gens s' = gens s -> rdone s' = rdone s -> cgdone s' = cgdone s ->
  fns s' = upd i (mkFn (n_gen f) kd (n_acc f) d ph) (fns s) -> inv2 s'.
Proof.
  intros s s' i f kd d ph [J0 J1 J2 J3 J4 J5 J6 J7 J8 J9] Hf Hx E1 E2 E3 E4 E6 E7 E5.
  split; unfold gen_past, gen_done in *; rewrite ?E1, ?E2, ?E3, ?E4, ?E5, ?E6, ?E7; auto.
  - intros G. destruct (J0 G) as (A & B & C & D & E). rewrite D in Hf. destruct i; discriminate.
  - intros j g H. rewrite nth_upd in H. destruct (Nat.eqb_spec i j).
    + subst. rewrite Hf in H. inversion H; subst. cbn. eauto.
    + eauto.
  - intros k g H. destruct (J7 k g H) as [|(A & B & C)]; auto. right. split; auto.
    apply past_setfn; auto.
  - intros j g H Ha. rewrite nth_upd in H. destruct (Nat.eqb_spec i j).
    + subst. rewrite Hf in H. inversion H; subst. cbn in *. eauto.
    + eauto.
Qed.

(* generation k changes monotonically: done stays set, a closed connection stays closed *)
Lemma inv2_gen_upd : forall s s' k g g', inv2 s -> nth_error (gens s) k = Some g ->
  (g_done g = true -> g_done g' = true) -> (g_conn g = false -> g_conn g' = false) ->
  cfg s' = cfg s -> gph s' = gph s -> rph s' = rph s -> fns s' = fns s -> rdone s' = rdone s -> cgdone s' = cgdone s ->
  gens s' = upd k g' (gens s) -> inv2 s'.
Proof.
  intros s s' k g g' [J0 J1 J2 J3 J4 J5 J6 J7 J8 J9] Hg M1 M2 E1 E2 E3 E5 E6 E7 E4.
  split; unfold gen_past, gen_done in *; rewrite ?E1, ?E2, ?E3, ?E4, ?E5, ?E6, ?E7, ?upd_length; auto.
  - intros G. destruct (J0 G) as (A & B & C & D & E). rewrite C in Hg. destruct k; discriminate.
  - intros j g0 H. rewrite nth_upd in H. destruct (Nat.eqb_spec k j).
    + subst. rewrite Hg in H. inversion H; subst. destruct (J7 _ _ Hg) as [|(A & B & C)]; auto.
    + eauto.
  - intros j f H Ha. rewrite nth_upd. specialize (J8 j f H Ha). destruct (Nat.eqb_spec k (n_gen f)).
    + rewrite <- e, Hg in *. auto.
    + exact J8.
  - intros j w H. rewrite nth_upd. specialize (J9 j w H). destruct (Nat.eqb_spec k j).
    + subst. rewrite Hg in *. auto.
    + exact J9.
Qed.

(* the cg goroutine moves on, the current generation (if any) stays current *)
Lemma inv2_gph : forall s g', inv2 s -> gph s <> GNone -> gph s <> GExited -> cur_gen g' = cur_gen (gph s) ->
  g' <> GNone -> (forall k w, g' = GCloseWait k w -> gen_done s k = true) -> inv2 (set_gph g' s).
Proof.
  intros s g' [J0 J1 J2 J3 J4 J5 J6 J7 J8 J9] N1 N2 Hc N3 N4.
  split; unfold gen_past, gen_done in *; cbn; auto.
  - intros G. destruct (J0 G) as (A & _). congruence.
  - intros G. specialize (J3 G). congruence.
  - rewrite Hc. auto.
  - rewrite Hc. auto.
Qed.

(* the current generation is over: all its accounted functions exited, its connection closed *)
Lemma inv2_leave_cur : forall s k g g', inv2 s -> cur_gen (gph s) = Some k -> nth_error (gens s) k = Some g ->
  gen_past s k g -> cur_gen g' = None -> g' <> GNone -> inv2 (set_gph g' s).
Proof.
  intros s k g g' [J0 J1 J2 J3 J4 J5 J6 J7 J8 J9] Hk Hg Hp Hc N3.
  assert (N1 : gph s <> GNone /\ gph s <> GExited) by (destruct (gph s); cbn in Hk; try discriminate; split; discriminate).
  split; unfold gen_past, gen_done in *; cbn; auto.
  - intros G. destruct (J0 G) as (A & _). tauto.
  - intros G. specialize (J3 G). tauto.
  - rewrite Hc. discriminate.
  - intros j g0 H. destruct (J7 j g0 H) as [A|A]; auto. rewrite Hk in A. inversion A; subst. rewrite Hg in H. inversion H; subst. auto.
  - intros j w H. rewrite H in Hc. discriminate.
Qed.

Lemma inv2_start_fn : forall s k kd r', inv2 s -> r_gen (rph s) = Some k ->
  (r_gen r' = None \/ r_gen r' = Some k) -> r_closing r' = false -> inv2 (set_rph r' (start_fn k kd s)).
Proof.
  intros s k kd r' [J0 J1 J2 J3 J4 J5 J6 J7 J8 J9] Hk Hr Hc.
  assert (Hrp : rph s <> RNone /\ rph s <> RExited) by (destruct (rph s); cbn in Hk; try discriminate; split; discriminate).
  unfold start_fn. split; unfold gen_past, gen_done in *; cbn.
  - intros G. destruct (J0 G) as (A & B & C & D & E). tauto.
  - intros G. specialize (J1 G). tauto.
  - rewrite Hc. discriminate.
  - intros G. destruct r'; cbn in *; discriminate.
  - auto.
  - intros j G. destruct Hr as [Hr|Hr]; rewrite Hr in G; [discriminate|]. inversion G; subst. auto.
  - intros i f H. apply nth_app_cases in H as [H|[_ H]]; [eauto|]. subst. cbn. auto.
  - intros j g H. destruct (J7 j g H) as [|(A & B & C)]; auto. right. split; auto.
    apply past_app; auto. unfold acc_of. cbn. destruct (Nat.eqb_spec k j); auto. subst. unfold gen_done. rewrite H, C. reflexivity.
  - intros i f H Ha. apply nth_app_cases in H as [H|[_ H]]; [eauto|]. subst. cbn in *.
    apply negb_false_iff in Ha. exact Ha.
  - auto.
Qed.

Lemma inv2_after_close : forall s k w g, inv2 s -> cur_gen (gph s) = Some k -> nth_error (gens s) k = Some g ->
  g_done g = true -> acc_exited k s = true -> inv2 (after_close k w s).
Proof.
  intros s k w g I Hk Hg Hd Ha. unfold after_close, close_conn. rewrite Hg.
  set (s2 := set_gens (upd k {| g_mid := g_mid g; g_done := g_done g; g_conn := false |} (gens s)) s).
  assert (I2 : inv2 s2).
  { eapply inv2_gen_upd; try exact I; try exact Hg; try (cbn; reflexivity); cbn; auto. }
  assert (Hg2 : nth_error (gens s2) k = Some {| g_mid := g_mid g; g_done := g_done g; g_conn := false |})
    by (cbn; eapply nth_upd_eq; eauto).
  assert (P2 : gen_past s2 k {| g_mid := g_mid g; g_done := g_done g; g_conn := false |})
    by (split; [exact Ha|split; cbn; auto]).
  destruct w.
  - unfold enter_leave, finish_leave, exit_cg. cbn [mid s2 set_gens]. destruct (mid s).
    + eapply inv2_leave_cur; eauto; cbn; congruence.
    + eapply inv2_ext with (s := set_gph GExited s2); try (cbn; reflexivity).
      eapply inv2_leave_cur; eauto; cbn; congruence.
  - eapply inv2_leave_cur; eauto; cbn; congruence.
Qed.

Ltac rw_ph :=
  repeat match goal with
  | H : rph ?s = _ |- _ => is_var s; rewrite H in *; revert H
  | H : gph ?s = _ |- _ => is_var s; rewrite H in *; revert H
  end; intros.
Ltac j_close3 J2 J3 :=
  try (match goal with H : r_after _ = true |- _ => specialize (J3 H); congruence end);
  try (match goal with H : r_closing _ = true |- _ => specialize (J2 H); congruence end).
Ltac j_close J0 J1 :=
  eauto; try discriminate; try congruence;
  try (match goal with H : c_group _ = false |- _ => destruct (J0 H) as (?&?&?&?&?); congruence end);
  try (match goal with H : rdone _ = true |- _ => specialize (J1 H); congruence end);
  try lia.

Ltac fn_upd I := eapply inv2_fn_upd; [exact I | eassumption | apply nexit_false; congruence | cbn; reflexivity ..].
Ltac ext I := eapply inv2_ext; [exact I | cbn; reflexivity ..].
Lemma inv2_step : forall s l s', inv2 s -> step s l = Some s' -> inv2 s'.
Proof.
  intros s l s' I St.
  destruct l;
  try solve [
    step_inv St; unf; try rewrite reply_all_calls_only;
    destr_goal;
    destruct I as [J0 J1 J2 J3 J4 J5 J6 J7 J8 J9]; rw_ph; split; intros; rw_ph; unfold gen_past, gen_done in *; cbn in *;
    j_close J0 J1; j_close3 J2 J3 ].
  { step_inv St. apply inv2_start_fn; auto; rewrite ?Heqr; cbn; auto. }
  { step_inv St. apply inv2_start_fn; auto; rewrite ?Heqr; cbn; auto. }
  { step_inv St. destruct I as [J0 J1 J2 J3 J4 J5 J6 J7 J8 J9]. split; unfold gen_past, gen_done in *; cbn; rewrite ?Heqg, ?Heqr in *; cbn in *; auto; try discriminate.
        - intros G. destruct (J0 G) as (A & B & _). congruence.
        - intros G. specialize (J1 G). congruence. }
  { step_inv St; try solve [ unf; destr_goal;
          destruct I as [J0 J1 J2 J3 J4 J5 J6 J7 J8 J9]; rw_ph; split; intros; rw_ph; unfold gen_past, gen_done in *; cbn in *;
          j_close J0 J1; j_close3 J2 J3 ].
        destruct I as [J0 J1 J2 J3 J4 J5 J6 J7 J8 J9]. split; unfold gen_past, gen_done; cbn; rewrite ?app_length; cbn.
        - intros G. destruct (J0 G) as (A & _). congruence.
        - auto.
        - auto.
        - intros G. specialize (J3 G). congruence.
        - intros k H. inversion H; subst. lia.
        - intros k H. specialize (J5 k H). lia.
        - intros i f H. apply nth_app_cases in H as [H|[_ H]]; [specialize (J6 _ _ H); lia| subst; cbn; lia].
        - intros j g H. apply nth_app_cases in H as [H|[E H]].
          + destruct (J7 j g H) as [A|(A & B & C)]; [rewrite Heqg in A; discriminate|]. right. split; auto.
            apply past_app; auto. unfold acc_of. cbn. apply nth_some_lt in H.
            destruct (Nat.eqb_spec (length (gens s)) j); [lia|reflexivity].
          + left. subst. reflexivity.
        - intros i f H Ha. apply nth_app_cases in H as [H|[_ H]].
          + specialize (J8 _ _ H Ha). pose proof (J6 _ _ H). unfold gen_done in J8. rewrite nth_error_app1 by auto. exact J8.
          + subst. discriminate.
        - intros k w H. discriminate. }
  { step_inv St; pose proof (j_cur _ I k ltac:(rewrite Heqg; reflexivity)) as Hk;
        (destruct (nth_error (gens s) k) as [g|] eqn:Eg; [|apply nth_error_None in Eg; lia]);
        assert (I1 : inv2 (end_gen k s)) by
          (unfold end_gen; rewrite Eg; eapply inv2_gen_upd; try exact I; try exact Eg; try (cbn; reflexivity); cbn; auto);
        assert (Eg1 : nth_error (gens (end_gen k s)) k = Some (mkGen (g_mid g) true (g_conn g)))
          by (unfold end_gen; rewrite Eg; cbn; eapply nth_upd_eq; eauto);
        assert (Hc1 : gph (end_gen k s) = gph s) by (unfold end_gen; rewrite Eg; reflexivity).
        - eapply inv2_after_close; eauto. rewrite Hc1, Heqg. reflexivity.
        - apply inv2_gph; auto; rewrite ?Hc1, ?Heqg; cbn; try congruence.
          intros k0 w0 E. inversion E; subst. unfold gen_done. rewrite Eg1. reflexivity. }
  { step_inv St. pose proof (j_cur _ I k ltac:(rewrite Heqg; reflexivity)) as Hk.
        destruct (nth_error (gens s) k) as [g|] eqn:Eg; [|apply nth_error_None in Eg; lia].
        eapply inv2_after_close; eauto; [rewrite Heqg; reflexivity|].
        pose proof (j_cw _ I _ _ Heqg) as D. unfold gen_done in D. rewrite Eg in D. exact D. }
  { step_inv St; unf; try rewrite reply_all_calls_only; first [fn_upd I | ext I]. }
  { step_inv St; unf; try rewrite reply_all_calls_only; first [fn_upd I | ext I]. }
  { step_inv St. unfold end_gen. cbn [gens set_fn set_fns].
        assert (I' : inv2 (set_fn f f0 NExit s)) by (unfold set_fn; fn_upd I).
        destruct (nth_error (gens s) (n_gen f0)) eqn:Eg; [|exact I'].
        eapply inv2_gen_upd; try exact I'; try (cbn; exact Eg); try (cbn; reflexivity); cbn; auto. }
  { step_inv St; unf; try rewrite reply_all_calls_only; first [fn_upd I | ext I]. }
  { step_inv St; unf; try rewrite reply_all_calls_only; first [fn_upd I | ext I]. }
  { step_inv St; unf; try rewrite reply_all_calls_only; first [fn_upd I | ext I]. }
  { step_inv St; unf; try rewrite reply_all_calls_only; first [fn_upd I | ext I]. }
  { step_inv St; unf; try rewrite reply_all_calls_only; first [fn_upd I | ext I]. }
  { step_inv St; unf; try rewrite reply_all_calls_only; first [fn_upd I | ext I]. }
  { step_inv St; unf; try rewrite reply_all_calls_only; first [fn_upd I | ext I]. }
Qed.
