(* Proofs/XerialProofs.v — the xerial framing layer: lemmas for C16. *)
From Coq Require Import List NArith Arith Bool Lia.
From Coq Require Import ZifyN ZifyNat ZifyBool.
From KV Require Import Lib.Bits Model.Xerial Spec.Xerial.
Import ListNotations.
Local Open Scope N_scope.

(* ------------------------------------------------------------------ lists *)
Lemma len_N_app {A} (a b : list A) : len_N (a ++ b) = len_N a + len_N b.
Proof. unfold len_N. rewrite app_length. lia. Qed.

Lemma len_N_nil {A} : len_N (@nil A) = 0.
Proof. reflexivity. Qed.

Lemma len_N_cons_pos {A} (a : A) l : 0 < len_N (a :: l).
Proof. unfold len_N. cbn [length]. lia. Qed.

Lemma len_N_zero {A} (l : list A) : len_N l = 0 -> l = [].
Proof. destruct l; [reflexivity|]. unfold len_N. cbn [length]. lia. Qed.

Lemma take_N_app_exact {A} (a b : list A) n : len_N a = n -> take_N n (a ++ b) = a.
Proof.
  unfold take_N, len_N. intros <-. rewrite Nat2N.id.
  rewrite firstn_app, Nat.sub_diag, firstn_all. cbn [firstn]. apply app_nil_r.
Qed.

Lemma drop_N_app_exact {A} (a b : list A) n : len_N a = n -> drop_N n (a ++ b) = b.
Proof.
  unfold drop_N, len_N. intros <-. rewrite Nat2N.id.
  rewrite skipn_app, Nat.sub_diag, skipn_all. reflexivity.
Qed.

Lemma take_N_all {A} (l : list A) n : len_N l <= n -> take_N n l = l.
Proof. unfold take_N, len_N. intros H. apply firstn_all2. lia. Qed.

Lemma drop_N_all {A} (l : list A) n : len_N l <= n -> drop_N n l = [].
Proof. unfold drop_N, len_N. intros H. apply skipn_all2. lia. Qed.

Lemma take_drop_N {A} (l : list A) n : take_N n l ++ drop_N n l = l.
Proof. apply firstn_skipn. Qed.

Lemma len_N_take {A} (l : list A) n : len_N (take_N n l) = N.min n (len_N l).
Proof. unfold len_N, take_N. rewrite firstn_length. lia. Qed.

Lemma len_N_drop {A} (l : list A) n : len_N (drop_N n l) = len_N l - n.
Proof. unfold len_N, drop_N. rewrite skipn_length. lia. Qed.

Lemma drop_N_0 {A} (l : list A) : drop_N 0 l = l.
Proof. reflexivity. Qed.

(* ------------------------------------------------------------------ big-endian *)
Lemma be32_length n : length (be32 n) = 4%nat.
Proof. reflexivity. Qed.

Lemma len_N_be32 n : len_N (be32 n) = 4.
Proof. reflexivity. Qed.

Lemma be32_decode_be32 n : n < M32 -> be32_decode (be32 n) = n.
Proof.
  unfold M32. intros H. unfold be32, be32_decode, M32. rewrite (N.mod_small n) by exact H.
  pose proof (N.div_mod n 256 ltac:(discriminate)) as H0.
  pose proof (N.div_mod (n / 256) 256 ltac:(discriminate)) as H1.
  pose proof (N.div_mod (n / 65536) 256 ltac:(discriminate)) as H2.
  pose proof (N.mod_lt n 256 ltac:(discriminate)).
  pose proof (N.mod_lt (n / 256) 256 ltac:(discriminate)).
  pose proof (N.mod_lt (n / 65536) 256 ltac:(discriminate)).
  assert (E1 : n / 65536 = n / 256 / 256) by (rewrite N.div_div by discriminate; reflexivity).
  assert (E2 : n / 16777216 = n / 65536 / 256) by (rewrite N.div_div by discriminate; reflexivity).
  rewrite E2. rewrite E1 in *. lia.
Qed.

Lemma be32_ref_u32 n : n < M32 -> be32 n = ref_u32 n.
Proof.
  unfold M32. intros H. unfold be32, ref_u32, M32. rewrite (N.mod_small n) by exact H.
  f_equal. rewrite N.mod_small; [reflexivity|].
  apply N.div_lt_upper_bound; [discriminate|]. lia.
Qed.

Lemma ref_u32_value_ref_u32 n : n < M32 ->
  match ref_u32 n with [a; b; c; d] => ref_u32_value a b c d = n | _ => False end.
Proof.
  intros H. rewrite <- be32_ref_u32 by exact H.
  pose proof (be32_decode_be32 n H) as E. unfold be32 in *. unfold be32_decode in E.
  unfold ref_u32_value. lia.
Qed.

Lemma list_eqb_refl l : list_eqb l l = true.
Proof. induction l; cbn [list_eqb]; [reflexivity|]. rewrite N.eqb_refl. exact IHl. Qed.

Lemma list_eqb_eq a b : list_eqb a b = true -> a = b.
Proof.
  revert b; induction a; destruct b; cbn [list_eqb]; try discriminate; [reflexivity|].
  intros H. apply andb_true_iff in H as [H1 H2]. apply N.eqb_eq in H1. subst. f_equal. auto.
Qed.

Lemma skipn_add {A} (l : list A) a b : skipn (a + b) l = skipn b (skipn a l).
Proof.
  revert l; induction a; intros l; cbn [Nat.add skipn]; [reflexivity|].
  destruct l; [now rewrite skipn_nil|]. apply IHa.
Qed.

Lemma drop_N_add {A} (l : list A) a b : drop_N (a + b) l = drop_N b (drop_N a l).
Proof. unfold drop_N. rewrite N2Nat.inj_add. apply skipn_add. Qed.

Lemma take_N_min {A} (l : list A) k : take_N (N.min k (len_N l)) l = take_N k l.
Proof.
  destruct (N.le_gt_cases k (len_N l)).
  - rewrite N.min_l by assumption. reflexivity.
  - rewrite N.min_r by lia. rewrite !take_N_all by lia. reflexivity.
Qed.

Lemma drop_N_min {A} (l : list A) k : drop_N (N.min k (len_N l)) l = drop_N k l.
Proof.
  destruct (N.le_gt_cases k (len_N l)).
  - rewrite N.min_l by assumption. reflexivity.
  - rewrite N.min_r by lia. rewrite !drop_N_all by lia. reflexivity.
Qed.

(* ------------------------------------------------------------------ streams *)
Definition frame (c : list N) : list N := be32 (len_N c) ++ c.
Definition frames (cs : list (list N)) : list N := concat (map frame cs).
(* what the writer emits for the chunks cs: nothing at all when there is no chunk *)
Definition stream_of (cs : list (list N)) : list N :=
  match cs with [] => [] | _ :: _ => xerial_header_bytes ++ frames cs end.

Lemma frames_cons c cs : frames (c :: cs) = be32 (len_N c) ++ c ++ frames cs.
Proof. unfold frames, frame. cbn [map concat]. now rewrite <- app_assoc. Qed.

Lemma frames_app a b : frames (a ++ b) = frames a ++ frames b.
Proof. unfold frames. now rewrite map_app, concat_app. Qed.

Lemma frames_length cs : (length cs <= length (frames cs))%nat.
Proof.
  induction cs as [|c cs IH]; [cbn; lia|].
  rewrite frames_cons, !app_length, be32_length. cbn [length]. lia.
Qed.

Definition of_ref (r : ref_read) : rres :=
  match r with RefData b => RData b | RefEOF => RErr EEOF end.

Lemma ref_next_block_some blocks b bs :
  ref_next_block blocks = Some (b, bs) -> b <> [] /\ concat blocks = b ++ concat bs.
Proof.
  induction blocks as [|x xs IH]; [discriminate|].
  destruct x as [|c x']; cbn [ref_next_block concat app].
  - exact IH.
  - intros E. injection E as <- <-. split; [discriminate|reflexivity].
Qed.

Lemma ref_next_block_none blocks : ref_next_block blocks = None -> concat blocks = [].
Proof.
  induction blocks as [|x xs IH]; [reflexivity|].
  destruct x as [|c x']; cbn [ref_next_block concat app]; [exact IH|discriminate].
Qed.

Section Reader.
  Variable enc : list N -> list N.
  Variable dec : list N -> option (list N).
  Variable declen : list N -> option N.
  Hypothesis dec_enc : forall b, dec (enc b) = Some b.
  Hypothesis declen_dec : forall c b, dec c = Some b -> declen c = Some (len_N b).
  Hypothesis enc_nonempty : forall b, enc b <> [].
  (* a block never looks like the xerial magic once it sits in the (zeroed) 16-byte header *)
  Hypothesis enc_not_magic : forall b,
    is_xerial_header (take_N 16 (enc b) ++ drop_N (len_N (take_N 16 (enc b))) zeros16) = false.

  Definition fits32 (b : list N) : Prop := len_N (enc b) < M32.

  Lemma read_full_exact x a t n :
    r_src x = a ++ t -> len_N a = n ->
    xr_read_full x n =
    ({| r_src := t; r_header := r_header x; r_output := r_output x; r_offset := r_offset x;
        r_nbytes := r_nbytes x + n |}, a, None).
  Proof.
    intros Hs Hl. unfold xr_read_full. rewrite Hs.
    rewrite (take_N_app_exact a t n Hl), (drop_N_app_exact a t n Hl), Hl, N.eqb_refl. reflexivity.
  Qed.

  Lemma read_full_nil x n :
    r_src x = [] -> 0 < n -> exists x', xr_read_full x n = (x', [], Some EEOF).
  Proof.
    intros Hs Hn. unfold xr_read_full. rewrite Hs. unfold take_N. rewrite firstn_nil.
    replace (len_N [] =? n) with false by (symmetry; apply N.eqb_neq; cbn; lia).
    eexists. reflexivity.
  Qed.

  Lemma decode_direct x b k :
    len_N b <= k -> xr_decode dec declen x (enc b) k = (x, inl (len_N b, b)).
  Proof.
    intros H. unfold xr_decode. rewrite (declen_dec _ _ (dec_enc b)), dec_enc.
    replace (len_N b <=? k) with true by (symmetry; apply N.leb_le; exact H). reflexivity.
  Qed.

  Lemma decode_buffered x b k :
    k < len_N b -> xr_decode dec declen x (enc b) k = (xr_set_output x b 0, inl (0, [])).
  Proof.
    intros H. unfold xr_decode. rewrite (declen_dec _ _ (dec_enc b)), dec_enc.
    replace (len_N b <=? k) with false by (symmetry; apply N.leb_gt; exact H). reflexivity.
  Qed.

  (* the part of the reader's state that describes the stream still to come *)
  Inductive RSrc (src hdr : list N) (nb : N) : list (list N) -> Prop :=
  | RS_mid blocks : is_xerial_header hdr = true -> nb <> 0 ->
      src = frames (map enc blocks) -> Forall fits32 blocks -> RSrc src hdr nb blocks
  | RS_start ver blocks : nb = 0 -> length ver = 8%nat ->
      src = xerial_magic ++ ver ++ frames (map enc blocks) -> Forall fits32 blocks -> RSrc src hdr nb blocks
  | RS_done : src = [] -> RSrc src hdr nb []
  | RS_raw b : nb = 0 -> hdr = zeros16 -> src = enc b -> RSrc src hdr nb [b].

  Definition buffered (x : xreader) (cur : list N) : Prop :=
    r_offset x <= len_N (r_output x) /\ cur = drop_N (r_offset x) (r_output x).

  Definition RInv (x : xreader) (cur : list N) (blocks : list (list N)) : Prop :=
    buffered x cur /\ RSrc (r_src x) (r_header x) (r_nbytes x) blocks.

  Lemma RSrc_length src hdr nb blocks : RSrc src hdr nb blocks -> (length blocks <= S (length src))%nat.
  Proof.
    intros [bl _ _ -> _ | ver bl _ _ -> _ | _ | b _ _ _].
    - pose proof (frames_length (map enc bl)) as H. rewrite map_length in H. lia.
    - pose proof (frames_length (map enc bl)) as H. rewrite map_length in H. rewrite !app_length. lia.
    - cbn. lia.
    - cbn. lia.
  Qed.

  (* result of decoding one block in readChunk, as a function of the Read buffer size *)
  Definition chunk_result (b : list N) (k : N) : N * list N + xerr :=
    if len_N b <=? k then inl (len_N b, b) else inl (0, []).

  Lemma decode_block x b k :
    r_offset x = 0 -> r_output x = [] ->
    exists x', xr_decode dec declen x (enc b) k = (x', chunk_result b k) /\
      r_src x' = r_src x /\ r_header x' = r_header x /\ r_nbytes x' = r_nbytes x /\
      r_offset x' = 0 /\ r_output x' = (if len_N b <=? k then [] else b).
  Proof.
    intros Ho Hout. unfold chunk_result. destruct (N.leb_spec (len_N b) k) as [H|H].
    - rewrite decode_direct by exact H. exists x. repeat split; auto.
    - rewrite decode_buffered by exact H. eexists. split; [reflexivity|]. repeat split; reflexivity.
  Qed.

  Lemma chunk_framed_block x b rest k :
    r_src x = frame (enc b) ++ rest -> fits32 b -> r_offset x = 0 -> r_output x = [] ->
    exists x', xr_chunk_framed dec declen x k = (x', chunk_result b k) /\
      r_src x' = rest /\ r_header x' = r_header x /\ r_nbytes x' = r_nbytes x + 4 + len_N (enc b) /\
      r_offset x' = 0 /\ r_output x' = (if len_N b <=? k then [] else b).
  Proof.
    intros Hs Hf Ho Hout. unfold xr_chunk_framed, frame in *. rewrite <- app_assoc in Hs.
    rewrite (read_full_exact x _ _ 4 Hs (len_N_be32 _)).
    rewrite (be32_decode_be32 _ Hf).
    set (x1 := {| r_src := enc b ++ rest; r_header := r_header x; r_output := r_output x;
                  r_offset := r_offset x; r_nbytes := r_nbytes x + 4 |}).
    rewrite (read_full_exact x1 (enc b) rest _ eq_refl eq_refl).
    set (x2 := {| r_src := rest; r_header := r_header x1; r_output := r_output x1;
                  r_offset := r_offset x1; r_nbytes := r_nbytes x1 + len_N (enc b) |}).
    destruct (decode_block x2 b k Ho Hout) as (x' & E & H1 & H2 & H3 & H4 & H5).
    exists x'. split; [exact E|]. repeat split; auto.
  Qed.

  Lemma header_is_magic ver t :
    length ver = 8%nat -> is_xerial_header ((xerial_magic ++ ver) ++ t) = true.
  Proof.
    intros Hv. unfold is_xerial_header. apply andb_true_iff. split.
    - apply N.leb_le. unfold len_N. rewrite !app_length, Hv. cbn [length xerial_magic]. lia.
    - rewrite <- app_assoc. cbn [xerial_magic app firstn]. apply list_eqb_refl.
  Qed.

  Lemma chunk_block x b bs k :
    RSrc (r_src x) (r_header x) (r_nbytes x) (b :: bs) ->
    exists x', xr_read_chunk dec declen x k = (x', chunk_result b k) /\
      RSrc (r_src x') (r_header x') (r_nbytes x') bs /\
      r_offset x' = 0 /\ r_output x' = (if len_N b <=? k then [] else b).
  Proof.
    intros H. unfold xr_read_chunk.
    set (x0 := xr_set_output x [] 0).
    assert (S0 : r_src x0 = r_src x) by reflexivity.
    assert (H0 : r_header x0 = r_header x) by reflexivity.
    assert (N0 : r_nbytes x0 = r_nbytes x) by reflexivity.
    assert (O0 : r_offset x0 = 0) by reflexivity.
    assert (U0 : r_output x0 = []) by reflexivity.
    clearbody x0. rewrite <- S0, <- H0, <- N0 in H. clear S0 H0 N0 x.
    inversion H as [bl Hh Hn Hs Hf Hb | ver bl Hn Hv Hs Hf Hb | | b' Hn Hh Hs Hb]; subst.
    - (* in the middle of a framed stream *)
      unfold xr_read_header. replace (r_nbytes x0 =? 0) with false by (symmetry; apply N.eqb_neq; exact Hn).
      rewrite Hh. cbn [map] in Hs. rewrite frames_cons in Hs.
      inversion Hf as [|? ? Hfb Hfr]; subst.
      assert (Hsrc : r_src x0 = frame (enc b) ++ frames (map enc bs))
        by (unfold frame; rewrite <- app_assoc; exact Hs).
      destruct (chunk_framed_block x0 b (frames (map enc bs)) k Hsrc Hfb O0 U0) as (x' & E & H1 & H2 & H3 & H4 & H5).
      exists x'. split; [exact E|]. split; [|auto].
      rewrite H1, H2, H3. apply RS_mid; auto. lia.
    - (* at the start of a framed stream *)
      unfold xr_read_header. rewrite Hn, N.eqb_refl.
      assert (Hs' : r_src x0 = (xerial_magic ++ ver) ++ frames (map enc (b :: bs))) by (rewrite Hs, <- app_assoc; reflexivity).
      assert (Hl : len_N (xerial_magic ++ ver) = 16) by (unfold len_N; rewrite app_length, Hv; reflexivity).
      rewrite (read_full_exact x0 _ _ 16 Hs' Hl).
      cbv zeta. cbn [xr_set_header r_header r_src r_output r_offset r_nbytes].
      destruct (xerial_magic ++ ver) as [|m mv] eqn:Emv; [discriminate|]. rewrite <- Emv.
      cbn match. rewrite header_is_magic by exact Hv.
      cbn [map] in *. rewrite frames_cons in *.
      inversion Hf as [|? ? Hfb Hfr]; subst.
      match goal with |- exists x', xr_chunk_framed _ _ ?y _ = _ /\ _ => set (x1 := y) end.
      assert (Hsrc : r_src x1 = frame (enc b) ++ frames (map enc bs))
        by (unfold frame; rewrite <- app_assoc; reflexivity).
      destruct (chunk_framed_block x1 b (frames (map enc bs)) k Hsrc Hfb O0 U0) as (x' & E & H1 & H2 & H3 & H4 & H5).
      exists x'. split; [exact E|]. split; [|auto].
      rewrite H1, H2, H3. apply RS_mid; auto.
      + unfold x1. cbn [r_header]. apply header_is_magic. exact Hv.
      + unfold x1. cbn [r_nbytes]. lia.
    - (* a raw block *)
      unfold xr_read_header. rewrite Hn, N.eqb_refl.
      unfold xr_read_full. rewrite Hs.
      set (got := take_N 16 (enc b)).
      assert (Hg : got <> []).
      { unfold got, take_N. destruct (enc b) eqn:E; [exact (False_ind _ (enc_nonempty b E))|]. cbn. discriminate. }
      cbv zeta. cbn [xr_set_header r_header r_src r_output r_offset r_nbytes].
      assert (Em : forall (e : option xerr) (X : xreader),
                 match e, got with Some e0, [] => (X, 0, Some e0) | _, _ => (X, len_N got, None) end
                 = (X, len_N got, @None xerr)).
      { intros e X. destruct got; [congruence|]. destruct e; reflexivity. }
      rewrite Em. rewrite Hh.
      assert (Enm : is_xerial_header (got ++ drop_N (len_N got) zeros16) = false) by exact (enc_not_magic b).
      unfold xr_set_header. cbn [r_header r_src r_output r_offset r_nbytes]. rewrite Enm.
      unfold xr_chunk_unframed. cbn [r_header r_src r_output r_offset r_nbytes].
      rewrite (take_N_app_exact got _ (len_N got) eq_refl).
      unfold got. rewrite take_drop_N.
      destruct (enc b) as [|e0 er] eqn:Eb; [exact (False_ind _ (enc_nonempty b Eb))|]. rewrite <- Eb.
      match goal with |- exists x', xr_decode _ _ ?y _ _ = _ /\ _ => set (x1 := y) end.
      destruct (decode_block x1 b k O0 U0) as (x' & E & H1 & H2 & H3 & H4 & H5).
      exists x'. split; [exact E|]. split; [|auto].
      rewrite H1. apply RS_done. reflexivity.
  Qed.

  Lemma chunk_framed_nil x k :
    r_src x = [] -> exists x', xr_chunk_framed dec declen x k = (x', inr EEOF).
  Proof.
    intros Hs. unfold xr_chunk_framed.
    destruct (read_full_nil x 4 Hs ltac:(lia)) as (x' & E). rewrite E. eexists; reflexivity.
  Qed.

  Lemma chunk_eof x k :
    RSrc (r_src x) (r_header x) (r_nbytes x) [] ->
    exists x', xr_read_chunk dec declen x k = (x', inr EEOF).
  Proof.
    intros H. unfold xr_read_chunk.
    set (x0 := xr_set_output x [] 0).
    assert (S0 : r_src x0 = r_src x) by reflexivity.
    assert (H0 : r_header x0 = r_header x) by reflexivity.
    assert (N0 : r_nbytes x0 = r_nbytes x) by reflexivity.
    clearbody x0. rewrite <- S0, <- H0, <- N0 in H. clear S0 H0 N0 x.
    inversion H as [bl Hh Hn Hs Hf Hb | ver bl Hn Hv Hs Hf Hb | Hs | ]; subst.
    - cbn in Hs.
      unfold xr_read_header. replace (r_nbytes x0 =? 0) with false by (symmetry; apply N.eqb_neq; exact Hn).
      rewrite Hh. apply chunk_framed_nil. exact Hs.
    - cbn [map frames concat] in Hs. rewrite app_nil_r in Hs.
      unfold xr_read_header. rewrite Hn, N.eqb_refl.
      assert (Hs' : r_src x0 = (xerial_magic ++ ver) ++ []) by (rewrite app_nil_r; exact Hs).
      assert (Hl : len_N (xerial_magic ++ ver) = 16) by (unfold len_N; rewrite app_length, Hv; reflexivity).
      rewrite (read_full_exact x0 _ _ 16 Hs' Hl).
      cbv zeta. unfold xr_set_header. cbn [r_header r_src r_output r_offset r_nbytes].
      destruct (xerial_magic ++ ver) as [|m mv] eqn:Emv; [discriminate|]. rewrite <- Emv.
      cbn match. cbn [r_header]. rewrite header_is_magic by exact Hv.
      apply chunk_framed_nil. reflexivity.
    - unfold xr_read_header. destruct (N.eqb_spec (r_nbytes x0) 0) as [Hn|Hn].
      + destruct (read_full_nil x0 16 Hs ltac:(lia)) as (x' & E). rewrite E. cbv zeta. cbn match.
        eexists; reflexivity.
      + destruct (is_xerial_header (r_header x0)).
        * apply chunk_framed_nil. exact Hs.
        * unfold xr_chunk_unframed. rewrite Hs. unfold take_N. cbn [N.to_nat firstn app].
          eexists; reflexivity.
  Qed.

  Lemma read_loop_copy fuel x k :
    r_offset x < len_N (r_output x) ->
    xr_read_loop dec declen fuel x k =
    (xr_set_output x (r_output x) (r_offset x + N.min k (len_N (r_output x) - r_offset x)),
     RData (take_N (N.min k (len_N (r_output x) - r_offset x)) (drop_N (r_offset x) (r_output x)))).
  Proof.
    intros H. destruct fuel; cbn [xr_read_loop];
      (replace (r_offset x <? len_N (r_output x)) with true by (symmetry; apply N.ltb_lt; exact H)); reflexivity.
  Qed.

  Lemma read_copy fuel x k c cur blocks :
    RInv x (c :: cur) blocks ->
    exists x', xr_read_loop dec declen fuel x k = (x', RData (take_N k (c :: cur))) /\
               RInv x' (drop_N k (c :: cur)) blocks.
  Proof.
    intros [[Hle Hc] Hsrc].
    assert (Hlt : r_offset x < len_N (r_output x)).
    { destruct (N.lt_ge_cases (r_offset x) (len_N (r_output x))) as [|Hge]; [assumption|].
      rewrite drop_N_all in Hc by lia. discriminate. }
    rewrite read_loop_copy by exact Hlt.
    assert (Hlen : len_N (c :: cur) = len_N (r_output x) - r_offset x) by (rewrite Hc; apply len_N_drop).
    rewrite <- Hc, <- Hlen, take_N_min.
    eexists. split; [reflexivity|]. split; [|exact Hsrc].
    unfold buffered, xr_set_output. cbn [r_offset r_output]. split; [lia|].
    rewrite drop_N_add, <- Hc. symmetry. apply drop_N_min.
  Qed.

  Lemma buffered_nil x : buffered x [] -> (r_offset x <? len_N (r_output x)) = false.
  Proof.
    intros [Hle Hc]. apply N.ltb_ge.
    assert (H : len_N (drop_N (r_offset x) (r_output x)) = 0) by (rewrite <- Hc; reflexivity).
    rewrite len_N_drop in H. lia.
  Qed.

  Lemma read_blocks : forall blocks fuel x k,
    RInv x [] blocks -> (length blocks < fuel)%nat ->
    match ref_next_block blocks with
    | None => exists x', xr_read_loop dec declen fuel x k = (x', RErr EEOF)
    | Some (b, bs) => exists x', xr_read_loop dec declen fuel x k = (x', RData (take_N k b)) /\
                                 RInv x' (drop_N k b) bs
    end.
  Proof.
    induction blocks as [|b bs IH]; intros fuel x k [Hb Hsrc] Hfuel.
    - cbn [ref_next_block]. destruct fuel as [|f]; [cbn in Hfuel; lia|].
      cbn [xr_read_loop]. rewrite (buffered_nil x Hb).
      destruct (chunk_eof x k Hsrc) as (x' & E). rewrite E. eexists; reflexivity.
    - destruct fuel as [|f]; [cbn in Hfuel; lia|]. cbn [length] in Hfuel.
      destruct (chunk_block x b bs k Hsrc) as (x' & E & Hsrc' & Ho & Hout).
      assert (Estep : xr_read_loop dec declen (S f) x k =
                      match chunk_result b k with
                      | inl (n, d) => if 0 <? n then (x', RData d) else xr_read_loop dec declen f x' k
                      | inr e => (x', RErr e)
                      end).
      { cbn [xr_read_loop]. rewrite (buffered_nil x Hb), E. destruct (chunk_result b k) as [[n d]|e]; reflexivity. }
      rewrite Estep. unfold chunk_result in *.
      destruct b as [|c b'].
      + (* an empty block is skipped *)
        cbn [ref_next_block]. replace (len_N [] <=? k) with true in * by (symmetry; apply N.leb_le; cbn; lia).
        cbn [len_N length N.of_nat N.ltb N.compare].
        apply IH; [|lia]. split; [|exact Hsrc'].
        unfold buffered. rewrite Ho, Hout. split; [cbn; lia|reflexivity].
      + cbn [ref_next_block]. destruct (N.leb_spec (len_N (c :: b')) k) as [Hk|Hk].
        * replace (0 <? len_N (c :: b')) with true by (symmetry; apply N.ltb_lt; apply len_N_cons_pos).
          exists x'. rewrite take_N_all by exact Hk. split; [reflexivity|].
          split; [|exact Hsrc']. unfold buffered. rewrite Ho, Hout, drop_N_all by exact Hk.
          split; [cbn; lia|reflexivity].
        * cbn [N.ltb N.compare].
          assert (Hinv : RInv x' (c :: b') bs).
          { split; [|exact Hsrc']. unfold buffered. rewrite Ho, Hout. split; [lia|reflexivity]. }
          exact (read_copy f x' k c b' bs Hinv).
  Qed.

  Theorem reads_spec : forall ks x cur blocks,
    RInv x cur blocks ->
    snd (xr_reads dec declen x ks) = map of_ref (ref_reads cur blocks ks).
  Proof.
    induction ks as [|k ks IH]; intros x cur blocks Hinv; [reflexivity|].
    cbn [xr_reads ref_reads]. unfold xr_read.
    destruct cur as [|c cur].
    - pose proof Hinv as [Hb Hsrc].
      pose proof (RSrc_length _ _ _ _ Hsrc) as Hlen.
      pose proof (read_blocks blocks (S (S (length (r_src x)))) x k Hinv ltac:(lia)) as H.
      destruct (ref_next_block blocks) as [[b bs]|].
      + destruct H as (x' & E & Hinv'). rewrite E.
        specialize (IH x' _ _ Hinv'). destruct (xr_reads dec declen x' ks) as [x'' rs].
        cbn [snd map of_ref] in *. unfold take_N, drop_N in *. now rewrite IH.
      + destruct H as (x' & E). rewrite E. reflexivity.
    - destruct (read_copy (S (S (length (r_src x)))) x k c cur blocks Hinv) as (x' & E & Hinv').
      rewrite E. specialize (IH x' _ _ Hinv'). destruct (xr_reads dec declen x' ks) as [x'' rs].
      cbn [snd map of_ref] in *. unfold take_N, drop_N in *. now rewrite IH.
  Qed.
  (* ---- WriteTo, after any number of successful Reads ---- *)
  Definition is_rdata (r : rres) : bool := match r with RData _ => true | _ => false end.
  Fixpoint rdata (rs : list rres) {struct rs} : list N :=
    match rs with
    | [] => []
    | RData b :: rs' => b ++ rdata rs'
    | _ :: rs' => rdata rs'
    end.

  Lemma write_to_loop_spec : forall blocks fuel x acc cur,
    RInv x cur blocks -> (length blocks < fuel)%nat ->
    exists x', xr_write_to_loop dec declen fuel x acc = (x', acc ++ cur ++ concat blocks, Some None).
  Proof.
    induction blocks as [|b bs IH]; intros fuel x acc cur [[Hle Hc] Hsrc] Hfuel;
      (destruct fuel as [|f]; [cbn in Hfuel; lia|]); cbn [xr_write_to_loop]; rewrite <- Hc;
      set (x1 := xr_set_output x (r_output x) (N.max (r_offset x) (len_N (r_output x))));
      assert (Hsrc1 : RSrc (r_src x1) (r_header x1) (r_nbytes x1) _) by exact Hsrc.
    - destruct (chunk_eof x1 0 Hsrc1) as (x' & E). rewrite E. exists x'.
      cbn [concat]. rewrite app_nil_r. reflexivity.
    - destruct (chunk_block x1 b bs 0 Hsrc1) as (x' & E & Hsrc' & Ho & Hout). rewrite E.
      assert (Hinv' : RInv x' b bs).
      { split; [|exact Hsrc']. unfold buffered. rewrite Ho, Hout.
        destruct (N.leb_spec (len_N b) 0) as [H0|H0].
        - assert (b = []) by (apply len_N_zero; lia). subst b. split; [cbn; lia|reflexivity].
        - split; [lia|reflexivity]. }
      cbn [length] in Hfuel.
      destruct (IH f x' (acc ++ cur) b Hinv' ltac:(lia)) as (x'' & E').
      exists x''. unfold chunk_result. destruct (len_N b <=? 0); rewrite E';
        cbn [concat]; rewrite <- !app_assoc; reflexivity.
  Qed.

  Lemma write_to_spec x cur blocks :
    RInv x cur blocks ->
    exists x', xr_write_to dec declen x = (x', cur ++ concat blocks, Some None).
  Proof.
    intros Hinv. unfold xr_write_to. pose proof Hinv as [_ Hsrc].
    pose proof (RSrc_length _ _ _ _ Hsrc) as Hlen.
    destruct (write_to_loop_spec blocks (S (S (length (r_src x)))) x [] cur Hinv ltac:(lia)) as (x' & E).
    exists x'. exact E.
  Qed.

  Lemma reads_inv : forall ks x cur blocks x' rs,
    RInv x cur blocks -> xr_reads dec declen x ks = (x', rs) -> forallb is_rdata rs = true ->
    exists cur' blocks', RInv x' cur' blocks' /\ rdata rs ++ cur' ++ concat blocks' = cur ++ concat blocks.
  Proof.
    induction ks as [|k ks IH]; intros x cur blocks x' rs Hinv E Hall.
    - cbn [xr_reads] in E. injection E as <- <-. exists cur, blocks. split; [exact Hinv|reflexivity].
    - cbn [xr_reads] in E. unfold xr_read in E. destruct cur as [|c cur].
      + pose proof Hinv as [Hb Hsrc].
        pose proof (RSrc_length _ _ _ _ Hsrc) as Hlen.
        pose proof (read_blocks blocks (S (S (length (r_src x)))) x k Hinv ltac:(lia)) as H.
        destruct (ref_next_block blocks) as [[b bs]|] eqn:En.
        * destruct H as (x1 & E1 & Hinv1). rewrite E1 in E.
          destruct (xr_reads dec declen x1 ks) as [x2 rs2] eqn:E2. injection E as <- <-.
          cbn [forallb is_rdata andb] in Hall.
          destruct (IH x1 _ _ x2 rs2 Hinv1 E2 Hall) as (cur' & bl' & Hinv' & Hcat).
          exists cur', bl'. split; [exact Hinv'|]. cbn [rdata app].
          destruct (ref_next_block_some _ _ _ En) as [_ Hc]. rewrite Hc, <- app_assoc, Hcat, app_assoc.
          unfold take_N, drop_N. rewrite firstn_skipn. reflexivity.
        * destruct H as (x1 & E1). rewrite E1 in E. injection E as <- <-. cbn in Hall. discriminate.
      + destruct (read_copy (S (S (length (r_src x)))) x k c cur blocks Hinv) as (x1 & E1 & Hinv1).
        rewrite E1 in E. destruct (xr_reads dec declen x1 ks) as [x2 rs2] eqn:E2. injection E as <- <-.
        cbn [forallb is_rdata andb] in Hall.
        destruct (IH x1 _ _ x2 rs2 Hinv1 E2 Hall) as (cur' & bl' & Hinv' & Hcat).
        exists cur', bl'. split; [exact Hinv'|]. cbn [rdata]. rewrite <- app_assoc, Hcat, app_assoc.
        unfold take_N, drop_N. rewrite firstn_skipn. reflexivity.
  Qed.

  (* any number of successful Reads, then WriteTo: together they deliver everything, once *)
  Theorem reads_then_write_to ks x cur blocks x' rs :
    RInv x cur blocks -> xr_reads dec declen x ks = (x', rs) -> forallb is_rdata rs = true ->
    exists x'' rest, xr_write_to dec declen x' = (x'', rest, Some None) /\
                     rdata rs ++ rest = cur ++ concat blocks.
  Proof.
    intros Hinv E Hall. destruct (reads_inv ks x cur blocks x' rs Hinv E Hall) as (cur' & bl' & Hinv' & Hcat).
    destruct (write_to_spec x' cur' bl' Hinv') as (x'' & E'). exists x'', (cur' ++ concat bl').
    split; [exact E'|exact Hcat].
  Qed.
End Reader.

(* ------------------------------------------------------------------ writer *)
Definition eff_cap (c : N) : N := if c =? 0 then default_buffer_size else c.

Section Writer.
  Variable enc : list N -> list N.

  Definition WCore (x : xwriter) (s : sink) (blocks : list (list N)) : Prop :=
    w_framed x = true /\ k_room s = None /\ w_nbytes x = len_N (k_data s) /\
    k_data s = stream_of (map enc blocks).

  Lemma len_header : len_N xerial_header_bytes = 16.
  Proof. reflexivity. Qed.

  Lemma flush_framed x s blocks p ps :
    WCore x s blocks -> w_input x = p :: ps ->
    exists x' s', xw_flush enc x s = (x', s', true) /\ WCore x' s' (blocks ++ [p :: ps]) /\
                  w_input x' = [] /\ w_cap x' = w_cap x.
  Proof.
    intros (Hfr & Hroom & Hnb & Hdata) Hin.
    destruct x as [inp cap nb fr]. destruct s as [data room].
    cbn [w_input w_cap w_nbytes w_framed k_data k_room] in *. subst inp fr room.
    unfold xw_flush, xw_set_input, xw_raw, sink_write.
    cbn [w_input w_cap w_nbytes w_framed k_data k_room andb negb].
    set (c := enc (p :: ps)).
    destruct blocks as [|b0 bl].
    - cbn [map stream_of] in Hdata. subst data. change (len_N (@nil N)) with 0 in Hnb. subst nb.
      cbn [N.eqb]. cbn [w_input w_cap w_nbytes w_framed k_data k_room andb negb].
      do 2 eexists. split; [reflexivity|]. split; [|split; reflexivity].
      unfold WCore. cbn [w_input w_cap w_nbytes w_framed k_data k_room].
      split; [reflexivity|]. split; [reflexivity|].
      cbn [app map stream_of]. fold c. rewrite frames_cons. change (frames []) with (@nil N).
      rewrite app_nil_r. rewrite <- !app_assoc. split; [|reflexivity].
      rewrite !len_N_app, len_header, len_N_be32. lia.
    - assert (Hnz : (nb =? 0) = false).
      { apply N.eqb_neq. rewrite Hnb, Hdata. cbn [map stream_of]. rewrite len_N_app, len_header. lia. }
      rewrite Hnz. cbn [w_input w_cap w_nbytes w_framed k_data k_room andb negb].
      do 2 eexists. split; [reflexivity|]. split; [|split; reflexivity].
      unfold WCore. cbn [w_input w_cap w_nbytes w_framed k_data k_room].
      split; [reflexivity|]. split; [reflexivity|].
      split; [rewrite !len_N_app, len_N_be32; lia|].
      rewrite Hdata, map_app. cbn [map app stream_of]. fold c.
      change (enc b0 :: map enc bl ++ [c]) with ((enc b0 :: map enc bl) ++ [c]).
      rewrite frames_app, (frames_cons c []). change (frames []) with (@nil N). rewrite app_nil_r.
      rewrite <- !app_assoc. reflexivity.
  Qed.

  Lemma WCore_set_input x s blocks i : WCore x s blocks -> WCore (xw_set_input x i) s blocks.
  Proof. intros H. exact H. Qed.

  (* one turn of the copy loop when the buffer is not full *)
  Lemma copy_in_room x b :
    len_N (w_input x) < w_cap x -> b <> [] ->
    exists n, xw_copy_in x b = (xw_set_input x (w_input x ++ take_N n b), drop_N n b, n) /\
              0 < n /\ n <= len_N b /\ n <= w_cap x - len_N (w_input x).
  Proof.
    intros Hlt Hb. unfold xw_copy_in, xw_full.
    replace (len_N (w_input x) =? w_cap x) with false by (symmetry; apply N.eqb_neq; lia).
    eexists. split; [reflexivity|].
    assert (0 < len_N b) by (destruct b; [congruence|apply len_N_cons_pos]). lia.
  Qed.

  Definition block_ok (cap : N) (bl : list N) : Prop := bl <> [] /\ len_N bl <= cap.

  Lemma write_loop_framed : forall fuel b x s blocks wn,
    WCore x s blocks -> len_N (w_input x) < w_cap x -> (length b < fuel)%nat ->
    exists x' s' blocks', xw_write_loop enc fuel x s b wn = (x', s', WOk (wn + len_N b)) /\
      WCore x' s' blocks' /\ len_N (w_input x') < w_cap x' /\ w_cap x' = w_cap x /\
      concat blocks' ++ w_input x' = concat blocks ++ w_input x ++ b /\
      (Forall (block_ok (w_cap x)) blocks -> Forall (block_ok (w_cap x)) blocks').
  Proof.
    induction fuel as [|fuel IH]; intros b x s blocks wn Hc Hlt Hf; [lia|].
    destruct b as [|c0 b0].
    - cbn [xw_write_loop]. exists x, s, blocks. change (len_N (@nil N)) with 0.
      rewrite N.add_0_r, app_nil_r. repeat split; auto; apply Hc.
    - cbn [xw_write_loop].
      destruct (copy_in_room x (c0 :: b0) Hlt ltac:(discriminate)) as (n & E & Hn0 & Hnb & Hnr).
      rewrite E.
      set (x1 := xw_set_input x (w_input x ++ take_N n (c0 :: b0))).
      set (rest := drop_N n (c0 :: b0)).
      assert (Hrest : (length rest < fuel)%nat).
      { assert (H : len_N rest = len_N (c0 :: b0) - n) by apply len_N_drop.
        unfold len_N in H, Hnb. cbn [length] in *. lia. }
      assert (Hlen1 : len_N (w_input x1) = len_N (w_input x) + n).
      { unfold x1. cbn [xw_set_input w_input]. rewrite len_N_app, len_N_take. lia. }
      assert (Hwn : wn + n + len_N rest = wn + len_N (c0 :: b0)).
      { unfold rest. rewrite len_N_drop. lia. }
      assert (Hcat : (w_input x ++ take_N n (c0 :: b0)) ++ rest = w_input x ++ c0 :: b0).
      { unfold rest. rewrite <- app_assoc, take_drop_N. reflexivity. }
      destruct (xw_full_enough x1) eqn:Efe.
      + (* the block is cut here *)
        destruct (w_input x1) as [|p ps] eqn:Ein.
        { exfalso. change (len_N (@nil N)) with 0 in Hlen1. lia. }
        destruct (flush_framed x1 s blocks p ps Hc Ein) as (x2 & s2 & Efl & Hc2 & Hin2 & Hcap2).
        rewrite Efl.
        destruct (IH rest x2 s2 (blocks ++ [p :: ps]) (wn + n) Hc2) as (x' & s' & bl' & E' & Hc' & Hlt' & Hcap' & Hcat' & Hall'); auto.
        { rewrite Hin2, Hcap2. unfold x1. cbn [xw_set_input w_cap]. change (len_N (@nil N)) with 0. lia. }
        exists x', s', bl'. rewrite E', Hwn. split; [reflexivity|]. split; [exact Hc'|].
        split; [exact Hlt'|]. split; [rewrite Hcap', Hcap2; reflexivity|].
        split.
        * rewrite Hcat', Hin2, concat_app. cbn [concat app]. rewrite app_nil_r.
          rewrite <- Ein. unfold x1. cbn [xw_set_input w_input]. rewrite <- !app_assoc. f_equal.
          rewrite app_assoc. exact Hcat.
        * intros Hall. rewrite Hcap2 in Hall'. unfold x1 in Hall'. cbn [xw_set_input w_cap] in Hall'.
          apply Hall'. apply Forall_app. split; [exact Hall|]. constructor; [|constructor].
          split; [discriminate|]. rewrite Hlen1. lia.
      + assert (Hlt1 : len_N (w_input x1) < w_cap x1).
        { unfold xw_full_enough in Efe. destruct Hc as (Hfr & _). unfold x1 in Efe |- *.
          cbn [xw_set_input w_framed w_cap w_input] in *. rewrite Hfr in Efe. cbn [andb] in Efe.
          apply N.ltb_ge in Efe. lia. }
        destruct (IH rest x1 s blocks (wn + n) Hc Hlt1 Hrest) as (x' & s' & bl' & E' & Hc' & Hlt' & Hcap' & Hcat' & Hall').
        exists x', s', bl'. rewrite E', Hwn. split; [reflexivity|]. split; [exact Hc'|].
        split; [exact Hlt'|]. split; [exact Hcap'|]. split; [|exact Hall'].
        rewrite Hcat'. unfold x1. cbn [xw_set_input w_input]. f_equal. exact Hcat.
  Qed.

  (* the buffer between calls: empty when not allocated yet, otherwise not full *)
  Definition WIn (x : xwriter) : Prop :=
    (w_cap x = 0 -> w_input x = []) /\ (w_cap x <> 0 -> len_N (w_input x) < w_cap x).

  Lemma write_framed x s blocks b :
    WCore x s blocks -> WIn x ->
    exists x' s' blocks', xw_write enc x s b = (x', s', WOk (len_N b)) /\
      WCore x' s' blocks' /\ WIn x' /\ eff_cap (w_cap x') = eff_cap (w_cap x) /\
      concat blocks' ++ w_input x' = concat blocks ++ w_input x ++ b /\
      (Forall (block_ok (eff_cap (w_cap x))) blocks -> Forall (block_ok (eff_cap (w_cap x))) blocks').
  Proof.
    intros Hc [Hz Hnz]. unfold xw_write.
    set (x0 := xw_ensure x).
    assert (Hc0 : WCore x0 s blocks).
    { unfold x0, xw_ensure. destruct (w_cap x =? 0); exact Hc. }
    assert (Hcap0 : w_cap x0 = eff_cap (w_cap x)).
    { unfold x0, xw_ensure, eff_cap. destruct (w_cap x =? 0); reflexivity. }
    assert (Hin0 : w_input x0 = w_input x).
    { unfold x0, xw_ensure. destruct (w_cap x =? 0); reflexivity. }
    assert (Hlt0 : len_N (w_input x0) < w_cap x0).
    { rewrite Hin0, Hcap0. unfold eff_cap. destruct (N.eqb_spec (w_cap x) 0) as [e|ne].
      - rewrite (Hz e). reflexivity.
      - exact (Hnz ne). }
    destruct (write_loop_framed (S (length b)) b x0 s blocks 0 Hc0 Hlt0 ltac:(lia))
      as (x' & s' & bl' & E & Hc' & Hlt' & Hcap' & Hcat' & Hall').
    exists x', s', bl'. rewrite E, N.add_0_l. split; [reflexivity|]. split; [exact Hc'|].
    assert (Hne : w_cap x' <> 0) by lia.
    split; [split; [intros; lia | intros; exact Hlt']|].
    split.
    { rewrite Hcap', Hcap0. unfold eff_cap at 1. destruct (N.eqb_spec (eff_cap (w_cap x)) 0); [|reflexivity].
      unfold eff_cap in *. destruct (w_cap x =? 0); [discriminate|]. lia. }
    split; [rewrite Hcat', Hin0; reflexivity|].
    rewrite <- Hcap0. exact Hall'.
  Qed.

  Lemma writes_framed : forall bs x s blocks,
    WCore x s blocks -> WIn x ->
    exists x' s' blocks', xw_ops enc x s (map OWrite bs) = (x', s', map (fun b => WOk (len_N b)) bs) /\
      WCore x' s' blocks' /\ WIn x' /\ eff_cap (w_cap x') = eff_cap (w_cap x) /\
      concat blocks' ++ w_input x' = concat blocks ++ w_input x ++ concat bs /\
      (Forall (block_ok (eff_cap (w_cap x))) blocks -> Forall (block_ok (eff_cap (w_cap x))) blocks').
  Proof.
    induction bs as [|b bs IH]; intros x s blocks Hc Hi.
    - cbn [map xw_ops concat]. exists x, s, blocks. rewrite app_nil_r. repeat split; auto; try apply Hc; try apply Hi.
    - cbn [map xw_ops concat].
      destruct (write_framed x s blocks b Hc Hi) as (x1 & s1 & bl1 & E1 & Hc1 & Hi1 & Hcap1 & Hcat1 & Hall1).
      rewrite E1.
      destruct (IH x1 s1 bl1 Hc1 Hi1) as (x' & s' & bl' & E' & Hc' & Hi' & Hcap' & Hcat' & Hall').
      rewrite E'. exists x', s', bl'. split; [reflexivity|]. split; [exact Hc'|]. split; [exact Hi'|].
      split; [rewrite Hcap', Hcap1; reflexivity|].
      split; [rewrite Hcat', app_assoc, Hcat1, <- !app_assoc; reflexivity|].
      intros Hall. rewrite Hcap1 in Hall'. auto.
  Qed.

  (* ---- ReadFrom and mixes of Write / ReadFrom ---- *)
  Lemma pull_in_room x data lim :
    len_N (w_input x) < w_cap x ->
    exists n, xw_pull_in x data lim = (xw_set_input x (w_input x ++ take_N n data), drop_N n data, n) /\
              n <= len_N data /\ n <= w_cap x - len_N (w_input x) /\
              (lim = None -> data <> [] -> 0 < n).
  Proof.
    intros Hlt. unfold xw_pull_in, xw_full.
    replace (len_N (w_input x) =? w_cap x) with false by (symmetry; apply N.eqb_neq; lia).
    eexists. split; [reflexivity|]. split; [lia|]. split; [destruct lim; lia|].
    intros -> Hd. assert (0 < len_N data) by (destruct data; [congruence|apply len_N_cons_pos]). lia.
  Qed.

  Lemma maybe_flush_framed x s blocks :
    WCore x s blocks -> len_N (w_input x) <= w_cap x -> w_cap x <> 0 ->
    exists x' s' blocks',
      (if xw_full_enough x then xw_flush enc x s else (x, s, true)) = (x', s', true) /\
      WCore x' s' blocks' /\ len_N (w_input x') < w_cap x' /\ w_cap x' = w_cap x /\
      concat blocks' ++ w_input x' = concat blocks ++ w_input x /\
      (Forall (block_ok (w_cap x)) blocks -> Forall (block_ok (w_cap x)) blocks').
  Proof.
    intros Hc Hle Hne. destruct (xw_full_enough x) eqn:Efe.
    - destruct (w_input x) as [|p ps] eqn:Ein.
      + exists x, s, blocks. unfold xw_flush. rewrite Ein. split; [reflexivity|]. split; [exact Hc|].
        change (len_N (@nil N)) with 0. repeat split; auto. lia.
      + destruct (flush_framed x s blocks p ps Hc Ein) as (x2 & s2 & Efl & Hc2 & Hin2 & Hcap2).
        exists x2, s2, (blocks ++ [p :: ps]). split; [exact Efl|]. split; [exact Hc2|].
        rewrite Hin2, Hcap2. change (len_N (@nil N)) with 0. split; [lia|]. split; [reflexivity|].
        split; [rewrite concat_app; cbn [concat]; rewrite !app_nil_r; reflexivity|].
        intros Hall. apply Forall_app. split; [exact Hall|]. constructor; [|constructor].
        split; [discriminate|exact Hle].
    - exists x, s, blocks. split; [reflexivity|]. split; [exact Hc|].
      unfold xw_full_enough in Efe. destruct Hc as (Hfr & Hrest). rewrite Hfr in Efe. cbn [andb] in Efe.
      apply N.ltb_ge in Efe. repeat split; auto; try apply Hrest. lia.
  Qed.

  Lemma at_end_true r rest n :
    src_at_end r rest n = true -> rest = drop_N n (src_data r) -> n <= len_N (src_data r) ->
    take_N n (src_data r) = src_data r /\ n = len_N (src_data r).
  Proof.
    unfold src_at_end. intros H Hrest Hn. destruct (src_data r) as [|d0 dl] eqn:Ed.
    - change (len_N (@nil N)) with 0 in *. assert (n = 0) by lia. subst n. split; reflexivity.
    - apply andb_true_iff in H as [_ H]. destruct rest as [|? ?]; [|discriminate].
      pose proof (take_drop_N (d0 :: dl) n) as Htd. rewrite <- Hrest, app_nil_r in Htd.
      split; [exact Htd|].
      assert (H2 : len_N (take_N n (d0 :: dl)) = len_N (d0 :: dl)) by (rewrite Htd; reflexivity).
      rewrite len_N_take in H2. lia.
  Qed.

  Lemma at_end_false r rest n :
    src_at_end r rest n = false -> src_data r <> [].
  Proof. unfold src_at_end. destruct (src_data r); [discriminate|discriminate]. Qed.

  Lemma read_from_loop_framed : forall fuel r x s blocks wn,
    src_fails r = false ->
    WCore x s blocks -> len_N (w_input x) < w_cap x ->
    (length (src_data r) + length (src_steps r) < fuel)%nat ->
    exists x' s' blocks', xw_read_from_loop enc fuel x s r wn = (x', s', WOk (wn + len_N (src_data r))) /\
      WCore x' s' blocks' /\ len_N (w_input x') < w_cap x' /\ w_cap x' = w_cap x /\
      concat blocks' ++ w_input x' = concat blocks ++ w_input x ++ src_data r /\
      (Forall (block_ok (w_cap x)) blocks -> Forall (block_ok (w_cap x)) blocks').
  Proof.
    induction fuel as [|fuel IH]; intros r x s blocks wn Hok Hc Hlt Hf; [lia|].
    cbn [xw_read_from_loop].
    destruct (pull_in_room x (src_data r) (hd_error (src_steps r)) Hlt) as (n & E & Hnd & Hnr & Hpos).
    rewrite E.
    set (x1 := xw_set_input x (w_input x ++ take_N n (src_data r))).
    set (rest := drop_N n (src_data r)).
    assert (Hlen1 : len_N (w_input x1) = len_N (w_input x) + n).
    { unfold x1. cbn [xw_set_input w_input]. rewrite len_N_app, len_N_take. lia. }
    assert (Hc1 : WCore x1 s blocks) by exact Hc.
    destruct (maybe_flush_framed x1 s blocks Hc1) as (x2 & s2 & bl2 & Efl & Hc2 & Hlt2 & Hcap2 & Hcat2 & Hall2).
    { rewrite Hlen1. unfold x1. cbn [xw_set_input w_cap]. lia. }
    { unfold x1. cbn [xw_set_input w_cap]. lia. }
    rewrite Efl. cbn [negb].
    assert (Hcapx1 : w_cap x1 = w_cap x) by reflexivity.
    assert (Hin1 : w_input x1 = w_input x ++ take_N n (src_data r)) by reflexivity.
    destruct (src_at_end r rest n) eqn:Eend.
    - destruct (at_end_true r rest n Eend eq_refl Hnd) as [Htake Hn].
      rewrite Hok. exists x2, s2, bl2. rewrite <- Hn. split; [reflexivity|]. split; [exact Hc2|].
      split; [exact Hlt2|]. split; [rewrite Hcap2; exact Hcapx1|].
      split; [rewrite Hcat2, Hin1, Htake; reflexivity|].
      rewrite Hcapx1 in Hall2. exact Hall2.
    - pose proof (at_end_false r rest n Eend) as Hdne.
      set (r' := {| src_data := rest; src_steps := tl (src_steps r);
                    src_eof_with_data := src_eof_with_data r; src_fails := src_fails r |}).
      assert (Hlenrest : len_N rest = len_N (src_data r) - n) by apply len_N_drop.
      assert (Hmeasure : (length (src_data r') + length (src_steps r') < fuel)%nat).
      { unfold r'. cbn [src_data src_steps]. unfold len_N in Hlenrest, Hnd, Hpos.
        destruct (src_steps r) as [|l t] eqn:Est.
        - specialize (Hpos eq_refl Hdne). cbn [tl length] in *. lia.
        - cbn [tl length] in *. lia. }
      destruct (IH r' x2 s2 bl2 (wn + n) Hok Hc2 Hlt2 Hmeasure) as (x' & s' & bl' & E' & Hc' & Hlt' & Hcap' & Hcat' & Hall').
      exists x', s', bl'. rewrite E'. unfold r'. cbn [src_data]. split.
      { f_equal. f_equal. lia. }
      split; [exact Hc'|]. split; [exact Hlt'|]. split; [rewrite Hcap', Hcap2; exact Hcapx1|].
      split.
      { rewrite Hcat'. unfold r'. cbn [src_data]. rewrite app_assoc, Hcat2, Hin1, <- !app_assoc.
        unfold rest. rewrite take_drop_N. reflexivity. }
      intros Hall. rewrite Hcap2, Hcapx1 in Hall'. rewrite Hcapx1 in Hall2. auto.
  Qed.

  Lemma read_from_framed x s blocks r :
    src_fails r = false -> WCore x s blocks -> WIn x ->
    exists x' s' blocks', xw_read_from enc x s r = (x', s', WOk (len_N (src_data r))) /\
      WCore x' s' blocks' /\ WIn x' /\ eff_cap (w_cap x') = eff_cap (w_cap x) /\
      concat blocks' ++ w_input x' = concat blocks ++ w_input x ++ src_data r /\
      (Forall (block_ok (eff_cap (w_cap x))) blocks -> Forall (block_ok (eff_cap (w_cap x))) blocks').
  Proof.
    intros Hok Hc [Hz Hnz]. unfold xw_read_from.
    set (x0 := xw_ensure x).
    assert (Hc0 : WCore x0 s blocks).
    { unfold x0, xw_ensure. destruct (w_cap x =? 0); exact Hc. }
    assert (Hcap0 : w_cap x0 = eff_cap (w_cap x)).
    { unfold x0, xw_ensure, eff_cap. destruct (w_cap x =? 0); reflexivity. }
    assert (Hin0 : w_input x0 = w_input x).
    { unfold x0, xw_ensure. destruct (w_cap x =? 0); reflexivity. }
    assert (Hlt0 : len_N (w_input x0) < w_cap x0).
    { rewrite Hin0, Hcap0. unfold eff_cap. destruct (N.eqb_spec (w_cap x) 0) as [e|ne].
      - rewrite (Hz e). reflexivity.
      - exact (Hnz ne). }
    destruct (read_from_loop_framed (S (S (length (src_data r) + length (src_steps r)))) r x0 s blocks 0 Hok Hc0 Hlt0 ltac:(lia))
      as (x' & s' & bl' & E & Hc' & Hlt' & Hcap' & Hcat' & Hall').
    exists x', s', bl'. rewrite E, N.add_0_l. split; [reflexivity|]. split; [exact Hc'|].
    assert (Hne : w_cap x' <> 0) by lia.
    split; [split; [intros; lia | intros; exact Hlt']|].
    split.
    { rewrite Hcap', Hcap0. unfold eff_cap at 1. destruct (N.eqb_spec (eff_cap (w_cap x)) 0); [|reflexivity].
      unfold eff_cap in *. destruct (w_cap x =? 0); [discriminate|]. lia. }
    split; [rewrite Hcat', Hin0; reflexivity|].
    rewrite <- Hcap0. exact Hall'.
  Qed.

  (* the operations covered: Write, and ReadFrom of a source that ends with io.EOF *)
  Definition op_bytes (op : wop) : list N :=
    match op with OWrite b => b | OReadFrom r => src_data r | OFlush => [] end.
  Definition op_good (op : wop) : Prop :=
    match op with OWrite _ => True | OReadFrom r => src_fails r = false | OFlush => False end.
  Definition ops_payload (ops : list wop) : list N := concat (map op_bytes ops).
  Definition ops_results (ops : list wop) : list wres := map (fun op => WOk (len_N (op_bytes op))) ops.

  Lemma ops_framed : forall ops x s blocks,
    Forall op_good ops -> WCore x s blocks -> WIn x ->
    exists x' s' blocks', xw_ops enc x s ops = (x', s', ops_results ops) /\
      WCore x' s' blocks' /\ WIn x' /\ eff_cap (w_cap x') = eff_cap (w_cap x) /\
      concat blocks' ++ w_input x' = concat blocks ++ w_input x ++ ops_payload ops /\
      (Forall (block_ok (eff_cap (w_cap x))) blocks -> Forall (block_ok (eff_cap (w_cap x))) blocks').
  Proof.
    induction ops as [|op ops IH]; intros x s blocks Hg Hc Hi.
    - cbn [xw_ops]. exists x, s, blocks. unfold ops_payload, ops_results. cbn [map concat].
      rewrite app_nil_r. repeat split; auto; try apply Hc; try apply Hi.
    - inversion Hg as [|? ? Hg1 Hgs]; subst.
      assert (Hstep : exists x1 s1 bl1,
                 match op with
                 | OWrite b => xw_write enc x s b
                 | OReadFrom r => xw_read_from enc x s r
                 | OFlush => let '(x0, s0, ok) := xw_flush enc x s in
                             (x0, s0, if ok then WOk 0 else WErr 0 EShortWrite)
                 end = (x1, s1, WOk (len_N (op_bytes op))) /\
                 WCore x1 s1 bl1 /\ WIn x1 /\ eff_cap (w_cap x1) = eff_cap (w_cap x) /\
                 concat bl1 ++ w_input x1 = concat blocks ++ w_input x ++ op_bytes op /\
                 (Forall (block_ok (eff_cap (w_cap x))) blocks -> Forall (block_ok (eff_cap (w_cap x))) bl1)).
      { destruct op as [b|r|]; cbn [op_bytes op_good] in *.
        - exact (write_framed x s blocks b Hc Hi).
        - exact (read_from_framed x s blocks r Hg1 Hc Hi).
        - contradiction. }
      destruct Hstep as (x1 & s1 & bl1 & E1 & Hc1 & Hi1 & Hcap1 & Hcat1 & Hall1).
      cbn [xw_ops]. rewrite E1.
      destruct (IH x1 s1 bl1 Hgs Hc1 Hi1) as (x' & s' & bl' & E' & Hc' & Hi' & Hcap' & Hcat' & Hall').
      rewrite E'. exists x', s', bl'. unfold ops_payload, ops_results in *. cbn [map concat].
      split; [reflexivity|]. split; [exact Hc'|]. split; [exact Hi'|].
      split; [rewrite Hcap', Hcap1; reflexivity|].
      split; [rewrite Hcat', app_assoc, Hcat1, <- !app_assoc; reflexivity|].
      intros Hall. rewrite Hcap1 in Hall'. auto.
  Qed.

  Definition pooled_cap (pooled : option xwriter) : N :=
    match pooled with Some p => w_cap p | None => 0 end.

  Theorem stream_framed pooled bs :
    exists blocks x',
      xw_stream enc pooled true None (map OWrite bs) =
      (x', stream_of (map enc blocks), map (fun b => WOk (len_N b)) bs, true) /\
      concat blocks = concat bs /\
      Forall (block_ok (eff_cap (pooled_cap pooled))) blocks /\
      w_input x' = [] /\ w_nbytes x' = 0 /\ eff_cap (w_cap x') = eff_cap (pooled_cap pooled).
  Proof.
    unfold xw_stream.
    set (x0 := xw_open pooled true). set (s0 := {| k_data := []; k_room := None |}).
    assert (Hcap0 : w_cap x0 = pooled_cap pooled) by (destruct pooled; reflexivity).
    assert (Hin0 : w_input x0 = []) by (destruct pooled; reflexivity).
    assert (Hc0 : WCore x0 s0 []).
    { unfold WCore. repeat split; destruct pooled; reflexivity. }
    assert (Hi0 : WIn x0).
    { split; [intros; exact Hin0|]. intros Hne. rewrite Hin0. change (len_N (@nil N)) with 0. lia. }
    destruct (writes_framed bs x0 s0 [] Hc0 Hi0) as (x1 & s1 & bl1 & E1 & Hc1 & Hi1 & Hcap1 & Hcat1 & Hall1).
    rewrite E1. unfold xw_close.
    rewrite Hin0 in Hcat1. cbn [concat app] in Hcat1. rewrite Hcap0 in *.
    specialize (Hall1 (Forall_nil _)).
    destruct (w_input x1) as [|p ps] eqn:Ein.
    - assert (Efl : xw_flush enc x1 s1 = (x1, s1, true)) by (unfold xw_flush; rewrite Ein; reflexivity).
      rewrite Efl. destruct Hc1 as (_ & _ & _ & Hd). rewrite Hd.
      exists bl1, (xw_reset x1). split; [reflexivity|]. rewrite app_nil_r in Hcat1.
      repeat split; auto.
    - destruct (flush_framed x1 s1 bl1 p ps Hc1 Ein) as (x2 & s2 & Efl & Hc2 & Hin2 & Hcap2).
      rewrite Efl. destruct Hc2 as (_ & _ & _ & Hd). rewrite Hd.
      exists (bl1 ++ [p :: ps]), (xw_reset x2). split; [reflexivity|].
      split; [rewrite concat_app; cbn [concat]; rewrite app_nil_r; exact Hcat1|].
      split.
      { apply Forall_app. split; [exact Hall1|]. constructor; [|constructor]. split; [discriminate|].
        destruct Hi1 as [Hz Hnz]. rewrite <- Hcap1. unfold eff_cap.
        destruct (N.eqb_spec (w_cap x1) 0) as [e|ne]; [rewrite (Hz e) in Ein; discriminate|].
        specialize (Hnz ne). rewrite Ein in Hnz. lia. }
      cbn [xw_reset w_input w_nbytes w_cap]. rewrite Hcap2. repeat split; auto.
  Qed.

  Theorem stream_framed_ops pooled ops :
    Forall op_good ops ->
    exists blocks x',
      xw_stream enc pooled true None ops =
      (x', stream_of (map enc blocks), ops_results ops, true) /\
      concat blocks = ops_payload ops /\
      Forall (block_ok (eff_cap (pooled_cap pooled))) blocks /\
      w_input x' = [] /\ w_nbytes x' = 0 /\ eff_cap (w_cap x') = eff_cap (pooled_cap pooled).
  Proof.
    intros Hg. unfold xw_stream.
    set (x0 := xw_open pooled true). set (s0 := {| k_data := []; k_room := None |}).
    assert (Hcap0 : w_cap x0 = pooled_cap pooled) by (destruct pooled; reflexivity).
    assert (Hin0 : w_input x0 = []) by (destruct pooled; reflexivity).
    assert (Hc0 : WCore x0 s0 []).
    { unfold WCore. repeat split; destruct pooled; reflexivity. }
    assert (Hi0 : WIn x0).
    { split; [intros; exact Hin0|]. intros Hne. rewrite Hin0. change (len_N (@nil N)) with 0. lia. }
    destruct (ops_framed ops x0 s0 [] Hg Hc0 Hi0) as (x1 & s1 & bl1 & E1 & Hc1 & Hi1 & Hcap1 & Hcat1 & Hall1).
    rewrite E1. unfold xw_close.
    rewrite Hin0 in Hcat1. cbn [concat app] in Hcat1. rewrite Hcap0 in *.
    specialize (Hall1 (Forall_nil _)).
    destruct (w_input x1) as [|p ps] eqn:Ein.
    - assert (Efl : xw_flush enc x1 s1 = (x1, s1, true)) by (unfold xw_flush; rewrite Ein; reflexivity).
      rewrite Efl. destruct Hc1 as (_ & _ & _ & Hd). rewrite Hd.
      exists bl1, (xw_reset x1). split; [reflexivity|]. rewrite app_nil_r in Hcat1.
      repeat split; auto.
    - destruct (flush_framed x1 s1 bl1 p ps Hc1 Ein) as (x2 & s2 & Efl & Hc2 & Hin2 & Hcap2).
      rewrite Efl. destruct Hc2 as (_ & _ & _ & Hd). rewrite Hd.
      exists (bl1 ++ [p :: ps]), (xw_reset x2). split; [reflexivity|].
      split; [rewrite concat_app; cbn [concat]; rewrite app_nil_r; exact Hcat1|].
      split.
      { apply Forall_app. split; [exact Hall1|]. constructor; [|constructor]. split; [discriminate|].
        destruct Hi1 as [Hz Hnz]. rewrite <- Hcap1. unfold eff_cap.
        destruct (N.eqb_spec (w_cap x1) 0) as [e|ne]; [rewrite (Hz e) in Ein; discriminate|].
        specialize (Hnz ne). rewrite Ein in Hnz. lia. }
      cbn [xw_reset w_input w_nbytes w_cap]. rewrite Hcap2. repeat split; auto.
  Qed.

  (* ---- unframed: everything is buffered (the buffer doubles), Close emits one block ---- *)
  Definition UCore (x : xwriter) (s : sink) : Prop :=
    w_framed x = false /\ k_room s = None /\ k_data s = [].

  Lemma write_loop_unframed : forall fuel b x s wn,
    UCore x s -> w_cap x <> 0 -> len_N (w_input x) <= w_cap x -> (length b < fuel)%nat ->
    exists x', xw_write_loop enc fuel x s b wn = (x', s, WOk (wn + len_N b)) /\
      UCore x' s /\ w_cap x' <> 0 /\ len_N (w_input x') <= w_cap x' /\ w_input x' = w_input x ++ b.
  Proof.
    induction fuel as [|fuel IH]; intros b x s wn Hc Hne Hle Hf; [lia|].
    destruct b as [|c0 b0].
    - cbn [xw_write_loop]. exists x. change (len_N (@nil N)) with 0. rewrite N.add_0_r, app_nil_r. repeat split; auto; apply Hc.
    - cbn [xw_write_loop]. unfold xw_copy_in.
      set (xg := if xw_full x then xw_grow x else x).
      assert (Hg : w_input xg = w_input x /\ w_framed xg = false /\ len_N (w_input xg) < w_cap xg).
      { unfold xg, xw_full. destruct Hc as (Hfr & _). destruct (N.eqb_spec (len_N (w_input x)) (w_cap x)) as [e|ne].
        - cbn [xw_grow w_input w_framed w_cap]. repeat split; auto. lia.
        - repeat split; auto. lia. }
      destruct Hg as (Hgi & Hgf & Hgl).
      set (n := N.min (w_cap xg - len_N (w_input xg)) (len_N (c0 :: b0))).
      assert (Hn : 0 < n /\ n <= len_N (c0 :: b0) /\ n <= w_cap xg - len_N (w_input xg)).
      { pose proof (len_N_cons_pos c0 b0). unfold n. lia. }
      set (x1 := xw_set_input xg (w_input xg ++ take_N n (c0 :: b0))).
      assert (Hfe : xw_full_enough x1 = false).
      { unfold xw_full_enough, x1. cbn [xw_set_input w_framed]. rewrite Hgf. reflexivity. }
      rewrite Hfe.
      assert (Hc1 : UCore x1 s).
      { destruct Hc as (_ & Hr & Hd). unfold UCore, x1. cbn [xw_set_input w_framed]. auto. }
      assert (Hlen1 : len_N (w_input x1) = len_N (w_input xg) + n).
      { unfold x1. cbn [xw_set_input w_input]. rewrite len_N_app, len_N_take. lia. }
      assert (Hrest : (length (drop_N n (c0 :: b0)) < fuel)%nat).
      { assert (H : len_N (drop_N n (c0 :: b0)) = len_N (c0 :: b0) - n) by apply len_N_drop.
        destruct Hn as (Hn0 & Hnb & _). unfold len_N in H, Hnb. cbn [length] in *. lia. }
      destruct (IH (drop_N n (c0 :: b0)) x1 s (wn + n) Hc1) as (x' & E' & Hc' & Hne' & Hle' & Hin'); auto.
      { unfold x1. cbn [xw_set_input w_cap]. lia. }
      { rewrite Hlen1. unfold x1. cbn [xw_set_input w_cap]. lia. }
      exists x'. rewrite E'. split.
      { f_equal. f_equal. rewrite len_N_drop. lia. }
      split; [exact Hc'|]. split; [exact Hne'|]. split; [exact Hle'|].
      rewrite Hin'. unfold x1. cbn [xw_set_input w_input]. rewrite Hgi, <- app_assoc, take_drop_N. reflexivity.
  Qed.

  Definition UIn (x : xwriter) : Prop :=
    (w_cap x = 0 -> w_input x = []) /\ len_N (w_input x) <= eff_cap (w_cap x).

  Lemma writes_unframed : forall bs x s,
    UCore x s -> UIn x ->
    exists x', xw_ops enc x s (map OWrite bs) = (x', s, map (fun b => WOk (len_N b)) bs) /\
      UCore x' s /\ UIn x' /\ w_input x' = w_input x ++ concat bs.
  Proof.
    induction bs as [|b bs IH]; intros x s Hc Hi.
    - cbn [map xw_ops concat]. exists x. rewrite app_nil_r. repeat split; auto; try apply Hc; try apply Hi.
    - cbn [map xw_ops concat]. unfold xw_write.
      set (x0 := xw_ensure x).
      assert (H0 : UCore x0 s /\ w_cap x0 = eff_cap (w_cap x) /\ w_input x0 = w_input x).
      { unfold x0, xw_ensure, eff_cap. destruct (w_cap x =? 0); repeat split; apply Hc. }
      destruct H0 as (Hc0 & Hcap0 & Hin0).
      assert (Hne0 : w_cap x0 <> 0).
      { rewrite Hcap0. unfold eff_cap. destruct (N.eqb_spec (w_cap x) 0); [discriminate|assumption]. }
      destruct (write_loop_unframed (S (length b)) b x0 s 0 Hc0 Hne0) as (x1 & E1 & Hc1 & Hne1 & Hle1 & Hin1).
      { rewrite Hin0, Hcap0. apply Hi. }
      { lia. }
      rewrite E1, N.add_0_l.
      assert (Hi1 : UIn x1).
      { split; [intros; contradiction|]. unfold eff_cap. destruct (N.eqb_spec (w_cap x1) 0); [contradiction|exact Hle1]. }
      destruct (IH x1 s Hc1 Hi1) as (x' & E' & Hc' & Hi' & Hin').
      rewrite E'. exists x'. split; [reflexivity|]. split; [exact Hc'|]. split; [exact Hi'|].
      rewrite Hin', Hin1, Hin0, <- app_assoc. reflexivity.
  Qed.

  Theorem stream_unframed pooled bs :
    exists x',
      xw_stream enc pooled false None (map OWrite bs) =
      (x', match concat bs with [] => [] | _ :: _ => enc (concat bs) end,
       map (fun b => WOk (len_N b)) bs, true) /\
      w_input x' = [] /\ w_nbytes x' = 0.
  Proof.
    unfold xw_stream.
    set (x0 := xw_open pooled false). set (s0 := {| k_data := []; k_room := None |}).
    assert (Hin0 : w_input x0 = []) by (destruct pooled; reflexivity).
    assert (Hc0 : UCore x0 s0) by (unfold UCore; repeat split; destruct pooled; reflexivity).
    assert (Hi0 : UIn x0).
    { split; [intros; exact Hin0|]. rewrite Hin0. change (len_N (@nil N)) with 0. lia. }
    destruct (writes_unframed bs x0 s0 Hc0 Hi0) as (x1 & E1 & Hc1 & Hi1 & Hin1).
    rewrite E1. rewrite Hin0 in Hin1. cbn [app] in Hin1.
    unfold xw_close, xw_flush. rewrite Hin1.
    destruct Hc1 as (Hfr & _ & _).
    destruct (concat bs) as [|p ps].
    - exists (xw_reset x1). repeat split.
    - unfold xw_set_input, xw_raw, sink_write. cbn [w_framed w_nbytes w_input w_cap]. rewrite Hfr.
      cbn [andb negb k_room k_data s0 app]. eexists. split; [reflexivity|]. split; reflexivity.
  Qed.
  Lemma pull_in_any x data lim :
    w_cap x <> 0 -> len_N (w_input x) <= w_cap x ->
    exists x1 n, xw_pull_in x data lim = (x1, drop_N n data, n) /\
      w_input x1 = w_input x ++ take_N n data /\ w_framed x1 = w_framed x /\
      w_cap x1 <> 0 /\ len_N (w_input x1) <= w_cap x1 /\ n <= len_N data /\
      (lim = None -> data <> [] -> 0 < n).
  Proof.
    intros Hne Hle. unfold xw_pull_in.
    set (xg := if xw_full x then xw_grow x else x).
    assert (Hg : w_input xg = w_input x /\ w_framed xg = w_framed x /\ len_N (w_input xg) < w_cap xg).
    { unfold xg, xw_full. destruct (N.eqb_spec (len_N (w_input x)) (w_cap x)) as [e|ne].
      - cbn [xw_grow w_input w_framed w_cap]. repeat split; auto. lia.
      - repeat split; auto. lia. }
    destruct Hg as (Hgi & Hgf & Hgl).
    eexists. eexists. split; [reflexivity|]. cbn [xw_set_input w_input w_framed w_cap].
    rewrite Hgi. rewrite Hgi in Hgl. split; [reflexivity|]. split; [exact Hgf|]. split; [lia|].
    split; [rewrite len_N_app, len_N_take; destruct lim; lia|].
    split; [lia|].
    intros -> Hd. assert (0 < len_N data) by (destruct data; [congruence|apply len_N_cons_pos]). lia.
  Qed.

  Lemma read_from_loop_unframed : forall fuel r x s wn,
    src_fails r = false ->
    UCore x s -> w_cap x <> 0 -> len_N (w_input x) <= w_cap x ->
    (length (src_data r) + length (src_steps r) < fuel)%nat ->
    exists x', xw_read_from_loop enc fuel x s r wn = (x', s, WOk (wn + len_N (src_data r))) /\
      UCore x' s /\ w_cap x' <> 0 /\ len_N (w_input x') <= w_cap x' /\ w_input x' = w_input x ++ src_data r.
  Proof.
    induction fuel as [|fuel IH]; intros r x s wn Hok Hc Hne Hle Hf; [lia|].
    cbn [xw_read_from_loop].
    destruct (pull_in_any x (src_data r) (hd_error (src_steps r)) Hne Hle)
      as (x1 & n & E & Hin1 & Hfr1 & Hne1 & Hle1 & Hnd & Hpos).
    rewrite E.
    assert (Hfe : xw_full_enough x1 = false).
    { unfold xw_full_enough. rewrite Hfr1. destruct Hc as (-> & _). reflexivity. }
    rewrite Hfe. cbn [negb].
    assert (Hc1 : UCore x1 s).
    { destruct Hc as (Hfr & Hr & Hd). unfold UCore. rewrite Hfr1. auto. }
    set (rest := drop_N n (src_data r)).
    destruct (src_at_end r rest n) eqn:Eend.
    - destruct (at_end_true r rest n Eend eq_refl Hnd) as [Htake Hn].
      rewrite Hok. exists x1. rewrite <- Hn. split; [reflexivity|]. split; [exact Hc1|].
      split; [exact Hne1|]. split; [exact Hle1|]. rewrite Hin1, Htake. reflexivity.
    - pose proof (at_end_false r rest n Eend) as Hdne.
      set (r' := {| src_data := rest; src_steps := tl (src_steps r);
                    src_eof_with_data := src_eof_with_data r; src_fails := src_fails r |}).
      assert (Hlenrest : len_N rest = len_N (src_data r) - n) by apply len_N_drop.
      assert (Hmeasure : (length (src_data r') + length (src_steps r') < fuel)%nat).
      { unfold r'. cbn [src_data src_steps]. unfold len_N in Hlenrest, Hnd, Hpos.
        destruct (src_steps r) as [|l t] eqn:Est.
        - specialize (Hpos eq_refl Hdne). cbn [tl length] in *. lia.
        - cbn [tl length] in *. lia. }
      destruct (IH r' x1 s (wn + n) Hok Hc1 Hne1 Hle1 Hmeasure) as (x' & E' & Hc' & Hne' & Hle' & Hin').
      exists x'. rewrite E'. unfold r'. cbn [src_data]. split.
      { f_equal. f_equal. lia. }
      split; [exact Hc'|]. split; [exact Hne'|]. split; [exact Hle'|].
      rewrite Hin'. unfold r'. cbn [src_data]. rewrite Hin1, <- app_assoc. unfold rest.
      rewrite take_drop_N. reflexivity.
  Qed.

  Lemma ops_unframed : forall ops x s,
    Forall op_good ops -> UCore x s -> UIn x ->
    exists x', xw_ops enc x s ops = (x', s, ops_results ops) /\
      UCore x' s /\ UIn x' /\ w_input x' = w_input x ++ ops_payload ops.
  Proof.
    induction ops as [|op ops IH]; intros x s Hg Hc Hi.
    - cbn [xw_ops]. exists x. unfold ops_payload, ops_results. cbn [map concat]. rewrite app_nil_r.
      repeat split; auto; try apply Hc; try apply Hi.
    - inversion Hg as [|? ? Hg1 Hgs]; subst.
      set (x0 := xw_ensure x).
      assert (H0 : UCore x0 s /\ w_cap x0 = eff_cap (w_cap x) /\ w_input x0 = w_input x).
      { unfold x0, xw_ensure, eff_cap. destruct (w_cap x =? 0); repeat split; apply Hc. }
      destruct H0 as (Hc0 & Hcap0 & Hin0).
      assert (Hne0 : w_cap x0 <> 0).
      { rewrite Hcap0. unfold eff_cap. destruct (N.eqb_spec (w_cap x) 0); [discriminate|assumption]. }
      assert (Hle0 : len_N (w_input x0) <= w_cap x0) by (rewrite Hin0, Hcap0; apply Hi).
      assert (Hstep : exists x1,
                 match op with
                 | OWrite b => xw_write enc x s b
                 | OReadFrom r => xw_read_from enc x s r
                 | OFlush => let '(xx, ss, ok) := xw_flush enc x s in
                             (xx, ss, if ok then WOk 0 else WErr 0 EShortWrite)
                 end = (x1, s, WOk (len_N (op_bytes op))) /\
                 UCore x1 s /\ w_cap x1 <> 0 /\ len_N (w_input x1) <= w_cap x1 /\
                 w_input x1 = w_input x ++ op_bytes op).
      { destruct op as [b|r|]; cbn [op_bytes op_good] in *.
        - unfold xw_write. fold x0.
          destruct (write_loop_unframed (S (length b)) b x0 s 0 Hc0 Hne0 Hle0 ltac:(lia)) as (x1 & E1 & Hc1 & Hne1 & Hle1 & Hin1).
          exists x1. rewrite E1, N.add_0_l. split; [reflexivity|]. split; [exact Hc1|]. split; [exact Hne1|].
          split; [exact Hle1|]. rewrite Hin1, Hin0. reflexivity.
        - unfold xw_read_from. fold x0.
          destruct (read_from_loop_unframed (S (S (length (src_data r) + length (src_steps r)))) r x0 s 0 Hg1 Hc0 Hne0 Hle0 ltac:(lia))
            as (x1 & E1 & Hc1 & Hne1 & Hle1 & Hin1).
          exists x1. rewrite E1, N.add_0_l. split; [reflexivity|]. split; [exact Hc1|]. split; [exact Hne1|].
          split; [exact Hle1|]. rewrite Hin1, Hin0. reflexivity.
        - contradiction. }
      destruct Hstep as (x1 & E1 & Hc1 & Hne1 & Hle1 & Hin1).
      cbn [xw_ops]. rewrite E1.
      assert (Hi1 : UIn x1).
      { split; [intros; contradiction|]. unfold eff_cap. destruct (N.eqb_spec (w_cap x1) 0); [contradiction|exact Hle1]. }
      destruct (IH x1 s Hgs Hc1 Hi1) as (x' & E' & Hc' & Hi' & Hin').
      rewrite E'. exists x'. unfold ops_payload, ops_results in *. cbn [map concat].
      split; [reflexivity|]. split; [exact Hc'|]. split; [exact Hi'|].
      rewrite Hin', Hin1, <- app_assoc. reflexivity.
  Qed.

  Theorem stream_unframed_ops pooled ops :
    Forall op_good ops ->
    exists x',
      xw_stream enc pooled false None ops =
      (x', match ops_payload ops with [] => [] | _ :: _ => enc (ops_payload ops) end,
       ops_results ops, true) /\
      w_input x' = [] /\ w_nbytes x' = 0.
  Proof.
    intros Hg. unfold xw_stream.
    set (x0 := xw_open pooled false). set (s0 := {| k_data := []; k_room := None |}).
    assert (Hin0 : w_input x0 = []) by (destruct pooled; reflexivity).
    assert (Hc0 : UCore x0 s0) by (unfold UCore; repeat split; destruct pooled; reflexivity).
    assert (Hi0 : UIn x0).
    { split; [intros; exact Hin0|]. rewrite Hin0. change (len_N (@nil N)) with 0. lia. }
    destruct (ops_unframed ops x0 s0 Hg Hc0 Hi0) as (x1 & E1 & Hc1 & Hi1 & Hin1).
    rewrite E1. rewrite Hin0 in Hin1. cbn [app] in Hin1.
    unfold xw_close, xw_flush. rewrite Hin1.
    destruct Hc1 as (Hfr & _ & _).
    destruct (ops_payload ops) as [|p ps].
    - exists (xw_reset x1). repeat split.
    - unfold xw_set_input, xw_raw, sink_write. cbn [w_framed w_nbytes w_input w_cap]. rewrite Hfr.
      cbn [andb negb k_room k_data s0 app]. eexists. split; [reflexivity|]. split; reflexivity.
  Qed.
End Writer.

(* ------------------------------------------------------------------ the reference format *)
Lemma ref_header_eq : ref_stream_header = xerial_header_bytes.
Proof. reflexivity. Qed.

Lemma ref_chunk_frame c : len_N c < M32 -> ref_chunk c = frame c.
Proof. intros H. unfold ref_chunk, frame, ref_length. fold (len_N c). now rewrite be32_ref_u32. Qed.

Lemma ref_chunks_frames cs : Forall (fun c => len_N c < M32) cs -> ref_chunks cs = frames cs.
Proof.
  induction 1 as [|c cs Hc _ IH]; [reflexivity|].
  unfold ref_chunks, frames in *. cbn [map concat]. rewrite IH, ref_chunk_frame by exact Hc. reflexivity.
Qed.

Lemma ref_encode_frames enc blocks :
  Forall (fun b => len_N (enc b) < M32) blocks ->
  ref_encode enc blocks = xerial_header_bytes ++ frames (map enc blocks).
Proof.
  intros H. unfold ref_encode, ref_encode_chunks. rewrite ref_header_eq, ref_chunks_frames; [reflexivity|].
  apply Forall_map. exact H.
Qed.

Lemma ref_split_frames : forall cs fuel,
  Forall (fun c => len_N c < M32) cs -> (length (frames cs) <= fuel)%nat ->
  ref_split_chunks fuel (frames cs) = Some cs.
Proof.
  induction cs as [|c cs IH]; intros fuel Hall Hf.
  - destruct fuel; reflexivity.
  - inversion Hall as [|? ? Hc Hcs]; subst.
    rewrite frames_cons in *. rewrite !app_length, be32_length in Hf.
    destruct fuel as [|fuel]; [lia|].
    pose proof (be32_decode_be32 _ Hc) as Hd. unfold be32 in *. cbn [app].
    cbn [ref_split_chunks].
    set (a := (len_N c mod M32) / 16777216) in *. set (b := ((len_N c mod M32) / 65536) mod 256) in *.
    set (c2 := ((len_N c mod M32) / 256) mod 256) in *. set (d := (len_N c mod M32) mod 256) in *.
    assert (Hv : N.to_nat (ref_u32_value a b c2 d) = length c).
    { unfold ref_u32_value. unfold be32_decode in Hd. unfold len_N in Hd.
      replace (a * 16777216 + b * 65536 + c2 * 256 + d) with (((a * 256 + b) * 256 + c2) * 256 + d) by lia.
      rewrite Hd. apply Nat2N.id. }
    rewrite Hv.
    replace (Nat.ltb (length (c ++ frames cs)) (length c)) with false
      by (symmetry; apply Nat.ltb_ge; rewrite app_length; lia).
    rewrite skipn_app, Nat.sub_diag, skipn_all. cbn [skipn app].
    rewrite IH by (auto; lia).
    rewrite firstn_app, Nat.sub_diag, firstn_all. cbn [firstn]. rewrite app_nil_r. reflexivity.
Qed.

Lemma ref_decode_chunks_frames cs :
  Forall (fun c => len_N c < M32) cs ->
  ref_decode_chunks (xerial_header_bytes ++ frames cs) = Some cs.
Proof.
  intros H. unfold ref_decode_chunks, xerial_header_bytes, xerial_magic, xerial_version_info.
  cbn [app firstn skipn ref_bytes_eqb ref_magic N.eqb Pos.eqb andb negb].
  change (ref_u32_value 0 0 0 1 <=? ref_min_compatible) with true. cbv iota.
  apply ref_split_frames; [exact H|lia].
Qed.

Lemma ref_decode_all_enc enc dec :
  (forall b, dec (enc b) = Some b) ->
  forall blocks, ref_decode_all dec (map enc blocks) = Some (concat blocks).
Proof.
  intros Hd. induction blocks as [|b bs IH]; [reflexivity|].
  cbn [map ref_decode_all concat]. now rewrite Hd, IH.
Qed.

Theorem ref_decode_framed enc dec blocks :
  (forall b, dec (enc b) = Some b) ->
  Forall (fun b => len_N (enc b) < M32) blocks ->
  ref_decode dec (xerial_header_bytes ++ frames (map enc blocks)) = Some (concat blocks).
Proof.
  intros Hd H. unfold ref_decode. rewrite ref_decode_chunks_frames by (apply Forall_map; exact H).
  apply ref_decode_all_enc. exact Hd.
Qed.

(* ------------------------------------------------------------------ what the reads add up to *)
Lemma firstn_skipn_add {A} : forall a b (l : list A),
  firstn a l ++ firstn b (skipn a l) = firstn (a + b) l.
Proof.
  induction a; intros b l; [reflexivity|].
  destruct l; cbn [firstn skipn Nat.add app]; [now rewrite firstn_nil|]. f_equal. apply IHa.
Qed.

Lemma read_piece {A} (k : nat) (cur rest : list A) :
  exists a, firstn k cur = firstn a (cur ++ rest) /\ skipn k cur ++ rest = skipn a (cur ++ rest) /\
            (a = Nat.min k (length cur)).
Proof.
  exists (Nat.min k (length cur)). destruct (Nat.le_ge_cases k (length cur)) as [H|H].
  - rewrite Nat.min_l by exact H. rewrite firstn_app, skipn_app.
    replace (k - length cur)%nat with 0%nat by lia. cbn [firstn skipn]. rewrite app_nil_r. auto.
  - rewrite Nat.min_r by exact H. rewrite firstn_app, skipn_app, Nat.sub_diag.
    rewrite firstn_all, firstn_all2, skipn_all, skipn_all2 by lia. cbn [firstn skipn]. rewrite app_nil_r. auto.
Qed.

(* the bytes handed out by successive reads are a prefix of the payload, whatever the buffer sizes *)
Theorem ref_reads_prefix : forall ks cur blocks,
  exists n, ref_read_data (ref_reads cur blocks ks) = firstn n (cur ++ concat blocks).
Proof.
  induction ks as [|k ks IH]; intros cur blocks; [exists 0%nat; reflexivity|].
  cbn [ref_reads]. destruct cur as [|c cur].
  - destruct (ref_next_block blocks) as [[b bs]|] eqn:E.
    + destruct (ref_next_block_some _ _ _ E) as [_ Hc]. cbn [ref_read_data app]. rewrite Hc.
      destruct (IH (skipn (N.to_nat k) b) bs) as [n Hn]. rewrite Hn.
      destruct (read_piece (N.to_nat k) b (concat bs)) as (a & H1 & H2 & _). rewrite H1, H2.
      eexists. apply firstn_skipn_add.
    + exists 0%nat. reflexivity.
  - cbn [ref_read_data].
    destruct (IH (skipn (N.to_nat k) (c :: cur)) blocks) as [n Hn]. rewrite Hn.
    destruct (read_piece (N.to_nat k) (c :: cur) (concat blocks)) as (a & H1 & H2 & _). rewrite H1, H2.
    eexists. apply firstn_skipn_add.
Qed.

(* with non-empty buffers, more reads than bytes deliver everything and end with EOF *)
Theorem ref_reads_complete : forall ks cur blocks,
  Forall (fun k => 0 < k) ks -> (length (cur ++ concat blocks) < length ks)%nat ->
  ref_read_data (ref_reads cur blocks ks) = cur ++ concat blocks /\
  last (ref_reads cur blocks ks) (RefData []) = RefEOF.
Proof.
  induction ks as [|k ks IH]; intros cur blocks Hk Hlen; [cbn in Hlen; lia|].
  inversion Hk as [|? ? Hk0 Hks]; subst. cbn [length] in Hlen.
  assert (Hstep : forall (b : list N) (rest : list (list N)), b <> [] -> (length (b ++ concat rest) < S (length ks))%nat ->
            ref_read_data (RefData (firstn (N.to_nat k) b) :: ref_reads (skipn (N.to_nat k) b) rest ks) = b ++ concat rest /\
            last (RefData (firstn (N.to_nat k) b) :: ref_reads (skipn (N.to_nat k) b) rest ks) (RefData []) = RefEOF).
  { intros b rest Hb Hl. rewrite app_length in Hl.
    assert (Hl' : (length (skipn (N.to_nat k) b ++ concat rest) < length ks)%nat).
    { rewrite app_length, skipn_length. destruct b; [congruence|]. cbn [length] in *. lia. }
    destruct (IH (skipn (N.to_nat k) b) rest Hks Hl') as [Hd Hlast]. cbn [ref_read_data]. split.
    - rewrite Hd, app_assoc, firstn_skipn. reflexivity.
    - destruct (ref_reads (skipn (N.to_nat k) b) rest ks) eqn:Er; [|exact Hlast].
      exfalso. cbn in Hlast. discriminate. }
  cbn [ref_reads]. destruct cur as [|c cur].
  - destruct (ref_next_block blocks) as [[b bs]|] eqn:E.
    + destruct (ref_next_block_some _ _ _ E) as [Hb Hc]. cbn [app] in *. rewrite Hc in *.
      apply Hstep; [exact Hb|exact Hlen].
    + rewrite (ref_next_block_none _ E). split; reflexivity.
  - apply (Hstep (c :: cur) blocks); [discriminate|exact Hlen].
Qed.

(* ------------------------------------------------------------------ the statements of C16 *)
Lemma ref_reads_nil_block ks : ref_reads [] [[]] ks = ref_reads [] [] ks.
Proof. destruct ks; reflexivity. Qed.

Section Top.
  Variable enc : list N -> list N.
  Variable dec : list N -> option (list N).
  Variable declen : list N -> option N.
  Hypothesis dec_enc : forall b, dec (enc b) = Some b.
  Hypothesis declen_dec : forall c b, dec c = Some b -> declen c = Some (len_N b).
  Hypothesis enc_nonempty : forall b, enc b <> [].
  Hypothesis enc_not_magic : forall b,
    is_xerial_header (take_N 16 (enc b) ++ drop_N (len_N (take_N 16 (enc b))) zeros16) = false.
  Hypothesis enc_len32 : forall b, len_N b <= M31 -> len_N (enc b) < M32.

  Let reads_ok := reads_spec enc dec declen dec_enc declen_dec enc_nonempty enc_not_magic.

  Lemma open_buffered pr s : buffered (xr_open pr s) [].
  Proof. destruct pr; split; cbn; try lia; reflexivity. Qed.

  Lemma open_fields pr s :
    r_src (xr_open pr s) = s /\ r_header (xr_open pr s) = zeros16 /\ r_nbytes (xr_open pr s) = 0.
  Proof. destruct pr; repeat split. Qed.

  (* a reader obtained from NewReader, whatever the pooled object was, on a stream made of
     a header (any version bytes) and any chunking into blocks *)
  Theorem read_reference_stream pr ver blocks ks :
    length ver = 8%nat -> Forall (fun b => len_N (enc b) < M32) blocks ->
    snd (xr_reads dec declen (xr_open pr (xerial_magic ++ ver ++ frames (map enc blocks))) ks)
    = map of_ref (ref_reads [] blocks ks).
  Proof.
    intros Hv Hf. apply reads_ok. split; [apply open_buffered|].
    destruct (open_fields pr (xerial_magic ++ ver ++ frames (map enc blocks))) as (-> & -> & ->).
    eapply RS_start; eauto.
  Qed.

  Theorem read_raw_block pr b ks :
    snd (xr_reads dec declen (xr_open pr (enc b)) ks) = map of_ref (ref_reads [] [b] ks).
  Proof.
    apply reads_ok. split; [apply open_buffered|].
    destruct (open_fields pr (enc b)) as (-> & -> & ->). apply RS_raw; reflexivity.
  Qed.

  Theorem read_empty_stream pr ks :
    snd (xr_reads dec declen (xr_open pr []) ks) = map of_ref (ref_reads [] [] ks).
  Proof.
    apply reads_ok. split; [apply open_buffered|].
    destruct (open_fields pr []) as (-> & -> & ->). apply RS_done; reflexivity.
  Qed.

  Theorem read_written_stream pr blocks ks :
    Forall (fun b => len_N (enc b) < M32) blocks ->
    snd (xr_reads dec declen (xr_open pr (stream_of (map enc blocks))) ks) = map of_ref (ref_reads [] blocks ks).
  Proof.
    intros Hf. destruct blocks as [|b bs]; [apply read_empty_stream|].
    cbn [map stream_of]. unfold xerial_header_bytes. rewrite <- app_assoc.
    apply (read_reference_stream pr xerial_version_info (b :: bs) ks); [reflexivity|exact Hf].
  Qed.

  Definition delivered (blocks : list (list N)) (payload : list N) (ks : list N) : Prop :=
    (exists n, ref_read_data (ref_reads [] blocks ks) = firstn n payload) /\
    (Forall (fun k => 0 < k) ks -> (length payload < length ks)%nat ->
     ref_read_data (ref_reads [] blocks ks) = payload /\
     last (ref_reads [] blocks ks) (RefData []) = RefEOF).

  Lemma delivered_concat blocks ks : delivered blocks (concat blocks) ks.
  Proof.
    split.
    - exact (ref_reads_prefix ks [] blocks).
    - intros Hk Hl. exact (ref_reads_complete ks [] blocks Hk Hl).
  Qed.

  Theorem roundtrip_framed (pw : option xwriter) (pr : option xreader) bs ks :
    eff_cap (pooled_cap pw) <= M31 ->
    exists blocks released,
      xw_stream enc pw true None (map OWrite bs)
      = (released, stream_of (map enc blocks), map (fun b => WOk (len_N b)) bs, true) /\
      concat blocks = concat bs /\ Forall (fun b => b <> []) blocks /\
      (concat bs <> [] ->
         stream_of (map enc blocks) = ref_encode enc blocks /\
         ref_decode dec (stream_of (map enc blocks)) = Some (concat bs)) /\
      (concat bs = [] -> stream_of (map enc blocks) = []) /\
      snd (xr_reads dec declen (xr_open pr (stream_of (map enc blocks))) ks)
      = map of_ref (ref_reads [] blocks ks) /\
      delivered blocks (concat bs) ks /\
      w_input released = [] /\ w_nbytes released = 0.
  Proof.
    intros Hcap.
    destruct (stream_framed enc pw bs) as (blocks & x' & E & Hcat & Hall & Hin & Hnb & _).
    assert (Hfit : Forall (fun b => len_N (enc b) < M32) blocks).
    { eapply Forall_impl; [|exact Hall]. intros b [_ Hb]. apply enc_len32. lia. }
    exists blocks, x'. split; [exact E|]. split; [exact Hcat|].
    split; [eapply Forall_impl; [|exact Hall]; intros b [Hb _]; exact Hb|].
    split.
    { intros Hne. destruct blocks as [|b0 bl]; [cbn in Hcat; congruence|].
      cbn [map stream_of]. rewrite <- Hcat. split.
      - symmetry. exact (ref_encode_frames enc (b0 :: bl) Hfit).
      - exact (ref_decode_framed enc dec (b0 :: bl) dec_enc Hfit). }
    split.
    { intros He. destruct blocks as [|b0 bl]; [reflexivity|]. exfalso.
      inversion Hall as [|? ? [Hb _] _]; subst. rewrite <- Hcat in He. cbn [concat] in He.
      destruct b0; [congruence|discriminate]. }
    split; [exact (read_written_stream pr blocks ks Hfit)|].
    split; [rewrite <- Hcat; apply delivered_concat|]. auto.
  Qed.

  Theorem roundtrip_unframed (pw : option xwriter) (pr : option xreader) bs ks :
    exists released,
      xw_stream enc pw false None (map OWrite bs)
      = (released, match concat bs with [] => [] | _ :: _ => enc (concat bs) end,
         map (fun b => WOk (len_N b)) bs, true) /\
      snd (xr_reads dec declen
             (xr_open pr (match concat bs with [] => [] | _ :: _ => enc (concat bs) end)) ks)
      = map of_ref (ref_reads [] [concat bs] ks) /\
      delivered [concat bs] (concat bs) ks /\
      w_input released = [] /\ w_nbytes released = 0.
  Proof.
    destruct (stream_unframed enc pw bs) as (x' & E & Hin & Hnb).
    exists x'. split; [exact E|]. split.
    - destruct (concat bs) as [|p ps] eqn:Ec.
      + rewrite ref_reads_nil_block. apply read_empty_stream.
      + apply read_raw_block.
    - split; [|auto]. pose proof (delivered_concat [concat bs] ks) as H.
      cbn [concat] in H. rewrite app_nil_r in H. exact H.
  Qed.

  Theorem reference_streams_readable pr blocks ks :
    Forall (fun b => len_N (enc b) < M32) blocks ->
    ref_decode dec (ref_encode enc blocks) = Some (concat blocks) /\
    snd (xr_reads dec declen (xr_open pr (ref_encode enc blocks)) ks) = map of_ref (ref_reads [] blocks ks) /\
    delivered blocks (concat blocks) ks.
  Proof.
    intros Hf. rewrite (ref_encode_frames enc blocks Hf). split; [exact (ref_decode_framed enc dec blocks dec_enc Hf)|].
    split; [|apply delivered_concat].
    unfold xerial_header_bytes. rewrite <- app_assoc.
    apply (read_reference_stream pr xerial_version_info blocks ks); [reflexivity|exact Hf].
  Qed.
  (* ---- arbitrary mixes: Write / ReadFrom on the writer, Reads then WriteTo on the reader ---- *)
  Lemma open_inv_written pr blocks :
    Forall (fun b => len_N (enc b) < M32) blocks ->
    RInv enc (xr_open pr (stream_of (map enc blocks))) [] blocks.
  Proof.
    intros Hf. split; [apply open_buffered|].
    destruct (open_fields pr (stream_of (map enc blocks))) as (-> & -> & ->).
    destruct blocks as [|b bs]; [apply RS_done; reflexivity|].
    cbn [map stream_of]. unfold xerial_header_bytes. rewrite <- app_assoc.
    eapply RS_start with (ver := xerial_version_info); eauto.
  Qed.

  Lemma open_inv_raw pr b : RInv enc (xr_open pr (enc b)) [] [b].
  Proof.
    split; [apply open_buffered|].
    destruct (open_fields pr (enc b)) as (-> & -> & ->). apply RS_raw; reflexivity.
  Qed.

  Lemma open_inv_empty pr : RInv enc (xr_open pr []) [] [].
  Proof.
    split; [apply open_buffered|].
    destruct (open_fields pr []) as (-> & -> & ->). apply RS_done; reflexivity.
  Qed.

  (* "any number of successful Reads, then WriteTo, deliver the payload exactly once" *)
  Definition copy_delivers (x : xreader) (payload : list N) (ks : list N) : Prop :=
    forall x' rs, xr_reads dec declen x ks = (x', rs) -> forallb is_rdata rs = true ->
    exists x'' rest, xr_write_to dec declen x' = (x'', rest, Some None) /\ rdata rs ++ rest = payload.

  Lemma copy_delivers_inv x blocks ks :
    RInv enc x [] blocks -> copy_delivers x (concat blocks) ks.
  Proof.
    intros Hinv x' rs E Hall.
    exact (reads_then_write_to enc dec declen dec_enc declen_dec enc_nonempty enc_not_magic
             ks x [] blocks x' rs Hinv E Hall).
  Qed.

  Theorem roundtrip_framed_ops (pw : option xwriter) (pr : option xreader) ops ks :
    Forall op_good ops -> eff_cap (pooled_cap pw) <= M31 ->
    exists blocks released,
      xw_stream enc pw true None ops
      = (released, stream_of (map enc blocks), ops_results ops, true) /\
      concat blocks = ops_payload ops /\ Forall (fun b => b <> []) blocks /\
      (ops_payload ops <> [] ->
         stream_of (map enc blocks) = ref_encode enc blocks /\
         ref_decode dec (stream_of (map enc blocks)) = Some (ops_payload ops)) /\
      (ops_payload ops = [] -> stream_of (map enc blocks) = []) /\
      snd (xr_reads dec declen (xr_open pr (stream_of (map enc blocks))) ks)
      = map of_ref (ref_reads [] blocks ks) /\
      delivered blocks (ops_payload ops) ks /\
      copy_delivers (xr_open pr (stream_of (map enc blocks))) (ops_payload ops) ks /\
      w_input released = [] /\ w_nbytes released = 0.
  Proof.
    intros Hg Hcap.
    destruct (stream_framed_ops enc pw ops Hg) as (blocks & x' & E & Hcat & Hall & Hin & Hnb & _).
    assert (Hfit : Forall (fun b => len_N (enc b) < M32) blocks).
    { eapply Forall_impl; [|exact Hall]. intros b [_ Hb]. apply enc_len32. lia. }
    exists blocks, x'. split; [exact E|]. split; [exact Hcat|].
    split; [eapply Forall_impl; [|exact Hall]; intros b [Hb _]; exact Hb|].
    split.
    { intros Hne. destruct blocks as [|b0 bl]; [cbn in Hcat; congruence|].
      cbn [map stream_of]. rewrite <- Hcat. split.
      - symmetry. exact (ref_encode_frames enc (b0 :: bl) Hfit).
      - exact (ref_decode_framed enc dec (b0 :: bl) dec_enc Hfit). }
    split.
    { intros He. destruct blocks as [|b0 bl]; [reflexivity|]. exfalso.
      inversion Hall as [|? ? [Hb _] _]; subst. rewrite <- Hcat in He. cbn [concat] in He.
      destruct b0; [congruence|discriminate]. }
    split; [exact (read_written_stream pr blocks ks Hfit)|].
    split; [rewrite <- Hcat; apply delivered_concat|].
    split; [rewrite <- Hcat; apply copy_delivers_inv; apply open_inv_written; exact Hfit|]. auto.
  Qed.

  Theorem roundtrip_unframed_ops (pw : option xwriter) (pr : option xreader) ops ks :
    Forall op_good ops ->
    exists released,
      xw_stream enc pw false None ops
      = (released, match ops_payload ops with [] => [] | _ :: _ => enc (ops_payload ops) end,
         ops_results ops, true) /\
      snd (xr_reads dec declen
             (xr_open pr (match ops_payload ops with [] => [] | _ :: _ => enc (ops_payload ops) end)) ks)
      = map of_ref (ref_reads [] [ops_payload ops] ks) /\
      delivered [ops_payload ops] (ops_payload ops) ks /\
      copy_delivers (xr_open pr (match ops_payload ops with [] => [] | _ :: _ => enc (ops_payload ops) end))
                    (ops_payload ops) ks /\
      w_input released = [] /\ w_nbytes released = 0.
  Proof.
    intros Hg.
    destruct (stream_unframed_ops enc pw ops Hg) as (x' & E & Hin & Hnb).
    exists x'. split; [exact E|]. split.
    { destruct (ops_payload ops) as [|p ps] eqn:Ec.
      - rewrite ref_reads_nil_block. apply read_empty_stream.
      - apply read_raw_block. }
    split.
    { pose proof (delivered_concat [ops_payload ops] ks) as H.
      cbn [concat] in H. rewrite app_nil_r in H. exact H. }
    split; [|auto].
    destruct (ops_payload ops) as [|p ps] eqn:Ec.
    - pose proof (copy_delivers_inv _ [] ks (open_inv_empty pr)) as H. exact H.
    - pose proof (copy_delivers_inv _ [p :: ps] ks (open_inv_raw pr (p :: ps))) as H.
      cbn [concat] in H. rewrite app_nil_r in H. exact H.
  Qed.

  (* reference streams and raw blocks: Reads then WriteTo *)
  Theorem reference_stream_copy pr blocks ks :
    Forall (fun b => len_N (enc b) < M32) blocks ->
    copy_delivers (xr_open pr (ref_encode enc blocks)) (concat blocks) ks.
  Proof.
    intros Hf. rewrite (ref_encode_frames enc blocks Hf). apply copy_delivers_inv.
    split; [apply open_buffered|].
    destruct (open_fields pr (xerial_header_bytes ++ frames (map enc blocks))) as (-> & -> & ->).
    unfold xerial_header_bytes. rewrite <- app_assoc.
    eapply RS_start with (ver := xerial_version_info); eauto.
  Qed.

  Theorem raw_block_copy pr b ks : copy_delivers (xr_open pr (enc b)) b ks.
  Proof.
    pose proof (copy_delivers_inv _ [b] ks (open_inv_raw pr b)) as H.
    cbn [concat] in H. rewrite app_nil_r in H. exact H.
  Qed.
End Top.

(* Reset: the reader forgets everything; the writer keeps only its buffer capacity *)
Theorem reader_reset_forgets : forall (j1 j2 : xreader) s,
  xr_reset j1 s = xr_new s /\ xr_reset j1 s = xr_reset j2 s /\ xr_close j1 = xr_new [].
Proof. intros. repeat split. Qed.

Theorem reader_open_forgets : forall (j : xreader) s, xr_open (Some j) s = xr_open None s.
Proof. reflexivity. Qed.

Theorem writer_reset_forgets : forall enc (j1 j2 : xwriter) framed room ops,
  w_cap j1 = w_cap j2 ->
  xw_stream enc (Some j1) framed room ops = xw_stream enc (Some j2) framed room ops.
Proof.
  intros enc j1 j2 framed room ops H. unfold xw_stream, xw_open, xw_reset.
  cbn [w_input w_cap w_nbytes w_framed]. rewrite H. reflexivity.
Qed.

Theorem writer_fresh_is_cap0 : forall enc (j : xwriter) framed room ops,
  w_cap j = 0 -> xw_stream enc (Some j) framed room ops = xw_stream enc None framed room ops.
Proof.
  intros enc j framed room ops H. unfold xw_stream, xw_open, xw_reset, xw_new.
  cbn [w_input w_cap w_nbytes w_framed]. rewrite H. reflexivity.
Qed.

(* ------------------------------------------------------------------ a toy block codec meeting the laws *)
Definition toy_enc (b : list N) : list N := 1 :: b.
Definition toy_dec (c : list N) : option (list N) := match c with 1 :: b => Some b | _ => None end.
Definition toy_declen (c : list N) : option N := match c with 1 :: b => Some (len_N b) | _ => None end.

Lemma toy_dec_enc b : toy_dec (toy_enc b) = Some b.
Proof. reflexivity. Qed.
Lemma toy_declen_dec c b : toy_dec c = Some b -> toy_declen c = Some (len_N b).
Proof. destruct c as [|[|[| | ]] c']; cbn; try discriminate. intros E; injection E as <-. reflexivity. Qed.
Lemma toy_nonempty b : toy_enc b <> [].
Proof. discriminate. Qed.
Lemma toy_not_magic b :
  is_xerial_header (take_N 16 (toy_enc b) ++ drop_N (len_N (take_N 16 (toy_enc b))) zeros16) = false.
Proof.
  unfold is_xerial_header, toy_enc, take_N. change (N.to_nat 16) with 16%nat.
  cbn [firstn app list_eqb xerial_magic N.eqb Pos.eqb andb]. apply andb_false_r.
Qed.
Lemma toy_len32 b : len_N b <= M31 -> len_N (toy_enc b) < M32.
Proof. unfold toy_enc, len_N, M31, M32. cbn [length]. lia. Qed.
