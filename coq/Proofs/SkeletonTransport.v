(* Proofs/SkeletonTransport.v — the synchronisation-skeleton assumptions of
   Model/TransportPool.v (transport.go) hold of /repo's CURRENT source. *)
From Coq Require Import List String Bool.
From KV Require Import Model.DRF Model.SkeletonAssumptions Gen.Skeleton.
Import ListNotations.
Open Scope string_scope.

Lemma transport_skeleton_ok : transport_assumptions_hold calls accesses = true.
Proof. vm_compute. reflexivity. Qed.

(* the checker discriminates:
   1. an unbuffered promise channel (conn.run would block on resolve after the caller gave up);
   2. idleConns touched outside the group mutex;
   3. a promise resolved outside conn.run;
   4. a second go of conn.run;
   5. close(c.reqs) outside c.once;
   6. awaiting a promise while holding the group mutex. *)
Lemma transport_skeleton_rejects :
  transport_assumptions_hold (mkCall "connPool.sendRequest" "makechan(async,0)" HCall [] [] [] [] false "x" :: calls) accesses = false /\
  transport_assumptions_hold calls (mkAcc "connGroup" "idleConns" KWrite "conn.run" [] false "x" :: accesses) = false /\
  transport_assumptions_hold (mkCall "connPool.sendRequest" "async.resolve" HCall [] [] ["conn.roundTrip"] [] false "x" :: calls) accesses = false /\
  transport_assumptions_hold (mkCall "connGroup.releaseConn" "conn.run" HGo [] [] ["makechan(chan connRequest,0)"] [] false "x" :: calls) accesses = false /\
  transport_assumptions_hold (mkCall "conn.run" "close(conn.reqs)" HCall [] [] [] [] true "x" :: calls) accesses = false /\
  transport_assumptions_hold (mkCall "connGroup.grabConn" "async.await" HCall [("connGroup.mutex", MW)] [] [] [] false "x" :: calls) accesses = false.
Proof. vm_compute. repeat split; reflexivity. Qed.
