(* Proofs/XerialPoolProofs.v — the pool model of Model/CodecPool.v only produces
   disciplined traces, and what "disciplined" buys on traces:
     - a Use / Finish of o happens in monitor status Ready, which is only entered by
       EvNew o / EvReset o and is left by EvGet o / EvPut o / EvResetFail o;
     - between two Puts of one object there is a Get of it. *)
From Coq Require Import List Arith Bool Lia.
From KV Require Import Model.CodecPool.
Import ListNotations.

(* ---------- upd ---------- *)
Lemma upd_same : forall A (f : nat -> A) i v, upd f i v i = v.
Proof. intros. unfold upd. rewrite Nat.eqb_refl. reflexivity. Qed.

Lemma upd_other : forall A (f : nat -> A) i v j, j <> i -> upd f i v j = f j.
Proof. intros. unfold upd. destruct (Nat.eqb_spec j i); congruence. Qed.

Ltac upds :=
  unfold upd in *;
  repeat match goal with
         | |- context [Nat.eqb ?a ?b] => destruct (Nat.eqb_spec a b)
         | H : context [Nat.eqb ?a ?b] |- _ => destruct (Nat.eqb_spec a b)
         end;
  subst; try congruence; try lia.

(* ---------- the monitor as a state fold ---------- *)
Fixpoint mon_state (m : oid -> ostatus) (evs : list pev) {struct evs} : option (oid -> ostatus) :=
  match evs with
  | [] => Some m
  | e :: rest => match mon_step m e with Some m' => mon_state m' rest | None => None end
  end.

Lemma mon_run_state : forall evs m,
  mon_run m evs = true <-> exists m', mon_state m evs = Some m'.
Proof.
  induction evs as [|e evs IH]; simpl; intros m.
  - split; eauto.
  - destruct (mon_step m e) as [m1|]; auto.
    split; [discriminate | intros [m' H]; discriminate].
Qed.

Lemma mon_state_app : forall e1 e2 m,
  mon_state m (e1 ++ e2) =
  match mon_state m e1 with Some m' => mon_state m' e2 | None => None end.
Proof.
  induction e1 as [|e e1 IH]; simpl; intros; auto.
  destruct (mon_step m e); auto.
Qed.

Lemma mon_run_app : forall e1 e2 m,
  mon_run m (e1 ++ e2) = true <->
  exists m', mon_state m e1 = Some m' /\ mon_run m' e2 = true.
Proof.
  induction e1 as [|e e1 IH]; simpl; intros e2 m.
  - split; [eauto | intros [m' [H1 H2]]; inversion H1; subst; auto].
  - destruct (mon_step m e) as [m1|]; auto.
    split; [discriminate | intros [m' [H _]]; discriminate].
Qed.

(* ---------- the invariant between model state and monitor state ---------- *)
Record Inv (s : pstate) (m : oid -> ostatus) : Prop := {
  inv_pool  : forall o, p_inpool s o = true -> m o = Pooled;
  inv_wrap  : forall w o, p_wrapper s w = Some o -> m o = Ready;
  inv_excl  : forall w w' o, p_wrapper s w = Some o -> p_wrapper s w' = Some o -> w = w';
  inv_fresh : forall o, p_next s <= o -> m o = Unknown;
  inv_nw    : forall w, p_nwrappers s <= w -> p_wrapper s w = None
}.

Lemma Inv_init : Inv p_init (fun _ => Unknown).
Proof. constructor; simpl; intros; try discriminate; auto. Qed.

Ltac inv_fin Ipool Iwrap Iexcl Ifresh Inw :=
  intros; upds;
  repeat match goal with
         | H : p_wrapper _ ?w = Some ?o |- _ =>
           let T := type of (Iwrap w o H) in
           lazymatch goal with | _ : T |- _ => fail | _ => pose proof (Iwrap w o H) end
         | H : p_inpool _ ?o = true |- _ =>
           let T := type of (Ipool o H) in
           lazymatch goal with | _ : T |- _ => fail | _ => pose proof (Ipool o H) end
         | H : p_next _ <= ?o |- _ =>
           let T := type of (Ifresh o H) in
           lazymatch goal with | _ : T |- _ => fail | _ => pose proof (Ifresh o H) end
         end;
  try congruence;
  try (eapply Iexcl; eassumption);
  try (apply Ifresh; lia);
  try (apply Inw; lia);
  try (exfalso;
       match goal with
       | H1 : p_wrapper _ ?a = Some ?o, H2 : p_wrapper _ ?b = Some ?o, N : ?a <> ?b |- _ =>
         apply N; eapply Iexcl; eassumption
       end);
  eauto.

Lemma p_step_inv : forall k s m a, Inv s m ->
  exists m', mon_state m (snd (p_step k s a)) = Some m' /\ Inv (fst (p_step k s a)) m'.
Proof.
  intros k s m a I. destruct I as [Ipool Iwrap Iexcl Ifresh Inw].
  destruct a as [pick fail | w | w]; cbn [p_step].
  - (* ANew *)
    assert (Hnw : p_wrapper s (p_nwrappers s) = None) by (apply Inw; lia).
    destruct (p_inpool s pick) eqn:Hp.
    + pose proof (Ipool _ Hp) as Hm.
      destruct (fail && pk_reset_fails k); cbn [fst snd mon_state mon_step].
      * rewrite Hm. cbn [ostatus_eqb]. rewrite upd_same. rewrite upd_same.
        eexists; split; [reflexivity|].
        constructor; cbn [p_inpool p_next p_wrapper p_nwrappers];
          inv_fin Ipool Iwrap Iexcl Ifresh Inw.
      * rewrite Hm. cbn [ostatus_eqb]. rewrite upd_same.
        eexists; split; [reflexivity|].
        constructor; cbn [p_inpool p_next p_wrapper p_nwrappers];
          inv_fin Ipool Iwrap Iexcl Ifresh Inw.
    + destruct (fail && pk_new_fails k); cbn [fst snd mon_state mon_step].
      * eexists; split; [reflexivity|].
        constructor; cbn [p_inpool p_next p_wrapper p_nwrappers];
          inv_fin Ipool Iwrap Iexcl Ifresh Inw.
      * assert (Hm : m (p_next s) = Unknown) by (apply Ifresh; lia).
        rewrite Hm. cbn [ostatus_eqb].
        eexists; split; [reflexivity|].
        constructor; cbn [p_inpool p_next p_wrapper p_nwrappers];
          inv_fin Ipool Iwrap Iexcl Ifresh Inw.
  - (* AUse *)
    destruct (p_wrapper s w) as [o|] eqn:Hw; cbn [fst snd mon_state mon_step].
    + rewrite (Iwrap _ _ Hw). cbn [ostatus_eqb].
      eexists; split; [reflexivity|]. constructor; auto.
    + eexists; split; [reflexivity|]. constructor; auto.
  - (* AClose *)
    destruct (p_wrapper s w) as [o|] eqn:Hw; cbn [fst snd].
    + pose proof (Iwrap _ _ Hw) as Hm.
      assert (Hev : mon_state m ((if pk_finish k then [EvFinish o] else []) ++ [EvReset o; EvPut o])
                    = Some (upd (upd m o Ready) o Pooled)).
      { destruct (pk_finish k); cbn [app mon_state mon_step];
          repeat (first [rewrite Hm | rewrite upd_same]; cbn [ostatus_eqb]); reflexivity. }
      rewrite Hev. eexists; split; [reflexivity|].
      constructor; cbn [p_inpool p_next p_wrapper p_nwrappers];
        inv_fin Ipool Iwrap Iexcl Ifresh Inw.
    + cbn [mon_state]. eexists; split; [reflexivity|]. constructor; auto.
Qed.

Lemma p_run_inv : forall k acts s m, Inv s m ->
  exists m', mon_state m (snd (p_run k s acts)) = Some m' /\ Inv (fst (p_run k s acts)) m'.
Proof.
  induction acts as [|a acts IH]; intros s m I; cbn [p_run].
  - exists m. split; auto.
  - destruct (p_step_inv k s m a I) as [m1 [H1 I1]].
    destruct (p_step k s a) as [s1 ev] eqn:Hs. cbn [fst snd] in *.
    destruct (IH s1 m1 I1) as [m2 [H2 I2]].
    destruct (p_run k s1 acts) as [s2 evs] eqn:Hr. cbn [fst snd] in *.
    exists m2. split; auto.
    rewrite mon_state_app, H1. exact H2.
Qed.

(* the model's state invariant, for citation: pooled objects and wrapper-held objects are
   disjoint, a held object is held by one wrapper only, and all objects are < p_next *)
Theorem pool_run_inv : forall (k : pkind) (acts : list pact),
  exists m, mon_state (fun _ => Unknown) (snd (p_run k p_init acts)) = Some m
            /\ Inv (fst (p_run k p_init acts)) m.
Proof. intros. apply p_run_inv. apply Inv_init. Qed.

(* main theorem *)
Theorem pool_disciplined : forall (k : pkind) (acts : list pact),
  disciplined (snd (p_run k p_init acts)) = true.
Proof.
  intros k acts. unfold disciplined. apply mon_run_state.
  destruct (pool_run_inv k acts) as [m [H _]]. eauto.
Qed.

Corollary pool_exclusive : forall k acts w w' o,
  p_wrapper (fst (p_run k p_init acts)) w = Some o ->
  p_wrapper (fst (p_run k p_init acts)) w' = Some o -> w = w'.
Proof.
  intros k acts w w' o. destruct (pool_run_inv k acts) as [m [_ I]].
  apply (inv_excl _ _ I).
Qed.

Corollary pool_held_not_pooled : forall k acts w o,
  p_wrapper (fst (p_run k p_init acts)) w = Some o ->
  p_inpool (fst (p_run k p_init acts)) o = false.
Proof.
  intros k acts w o H. destruct (pool_run_inv k acts) as [m [_ I]].
  destruct (p_inpool (fst (p_run k p_init acts)) o) eqn:Hp; auto.
  pose proof (inv_pool _ _ I _ Hp). pose proof (inv_wrap _ _ I _ _ H). congruence.
Qed.

(* ---------- (a) Use / Finish only in status Ready ---------- *)
Lemma mon_run_use_ready : forall m pre o post,
  mon_run m (pre ++ EvUse o :: post) = true ->
  exists m', mon_state m pre = Some m' /\ m' o = Ready.
Proof.
  intros m pre o post H. apply mon_run_app in H. destruct H as [m' [H1 H2]].
  exists m'. split; auto. cbn [mon_run mon_step] in H2.
  destruct (m' o); cbn [ostatus_eqb] in H2; try discriminate; auto.
Qed.

Lemma mon_run_finish_ready : forall m pre o post,
  mon_run m (pre ++ EvFinish o :: post) = true ->
  exists m', mon_state m pre = Some m' /\ m' o = Ready.
Proof.
  intros m pre o post H. apply mon_run_app in H. destruct H as [m' [H1 H2]].
  exists m'. split; auto. cbn [mon_run mon_step] in H2.
  destruct (m' o); cbn [ostatus_eqb] in H2; try discriminate; auto.
Qed.

(* events that take o out of Ready *)
Definition unreadies (o : oid) (e : pev) : Prop :=
  e = EvGet o \/ e = EvPut o \/ e = EvResetFail o.

(* Ready is entered only by EvNew / EvReset, and any of Get / Put / ResetFail leaves it *)
Lemma mon_step_ready : forall m e m' o,
  mon_step m e = Some m' -> m' o = Ready ->
  (e = EvNew o \/ e = EvReset o) \/ (m o = Ready /\ ~ unreadies o e).
Proof.
  intros m e m' o Hs Hr. unfold unreadies.
  destruct e as [x| |x| |x|x|x|x|x| ]; cbn [mon_step] in Hs;
    match type of Hs with
    | context [if ?c then _ else _] => destruct c; [|discriminate Hs]
    | context [match m ?y with _ => _ end] => destruct (m y); try discriminate Hs
    | _ => idtac
    end;
    inversion Hs; subst;
    try (destruct (Nat.eq_dec x o) as [->|N];
         [rewrite upd_same in Hr | rewrite upd_other in Hr by auto]);
    try discriminate Hr;
    first [ left; solve [auto]
          | right; split; [ solve [auto] | intros [?|[?|?]]; congruence ] ].
Qed.

Lemma mon_state_ready : forall evs m m' o,
  mon_state m evs = Some m' -> m' o = Ready ->
  (m o = Ready /\ forall e, In e evs -> ~ unreadies o e)
  \/ exists p1 e p2, evs = p1 ++ e :: p2 /\ (e = EvNew o \/ e = EvReset o)
                     /\ forall e', In e' p2 -> ~ unreadies o e'.
Proof.
  induction evs as [|e evs IH]; intros m m' o Hs Hr; cbn [mon_state] in Hs.
  - inversion Hs; subst. left. split; [auto | intros e []].
  - destruct (mon_step m e) as [m1|] eqn:H1; [|discriminate].
    destruct (IH _ _ _ Hs Hr) as [[Hr1 Hno] | [p1 [e0 [p2 [Heq [He0 Hno]]]]]].
    + destruct (mon_step_ready _ _ _ _ H1 Hr1) as [He | [Hm Hne]].
      * right. exists [], e, evs. split; auto.
      * left. split; auto. intros e' [<-|Hin]; auto.
    + right. exists (e :: p1), e0, p2. subst evs. split; auto.
Qed.

(* (a): in a trace accepted from the all-Unknown monitor, a Use of o is preceded by a
   successful Reset (or the construction) of o with no Get / Put / failed Reset of o in between *)
Theorem disciplined_use_after_reset : forall pre o post,
  disciplined (pre ++ EvUse o :: post) = true ->
  exists p1 e p2, pre = p1 ++ e :: p2 /\ (e = EvNew o \/ e = EvReset o)
                  /\ forall e', In e' p2 -> e' <> EvGet o /\ e' <> EvPut o /\ e' <> EvResetFail o.
Proof.
  intros pre o post H. unfold disciplined in H.
  destruct (mon_run_use_ready _ _ _ _ H) as [m' [Hs Hr]].
  destruct (mon_state_ready _ _ _ _ Hs Hr) as [[Hu _] | [p1 [e [p2 [Heq [He Hno]]]]]];
    [discriminate|].
  exists p1, e, p2. split; auto. split; auto.
  intros e' Hin. pose proof (Hno _ Hin) as Hn. unfold unreadies in Hn.
  repeat split; intro; apply Hn; auto.
Qed.

Theorem disciplined_finish_after_reset : forall pre o post,
  disciplined (pre ++ EvFinish o :: post) = true ->
  exists p1 e p2, pre = p1 ++ e :: p2 /\ (e = EvNew o \/ e = EvReset o)
                  /\ forall e', In e' p2 -> e' <> EvGet o /\ e' <> EvPut o /\ e' <> EvResetFail o.
Proof.
  intros pre o post H. unfold disciplined in H.
  destruct (mon_run_finish_ready _ _ _ _ H) as [m' [Hs Hr]].
  destruct (mon_state_ready _ _ _ _ Hs Hr) as [[Hu _] | [p1 [e [p2 [Heq [He Hno]]]]]];
    [discriminate|].
  exists p1, e, p2. split; auto. split; auto.
  intros e' Hin. pose proof (Hno _ Hin) as Hn. unfold unreadies in Hn.
  repeat split; intro; apply Hn; auto.
Qed.

(* ---------- (b) released at most once ---------- *)
Lemma mon_step_pooled : forall m e m' o,
  mon_step m e = Some m' -> m o = Pooled -> m' o = Pooled \/ e = EvGet o.
Proof.
  intros m e m' o Hs Hp.
  destruct e as [x| |x| |x|x|x|x|x| ]; cbn [mon_step] in Hs;
    try (inversion Hs; subst; auto; fail).
  - destruct (ostatus_eqb (m x) Pooled); inversion Hs; subst. upds; auto.
  - destruct (ostatus_eqb (m x) Unknown) eqn:E; inversion Hs; subst. upds; auto.
    rewrite Hp in E. discriminate.
  - destruct (m x) eqn:E; inversion Hs; subst; upds; auto.
  - destruct (m x) eqn:E; inversion Hs; subst; upds; auto.
  - destruct (ostatus_eqb (m x) Ready); inversion Hs; subst; auto.
  - destruct (ostatus_eqb (m x) Ready); inversion Hs; subst; auto.
  - destruct (m x) eqn:E; inversion Hs; subst; upds; auto.
Qed.

Lemma mon_state_pooled : forall evs m m' o,
  mon_state m evs = Some m' -> m o = Pooled -> m' o = Pooled \/ In (EvGet o) evs.
Proof.
  induction evs as [|e evs IH]; intros m m' o Hs Hp; cbn [mon_state] in Hs.
  - inversion Hs; subst; auto.
  - destruct (mon_step m e) as [m1|] eqn:H1; [|discriminate].
    destruct (mon_step_pooled _ _ _ _ H1 Hp) as [Hp1 | ->].
    + destruct (IH _ _ _ Hs Hp1); auto. right; right; auto.
    + right; left; auto.
Qed.

Lemma mon_run_no_double_put : forall m pre o mid post,
  mon_run m (pre ++ EvPut o :: mid ++ EvPut o :: post) = true -> In (EvGet o) mid.
Proof.
  intros m pre o mid post H.
  apply mon_run_app in H. destruct H as [m0 [_ H]].
  cbn [mon_run] in H.
  destruct (mon_step m0 (EvPut o)) as [m1|] eqn:H1; [|discriminate].
  assert (Hp : m1 o = Pooled).
  { cbn [mon_step] in H1. destruct (m0 o); inversion H1; subst; apply upd_same. }
  apply mon_run_app in H. destruct H as [m2 [H2 H3]].
  destruct (mon_state_pooled _ _ _ _ H2 Hp) as [Hp2 | Hin]; auto.
  cbn [mon_run mon_step] in H3. rewrite Hp2 in H3. discriminate.
Qed.

Theorem disciplined_no_double_put : forall pre o mid post,
  disciplined (pre ++ EvPut o :: mid ++ EvPut o :: post) = true -> In (EvGet o) mid.
Proof. intros pre o mid post. unfold disciplined. apply mon_run_no_double_put. Qed.

(* ---------- (a), (b) on the model's own traces ---------- *)
Corollary pool_use_after_reset : forall k acts pre o post,
  snd (p_run k p_init acts) = pre ++ EvUse o :: post ->
  exists p1 e p2, pre = p1 ++ e :: p2 /\ (e = EvNew o \/ e = EvReset o)
                  /\ forall e', In e' p2 -> e' <> EvGet o /\ e' <> EvPut o /\ e' <> EvResetFail o.
Proof.
  intros k acts pre o post H. apply (disciplined_use_after_reset pre o post).
  rewrite <- H. apply pool_disciplined.
Qed.

Corollary pool_finish_after_reset : forall k acts pre o post,
  snd (p_run k p_init acts) = pre ++ EvFinish o :: post ->
  exists p1 e p2, pre = p1 ++ e :: p2 /\ (e = EvNew o \/ e = EvReset o)
                  /\ forall e', In e' p2 -> e' <> EvGet o /\ e' <> EvPut o /\ e' <> EvResetFail o.
Proof.
  intros k acts pre o post H. apply (disciplined_finish_after_reset pre o post).
  rewrite <- H. apply pool_disciplined.
Qed.

Corollary pool_no_double_put : forall k acts pre o mid post,
  snd (p_run k p_init acts) = pre ++ EvPut o :: mid ++ EvPut o :: post ->
  In (EvGet o) mid.
Proof.
  intros k acts pre o mid post H. apply (disciplined_no_double_put pre o mid post).
  rewrite <- H. apply pool_disciplined.
Qed.
