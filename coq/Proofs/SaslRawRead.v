(* Proofs/SaslRawRead.v — the raw (handshake v0) response read of Model/Sasl.v: allocation
   bound of the Transport path's read, what the Conn path allocates, and how a failed read
   ends the connection set-up. *)
From Coq Require Import List ZArith NArith Bool Lia.
From Coq Require Import ZifyN ZifyNat ZifyBool.
From KV Require Import Model.Sasl Proofs.SaslProofs.
Import ListNotations.
Open Scope Z_scope.

Section Grow.
  Variable grow : N -> N.
  (* runtime.growslice: at least 1.25 x the old capacity, at most 2 x (cap >= 256) *)
  Hypothesis grow_lo : forall c, (512 <= c -> 5 * c <= 4 * grow c)%N.
  Hypothesis grow_hi : forall c, (512 <= c -> grow c <= 2 * c)%N.

  Lemma readall_inv : forall l len cap total,
    (512 <= cap)%N -> (len < cap)%N -> (total <= 5 * cap)%N ->
    (cap <= 512 \/ cap <= 2 * len)%N ->
    let r := readall grow l len cap total in
    (512 <= fst r /\ snd r <= 5 * fst r /\
     (fst r <= 512 \/ fst r <= 2 * (len + N.of_nat (length l))))%N.
  Proof.
    induction l as [|b t IH]; intros len cap total C L T K; cbn [readall length].
    - cbn [fst snd]. lia.
    - cbv zeta. destruct (N.eqb_spec (len + 1) cap) as [E|E].
      + pose proof (grow_lo cap C). pose proof (grow_hi cap C).
        specialize (IH (len + 1)%N (grow cap) (total + grow cap)%N).
        cbv zeta in IH. destruct IH as (A & B & D); try lia.
      + specialize (IH (len + 1)%N cap total).
        cbv zeta in IH. destruct IH as (A & B & D); try lia.
  Qed.

  Lemma readall_bound : forall l,
    (snd (readall grow l 0 512 512) <= 10 * N.of_nat (length l) + 2560)%N.
  Proof.
    intros l. pose proof (readall_inv l 0%N 512%N 512%N) as H. cbv zeta in H.
    destruct H as (A & B & D); lia.
  Qed.

  Lemma transport_raw_read_bounded : forall announced avail e,
    let r := transport_raw_read grow announced avail e in
    (rr_alloc r <= 10 * rr_received r + 2560)%N /\
    (rr_received r <= N.of_nat (length avail))%N /\
    (0 <= announced -> Z.of_N (rr_received r) <= announced).
  Proof.
    intros announced avail e. unfold transport_raw_read.
    destruct (announced <? 0) eqn:Neg; cbv zeta.
    - cbn [rr_alloc rr_received]. lia.
    - destruct (announced <=? Z.of_nat (length avail)) eqn:Cmp.
      + cbn [rr_alloc rr_received]. pose proof (readall_bound (firstn (Z.to_nat announced) avail)).
        pose proof (firstn_le_length (Z.to_nat announced) avail).
        assert (length (firstn (Z.to_nat announced) avail) = Z.to_nat announced)
          by (apply firstn_length_le; lia).
        lia.
      + pose proof (readall_bound avail).
        destruct e; cbn [rr_alloc rr_received]; lia.
  Qed.
End Grow.

Lemma go_grow_lo : forall c, (512 <= c -> 5 * c <= 4 * go_grow c)%N.
Proof. intros c H. unfold go_grow. pose proof (N.div_mod' (c + 768) 4). pose proof (N.mod_lt (c + 768) 4). lia. Qed.

Lemma go_grow_hi : forall c, (512 <= c -> go_grow c <= 2 * c)%N.
Proof. intros c H. unfold go_grow. pose proof (N.div_mod' (c + 768) 4). pose proof (N.mod_lt (c + 768) 4). lia. Qed.

Lemma raw_read_transport_bounded : forall announced avail e,
  let r := raw_read Transport announced avail e in
  (rr_alloc r <= 10 * rr_received r + 2560)%N /\
  (rr_received r <= N.of_nat (length avail))%N /\
  (0 <= announced -> Z.of_N (rr_received r) <= announced).
Proof.
  intros. apply (transport_raw_read_bounded go_grow go_grow_lo go_grow_hi).
Qed.

(* the Conn path allocates the announced length whatever arrives *)
Lemma conn_raw_read_alloc : forall announced avail e,
  0 < announced -> rr_alloc (raw_read Dialer announced avail e) = Z.to_N announced.
Proof.
  intros announced avail e H. unfold raw_read, conn_raw_read.
  destruct (announced <? 0) eqn:A; [lia|]. destruct (announced =? 0) eqn:B; [lia|].
  cbv zeta. destruct (announced <=? Z.of_nat (length avail)); [reflexivity|].
  destruct e; reflexivity.
Qed.

(* both paths agree on the outcome of the read *)
Lemma raw_read_outcome_same : forall grow announced avail e,
  rr_out (transport_raw_read grow announced avail e) = rr_out (conn_raw_read announced avail e).
Proof.
  intros grow announced avail e. unfold transport_raw_read, conn_raw_read.
  destruct (announced <? 0) eqn:A; [reflexivity|].
  destruct (announced =? 0) eqn:B.
  - apply Z.eqb_eq in B. subst announced. cbv zeta.
    assert (0 <=? Z.of_nat (length avail) = true) as -> by lia. reflexivity.
  - cbv zeta. destruct (announced <=? Z.of_nat (length avail)); [reflexivity|].
    destruct e; reflexivity.
Qed.

(* a read that does not produce a payload fails the dial *)
Lemma raw_read_failure_closes :
  forall mstate mstart mnext p a (s : state mstate) i ms out o,
    reachable mstate mstart mnext p a s ->
    ph s = PAuth Raw i ms out ->
    (forall payload, o <> RROk payload) ->
    exists s', step mstate mstart mnext p a s (LBroker (reaction_of_rr o)) = Some s'
      /\ ph s' = PFailed /\ tr s' = EClose :: ERecv (reaction_of_rr o) :: tr s
      /\ ~ In EHandOut (tr s') /\ ~ In EVerdict (tr s')
      /\ (forall l, step mstate mstart mnext p a s' l = None).
Proof.
  intros mstate mstart mnext p a s i ms out o R E NO.
  assert (S : step mstate mstart mnext p a s (LBroker (reaction_of_rr o))
              = Some (fail mstate s (reaction_of_rr o))).
  { unfold step. rewrite E. destruct o as [pl| | | |]; try reflexivity.
    exfalso. apply (NO pl). reflexivity. }
  exists (fail mstate s (reaction_of_rr o)). split; [exact S|].
  apply (failure_closes mstate mstart mnext p a s _ _ R S).
  destruct o as [pl| | | |]; cbn; try exact I. exfalso. apply (NO pl). reflexivity.
Qed.

(* ------------------------------------------------------------------ *)
(* refusal is the error code alone *)
Lemma refusal_ignores_message : forall code m1 m2 payload,
  refused (mkResp code m1 payload) = refused (mkResp code m2 payload) /\
  reaction_of_response (mkResp code m1 payload) = reaction_of_response (mkResp code m2 payload) /\
  (forall step, fault_of_response step (mkResp code m1 payload) = fault_of_response step (mkResp code m2 payload)).
Proof. intros. repeat split. Qed.

Lemma refused_response_fails :
  forall mstate mstart mnext p a (s s' : state mstate) r,
    reachable mstate mstart mnext p a s ->
    refused r = true ->
    step mstate mstart mnext p a s (LBroker (reaction_of_response r)) = Some s' ->
    ph s' = PFailed /\ tr s' = EClose :: ERecv (RErr (error_code r)) :: tr s
    /\ ~ In EHandOut (tr s') /\ ~ In EVerdict (tr s')
    /\ (forall l, step mstate mstart mnext p a s' l = None).
Proof.
  intros mstate mstart mnext p a s s' r R F S.
  unfold reaction_of_response in S. rewrite F in S.
  apply (failure_closes mstate mstart mnext p a s s' _ R S).
  cbn. unfold refused in F. apply negb_true_iff in F. apply Z.eqb_neq in F. exact F.
Qed.
