(* Proofs/ReaderV1.v — C02, L1, stage 2: v0 / v1 (uncompressed) messages as the specification
   encodes them are decoded by the model's readNextHeader / readMessageV1; on every proper
   prefix they report errShortRead. *)
From Coq Require Import List NArith ZArith Bool Lia.
From Coq Require Import ZifyN ZifyNat ZifyBool.
From KV Require Import Lib.Bits Lib.Bytes Lib.Varint Model.MsgSetReader Model.ReaderModel Spec.FetchSpec
  Proofs.ReaderPrim Proofs.ReaderV2.
Import ListNotations.
Open Scope Z_scope.

(* ---------------------------------------------------------------- int32-length-prefixed bytes *)
Lemma i32_len z : len (i32 z) = 4.
Proof. unfold i32. apply put_bes_len. Qed.

Lemma pspec_bytes32 o : blen (opt_bytes o) < 2 ^ 30 -> pspec p_bytes32 (b32 o) (opt_bytes o).
Proof.
  intros Hl rest. unfold p_bytes32, b32. destruct o as [b|]; cbn [opt_bytes] in *.
  - rewrite <- app_assoc.
    rewrite (pspec_int 4 (blen b)) by (try lia; apply sg4; unfold blen in *; lia).
    unfold ex at 1. cbn [snd]. rewrite len_app. pose proof (len_nonneg rest).
    replace (len b + len rest <? blen b) with false by (unfold blen, len in *; lia).
    change (blen b) with (len b). apply pspec_newbytes.
  - rewrite (pspec_int 4 (-1)) by (try lia; apply sg4; lia).
    unfold ex at 1. cbn [snd]. pose proof (len_nonneg rest).
    replace (len rest <? -1) with false by lia. apply (pspec_newbytes_null (-1)). lia.
Qed.

Lemma pshort_bytes32 o : blen (opt_bytes o) < 2 ^ 30 -> pshort p_bytes32 (b32 o).
Proof.
  intros Hl q q' He Hq. unfold b32 in He. unfold p_bytes32.
  destruct o as [b|]; cbn [opt_bytes] in *.
  - destruct (prefix_split _ _ _ _ He) as [(r & H1 & H2 & H3)|(q2 & H1 & H2)].
    + destruct (pshort_int 4 (i32 (blen b)) (i32_len _) q r H1 H2) as [i' Hi']. rewrite Hi'. exists i'. reflexivity.
    + subst q. rewrite (pspec_int 4 (blen b)) by (try lia; apply sg4; unfold blen in *; lia).
      unfold ex at 1. cbn [snd]. pose proof (len_pos q' Hq).
      replace (len q2 <? blen b) with true
        by (rewrite H2; unfold blen, len in *; rewrite app_length; lia).
      exists q2. reflexivity.
  - rewrite <- (app_nil_r (i32 (-1))) in He.
    destruct (prefix_split _ _ _ _ He) as [(r & H1 & H2 & H3)|(q2 & H1 & H2)].
    + destruct (pshort_int 4 (i32 (-1)) (i32_len _) q r H1 H2) as [i' Hi']. rewrite Hi'. exists i'. reflexivity.
    + destruct q2; destruct q'; try discriminate H2. contradiction.
Qed.

Lemma pspec_discard32 o : blen (opt_bytes o) < 2 ^ 30 -> pspec p_discard_bytes32 (b32 o) tt.
Proof.
  intros Hl rest. unfold p_discard_bytes32, b32. destruct o as [b|]; cbn [opt_bytes] in *.
  - rewrite <- app_assoc.
    rewrite (pspec_int 4 (blen b)) by (try lia; apply sg4; unfold blen in *; lia).
    unfold ex at 1. cbn [snd]. rewrite len_app. pose proof (len_nonneg rest). pose proof (len_nonneg b).
    replace (len b + len rest <? blen b) with false by (unfold blen, len in *; lia).
    replace (blen b <? 0) with false by (unfold blen, len in *; lia).
    unfold p_discard, ex. rewrite len_app. change (blen b) with (len b).
    replace (len b <=? len b + len rest) with true by lia.
    replace (len b <? 0) with false by lia.
    replace (len b + len rest <? len b) with false by lia.
    rewrite zdrop_app. f_equal. f_equal. lia.
  - rewrite (pspec_int 4 (-1)) by (try lia; apply sg4; lia).
    unfold ex at 1. cbn [snd]. pose proof (len_nonneg rest).
    replace (len rest <? -1) with false by lia. reflexivity.
Qed.

Lemma pshort_discard32 o : blen (opt_bytes o) < 2 ^ 30 -> pshort p_discard_bytes32 (b32 o).
Proof.
  intros Hl q q' He Hq. unfold b32 in He. unfold p_discard_bytes32.
  destruct o as [b|]; cbn [opt_bytes] in *.
  - destruct (prefix_split _ _ _ _ He) as [(r & H1 & H2 & H3)|(q2 & H1 & H2)].
    + destruct (pshort_int 4 (i32 (blen b)) (i32_len _) q r H1 H2) as [i' Hi']. rewrite Hi'. exists i'. reflexivity.
    + subst q. rewrite (pspec_int 4 (blen b)) by (try lia; apply sg4; unfold blen in *; lia).
      unfold ex at 1. cbn [snd]. pose proof (len_pos q' Hq).
      replace (len q2 <? blen b) with true
        by (rewrite H2; unfold blen, len in *; rewrite app_length; lia).
      exists q2. reflexivity.
  - rewrite <- (app_nil_r (i32 (-1))) in He.
    destruct (prefix_split _ _ _ _ He) as [(r & H1 & H2 & H3)|(q2 & H1 & H2)].
    + destruct (pshort_int 4 (i32 (-1)) (i32_len _) q r H1 H2) as [i' Hi']. rewrite Hi'. exists i'. reflexivity.
    + destruct q2; destruct q'; try discriminate H2. contradiction.
Qed.

(* ---------------------------------------------------------------- the message header *)
Definition msize (fmt : Z) (r : record) : Z :=
  blen (i32 0 ++ i8 fmt ++ i8 0 ++ (if fmt =? 1 then i64 (r_ts r) else []) ++ b32 (r_key r) ++ b32 (r_val r)).

Definition mh (fmt : Z) (r : record) : list N :=
  i64 (r_off r) ++ i32 (msize fmt r) ++ i32 0 ++ i8 fmt ++ i8 0 ++ (if fmt =? 1 then i64 (r_ts r) ++ [] else []).
Definition mb (r : record) : list N := b32 (r_key r) ++ b32 (r_val r) ++ [].

Definition mhdr (fmt : Z) (r : record) : hdr :=
  mkHdr (r_off r) (msize fmt r) fmt 0 (if fmt =? 1 then r_ts r else 0) 0 0.

Lemma enc_message_eq fmt r :
  enc_message fmt 0 (r_off r) (r_ts r) (r_key r) (r_val r) = mh fmt r ++ mb r.
Proof.
  unfold enc_message, mh, mb, msize. cbv zeta. destruct (fmt =? 1); rewrite <- ?app_assoc, ?app_nil_r; reflexivity.
Qed.

Definition msg_fits (fmt : Z) (r : record) : Prop :=
  (fmt = 0 \/ fmt = 1) /\ small (r_off r) /\ small (r_ts r)
  /\ blen (opt_bytes (r_key r)) < 2 ^ 29 /\ blen (opt_bytes (r_val r)) < 2 ^ 29
  /\ (fmt = 0 -> r_ts r = 0) /\ r_hdrs r = [].

Lemma b32_len o : len (b32 o) = 4 + (match o with Some b => len b | None => 0 end).
Proof. unfold b32. destruct o; [rewrite len_app|]; rewrite i32_len; lia. Qed.

Lemma msize_bound fmt r : msg_fits fmt r -> 0 <= msize fmt r < 2 ^ 31.
Proof.
  intros (Hf & _ & _ & Hk & Hv & _). unfold msize, blen.
  change (Z.of_nat (length ?l)) with (len l). rewrite !len_app, !b32_len.
  unfold i32, i8, i64. rewrite !put_bes_len.
  assert (len (if fmt =? 1 then put_bes 8 (r_ts r) else []) <= 8)
    by (destruct (fmt =? 1); [rewrite put_bes_len; lia|unfold len; cbn; lia]).
  pose proof (len_nonneg (if fmt =? 1 then put_bes 8 (r_ts r) else [])).
  unfold blen in *. destruct (r_key r), (r_val r); cbn [opt_bytes] in *; unfold len in *; cbn [length] in *; lia.
Qed.

Lemma mheader_ok fmt r rest c h lr el :
  msg_fits fmt r ->
  read_next_header (st (mh fmt r ++ rest) c h lr el) = MOk tt (st rest 1 (mhdr fmt r) 1 el).
Proof.
  intros Hf. pose proof (msize_bound fmt r Hf) as Hs. destruct Hf as (Hfmt & Ho & Ht & _).
  unfold read_next_header, mh. rewrite <- !app_assoc.
  rewrite (step_st _ _ (i64 (r_off r)) (r_off r)) by int_spec.
  rewrite (step_st _ _ (i32 (msize fmt r)) (msize fmt r)) by int_spec.
  rewrite (step_st _ _ (i32 0) 0) by int_spec.
  destruct Hfmt as [-> | ->].
  - rewrite (step_st _ _ (i8 0) 0) by int_spec. cbn [Z.eqb Pos.eqb].
    rewrite (step_st _ _ (i8 0) 0) by int_spec. cbn [app].
    reflexivity.
  - rewrite (step_st _ _ (i8 1) 1) by int_spec. cbn [Z.eqb Pos.eqb].
    rewrite (step_st _ _ (i8 0) 0) by int_spec. rewrite <- app_assoc.
    rewrite (step_st _ _ (i64 (r_ts r)) (r_ts r)) by int_spec. cbn [app].
    reflexivity.
Qed.

Lemma mh_len fmt r : (fmt = 0 \/ fmt = 1) -> len (mh fmt r) = if fmt =? 1 then 26 else 18.
Proof.
  intros [-> | ->]; unfold mh; cbn [Z.eqb Pos.eqb]; rewrite !len_app; unfold i64, i32, i8; rewrite !put_bes_len; reflexivity.
Qed.

Lemma mheader_short fmt r q q' c h lr el :
  msg_fits fmt r -> mh fmt r = q ++ q' -> q' <> [] ->
  exists i', read_next_header (st q c h lr el) = MErr EShort (st i' c h lr el).
Proof.
  intros Hf He Hq. pose proof (msize_bound fmt r Hf) as Hs. destruct Hf as (Hfmt & Ho & Ht & _).
  eapply (mshort_st read_next_header (mh fmt r)); [|exact He|exact Hq].
  unfold read_next_header, mh.
  apply mshort_bind with (v1 := r_off r); [int_spec|int_short|].
  apply mshort_bind with (v1 := msize fmt r); [int_spec|int_short|].
  apply mshort_bind with (v1 := 0); [int_spec|int_short|].
  destruct Hfmt as [-> | ->].
  - apply mshort_bind with (v1 := 0); [int_spec|int_short|]. cbn [Z.eqb Pos.eqb].
    apply mshort_bind with (v1 := 0); [int_spec|int_short|]. apply mshort_nil.
  - apply mshort_bind with (v1 := 1); [int_spec|int_short|]. cbn [Z.eqb Pos.eqb].
    apply mshort_bind with (v1 := 0); [int_spec|int_short|].
    apply mshort_bind with (v1 := r_ts r); [int_spec|int_short|]. apply mshort_nil.
Qed.

(* ---------------------------------------------------------------- key and value *)
Definition rd_kv : M (list N * list N) := k <- lift p_bytes32 ;; v <- lift p_bytes32 ;; ret (k, v).
Definition rd_skip : M unit := lift p_discard_bytes32 ;;; lift p_discard_bytes32 ;;; ret tt.

Lemma fits29 o : blen (opt_bytes o) < 2 ^ 29 -> blen (opt_bytes o) < 2 ^ 30.
Proof. lia. Qed.

Lemma mspec_kv fmt r : msg_fits fmt r -> mspec rd_kv (mb r) (opt_bytes (r_key r), opt_bytes (r_val r)).
Proof.
  intros (_ & _ & _ & Hk & Hv & _). unfold rd_kv, mb.
  apply mspec_bind with (v1 := opt_bytes (r_key r)); [apply mspec_lift, pspec_bytes32, fits29, Hk|].
  apply mspec_bind with (v1 := opt_bytes (r_val r)); [apply mspec_lift, pspec_bytes32, fits29, Hv|].
  apply mspec_ret.
Qed.
Lemma mshort_kv fmt r : msg_fits fmt r -> mshort rd_kv (mb r).
Proof.
  intros (_ & _ & _ & Hk & Hv & _). unfold rd_kv, mb.
  apply mshort_bind with (v1 := opt_bytes (r_key r));
    [apply mspec_lift, pspec_bytes32, fits29, Hk|apply mshort_lift, pshort_bytes32, fits29, Hk|].
  apply mshort_bind with (v1 := opt_bytes (r_val r));
    [apply mspec_lift, pspec_bytes32, fits29, Hv|apply mshort_lift, pshort_bytes32, fits29, Hv|].
  apply mshort_nil.
Qed.
Lemma mspec_skip fmt r : msg_fits fmt r -> mspec rd_skip (mb r) tt.
Proof.
  intros (_ & _ & _ & Hk & Hv & _). unfold rd_skip, mb.
  apply mspec_bind with (v1 := tt); [apply mspec_lift, pspec_discard32, fits29, Hk|].
  apply mspec_bind with (v1 := tt); [apply mspec_lift, pspec_discard32, fits29, Hv|].
  apply mspec_ret.
Qed.
Lemma mshort_skip fmt r : msg_fits fmt r -> mshort rd_skip (mb r).
Proof.
  intros (_ & _ & _ & Hk & Hv & _). unfold rd_skip, mb.
  apply mshort_bind with (v1 := tt);
    [apply mspec_lift, pspec_discard32, fits29, Hk|apply mshort_lift, pshort_discard32, fits29, Hk|].
  apply mshort_bind with (v1 := tt);
    [apply mspec_lift, pspec_discard32, fits29, Hv|apply mshort_lift, pshort_discard32, fits29, Hv|].
  apply mshort_nil.
Qed.

Lemma mb_len_pos r : 8 <= len (mb r).
Proof.
  unfold mb. rewrite !len_app, !b32_len. change (len []) with 0.
  destruct (r_key r), (r_val r); unfold len; lia.
Qed.
