(* Proofs/ReaderWrapFinal.v — C02, L1: the fetch contract for responses whose v0 / v1 part may
   hold compressed wrapper messages (alone, or followed by v2 batches), for every fetch offset
   inside the v0/v1 part and every legal cut. *)
From Coq Require Import List NArith ZArith Bool Lia.
From Coq Require Import ZifyN ZifyNat ZifyBool.
From KV Require Import Lib.Bits Lib.Bytes Model.MsgSetReader Model.ReaderModel Spec.FetchSpec
  Proofs.ReaderPrim Proofs.ReaderV2 Proofs.ReaderV1 Proofs.ReaderV1Run Proofs.ReaderV1Final
  Proofs.ReaderV2Run Proofs.ReaderV2Sound Proofs.ReaderV2Final Proofs.ReaderMixedFinal Proofs.ReaderProofs
  Proofs.ReaderWrap Proofs.ReaderWrapInner Proofs.ReaderWrapRun.
Import ListNotations.
Open Scope Z_scope.

Section WFinal.
Variable compress : Z -> list N -> list N.
Variable decomp : Z -> list N -> option (list N).
Hypothesis decomp_law : forall c x, decomp c (compress c x) = Some x.

(* ---------------------------------------------------------------- a v0 / v1 batch of the layout *)
Definition rel_of (b : pbatch) : Z := if pb_fmt b =? 1 then pb_base b else 0.
Definition inner_bytes (b : pbatch) : list N := stream (map (wire (rel_of b)) (items_of b)).
Definition wo_of (b : pbatch) : Z := last_off (pb_recs b) (pb_base b).
Definition wsize_of (b : pbatch) : Z :=
  blen (i32 0 ++ i8 (pb_fmt b) ++ i8 (pb_codec b) ++ (if pb_fmt b =? 1 then i64 (pb_ts b) else [])
        ++ b32 None ++ b32 (Some (compress (pb_codec b) (inner_bytes b)))).

(* a v0 / v1 batch, its messages plain or inside a compressed wrapper *)
Definition lgc_ok (b : pbatch) : Prop :=
  (pb_fmt b = 0 \/ pb_fmt b = 1) /\ Forall (msg_fits (pb_fmt b)) (pb_recs b)
  /\ (pb_codec b = 0 \/ (1 <= pb_codec b <= 4 /\ len (compress (pb_codec b) (inner_bytes b)) < 2 ^ 30)).

Lemma lgc_plain b : lgc_ok b -> pb_codec b = 0 -> legacy_ok b.
Proof. intros (H1 & H2 & _) Hc. split; [exact H1|]. split; assumption. Qed.

Lemma inner_stream b :
  flat_map (fun r => enc_message (pb_fmt b) 0 (r_off r - rel_of b) (r_ts r) (r_key r) (r_val r)) (pb_recs b)
  = inner_bytes b.
Proof.
  unfold inner_bytes, items_of, stream. induction (pb_recs b) as [|r t IH]; [reflexivity|].
  cbn [flat_map map]. rewrite IH. f_equal. unfold enc_item. cbn [fst snd wire].
  apply (enc_message_eq (pb_fmt b) (shiftr (rel_of b) r)).
Qed.

Lemma enc_wrapped b : lgc_ok b -> pb_codec b <> 0 ->
  enc_batch compress b
  = wenc compress (pb_fmt b) (pb_codec b) (wo_of b) (pb_ts b) (wsize_of b) (rel_of b) (items_of b).
Proof.
  intros (Hf & _) Hc. unfold enc_batch, enc_legacy. replace (pb_fmt b =? 2) with false by lia.
  replace (pb_codec b =? 0) with false by lia. cbv zeta.
  assert (Hrel : (if pb_fmt b =? 1 then pb_base b else 0) = rel_of b) by reflexivity. rewrite Hrel, inner_stream.
  unfold enc_message, wenc, wh, wtail, wsize_of, wo_of. cbv zeta. fold (inner_bytes b). unfold b32.
  destruct (pb_fmt b =? 1); rewrite <- ?app_assoc, ?app_nil_r; reflexivity.
Qed.

Lemma last_off_shift d : forall rs e, rs <> [] -> last_off (map (shiftr d) rs) e = last_off rs e - d.
Proof.
  induction rs as [|x t IH]; intros e H; [contradiction|]. cbn [map last_off].
  destruct t as [|y t']; [reflexivity|]. rewrite IH by discriminate. reflexivity.
Qed.

Lemma last_off_nonempty : forall rs d e, rs <> [] -> last_off rs d = last_off rs e.
Proof. intros [|x t] d e H; [contradiction|reflexivity]. Qed.

Lemma wrap_ok_of b : lgc_ok b -> pbatch_ok b -> pb_codec b <> 0 ->
  wrap_ok compress (pb_fmt b) (pb_codec b) (wo_of b) (pb_ts b) (wsize_of b) (rel_of b) (items_of b).
Proof.
  intros (Hf & Hm & Hc) (_ & _ & Hbase & Hlod & Hts & Hrng & Hne & _) Hc0.
  destruct Hc as [Hc|[Hc Hlen]]; [contradiction|]. specialize (Hne ltac:(lia)).
  assert (Hrel : small (rel_of b)) by (unfold rel_of; destruct (pb_fmt b =? 1); [exact Hbase|unfold small; lia]).
  assert (Hwo : exists r, In r (pb_recs b) /\ r_off r = wo_of b) by (apply last_off_in; exact Hne).
  assert (Hrelle : forall r, In r (pb_recs b) -> rel_of b <= r_off r).
  { intros r Hr. pose proof (proj1 (Forall_forall _ _) Hrng r Hr) as [[H1 _] _].
    pose proof (proj1 (Forall_forall _ _) Hm r Hr) as (_ & Hs & _). unfold small in *.
    unfold rel_of. destruct (pb_fmt b =? 1); lia. }
  split; [|split; [|split; [|split]]].
  - split; [exact Hf|]. split; [exact Hc|]. split.
    + destruct Hwo as (r & Hr & <-). apply (proj1 (Forall_forall _ _) Hm r Hr).
    + split; [exact Hts|]. unfold wsize_of. rewrite blen_len, !len_app. unfold b32. rewrite len_app.
      unfold i32, i8, i64. rewrite !put_bes_len. pose proof (len_nonneg (compress (pb_codec b) (inner_bytes b))).
      fold (inner_bytes b) in Hlen.
      destruct (pb_fmt b =? 1); rewrite ?put_bes_len; change (len []) with 0; rewrite ?blen_len; lia.
  - unfold items_of. apply Forall_forall. intros it Hit. apply in_map_iff in Hit as (r & <- & Hr).
    pose proof (proj1 (Forall_forall _ _) Hm r Hr) as (F1 & F2 & F3 & F4 & F5 & F6 & F7).
    split; [|exact F2]. unfold item_ok, msg_fits. cbn [fst snd wire shiftr r_off r_ts r_key r_val r_hdrs].
    specialize (Hrelle r Hr). unfold small in *. repeat split; try assumption; lia.
  - unfold items_of. destruct (pb_recs b); [contradiction|discriminate].
  - exact Hlen.
  - assert (Hrecs : recs_of (map (wire (rel_of b)) (items_of b)) = map (shiftr (rel_of b)) (pb_recs b)).
    { unfold recs_of, items_of. rewrite !map_map. reflexivity. }
    rewrite Hrecs, last_off_shift by exact Hne. unfold wo_of.
    rewrite (last_off_nonempty (pb_recs b) 0 (pb_base b) Hne).
    replace (last_off (pb_recs b) (pb_base b) - (last_off (pb_recs b) (pb_base b) - rel_of b)) with (rel_of b) by lia.
    apply wrap64_small. unfold small in Hrel. lia.
Qed.


(* ---------------------------------------------------------------- the run over a part of the response *)
Variable o : Z.

(* the run from B over the records [recs], what follows them being [tl] / [tlr]: either it
   stops inside (the response is cut), or it goes on at the boundary in front of [tl] *)
Definition Res (ne : bool) (fuel : nat) (B : batch) (acc : list msg) (recs : list record)
           (tl : list N) (tlr : list record) (off : Z) (cnt : nat) : Prop :=
  (exists ms x, batch_run decomp fuel B acc = Some (ms, EEOF, x) /\ (ne = true -> ms <> []) /\
     exists Rp Rs, recs = Rp ++ Rs /\ ms = rev acc ++ mm (filter (fun r => o <=? r_off r) Rp)
       /\ Forall (fun r => r_off r < x) Rp
       /\ (forall r, In r (Rs ++ tlr) -> o <= r_off r -> x <= r_off r) /\ off <= x)
  \/ (exists j' h' off' acc' f',
       batch_run decomp fuel B acc = batch_run decomp f' (LB tl o (PBnd [] j' h') off') acc'
       /\ (ne = true -> acc' <> []) /\ 0 <= j'
       /\ rev acc' = rev acc ++ mm (filter (fun r => o <=? r_off r) recs)
       /\ Forall (fun r => r_off r < off') recs /\ off <= off'
       /\ linv tlr o (PBnd [] j' h') off' /\ (3 <= f')%nat /\ (fuel <= f' + cnt)%nat).

Lemma rev_nonempty {A} (l : list A) : l <> [] -> rev l <> [].
Proof. destruct l as [|a t]; [contradiction|]. intros _ H. cbn [rev] in H. destruct (rev t); discriminate. Qed.
Lemma rev_nonempty' {A} (l : list A) : rev l <> [] -> l <> [].
Proof. intros H E. subst l. apply H. reflexivity. Qed.

(* plain messages *)
Lemma plain_res ne fuel P off acc tl tlr :
  pos_ok1 P -> linv tlr o P off -> (pcount P + 3 <= fuel)%nat ->
  (ne = true -> exists it' items' j', lstep off P = LDeliver it' items' j') ->
  Res ne fuel (LB tl o P off) acc (pend P) tl tlr off (pcount P).
Proof.
  intros Hpos HI Hf Hne.
  pose proof (run_refine_v1 decomp tl tlr o fuel P off acc Hpos HI Hf) as Href.
  pose proof (l_run_spec decomp tl tlr o fuel P off acc HI) as Hspec.
  assert (Hne0 : ne = true -> match l_run fuel P off acc with
                 | LDone ms x => ms <> [] | LGo _ _ _ acc' _ => acc' <> [] | LFail => True end).
  { intros E. destruct (Hne E) as (it' & items' & j' & El). destruct fuel as [|f0]; [lia|].
    apply (l_run_nonempty decomp tl tlr o f0 P off acc it' items' j' HI El). }
  destruct (l_run fuel P off acc) as [ms x|j h off' acc' f'|]; [| |contradiction].
  - left. exists ms, x. split; [exact Href|]. split; [exact Hne0|]. exact Hspec.
  - right. destruct Href as (Hr1 & Hf' & Hoo & Hjj & Hfb). destruct Hspec as (G1 & G2 & G3 & G4).
    exists j, h, off', acc', f'.
    split; [exact Hr1|]. split; [exact Hne0|]. split; [exact Hjj|]. split; [exact G1|]. split; [exact G2|]. split; [exact G3|].
    split; [exact G4|]. split; assumption.
Qed.

(* a wrapper, from the boundary in front of it *)
Lemma wrap_res fmt codec Wo ts size bse titems fuel j h off acc tl tlr :
  wrap_ok compress fmt codec Wo ts size bse titems -> 0 <= j ->
  linv tlr o (PBnd titems 0 hdr0) off -> (length titems + 4 <= fuel)%nat ->
  Res false fuel (LB (wenc compress fmt codec Wo ts size bse titems ++ tl) o (PBnd [] j h) off) acc
      (recs_of titems) tl tlr off (length titems).
Proof.
  intros Hw Hj HI Hf.
  assert (HI' : linv tlr o (PBnd titems (len (stream titems)) hdr0) off) by exact HI.
  pose proof (wrap_run compress decomp decomp_law tl tlr o fmt codec Wo ts size bse titems fuel j h off acc Hw Hj HI' Hf) as Hr.
  pose proof (l_run_spec decomp tl tlr o fuel (PBnd titems (len (stream titems)) hdr0) off acc HI') as Hspec.
  destruct (j <? len (wenc compress fmt codec Wo ts size bse titems)) eqn:Ej.
  - left. destruct HI as (Ho0 & Ho & _ & _ & HJ). exists (rev acc), (lfinal off). split; [exact Hr|].
    split; [discriminate|]. exists [], (recs_of titems). cbn [app filter]. unfold mm. cbn [map]. rewrite app_nil_r.
    unfold lfinal. replace (off <=? -1) with false by lia.
    split; [reflexivity|]. split; [reflexivity|]. split; [constructor|]. split; [exact HJ|lia].
  - right. destruct (l_run fuel _ off acc) as [ms x|j2 h2 off' acc' f'|]; [contradiction| |contradiction].
    destruct Hr as (Hr1 & Hf' & Hfb). destruct Hspec as (G1 & G2 & G3 & G4).
    exists (j - len (wenc compress fmt codec Wo ts size bse titems)), (whdr fmt codec Wo ts size), off', acc', f'.
    split; [exact Hr1|]. split; [discriminate|]. split; [lia|]. split; [exact G1|]. split; [exact G2|]. split; [exact G3|].
    split; [exact G4|]. split; assumption.
Qed.

(* a wrapper whose header is current (the first batch of the response) and whose bytes are there *)
Lemma wrap_res_in fmt codec Wo ts size bse titems fuel jr off acc tl tlr :
  wrap_ok compress fmt codec Wo ts size bse titems -> 0 <= jr ->
  linv tlr o (PBnd titems 0 hdr0) off -> (length titems + 4 <= fuel)%nat ->
  Res true fuel (mkBatch (Some (st (wtail compress codec (map (wire bse) titems) ++ ztake jr tl) 1 (whdr fmt codec Wo ts size) 1 (-1)))
                         true o off (-1) None false) acc
      (recs_of titems) tl tlr off (length titems).
Proof.
  intros Hw Hj HI Hf.
  assert (HI' : linv tlr o (PBnd titems (len (stream titems)) hdr0) off) by exact HI.
  pose proof (wrap_run_gen compress decomp decomp_law tl tlr o fmt codec Wo ts size bse titems fuel
                (st (wtail compress codec (map (wire bse) titems) ++ ztake jr tl) 1 (whdr fmt codec Wo ts size) 1 (-1))
                jr off acc hdr0 Hw HI' Hf) as Hr.
  pose proof (l_run_spec decomp tl tlr o fuel (PBnd titems (len (stream titems)) hdr0) off acc HI') as Hspec.
  assert (Hfirst : forall it' items' j', lg_bnd off titems (len (stream titems)) = LDeliver it' items' j' ->
     msr_read decomp fuel off (st (wtail compress codec (map (wire bse) titems) ++ ztake jr tl) 1 (whdr fmt codec Wo ts size) 1 (-1))
     = MOk (msg_of (snd it'), -1)
           (ist tl fmt codec Wo ts size bse jr items' (mhdr (fst it') (snd (wire bse it'))) (-1))).
  { intros it' items' j' El.
    apply (wrap_in compress decomp decomp_law tl fmt codec Wo ts size bse titems fuel off jr (-1)
             (st (wtail compress codec (map (wire bse) titems) ++ ztake jr tl) 1 (whdr fmt codec Wo ts size) 1 (-1))
             (len (stream titems)) it' items' j' Hw (eq_refl false));
      [apply (read_header_busy' decomp); lia|exact Hf|lia|exact El]. }
  specialize (Hr Hfirst).
  right. destruct (l_run fuel _ off acc) as [ms x|j2 h2 off' acc' f'|]; [contradiction| |contradiction].
  destruct Hr as (Hr1 & Hf' & Hfb). destruct Hspec as (G1 & G2 & G3 & G4).
  exists jr, (whdr fmt codec Wo ts size), off', acc', f'.
  split; [exact Hr1|]. split; [|split; [lia|split; [exact G1|split; [exact G2|split; [exact G3|split; [exact G4|split; assumption]]]]]].
  (* a record at or after o was delivered *)
  intros _. apply rev_nonempty'. rewrite G1. cbn [pend].
  destruct Hw as (_ & _ & Hne & _). destruct HI as (Ho0 & Ho & _ & Hl & HJ). cbn [pend] in Hl, HJ.
  assert (Hrn : recs_of titems <> []) by (destruct titems; [contradiction|discriminate]).
  specialize (Hl Hrn). destruct (last_off_in (recs_of titems) 0 Hrn) as (r & Hr & He).
  assert (Hin : In r (filter (fun r0 => o <=? r_off r0) (recs_of titems))) by (apply filter_In; split; [exact Hr|lia]).
  intros Hn. apply app_eq_nil in Hn as [_ Hn]. unfold mm in Hn. apply map_eq_nil in Hn. rewrite Hn in Hin. exact Hin.
Qed.

(* one part after another *)
Lemma res_seq ne fuel B acc recs1 recs2 tl1 tl tlr off c1 c2 :
  Res ne fuel B acc recs1 tl1 (recs2 ++ tlr) off c1 ->
  (forall j' h' off' acc' f', 0 <= j' -> linv (recs2 ++ tlr) o (PBnd [] j' h') off' -> (3 <= f')%nat -> (fuel <= f' + c1)%nat ->
     Res false f' (LB tl1 o (PBnd [] j' h') off') acc' recs2 tl tlr off' c2) ->
  Res ne fuel B acc (recs1 ++ recs2) tl tlr off (c1 + c2).
Proof.
  intros [(ms & x & Hrun & Hne & Rp & Rs & G1 & G2 & G3 & G4 & G5)|(j' & h' & off' & acc' & f' & Hrun & Hne & Hj & G1 & G2 & G3 & G4 & G5 & G6)] Hrest.
  - left. exists ms, x. split; [exact Hrun|]. split; [exact Hne|]. exists Rp, (Rs ++ recs2).
    split; [rewrite G1, <- app_assoc; reflexivity|]. split; [exact G2|]. split; [exact G3|]. split; [|exact G5].
    intros r Hr. apply G4. rewrite <- app_assoc in Hr. exact Hr.
  - destruct (Hrest j' h' off' acc' f' Hj G4 G5 G6) as
      [(ms & x & Hrun2 & _ & Rp & Rs & K1 & K2 & K3 & K4 & K5)|(j2 & h2 & off2 & acc2 & f2 & Hrun2 & _ & Hj2 & K1 & K2 & K3 & K4 & K5 & K6)].
    + left. exists ms, x. split; [rewrite Hrun; exact Hrun2|].
      split; [intros E; rewrite K2; intros Hn; apply app_eq_nil in Hn as [Hn _]; exact (rev_nonempty _ (Hne E) Hn)|].
      exists (recs1 ++ Rp), Rs. split; [rewrite K1, app_assoc; reflexivity|].
      split; [rewrite K2, G1, filter_app; unfold mm; rewrite map_app, <- app_assoc; reflexivity|].
      split; [apply Forall_app; split; [eapply Forall_impl; [|exact G2]; cbn; intros; lia|exact K3]|].
      split; [exact K4|lia].
    + right. exists j2, h2, off2, acc2, f2. split; [rewrite Hrun; exact Hrun2|].
      split; [intros E; apply rev_nonempty'; rewrite K1; intros Hn; apply app_eq_nil in Hn as [Hn _]; exact (rev_nonempty _ (Hne E) Hn)|].
      split; [exact Hj2|]. split; [rewrite K1, G1, filter_app; unfold mm; rewrite map_app, <- app_assoc; reflexivity|].
      split; [apply Forall_app; split; [eapply Forall_impl; [|exact G2]; cbn; intros; lia|exact K2]|].
      split; [lia|]. split; [exact K4|]. split; [exact K5|lia].
Qed.


Lemma items_ok_c b : lgc_ok b -> Forall item_ok (items_of b).
Proof.
  intros (_ & Hm & _). unfold items_of. apply Forall_forall. intros it Hit. apply in_map_iff in Hit as (r & <- & Hr).
  apply (proj1 (Forall_forall _ _) Hm r Hr).
Qed.

Lemma recs_items_of b : recs_of (items_of b) = pb_recs b.
Proof. unfold recs_of, items_of. rewrite map_map. cbn [snd]. apply map_id. Qed.

Lemma enc_plain b : lgc_ok b -> pb_codec b = 0 -> enc_batch compress b = stream (items_of b).
Proof. intros H Hc. apply enc_legacy_stream, lgc_plain; assumption. Qed.

(* the linv of one batch at a boundary, from that of the rest of the response *)
Lemma linv_batch b recs2 tlr j h off :
  pb_recs b <> [] ->
  linv ((pb_recs b ++ recs2) ++ tlr) o (PBnd [] j h) off -> Forall (fun r => o <= r_off r) (pb_recs b) ->
  linv (recs2 ++ tlr) o (PBnd (items_of b) 0 hdr0) off.
Proof.
  intros Hne (Ho0 & Ho & Hinc & _ & HJ) Hall. cbn [pend app] in *.
  split; [exact Ho0|]. split; [exact Ho|]. cbn [pend]. rewrite recs_items_of.
  split; [rewrite app_assoc; exact Hinc|]. split.
  - intros _. destruct (last_off_in (pb_recs b) 0 Hne) as (r & Hr & <-). apply (proj1 (Forall_forall _ _) Hall r Hr).
  - intros r Hr. apply HJ. rewrite <- app_assoc. exact Hr.
Qed.

(* the v0 / v1 batches from a boundary on *)
Lemma legacy_run : forall bs fuel j h off acc tl tlr,
  Forall lgc_ok bs -> Forall pbatch_ok bs -> 0 <= j ->
  linv (flat_map pb_recs bs ++ tlr) o (PBnd [] j h) off ->
  Forall (fun r => o <= r_off r) (flat_map pb_recs bs) ->
  (length (all_items bs) + 4 <= fuel)%nat ->
  Res false fuel (LB (flat_map (enc_batch compress) bs ++ tl) o (PBnd [] j h) off) acc
      (flat_map pb_recs bs) tl tlr off (length (all_items bs)).
Proof.
  induction bs as [|b bs IH]; intros fuel j h off acc tl tlr Hlg Hpb Hj HI Hall Hf.
  - right. exists j, h, off, acc, fuel. cbn [flat_map app filter all_items length] in *. unfold mm. cbn [map]. rewrite app_nil_r.
    split; [reflexivity|]. split; [discriminate|]. split; [exact Hj|]. split; [reflexivity|]. split; [constructor|].
    split; [lia|]. split; [exact HI|]. split; lia.
  - apply Forall_cons_iff in Hlg as [Hb Hlg]. apply Forall_cons_iff in Hpb as [Hpb1 Hpb].
    cbn [flat_map all_items] in *. fold (all_items bs) in *. rewrite app_length in *.
    apply Forall_app in Hall as [Hall1 Hall2].
    pose proof Hpb1 as (_ & _ & _ & _ & _ & _ & Hne & _). pose proof Hb as (Hfm & Hm & Hc).
    specialize (Hne ltac:(lia)).
    pose proof (linv_batch b (flat_map pb_recs bs) tlr j h off Hne HI Hall1) as HIb.
    rewrite <- app_assoc.
    assert (Hlen : length (items_of b) = length (pb_recs b)) by (unfold items_of; apply map_length).
    apply (res_seq false fuel _ acc (pb_recs b) (flat_map pb_recs bs) (flat_map (enc_batch compress) bs ++ tl) tl tlr off
             (length (items_of b)) (length (all_items bs))).
    + destruct (Z.eq_dec (pb_codec b) 0) as [Hc0|Hc0].
      * rewrite (enc_plain b Hb Hc0).
        change (LB (stream (items_of b) ++ flat_map (enc_batch compress) bs ++ tl) o (PBnd [] j h) off)
          with (LB (flat_map (enc_batch compress) bs ++ tl) o (PBnd (items_of b) j h) off).
        rewrite <- (recs_items_of b) at 1.
        apply (plain_res false fuel (PBnd (items_of b) j h) off acc _ _).
        -- split; [apply items_ok_c, Hb|exact Hj].
        -- exact HIb.
        -- cbn [pcount]. lia.
        -- discriminate.
      * rewrite (enc_wrapped b Hb Hc0). rewrite <- (recs_items_of b) at 1.
        apply wrap_res; [apply wrap_ok_of; assumption|exact Hj|exact HIb|lia].
    + intros j' h' off' acc' f' Hj' HI' Hf3 Hfb. apply IH; try assumption. lia.
Qed.


(* from the run over the v0 / v1 part to the contract, the v2 batches read by the v2 reader *)
Lemma res_finish log prerecs recsL v2 fuel B cnt (b0 : pbatch) :
  log = prerecs ++ recsL ++ flat_map pb_recs v2 ->
  Forall (fun r => r_off r < o) prerecs ->
  Forall (v2ok compress) v2 -> chain 0 v2 ->
  Res true fuel B [] recsL (encs compress v2) (flat_map pb_recs v2) o cnt ->
  (cnt + tokens [] v2 + 5 <= fuel)%nat ->
  exists ms f, batch_run decomp fuel B [] = Some (ms, EEOF, f) /\ fetch_ok log o ms f /\ ms <> [].
Proof.
  intros Hlogsplit Hprebelow Hv2 Hv2chain HR Hfuel.
  set (tlrecs := flat_map pb_recs v2) in *.
  assert (Hfinish : forall ms x Rp Rs,
             recsL ++ tlrecs = Rp ++ Rs ->
             ms = mm (filter (fun r => o <=? r_off r) Rp) ->
             Forall (fun r => r_off r < x) Rp -> (forall r, In r Rs -> o <= r_off r -> x <= r_off r) -> o <= x ->
             fetch_ok log o ms x).
  { intros ms x Rp Rs G1 G2 G3 G4 G5. left. split; [exact G5|]. rewrite G2. unfold mm. f_equal.
    rewrite Hlogsplit. unfold between. rewrite filter_app, G1, filter_app.
    rewrite (filter_all_false _ prerecs) by (eapply Forall_impl; [|exact Hprebelow]; cbn; intros; lia).
    rewrite (filter_all_false _ Rs) by (apply Forall_forall; intros r Hr; specialize (G4 r Hr); lia).
    cbn [app]. rewrite app_nil_r. apply filter_ext_in'.
    eapply Forall_impl; [|exact G3]. cbn. intros a Ha. lia. }
  destruct HR as [(ms & x & Hrun & Hne & Rp & Rs & G1 & G2 & G3 & G4 & G5)|(j & h & off' & acc' & f' & Hrun & Hne & Hjj & G1 & G2 & G3 & G4 & Hf' & Hfb)].
  - exists ms, x. split; [exact Hrun|]. split; [|apply Hne; reflexivity].
    apply (Hfinish ms x Rp (Rs ++ tlrecs)); try assumption.
    rewrite G1, <- app_assoc. reflexivity.
  - cbn [rev app] in G1. rewrite Hrun.
    set (pb := mkPos b0 [] v2 j h off' (-1) (-1) MPlain 1).
    assert (Hsame : LB (encs compress v2) o (PBnd [] j h) off' = conc compress o pb) by reflexivity.
    rewrite Hsame.
    assert (Hposb : pos_ok compress pb).
    { unfold pos_ok, pb. cbn [a_j a_bs a_rs a_lr a_last a_el]. split; [exact Hjj|]. split; [exact Hv2|].
      split; [intros _; right; lia|]. intros H; contradiction. }
    assert (HTb : (T pb < f')%nat) by (unfold T, pb; cbn [a_rs a_bs]; lia).
    pose proof (run_refine compress decomp decomp_law o f' pb acc' Hposb HTb) as Href2.
    destruct (a_run compress o f' pb acc') as [[ms x]|] eqn:Erun; [|contradiction].
    exists ms, x. split; [exact Href2|].
    assert (HInvb : Inv o pb).
    { split; [unfold pb; cbn [a_off]; lia|]. exists 0, 0. unfold pb. cbn [a_b a_rs a_bs a_j a_hdr a_off a_last a_el a_mode a_lr].
      split; [exact I|]. split; [exact Hv2chain|]. split; [intros r []|]. split; [lia|]. split; [lia|].
      split; [intros _; lia|]. split; [intros H; contradiction|].
      destruct G4 as (_ & _ & _ & _ & HJ). intros r Hr. apply HJ. cbn [pend recs_of map app]. exact Hr. }
    destruct (a_run_spec compress decomp decomp_law o f' pb acc' ms x HInvb Erun) as (Rp & Rs & A1 & A2 & A3 & A4 & A5).
    unfold pb in A5. cbn [a_off] in A5.
    split.
    2:{ rewrite A2. intros Hn. apply app_eq_nil in Hn as [Hn _]. exact (rev_nonempty _ (Hne eq_refl) Hn). }
    apply (Hfinish ms x (recsL ++ Rp) Rs).
    + unfold remp, pb in A1. cbn [a_rs a_bs app] in A1. fold tlrecs in A1. rewrite A1, app_assoc. reflexivity.
    + rewrite A2, G1, filter_app. unfold mm. rewrite map_app. reflexivity.
    + apply Forall_app. split; [|exact A3]. eapply Forall_impl; [|exact G2]. cbn. intros a Ha. lia.
    + exact A4.
    + lia.
Qed.


Lemma pre_below_c : forall pre lo,
  Forall lgc_ok pre -> Forall (fun b => pb_last b < o) pre -> increasing lo (flat_map pb_recs pre) ->
  Forall (fun r => r_off r < o) (flat_map pb_recs pre).
Proof.
  induction pre as [|b t IH]; intros lo Hl Hp Hi; [constructor|].
  apply Forall_cons_iff in Hl as [(Hf & _) Hl]. apply Forall_cons_iff in Hp as [Hpb Hp].
  cbn [flat_map] in *. apply Forall_app. split.
  - pose proof (increasing_app_l _ _ _ Hi) as Hib. unfold pb_last in Hpb.
    replace (pb_fmt b =? 2) with false in Hpb by lia.
    apply Forall_forall. intros r Hr. pose proof (last_off_max _ _ (pb_base b + pb_lod b) r Hib Hr). lia.
  - destruct (increasing_app_r _ _ _ Hi) as [lo2 Hi2]. apply (IH lo2 Hl Hp Hi2).
Qed.

Lemma increasing_cross : forall a lo b, increasing lo (a ++ b) ->
  forall x y, In x a -> In y b -> r_off x < r_off y.
Proof.
  induction a as [|z t IH]; intros lo b Hi x y Hx Hy; [destruct Hx|].
  destruct Hi as [H1 H2]. destruct Hx as [->|Hx].
  - pose proof (increasing_lb' _ _ H2 y (in_or_app _ _ y (or_intror Hy))). lia.
  - apply (IH _ _ H2 x y Hx Hy).
Qed.

Lemma from_offset_head l b t : from_offset l o = b :: t -> o <= pb_last b.
Proof.
  induction l as [|c u IH]; [discriminate|]. cbn [from_offset]. destruct (pb_last c <? o) eqn:E; [exact IH|].
  intros H. injection H as <- _. lia.
Qed.

Theorem batch_decode_exact_legacy_wrapped_then_v2_full log lg v2 k hwm :
  log_ok log -> layout_ok log (lg ++ v2) ->
  Forall lgc_ok lg -> Forall (fun b => pb_fmt b = 2) v2 -> Forall (v2ok compress) v2 -> 0 <= o ->
  from_offset lg o <> [] -> valid_cut compress (lg ++ v2) o k -> hwm <> o ->
  forall fuel, (length (all_items (from_offset lg o)) + tokens [] v2 + 5 <= fuel)%nat ->
  exists ms f,
    fetch_run decomp fuel o hwm (fetch_response compress (lg ++ v2) o k) (Z.of_nat k) false = Some (ms, EEOF, f)
    /\ fetch_ok log o ms f /\ ms <> [].
Proof.
  intros (Hlog1 & Hlog2) (Hrecs & Hpb & Hranges) Hleg Hfmt2 Hv2 Ho0 Hne Hcut Hhwm fuel Hfuel.
  destruct (from_offset_split lg o) as (pre & Hsplit & Hpre).
  pose proof (from_offset_app_l lg v2 o Hne) as Hfo.
  destruct (from_offset lg o) as [|b1 bs'] eqn:Ebs; [contradiction|].
  assert (Hleg_bs : Forall lgc_ok (b1 :: bs')) by (rewrite Hsplit in Hleg; apply Forall_app in Hleg; apply Hleg).
  assert (Hleg_pre : Forall lgc_ok pre) by (rewrite Hsplit in Hleg; apply Forall_app in Hleg; apply Hleg).
  assert (Hpb_lg : Forall pbatch_ok lg) by (apply Forall_app in Hpb; apply Hpb).
  assert (Hpb_v2 : Forall pbatch_ok v2) by (apply Forall_app in Hpb; apply Hpb).
  assert (Hpb_bs : Forall pbatch_ok (b1 :: bs')) by (rewrite Hsplit in Hpb_lg; apply Forall_app in Hpb_lg; apply Hpb_lg).
  set (tlrecs := flat_map pb_recs v2).
  set (tl := encs compress v2).
  assert (Hlogsplit : log = flat_map pb_recs pre ++ flat_map pb_recs (b1 :: bs') ++ tlrecs).
  { rewrite <- Hrecs. unfold layout_records. rewrite flat_map_app. rewrite Hsplit at 1. rewrite flat_map_app, <- app_assoc. reflexivity. }
  apply Forall_cons_iff in Hleg_bs as [Hb1 Hleg_bs']. apply Forall_cons_iff in Hpb_bs as [Hpb1 Hpb_bs'].
  pose proof Hb1 as (Hf1 & Hm1 & Hc1).
  pose proof Hpb1 as (_ & _ & _ & _ & _ & _ & Hne1 & _). specialize (Hne1 ltac:(lia)).
  assert (Hinc_all : exists lo, increasing lo (flat_map pb_recs (b1 :: bs') ++ tlrecs))
    by (rewrite Hlogsplit in Hlog2; apply (increasing_app_r _ _ _ Hlog2)).
  assert (Hprebelow : Forall (fun r => r_off r < o) (flat_map pb_recs pre)).
  { rewrite Hlogsplit in Hlog2. pose proof (increasing_app_l _ _ _ Hlog2) as Hip. apply (pre_below_c pre 0 Hleg_pre Hpre Hip). }
  assert (Hv2chain : chain 0 v2).
  { destruct (ranges_ok_app _ _ _ Hranges) as [lo2 Hr2].
    apply (chain_zero lo2); [exact Hpb_v2|].
    apply chain_of; [exact Hpb_v2|exact Hr2|].
    rewrite <- Hrecs in Hlog2. unfold layout_records in Hlog2. rewrite flat_map_app in Hlog2.
    apply (increasing_app_r _ _ _ Hlog2). }
  (* the last record of the first batch is at or after o *)
  assert (Hlast1 : o <= last_off (pb_recs b1) 0).
  { pose proof (from_offset_head lg b1 bs' Ebs) as H. unfold pb_last in H. replace (pb_fmt b1 =? 2) with false in H by lia.
    rewrite (last_off_nonempty (pb_recs b1) 0 (pb_base b1 + pb_lod b1) Hne1). exact H. }
  set (tl1 := flat_map (enc_batch compress) bs' ++ tl).
  set (tlr1 := flat_map pb_recs bs' ++ tlrecs).
  cbn [flat_map] in Hinc_all. rewrite <- app_assoc in Hinc_all. fold tlr1 in Hinc_all.
  assert (HIb1 : linv tlr1 o (PBnd (items_of b1) 0 hdr0) o).
  { split; [exact Ho0|]. split; [lia|]. cbn [pend]. rewrite recs_items_of. split; [exact Hinc_all|].
    split; [intros _; exact Hlast1|intros r _ H; exact H]. }
  assert (Hall' : Forall (fun r => o <= r_off r) (flat_map pb_recs bs')).
  { destruct Hinc_all as [lo Hinc]. unfold tlr1 in Hinc. rewrite app_assoc in Hinc. apply increasing_app_l in Hinc.
    destruct (last_off_in (pb_recs b1) 0 Hne1) as (rl & Hrl & Hel).
    apply Forall_forall. intros r Hr. pose proof (increasing_cross _ _ _ Hinc rl r Hrl Hr). lia. }
  (* the bytes *)
  assert (Hbytes : flat_map (enc_batch compress) ((b1 :: bs') ++ v2) = enc_batch compress b1 ++ tl1).
  { cbn [app flat_map]. rewrite flat_map_app, (encs_eq compress v2 Hfmt2). reflexivity. }
  unfold fetch_response, fetch_bytes, enc_layout. rewrite Hfo, Hbytes.
  unfold valid_cut in Hcut. rewrite Hfo in Hcut. cbn [app] in Hcut.
  unfold fetch_bytes, enc_layout in Hcut. rewrite Hfo, Hbytes in Hcut.
  destruct Hcut as [Hk1 Hk2].
  rewrite <- ztake_firstn.
  assert (Hlenk : len (ztake (Z.of_nat k) (enc_batch compress b1 ++ tl1)) = Z.of_nat k).
  { rewrite ztake_firstn. unfold len. rewrite firstn_length. lia. }
  (* the first batch *)
  assert (Hfirst : exists B0,
            fetch_run decomp fuel o hwm (ztake (Z.of_nat k) (enc_batch compress b1 ++ tl1)) (Z.of_nat k) false
            = batch_run decomp fuel B0 []
            /\ Res true fuel B0 [] (pb_recs b1) tl1 tlr1 o (length (items_of b1))).
  { assert (Hcntf : (length (items_of b1) + 4 <= fuel)%nat).
    { cbn [all_items flat_map] in Hfuel. rewrite app_length in Hfuel. lia. }
    destruct (Z.eq_dec (pb_codec b1) 0) as [Hc0|Hc0].
    - (* plain messages *)
      rewrite (enc_plain b1 Hb1 Hc0) in *.
      pose proof (items_ok_c b1 Hb1) as Hiok.
      assert (Hrit : recs_of (items_of b1) = pb_recs b1) by apply recs_items_of.
      destruct (items_of b1) as [|it1 rest1] eqn:Eit; [unfold items_of in Eit; destruct (pb_recs b1); [contradiction|discriminate]|].
      apply Forall_cons_iff in Hiok as [Hok1 Hokr].
      pose proof (mh_pos decomp tl1 it1 Hok1) as Hmh.
      assert (Hkmh : len (mh (fst it1) (snd it1)) + len (mb (snd it1)) + len (stream rest1) <= Z.of_nat k).
      { change (stream (it1 :: rest1)) with (enc_item it1 ++ stream rest1) in Hk1. unfold enc_item in Hk1.
        rewrite !app_length in Hk1. unfold len. lia. }
      pose proof (len_nonneg (mb (snd it1))). pose proof (len_nonneg (stream rest1)).
      set (j0 := Z.of_nat k - len (mh (fst it1) (snd it1))).
      exists (LB tl1 o (PIn it1 rest1 j0) o). split.
      + unfold fetch_run, new_batch. replace (hwm =? o) with false by lia.
        unfold new_msr. rewrite <- Hlenk at 2.
        change (mkMsr [mkFrame ?i (len ?i) 0 0 hdr0] false 0 (-1)) with (st i 0 hdr0 0 (-1)).
        rewrite (stream_cons tl1), ztake_ge by lia.
        rewrite (mheader_ok (fst it1) (snd it1) _ 0 hdr0 0 (-1) Hok1). reflexivity.
      + rewrite <- Hrit.
        change (recs_of (it1 :: rest1)) with (pend (PIn it1 rest1 j0)).
        change (length (it1 :: rest1)) with (pcount (PIn it1 rest1 j0)).
        apply plain_res.
        * cbn [pos_ok1]. split; [exact Hok1|]. split; [exact Hokr|unfold j0; lia].
        * exact HIb1.
        * cbn [pcount]. cbn [length] in Hcntf. lia.
        * intros _. cbn [lstep]. apply (lg_read_delivers decomp tl1 o rest1 it1 j0 (length rest1)).
          -- rewrite firstn_all. unfold j0. lia.
          -- rewrite firstn_all. destruct (last_off_in (pb_recs b1) 0 Hne1) as (rl & Hrl & Hel).
             exists rl. split; [|lia]. rewrite <- Hrit in Hrl. exact Hrl.
    - (* a compressed wrapper *)
      pose proof (wrap_ok_of b1 Hb1 Hpb1 Hc0) as Hw.
      rewrite (enc_wrapped b1 Hb1 Hc0) in *.
      set (fmt := pb_fmt b1) in *. set (codec := pb_codec b1) in *. set (Wo := wo_of b1) in *. set (ts := pb_ts b1) in *.
      set (size := wsize_of b1) in *. set (bse := rel_of b1) in *. set (titems := items_of b1) in *.
      unfold wenc in *.
      assert (Hk1' : len (wh fmt codec Wo ts size) + len (wtail compress codec (map (wire bse) titems)) <= Z.of_nat k).
      { rewrite app_length in Hk1. unfold len. lia. }
      pose proof (len_nonneg (wh fmt codec Wo ts size)). pose proof (len_nonneg (wtail compress codec (map (wire bse) titems))).
      set (jr := Z.of_nat k - len (wh fmt codec Wo ts size) - len (wtail compress codec (map (wire bse) titems))).
      exists (mkBatch (Some (st (wtail compress codec (map (wire bse) titems) ++ ztake jr tl1) 1 (whdr fmt codec Wo ts size) 1 (-1)))
                      true o o (-1) None false).
      split.
      + unfold fetch_run, new_batch. replace (hwm =? o) with false by lia.
        unfold new_msr. rewrite <- Hlenk at 2.
        change (mkMsr [mkFrame ?i (len ?i) 0 0 hdr0] false 0 (-1)) with (st i 0 hdr0 0 (-1)).
        rewrite <- app_assoc, ztake_ge by lia.
        rewrite (wheader_ok fmt codec Wo ts size _ 0 hdr0 0 (-1) (proj1 Hw)).
        rewrite ztake_ge by lia. reflexivity.
      + rewrite <- (recs_items_of b1). fold titems.
        apply wrap_res_in; [exact Hw|unfold jr; lia|exact HIb1|exact Hcntf]. }
  destruct Hfirst as (B0 & Hstart & HR1). rewrite Hstart.
  apply (res_finish log (flat_map pb_recs pre) (flat_map pb_recs (b1 :: bs')) v2 fuel B0 (length (all_items (b1 :: bs'))) b1);
    try assumption.
  cbn [flat_map all_items]. fold (all_items bs'). rewrite app_length.
  apply (res_seq true fuel B0 [] (pb_recs b1) (flat_map pb_recs bs') tl1 tl tlrecs o); [exact HR1|].
  intros j' h' off' acc' f' Hj' HI' Hf3 Hfb. apply legacy_run; try assumption.
  cbn [all_items flat_map] in Hfuel. rewrite app_length in Hfuel. fold (all_items bs') in Hfuel. lia.
Qed.

Theorem batch_decode_exact_legacy_wrapped_then_v2 log lg v2 k hwm :
  log_ok log -> layout_ok log (lg ++ v2) ->
  Forall lgc_ok lg -> Forall (fun b => pb_fmt b = 2) v2 -> Forall (v2ok compress) v2 -> 0 <= o ->
  from_offset lg o <> [] -> valid_cut compress (lg ++ v2) o k -> hwm <> o ->
  forall fuel, (length (all_items (from_offset lg o)) + tokens [] v2 + 5 <= fuel)%nat ->
  exists ms f,
    fetch_run decomp fuel o hwm (fetch_response compress (lg ++ v2) o k) (Z.of_nat k) false = Some (ms, EEOF, f)
    /\ fetch_ok log o ms f.
Proof.
  intros H1 H2 H3 H4 H5 H6 H7 H8 H9 fuel H10.
  destruct (batch_decode_exact_legacy_wrapped_then_v2_full log lg v2 k hwm H1 H2 H3 H4 H5 H6 H7 H8 H9 fuel H10) as (ms & f & Hr & Hok & _).
  exists ms, f. split; assumption.
Qed.

Theorem progress_legacy_wrapped_then_v2 log lg v2 k hwm :
  log_ok log -> layout_ok log (lg ++ v2) ->
  Forall lgc_ok lg -> Forall (fun b => pb_fmt b = 2) v2 -> Forall (v2ok compress) v2 -> 0 <= o ->
  from_offset lg o <> [] -> valid_cut compress (lg ++ v2) o k -> hwm <> o ->
  forall fuel ms e f, (length (all_items (from_offset lg o)) + tokens [] v2 + 5 <= fuel)%nat ->
  fetch_run decomp fuel o hwm (fetch_response compress (lg ++ v2) o k) (Z.of_nat k) false = Some (ms, e, f) ->
  ms <> [].
Proof.
  intros H1 H2 H3 H4 H5 H6 H7 H8 H9 fuel ms e f H10 Hrun.
  destruct (batch_decode_exact_legacy_wrapped_then_v2_full log lg v2 k hwm H1 H2 H3 H4 H5 H6 H7 H8 H9 fuel H10) as (ms0 & f0 & Hr0 & _ & Hp).
  rewrite Hr0 in Hrun. injection Hrun as <- _ _. exact Hp.
Qed.

(* the v0 / v1 part alone *)
Theorem batch_decode_exact_legacy_wrapped log l k hwm :
  log_ok log -> layout_ok log l -> Forall lgc_ok l -> 0 <= o ->
  from_offset l o <> [] -> valid_cut compress l o k -> hwm <> o ->
  forall fuel, (length (all_items (from_offset l o)) + 5 <= fuel)%nat ->
  exists ms f,
    fetch_run decomp fuel o hwm (fetch_response compress l o k) (Z.of_nat k) false = Some (ms, EEOF, f)
    /\ fetch_ok log o ms f /\ ms <> [].
Proof.
  intros H1 H2 H3 H6 H7 H8 H9 fuel H10.
  rewrite <- (app_nil_r l) in H2, H8 |- *.
  apply (batch_decode_exact_legacy_wrapped_then_v2_full log l [] k hwm H1 H2 H3 (Forall_nil _) (Forall_nil _) H6 H7 H8 H9 fuel).
  unfold tokens. cbn [length fold_right]. lia.
Qed.

End WFinal.

(* ---------------------------------------------------------------- every ordered layout *)
Fixpoint formats_ordered (f : Z) (l : layout) {struct l} : Prop :=
  match l with [] => True | b :: t => f <= pb_fmt b /\ formats_ordered (pb_fmt b) t end.

Lemma formats_split : forall l f, formats_ordered f l -> Forall pbatch_ok l ->
  exists lg v2, l = lg ++ v2 /\ Forall (fun b => pb_fmt b = 0 \/ pb_fmt b = 1) lg /\ Forall (fun b => pb_fmt b = 2) v2.
Proof.
  induction l as [|b t IH]; intros f Hf Hp; [exists [], []; repeat split; constructor|].
  destruct Hf as [Hf1 Hf2]. apply Forall_cons_iff in Hp as [Hb Hp].
  destruct (IH _ Hf2 Hp) as (lg & v2 & E & Hlg & Hv2).
  pose proof Hb as ([F|[F|F]] & _).
  - exists (b :: lg), v2. subst t. split; [reflexivity|]. split; [constructor; [left; exact F|exact Hlg]|exact Hv2].
  - exists (b :: lg), v2. subst t. split; [reflexivity|]. split; [constructor; [right; exact F|exact Hlg]|exact Hv2].
  - (* everything after a v2 batch is v2 *)
    exists [], (b :: t). split; [reflexivity|]. split; [constructor|].
    constructor; [exact F|]. clear -Hf2 Hp F. revert b F Hf2. induction t as [|c u IHu]; intros b F Hf2; [constructor|].
    destruct Hf2 as [G1 G2]. apply Forall_cons_iff in Hp as [Hc Hp]. pose proof Hc as ([K|[K|K]] & _); try lia.
    constructor; [exact K|apply (IHu Hp c K G2)].
Qed.

Section All.
Variable compress : Z -> list N -> list N.
Variable decomp : Z -> list N -> option (list N).
Hypothesis decomp_law : forall c x, decomp c (compress c x) = Some x.

(* the sizes of a batch fit the wire format *)
Definition wire_fits (b : pbatch) : Prop :=
  if pb_fmt b =? 2 then v2ok compress b else lgc_ok compress b.

Lemma from_offset_nil_app lg v2 o : from_offset lg o = [] -> from_offset (lg ++ v2) o = from_offset v2 o.
Proof.
  induction lg as [|b t IH]; intros H; [reflexivity|]. cbn [from_offset app] in *.
  destruct (pb_last b <? o); [apply IH; exact H|discriminate].
Qed.

Lemma from_offset_forall (P : pbatch -> Prop) l o : Forall P l -> Forall P (from_offset l o).
Proof.
  intros H. destruct (from_offset_split l o) as (pre & E & _). rewrite E in H. apply Forall_app in H. apply H.
Qed.

Lemma tokens_len bs : tokens [] bs = (length bs + length (flat_map pb_recs bs))%nat.
Proof.
  unfold tokens. cbn [length]. induction bs as [|b t IH]; [reflexivity|].
  cbn [fold_right flat_map length]. rewrite app_length. cbn [plus] in *. lia.
Qed.

Lemma all_items_len bs : length (all_items bs) = length (flat_map pb_recs bs).
Proof. rewrite <- recs_of_items. unfold recs_of. rewrite map_length. reflexivity. Qed.

Lemma from_offset_len l o : (length (from_offset l o) <= length l)%nat
  /\ (length (flat_map pb_recs (from_offset l o)) <= length (flat_map pb_recs l))%nat.
Proof.
  destruct (from_offset_split l o) as (pre & E & _). rewrite E at 2 4. rewrite flat_map_app, !app_length. lia.
Qed.

Theorem batch_decode_exact_ordered log l o k hwm :
  log_ok log -> layout_ok log l -> formats_ordered 0 l -> Forall wire_fits l -> 0 <= o ->
  from_offset l o <> [] -> valid_cut compress l o k -> hwm <> o ->
  forall fuel, (length log + length l + 5 <= fuel)%nat ->
  exists ms f,
    fetch_run decomp fuel o hwm (fetch_response compress l o k) (Z.of_nat k) false = Some (ms, EEOF, f)
    /\ fetch_ok log o ms f.
Proof.
  intros Hlog Hlay Hord Hfits Ho Hne Hcut Hhwm fuel Hfuel.
  pose proof Hlay as (Hrecs & Hpb & _).
  destruct (formats_split l 0 Hord Hpb) as (lg & v2 & E & Hlg & Hv2). subst l.
  assert (Hlgc : Forall (lgc_ok compress) lg).
  { apply Forall_app in Hfits as [Hfl _]. apply Forall_forall. intros b Hb.
    pose proof (proj1 (Forall_forall _ _) Hfl b Hb) as Hw. pose proof (proj1 (Forall_forall _ _) Hlg b Hb) as Hf.
    unfold wire_fits in Hw. destruct Hf as [Hf|Hf]; rewrite Hf in Hw; exact Hw. }
  assert (Hv2ok : Forall (v2ok compress) v2).
  { apply Forall_app in Hfits as [_ Hfv]. apply Forall_forall. intros b Hb.
    pose proof (proj1 (Forall_forall _ _) Hfv b Hb) as Hw. pose proof (proj1 (Forall_forall _ _) Hv2 b Hb) as Hf.
    unfold wire_fits in Hw. rewrite Hf in Hw. exact Hw. }
  assert (Hloglen : length log = length (flat_map pb_recs (lg ++ v2))) by (rewrite <- Hrecs; reflexivity).
  rewrite flat_map_app, app_length in Hloglen. rewrite app_length in Hfuel.
  destruct (from_offset lg o) as [|b1 bs'] eqn:Efo.
  - (* the fetch offset is in the v2 part *)
    pose proof (from_offset_nil_app lg v2 o Efo) as Hfo.
    apply (batch_decode_exact_v2 compress decomp decomp_law log (lg ++ v2) o k hwm Hlog Hlay); try assumption.
    + rewrite Hfo. apply from_offset_forall, Hv2.
    + rewrite Hfo. apply from_offset_forall, Hv2ok.
    + rewrite Hfo, tokens_len. pose proof (from_offset_len v2 o). lia.
  - apply (batch_decode_exact_legacy_wrapped_then_v2 compress decomp decomp_law o log lg v2 k hwm); try assumption.
    + rewrite Efo. discriminate.
    + rewrite tokens_len, all_items_len. pose proof (from_offset_len lg o). lia.
Qed.

(* progress: a response whose first batch holds a record at or after o delivers a record *)
Theorem progress_ordered log l o k hwm :
  log_ok log -> layout_ok log l -> formats_ordered 0 l -> Forall wire_fits l -> 0 <= o ->
  valid_cut compress l o k -> hwm <> o ->
  (exists b r, hd_error (from_offset l o) = Some b /\ In r (pb_recs b) /\ o <= r_off r) ->
  forall fuel ms e f, (length log + length l + 5 <= fuel)%nat ->
  fetch_run decomp fuel o hwm (fetch_response compress l o k) (Z.of_nat k) false = Some (ms, e, f) ->
  ms <> [].
Proof.
  intros Hlog Hlay Hord Hfits Ho Hcut Hhwm Hex fuel ms e f Hfuel Hrun.
  assert (Hne : from_offset l o <> []) by (destruct Hex as (b & r & Hb & _); destruct (from_offset l o); [discriminate|discriminate]).
  pose proof Hlay as (Hrecs & Hpb & _).
  destruct (formats_split l 0 Hord Hpb) as (lg & v2 & E & Hlg & Hv2). subst l.
  assert (Hlgc : Forall (lgc_ok compress) lg).
  { apply Forall_app in Hfits as [Hfl _]. apply Forall_forall. intros b Hb.
    pose proof (proj1 (Forall_forall _ _) Hfl b Hb) as Hw. pose proof (proj1 (Forall_forall _ _) Hlg b Hb) as Hf.
    unfold wire_fits in Hw. destruct Hf as [Hf|Hf]; rewrite Hf in Hw; exact Hw. }
  assert (Hv2ok : Forall (v2ok compress) v2).
  { apply Forall_app in Hfits as [_ Hfv]. apply Forall_forall. intros b Hb.
    pose proof (proj1 (Forall_forall _ _) Hfv b Hb) as Hw. pose proof (proj1 (Forall_forall _ _) Hv2 b Hb) as Hf.
    unfold wire_fits in Hw. rewrite Hf in Hw. exact Hw. }
  assert (Hloglen : length log = length (flat_map pb_recs (lg ++ v2))) by (rewrite <- Hrecs; reflexivity).
  rewrite flat_map_app, app_length in Hloglen. rewrite app_length in Hfuel.
  destruct (from_offset lg o) as [|b1 bs'] eqn:Efo.
  - pose proof (from_offset_nil_app lg v2 o Efo) as Hfo.
    apply (progress_v2 compress decomp decomp_law log (lg ++ v2) o k hwm Hlog Hlay) with (fuel := fuel) (e := e) (f := f); try assumption.
    + rewrite Hfo. apply from_offset_forall, Hv2.
    + rewrite Hfo. apply from_offset_forall, Hv2ok.
    + rewrite Hfo, tokens_len. pose proof (from_offset_len v2 o). lia.
  - apply (progress_legacy_wrapped_then_v2 compress decomp decomp_law o log lg v2 k hwm) with (fuel := fuel) (e := e) (f := f); try assumption.
    + rewrite Efo. discriminate.
    + rewrite tokens_len, all_items_len. pose proof (from_offset_len lg o). lia.
Qed.

(* the link to L2 *)
Theorem contract_ordered log l k hwm fuel g :
  log_ok log -> layout_ok log l -> formats_ordered 0 l -> Forall wire_fits l -> 0 <= g_conn g ->
  from_offset l (g_conn g) <> [] -> valid_cut compress l (g_conn g) k -> hwm <> g_conn g ->
  (length log + length l + 5 <= fuel)%nat ->
  ev_ok (fetch_run decomp fuel) log g
        (GFetch (FData hwm (fetch_response compress l (g_conn g) k) (Z.of_nat k) false)).
Proof.
  intros H1 H2 H3 H4 H5 H6 H7 H8 H9 _.
  destruct (batch_decode_exact_ordered log l (g_conn g) k hwm H1 H2 H3 H4 H5 H6 H7 H8 fuel H9) as (ms & f & Hr & Hok).
  exists ms, EEOF, f. split; assumption.
Qed.

End All.
