(* Proofs/WriterStmts.v — the statements of the Writer theorems (C01, C07, C08, C09-writer)
   as named Props, so that the proof files and Properties/Cxx.v agree on them by conversion.
   No proofs here. *)
From Coq Require Import List NArith Bool Arith.
From KV Require Import Lib.LTS Model.Writer.
Import ListNotations.

Definition runs (cfg : config) (ls : list label) (s : state) : Prop :=
  run (step cfg) init ls = Some s.

(* ------------------------------------------------------------------ C08 *)
Definition stmt_C08_limits : Prop :=
  forall cfg ls s, cfg_ok cfg -> runs cfg ls s ->
  forall a, In a (s_journal s) ->
    length (a_msgs a) <= batchSize cfg /\
    (sum_sizes (a_msgs a) <= batchBytes cfg)%N /\
    a_msgs a <> [] /\
    (forall m, In m (a_msgs a) -> tp_of cfg m = a_tp a).

(* a call the validation rejects returns the error in the same step and changes nothing *)
Definition stmt_C08_rejected_sends_nothing : Prop :=
  forall cfg s g msgs merr e s',
    msgs <> [] -> validate cfg merr msgs = Some e ->
    step cfg s (Call g msgs merr) = Some s' ->
    s' = add_call s (s_wg s) (mkCall g msgs [] (CReturned (RErr (if closed s then EClosed else e)))).

(* what the validation rejects *)
Definition stmt_C08_validate_spec : Prop :=
  forall cfg merr msgs,
    (forall i m, nth_error msgs i = Some m -> (batchBytes cfg < m_size m)%N ->
       exists i', i' <= i /\ validate cfg merr msgs = Some (ETooLarge i')) /\
    (forall i, validate cfg merr msgs = Some (ETooLarge i) ->
       exists m, nth_error msgs i = Some m /\ (batchBytes cfg < m_size m)%N) /\
    ((forall m, In m msgs -> (m_size m <= batchBytes cfg)%N) ->
     forall i m, nth_error msgs i = Some m -> choose_topic cfg m = None ->
       exists e, validate cfg merr msgs = Some e) /\
    (validate cfg merr msgs = None ->
       forall m, In m msgs -> (m_size m <= batchBytes cfg)%N /\ choose_topic cfg m <> None).

(* nothing of a rejected call is ever sent *)
Definition stmt_C08_rejected_never_sent : Prop :=
  forall cfg ls s, runs cfg ls s ->
  forall c cl, nth_error (s_calls s) c = Some cl -> rejected cl = true ->
  forall m a, In m (c_msgs cl) -> In a (s_journal s) -> ~ In m (a_msgs a).

Definition stmt_C08_open_batch_never_full : Prop :=
  forall cfg ls s, runs cfg ls s ->
  forall p pw b, nth_error (s_pws s) p = Some pw -> pw_curr pw = Some b ->
    b_size b < batchSize cfg /\ (b_bytes b < batchBytes cfg)%N /\
    b_msgs b <> [] /\ b_bytes b = sum_sizes (b_msgs b).

Definition stmt_C08_open_batch_has_timer : Prop :=
  forall cfg ls s, runs cfg ls s ->
  forall p pw b, nth_error (s_pws s) p = Some pw -> pw_curr pw = Some b ->
    exists s' pw', step cfg s (Timer p (b_k b)) = Some s' /\
                   nth_error (s_pws s') p = Some pw' /\
                   pw_curr pw' = None /\ pw_queue pw' = pw_queue pw ++ [b].

Definition stmt_C08_queued_batch_served : Prop :=
  forall cfg ls s, runs cfg ls s ->
  forall p pw, nth_error (s_pws s) p = Some pw -> pw_queue pw <> [] ->
    pw_alive pw = true /\
    match pw_snd pw with
    | None => step cfg s (Get p) <> None
    | Some sd => match sd_ph sd with
                 | PAttempt => forall r, step cfg s (Attempt p r) <> None
                 | PBackoff => step cfg s (BackoffDone p) <> None
                 | PFinish _ => step cfg s (Finish p) <> None
                 end
    end.

(* ------------------------------------------------------------------ C07 *)
(* goroutine g submitted m1 before m2 for tp: earlier position in one call, or an earlier call *)
Definition submitted_before (cfg : config) (s : state) (g : N) (tp : tpart) (m1 m2 : msg) : Prop :=
  exists l1 l2 l3,
    filter (fun m => tp_eqb (tp_of cfg m) tp) (submitted (s_calls s) g) = l1 ++ m1 :: l2 ++ m2 :: l3.

(* every copy of an earlier batch precedes every copy of a later one *)
Definition stmt_C07_order : Prop :=
  forall cfg ls s, cfg_ok cfg -> runs cfg ls s ->
  forall g tp m1 m2, submitted_before cfg s g tp m1 m2 ->
    (forall a, In a (s_journal s) -> ~ (In m1 (a_msgs a) /\ In m2 (a_msgs a))) ->
    forall i j, nth_error (log_of s tp) i = Some m1 -> nth_error (log_of s tp) j = Some m2 -> i < j.

(* inside a produce request the order is the submission order *)
Definition stmt_C07_batch_internal_order : Prop :=
  forall cfg ls s, runs cfg ls s ->
  forall g tp m1 m2 a, submitted_before cfg s g tp m1 m2 -> In a (s_journal s) ->
    forall i j, nth_error (a_msgs a) i = Some m1 -> nth_error (a_msgs a) j = Some m2 -> i < j.

(* all attempts of batch k of a partition writer precede all attempts of batch k+1; the
   attempts of one batch carry the same records; a topic-partition has one partition writer *)
Definition stmt_C07_retries_contiguous : Prop :=
  forall cfg ls s, runs cfg ls s ->
  forall i j a b, nth_error (s_journal s) i = Some a -> nth_error (s_journal s) j = Some b ->
    (a_pw a = a_pw b -> a_k a < a_k b -> i < j) /\
    (a_pw a = a_pw b -> a_k a = a_k b -> a_msgs a = a_msgs b /\ a_tp a = a_tp b) /\
    (a_tp a = a_tp b -> a_pw a = a_pw b).

(* the sender goroutine of a partition writer has at most one produce round trip in flight:
   attempt k+1 of a batch is started only after the round trip of attempt k has RETURNED (in
   the model an attempt and its answer are one step): the attempts started for the batch being
   sent are exactly its journalled (returned) round trips; batches not yet being sent have none *)
Definition stmt_C07_one_round_trip_in_flight : Prop :=
  forall cfg ls s, runs cfg ls s ->
  forall p pw, nth_error (s_pws s) p = Some pw ->
    (forall sd, pw_snd pw = Some sd ->
       length (filter (fun a => Nat.eqb (a_pw a) p && Nat.eqb (a_k a) (b_k (sd_batch sd))) (s_journal s)) = sd_att sd) /\
    (forall b, In b (pw_queue pw ++ opt_list (pw_curr pw)) ->
       filter (fun a => Nat.eqb (a_pw a) p && Nat.eqb (a_k a) (b_k b)) (s_journal s) = []).

(* ------------------------------------------------------------------ C01 *)
Definition acked_attempt (cfg : config) (s : state) (m : msg) : Prop :=
  exists a, In a (s_journal s) /\ a_applied a = true /\ a_seen a = None /\
            In m (a_msgs a) /\ a_tp a = tp_of cfg m.

(* the last attempt that carried m was seen by the client as [o] *)
Definition last_attempt_seen (s : state) (m : msg) (o : option err) : Prop :=
  exists j1 a j2, s_journal s = j1 ++ a :: j2 /\ In m (a_msgs a) /\ a_seen a = o /\
                  forall a', In a' j2 -> ~ In m (a_msgs a').

Definition stmt_C01_nil_means_logged : Prop :=
  forall cfg ls s, cfg_ok cfg -> runs cfg ls s -> async cfg = false ->
  forall c cl, nth_error (s_calls s) c = Some cl -> c_ph cl = CReturned RNil ->
  forall m, In m (c_msgs cl) -> acked_attempt cfg s m /\ In m (log_of s (tp_of cfg m)).

Definition stmt_C01_write_errors_exact : Prop :=
  forall cfg ls s, cfg_ok cfg -> runs cfg ls s ->
  forall c cl we, nth_error (s_calls s) c = Some cl -> c_ph cl = CReturned (RWriteErrors we) ->
    length we = length (c_msgs cl) /\
    (exists i e, nth_error we i = Some (Some e)) /\
    forall i m o, nth_error (c_msgs cl) i = Some m -> nth_error we i = Some o ->
      (o = None <-> acked_attempt cfg s m) /\ last_attempt_seen s m o.

Definition stmt_C01_completion_once : Prop :=
  forall cfg ls s, cfg_ok cfg -> runs cfg ls s ->
    (* every message in at most one Completion event *)
    NoDup (flat_map (fun ce => map m_id (fst ce)) (s_compl s)) /\
    (* with the outcome of its last attempt, and it belongs to an accepted call *)
    (forall ms o m, In (ms, o) (s_compl s) -> In m ms ->
       last_attempt_seen s m o /\
       exists c cl, nth_error (s_calls s) c = Some cl /\ rejected cl = false /\ In m (c_msgs cl)) /\
    (* a synchronous call that returned nil or WriteErrors: each message was completed, with
       the outcome the call reports for it *)
    (async cfg = false ->
     forall c cl, nth_error (s_calls s) c = Some cl ->
       (c_ph cl = CReturned RNil ->
        forall m, In m (c_msgs cl) -> exists ms, In (ms, None) (s_compl s) /\ In m ms) /\
       (forall we, c_ph cl = CReturned (RWriteErrors we) ->
        forall i m o, nth_error (c_msgs cl) i = Some m -> nth_error we i = Some o ->
          exists ms, In (ms, o) (s_compl s) /\ In m ms)).

Definition stmt_C01_no_foreign_log : Prop :=
  forall cfg ls s, runs cfg ls s ->
  forall tp m, In (tp, m) (s_log s) -> tp = tp_of cfg m.

Definition stmt_C01_duplicates_only_by_retry : Prop :=
  forall cfg ls s, runs cfg ls s ->
    (* the log is exactly what the applied attempts appended, in order *)
    s_log s = flat_map (fun a => if a_applied a then map (pair (a_tp a)) (a_msgs a) else []) (s_journal s) /\
    (* two attempts sharing a message: the same batch, and the client saw the earlier one
       fail with an error it classifies as retriable *)
    (forall j1 a j2 b j3, s_journal s = j1 ++ a :: j2 ++ b :: j3 ->
       (exists m, In m (a_msgs a) /\ In m (a_msgs b)) ->
       a_msgs a = a_msgs b /\ a_tp a = a_tp b /\
       exists e, a_seen a = Some e /\ retriable cfg e = true) /\
    (* at most maxAttempts attempts per batch *)
    (forall p k, length (filter (fun a => Nat.eqb (a_pw a) p && Nat.eqb (a_k a) k) (s_journal s))
                 <= maxAttempts cfg).

(* ------------------------------------------------------------------ C09 (Writer) *)
Definition stmt_C09_w_after_close : Prop :=
  forall cfg s g msgs merr s',
    closed s = true -> step cfg s (Call g msgs merr) = Some s' ->
    s' = add_call s (s_wg s) (mkCall g msgs [] (CReturned (RErr EClosed))).

Definition active_calls (s : state) : nat := length (filter (fun c => negb (returned c)) (s_calls s)).
Definition alive_senders (s : state) : nat := length (filter pw_alive (s_pws s)).
Definition awaiters (s : state) : nat := length (flat_map pw_await (s_pws s)).

(* the WaitGroup counter is exactly the number of live accounted activities *)
Definition stmt_C09_w_waitgroup_exact : Prop :=
  forall cfg ls s, runs cfg ls s -> s_wg s = active_calls s + alive_senders s + awaiters s.

(* Close is never stuck: whenever it waits, some non-environment step is enabled *)
Definition stmt_C09_w_close_no_stuck : Prop :=
  forall cfg ls s, runs cfg ls s -> s_close s = ClWaiting ->
    exists l, is_env l = false /\ step cfg s l <> None.

Definition stmt_C09_w_close_never_stuck : Prop :=
  forall cfg ls s, runs cfg ls s -> ~ stuck cfg s.

Definition stmt_stuckb_sound : Prop :=
  forall cfg s, stuckb cfg s = true -> stuck cfg s.

(* when Close has returned: nothing is pending, every call has returned,
   every message of an accepted call was completed *)
Definition stmt_C09_w_close_post : Prop :=
  forall cfg ls s, runs cfg ls s -> s_close s = ClReturned ->
    (forall p pw, nth_error (s_pws s) p = Some pw ->
       pw_curr pw = None /\ pw_queue pw = [] /\ pw_snd pw = None /\ pw_alive pw = false /\ pw_await pw = []) /\
    (forall c cl, nth_error (s_calls s) c = Some cl -> returned cl = true) /\
    (forall c cl m, nth_error (s_calls s) c = Some cl -> rejected cl = false -> In m (c_msgs cl) ->
       exists ms o, In (ms, o) (s_compl s) /\ In m ms).
