(* Proofs/PagesReadFrom.v — pageBuffer.ReadFrom appends exactly the reader's bytes behind what the
   buffer already holds, whatever the fill of the tail page (k bytes held, n bytes read: k+n
   bytes with the same content), for all sizes; and it terminates. *)
From Coq Require Import List NArith Bool Arith Lia.
From KV Require Import Model.Pages Proofs.PagesProofs.
Import ListNotations.

Lemma page_size_pos : 0 < page_size.
Proof. unfold page_size. lia. Qed.

Lemma NoDup_snoc (l : list nat) p : NoDup l -> ~ In p l -> NoDup (l ++ [p]).
Proof.
  induction l as [|x l IH]; intros Hnd Hin; cbn [app]; [constructor; [intros []|constructor]|].
  apply NoDup_cons_iff in Hnd as [Hx Hnd]. constructor.
  - intros H. apply in_app_or in H as [H|[<-|[]]]; [exact (Hx H)|]. apply Hin. left. reflexivity.
  - apply IH; [exact Hnd|]. intros H. apply Hin. right. exact H.
Qed.

(* a live buffer whose page list has no duplicate *)
Definition buf_ok (s : pstate) (b : nat) (l : list nat) : Prop :=
  nth_error (s_bufs s) b = Some {| b_live := true; b_pages := l |} /\ NoDup l.

Lemma buf_ok_content s b l : buf_ok s b l ->
  buf_content s b = concat (map (fun p => p_data (get_page s p)) l).
Proof. intros [H _]. unfold buf_content. rewrite H. reflexivity. Qed.

Lemma buf_ok_tail s b l : buf_ok s b l ->
  buf_tail s b = Some (match rev l with [] => None | p :: _ => Some p end).
Proof. intros [H _]. unfold buf_tail. rewrite H. reflexivity. Qed.

Lemma buf_page_known s b l p : Inv s -> buf_ok s b l -> In p l ->
  p < length (s_pages s) /\ p_pool (get_page s p) = false.
Proof.
  intros I [Hb _] Hin.
  pose proof (buf_holds s b _ p I Hb eq_refl Hin) as Hr. split; [apply get_page_lt, Hr|].
  destruct (p_pool (get_page s p)) eqn:E; [|reflexivity].
  rewrite (inv_pool s I p E) in Hr. lia.
Qed.

Lemma map_data_ext (s s' : pstate) l :
  (forall q, In q l -> p_data (get_page s' q) = p_data (get_page s q)) ->
  map (fun p => p_data (get_page s' p)) l = map (fun p => p_data (get_page s p)) l.
Proof. intros H. apply map_ext_in. exact H. Qed.

(* ---- newPage: the buffer gains an empty page, its content is unchanged ---- *)
Lemma new_page_spec s b l src s1 : Inv s -> buf_ok s b l ->
  step s (ONewPage b src) = Some s1 ->
  exists p, buf_ok s1 b (l ++ [p]) /\ p_data (get_page s1 p) = [] /\
            (forall q, In q l -> p_data (get_page s1 q) = p_data (get_page s q)).
Proof.
  intros I Hok Hstep. pose proof Hok as [Hb Hnd]. cbn [step] in Hstep. rewrite Hb in Hstep. cbn [b_live negb b_pages] in Hstep.
  pose proof (nth_error_lt _ _ _ Hb) as Hblt.
  destruct src as [p|].
  - destruct (nth_error (s_pages s) p) as [pg|] eqn:Hp; [|discriminate].
    destruct (p_pool pg) eqn:Hpool; cbn [negb] in Hstep; [|discriminate].
    injection Hstep as <-. exists p.
    pose proof (nth_error_lt _ _ _ Hp) as Hplt.
    assert (Hpg : get_page s p = pg) by (apply nth_of_nth_error, Hp).
    assert (Hnotin : ~ In p l).
    { intros Hin. destruct (buf_page_known s b l p I Hok Hin) as [_ Hf]. rewrite Hpg, Hpool in Hf. discriminate. }
    split; [split|split].
    + cbn [s_bufs]. apply nth_error_upd_same. exact Hblt.
    + apply NoDup_snoc; assumption.
    + unfold get_page. cbn [s_pages]. rewrite nth_upd_same by exact Hplt. reflexivity.
    + intros q Hq. unfold get_page. cbn [s_pages]. rewrite nth_upd_other; [reflexivity|].
      intros ->. exact (Hnotin Hq).
  - injection Hstep as <-. exists (length (s_pages s)).
    assert (Hnotin : ~ In (length (s_pages s)) l).
    { intros Hin. destruct (buf_page_known s b l _ I Hok Hin) as [Hlt _]. lia. }
    split; [split|split].
    + cbn [s_bufs]. apply nth_error_upd_same. exact Hblt.
    + apply NoDup_snoc; assumption.
    + unfold get_page. cbn [s_pages]. rewrite app_nth2 by lia. rewrite Nat.sub_diag. reflexivity.
    + intros q Hq. unfold get_page. cbn [s_pages]. destruct (buf_page_known s b l q I Hok Hq) as [Hlt _].
      rewrite app_nth1 by exact Hlt. reflexivity.
Qed.

(* ---- tail.Write / tail.ReadFrom: the chunk lands behind the bytes of the tail page ---- *)
Lemma append_spec s b l p chunk s1 : Inv s -> buf_ok s b (l ++ [p]) ->
  step s (OAppend b chunk) = Some s1 ->
  buf_ok s1 b (l ++ [p]) /\ p_data (get_page s1 p) = p_data (get_page s p) ++ chunk /\
  (forall q, In q l -> p_data (get_page s1 q) = p_data (get_page s q)).
Proof.
  intros I Hok Hstep. pose proof Hok as [Hb Hnd]. cbn [step] in Hstep. rewrite Hb in Hstep. cbn [b_live negb b_pages] in Hstep.
  rewrite rev_app_distr in Hstep. cbn [rev app] in Hstep.
  destruct (nth_error (s_pages s) p) as [pg|] eqn:Hp; [|discriminate].
  destruct (page_size <? length (p_data pg) + length chunk); [discriminate|].
  injection Hstep as <-.
  pose proof (nth_error_lt _ _ _ Hp) as Hplt.
  assert (Hpg : get_page s p = pg) by (apply nth_of_nth_error, Hp).
  assert (Hnotin : ~ In p l).
  { apply NoDup_remove_2 with (l' := []) in Hnd. rewrite app_nil_r in Hnd. exact Hnd. }
  split; [split; [exact Hb|exact Hnd]|]. split.
  - unfold get_page at 1. cbn [s_pages]. rewrite nth_upd_same by exact Hplt. cbn [p_data]. rewrite Hpg. reflexivity.
  - intros q Hq. unfold get_page. cbn [s_pages]. rewrite nth_upd_other; [reflexivity|].
    intros ->. exact (Hnotin Hq).
Qed.

Lemma step_keeps_reads s o s1 : Inv s -> step s o = Some s1 -> (forall r, o <> OUnrefRef r) ->
  forall r bytes, read_ref s r = Some bytes -> read_ref s1 r = Some bytes.
Proof.
  intros I Hs Hne r bytes Hr. destruct (proj2 (step_preserves s o s1 I Hs) r bytes Hr) as [H|[H _]]; [exact H|].
  exfalso. exact (Hne r H).
Qed.

(* ------------------------------------------------------------------ partial correctness *)
Theorem pb_read_from_spec : forall fuel s b l data src s',
  Inv s -> buf_ok s b l -> pb_read_from fuel s b data src = Some s' ->
  Inv s' /\
  (exists l', buf_ok s' b (l ++ l')) /\
  buf_content s' b = buf_content s b ++ data /\
  (forall r bytes, read_ref s r = Some bytes -> read_ref s' r = Some bytes).
Proof.
  induction fuel as [|f IH]; intros s b l data src s' I Hok H; [discriminate|].
  cbn [pb_read_from] in H. rewrite (buf_ok_tail s b l Hok) in H.
  assert (Hnew : forall s1, step s (ONewPage b (hd None src)) = Some s1 ->
            pb_read_from f s1 b data (tl src) = Some s' ->
            Inv s' /\ (exists l', buf_ok s' b (l ++ l')) /\ buf_content s' b = buf_content s b ++ data /\
            (forall r bytes, read_ref s r = Some bytes -> read_ref s' r = Some bytes)).
  { intros s1 Hs1 Hrec.
    destruct (new_page_spec s b l _ s1 I Hok Hs1) as (p & Hok1 & Hempty & Hsame).
    pose proof (proj1 (step_preserves s _ s1 I Hs1)) as I1.
    destruct (IH s1 b (l ++ [p]) data (tl src) s' I1 Hok1 Hrec) as (I' & (l' & Hok') & Hc & Hr).
    split; [exact I'|]. split; [exists ([p] ++ l'); rewrite app_assoc; exact Hok'|]. split.
    - rewrite Hc. f_equal. rewrite (buf_ok_content s1 b _ Hok1), (buf_ok_content s b l Hok).
      rewrite map_app, concat_app. cbn [map concat]. rewrite Hempty. cbn [app]. rewrite app_nil_r.
      f_equal. apply map_data_ext. exact Hsame.
    - intros r bytes Hrd. apply Hr. apply (step_keeps_reads s _ s1 I Hs1); [intros r0 E; discriminate E|exact Hrd]. }
  destruct (rev l) as [|p t] eqn:Hrev.
  - destruct (step s (ONewPage b (hd None src))) as [s1|] eqn:Hs1; [|discriminate]. exact (Hnew s1 eq_refl H).
  - assert (Hl : l = rev t ++ [p]).
    { apply (f_equal (@rev nat)) in Hrev. rewrite rev_involutive in Hrev. exact Hrev. }
    cbn zeta in H.
    destruct (page_size - length (p_data (get_page s p)) =? 0) eqn:Hfree.
    + destruct (step s (ONewPage b (hd None src))) as [s1|] eqn:Hs1; [|discriminate]. exact (Hnew s1 eq_refl H).
    + set (free := page_size - length (p_data (get_page s p))) in *.
      destruct (step s (OAppend b (firstn free data))) as [s1|] eqn:Hs1; [|discriminate].
      rewrite Hl in Hok.
      destruct (append_spec s b (rev t) p _ s1 I Hok Hs1) as (Hok1 & Htail & Hsame).
      pose proof (proj1 (step_preserves s _ s1 I Hs1)) as I1.
      assert (Hc1 : buf_content s1 b = buf_content s b ++ firstn free data).
      { rewrite (buf_ok_content s1 b _ Hok1), (buf_ok_content s b _ Hok).
        rewrite !map_app, !concat_app. cbn [map concat]. rewrite Htail, !app_nil_r, app_assoc.
        f_equal. f_equal. f_equal. apply map_data_ext. exact Hsame. }
      assert (Hr1 : forall r bytes, read_ref s r = Some bytes -> read_ref s1 r = Some bytes).
      { intros r bytes Hrd. apply (step_keeps_reads s _ s1 I Hs1); [intros r0 E; discriminate E|exact Hrd]. }
      rewrite <- Hl in Hok1.
      destruct (length (firstn free data) <? free) eqn:Hshort.
      * injection H as <-. split; [exact I1|]. split; [exists []; rewrite app_nil_r; exact Hok1|]. split; [|exact Hr1].
        rewrite Hc1. f_equal. apply firstn_all2. apply Nat.ltb_lt in Hshort. rewrite firstn_length in Hshort. lia.
      * destruct (IH s1 b l (skipn free data) src s' I1 Hok1 H) as (I' & Hex & Hc & Hr).
        split; [exact I'|]. split; [exact Hex|]. split.
        -- rewrite Hc, Hc1, <- app_assoc, firstn_skipn. reflexivity.
        -- intros r bytes Hrd. apply Hr, Hr1, Hrd.
Qed.

(* ------------------------------------------------------------------ termination / enabledness *)
(* with nothing pooled (fresh pages), ReadFrom always completes: two loop rounds consume at
   least one byte *)
Theorem pb_read_from_total : forall fuel s b l data,
  Inv s -> buf_ok s b l -> 2 * length data + 3 <= fuel ->
  exists s', pb_read_from fuel s b data [] = Some s'.
Proof.
  assert (Hnp : forall s b l, buf_ok s b l -> exists s1, step s (ONewPage b None) = Some s1).
  { intros s b l [Hb _]. cbn [step]. rewrite Hb. cbn. eexists. reflexivity. }
  assert (Hap : forall s b l p chunk, Inv s -> buf_ok s b (l ++ [p]) ->
            length (p_data (get_page s p)) + length chunk <= page_size ->
            exists s1, step s (OAppend b chunk) = Some s1).
  { intros s b l p chunk I Hok Hle. pose proof Hok as [Hb _]. cbn [step]. rewrite Hb. cbn [b_live negb b_pages].
    rewrite rev_app_distr. cbn [rev app].
    destruct (buf_page_known s b _ p I Hok ltac:(apply in_or_app; right; left; reflexivity)) as [Hlt _].
    destruct (nth_error (s_pages s) p) as [pg|] eqn:Hp; [|apply nth_error_None in Hp; lia].
    assert (Hpg : get_page s p = pg) by (apply nth_of_nth_error, Hp). rewrite Hpg in Hle.
    destruct (Nat.ltb_spec page_size (length (p_data pg) + length chunk)); [lia|]. eexists. reflexivity. }
  (* measure: 2 * bytes left + 1 when the next round has to allocate *)
  assert (G : forall fuel s b l data, Inv s -> buf_ok s b l ->
            2 * length data + (match rev l with
                               | [] => 2
                               | p :: _ => if page_size - length (p_data (get_page s p)) =? 0 then 2 else 1
                               end) <= fuel ->
            exists s', pb_read_from fuel s b data [] = Some s').
  { induction fuel as [|f IH]; intros s b l data I Hok Hf.
    { exfalso. destruct (rev l) as [|p t]; [lia|]. destruct (_ =? 0); lia. }
    cbn [pb_read_from]. rewrite (buf_ok_tail s b l Hok). cbn [hd tl].
    assert (Halloc : 2 * length data + 2 <= S f ->
              exists s', match step s (ONewPage b None) with
                         | Some s1 => pb_read_from f s1 b data []
                         | None => None end = Some s').
    { intros Hf2. destruct (Hnp s b l Hok) as (s1 & Hs1). rewrite Hs1.
      destruct (new_page_spec s b l None s1 I Hok Hs1) as (p & Hok1 & Hempty & _).
      pose proof (proj1 (step_preserves s _ s1 I Hs1)) as I1.
      apply (IH s1 b (l ++ [p]) data I1 Hok1).
      rewrite rev_app_distr. cbn [rev app]. rewrite Hempty. cbn [length]. rewrite Nat.sub_0_r.
      pose proof page_size_pos. destruct (Nat.eqb_spec page_size 0); lia. }
    destruct (rev l) as [|p t] eqn:Hrev; [apply Halloc; lia|].
    assert (Hl : l = rev t ++ [p]).
    { apply (f_equal (@rev nat)) in Hrev. rewrite rev_involutive in Hrev. exact Hrev. }
    cbn zeta. destruct (Nat.eqb_spec (page_size - length (p_data (get_page s p))) 0) as [E|E]; [apply Halloc; lia|].
    set (free := page_size - length (p_data (get_page s p))) in *.
    rewrite Hl in Hok.
    destruct (Hap s b (rev t) p (firstn free data) I Hok) as (s1 & Hs1).
    { rewrite firstn_length. unfold free. lia. }
    rewrite Hs1.
    destruct (Nat.ltb_spec (length (firstn free data)) free) as [Hshort|Hfull]; [eexists; reflexivity|].
    destruct (append_spec s b (rev t) p _ s1 I Hok Hs1) as (Hok1 & Htail & _).
    pose proof (proj1 (step_preserves s _ s1 I Hs1)) as I1.
    rewrite <- Hl in Hok1.
    apply (IH s1 b l (skipn free data) I1 Hok1).
    rewrite Hrev, Htail, app_length, skipn_length. rewrite firstn_length in *.
    assert (free <= length data) by lia.
    replace (Nat.min free (length data)) with free in * by lia.
    replace (page_size - (length (p_data (get_page s p)) + free)) with 0 by (unfold free; lia).
    cbn [Nat.eqb]. lia. }
  intros fuel s b l data I Hok Hf. apply (G fuel s b l data I Hok).
  destruct (rev l) as [|p t]; [lia|]. destruct (_ =? 0); lia.
Qed.
