(* Proofs/RecordsFetch.v — both fetch paths on sequences of v2 batches: same records. *)
From Coq Require Import List NArith ZArith Bool Lia.
From KV Require Import Lib.Bits Lib.Bytes Lib.Crc Spec.RecordFormat Model.Records
  Proofs.RecordsCodec Proofs.RecordsSet Proofs.RecordsWriters Proofs.RecordsReaders Proofs.RecordsConn
  Proofs.RecordsReadersV1.
Import ListNotations.
Open Scope Z_scope.

Lemma outs_records_ctl bs : outs bs = map conn_view (records_ctl (map IBatch bs)).
Proof.
  unfold outs, records_ctl. induction bs as [|b bs IH]; [reflexivity|].
  cbn [map flat_map]. rewrite map_app, <- IH. f_equal.
  unfold records_of. cbn [negb]. rewrite andb_false_r. rewrite map_map. reflexivity.
Qed.

Lemma records_no_control bs : Forall (fun b => is_control (b_attrs b) = false) bs ->
  records (map IBatch bs) = records_ctl (map IBatch bs).
Proof.
  unfold records, records_ctl. induction 1 as [|b bs Hb Hs IH]; [reflexivity|].
  cbn [map flat_map]. rewrite IH. f_equal. unfold records_of. rewrite Hb. reflexivity.
Qed.

Lemma fetch_paths_agree_v2 : forall comp decomp : N -> list N -> list N,
  (forall c b, decomp c (comp c b) = b) ->
  forall bs fuel min,
  bs <> [] -> Forall (batch_ok' comp) bs -> zlen (enc_items comp (map IBatch bs)) < ZM31 ->
  (length (records_ctl (map IBatch bs)) < fuel)%nat ->
  proto_read decomp (enc_set comp (map IBatch bs)) = POut (records (map IBatch bs)) false /\
  msr_read decomp fuel min (enc_items comp (map IBatch bs)) =
    (map conn_view (records_ctl (map IBatch bs)), MEof) /\
  (Forall (fun b => is_control (b_attrs b) = false) bs ->
   exists recs, proto_read decomp (enc_set comp (map IBatch bs)) = POut recs false /\
                msr_read decomp fuel min (enc_items comp (map IBatch bs)) = (map conn_view recs, MEof) /\
                recs = records (map IBatch bs)).
Proof.
  intros comp decomp Hdc bs fuel min Hne Hok Hsz Hfuel.
  assert (Hp : proto_read decomp (enc_set comp (map IBatch bs)) = POut (records (map IBatch bs)) false).
  { apply proto_read_v2_batches; [exact Hdc| |exact Hsz].
    eapply Forall_impl; [|exact Hok]. intros b [H _]. exact H. }
  assert (Hm : msr_read decomp fuel min (enc_items comp (map IBatch bs)) =
               (map conn_view (records_ctl (map IBatch bs)), MEof)).
  { rewrite <- outs_records_ctl.
    replace (enc_items comp (map IBatch bs)) with (batches_bytes comp bs)
      by (unfold enc_items, batches_bytes; rewrite map_map; reflexivity).
    apply msr_read_v2_batches; [exact Hdc|exact Hne|exact Hok|].
    rewrite outs_records_ctl, map_length. exact Hfuel. }
  split; [exact Hp|]. split; [exact Hm|].
  intros Hnc. exists (records (map IBatch bs)). split; [exact Hp|]. split; [|reflexivity].
  rewrite (records_no_control bs Hnc). exact Hm.
Qed.

(* every record Client.Fetch hands out comes from a batch that is not a control batch *)
Lemma control_hidden_v2 : forall comp decomp : N -> list N -> list N,
  (forall c b, decomp c (comp c b) = b) ->
  forall bs, Forall (batch_ok comp) bs -> zlen (enc_items comp (map IBatch bs)) < ZM31 ->
  exists recs, proto_read decomp (enc_set comp (map IBatch bs)) = POut recs false /\
    (forall r, In r recs -> exists b, In b bs /\ is_control (b_attrs b) = false /\ In r (map (rec_of_rec2 b) (b_recs b))) /\
    (forall b r, In b bs -> is_control (b_attrs b) = false -> In r (map (rec_of_rec2 b) (b_recs b)) -> In r recs).
Proof.
  intros comp decomp Hdc bs Hok Hsz. exists (records (map IBatch bs)).
  split; [apply proto_read_v2_batches; assumption|]. unfold records. split.
  - intros r Hr. apply in_flat_map in Hr as (it & Hit & Hr). apply in_map_iff in Hit as (b & <- & Hb).
    exists b. split; [exact Hb|]. unfold records_of in Hr. cbn [negb] in Hr. rewrite andb_true_r in Hr.
    destruct (is_control (b_attrs b)); [destruct Hr|]. split; [reflexivity|exact Hr].
  - intros b r Hb Hc Hr. apply in_flat_map. exists (IBatch b). split; [apply in_map, Hb|].
    unfold records_of. rewrite Hc. exact Hr.
Qed.

Lemma crc_mismatch_v2 : forall comp decomp : N -> list N -> list N,
  (forall c b, decomp c (comp c b) = b) ->
  forall bs base epoch crc tail rest,
  Forall (batch_ok comp) bs -> in_i64 base -> 9 + zlen tail < ZM31 -> length crc = 4%nat ->
  get_be crc 0%N <> w32 (crc32c tail) ->
  let content := concat (map (enc_batch comp) bs) ++ raw_batch base epoch crc tail ++ rest in
  zlen content < ZM31 ->
  proto_read decomp (put_bes 4 (zlen content) ++ content) =
  POut (records (map IBatch bs)) (match bs with [] => true | _ => false end).
Proof. intros comp decomp Hdc. apply proto_read_crc_mismatch. exact Hdc. Qed.

Lemma control_hidden_items : forall comp decomp : N -> list N -> list N,
  (forall c b, decomp c (comp c b) = b) ->
  forall its, Forall (item_ok comp) its -> zlen (enc_items comp its) < ZM31 ->
  proto_read decomp (enc_set comp its) = POut (flat_map (records_of false) its) false /\
  (forall b, is_control (b_attrs b) = true -> records_of false (IBatch b) = []).
Proof.
  intros comp decomp Hdc its Hok Hsz. split.
  - apply (proto_read_items comp decomp Hdc its Hok Hsz).
  - intros b Hc. unfold records_of. rewrite Hc. reflexivity.
Qed.
