(* Proofs/LifecycleCalls.v — context cancellation and use after close of the blocking calls *)
From Coq Require Import List Arith Bool Lia.
From KV Require Import Lib.LTS Model.Lifecycle Proofs.LifecycleBase Proofs.LifecycleSafe Proofs.LifecycleGen Proofs.LifecyclePost.
Import ListNotations.

(* Every blocking point of FetchMessage / ReadMessage (PFSelect, and PCSelect / PCWait of the commit
   inside ReadMessage), CommitMessages (PCSelect, PCWait) and a Transport round trip (PTReady,
   PTAwait) has a <-ctx.Done() branch: whatever the state, once the context has ended the return
   with the context's error is enabled. *)
Theorem ctx_proof : forall s c k, panicked s = false ->
  nth_error (calls s) c = Some k -> blocked (k_ph k) = true -> k_ctx k = false ->
  exists s1 s2, step s (LCtx c) = Some s1 /\ step s1 (LRetCtx c) = Some s2 /\
    nth_error (calls s2) c = Some (mkCall (k_kind k) true (PDone RCtx)) /\
    hist s2 = ERet c RCtx :: ECtx c :: hist s.
Proof.
  intros s c k Hp Hc Hb Hx.
  set (k1 := mkCall (k_kind k) true (k_ph k)).
  set (s1 := ev (ECtx c) (set_calls (upd c k1 (calls s)) s)).
  assert (Hc1 : nth_error (calls s1) c = Some k1) by (cbn; eapply nth_upd_eq; eauto).
  exists s1, (ret c k1 RCtx s1). split.
  - unfold step. rewrite Hp, Hc, Hx. destruct (k_ph k) eqn:E; try discriminate; reflexivity.
  - split.
    + unfold step. replace (panicked s1) with false by (symmetry; exact Hp). rewrite Hc1. cbn [k_ph k_ctx k1].
      rewrite Hb. reflexivity.
    + split; [|reflexivity]. unfold ret, set_call, ev. cbn [calls set_calls set_hist]. 
      erewrite nth_upd_eq; [reflexivity|exact Hc1].
Qed.

Theorem ctx_already_proof : forall s c k, panicked s = false ->
  nth_error (calls s) c = Some k -> blocked (k_ph k) = true -> k_ctx k = true ->
  step s (LRetCtx c) = Some (ret c k RCtx s).
Proof. intros s c k Hp Hc Hb Hx. unfold step. rewrite Hp, Hc, Hb, Hx. reflexivity. Qed.

(* ---- use after close, full strength ----
   A call that began after a Close call had returned (late) is, for as long as it exists, either a
   FetchMessage / ReadMessage at the head of its loop (about to take r.mutex and find r.closed) or
   already returned with io.EOF, or a CommitMessages at its non-blocking closed check or already
   returned with io.ErrClosedPipe (without a group: errOnlyAvailableWithGroup). *)
Definition late_ok (g : bool) (k : call) : bool :=
  match k_kind k, k_ph k with
  | KTrip, _ => true
  | KFetch, PFLock | KFetch, PDone REOF | KRead, PFLock | KRead, PDone REOF => true
  | KCommit, PCCheck | KCommit, PDone RClosedPipe => true
  | KCommit, PDone ROther => negb g
  | _, _ => false
  end.
Definition inv6 (s : state) : Prop :=
  forall c k, nth_error (calls s) c = Some k ->
    exists late pre, call_info c (hist s) = Some (k_kind k, late, pre) /\
      (late = true -> existsb is_closed_ev (hist s) = true /\ late_ok (c_group (cfg s)) k = true).

Lemma reply_all_nth : forall cs ok s c k', nth_error (calls (reply_all cs ok s)) c = Some k' ->
  exists k, nth_error (calls s) c = Some k /\ k_kind k' = k_kind k /\ (k' = k \/ k_ph k = PCWait None).
Proof.
  induction cs; intros ok s c k' H; simpl in H; [eauto|].
  destruct (IHcs _ _ _ _ H) as (k1 & H1 & K1 & D1). clear H IHcs.
  unfold reply in H1. destruct (nth_error (calls s) a) eqn:E; [|eauto].
  destruct (k_ph c0) as [| | | |[rp|]| | |] eqn:P; eauto.
  unfold set_call in H1. cbn in H1. rewrite nth_upd in H1. destruct (Nat.eqb_spec a c).
  - subst. rewrite E in H1. inversion H1; subst k1. exists c0. split; auto. split; [rewrite K1; reflexivity|].
    right. exact P.
  - eauto.
Qed.

Lemma late_ok_wait : forall g k k', k_kind k' = k_kind k -> k_ph k = PCWait None -> late_ok g k = true -> late_ok g k' = true.
Proof. intros g k k' K P L. unfold late_ok in *. rewrite K. rewrite P in L. destruct (k_kind k); try discriminate. reflexivity. Qed.
(* ---- use after close: what does hold ---- *)
Theorem after_close_partial_proof : forall c ls s, run step (init c) ls = Some s -> close_returned s = true ->
  closed s = true /\ stctx s = true /\ all_exited s = true /\
  (forall l s', step s l = Some s' -> length (msgs s') <= length (msgs s)) /\
  (forall i, step s (LFRunErr i) = None) /\
  (forall i k v, nth_error (calls s) i = Some k -> k_ph k = PFSelect v -> msgs s = [] -> mclosed s = true ->
     step s (LFEof i) = Some (ret i k REOF s)) /\
  (forall i k, nth_error (calls s) i = Some k -> k_ph k = PCSelect ->
     step s (LCClosed i) = Some (ret i k RClosedPipe s) /\ (croom s = false -> step s (LCEnq i) = None)).
Proof.
  intros c ls s R H. destruct (invs_reach _ _ _ R) as [I1 I2]. destruct (inv4_reach _ _ _ R) as [_ Hp _].
  pose proof (close_returned_at _ H) as C6.
  assert (C5 : cl_at 5 s) by (apply (cl_at_mono 6); [lia|exact C6]).
  destruct (quiet_of _ I1 I2 C5) as [Q1 Q2 Q3 Q4 Q5].
  assert (Hc : closed s = true) by (apply (i_closed _ I1); apply (cl_at_mono 6); [lia|exact C6]).
  assert (Hs : stctx s = true) by (apply (i_stctx _ I1); apply (cl_at_mono 6); [lia|exact C6]).
  split; auto. split; auto. split; auto. split.
  { intros l s' St. destruct l; step_inv St; unf; try rewrite reply_all_calls_only; destr_goal; cbn; auto;
    try fexit_contra; try (rewrite Heql0 || rewrite Heql); cbn; auto. }
  split.
  { intros i. unfold step. rewrite Hp. destruct (nth_error (calls s) i); auto.
    destruct Q4 as [E|E]; rewrite E; reflexivity. }
  split.
  { intros i k v Hk Hph Hm Hmc. unfold step. rewrite Hp, Hk, Hm, Hph, Hmc. reflexivity. }
  intros i k Hk Hph. split.
  - unfold step. rewrite Hp, Hk, Hph, Hs. reflexivity.
  - intros Hr. unfold step. rewrite Hp, Hk, Hph, Hr. reflexivity.
Qed.

(* ---- use after close: what the code does not do ---- *)
Theorem after_close_fetch_refuted_proof :
  exists s, run step (init (cfg_p 4)) wit_fetch_buffered = Some s /\
    close_returned s = true /\ map k_ph (calls s) = [PDone RMsg; PDone RMsg] /\
    mon_late_fetch (hist s) = false /\ mon_after_close (hist s) = false.
Proof. eexists. split; [vm_compute; reflexivity|]. repeat split; vm_compute; reflexivity. Qed.

Definition wit_commit_async : list label :=
  firstn (length wit_commit_enqueued - 2) wit_commit_enqueued.

Theorem after_close_commit_refuted_proof :
  (exists s, run step (init (cfg_g true 4)) wit_commit_enqueued = Some s /\
     close_returned s = true /\ map k_ph (calls s) = [PDone RCtx] /\ commits s = [0] /\
     live s = 0 /\ mon_late_commit (hist s) = false /\ mon_after_close (hist s) = false) /\
  (exists s, run step (init (cfg_g false 4)) wit_commit_async = Some s /\
     close_returned s = true /\ map k_ph (calls s) = [PDone RNil] /\ commits s = [0] /\
     live s = 0 /\ mon_late_commit (hist s) = false).
Proof.
  split; eexists; (split; [vm_compute; reflexivity|]); repeat split; vm_compute; reflexivity.
Qed.

Theorem leave_strict_refuted_proof :
  exists s, run step (init (cfg_g true 4)) wit_no_leave = Some s /\ close_returned s = true /\
    live s = 0 /\ mon_leave (hist s) = true /\ mon_leave_strict (hist s) = false /\
    In (EJoined 1) (hist s) /\ ~ In (EReq ALeave 1) (hist s).
Proof.
  eexists. split; [vm_compute; reflexivity|]. split; [vm_compute; reflexivity|]. split; [vm_compute; reflexivity|].
  split; [vm_compute; reflexivity|]. split; [vm_compute; reflexivity|]. split.
  - vm_compute. tauto.
  - vm_compute. intros H. repeat (destruct H as [H|H]; [discriminate|]). exact H.
Qed.
