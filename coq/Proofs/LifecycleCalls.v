(* Proofs/LifecycleCalls.v — context cancellation and use after close of the blocking calls *)
From Coq Require Import List Arith Bool Lia.
From KV Require Import Lib.LTS Model.Lifecycle Proofs.LifecycleBase Proofs.LifecycleSafe Proofs.LifecycleGen Proofs.LifecyclePost.
Import ListNotations.

(* Every blocking point of FetchMessage / ReadMessage (PFSelect, and PCSelect / PCWait of the commit
   inside ReadMessage), CommitMessages (PCSelect, PCWait) and a Transport round trip (PTReady,
   PTAwait) has a <-ctx.Done() branch: whatever the state, once the context has ended the return
   with the context's error is enabled. *)
Theorem ctx_proof : forall s c k, panicked s = false ->
  nth_error (calls s) c = Some k -> blocked (k_ph k) = true -> k_ctx k = false ->
  exists s1 s2, step s (LCtx c) = Some s1 /\ step s1 (LRetCtx c) = Some s2 /\
    nth_error (calls s2) c = Some (mkCall (k_kind k) true (PDone RCtx)) /\
    hist s2 = ERet c RCtx :: ECtx c :: hist s.
Proof.
  intros s c k Hp Hc Hb Hx.
  set (k1 := mkCall (k_kind k) true (k_ph k)).
  set (s1 := ev (ECtx c) (set_calls (upd c k1 (calls s)) s)).
  assert (Hc1 : nth_error (calls s1) c = Some k1) by (cbn; eapply nth_upd_eq; eauto).
  exists s1, (ret c k1 RCtx s1). split.
  - unfold step. rewrite Hp, Hc, Hx. destruct (k_ph k) eqn:E; try discriminate; reflexivity.
  - split.
    + unfold step. replace (panicked s1) with false by (symmetry; exact Hp). rewrite Hc1. cbn [k_ph k_ctx k1].
      rewrite Hb. reflexivity.
    + split; [|reflexivity]. unfold ret, set_call, ev. cbn [calls set_calls set_hist]. 
      erewrite nth_upd_eq; [reflexivity|exact Hc1].
Qed.

Theorem ctx_already_proof : forall s c k, panicked s = false ->
  nth_error (calls s) c = Some k -> blocked (k_ph k) = true -> k_ctx k = true ->
  step s (LRetCtx c) = Some (ret c k RCtx s).
Proof. intros s c k Hp Hc Hb Hx. unfold step. rewrite Hp, Hc, Hb, Hx. reflexivity. Qed.

(* ---- use after close, full strength ----
   A call that began after a Close call had returned (late) is, for as long as it exists, either a
   FetchMessage / ReadMessage at the head of its loop (about to take r.mutex and find r.closed) or
   already returned with io.EOF, or a CommitMessages at its non-blocking closed check or already
   returned with io.ErrClosedPipe (without a group: errOnlyAvailableWithGroup). *)
Definition late_ok (g : bool) (k : call) : bool :=
  match k_kind k, k_ph k with
  | KTrip, _ => true
  | KFetch, PFLock | KFetch, PDone REOF | KRead, PFLock | KRead, PDone REOF => true
  | KCommit, PCCheck | KCommit, PDone RClosedPipe => true
  | KCommit, PDone ROther => negb g
  | _, _ => false
  end.
Definition inv6 (g : bool) (s : state) : Prop :=
  forall c k, nth_error (calls s) c = Some k ->
    exists late pre, call_info c (hist s) = Some (k_kind k, late, pre) /\
      (late = true -> existsb is_closed_ev (hist s) = true /\ late_ok g k = true).

Lemma reply_all_nth : forall cs ok s c k', nth_error (calls (reply_all cs ok s)) c = Some k' ->
  exists k, nth_error (calls s) c = Some k /\ k_kind k' = k_kind k /\ (k' = k \/ k_ph k = PCWait None).
Proof.
  induction cs; intros ok s c k' H; simpl in H; [exists k'; auto|].
  destruct (IHcs _ _ _ _ H) as (k1 & H1 & K1 & D1). clear H IHcs.
  unfold reply in H1. destruct (nth_error (calls s) a) eqn:E; [|exists k1; auto].
  destruct (k_ph c0) as [| | | |[rp|]| | |] eqn:P; try (exists k1; auto; fail).
  unfold set_call in H1. cbn in H1. rewrite nth_upd in H1. destruct (Nat.eqb_spec a c).
  - subst. rewrite E in H1. inversion H1; subst k1. exists c0. cbn in K1. auto.
  - exists k1. auto.
Qed.

Lemma late_ok_wait : forall g k k', k_kind k' = k_kind k -> k_ph k = PCWait None -> late_ok g k = true -> late_ok g k' = true.
Proof. intros g k k' K P L. unfold late_ok in *. rewrite K. rewrite P in L. destruct (k_kind k); try discriminate. reflexivity. Qed.
Ltac inv6_same IH :=
  let c1 := fresh "c1" in let k1 := fresh "k1" in let Hn := fresh "Hn" in
  intros c1 k1 Hn; cbn in Hn;
  destruct (IH c1 k1 Hn) as (late & pre & Hi & Hl); exists late, pre; split;
  [cbn; exact Hi | intros L; destruct (Hl L) as [L1 L2]; split; [cbn; rewrite ?L1, ?orb_true_r; reflexivity | exact L2]].
(* call c0 changes phase: the proof obligation is late_ok of the new record *)
Ltac inv6_upd IH c0 E :=
  let c1 := fresh "c1" in let k1 := fresh "k1" in let Hn := fresh "Hn" in
  intros c1 k1 Hn; cbn in Hn; rewrite nth_upd in Hn; destruct (Nat.eqb_spec c0 c1);
  [ subst c1; rewrite E in Hn; injection Hn as Hn; subst k1;
    destruct (IH c0 _ E) as (late & pre & Hi & Hl); exists late, pre; split;
    [cbn; exact Hi | intros L; destruct (Hl L) as [L1 L2]; split; [cbn; rewrite ?L1, ?orb_true_r; reflexivity | ]]
  | destruct (IH c1 k1 Hn) as (late & pre & Hi & Hl); exists late, pre; split;
    [cbn; exact Hi | intros L; destruct (Hl L) as [L1 L2]; split; [cbn; rewrite ?L1, ?orb_true_r; reflexivity | exact L2]] ].

Lemma inv6_step : forall g s l s', c_group (cfg s) = g ->
  (existsb is_closed_ev (hist s) = true -> closed s = true /\ stctx s = true) ->
  inv6 g s -> step s l = Some s' -> inv6 g s'.
Proof.
  intros g s l s' G Q IH St. unfold inv6 in *.
  destruct l;
  try solve [ step_inv St; unf; try rewrite reply_all_calls_only; destr_goal; inv6_same IH ];
  try solve [ step_inv St; unf; destr_goal;
              match goal with E : nth_error (calls s) ?c0 = Some _ |- _ => inv6_upd IH c0 E end;
              unfold late_ok in *; cbn in *;
              repeat match goal with P : k_ph _ = _ |- _ => rewrite P in *; revert P end; intros;
              destr_in L2; try discriminate; try reflexivity;
              try (destruct (Q L1) as [Qa Qb]; congruence) ].
  - (* LCall *)
    step_inv St; try subst g; intros c1 k1 Hn; cbn in Hn; apply nth_app_cases in Hn as [Hn|[Ec Ek]];
    first
    [ subst c1 k1; eexists; eexists; split;
      [cbn; rewrite Nat.eqb_refl; reflexivity
      |intros L; split; [cbn; rewrite L; rewrite ?orb_true_r; reflexivity|try reflexivity; cbn; rewrite ?Heqb; reflexivity]]
    | pose proof (nth_some_lt _ _ _ _ Hn) as Lt; destruct (IH c1 k1 Hn) as (late & pre & Hi & Hl); exists late, pre; split;
      [cbn; destruct (Nat.eqb_spec c1 (length (calls s))); [lia|exact Hi]
      |intros L; destruct (Hl L) as [L1 L2]; split; [cbn; rewrite ?L1, ?orb_true_r; reflexivity|exact L2]] ].
  - (* LClCommit *)
    step_inv St; unf; try rewrite reply_all_calls_only; destr_goal;
    first
    [ inv6_same IH
    | intros c1 k1 Hn; cbn in Hn; apply reply_all_nth in Hn as (k0 & H0 & K0 & D0); cbn in H0;
      destruct (IH c1 k0 H0) as (late & pre & Hi & Hl); exists late, pre; split;
      [cbn; rewrite K0; exact Hi
      |intros L; destruct (Hl L) as [L1 L2]; split;
       [cbn; rewrite ?L1, ?orb_true_r; reflexivity
       |destruct D0 as [D0|D0]; [subst k1; exact L2|eapply late_ok_wait; eauto]]] ].
  - (* LClSeeStop *)
    step_inv St; unf; try rewrite reply_all_calls_only; destr_goal;
    first
    [ inv6_same IH
    | intros c1 k1 Hn; cbn in Hn; apply reply_all_nth in Hn as (k0 & H0 & K0 & D0); cbn in H0;
      destruct (IH c1 k0 H0) as (late & pre & Hi & Hl); exists late, pre; split;
      [cbn; rewrite K0; exact Hi
      |intros L; destruct (Hl L) as [L1 L2]; split;
       [cbn; rewrite ?L1, ?orb_true_r; reflexivity
       |destruct D0 as [D0|D0]; [subst k1; exact L2|eapply late_ok_wait; eauto]]] ].
Qed.

Lemma inv6_reach : forall c ls s, run step (init c) ls = Some s -> inv6 (c_group c) s.
Proof.
  intros c. apply (reach_ind2 c (fun s => cfg s = c /\ (existsb is_closed_ev (hist s) = true -> closed s = true /\ stctx s = true))).
  - intros ls s R. split; [eapply cfg_reach; eauto|]. intros H.
    destruct (invs_reach _ _ _ R) as [I1 _]. pose proof (inv_h1_reach _ _ _ R H) as C6. split.
    + apply (i_closed _ I1). apply (cl_at_mono 6); [lia|exact C6].
    + apply (i_stctx _ I1). apply (cl_at_mono 6); [lia|exact C6].
  - intros i k H. destruct i; discriminate.
  - intros s l s' [E Q] _ IH St. eapply inv6_step; eauto. rewrite E. reflexivity.
Qed.

Lemma after_close_step : forall g s l s', c_group (cfg s) = g ->
  (existsb is_closed_ev (hist s) = true -> closed s = true /\ stctx s = true) ->
  inv6 g s -> mon_after_close g (hist s) = true -> step s l = Some s' -> mon_after_close g (hist s') = true.
Proof.
  intros g s l s' G Q I6 IH St.
  destruct l;
  try solve [ step_inv St; unf; try rewrite reply_all_calls_only; destr_goal; cbn; rewrite ?IH; reflexivity ].
  all: step_inv St; unf; destr_goal; cbn; rewrite ?IH, ?andb_true_r; try reflexivity;
       try (rewrite Nat.eqb_refl; cbn; subst g; try reflexivity; match goal with |- context [existsb is_closed_ev ?h] => destruct (existsb is_closed_ev h) end; reflexivity);
       match goal with E : nth_error (calls ?s0) ?c0 = Some ?k0 |- _ =>
         destruct (I6 c0 k0 E) as (late & pre & Hi & Hl); rewrite Hi; destruct late; [|reflexivity];
         destruct (Hl eq_refl) as [L1 L2]; destruct (Q L1) as [Qa Qb]; unfold late_ok in L2;
         repeat match goal with P : k_ph _ = _ |- _ => rewrite P in L2; revert P end; intros;
         destruct (k_kind k0); try discriminate; try reflexivity; try congruence
       end.
  all: destruct (k_ph c0); cbn in *; discriminate.
Qed.

Theorem after_close_full_proof : forall c ls s, run step (init c) ls = Some s ->
  mon_after_close (c_group c) (hist s) = true /\
  (forall i k late pre, nth_error (calls s) i = Some k -> call_info i (hist s) = Some (k_kind k, late, pre) ->
     late = true -> k_kind k <> KTrip ->
     blocked (k_ph k) = false /\ k_ph k <> PCSelect /\
     (k_ph k = PFLock \/ k_ph k = PCCheck \/ exists r, k_ph k = PDone r) /\
     (k_ph k = PFLock -> step s (LFLock i) = Some (ret i k REOF s)) /\
     (k_ph k = PCCheck -> step s (LCCheck i) = Some (ret i k RClosedPipe s))).
Proof.
  intros c ls s R. split.
  - revert ls s R.
    apply (reach_ind2 c (fun s => cfg s = c /\ inv6 (c_group c) s /\
             (existsb is_closed_ev (hist s) = true -> closed s = true /\ stctx s = true))).
    + intros ls s R. split; [eapply cfg_reach; eauto|]. split; [eapply inv6_reach; eauto|]. intros H.
      destruct (invs_reach _ _ _ R) as [I1 _]. pose proof (inv_h1_reach _ _ _ R H) as C6. split.
      * apply (i_closed _ I1). apply (cl_at_mono 6); [lia|exact C6].
      * apply (i_stctx _ I1). apply (cl_at_mono 6); [lia|exact C6].
    + reflexivity.
    + intros s l s' (E & I6 & Q) _ IH St. eapply after_close_step; eauto. rewrite E. reflexivity.
  - intros i k late pre Hk Hi Hl Hn. pose proof (inv6_reach _ _ _ R i k Hk) as (late' & pre' & Hi' & Hl').
    rewrite Hi in Hi'. inversion Hi'; subst late' pre'. destruct (Hl' Hl) as [L1 L2].
    destruct (invs_reach _ _ _ R) as [I1 _]. pose proof (inv_h1_reach _ _ _ R L1) as C6.
    destruct (inv4_reach _ _ _ R) as [_ Hp _].
    assert (Hc : closed s = true) by (apply (i_closed _ I1); apply (cl_at_mono 6); [lia|exact C6]).
    assert (Hs : stctx s = true) by (apply (i_stctx _ I1); apply (cl_at_mono 6); [lia|exact C6]).
    unfold late_ok in L2.
    destruct (k_kind k) eqn:K; try congruence;
      destruct (k_ph k) as [| | | |rp| | |r] eqn:P; try discriminate; try (destruct r; try discriminate);
      (split; [reflexivity|]); (split; [discriminate|]);
      (split; [eauto|]); split; intros X; try discriminate;
      unfold step; rewrite Hp, Hk, P, ?Hc, ?Hs; reflexivity.
Qed.

(* ---- the state once a Close call has returned ---- *)
Theorem after_close_state_proof : forall c ls s, run step (init c) ls = Some s -> close_returned s = true ->
  closed s = true /\ stctx s = true /\ all_exited s = true /\
  (forall l s', step s l = Some s' -> length (msgs s') <= length (msgs s)) /\
  (forall i, step s (LFRunErr i) = None) /\
  (forall i k v, nth_error (calls s) i = Some k -> k_ph k = PFSelect v -> msgs s = [] -> mclosed s = true ->
     step s (LFEof i) = Some (ret i k REOF s)) /\
  (forall i k, nth_error (calls s) i = Some k -> k_ph k = PCSelect ->
     step s (LCClosed i) = Some (ret i k RClosedPipe s) /\ (croom s = false -> step s (LCEnq i) = None)).
Proof.
  intros c ls s R H. destruct (invs_reach _ _ _ R) as [I1 I2]. destruct (inv4_reach _ _ _ R) as [_ Hp _].
  pose proof (close_returned_at _ H) as C6.
  assert (C5 : cl_at 5 s) by (apply (cl_at_mono 6); [lia|exact C6]).
  destruct (quiet_of _ I1 I2 C5) as [Q1 Q2 Q3 Q4 Q5].
  assert (Hc : closed s = true) by (apply (i_closed _ I1); apply (cl_at_mono 6); [lia|exact C6]).
  assert (Hs : stctx s = true) by (apply (i_stctx _ I1); apply (cl_at_mono 6); [lia|exact C6]).
  split; auto. split; auto. split; auto. split.
  { intros l s' St. destruct l; step_inv St; unf; try rewrite reply_all_calls_only; destr_goal; cbn; auto;
    try fexit_contra; try (rewrite Heql0 || rewrite Heql); cbn; auto. }
  split.
  { intros i. unfold step. rewrite Hp. destruct (nth_error (calls s) i); auto.
    destruct Q4 as [E|E]; rewrite E; reflexivity. }
  split.
  { intros i k v Hk Hph Hm Hmc. unfold step. rewrite Hp, Hk, Hm, Hph, Hmc. reflexivity. }
  intros i k Hk Hph. split.
  - unfold step. rewrite Hp, Hk, Hph, Hs. reflexivity.
  - intros Hr. unfold step. rewrite Hp, Hk, Hph, Hr. reflexivity.
Qed.


(* ---- regression schedules of the three former defects ---- *)
Theorem after_close_regressions_proof :
  (exists s, run step (init (cfg_p 4)) wit_fetch_buffered = Some s /\ close_returned s = true /\
     map k_ph (calls s) = [PDone RMsg; PDone REOF] /\ msgs s = [1] /\ C09R_holds false (hist s) = true) /\
  (exists s, run step (init (cfg_g true 4)) wit_commit_enqueued = Some s /\ close_returned s = true /\
     map k_ph (calls s) = [PDone RClosedPipe] /\ commits s = [] /\ live s = 0 /\ C09R_holds true (hist s) = true) /\
  (exists s, run step (init (cfg_g true 4)) wit_no_leave = Some s /\ close_returned s = true /\ live s = 0 /\
     C09R_holds true (hist s) = true /\ In (EJoined 1) (hist s) /\ In (EReq ALeave 1) (hist s) /\ mid s = None).
Proof.
  split; [|split]; eexists; (split; [vm_compute; reflexivity|]); repeat split; vm_compute; try reflexivity; tauto.
Qed.
