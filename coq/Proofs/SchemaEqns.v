(* Proofs/SchemaEqns.v — named versions of the local fixpoints inside encode/decode
   and the unfolding equations (all by conversion). *)
From Coq Require Import List NArith ZArith Bool Lia.
From KV Require Import Lib.Bits Lib.Bytes Lib.Varint Model.Schema Proofs.SchemaBase Proofs.SchemaDefs.
Import ListNotations.

Definition enc_list (E : value -> option (list N)) : list value -> option (list N) :=
  fix go (l : list value) : option (list N) :=
    match l with
    | [] => Some []
    | x :: r => match E x, go r with
                | Some bx, Some br => Some (bx ++ br)
                | _, _ => None
                end
    end.

Definition enc_fields (E : ty -> value -> option (list N)) : list ty -> list value -> option (list N) :=
  fix go (tl : list ty) (vl : list value) : option (list N) :=
    match tl, vl with
    | [], [] => Some []
    | ft :: tr, fv :: vr =>
        match E ft fv, go tr vr with
        | Some bx, Some br => Some (bx ++ br)
        | _, _ => None
        end
    | _, _ => None
    end.

Definition enc_tags (E : ty -> value -> option (list N)) : list (Z * ty) -> list value -> option (N * list N) :=
  fix go (tl : list (Z * ty)) (vl : list value) : option (N * list N) :=
    match tl, vl with
    | [], [] => Some (0%N, [])
    | (id, ft) :: tr, fv :: vr =>
        match go tr vr with
        | None => None
        | Some (cnt, br) =>
          if is_marker ft then Some (cnt, br)
          else match E ft fv with
               | None => None
               | Some bx =>
                 Some ((cnt + 1)%N,
                       put_uvarint (u64 id) ++ put_uvarint (N.of_nat (length bx)) ++ bx ++ br)
               end
        end
    | _, _ => None
    end.

Lemma encode_array_eq flex nullable esize elem a pad :
  encode flex (TArray nullable esize elem) (VArray a pad) =
  if negb (pad =? 0)%N then None else
  let es := match a with None => [] | Some l => l end in
  match enc_list (encode flex elem) es with
  | None => None
  | Some bb =>
    if flex then
      if nullable && (match a with None => true | _ => false end) then Some (put_uvarint 0)
      else Some (put_uvarint (N.of_nat (length es) + 1) ++ bb)
    else
      if nullable && (match a with None => true | _ => false end) then Some (enc_i32 (-1))
      else Some (enc_i32 (lenZ es) ++ bb)
  end.
Proof. reflexivity. Qed.

Lemma encode_struct_eq flex fields tagged fs ts :
  encode flex (TStruct fields tagged) (VStruct fs ts) =
  match enc_fields (encode flex) fields fs, enc_tags (encode flex) tagged ts with
  | Some br, Some (cnt, bt) => if flex then Some (br ++ put_uvarint cnt ++ bt) else Some br
  | _, _ => None
  end.
Proof. reflexivity. Qed.

(* ---- decode ---- *)
Definition dec_fields (D : ty -> dstate -> res value) : list ty -> dstate -> res (list value) :=
  fix go (tl : list ty) (s : dstate) : res (list value) :=
    match tl with
    | [] => Ok [] s
    | ft :: tr => bind (D ft s) (fun v s => bind (go tr s) (fun vs s => Ok (v :: vs) s))
    end.

Definition zeros_of : list (Z * ty) -> list value :=
  fix go (l : list (Z * ty)) : list value :=
    match l with [] => [] | (_, x) :: r => zero x :: go r end.

Definition dec_tag_from (D : ty -> dstate -> res value) (id : Z) (s : dstate)
  : list (Z * ty) -> nat -> option (nat * res value) :=
  fix go (l : list (Z * ty)) (i : nat) : option (nat * res value) :=
    match l with
    | [] => None
    | (k, ft) :: r =>
        match go r (S i) with
        | Some x => Some x
        | None => if (k =? id)%Z then Some (i, D ft s) else None
        end
    end.

Definition tag_loop (c : cfg) (D : ty -> dstate -> res value) (tagged : list (Z * ty)) (fs : list value)
  : list N -> Z -> list value -> dstate -> res value :=
  fix loop (fuel : list N) (n : Z) (ts : list value) (s : dstate) {struct fuel} : res value :=
    if (n <=? 0)%Z then Ok (VStruct fs ts) s
    else match fuel with
         | [] => OutOfFuel
         | _ :: fuel' =>
           let step : res (list value) :=
             bind (read_uvarint s) (fun tagid s =>
             bind (read_uvarint s) (fun size s =>
               match dec_tag_from D (int_of_u64 tagid) s tagged O with
               | Some (i, r) => bind r (fun v s => Ok (set_nth ts i v) s)
               | None => bind (read_alloc c (int_of_u64 size) s) (fun _ s => Ok ts s)
               end)) in
           match step with
           | Ok ts' s' => loop fuel' (n - 1)%Z ts' s'
           | Err e ra al => Err e ra al
           | Panic => Panic | Oom => Oom | OutOfFuel => OutOfFuel
           end
         end.

Lemma decode_struct_eq c flex fields tagged s :
  decode c flex (TStruct fields tagged) s =
  bind (dec_fields (decode c flex) fields s) (fun fs s =>
    if negb flex then Ok (VStruct fs (zeros_of tagged)) s
    else bind (read_uvarint s) (fun cnt s =>
           tag_loop c (decode c flex) tagged fs (0%N :: 0%N :: s.(d_in)) (int_of_u64 cnt) (zeros_of tagged) s)).
Proof. reflexivity. Qed.

Lemma decode_array_eq c flex nullable esize elem s :
  decode c flex (TArray nullable esize elem) s =
  let body (n : Z) (s : dstate) : res value :=
    bind (alloc c n esize s) (fun _ s =>
    bind (elems_loop (decode c flex elem) (0%N :: s.(d_in)) (Z.to_N n) s) (fun r s =>
      Ok (VArray (Some (fst r)) (snd r)) s)) in
  if flex then
    bind (read_uvarint s) (fun n s =>
      if (n <? 1)%N then Ok (VArray None 0) s
      else if (s.(d_remain) <? 0)%Z || (s.(d_remain) <? Z.of_N (n - 1))%Z then fail EEof s
      else body (Z.of_N (n - 1)) s)
  else
    bind (read_int 4 s) (fun n s =>
      if (n <? 0)%Z then Ok (VArray None 0) s
      else if (s.(d_remain) <? n)%Z then fail EEof s
      else body n s).
Proof. reflexivity. Qed.

Lemma zero_struct_eq fields tagged :
  zero (TStruct fields tagged) = VStruct (map zero fields) (zeros_of tagged).
Proof. reflexivity. Qed.

(* named versions of the local fixpoints of wfb / canon / alloc_of *)
Definition wf_list (W : value -> bool) : list value -> bool :=
  fix go (l : list value) : bool := match l with [] => true | x :: r => W x && go r end.
Definition wf_fields (W : ty -> value -> bool) : list ty -> list value -> bool :=
  fix go (tl : list ty) (vl : list value) : bool :=
    match tl, vl with
    | [], [] => true
    | ft :: tr, fv :: vr => W ft fv && go tr vr
    | _, _ => false
    end.
Definition wf_tags (W : ty -> value -> bool) : list (Z * ty) -> list value -> bool :=
  fix go (tl : list (Z * ty)) (vl : list value) : bool :=
    match tl, vl with
    | [], [] => true
    | (_, ft) :: tr, fv :: vr => W ft fv && go tr vr
    | _, _ => false
    end.
Lemma wfb_array_eq flex nullable esize elem a pad :
  wfb flex (TArray nullable esize elem) (VArray a pad) =
  (pad =? 0)%N &&
  let es := match a with None => [] | Some l => l end in
  (Z.of_nat (length es) <? ZM31)%Z && wf_list (wfb flex elem) es.
Proof. reflexivity. Qed.
Lemma wfb_struct_eq flex fields tagged fs ts :
  wfb flex (TStruct fields tagged) (VStruct fs ts) =
  wf_fields (wfb flex) fields fs && wf_tags (wfb flex) tagged ts.
Proof. reflexivity. Qed.

Definition canon_list (C : value -> value) : list value -> list value :=
  fix go (l : list value) : list value := match l with [] => [] | x :: r => C x :: go r end.
Definition canon_fields (C : ty -> value -> value) : list ty -> list value -> list value :=
  fix go (tl : list ty) (vl : list value) : list value :=
    match tl, vl with
    | ft :: tr, fv :: vr => C ft fv :: go tr vr
    | _, _ => []
    end.
Definition canon_tags (C : ty -> value -> value) : list (Z * ty) -> list value -> list value :=
  fix go (tl : list (Z * ty)) (vl : list value) : list value :=
    match tl, vl with
    | (_, ft) :: tr, fv :: vr => C ft fv :: go tr vr
    | _, _ => []
    end.
Lemma canon_array_eq nullable esize elem a pad :
  canon (TArray nullable esize elem) (VArray a pad) =
  match a with
  | None => if nullable then VArray None 0 else VArray (Some []) 0
  | Some es => VArray (Some (canon_list (canon elem) es)) pad
  end.
Proof. reflexivity. Qed.
Lemma canon_struct_eq fields tagged fs ts :
  canon (TStruct fields tagged) (VStruct fs ts) =
  VStruct (canon_fields canon fields fs) (canon_tags canon tagged ts).
Proof. reflexivity. Qed.

Definition alloc_list (A : value -> N) : list value -> N :=
  fix go (l : list value) : N := match l with [] => 0%N | x :: r => (A x + go r)%N end.
Definition alloc_fields (A : ty -> value -> N) : list ty -> list value -> N :=
  fix go (tl : list ty) (vl : list value) : N :=
    match tl, vl with
    | ft :: tr, fv :: vr => (A ft fv + go tr vr)%N
    | _, _ => 0%N
    end.
Definition alloc_tags (A : ty -> value -> N) : list (Z * ty) -> list value -> N :=
  fix go (tl : list (Z * ty)) (vl : list value) : N :=
    match tl, vl with
    | (_, ft) :: tr, fv :: vr => ((if is_marker ft then 0 else A ft fv) + go tr vr)%N
    | _, _ => 0%N
    end.
Lemma alloc_array_eq nullable esize elem a pad :
  alloc_of (TArray nullable esize elem) (VArray a pad) =
  match a with
  | None => 0%N
  | Some es => (N.of_nat (length es) * esize + alloc_list (alloc_of elem) es)%N
  end.
Proof. reflexivity. Qed.
Lemma alloc_struct_eq fields tagged fs ts :
  alloc_of (TStruct fields tagged) (VStruct fs ts) =
  (alloc_fields alloc_of fields fs + alloc_tags alloc_of tagged ts)%N.
Proof. reflexivity. Qed.

Definition ok_fields (flex : bool) : list ty -> bool :=
  fix go (l : list ty) : bool :=
    match l with [] => true | x :: r => negb (flex && is_marker x) && schema_ok flex x && go r end.
Definition ok_tags (flex : bool) : list (Z * ty) -> bool :=
  fix go (l : list (Z * ty)) : bool :=
    match l with
    | [] => true
    | (i, x) :: r => (if is_marker x then Z.eqb i (-1) else (0 <=? i)%Z && (i <? ZM31)%Z) && schema_ok flex x && go r
    end.
Lemma schema_ok_struct_eq flex fields tagged :
  schema_ok flex (TStruct fields tagged) =
  ok_fields flex fields && ok_tags flex tagged && nodupZ (map fst tagged)
  && (flex || match tagged with [] => true | _ => false end).
Proof. reflexivity. Qed.

Definition min_fields (flex : bool) : list ty -> N :=
  fix go (l : list ty) : N := match l with [] => 0%N | x :: r => (min_size flex x + go r)%N end.
Lemma min_size_struct_eq flex fields tagged :
  min_size flex (TStruct fields tagged) = (min_fields flex fields + (if flex then 1 else 0))%N.
Proof. reflexivity. Qed.

Definition marker_loop (c : cfg) : list N -> Z -> dstate -> res value :=
  fix loop (fuel : list N) (n : Z) (s : dstate) {struct fuel} : res value :=
    if (n <=? 0)%Z then Ok VUnit s
    else match fuel with
         | [] => OutOfFuel
         | _ :: fuel' =>
           match skip_header_tags_step c s with
           | Ok _ s' => loop fuel' (n - 1)%Z s'
           | Err e ra al => Err e ra al
           | Panic => Panic | Oom => Oom | OutOfFuel => OutOfFuel
           end
         end.

Lemma decode_marker_eq c flex s :
  decode c flex TMarker s =
  if negb flex then Ok VUnit s
  else bind (read_uvarint s) (fun cnt s => marker_loop c (0%N :: 0%N :: s.(d_in)) (int_of_u64 cnt) s).
Proof. reflexivity. Qed.
