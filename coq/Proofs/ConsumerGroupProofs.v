(* Proofs/ConsumerGroupProofs.v — the C15 statements in their final (Prop) form, assembled
   from the invariants of ConsumerGroupAcc / ConsumerGroupLive / ConsumerGroupRun and the
   Prop readings of the boolean monitors. *)
From Coq Require Import List ZArith Bool Arith Lia.
From KV Require Import Model.ConsumerGroup Proofs.ConsumerGroupBase Proofs.ConsumerGroupAcc
  Proofs.ConsumerGroupLive Proofs.ConsumerGroupRun.
Import ListNotations.

(* ---- Prop reading of mon_heartbeat ---- *)
Lemma existsb_In_pred : forall (p : event -> bool) h, existsb p h = true <-> exists e, In e h /\ p e = true.
Proof. intros. apply existsb_exists. Qed.

Lemma negb_existsb_all : forall (p : event -> bool) h, negb (existsb p h) = true -> forall e, In e h -> p e = false.
Proof.
  intros p h H e He. apply negb_true_iff in H.
  destruct (p e) eqn:E; [|reflexivity].
  assert (existsb p h = true) by (apply existsb_exists; eauto). congruence.
Qed.

Lemma mon_heartbeat_app : forall post h, mon_heartbeat (post ++ h) = true -> mon_heartbeat h = true.
Proof.
  induction post as [|e t IH]; intros h H; [exact H|].
  cbn [app mon_heartbeat] in H. apply andb_true_iff in H. apply IH, H.
Qed.

Lemma mon_heartbeat_spec : forall h, mon_heartbeat h = true ->
  forall post k f m pre, h = post ++ HHeartbeat k f m :: pre ->
    In (HStart k f true) pre /\ ~ In (HFnRet k f) pre /\ In (HGenNew k m) pre /\
    (forall j m', In (HGenNew j m') pre -> j <= k) /\
    (forall n j, In (HNextRet n j) pre -> j <= k) /\
    (forall x m', ~ In (HRunExit x m') pre).
Proof.
  intros h H post k f m pre E. subst h. apply mon_heartbeat_app in H.
  cbn [mon_heartbeat chk_heartbeat] in H.
  apply andb_true_iff in H. destruct H as [H _].
  apply andb_true_iff in H. destruct H as [H Hx].
  apply andb_true_iff in H. destruct H as [H Hn].
  apply andb_true_iff in H. destruct H as [H Hg].
  apply andb_true_iff in H. destruct H as [H Hm].
  apply andb_true_iff in H. destruct H as [Hs Hr].
  repeat split.
  - apply existsb_exists in Hs. destruct Hs as (e & He & P). destruct e; try discriminate P.
    destruct acc; try discriminate P. cbn in P. apply andb_true_iff in P. destruct P as [P1 P2].
    apply Nat.eqb_eq in P1, P2. subst. exact He.
  - intro I. eapply negb_existsb_all in Hr; [|exact I]. cbn in Hr. rewrite !Nat.eqb_refl in Hr. discriminate.
  - apply existsb_exists in Hm. destruct Hm as (e & He & P). destruct e; try discriminate P.
    cbn in P. apply andb_true_iff in P. destruct P as [P1 P2]. apply Nat.eqb_eq in P1, P2. subst. exact He.
  - intros j m' I. eapply negb_existsb_all in Hg; [|exact I]. cbn in Hg. apply Nat.ltb_ge in Hg. exact Hg.
  - intros n j I. eapply negb_existsb_all in Hn; [|exact I]. cbn in Hn. apply Nat.ltb_ge in Hn. exact Hn.
  - intros x m' I. eapply negb_existsb_all in Hx; [|exact I]. cbn in Hx. discriminate.
Qed.

(* ---- final statements ---- *)
Lemma one_live_final : forall w ls s, run (init w) ls = Some s ->
  forall post n j pre, hist s = post ++ HNextRet n j :: pre ->
  forall k f, k < j -> In (HStart k f true) (hist s) -> In (HFnRet k f) pre.
Proof. intros w ls s R. apply mon_one_live_spec. eapply one_live_holds; eauto. Qed.

Lemma heartbeat_final : forall w ls s, run (init w) ls = Some s ->
  forall post k f m pre, hist s = post ++ HHeartbeat k f m :: pre ->
    In (HStart k f true) pre /\ ~ In (HFnRet k f) pre /\ In (HGenNew k m) pre /\
    (forall j m', In (HGenNew j m') pre -> j <= k) /\
    (forall n j, In (HNextRet n j) pre -> j <= k) /\
    (forall x m', ~ In (HRunExit x m') pre).
Proof. intros w ls s R. apply mon_heartbeat_spec. eapply heartbeat_holds; eauto. Qed.

Lemma backoff_final : forall w ls s, run (init w) ls = Some s ->
  forall post e pre, hist s = post ++ e :: pre -> (e = HCoordReq \/ exists m, e = HJoinReq m) ->
  forall pre1 c pre2, pre = pre1 ++ HFail c :: pre2 -> c <> ERebalance -> In HBackoff pre1.
Proof. intros w ls s R. apply mon_backoff_spec. eapply backoff_holds; eauto. Qed.

(* every run exit holding member id m is preceded, since the last JoinGroup request, by a leave
   attempt for m; Close returns only after run exited *)
Lemma leave_final : forall w ls s, run (init w) ls = Some s ->
  (forall post x m pre, hist s = post ++ HRunExit x (Some m) :: pre ->
     exists pre1 e pre2, pre = pre1 ++ e :: pre2 /\ ev_is_leave m e = true /\ forall m', ~ In (HJoinReq m') pre1)
  /\ (forall post c pre, hist s = post ++ HCloseRet c :: pre -> exists x m, In (HRunExit x m) pre).
Proof. intros w ls s R. apply mon_leave_full_spec. eapply leave_full_holds; eauto. Qed.

(* hence: when Close returns, run has exited, and if it exited holding m the leave attempt for m
   lies before that Close return *)
Lemma leave_before_close_return : forall w ls s, run (init w) ls = Some s ->
  forall post c pre, hist s = post ++ HCloseRet c :: pre ->
  exists x om, In (HRunExit x om) pre /\
    (forall m, om = Some m -> exists e, In e pre /\ ev_is_leave m e = true).
Proof.
  intros w ls s R post c pre E.
  destruct (leave_final w ls s R) as [L C].
  destruct (C post c pre E) as (x & om & I).
  exists x, om. split; [exact I|]. intros m Em. subst om.
  apply in_split in I. destruct I as (p1 & p2 & Ep).
  assert (E2 : hist s = (post ++ HCloseRet c :: p1) ++ HRunExit x (Some m) :: p2).
  { rewrite E, Ep, <- app_assoc. reflexivity. }
  destruct (L _ x m p2 E2) as (q1 & e & q2 & Eq & Le & _).
  exists e. split; [|exact Le]. rewrite Ep, Eq.
  apply in_or_app. right. right. apply in_or_app. right. left. reflexivity.
Qed.

Lemma monitors_final : forall w ls s, run (init w) ls = Some s ->
  mon_one_live (hist s) = true /\ mon_heartbeat (hist s) = true /\
  mon_backoff (hist s) = true /\ mon_leave_full (hist s) = true.
Proof.
  intros w ls s R. repeat split.
  - eapply one_live_holds; eauto.
  - eapply heartbeat_holds; eauto.
  - eapply backoff_holds; eauto.
  - eapply leave_full_holds; eauto.
Qed.

(* ---- the member id variable of run is only ever cleared right after a leave attempt for it
   (since the fix of joinGroup, which used to return "" on error) ---- *)
Ltac bm_all H :=
  repeat match type of H with
         | context [match ?x with _ => _ end] => destruct x eqn:?; try discriminate H
         | context [if ?x then _ else _] => destruct x eqn:?; try discriminate H
         end.

Lemma id_cleared_only_after_leave : forall s l s' m,
  step s l = Some s' -> mid s = Some m -> mid s' = None -> left_since_join m (hist s') = true.
Proof.
  intros s l s' m H Hm Hn. unfold step in H. destruct (panicked s); [discriminate|].
  destruct l;
    unfold fail_ng, enter_leave, finish_leave, exit_run, after_close, do_start, handler, end_gen,
           fn_return, option_map in H;
    cbn [mid ev set_gens set_fns set_pc set_mid set_cgdone set_nexts set_closers set_panic] in H;
    rewrite ?Hm in H; bm_all H;
    try (inversion H; subst s'; clear H; cbn [mid ev set_gens set_fns set_pc set_mid set_cgdone set_nexts set_closers set_panic hist] in *;
         try congruence;
         match goal with
         | E : Some _ = Some m |- _ => inversion E; subst; cbn; rewrite Nat.eqb_refl; reflexivity
         end).
  all: repeat match goal with
              | X : context [match ?x with _ => _ end] |- _ => destruct x eqn:?; try discriminate X
              | X : context [if ?x then _ else _] |- _ => destruct x eqn:?; try discriminate X
              end.
  all: repeat (first
         [ progress (repeat match goal with
                            | X : (_, _) = (_, _) |- _ => inversion X; clear X
                            | X : Some _ = Some _ |- _ => inversion X; clear X
                            end; subst)
         | progress unfold enter_leave, finish_leave, exit_run in *
         | progress cbn [mid ev set_gens set_fns set_pc set_mid set_cgdone set_nexts set_closers set_panic hist] in *
         | match goal with
           | X : context [match ?x with _ => _ end] |- _ => destruct x eqn:?; try discriminate X
           | |- context [match ?x with _ => _ end] => destruct x eqn:?
           end ]).
  all: try congruence.
  all: cbn [left_since_join ev_is_leave]; rewrite Nat.eqb_refl; reflexivity.
Qed.

Lemma joinerr_scenario_leaves : exists s, run (init 0) joinerr_scenario = Some s /\
  mon_leave_full (hist s) = true /\ In (HCloseRet 0) (hist s) /\
  (exists post pre, hist s = post ++ HLeaveReq 1 :: pre /\ In (HJoinReq (Some 1)) pre).
Proof.
  eexists. split; [vm_compute; reflexivity|]. split; [vm_compute; reflexivity|].
  split; [cbn; tauto|].
  exists [HCloseRet 0; HRunExit (XOffer EDropped) None; HCloseCall 0]. eexists. split; [reflexivity|].
  cbn. tauto.
Qed.

(* ---- the leader's metadata reads (assignTopicPartitions) ---- *)
Lemma leader_per_topic_spec : forall l n r, leader_per_topic l = (n, r) ->
  n <= length l /\ (forall e, r = Some e -> In (MErr e) l) /\ (r = None -> n = length l /\ forall e, ~ In (MErr e) l).
Proof.
  induction l as [|a t IH]; intros n r H; cbn [leader_per_topic] in H.
  - inversion H; subst. cbn. repeat split; try lia; try discriminate; try (intros e0 []); try tauto.
  - destruct a.
    + destruct (leader_per_topic t) as [n' r'] eqn:E. inversion H; subst. destruct (IH _ _ eq_refl) as (A & B & C).
      cbn [length]. split; [lia|]. split.
      * intros e He. right. apply B; exact He.
      * intro Hn. destruct (C Hn) as [C1 C2]. split; [lia|]. intros e [X|X]; [discriminate|eapply C2; eauto].
    + destruct (leader_per_topic t) as [n' r'] eqn:E. inversion H; subst. destruct (IH _ _ eq_refl) as (A & B & C).
      cbn [length]. split; [lia|]. split.
      * intros e He. right. apply B; exact He.
      * intro Hn. destruct (C Hn) as [C1 C2]. split; [lia|]. intros e [X|X]; [discriminate|eapply C2; eauto].
    + inversion H; subst. cbn [length]. split; [lia|]. split.
      * intros e0 He. inversion He; subst. left. reflexivity.
      * discriminate.
Qed.

Lemma leader_assign_spec : forall nt first per ld n, leader_assign nt first per = (ld, n) ->
  1 <= n <= S nt /\ (1 < n -> first = MUnknown /\ 2 <= nt) /\
  (forall e, ld = LeaderFail e -> first = MErr e \/ (first = MUnknown /\ In (MErr e) (firstn nt per))) /\
  ld <> NotLeader.
Proof.
  intros nt first per ld n H. unfold leader_assign in H. destruct first.
  - inversion H; subst. repeat split; try lia; try discriminate.
  - destruct (Nat.leb 2 nt) eqn:L.
    + destruct (leader_per_topic (firstn nt per)) as [k r] eqn:E.
      destruct (leader_per_topic_spec _ _ _ E) as (A & B & _).
      assert (Hl : length (firstn nt per) <= nt) by apply firstn_le_length.
      apply Nat.leb_le in L. inversion H; subst. split; [lia|]. split; [intros _; split; [reflexivity|exact L]|].
      split; [|destruct r; discriminate].
      intros e He. right. split; [reflexivity|]. apply B. destruct r; [inversion He; reflexivity|discriminate].
    + inversion H; subst. repeat split; try lia; try discriminate.
  - inversion H; subst. split; [lia|]. split; [lia|]. split; [|discriminate].
    intros e0 He. inversion He; subst. left. reflexivity.
Qed.

(* ---- the assignment of the SyncGroup answer plays no part: heartbeats do not depend on it ---- *)
Definition erase_asg (l : label) : label := match l with LSync a _ => LSync a [] | _ => l end.

Lemma step_erase_asg : forall s l, step s (erase_asg l) = step s l.
Proof. intros s l. destruct l; reflexivity. Qed.

Lemma run_erase_asg : forall ls s, run s (map erase_asg ls) = run s ls.
Proof.
  induction ls as [|l t IH]; intro s; cbn [map run]; [reflexivity|].
  rewrite step_erase_asg. destruct (step s l); [apply IH|reflexivity].
Qed.

Lemma heartbeat_started_and_enabled : forall w ls s, run (init w) ls = Some s ->
  (pc s = PStartHB ->
     exists s' f, step s LStartHB = Some s' /\ nth_error (fns s') (length (fns s)) = Some f /\
                  is_hb f = true /\ f_acc f = true /\ f_gen f = cur s /\ f_st f = FRunning) /\
  (forall i f a, nth_error (fns s) i = Some f -> is_hb f = true -> running f = true ->
     exists s', step s (LHbTick i a) = Some s').
Proof.
  intros w ls s R. apply Inv_run in R. destruct R as [P [H1 H2] B]. split.
  - intro Epc. destruct (g2_hb _ _ _ B Epc) as (g & Eg & Ec & _).
    unfold step. rewrite P, Epc. unfold do_start, cur. rewrite Eg, Ec. cbn [option_map].
    eexists. eexists. split; [reflexivity|].
    cbn [fns set_pc ev set_fns set_gens]. rewrite nth_error_app2 by lia. rewrite Nat.sub_diag. cbn.
    repeat split; reflexivity.
  - intros i f a Hf Hh Hr. unfold step. rewrite P, Hf, Hr, Hh. cbn [andb].
    destruct (H1 _ _ Hf) as (g & Eg & _). rewrite Eg. destruct a; eexists; reflexivity.
Qed.

(* ---- the coordinator connection layer ---- *)
Lemma deadline_of_call_spec : forall c,
  (deadline_of_call c = DTimeoutRebalance <-> c = CJoinGroup) /\
  (deadline_of_call c = DTimeoutSession <-> c = CSyncGroup) /\
  (deadline_of_call c = DTimeout <-> c <> CJoinGroup /\ c <> CSyncGroup).
Proof. destruct c; cbn; repeat split; intros; try discriminate; try congruence; try tauto; destruct H; congruence. Qed.

Lemma deadline_ms_spec : forall t r s c,
  t <= deadline_ms t r s c /\
  (c <> CJoinGroup -> c <> CSyncGroup -> deadline_ms t r s c = t) /\
  deadline_ms t r s CHeartbeat = t /\ deadline_ms t r s CLeaveGroup = t /\
  deadline_ms t r s CJoinGroup = t + r /\ deadline_ms t r s CSyncGroup = t + s.
Proof.
  intros t r s c. split; [destruct c; cbn; lia|]. split; [|repeat split].
  intros H1 H2. destruct c; cbn; congruence.
Qed.

Lemma connect_tries_all : forall up,
  (connect up = None <-> forall b, In b up -> b = false) /\
  (forall i, connect up = Some i ->
     nth_error up i = Some true /\ forall j, j < i -> nth_error up j = Some false).
Proof.
  induction up as [|b t [IH1 IH2]]; cbn [connect].
  - split; [split; [intros _ b []|reflexivity]|discriminate].
  - destruct b.
    + split; [split; [discriminate|]|].
      * intro H. specialize (H true (or_introl eq_refl)). discriminate.
      * intros i H. inversion H; subst. split; [reflexivity|]. intros j Hj. lia.
    + split.
      * destruct (connect t) eqn:E; cbn [option_map]; split; try discriminate.
        -- intro H. exfalso. assert (X : Some n = None) by (apply IH1; intros b Hb; apply H; right; exact Hb).
           discriminate X.
        -- intros _ b [Hb|Hb]; [congruence|]. apply IH1; auto.
        -- reflexivity.
      * intros i H. destruct (connect t) as [k|] eqn:E; cbn [option_map] in H; [|discriminate].
        inversion H; subst. destruct (IH2 k eq_refl) as [A B]. split; [exact A|].
        intros [|j] Hj; [reflexivity|]. cbn. apply B. lia.
Qed.

Lemma dial_attempts_spec : forall up,
  dial_attempts up <= length up \/ (exists i, connect up = Some i /\ dial_attempts up = S i).
Proof. intro up. unfold dial_attempts. destruct (connect up) eqn:E; [right; eauto|left; lia]. Qed.
