(* Proofs/SchemaAlloc.v — what the decoder allocates is bounded by the DECLARED size of the
   frame times a constant of the schema: every allocation is paid for by frame bytes the
   decoder then consumes, except at most one allocation per nesting level made just before
   the frame's remaining size is exhausted or an error stops the decode.
   (The declared size is itself a wire field: see alloc_follows_declared_size in SchemaC20.v
   for what that leaves open.) *)
From Coq Require Import List NArith ZArith Bool Lia.
From Coq Require Import ZifyN ZifyNat ZifyBool.
From KV Require Import Lib.Bits Lib.Bytes Lib.Varint Model.Schema
  Proofs.SchemaBase Proofs.SchemaDefs Proofs.SchemaPrims Proofs.SchemaEqns Proofs.SchemaTotal.
Import ListNotations.

Arguments read_uvarint : simpl never.
Arguments read_int : simpl never.
Arguments read_alloc : simpl never.
Arguments read_n : simpl never.

(* bytes allocated per frame byte: element sizes add up along a nesting path *)
Fixpoint kfac (t : ty) {struct t} : Z :=
  match t with
  | TString _ | TBytes _ | TRecords _ | TMarker => 1%Z
  | TArray _ esize e => Z.of_N esize + kfac e
  | TStruct fields tagged =>
      Z.max 1 (Z.max
        ((fix go (l : list ty) : Z := match l with [] => 0%Z | x :: r => Z.max (kfac x) (go r) end) fields)
        ((fix go (l : list (Z * ty)) : Z := match l with [] => 0%Z | (_, x) :: r => Z.max (kfac x) (go r) end) tagged))
  | _ => 0%Z
  end.

Definition kmax_fields : list ty -> Z :=
  fix go (l : list ty) : Z := match l with [] => 0%Z | x :: r => Z.max (kfac x) (go r) end.
Definition kmax_tags : list (Z * ty) -> Z :=
  fix go (l : list (Z * ty)) : Z := match l with [] => 0%Z | (_, x) :: r => Z.max (kfac x) (go r) end.

Lemma kfac_struct_eq fields tagged :
  kfac (TStruct fields tagged) = Z.max 1 (Z.max (kmax_fields fields) (kmax_tags tagged)).
Proof. reflexivity. Qed.

Lemma kfac_nonneg : forall t, (0 <= kfac t)%Z.
Proof.
  induction t as [| w | | n | n | n e t IH | fields tagged IHf IHt | | r] using ty_ind';
    try (cbn [kfac]; lia); rewrite kfac_struct_eq; lia.
Qed.

Lemma kmax_fields_in x l : In x l -> (kfac x <= kmax_fields l)%Z.
Proof. induction l as [|y r IH]; intros H; [destruct H|]. cbn [kmax_fields]. destruct H as [->|H]; [lia|]. specialize (IH H). lia. Qed.

Lemma kmax_tags_in p l : In p l -> (kfac (snd p) <= kmax_tags l)%Z.
Proof.
  induction l as [|[i y] r IH]; intros H; [destruct H|]. cbn [kmax_tags].
  destruct H as [<-|H]; [cbn [snd]; lia|]. specialize (IH H). lia.
Qed.

Definition zal (s : dstate) : Z := Z.of_N (d_alloc s).
Definition nonneg (s : dstate) : Prop := (0 <= d_remain s)%Z.

Lemma consumes_nonneg m s s' : consumes m s s' -> nonneg s -> nonneg s'.
Proof. intros [k [_ [_ [_ [Hp _]]]]] H. exact (Hp H). Qed.

Lemma consumes_remain m s s' : consumes m s s' -> (d_remain s' + Z.of_nat m <= d_remain s)%Z.
Proof. intros [k [Hk [_ [Hr _]]]]. lia. Qed.

Section Alloc.
Variable c : cfg.
Variable flex : bool.

(* the accounting invariant: K bytes per frame byte consumed, plus once K per byte of what
   remained when the frame's remaining size reached zero; twice that on an error *)
Definition ab {A} (K : Z) (s : dstate) (r : res A) : Prop :=
  match r with
  | Ok _ s' => (zal s' <= zal s + K * (d_remain s - d_remain s')
                        + (if (d_remain s' <=? 0)%Z then K * d_remain s else 0))%Z
  | Err _ _ al => (Z.of_N al <= zal s + 2 * K * d_remain s)%Z
  | Oom => (Z.of_N (budget c) < zal s + 2 * K * d_remain s)%Z
  | Panic => True
  | OutOfFuel => True
  end.

Definition gab {A} (m : nat) (K : Z) (s : dstate) (r : res A) : Prop := good m s r /\ ab K s r.

Lemma gab_ret {A} K s (a : A) : (0 <= K)%Z -> nonneg s -> gab 0 K s (Ok a s).
Proof.
  intros HK Hs. split; [cbn [good]; apply consumes_refl|]. unfold nonneg in Hs. cbn [ab].
  destruct (Z.leb_spec (d_remain s) 0); nia.
Qed.

Lemma gab_mono {A} m K K' s (r : res A) :
  (0 <= K <= K')%Z -> nonneg s -> gab m K s r -> gab m K' s r.
Proof.
  intros HK Hs [Hg Ha]. split; [exact Hg|]. unfold nonneg in Hs.
  destruct r as [a s'| e ra al | | |]; cbn [ab good] in *; try exact I.
  - pose proof (consumes_remain _ _ _ Hg) as Hr. pose proof (consumes_nonneg _ _ _ Hg Hs) as Hs'.
    unfold nonneg in Hs'. destruct (Z.leb_spec (d_remain s') 0); nia.
  - nia.
  - nia.
Qed.

Lemma gab_weaken {A} m m' K s (r : res A) : (m' <= m)%nat -> gab m K s r -> gab m' K s r.
Proof. intros H [Hg Ha]. split; [eapply good_weaken; eassumption|exact Ha]. Qed.

Lemma gab_bind {A B} m1 m2 K s (r : res A) (f : A -> dstate -> res B) :
  (0 <= K)%Z -> nonneg s ->
  gab m1 K s r -> (forall a s', consumes m1 s s' -> gab m2 K s' (f a s')) ->
  gab (m1 + m2) K s (bind r f).
Proof.
  intros HK Hs [Hg Ha] Hf. split.
  - apply good_bind; [exact Hg|]. intros a s' Hc. exact (proj1 (Hf a s' Hc)).
  - unfold nonneg in Hs.
    destruct r as [a s'| e ra al | | |]; cbn [ab good bind] in *; try exact Ha; try exact I.
    pose proof (consumes_remain _ _ _ Hg) as Hr. pose proof (consumes_nonneg _ _ _ Hg Hs) as Hs'.
    unfold nonneg in Hs'.
    destruct (Hf a s' Hg) as [Hg2 Ha2].
    destruct (f a s') as [b s''| e ra al | | |]; cbn [ab good] in *; try exact I.
    + pose proof (consumes_remain _ _ _ Hg2) as Hr2. pose proof (consumes_nonneg _ _ _ Hg2 Hs') as Hs''.
      unfold nonneg in Hs''.
      destruct (Z.leb_spec (d_remain s') 0); destruct (Z.leb_spec (d_remain s'') 0); nia.
    + destruct (Z.leb_spec (d_remain s') 0); nia.
    + destruct (Z.leb_spec (d_remain s') 0); nia.
Qed.

(* ---- primitives that allocate nothing ---- *)
Lemma read_z_ab k s : nonneg s -> ab 0 s (read_z k s).
Proof.
  intros Hs. unfold read_z, nonneg in *.
  destruct (Z.leb k 0); [cbn [ab]; destruct (Z.leb (d_remain s) 0); lia|].
  destruct (Z.leb (d_remain s) 0); [cbn [ab]; unfold zal; lia|].
  destruct (Z.ltb _ _); [cbn [ab]; unfold zal; lia|].
  destruct (Z.ltb _ _); [cbn [ab]; unfold zal; lia|].
  cbn [ab d_remain d_alloc zal]. unfold zal. cbn [d_alloc].
  destruct (Z.leb _ 0); lia.
Qed.

Lemma read_n_gab k s : nonneg s -> gab k 0 s (read_n k s).
Proof. intros Hs. split; [apply read_n_good|apply read_z_ab; exact Hs]. Qed.

Lemma read_int_gab w s : nonneg s -> gab w 0 s (read_int w s).
Proof.
  intros Hs. unfold read_int. replace w with (w + 0)%nat at 1 by lia.
  apply gab_bind; [lia|exact Hs|apply read_n_gab; exact Hs|].
  intros bs s' Hc. apply gab_ret; [lia|eapply consumes_nonneg; eassumption].
Qed.

Lemma fail_gab {A} m K e s : (0 <= K)%Z -> nonneg s -> gab m K s (@fail A e s).
Proof. intros HK Hs. split; [apply fail_good|]. unfold fail, nonneg in *. cbn [ab]. unfold zal. nia. Qed.

Lemma uvarint_loop_gab n : forall x sh s, nonneg s -> gab 1 0 s (uvarint_loop n x sh s).
Proof.
  induction n as [|n IH]; intros x sh s Hs; cbn [uvarint_loop].
  - apply fail_gab; [lia|exact Hs].
  - replace 1%nat with (1 + 0)%nat by lia.
    apply gab_bind; [lia|exact Hs|apply read_n_gab; exact Hs|].
    intros bs s' Hc. pose proof (consumes_nonneg _ _ _ Hc Hs) as Hs'.
    destruct (N.ltb _ 128); [apply gab_ret; [lia|exact Hs']|].
    eapply gab_weaken; [|apply IH; exact Hs']. lia.
Qed.

Lemma read_uvarint_gab s : nonneg s -> gab 1 0 s (read_uvarint s).
Proof. intros Hs. unfold read_uvarint. apply uvarint_loop_gab. exact Hs. Qed.

(* ---- d.read(n): the buffer is paid for by the n bytes read into it ---- *)
Lemma read_alloc_gab n s : small s -> nonneg s -> gab (Z.to_nat n) 1 s (read_alloc c n s).
Proof.
  intros Hsm Hs. split; [apply read_alloc_good; exact Hsm|].
  unfold read_alloc, nonneg in *.
  destruct (Z.ltb_spec n 0); [cbn [orb fail ab]; unfold zal; lia|].
  destruct (Z.ltb_spec (d_remain s) n); [cbn [orb fail ab]; unfold zal; lia|]. cbn [orb].
  unfold alloc.
  destruct (Z.ltb_spec n 0); [lia|].
  destruct (N.ltb _ _); [exact I|].
  destruct (N.ltb_spec (budget c) (d_alloc s + Z.to_N n * 1)); [cbn [bind ab]; unfold zal; lia|].
  cbn [bind].
  set (s1 := {| d_in := d_in s; d_remain := d_remain s; d_alloc := d_alloc s + Z.to_N n * 1 |}).
  pose proof (read_z_good n s1 ltac:(lia)) as Hg.
  pose proof (read_z_ab n s1 ltac:(unfold nonneg, s1; cbn; lia)) as Ha.
  destruct (read_z n s1) as [bs s'| e ra al | | |]; cbn [ab good] in *; try exact I.
  - pose proof (consumes_remain _ _ _ Hg) as Hr. unfold zal, s1 in *. cbn [d_alloc d_remain] in *.
    destruct (Z.leb_spec (d_remain s') 0); lia.
  - unfold zal, s1 in *. cbn [d_alloc d_remain] in *. lia.
  - unfold zal, s1 in *. cbn [d_alloc d_remain] in *. lia.
Qed.

Lemma read_alloc_gab0 n s : small s -> nonneg s -> gab 0 1 s (read_alloc c n s).
Proof. intros H1 H2. eapply gab_weaken; [|apply read_alloc_gab; assumption]. lia. Qed.

(* ---- the element loop: either all n elements were decoded (each took a byte at least, so
   n <= consumed) or the frame's remaining size reached zero ---- *)
Definition loop_ab (K : Z) (n : N) (s : dstate) (r : res (list value * N)) : Prop :=
  match r with
  | Ok _ s' => consumes 0 s s' /\
               (zal s' <= zal s + K * (d_remain s - d_remain s')
                          + (if (d_remain s' <=? 0)%Z then K * d_remain s else 0))%Z /\
               ((Z.of_N n <= d_remain s - d_remain s')%Z \/ (d_remain s' <= 0)%Z)
  | Err _ _ al => (Z.of_N al <= zal s + 2 * K * d_remain s)%Z
  | Oom => (Z.of_N (budget c) < zal s + 2 * K * d_remain s)%Z
  | Panic => False
  | OutOfFuel => False
  end.

Lemma elems_loop_ab K (dec : dstate -> res value) :
  (0 <= K)%Z ->
  (forall s, small s -> nonneg s -> gab 1 K s (dec s)) ->
  forall fuel n s, small s -> nonneg s -> (length (d_in s) + 1 <= length fuel)%nat ->
    loop_ab K n s (elems_loop dec fuel n s).
Proof.
  intros HK Hdec. induction fuel as [|f0 fuel IH]; intros n s Hsm Hs Hf; [cbn [length] in Hf; lia|].
  cbn [elems_loop]. unfold nonneg in Hs.
  destruct (N.eqb_spec n 0) as [->|Hn0].
  { cbn [loop_ab]. split; [apply consumes_refl|]. split; [destruct (Z.leb_spec (d_remain s) 0); nia|left; lia]. }
  destruct (Z.leb_spec (d_remain s) 0) as [Hz|Hpos].
  { cbn [loop_ab]. split; [apply consumes_refl|]. split; [destruct (Z.leb_spec (d_remain s) 0); nia|right; lia]. }
  destruct (Hdec s Hsm Hs) as [Hg Ha].
  destruct (dec s) as [v s'| e ra al | | |]; cbn [good ab loop_ab] in *; try exact Ha; try contradiction.
  pose proof (consumes_remain _ _ _ Hg) as Hr. pose proof (consumes_nonneg _ _ _ Hg Hs) as Hs'.
  unfold nonneg in Hs'.
  assert (Hf' : (length (d_in s') + 1 <= length fuel)%nat).
  { destruct Hg as [k [Hk [Hi _]]]. rewrite Hi, skipn_length. cbn [length] in Hf. lia. }
  specialize (IH (n - 1)%N s' (consumes_small _ _ _ Hg Hsm) Hs' Hf').
  destruct (elems_loop dec fuel (n - 1) s') as [r s''| e ra al | | |]; cbn [bind loop_ab] in *; try exact IH.
  - destruct IH as [Hc2 [Ha2 Hd]].
    pose proof (consumes_remain _ _ _ Hc2) as Hr2. pose proof (consumes_nonneg _ _ _ Hc2 Hs') as Hs''.
    unfold nonneg in Hs''.
    split; [apply (consumes_weaken (1 + 0) 0); [lia|]; eapply consumes_trans; eassumption|].
    split.
    + destruct (Z.leb_spec (d_remain s') 0); destruct (Z.leb_spec (d_remain s'') 0); nia.
    + destruct Hd as [Hd|Hd]; [left; lia|right; exact Hd].
  - destruct (Z.leb_spec (d_remain s') 0); nia.
  - destruct (Z.leb_spec (d_remain s') 0); nia.
Qed.

(* make([]T, n) followed by the loop: n <= remain was checked by the caller *)
Lemma array_body_gab Ke e (dec : dstate -> res value) :
  (0 <= Ke)%Z -> (e <= 65536)%N ->
  (forall s, small s -> nonneg s -> gab 1 Ke s (dec s)) ->
  forall nn s, small s -> nonneg s -> (0 <= nn)%Z -> (nn <= d_remain s)%Z ->
    gab 0 (Z.of_N e + Ke) s
      (bind (alloc c nn e s) (fun _ s1 =>
         bind (elems_loop dec (0%N :: d_in s1) (Z.to_N nn) s1)
           (fun r s2 => Ok (VArray (Some (fst r)) (snd r)) s2))).
Proof.
  intros HKe He Hdec nn s Hsm Hs Hn0 Hn1. unfold alloc, nonneg, small, ZM31 in *.
  destruct (Z.ltb_spec nn 0); [lia|].
  destruct (N.ltb_spec max_alloc (Z.to_N nn * e)); [unfold max_alloc in *; nia|].
  assert (Hbytes : Z.of_N (d_alloc s + Z.to_N nn * e) = (zal s + nn * Z.of_N e)%Z).
  { unfold zal. rewrite N2Z.inj_add, N2Z.inj_mul, Z2N.id by lia. reflexivity. }
  destruct (N.ltb_spec (budget c) (d_alloc s + Z.to_N nn * e)) as [Hoom|Hfit].
  { cbn [bind]. split; [exact I|]. cbn [ab]. nia. }
  cbn [bind].
  set (s1 := {| d_in := d_in s; d_remain := d_remain s; d_alloc := d_alloc s + Z.to_N nn * e |}).
  assert (Hsm1 : small s1) by (unfold small, s1, ZM31; cbn; lia).
  assert (Hs1 : nonneg s1) by (unfold nonneg, s1; cbn; lia).
  pose proof (elems_loop_ab Ke dec HKe Hdec (0%N :: d_in s1) (Z.to_N nn) s1 Hsm1 Hs1 ltac:(cbn [length]; lia)) as HL.
  assert (Hz1 : zal s1 = (zal s + nn * Z.of_N e)%Z) by (unfold zal at 1, s1; cbn [d_alloc]; exact Hbytes).
  assert (Hr1 : d_remain s1 = d_remain s) by reflexivity.
  destruct (elems_loop dec (0%N :: d_in s1) (Z.to_N nn) s1) as [r s2| er ra al | | |];
    cbn [bind loop_ab] in HL |- *; try contradiction.
  - destruct HL as [Hc [Ha Hd]]. rewrite Hz1, Hr1 in Ha. rewrite Hr1 in Hd. rewrite Z2N.id in Hd by lia.
    pose proof (consumes_remain _ _ _ Hc) as Hr2. pose proof (consumes_nonneg _ _ _ Hc Hs1) as Hs2.
    unfold nonneg in Hs2. rewrite Hr1 in Hr2.
    split.
    + cbn [good]. destruct Hc as [k [Hk [Hi [Hr [Hp Hal]]]]]. exists k. unfold s1 in *. cbn [d_in d_remain d_alloc] in *.
      repeat split; try assumption; try lia.
    + cbn [ab]. destruct (Z.leb_spec (d_remain s2) 0); destruct Hd as [Hd|Hd]; nia.
  - split; [exact I|]. cbn [ab]. rewrite Hz1, Hr1 in HL. nia.
  - split; [exact I|]. cbn [ab]. rewrite Hz1, Hr1 in HL. nia.
Qed.

(* ---- tag buffers ---- *)
Lemma skip_step_gab s : small s -> nonneg s -> gab 2 1 s (skip_header_tags_step c s).
Proof.
  intros Hsm Hs. unfold skip_header_tags_step.
  replace 2%nat with (1 + (1 + (0 + 0)))%nat by lia.
  apply gab_bind; [lia|exact Hs|eapply gab_mono; [|exact Hs|apply read_uvarint_gab; exact Hs]; lia|].
  intros _ s1 H1. pose proof (consumes_nonneg _ _ _ H1 Hs) as Hs1. pose proof (consumes_small _ _ _ H1 Hsm) as Hsm1.
  apply gab_bind; [lia|exact Hs1|eapply gab_mono; [|exact Hs1|apply read_uvarint_gab; exact Hs1]; lia|].
  intros size s2 H2. pose proof (consumes_nonneg _ _ _ H2 Hs1) as Hs2. pose proof (consumes_small _ _ _ H2 Hsm1) as Hsm2.
  apply gab_bind; [lia|exact Hs2|apply read_alloc_gab0; assumption|].
  intros _ s3 H3. apply gab_ret; [lia|eapply consumes_nonneg; eassumption].
Qed.

Lemma header_tags_gab : forall fuel n s, small s -> nonneg s -> (length (d_in s) + 1 <= length fuel)%nat ->
  gab 0 1 s (header_tags c fuel n s).
Proof.
  induction fuel as [|f0 fuel IH]; intros n s Hsm Hs Hf; [cbn [length] in Hf; lia|].
  cbn [header_tags].
  destruct (Z.leb n 0); [apply gab_ret; [lia|exact Hs]|].
  apply (gab_weaken (2 + 0) 0); [lia|].
  refine (gab_bind 2 0 1 s (skip_header_tags_step c s) (fun _ s' => header_tags c fuel (n - 1)%Z s') ltac:(lia) Hs (skip_step_gab s Hsm Hs) _).
  intros _ s' Hc. apply IH; [eapply consumes_small; eassumption|eapply consumes_nonneg; eassumption|].
  destruct Hc as [k [Hk [Hi _]]]. rewrite Hi, skipn_length. cbn [length] in Hf. lia.
Qed.

Lemma marker_loop_gab : forall fuel n s, small s -> nonneg s -> (length (d_in s) + 1 <= length fuel)%nat ->
  gab 0 1 s (marker_loop c fuel n s).
Proof.
  induction fuel as [|f0 fuel IH]; intros n s Hsm Hs Hf; [cbn [length] in Hf; lia|].
  cbn [marker_loop].
  destruct (Z.leb n 0); [apply gab_ret; [lia|exact Hs]|].
  apply (gab_weaken (2 + 0) 0); [lia|].
  refine (gab_bind 2 0 1 s (skip_header_tags_step c s) (fun _ s' => marker_loop c fuel (n - 1)%Z s') ltac:(lia) Hs (skip_step_gab s Hsm Hs) _).
  intros _ s' Hc. apply IH; [eapply consumes_small; eassumption|eapply consumes_nonneg; eassumption|].
  destruct Hc as [k [Hk [Hi _]]]. rewrite Hi, skipn_length. cbn [length] in Hf. lia.
Qed.

Lemma tag_loop_gab K (D : ty -> dstate -> res value) tagged fs :
  (1 <= K)%Z ->
  Forall (fun p => (0 <= kfac (snd p) <= K)%Z /\
                   forall s, small s -> nonneg s -> gab 0 (kfac (snd p)) s (D (snd p) s)) tagged ->
  forall fuel n ts s, small s -> nonneg s -> (length (d_in s) + 1 <= length fuel)%nat ->
    gab 0 K s (tag_loop c D tagged fs fuel n ts s).
Proof.
  intros HK HD. induction fuel as [|f0 fuel IH]; intros n ts s Hsm Hs Hf; [cbn [length] in Hf; lia|].
  cbn [tag_loop].
  destruct (Z.leb n 0); [apply gab_ret; [lia|exact Hs]|].
  set (step := bind (read_uvarint s) _).
  assert (Hstep : gab 2 K s step).
  { unfold step. replace 2%nat with (1 + (1 + 0))%nat by lia.
    apply gab_bind; [lia|exact Hs|eapply gab_mono; [|exact Hs|apply read_uvarint_gab; exact Hs]; lia|].
    intros tagid s1 H1. pose proof (consumes_nonneg _ _ _ H1 Hs) as Hs1. pose proof (consumes_small _ _ _ H1 Hsm) as Hsm1.
    apply gab_bind; [lia|exact Hs1|eapply gab_mono; [|exact Hs1|apply read_uvarint_gab; exact Hs1]; lia|].
    intros size s2 H2. pose proof (consumes_nonneg _ _ _ H2 Hs1) as Hs2. pose proof (consumes_small _ _ _ H2 Hsm1) as Hsm2.
    destruct (dec_tag_from D (int_of_u64 tagid) s2 tagged 0) as [[i r]|] eqn:E.
    - destruct (dec_tag_from_in D _ _ _ _ _ _ E) as [p [Hp ->]].
      rewrite Forall_forall in HD. destruct (HD p Hp) as [Hkp Hgp].
      replace 0%nat with (0 + 0)%nat by lia.
      apply gab_bind; [lia|exact Hs2|eapply gab_mono; [|exact Hs2|apply Hgp; assumption]; lia|].
      intros v s3 H3. apply gab_ret; [lia|eapply consumes_nonneg; eassumption].
    - replace 0%nat with (0 + 0)%nat by lia.
      apply gab_bind; [lia|exact Hs2|eapply gab_mono; [|exact Hs2|apply read_alloc_gab0; assumption]; lia|].
      intros v s3 H3. apply gab_ret; [lia|eapply consumes_nonneg; eassumption]. }
  apply (gab_weaken (2 + 0) 0); [lia|].
  refine (gab_bind 2 0 K s step (fun ts' s' => tag_loop c D tagged fs fuel (n - 1)%Z ts' s') ltac:(lia) Hs Hstep _).
  intros ts' s' Hc. apply IH; [eapply consumes_small; eassumption|eapply consumes_nonneg; eassumption|].
  destruct Hc as [k [Hk [Hi _]]]. rewrite Hi, skipn_length. cbn [length] in Hf. lia.
Qed.

Lemma dec_fields_gab K (D : ty -> dstate -> res value) : (0 <= K)%Z -> forall fields,
  Forall (fun t => (0 <= kfac t <= K)%Z /\
                   forall s, small s -> nonneg s -> gab (N.to_nat (min_size flex t)) (kfac t) s (D t s)) fields ->
  forall s, small s -> nonneg s -> gab (N.to_nat (min_fields flex fields)) K s (dec_fields D fields s).
Proof.
  intros HK. induction fields as [|ft tr IH]; intros HF s Hsm Hs.
  - cbn [dec_fields min_fields]. apply gab_ret; [exact HK|exact Hs].
  - apply Forall_cons_iff in HF as [[Hkx Hx] HF]. cbn [dec_fields min_fields].
    replace (N.to_nat (min_size flex ft + min_fields flex tr))
      with (N.to_nat (min_size flex ft) + (N.to_nat (min_fields flex tr) + 0))%nat by lia.
    apply gab_bind; [exact HK|exact Hs|eapply gab_mono; [|exact Hs|apply Hx; assumption]; lia|].
    intros v s1 H1. pose proof (consumes_nonneg _ _ _ H1 Hs) as Hs1. pose proof (consumes_small _ _ _ H1 Hsm) as Hsm1.
    apply gab_bind; [exact HK|exact Hs1|apply IH; assumption|].
    intros vs s2 H2. apply gab_ret; [exact HK|eapply consumes_nonneg; eassumption].
Qed.

(* strings, bytes, record sets: a length prefix, then d.read *)
Lemma prefixed_gab {A B} m (rd : dstate -> res A) (isnull : A -> bool) (len : A -> Z) (nullv : A -> B) (mk : A -> list N -> B) s :
  (forall s, nonneg s -> gab m 0 s (rd s)) -> small s -> nonneg s ->
  gab (m + 0) 1 s (bind (rd s) (fun n s => if isnull n then Ok (nullv n) s
                                            else bind (read_alloc c (len n) s) (fun bs s => Ok (mk n bs) s))).
Proof.
  intros Hrd Hsm Hs.
  apply gab_bind; [lia|exact Hs|eapply gab_mono; [|exact Hs|apply Hrd; exact Hs]; lia|].
  intros x s1 H1. pose proof (consumes_nonneg _ _ _ H1 Hs) as Hs1. pose proof (consumes_small _ _ _ H1 Hsm) as Hsm1.
  destruct (isnull x); [apply gab_ret; [lia|exact Hs1]|].
  replace 0%nat with (0 + 0)%nat by lia.
  apply gab_bind; [lia|exact Hs1|apply read_alloc_gab0; assumption|].
  intros bs s2 H2. apply gab_ret; [lia|eapply consumes_nonneg; eassumption].
Qed.

Theorem decode_gab : forall t, schema_ok flex t = true ->
  forall s, small s -> nonneg s -> gab (N.to_nat (min_size flex t)) (kfac t) s (decode c flex t s).
Proof.
  induction t as [| w | | n | n | n e t IH | fields tagged IHf IHt | | r] using ty_ind'; intros Hok s Hsm Hs.
  - cbn [decode min_size kfac]. replace (N.to_nat 1) with (1 + 0)%nat by lia.
    apply gab_bind; [lia|exact Hs|apply read_n_gab; exact Hs|].
    intros bs s1 Hc1. apply gab_ret; [lia|eapply consumes_nonneg; eassumption].
  - cbn [decode min_size kfac]. rewrite Nat2N.id. replace w with (w + 0)%nat at 1 by lia.
    apply gab_bind; [lia|exact Hs|apply read_int_gab; exact Hs|].
    intros z s1 Hc1. apply gab_ret; [lia|eapply consumes_nonneg; eassumption].
  - cbn [decode min_size kfac]. replace (N.to_nat 8) with (8 + 0)%nat by lia.
    apply gab_bind; [lia|exact Hs|apply read_n_gab; exact Hs|].
    intros bs s1 Hc1. apply gab_ret; [lia|eapply consumes_nonneg; eassumption].
  - cbn [decode min_size kfac]. destruct flex.
    + replace (N.to_nat 1) with (1 + 0)%nat by lia.
      apply (prefixed_gab 1 read_uvarint (fun x => (x <? 1)%N) (fun x => int_of_u64 (x - 1)) (fun _ => VString []) (fun _ => VString));
        [intros; apply read_uvarint_gab; assumption|exact Hsm|exact Hs].
    + replace (N.to_nat 2) with (2 + 0)%nat by lia.
      apply (prefixed_gab 2 (read_int 2) (fun x => (x <? 0)%Z) (fun x => x) (fun _ => VString []) (fun _ => VString));
        [intros; apply read_int_gab; assumption|exact Hsm|exact Hs].
  - cbn [decode min_size kfac]. destruct flex.
    + replace (N.to_nat 1) with (1 + 0)%nat by lia.
      apply (prefixed_gab 1 read_uvarint (fun x => (x <? 1)%N) (fun x => int_of_u64 (x - 1)) (fun _ => VBytes None) (fun _ bs => VBytes (Some bs)));
        [intros; apply read_uvarint_gab; assumption|exact Hsm|exact Hs].
    + replace (N.to_nat 4) with (4 + 0)%nat by lia.
      apply (prefixed_gab 4 (read_int 4) (fun x => (x <? 0)%Z) (fun x => x) (fun _ => VBytes None) (fun _ bs => VBytes (Some bs)));
        [intros; apply read_int_gab; assumption|exact Hsm|exact Hs].
  - (* arrays *)
    cbn [schema_ok] in Hok. repeat (apply andb_true_iff in Hok as [Hok ?]).
    pose proof (kfac_nonneg t) as Hkt.
    assert (Helem : forall s, small s -> nonneg s -> gab 1 (kfac t) s (decode c flex t s)).
    { intros s0 Hs0 Hn0. eapply gab_weaken; [|apply IH; assumption]. lia. }
    assert (He : (e <= 65536)%N) by lia.
    pose proof (array_body_gab (kfac t) e (decode c flex t) Hkt He Helem) as Hbody.
    rewrite decode_array_eq. cbv zeta. cbn [min_size kfac]. destruct flex.
    + replace (N.to_nat 1) with (1 + 0)%nat by lia.
      apply gab_bind; [lia|exact Hs|eapply gab_mono; [|exact Hs|apply read_uvarint_gab; exact Hs]; lia|].
      intros x s1 Hc1. pose proof (consumes_nonneg _ _ _ Hc1 Hs) as Hs1. pose proof (consumes_small _ _ _ Hc1 Hsm) as Hsm1.
      destruct (N.ltb x 1); [apply gab_ret; [lia|exact Hs1]|].
      destruct (Z.ltb_spec (d_remain s1) 0); [apply fail_gab; [lia|exact Hs1]|].
      destruct (Z.ltb_spec (d_remain s1) (Z.of_N (x - 1))); [apply fail_gab; [lia|exact Hs1]|]. cbn [orb].
      apply Hbody; [exact Hsm1|exact Hs1|lia|lia].
    + replace (N.to_nat 4) with (4 + 0)%nat by lia.
      apply gab_bind; [lia|exact Hs|eapply gab_mono; [|exact Hs|apply read_int_gab; exact Hs]; lia|].
      intros x s1 Hc1. pose proof (consumes_nonneg _ _ _ Hc1 Hs) as Hs1. pose proof (consumes_small _ _ _ Hc1 Hsm) as Hsm1.
      destruct (Z.ltb_spec x 0); [apply gab_ret; [lia|exact Hs1]|].
      destruct (Z.ltb_spec (d_remain s1) x); [apply fail_gab; [lia|exact Hs1]|].
      apply Hbody; [exact Hsm1|exact Hs1|lia|lia].
  - (* structs *)
    rewrite schema_ok_struct_eq in Hok. repeat (apply andb_true_iff in Hok as [Hok ?]).
    rewrite decode_struct_eq, min_size_struct_eq, kfac_struct_eq.
    set (K := Z.max 1 (Z.max (kmax_fields fields) (kmax_tags tagged))).
    assert (HK1 : (1 <= K)%Z) by (unfold K; lia).
    assert (HinF : forall x, In x fields -> (kfac x <= K)%Z)
      by (intros x Hx; pose proof (kmax_fields_in x fields Hx); unfold K; lia).
    assert (HinT : forall p, In p tagged -> (kfac (snd p) <= K)%Z)
      by (intros p Hp; pose proof (kmax_tags_in p tagged Hp); unfold K; lia).
    clearbody K.
    assert (HF : Forall (fun t0 => (0 <= kfac t0 <= K)%Z /\ forall s0, small s0 -> nonneg s0 ->
                   gab (N.to_nat (min_size flex t0)) (kfac t0) s0 (decode c flex t0 s0)) fields).
    { rename HinF into Hin. clear - Hok IHf Hin. induction IHf as [|x r Hx _ IHr]; [constructor|].
      cbn [ok_fields] in Hok. apply andb_true_iff in Hok as [Hok Hr]. apply andb_true_iff in Hok as [_ Hsx].
      constructor.
      - split; [split; [apply kfac_nonneg|apply Hin; left; reflexivity]|]. intros s0 Hsm0 Hnn0. apply Hx; assumption.
      - apply IHr; [exact Hr|]. intros y Hy. apply Hin. right. exact Hy. }
    assert (HT : Forall (fun p => (0 <= kfac (snd p) <= K)%Z /\ forall s0, small s0 -> nonneg s0 ->
                   gab 0 (kfac (snd p)) s0 (decode c flex (snd p) s0)) tagged).
    { match goal with H : ok_tags flex tagged = true |- _ => rename H into Htags end.
      rename HinT into Hin. clear - Htags IHt Hin. induction IHt as [|[i x] r Hx _ IHr]; [constructor|].
      cbn [ok_tags] in Htags. apply andb_true_iff in Htags as [Htags Hr]. apply andb_true_iff in Htags as [_ Hsx].
      constructor.
      - cbn [snd] in *. split; [split; [apply kfac_nonneg|apply (Hin (i, x)); left; reflexivity]|].
        intros s0 Hsm0 Hnn0. eapply gab_weaken; [|apply Hx; assumption]. lia.
      - apply IHr; [exact Hr|]. intros y Hy. apply Hin. right. exact Hy. }
    replace (N.to_nat (min_fields flex fields + (if flex then 1 else 0)))
      with (N.to_nat (min_fields flex fields) + (if flex then 1 else 0))%nat by (destruct flex; lia).
    apply gab_bind; [lia|exact Hs|apply dec_fields_gab; [lia|exact HF|exact Hsm|exact Hs]|].
    intros fs s1 Hc1. pose proof (consumes_nonneg _ _ _ Hc1 Hs) as Hs1. pose proof (consumes_small _ _ _ Hc1 Hsm) as Hsm1.
    destruct flex; cbn [negb].
    + replace 1%nat with (1 + 0)%nat by lia.
      apply gab_bind; [lia|exact Hs1|eapply gab_mono; [|exact Hs1|apply read_uvarint_gab; exact Hs1]; lia|].
      intros cnt s2 Hc2.
      apply tag_loop_gab; [exact HK1|exact HT|eapply consumes_small; eassumption|eapply consumes_nonneg; eassumption|cbn [length]; lia].
    + apply gab_ret; [lia|exact Hs1].
  - rewrite decode_marker_eq. cbn [min_size kfac]. destruct flex; cbn [negb].
    + replace (N.to_nat 1) with (1 + 0)%nat by lia.
      apply gab_bind; [lia|exact Hs|eapply gab_mono; [|exact Hs|apply read_uvarint_gab; exact Hs]; lia|].
      intros cnt s1 Hc1.
      apply marker_loop_gab; [eapply consumes_small; eassumption|eapply consumes_nonneg; eassumption|cbn [length]; lia].
    + apply gab_ret; [lia|exact Hs].
  - cbn [decode min_size kfac]. replace (N.to_nat 4) with (4 + 0)%nat by lia.
    apply (prefixed_gab 4 (read_int 4) (fun x => (x <? 0)%Z) (fun x => x) (fun n => VRecords (put_bes 4 n)) (fun n bs => VRecords (put_bes 4 n ++ bs)));
      [intros; apply read_int_gab; assumption|exact Hsm|exact Hs].
Qed.
End Alloc.

(* ---- whole responses ---- *)
Lemma discard_all_gab c s : nonneg s -> gab c 0 0 s (discard_all s).
Proof.
  intros Hs. unfold discard_all, nonneg in *.
  destruct (Z.leb_spec (d_remain s) 0) as [Hz|Hpos].
  { apply gab_ret; [lia|exact Hs]. }
  destruct (Z.ltb_spec (Z.of_nat (length (d_in s))) (d_remain s)) as [Hshort|Hen].
  { split; [exact I|]. cbn [ab]. unfold zal. lia. }
  split.
  - cbn [good]. exists (Z.to_nat (d_remain s)). cbn [d_in d_remain d_alloc]. repeat split; lia.
  - cbn [ab d_remain d_alloc]. unfold zal. cbn [d_alloc]. change (0 <=? 0)%Z with true. cbv iota. lia.
Qed.

(* ReadResponse allocates at most 2 * K(t) bytes per byte of the DECLARED frame size, whatever
   the input; with a sufficient budget it therefore never reports Oom *)
Theorem response_alloc_bounded c flex t input :
  schema_ok flex t = true -> bytes_ok input ->
  let size := get_bes 4 (firstn 4 input) in
  let K := Z.max 1 (kfac t) in
  match read_response c flex t input with
  | Ok _ s' => (zal s' <= 2 * K * Z.max 0 size)%Z
  | Err _ _ al => (Z.of_N al <= 2 * K * Z.max 0 size)%Z
  | Oom => (Z.of_N (budget c) < 2 * K * Z.max 0 size)%Z
  | Panic => True
  | OutOfFuel => True
  end.
Proof.
  intros Hok Hbytes size K. pose proof (kfac_nonneg t) as Hkt.
  assert (HK : (1 <= K)%Z) by (unfold K; lia).
  unfold read_response.
  unfold read_int at 1. unfold read_n, read_z. cbn [d_remain d_in d_alloc].
  change (Z.of_nat 4 <=? 0)%Z with false. change (4 <=? 0)%Z with false. cbv iota.
  change (Z.min (Z.of_nat 4) 4) with 4%Z.
  destruct (Z.ltb_spec (Z.of_nat (length input)) 4) as [Hshort|Hlen]; [cbn [bind]; nia|].
  change (4 <? Z.of_nat 4)%Z with false. cbv iota. cbn [bind d_in d_alloc].
  change (Z.to_nat (Z.of_nat 4)) with 4%nat.
  fold size.
  assert (Hsize : (- ZM31 <= size < ZM31)%Z).
  { apply get_bes4_range; [apply Forall_firstn'; exact Hbytes|rewrite firstn_length; lia]. }
  set (s1 := {| d_in := skipn 4 input; d_remain := size; d_alloc := 0 |}).
  assert (Hsm1 : small s1) by (unfold small, s1; cbn; lia).
  destruct (Z.leb_spec size 0) as [Hneg|Hpos].
  { (* the correlation id cannot be read from an empty or negative frame: nothing was allocated *)
    unfold read_int, read_n, read_z, s1. cbn [d_remain d_in d_alloc].
    change (Z.of_nat 4 <=? 0)%Z with false. cbv iota.
    destruct (Z.leb_spec size 0); [|lia]. cbn [bind]. nia. }
  assert (Hs1 : nonneg s1) by (unfold nonneg, s1; cbn; lia).
  match goal with |- match ?e with _ => _ end => assert (HG : gab c 0 K s1 e) end.
  { apply (gab_weaken c (4 + (0 + (0 + (0 + 0)))) 0); [lia|].
    apply gab_bind; [lia|exact Hs1|eapply gab_mono; [|exact Hs1|apply read_int_gab; exact Hs1]; lia|].
    intros corr s2 H2. pose proof (consumes_nonneg _ _ _ H2 Hs1) as Hs2. pose proof (consumes_small _ _ _ H2 Hsm1) as Hsm2.
    apply gab_bind; [lia|exact Hs2| |].
    - destruct flex; [|apply gab_ret; [lia|exact Hs2]].
      apply (gab_weaken c (1 + 0) 0); [lia|].
      apply gab_bind; [lia|exact Hs2|eapply gab_mono; [|exact Hs2|apply read_uvarint_gab; exact Hs2]; lia|].
      intros cnt s3 H3.
      eapply gab_mono; [|eapply consumes_nonneg; eassumption|apply header_tags_gab]; try lia.
      + eapply consumes_small; eassumption.
      + eapply consumes_nonneg; eassumption.
      + cbn [length]. lia.
    - intros _ s3 H3. pose proof (consumes_nonneg _ _ _ H3 Hs2) as Hs3. pose proof (consumes_small _ _ _ H3 Hsm2) as Hsm3.
      apply gab_bind; [lia|exact Hs3| |].
      + eapply gab_mono; [|exact Hs3|eapply gab_weaken; [|apply decode_gab; [exact Hok|exact Hsm3|exact Hs3]]]; unfold K; lia.
      + intros v s4 H4. pose proof (consumes_nonneg _ _ _ H4 Hs3) as Hs4.
        apply gab_bind; [lia|exact Hs4|eapply gab_mono; [|exact Hs4|apply discard_all_gab; exact Hs4]; lia|].
        intros _ s5 H5. apply gab_ret; [lia|eapply consumes_nonneg; eassumption]. }
  destruct HG as [Hg Ha].
  match goal with |- match ?e with _ => _ end => destruct e as [r s'| er ra al | | |] end;
    cbn [ab good] in *; try exact I.
  - pose proof (consumes_remain _ _ _ Hg) as Hr. pose proof (consumes_nonneg _ _ _ Hg Hs1) as Hs'.
    unfold nonneg in Hs'. unfold s1, zal in *. cbn [d_remain d_alloc] in *.
    destruct (Z.leb_spec (d_remain s') 0); nia.
  - unfold s1, zal in *. cbn [d_remain d_alloc] in *. nia.
  - unfold s1, zal in *. cbn [d_remain d_alloc] in *. nia.
Qed.

(* when the whole frame has arrived, that is a bound in the bytes RECEIVED *)
Corollary complete_frame_alloc_proportional c flex t input :
  schema_ok flex t = true -> bytes_ok input -> (4 <= length input)%nat ->
  (4 + get_bes 4 (firstn 4 input) <= Z.of_nat (length input))%Z ->
  let K := Z.max 1 (kfac t) in
  match read_response c flex t input with
  | Ok _ s' => (zal s' <= 2 * K * Z.of_nat (length input))%Z
  | Err _ _ al => (Z.of_N al <= 2 * K * Z.of_nat (length input))%Z
  | Oom => (Z.of_N (budget c) < 2 * K * Z.of_nat (length input))%Z
  | Panic => True
  | OutOfFuel => True
  end.
Proof.
  intros Hok Hb Hl Hc K. pose proof (response_alloc_bounded c flex t input Hok Hb) as H. cbv zeta in H. fold K in H.
  pose proof (kfac_nonneg t). assert (1 <= K)%Z by (unfold K; lia).
  destruct (read_response c flex t input); try exact I; nia.
Qed.
