(* Proofs/SchemaC20.v — corollaries of totality for the generated schema table, and the
   residual allocation witness. *)
From Coq Require Import List NArith ZArith Bool Lia.
From KV Require Import Lib.Bits Lib.Bytes Lib.Varint Model.Schema Gen.Schemas
  Proofs.SchemaBase Proofs.SchemaDefs Proofs.SchemaPrims Proofs.SchemaTotal Proofs.SchemaGen.
Import ListNotations.

Lemma every_registered_type_total c m input :
  In m schemas -> bytes_ok input ->
  match read_response c m.(ms_flex) m.(ms_ty) input with
  | Panic => False | OutOfFuel => False | _ => True
  end.
Proof.
  intros Hin Hb.
  pose proof gen_schemas_ok as Hok. unfold schemas_ok in Hok. rewrite forallb_forall in Hok.
  specialize (Hok m Hin). apply andb_true_iff in Hok as [Hok _].
  pose proof (read_response_total c (ms_flex m) (ms_ty m) input Hok Hb) as H.
  destruct (read_response c (ms_flex m) (ms_ty m) input); try exact H; exact I.
Qed.

Lemma alloc_follows_declared_size :
  exists t input, schema_ok false t = true /\ length input = 14%nat /\ bytes_ok input /\
    read_response {| budget := 1073741824 |} false t input = Oom.
Proof.
  exists (TStruct [TBytes true] []).
  exists [127; 255; 255; 255; 0; 0; 0; 1; 127; 255; 255; 240; 1; 2]%N.
  split; [reflexivity|]. split; [reflexivity|]. split.
  - repeat constructor.
  - vm_compute. reflexivity.
Qed.
