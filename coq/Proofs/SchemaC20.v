(* Proofs/SchemaC20.v — corollaries of totality for the generated schema table, and the
   residual allocation witness. *)
From Coq Require Import List NArith ZArith Bool Lia.
From KV Require Import Lib.Bits Lib.Bytes Lib.Varint Model.Schema Gen.Schemas
  Proofs.SchemaBase Proofs.SchemaDefs Proofs.SchemaPrims Proofs.SchemaTotal Proofs.SchemaGen.
Import ListNotations.

Lemma every_registered_type_total c m input :
  In m schemas -> bytes_ok input ->
  match read_response c m.(ms_flex) m.(ms_ty) input with
  | Panic => False | OutOfFuel => False | _ => True
  end.
Proof.
  intros Hin Hb.
  pose proof gen_schemas_ok as Hok. unfold schemas_ok in Hok. rewrite forallb_forall in Hok.
  specialize (Hok m Hin). apply andb_true_iff in Hok as [Hok _].
  pose proof (read_response_total c (ms_flex m) (ms_ty m) input Hok Hb) as H.
  destruct (read_response c (ms_flex m) (ms_ty m) input); try exact H; exact I.
Qed.

Lemma alloc_follows_declared_size :
  exists t input, schema_ok false t = true /\ length input = 14%nat /\ bytes_ok input /\
    read_response {| budget := 1073741824 |} false t input = Oom.
Proof.
  exists (TStruct [TBytes true] []).
  exists [127; 255; 255; 255; 0; 0; 0; 1; 127; 255; 255; 240; 1; 2]%N.
  split; [reflexivity|]. split; [reflexivity|]. split.
  - repeat constructor.
  - vm_compute. reflexivity.
Qed.

(* ---- the allocation bound for the generated table ---- *)
From KV Require Import Proofs.SchemaAlloc.

Definition KMAX : Z := 217.

Lemma registered_kfac_le : forall m, In m schemas -> (kfac (ms_ty m) <= KMAX)%Z.
Proof.
  assert (H : forallb (fun m => (kfac (ms_ty m) <=? KMAX)%Z) schemas = true) by (vm_compute; reflexivity).
  rewrite forallb_forall in H. intros m Hm. specialize (H m Hm). apply Z.leb_le in H. exact H.
Qed.

Lemma every_registered_type_alloc c m input :
  In m schemas -> bytes_ok input ->
  let size := get_bes 4 (firstn 4 input) in
  match read_response c m.(ms_flex) m.(ms_ty) input with
  | Ok _ s' => (zal s' <= 2 * KMAX * Z.max 0 size)%Z
  | Err _ _ al => (Z.of_N al <= 2 * KMAX * Z.max 0 size)%Z
  | Oom => (Z.of_N (budget c) < 2 * KMAX * Z.max 0 size)%Z
  | Panic => False
  | OutOfFuel => False
  end.
Proof.
  intros Hin Hb size.
  pose proof gen_schemas_ok as Hok. unfold schemas_ok in Hok. rewrite forallb_forall in Hok.
  specialize (Hok m Hin). apply andb_true_iff in Hok as [Hok _].
  pose proof (response_alloc_bounded c (ms_flex m) (ms_ty m) input Hok Hb) as H. cbv zeta in H. fold size in H.
  pose proof (every_registered_type_total c m input Hin Hb) as HT.
  pose proof (registered_kfac_le m Hin) as HK. pose proof (kfac_nonneg (ms_ty m)) as HK0.
  unfold KMAX in *.
  destruct (read_response c (ms_flex m) (ms_ty m) input); try exact HT; nia.
Qed.

Lemma alloc_proportional_refuted :
  ~ (forall c flex t input,
      schema_ok flex t = true -> bytes_ok input ->
      match read_response c flex t input with
      | Ok _ s' => (zal s' <= 2 * Z.max 1 (kfac t) * Z.of_nat (length input))%Z
      | Err _ _ al => (Z.of_N al <= 2 * Z.max 1 (kfac t) * Z.of_nat (length input))%Z
      | Oom => (Z.of_N (budget c) < 2 * Z.max 1 (kfac t) * Z.of_nat (length input))%Z
      | Panic => True | OutOfFuel => True
      end).
Proof.
  intros H.
  specialize (H {| budget := 1073741824 |} false (TStruct [TBytes true] [])
                [127; 255; 255; 255; 0; 0; 0; 1; 127; 255; 255; 240; 1; 2]%N eq_refl).
  assert (Hb : bytes_ok [127; 255; 255; 255; 0; 0; 0; 1; 127; 255; 255; 240; 1; 2]%N) by (repeat constructor).
  specialize (H Hb).
  assert (E : read_response {| budget := 1073741824 |} false (TStruct [TBytes true] [])
                [127; 255; 255; 255; 0; 0; 0; 1; 127; 255; 255; 240; 1; 2]%N = Oom) by (vm_compute; reflexivity).
  rewrite E in H. vm_compute in H. discriminate H.
Qed.

(* C17 with the memory outcome excluded: a cut response of a registered type is an ERROR as soon
   as the budget covers what the declared frame size allows (2 * KMAX * size bytes) — in
   particular every strict prefix of a well-formed frame of s bytes under a budget of
   2 * 217 * s bytes. *)
Lemma registered_cut_is_error c m input :
  In m schemas -> bytes_ok input -> (4 <= length input)%nat ->
  (Z.of_nat (length input) < 4 + get_bes 4 (firstn 4 input))%Z ->
  (2 * KMAX * Z.max 0 (get_bes 4 (firstn 4 input)) <= Z.of_N (budget c))%Z ->
  exists e ra al, read_response c m.(ms_flex) m.(ms_ty) input = Err e ra al.
Proof.
  intros Hin Hb Hl Hcut Hbud.
  pose proof gen_schemas_ok as Hok. unfold schemas_ok in Hok. rewrite forallb_forall in Hok.
  specialize (Hok m Hin). apply andb_true_iff in Hok as [Hok _].
  pose proof (cut_never_ok c (ms_flex m) (ms_ty m) input Hok Hb Hl Hcut) as H1.
  pose proof (every_registered_type_alloc c m input Hin Hb) as H2. cbv zeta in H2.
  destruct (read_response c (ms_flex m) (ms_ty m) input) as [v s'|e ra al| | |];
    try contradiction.
  - exists e, ra, al. reflexivity.
  - exfalso. lia.
Qed.
