(* Proofs/ReaderLookup.v — C02: the dialled partition is the configured one, whatever the order in
   which the Metadata answer lists the partitions. *)
From Coq Require Import List ZArith Lia Permutation.
From KV Require Import Model.ReaderLookup.
Import ListNotations.
Open Scope Z_scope.

Lemma lookup_partition_id id ds d : lookup_partition id ds = Some d -> pd_id d = id /\ In d ds.
Proof.
  induction ds as [|x t IH]; [discriminate|]. cbn [lookup_partition].
  destruct (pd_id x =? id) eqn:E; intros H.
  - injection H as <-. split; [lia|left; reflexivity].
  - destruct (IH H) as [H1 H2]. split; [exact H1|right; exact H2].
Qed.

Lemma lookup_partition_found id ds : (exists d, In d ds /\ pd_id d = id) -> exists d, lookup_partition id ds = Some d.
Proof.
  intros (d & Hin & Hid). induction ds as [|x t IH]; [destruct Hin|]. cbn [lookup_partition].
  destruct (pd_id x =? id) eqn:E; [eexists; reflexivity|].
  destruct Hin as [->|Hin]; [lia|apply IH, Hin].
Qed.

(* the dialled partition is the configured one *)
Theorem dialled_partition_is_configured id ds p : dialled_partition id ds = Some p -> p = id.
Proof.
  unfold dialled_partition. destruct (lookup_partition id ds) as [d|] eqn:E; [|discriminate].
  intros H. injection H as <-. apply (lookup_partition_id id ds d E).
Qed.

(* ... for every order of the list: with distinct partition ids the descriptor found does not
   depend on the permutation the broker chose *)
Theorem lookup_partition_permutation id ds ds' :
  NoDup (map pd_id ds) -> Permutation ds ds' -> lookup_partition id ds' = lookup_partition id ds.
Proof.
  intros Hnd Hp.
  assert (Hnd' : NoDup (map pd_id ds')) by (eapply Permutation_NoDup; [apply Permutation_map; exact Hp|exact Hnd]).
  assert (Huniq : forall l, NoDup (map pd_id l) -> forall a b, In a l -> In b l -> pd_id a = pd_id b -> a = b).
  { induction l as [|x t IH]; intros Hn a b Ha Hb He; [destruct Ha|].
    cbn [map] in Hn. apply NoDup_cons_iff in Hn as [Hx Hn].
    destruct Ha as [->|Ha]; destruct Hb as [->|Hb]; try reflexivity.
    - exfalso. apply Hx. rewrite He. apply in_map. exact Hb.
    - exfalso. apply Hx. rewrite <- He. apply in_map. exact Ha.
    - apply IH; assumption. }
  destruct (lookup_partition id ds) as [d|] eqn:E.
  - destruct (lookup_partition_id id ds d E) as [Hid Hin].
    destruct (lookup_partition_found id ds') as [d' E']; [exists d; split; [eapply Permutation_in; eassumption|exact Hid]|].
    rewrite E'. f_equal. destruct (lookup_partition_id id ds' d' E') as [Hid' Hin'].
    apply (Huniq ds' Hnd'); [exact Hin'|eapply Permutation_in; eassumption|lia].
  - destruct (lookup_partition id ds') as [d'|] eqn:E'; [|reflexivity]. exfalso.
    destruct (lookup_partition_id id ds' d' E') as [Hid' Hin'].
    destruct (lookup_partition_found id ds) as [d E2]; [exists d'; split; [eapply Permutation_in; [apply Permutation_sym; exact Hp|exact Hin']|exact Hid']|].
    rewrite E in E2. discriminate.
Qed.

(* taking the descriptor by its POSITION in the list is not the same function: *)
Example position_is_not_id :
  nth_error [mkPD 1 2; mkPD 0 1] 0 = Some (mkPD 1 2) /\ lookup_partition 0 [mkPD 1 2; mkPD 0 1] = Some (mkPD 0 1).
Proof. split; reflexivity. Qed.
