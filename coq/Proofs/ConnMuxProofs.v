(* Proofs/ConnMuxProofs.v — invariants of the ConnMux transition system and the lemmas
   behind the C06 theorems about the legacy Conn. *)
From Coq Require Import List ZArith Bool Arith Lia.
From KV Require Import Model.ConnMux Proofs.ConnMuxBase.
Import ListNotations.
Local Open Scope Z_scope.

Definition presend (p : phase) : bool :=
  match p with Idle | Entered | WLocked => true | _ => false end.

Definition ID_BOUND : Z := 4294967296.

Record Inv (s : state) : Prop := mkInv {
  i_id : next_id s = wrap32 (nsend s) /\ 0 <= nsend s;
  i_pre : forall t, presend (ph (thr s t)) = true ->
          seqn (thr s t) = 0 /\ reached (thr s t) = false;
  i_post : forall t, presend (ph (thr s t)) = false ->
           1 <= seqn (thr s t) <= nsend s /\ rid (thr s t) = wrap32 (seqn (thr s t));
  i_inj : forall t u, presend (ph (thr s t)) = false -> presend (ph (thr s u)) = false ->
          seqn (thr s t) = seqn (thr s u) -> t = u;
  i_frames : forall f, In f (consumed s ++ wire s) ->
             reached (thr s (fown f)) = true /\ fid f = rid (thr s (fown f)) /\
             In (fown f) (answered s);
  i_nodup : NoDup (map fown (consumed s ++ wire s))
}.

(* ---- small list facts ---- *)
Lemma NoDup_snoc : forall (A : Type) (l : list A) x, NoDup l -> ~ In x l -> NoDup (l ++ [x]).
Proof.
  induction l as [|a l IH]; intros x H N; simpl.
  - constructor; [intros []|constructor].
  - inversion H; subst. constructor.
    + rewrite in_app_iff. intros [I|[I|[]]]; [contradiction|subst; apply N; left; reflexivity].
    + apply IH; [assumption|intros I; apply N; right; exact I].
Qed.

Lemma NoDup_app_l : forall (A : Type) (l l' : list A), NoDup (l ++ l') -> NoDup l.
Proof.
  induction l as [|a l IH]; intros l' H; [constructor|].
  simpl in H. inversion H; subst. constructor.
  - intros I. apply H2. apply in_or_app. left; exact I.
  - eapply IH; eauto.
Qed.

Lemma NoDup_drop_mid : forall (A : Type) (l : list A) x l', NoDup (l ++ x :: l') -> NoDup (l ++ l').
Proof. intros. eapply NoDup_remove_1; eauto. Qed.

Lemma existsb_eqb_false : forall t l, existsb (Nat.eqb t) l = false -> ~ In t l.
Proof.
  intros t l H I. assert (existsb (Nat.eqb t) l = true).
  { apply existsb_exists. exists t. split; [exact I|apply Nat.eqb_refl]. }
  congruence.
Qed.

Lemma presend_false_of_reached : forall s t, Inv s -> reached (thr s t) = true -> presend (ph (thr s t)) = false.
Proof.
  intros s t I R. destruct (presend (ph (thr s t))) eqn:E; [|reflexivity].
  destruct (i_pre s I t E) as [_ R']. congruence.
Qed.

Lemma Inv_init : Inv init.
Proof.
  constructor; cbn.
  - split; [reflexivity|lia].
  - intros t _. split; reflexivity.
  - intros t H. discriminate.
  - intros t u H. discriminate.
  - intros f [].
  - constructor.
Qed.

(* destruct the [Nat.eqb t u] tests produced by thr_upd *)
Ltac case_thr :=
  repeat match goal with
  | H : context [thr (upd_thread _ ?t _) ?u] |- _ => rewrite thr_upd in H
  | |- context [thr (upd_thread _ ?t _) ?u] => rewrite thr_upd
  end;
  repeat match goal with
  | H : context [if Nat.eqb ?t ?u then _ else _] |- _ =>
    let E := fresh "E" in destruct (Nat.eqb t u) eqn:E;
    [apply Nat.eqb_eq in E; subst|apply Nat.eqb_neq in E]
  | |- context [if Nat.eqb ?t ?u then _ else _] =>
    let E := fresh "E" in destruct (Nat.eqb t u) eqn:E;
    [apply Nat.eqb_eq in E; subst|apply Nat.eqb_neq in E]
  end.

(* the thread-local effect of a step on the numbering ghosts *)
Definition same_num (a b : thread) : Prop :=
  seqn a = seqn b /\ rid a = rid b /\ reached a = reached b /\ presend (ph a) = presend (ph b).

Lemma step_threads : forall s l s', step s l = Some s' ->
  forall u,
    same_num (thr s u) (thr s' u) \/
    (ph (thr s u) = Idle /\ presend (ph (thr s' u)) = true /\ seqn (thr s' u) = 0 /\ reached (thr s' u) = false) \/
    (ph (thr s u) = WLocked /\ presend (ph (thr s' u)) = false /\ seqn (thr s' u) = nsend s + 1 /\
     rid (thr s' u) = wrap32 (next_id s + 1) /\ nsend s' = nsend s + 1).
Proof.
  intros s l s' H u.
  destruct l; step_inv H; case_thr; cbn;
    try (left; unfold same_num; repeat split; cbn; try reflexivity; try congruence;
         match goal with Hp : ph _ = _ |- _ => rewrite Hp; reflexivity end);
    try (right; left; repeat split; auto; fail);
    try (right; right; repeat split; auto; fail).
Qed.

Lemma step_global : forall s l s', step s l = Some s' ->
  (nsend s' = nsend s /\ next_id s' = next_id s) \/
  (nsend s' = nsend s + 1 /\ next_id s' = wrap32 (next_id s + 1) /\
   exists t, ph (thr s t) = WLocked /\ presend (ph (thr s' t)) = false).
Proof.
  intros s l s' H.
  destruct l; step_inv H; cbn; try (left; split; reflexivity);
    right; repeat split; try reflexivity; exists t; rewrite Nat.eqb_refl; cbn; auto.
Qed.

Ltac fr_old H :=
  left; repeat match goal with E : wire _ = _ |- _ => rewrite E in * end;
  rewrite <- ?app_assoc in H; cbn in H; rewrite ?app_nil_r in H;
  first [exact H | apply in_or_app; left; exact H].

Lemma step_frames : forall s l s', step s l = Some s' ->
  (forall f, In f (consumed s' ++ wire s') ->
     In f (consumed s ++ wire s) \/
     (exists t, l = Arrive t /\ f = mkFrame (rid (thr s t)) t /\ reached (thr s t) = true /\
                ~ In t (answered s) /\ thr s' t = thr s t /\ In t (answered s'))) /\
  (forall t, In t (answered s) -> In t (answered s')).
Proof.
  intros s l s' H.
  destruct l; step_inv H; cbn; (split; [intros f0 H|intros; auto]);
    try (fr_old H; fail).
  (* Arrive *)
  rewrite app_assoc in H. apply in_app_or in H. destruct H as [H|[H|[]]]; [left; exact H|].
  right. exists t. repeat split; auto.
  - apply andb_prop in Heqb. destruct Heqb as [Hb _]. apply andb_prop in Hb. tauto.
  - apply andb_prop in Heqb. destruct Heqb as [_ Hb].
    apply existsb_eqb_false. destruct (existsb (Nat.eqb t) (answered s)); [discriminate|reflexivity].
Qed.

Lemma step_one : forall s l s', step s l = Some s' ->
  exists t0, forall u, u <> t0 -> thr s' u = thr s u.
Proof.
  intros s l s' H.
  destruct l; step_inv H;
    try (exists t; intros u Hu; rewrite thr_upd_other by congruence; reflexivity);
    try (exists t; intros u Hu; reflexivity);
    try (exists 0%nat; intros u Hu; reflexivity).
Qed.

Lemma step_nodup : forall s l s', Inv s -> step s l = Some s' ->
  NoDup (map fown (consumed s' ++ wire s')).
Proof.
  intros s l s' I H. pose proof (i_nodup s I) as N. pose proof (i_frames s I) as F.
  destruct l; step_inv H; cbn;
    repeat match goal with E : wire _ = _ |- _ => rewrite E in * end;
    rewrite <- ?app_assoc; cbn; rewrite ?app_nil_r; auto;
    try (rewrite map_app in N; eapply NoDup_app_l; exact N).
  (* Arrive *)
  rewrite app_assoc, map_app. cbn. apply NoDup_snoc; [exact N|].
  intros Hin. apply in_map_iff in Hin. destruct Hin as [f [Ef Hf]].
  destruct (F f Hf) as [_ [_ A]]. rewrite Ef in A.
  apply andb_prop in Heqb. destruct Heqb as [_ Hb].
  eapply existsb_eqb_false; [|exact A].
  destruct (existsb (Nat.eqb t) (answered s)); [discriminate|reflexivity].
Qed.

Lemma Inv_step : forall s l s', Inv s -> step s l = Some s' -> Inv s'.
Proof.
  intros s l s' I H.
  pose proof (step_threads s l s' H) as T.
  pose proof (step_global s l s' H) as G.
  pose proof (step_frames s l s' H) as [Fr An].
  pose proof (step_one s l s' H) as [t0 One].
  destruct (i_id s I) as [Id0 Id1].
  assert (Mono : nsend s <= nsend s') by (destruct G as [[G _]|[G _]]; lia).
  constructor.
  - destruct G as [[G1 G2]|[G1 [G2 _]]].
    + rewrite G1, G2. split; assumption.
    + rewrite G1, G2, Id0, wrap32_succ. split; [reflexivity|lia].
  - intros t P. destruct (T t) as [[S1 [S2 [S3 S4]]]|[[_ [_ [A B]]]|[_ [C _]]]].
    + rewrite <- S1, <- S3. apply (i_pre s I). rewrite S4. exact P.
    + split; assumption.
    + congruence.
  - intros t P. destruct (T t) as [[S1 [S2 [S3 S4]]]|[[_ [C _]]|[_ [_ [A [B C]]]]]].
    + rewrite <- S1, <- S2. rewrite <- S4 in P. destruct (i_post s I t P) as [X Y].
      split; [lia|exact Y].
    + congruence.
    + rewrite A, B, Id0, wrap32_succ. split; [lia|reflexivity].
  - intros t u Pt Pu E.
    destruct (T t) as [[S1 [_ [_ S4]]]|[[_ [C _]]|[Wt [_ [A [_ C]]]]]]; [|congruence|].
    + destruct (T u) as [[U1 [_ [_ U4]]]|[[_ [D _]]|[Wu [_ [B [_ D]]]]]]; [|congruence|].
      * apply (i_inj s I); [rewrite S4; exact Pt|rewrite U4; exact Pu|congruence].
      * assert (Pt' : presend (ph (thr s t)) = false) by (rewrite S4; exact Pt).
        destruct (i_post s I t Pt') as [X _]. lia.
    + destruct (T u) as [[U1 [_ [_ U4]]]|[[_ [D _]]|[Wu [_ [B [_ D]]]]]]; [|congruence|].
      * assert (Pu' : presend (ph (thr s u)) = false) by (rewrite U4; exact Pu).
        destruct (i_post s I u Pu') as [X _]. lia.
      * destruct (Nat.eq_dec t u) as [|Ne]; [assumption|].
        destruct (Nat.eq_dec t t0) as [->|Nt].
        -- rewrite (One u) in Pu by congruence. rewrite Wu in Pu. discriminate.
        -- rewrite (One t Nt) in Pt. rewrite Wt in Pt. discriminate.
  - intros f Hf. destruct (Fr f Hf) as [Old|[t [_ [Ef [R [_ [Same A]]]]]]].
    + destruct (i_frames s I f Old) as [R [Ei A]].
      pose proof (presend_false_of_reached s (fown f) I R) as P.
      destruct (T (fown f)) as [[S1 [S2 [S3 S4]]]|[[C _]|[C _]]].
      * rewrite <- S3, <- S2. repeat split; auto.
      * rewrite C in P. discriminate.
      * rewrite C in P. discriminate.
    + subst f. cbn. rewrite Same. repeat split; auto.
  - eapply step_nodup; eauto.
Qed.

Lemma Inv_run : forall ls s, run init ls = Some s -> Inv s.
Proof. intros ls s H. eapply (inv_run Inv); [|exact Inv_init|exact H]. intros; eapply Inv_step; eauto. Qed.
