(* Proofs/XerialSnappyProofs.v — facts about the strict snappy block decoder of Spec/SnappyBlock.v. *)
From Coq Require Import List NArith Bool Lia.
From KV Require Import Spec.SnappyBlock.
Import ListNotations.
Local Open Scope N_scope.

(* what it accepts has exactly the length announced by the preamble (and that is < 2^32) *)
Theorem snappy_decode_length c b :
  snappy_block_decode c = Some b ->
  snappy_block_decoded_len c = Some (sb_length b) /\ sb_length b < 4294967296.
Proof.
  unfold snappy_block_decode, snappy_block_decoded_len.
  destruct (sb_uvarint 10 c 0 0) as [[dlen rest]|]; [|discriminate].
  destruct (N.leb_spec 4294967296 dlen) as [H|H]; [discriminate|].
  destruct (sb_elements (length rest) rest [] 0 dlen) as [out|]; [|discriminate].
  destruct (N.eqb_spec (sb_length out) dlen) as [E|E]; [|discriminate].
  intros H0. injection H0 as <-. rewrite E. split; [reflexivity|exact H].
Qed.

(* no preamble, no block *)
Theorem snappy_decode_needs_preamble c :
  snappy_block_decoded_len c = None -> snappy_block_decode c = None.
Proof.
  unfold snappy_block_decode, snappy_block_decoded_len.
  destruct (sb_uvarint 10 c 0 0) as [[dlen rest]|]; [|reflexivity].
  destruct (4294967296 <=? dlen); [reflexivity|discriminate].
Qed.

(* a block whose first element is a copy is rejected: nothing to copy from *)
Lemma zero_or_beyond off : (off =? 0) || (0 <? off) = true.
Proof. destruct (N.eqb_spec off 0); [reflexivity|]. cbn [orb]. apply N.ltb_lt. lia. Qed.

Theorem snappy_copy_first_rejected dlen tag rest fuel :
  tag mod 4 <> 0 -> sb_elements fuel (tag :: rest) [] 0 dlen = None.
Proof.
  intros Hk. destruct fuel as [|fuel]; [reflexivity|]. cbn [sb_elements].
  replace (tag mod 4 =? 0) with false by (symmetry; apply N.eqb_neq; exact Hk).
  destruct (tag mod 4 =? 1).
  - destruct rest as [|b rest']; [reflexivity|]. cbv beta iota zeta.
    rewrite zero_or_beyond. reflexivity.
  - destruct (sb_le (if tag mod 4 =? 2 then 2%nat else 4%nat) rest) as [[off rest']|]; [|reflexivity].
    cbv beta iota zeta. rewrite zero_or_beyond. reflexivity.
Qed.
