(* Proofs/ConnOpsBase.v — the semantic invariant [good] shared by every reader of
   Model/Legacy.v, closed under bind / loops:
     (a) the reader consumes a prefix c of the stream;
     (b) unless it failed on the stream itself (io.EOF / io.ErrUnexpectedEOF), the remaining
         size went down by exactly |c| and the run depends on c only (locality);
     (c) on the stream cut anywhere inside c it fails with io.EOF / io.ErrUnexpectedEOF. *)
From Coq Require Import List NArith ZArith Bool Lia.
From Coq Require Import ZifyN ZifyNat ZifyBool.
From KV Require Import Lib.Bits Lib.Bytes Model.Legacy.
Import ListNotations.
Open Scope Z_scope.

Definition transport (e : err) : bool :=
  match e with EEOF | EUnexpEOF => true | _ => false end.
Definition rtransport {A} (r : sum A err) : bool :=
  match r with inr e => transport e | inl _ => false end.

Definition good {A} (p : P A) : Prop :=
  forall sz s r sz' s', p sz s = (r, sz', s') ->
  exists c, s = c ++ s' /\
    (rtransport r = false ->
       sz' = sz - Z.of_nat (length c) /\ forall rest, p sz (c ++ rest) = (r, sz', rest)) /\
    (forall k, (k < length c)%nat ->
       exists e sz2 s2, p sz (firstn k c) = (inr e, sz2, s2) /\ transport e = true).

Lemma good_ret A (a : A) : good (ret a).
Proof.
  intros sz s r sz' s' H. unfold ret in H. inversion H; subst. exists []. cbn.
  split; [reflexivity|]. split; [intros _; split; [lia|reflexivity]|]. intros k Hk. lia.
Qed.

Lemma good_fail A (e : err) : good (@fail A e).
Proof.
  intros sz s r sz' s' H. unfold fail in H. inversion H; subst. exists []. cbn.
  split; [reflexivity|]. split; [intros _; split; [lia|reflexivity]|]. intros k Hk. lia.
Qed.

Lemma good_get_sz : good get_sz.
Proof.
  intros sz s r sz' s' H. unfold get_sz in H. inversion H; subst. exists []. cbn.
  split; [reflexivity|]. split; [intros _; split; [lia|reflexivity]|]. intros k Hk. lia.
Qed.

Lemma firstn_app_lt {A} k (c1 c2 : list A) : (k < length c1)%nat -> firstn k (c1 ++ c2) = firstn k c1.
Proof.
  intros H. rewrite firstn_app. replace (k - length c1)%nat with 0%nat by lia.
  cbn. apply app_nil_r.
Qed.
Lemma firstn_app_ge {A} k (c1 c2 : list A) :
  (length c1 <= k)%nat -> firstn k (c1 ++ c2) = c1 ++ firstn (k - length c1) c2.
Proof. intros H. rewrite firstn_app. rewrite firstn_all2 by lia. reflexivity. Qed.

Lemma good_bind A B (p : P A) (f : A -> P B) : good p -> (forall a, good (f a)) -> good (bind p f).
Proof.
  intros Hp Hf sz s r sz' s' H. unfold bind in H.
  destruct (p sz s) as [[ra sz1] s1] eqn:Ep.
  destruct (Hp _ _ _ _ _ Ep) as (c1 & Hs & Hb & Hd).
  destruct ra as [a|e].
  - destruct (Hf a _ _ _ _ _ H) as (c2 & Hs2 & Hb2 & Hd2).
    destruct (Hb eq_refl) as [Hsz1 Hloc1].
    exists (c1 ++ c2). split; [subst s s1; apply app_assoc|]. split.
    + intros Hr. destruct (Hb2 Hr) as [Hsz2 Hloc2]. split.
      * rewrite app_length. lia.
      * intros rest. unfold bind. rewrite <- app_assoc, Hloc1. apply Hloc2.
    + intros k Hk. rewrite app_length in Hk.
      destruct (Nat.lt_ge_cases k (length c1)) as [Hlt|Hge].
      * destruct (Hd k Hlt) as (e & sz2 & s2 & He & Ht).
        exists e, sz2, s2. split; [|exact Ht].
        unfold bind. rewrite firstn_app_lt by exact Hlt. rewrite He. reflexivity.
      * destruct (Hd2 (k - length c1)%nat ltac:(lia)) as (e & sz2 & s2 & He & Ht).
        exists e, sz2, s2. split; [|exact Ht].
        unfold bind. rewrite firstn_app_ge by exact Hge. rewrite Hloc1. exact He.
  - inversion H; subst r sz' s'. exists c1. split; [exact Hs|]. split.
    + intros Hr. destruct (Hb Hr) as [Hsz1 Hloc1]. split; [exact Hsz1|].
      intros rest. unfold bind. rewrite Hloc1. reflexivity.
    + intros k Hk. destruct (Hd k Hk) as (e' & sz2 & s2 & He & Ht).
      exists e', sz2, s2. split; [|exact Ht]. unfold bind. rewrite He. reflexivity.
Qed.

Lemma good_pmap A B (f : A -> B) (p : P A) : good p -> good (pmap f p).
Proof. intros H. unfold pmap. apply good_bind; [exact H|]. intros a. apply good_ret. Qed.

Lemma good_if A (b : bool) (p q : P A) : good p -> good q -> good (if b then p else q).
Proof. destruct b; auto. Qed.

Lemma good_peek_read n : good (peek_read n).
Proof.
  intros sz s r sz' s' H. unfold peek_read in H.
  destruct (Z.ltb_spec sz (Z.of_nat n)) as [Hsz|Hsz].
  - inversion H; subst. exists []. split; [reflexivity|]. split.
    + intros _. split; [cbn; lia|]. intros rest. unfold peek_read. cbn [app].
      destruct (Z.ltb_spec sz' (Z.of_nat n)); [reflexivity|lia].
    + cbn. intros k Hk. lia.
  - destruct (Nat.ltb_spec (length s) n) as [Hl|Hl].
    + inversion H; subst. exists []. split; [reflexivity|]. split.
      * cbn. discriminate.
      * cbn. intros k Hk. lia.
    + inversion H; subst. exists (firstn n s). split; [symmetry; apply firstn_skipn|].
      assert (Hlen : length (firstn n s) = n) by (apply firstn_length_le; exact Hl).
      split.
      * intros _. split; [lia|]. intros rest. unfold peek_read.
        destruct (Z.ltb_spec sz (Z.of_nat n)); [lia|].
        destruct (Nat.ltb_spec (length (firstn n s ++ rest)) n) as [Hx|Hx];
          [rewrite app_length in Hx; lia|].
        rewrite firstn_app, Hlen, Nat.sub_diag. cbn [firstn]. rewrite app_nil_r.
        rewrite firstn_firstn, Nat.min_id.
        rewrite skipn_app, Hlen, Nat.sub_diag. cbn [skipn].
        rewrite skipn_all2 by lia. reflexivity.
      * intros k Hk. rewrite Hlen in Hk. exists EEOF, sz, (firstn k (firstn n s)).
        split; [|reflexivity]. unfold peek_read.
        destruct (Z.ltb_spec sz (Z.of_nat n)); [lia|].
        destruct (Nat.ltb_spec (length (firstn k (firstn n s))) n) as [Hx|Hx]; [reflexivity|].
        rewrite firstn_length in Hx. lia.
Qed.

Lemma bufio_discard_spec n s :
  (n < 0 /\ bufio_discard n s = (0, Some ENegCount, s)) \/
  (0 <= n <= Z.of_nat (length s) /\ bufio_discard n s = (n, None, skipn (Z.to_nat n) s)) \/
  (0 <= n /\ Z.of_nat (length s) < n /\ bufio_discard n s = (Z.of_nat (length s), Some EEOF, [])).
Proof.
  unfold bufio_discard.
  destruct (Z.ltb_spec n 0); [left; auto|].
  destruct (Z.leb_spec n (Z.of_nat (length s))); [right; left; auto|right; right; auto].
Qed.

(* the common shape: consume exactly m bytes, result r, or fail on a short stream *)
Lemma good_discardN n : good (discardN n).
Proof.
  intros sz s r sz' s' H. unfold discardN in H.
  destruct (Z.leb_spec n sz) as [Hn|Hn].
  - destruct (bufio_discard_spec n s) as [[H0 E]|[[H0 E]|[H0 [H1 E]]]]; rewrite E in H;
      inversion H; subst; clear H.
    + exists []. split; [reflexivity|]. split.
      * intros _. split; [cbn; lia|]. intros rest. unfold discardN.
        destruct (Z.leb_spec n sz); [|lia].
        destruct (bufio_discard_spec n ([] ++ rest)) as [[_ E']|[[H' _]|[H' _]]]; try lia.
        rewrite E'. reflexivity.
      * cbn. intros k Hk. lia.
    + set (m := Z.to_nat n).
      assert (Hm : (m <= length s)%nat) by lia.
      assert (Hlen : length (firstn m s) = m) by (apply firstn_length_le; exact Hm).
      exists (firstn m s). split; [symmetry; apply firstn_skipn|]. split.
      * intros _. split; [lia|]. intros rest. unfold discardN.
        destruct (Z.leb_spec n sz); [|lia].
        destruct (bufio_discard_spec n (firstn m s ++ rest)) as [[H' _]|[[H' E']|[_ [H' _]]]];
          [lia| |rewrite app_length in H'; lia].
        rewrite E'. fold m. rewrite skipn_app, Hlen, Nat.sub_diag. cbn [skipn].
        rewrite skipn_all2 by lia. reflexivity.
      * intros k Hk. rewrite Hlen in Hk.
        exists EEOF, (sz - Z.of_nat (length (firstn k (firstn m s)))), [].
        split; [|reflexivity]. unfold discardN.
        destruct (Z.leb_spec n sz); [|lia].
        destruct (bufio_discard_spec n (firstn k (firstn m s))) as [[H' _]|[[H' _]|[_ [_ E']]]];
          [lia|rewrite firstn_length in H'; lia|].
        rewrite E'. reflexivity.
    + exists s. split; [symmetry; apply app_nil_r|]. split.
      * cbn. discriminate.
      * intros k Hk.
        exists EEOF, (sz - Z.of_nat (length (firstn k s))), [].
        split; [|reflexivity]. unfold discardN.
        destruct (Z.leb_spec n sz); [|lia].
        destruct (bufio_discard_spec n (firstn k s)) as [[H' _]|[[H' _]|[_ [_ E']]]];
          [lia|rewrite firstn_length in H'; lia|].
        rewrite E'. reflexivity.
  - destruct (bufio_discard_spec sz s) as [[H0 E]|[[H0 E]|[H0 [H1 E]]]]; rewrite E in H;
      inversion H; subst; clear H.
    + exists []. split; [reflexivity|]. split.
      * intros _. split; [cbn; lia|]. intros rest. unfold discardN.
        destruct (Z.leb_spec n sz); [lia|].
        destruct (bufio_discard_spec sz ([] ++ rest)) as [[_ E']|[[H' _]|[H' _]]]; try lia.
        rewrite E'. reflexivity.
      * cbn. intros k Hk. lia.
    + set (m := Z.to_nat sz).
      assert (Hm : (m <= length s)%nat) by lia.
      assert (Hlen : length (firstn m s) = m) by (apply firstn_length_le; exact Hm).
      exists (firstn m s). split; [symmetry; apply firstn_skipn|]. split.
      * intros _. split; [lia|]. intros rest. unfold discardN.
        destruct (Z.leb_spec n sz); [lia|].
        destruct (bufio_discard_spec sz (firstn m s ++ rest)) as [[H' _]|[[H' E']|[_ [H' _]]]];
          [lia| |rewrite app_length in H'; lia].
        rewrite E'. fold m. rewrite skipn_app, Hlen, Nat.sub_diag. cbn [skipn].
        rewrite skipn_all2 by lia. reflexivity.
      * intros k Hk. rewrite Hlen in Hk.
        exists EEOF, (sz - Z.of_nat (length (firstn k (firstn m s)))), [].
        split; [|reflexivity]. unfold discardN.
        destruct (Z.leb_spec n sz); [lia|].
        destruct (bufio_discard_spec sz (firstn k (firstn m s))) as [[H' _]|[[H' _]|[_ [_ E']]]];
          [lia|rewrite firstn_length in H'; lia|].
        rewrite E'. reflexivity.
    + exists s. split; [symmetry; apply app_nil_r|]. split.
      * cbn. discriminate.
      * intros k Hk.
        exists EEOF, (sz - Z.of_nat (length (firstn k s))), [].
        split; [|reflexivity]. unfold discardN.
        destruct (Z.leb_spec n sz); [lia|].
        destruct (bufio_discard_spec sz (firstn k s)) as [[H' _]|[[H' _]|[_ [_ E']]]];
          [lia|rewrite firstn_length in H'; lia|].
        rewrite E'. reflexivity.
Qed.

Lemma good_guard_short n : good (guard_short n).
Proof.
  intros sz s r sz' s' H. unfold guard_short in H.
  destruct (Z.ltb_spec sz n); inversion H; subst; exists []; (split; [reflexivity|]); split;
    try (cbn; intros k Hk; lia);
    intros _; (split; [cbn; lia|]); intros rest; unfold guard_short; cbn [app];
    destruct (Z.ltb_spec sz' n); try reflexivity; lia.
Qed.

Lemma good_readNewBytes n : good (readNewBytes n).
Proof.
  intros sz s r sz' s' H. unfold readNewBytes in H.
  destruct (Z.ltb_spec 0 n) as [Hn|Hn].
  2:{ inversion H; subst. exists []. split; [reflexivity|]. split.
      - intros _. split; [cbn; lia|]. intros rest. unfold readNewBytes.
        destruct (Z.ltb_spec 0 n); [lia|reflexivity].
      - cbn. intros k Hk. lia. }
  set (short := sz <? n) in *. set (n' := if short then sz else n) in *.
  destruct (Z.ltb_spec n' 0) as [Hneg|Hneg].
  { inversion H; subst. exists []. split; [reflexivity|]. split.
    - intros _. split; [cbn; lia|]. intros rest. unfold readNewBytes.
      destruct (Z.ltb_spec 0 n); [|lia]. fold short. fold n'.
      destruct (Z.ltb_spec n' 0); [reflexivity|lia].
    - cbn. intros k Hk. lia. }
  destruct (Z.leb_spec n' (Z.of_nat (length s))) as [Hl|Hl].
  - set (m := Z.to_nat n') in *.
    assert (Hm : (m <= length s)%nat) by lia.
    assert (Hlen : length (firstn m s) = m) by (apply firstn_length_le; exact Hm).
    inversion H; subst r sz' s'; clear H.
    exists (firstn m s). split; [symmetry; apply firstn_skipn|]. split.
    + intros _. split; [lia|]. intros rest. unfold readNewBytes.
      destruct (Z.ltb_spec 0 n); [|lia]. fold short. fold n'.
      destruct (Z.ltb_spec n' 0); [lia|].
      destruct (Z.leb_spec n' (Z.of_nat (length (firstn m s ++ rest)))) as [Hx|Hx];
        [|rewrite app_length in Hx; lia].
      fold m. rewrite firstn_app, Hlen, Nat.sub_diag. cbn [firstn]. rewrite app_nil_r.
      rewrite firstn_firstn, Nat.min_id.
      rewrite skipn_app, Hlen, Nat.sub_diag. cbn [skipn].
      rewrite skipn_all2 by lia. reflexivity.
    + intros k Hk. rewrite Hlen in Hk.
      exists (match firstn k (firstn m s) with [] => EEOF | _ => EUnexpEOF end),
        (sz - Z.of_nat (length (firstn k (firstn m s)))), [].
      split; [|destruct (firstn k (firstn m s)); reflexivity].
      unfold readNewBytes.
      destruct (Z.ltb_spec 0 n); [|lia]. fold short. fold n'.
      destruct (Z.ltb_spec n' 0); [lia|].
      destruct (Z.leb_spec n' (Z.of_nat (length (firstn k (firstn m s))))) as [Hx|Hx];
        [rewrite firstn_length in Hx; lia|reflexivity].
  - inversion H; subst r sz' s'; clear H.
    exists s. split; [symmetry; apply app_nil_r|]. split.
    + destruct s; cbn; discriminate.
    + intros k Hk.
      exists (match firstn k s with [] => EEOF | _ => EUnexpEOF end),
        (sz - Z.of_nat (length (firstn k s))), [].
      split; [|destruct (firstn k s); reflexivity].
      unfold readNewBytes.
      destruct (Z.ltb_spec 0 n); [|lia]. fold short. fold n'.
      destruct (Z.ltb_spec n' 0); [lia|].
      destruct (Z.leb_spec n' (Z.of_nat (length (firstn k s)))) as [Hx|Hx];
        [rewrite firstn_length in Hx; lia|reflexivity].
Qed.

Lemma good_rep A (p : P A) : good p -> forall n, good (rep n p).
Proof.
  intros Hp n. induction n as [|n IH]; cbn [rep].
  - apply good_ret.
  - apply good_bind; [exact Hp|]. intros a. apply good_bind; [exact IH|]. intros l. apply good_ret.
Qed.

Lemma good_expectZeroSize A (p : P A) : good p -> good (expectZeroSize p).
Proof.
  intros Hp sz s r sz' s' H. unfold expectZeroSize in H.
  destruct (p sz s) as [[ra sz1] s1] eqn:Ep.
  destruct (Hp _ _ _ _ _ Ep) as (c & Hs & Hb & Hd).
  assert (Hcut : forall k, (k < length c)%nat ->
     exists e sz2 s2, expectZeroSize p sz (firstn k c) = (inr e, sz2, s2) /\ transport e = true).
  { intros k Hk. destruct (Hd k Hk) as (e & sz2 & s2 & He & Ht). exists e, sz2, s2.
    split; [|exact Ht]. unfold expectZeroSize. rewrite He. reflexivity. }
  destruct ra as [a|e].
  - destruct (Hb eq_refl) as [Hsz Hloc].
    destruct (Z.eqb_spec sz1 0) as [Hz|Hz]; inversion H; subst r sz' s'; clear H;
      exists c; (split; [exact Hs|]); (split; [|exact Hcut]); intros _; (split; [exact Hsz|]);
      intros rest; unfold expectZeroSize; rewrite Hloc;
      destruct (Z.eqb_spec sz1 0); try reflexivity; lia.
  - inversion H; subst r sz' s'; clear H. exists c. split; [exact Hs|]. split; [|exact Hcut].
    intros Hr. destruct (Hb Hr) as [Hsz Hloc]. split; [exact Hsz|].
    intros rest. unfold expectZeroSize. rewrite Hloc. reflexivity.
Qed.

(* ---- the derived readers ---- *)
Lemma good_read_int w : good (read_int w).
Proof. unfold read_int. apply good_bind; [apply good_peek_read|]. intros b. apply good_ret. Qed.

Lemma good_readBool : good readBool.
Proof. unfold readBool. apply good_bind; [apply good_peek_read|]. intros b. apply good_ret. Qed.

Lemma good_readStringWith A (cb : Z -> P A) : (forall n, good (cb n)) -> good (readStringWith cb).
Proof.
  intros H. unfold readStringWith. apply good_bind; [apply good_read_int|]. intros n.
  apply good_bind; [apply good_guard_short|]. intros _. apply H.
Qed.
Lemma good_readBytesWith A (cb : Z -> P A) : (forall n, good (cb n)) -> good (readBytesWith cb).
Proof.
  intros H. unfold readBytesWith, readArrayLen. apply good_bind; [apply good_read_int|]. intros n.
  apply good_bind; [apply good_guard_short|]. intros _. apply H.
Qed.
Lemma good_readString : good readString.
Proof. apply good_readStringWith. intros n. apply good_readNewBytes. Qed.
Lemma good_readBytes : good readBytes.
Proof. apply good_readBytesWith. intros n. apply good_readNewBytes. Qed.
Lemma good_discard_cb n : good (discard_cb n).
Proof. unfold discard_cb. apply good_if; [apply good_ret|apply good_discardN]. Qed.
Lemma good_discardString : good discardString.
Proof. apply good_readStringWith. apply good_discard_cb. Qed.
Lemma good_discardBytes : good discardBytes.
Proof. apply good_readBytesWith. apply good_discard_cb. Qed.
Lemma good_readArrayWith A (cb : P A) : good cb -> good (readArrayWith cb).
Proof.
  intros H. unfold readArrayWith. apply good_bind; [apply good_read_int|]. intros n.
  apply good_rep. exact H.
Qed.

Lemma good_read_ty t : good (read_ty t).
Proof.
  induction t; cbn [read_ty];
    try (apply good_pmap; first [apply good_read_int | apply good_readBool
                                | apply good_readString | apply good_readBytes]).
  - apply good_pmap. apply good_readArrayWith. exact IHt.
  - apply good_bind; [exact IHt1|]. intros x. apply good_bind; [exact IHt2|]. intros y. apply good_ret.
  - apply good_ret.
Qed.

(* ---- skipRemainingOnKafkaError ---- *)
Lemma good_skipRemaining A (p : P A) : good p -> good (skipRemainingOnKafkaError p).
Proof.
  intros Hp sz s r sz' s' H. unfold skipRemainingOnKafkaError in H.
  destruct (p sz s) as [[ra sz1] s1] eqn:Ep.
  destruct (Hp _ _ _ _ _ Ep) as (c1 & Hs & Hb & Hd).
  assert (Hpass : forall k, (k < length c1)%nat ->
     exists e sz2 s2, skipRemainingOnKafkaError p sz (firstn k c1) = (inr e, sz2, s2) /\ transport e = true).
  { intros k Hk. destruct (Hd k Hk) as (e & sz2 & s2 & He & Ht). exists e, sz2, s2.
    split; [|exact Ht]. unfold skipRemainingOnKafkaError. rewrite He.
    destruct e; try reflexivity; discriminate Ht. }
  destruct ra as [a|e].
  { inversion H; subst r sz' s'. exists c1. split; [exact Hs|]. split; [|exact Hpass].
    intros Hr. destruct (Hb Hr) as [Hsz Hloc]. split; [exact Hsz|].
    intros rest. unfold skipRemainingOnKafkaError. rewrite Hloc. reflexivity. }
  destruct e as [| | |c| | | | | | |];
    try (inversion H; subst r sz' s'; exists c1; split; [exact Hs|]; split; [|exact Hpass];
         intros Hr; destruct (Hb Hr) as [Hsz Hloc]; split; [exact Hsz|];
         intros rest; unfold skipRemainingOnKafkaError; rewrite Hloc; reflexivity).
  (* the parser stopped on a Kafka error: the remainder is discarded *)
  destruct (Hb eq_refl) as [Hsz1 Hloc1].
  destruct (discardN sz1 sz1 s1) as [[rd sz2] s2] eqn:Ed.
  destruct (good_discardN sz1 _ _ _ _ _ Ed) as (c2 & Hs2 & Hb2 & Hd2).
  assert (Hr' : r = match rd with inl _ => inr (EKafka c) | inr e => inr e end /\ sz' = sz2 /\ s' = s2)
    by (destruct rd; inversion H; auto).
  destruct Hr' as (Hr' & ? & ?). subst sz' s'.
  exists (c1 ++ c2). split; [subst s s1; apply app_assoc|]. split.
  - intros Hrt.
    assert (Hrd : rtransport rd = false) by (destruct rd; [reflexivity|subst r; exact Hrt]).
    destruct (Hb2 Hrd) as [Hsz2 Hloc2]. split; [rewrite app_length; lia|].
    intros rest. unfold skipRemainingOnKafkaError. rewrite <- app_assoc, Hloc1, Hloc2.
    subst r. destruct rd; reflexivity.
  - intros k Hk. rewrite app_length in Hk.
    destruct (Nat.lt_ge_cases k (length c1)) as [Hlt|Hge].
    + rewrite firstn_app_lt by exact Hlt. apply Hpass. exact Hlt.
    + destruct (Hd2 (k - length c1)%nat ltac:(lia)) as (e & sz3 & s3 & He & Ht).
      exists e, sz3, s3. split; [|exact Ht].
      unfold skipRemainingOnKafkaError. rewrite firstn_app_ge by exact Hge. rewrite Hloc1, He. reflexivity.
Qed.

(* ---- [safe]: on a stream that holds at least the announced size, a reader never fails on the
   stream itself (every read is bounded by the remaining size) ---- *)
Definition safe {A} (p : P A) : Prop :=
  forall sz s r sz' s', p sz s = (r, sz', s') -> sz <= Z.of_nat (length s) ->
  rtransport r = false /\ sz' <= Z.of_nat (length s').

Lemma safe_ret A (a : A) : safe (ret a).
Proof. intros sz s r sz' s' H Hl. inversion H; subst. auto. Qed.
Lemma safe_fail A (e : err) : transport e = false -> safe (@fail A e).
Proof. intros He sz s r sz' s' H Hl. inversion H; subst. auto. Qed.
Lemma safe_get_sz : safe get_sz.
Proof. intros sz s r sz' s' H Hl. inversion H; subst. auto. Qed.
Lemma safe_bind A B (p : P A) (f : A -> P B) : safe p -> (forall a, safe (f a)) -> safe (bind p f).
Proof.
  intros Hp Hf sz s r sz' s' H Hl. unfold bind in H.
  destruct (p sz s) as [[[a|e] sz1] s1] eqn:Ep; destruct (Hp _ _ _ _ _ Ep Hl) as [Hr Hl1].
  - eapply Hf; eassumption.
  - inversion H; subst. auto.
Qed.
Lemma safe_pmap A B (f : A -> B) (p : P A) : safe p -> safe (pmap f p).
Proof. intros H. apply safe_bind; [exact H|]. intros a. apply safe_ret. Qed.
Lemma safe_peek_read n : safe (peek_read n).
Proof.
  intros sz s r sz' s' H Hl. unfold peek_read in H.
  destruct (Z.ltb_spec sz (Z.of_nat n)); [inversion H; subst; auto|].
  destruct (Nat.ltb_spec (length s) n); [lia|].
  inversion H; subst. split; [reflexivity|]. rewrite skipn_length. lia.
Qed.
Lemma safe_discardN n : safe (discardN n).
Proof.
  intros sz s r sz' s' H Hl. unfold discardN in H.
  destruct (Z.leb_spec n sz).
  - destruct (bufio_discard_spec n s) as [[Hb0 E]|[[Hb0 E]|[Hb0 [Hb1 E]]]]; rewrite E in H;
      inversion H; subst; clear H; try lia.
    + split; [reflexivity|lia].
    + split; [reflexivity|]. rewrite skipn_length. lia.
  - destruct (bufio_discard_spec sz s) as [[Hb0 E]|[[Hb0 E]|[Hb0 [Hb1 E]]]]; rewrite E in H;
      inversion H; subst; clear H; try lia.
    + split; [reflexivity|lia].
    + split; [reflexivity|]. rewrite skipn_length. lia.
Qed.
Lemma safe_guard_short n : safe (guard_short n).
Proof.
  intros sz s r sz' s' H Hl. unfold guard_short in H.
  destruct (sz <? n); inversion H; subst; auto.
Qed.
Lemma safe_readNewBytes n : safe (readNewBytes n).
Proof.
  intros sz s r sz' s' H Hl. unfold readNewBytes in H.
  destruct (Z.ltb_spec 0 n); [|inversion H; subst; auto].
  destruct (Z.ltb_spec sz n) as [Hs|Hs]; cbv zeta in H.
  - destruct (Z.ltb_spec sz 0); [inversion H; subst; auto|].
    destruct (Z.leb_spec sz (Z.of_nat (length s))); [|lia].
    inversion H; subst. split; [reflexivity|]. rewrite skipn_length. lia.
  - destruct (Z.ltb_spec n 0); [lia|].
    destruct (Z.leb_spec n (Z.of_nat (length s))); [|lia].
    inversion H; subst. split; [reflexivity|]. rewrite skipn_length. lia.
Qed.
Lemma safe_rep A (p : P A) : safe p -> forall n, safe (rep n p).
Proof.
  intros Hp n. induction n as [|n IH]; cbn [rep]; [apply safe_ret|].
  apply safe_bind; [exact Hp|]. intros a. apply safe_bind; [exact IH|]. intros l. apply safe_ret.
Qed.
Lemma safe_expectZeroSize A (p : P A) : safe p -> safe (expectZeroSize p).
Proof.
  intros Hp sz s r sz' s' H Hl. unfold expectZeroSize in H.
  destruct (p sz s) as [[[a|e] sz1] s1] eqn:Ep; destruct (Hp _ _ _ _ _ Ep Hl) as [Hr Hl1].
  - destruct (sz1 =? 0); inversion H; subst; auto.
  - inversion H; subst. auto.
Qed.
Lemma safe_skipRemaining A (p : P A) : safe p -> safe (skipRemainingOnKafkaError p).
Proof.
  intros Hp sz s r sz' s' H Hl. unfold skipRemainingOnKafkaError in H.
  destruct (p sz s) as [[ra sz1] s1] eqn:Ep. destruct (Hp _ _ _ _ _ Ep Hl) as [Hr Hl1].
  destruct ra as [a|e]; [inversion H; subst; auto|].
  destruct e; try (inversion H; subst; auto).
  destruct (discardN sz1 sz1 s1) as [[rd sz2] s2] eqn:Ed.
  destruct (safe_discardN _ _ _ _ _ _ Ed Hl1) as [Hrd Hl2].
  destruct rd; inversion H; subst; auto.
Qed.
Lemma safe_read_int w : safe (read_int w).
Proof. unfold read_int. apply safe_bind; [apply safe_peek_read|]. intros b. apply safe_ret. Qed.
Lemma safe_lenprefixed A w (cb : Z -> P A) : (forall n, safe (cb n)) ->
  safe (n <- read_int w ;; _ <- guard_short n ;; cb n).
Proof.
  intros H. apply safe_bind; [apply safe_read_int|]. intros n.
  apply safe_bind; [apply safe_guard_short|]. intros _. apply H.
Qed.
Lemma safe_discard_cb n : safe (discard_cb n).
Proof. unfold discard_cb. destruct (n <? 0); [apply safe_ret|apply safe_discardN]. Qed.
Lemma safe_readArrayWith A (cb : P A) : safe cb -> safe (readArrayWith cb).
Proof.
  intros H. unfold readArrayWith. apply safe_bind; [apply safe_read_int|]. intros n.
  apply safe_rep. exact H.
Qed.
Lemma safe_read_ty t : safe (read_ty t).
Proof.
  induction t; cbn [read_ty];
    try (apply safe_pmap; first [apply safe_read_int
      | apply safe_lenprefixed; intros; apply safe_readNewBytes]).
  - apply safe_pmap. unfold readBool. apply safe_bind; [apply safe_peek_read|]. intros b. apply safe_ret.
  - apply safe_pmap. apply safe_readArrayWith. exact IHt.
  - apply safe_bind; [exact IHt1|]. intros x. apply safe_bind; [exact IHt2|]. intros y. apply safe_ret.
  - apply safe_ret.
Qed.

(* ---- readVarInt ---- *)
Lemma varint_scan_good : forall s sz shift acc r sz' s',
  varint_scan s sz shift acc = (r, sz', s') ->
  exists c, s = c ++ s' /\
    (rtransport r = false ->
       sz' = sz - Z.of_nat (length c) /\ forall rest, varint_scan (c ++ rest) sz shift acc = (r, sz', rest)) /\
    (forall k, (k < length c)%nat ->
       exists e sz2 s2, varint_scan (firstn k c) sz shift acc = (inr e, sz2, s2) /\ transport e = true).
Proof.
  induction s as [|b t IH]; intros sz shift acc r sz' s' H.
  - cbn [varint_scan] in H.
    destruct (Z.ltb_spec sz 0) as [Hn|Hn]; [|destruct (Z.eqb_spec sz 0) as [Hz|Hz]];
      inversion H; subst; exists []; (split; [reflexivity|]); split;
      try (cbn; intros k Hk; lia); try (cbn; discriminate).
    + intros _. split; [cbn; lia|]. intros rest. cbn [app]. destruct rest; cbn [varint_scan];
        destruct (Z.ltb_spec sz' 0); try reflexivity; lia.
    + intros _. split; [cbn; lia|]. intros rest. cbn [app]. destruct rest; cbn [varint_scan];
        destruct (Z.ltb_spec 0 0); try lia; reflexivity.
  - cbn [varint_scan] in H.
    destruct (Z.ltb_spec sz 0) as [Hn|Hn].
    { inversion H; subst. exists []. split; [reflexivity|]. split; [|cbn; intros k Hk; lia].
      intros _. split; [cbn; lia|]. intros rest. cbn [app]. destruct rest; cbn [varint_scan];
        destruct (Z.ltb_spec sz' 0); try reflexivity; lia. }
    destruct (Z.eqb_spec sz 0) as [Hz|Hz].
    { inversion H; subst. exists []. split; [reflexivity|]. split; [|cbn; intros k Hk; lia].
      intros _. split; [cbn; lia|]. intros rest. cbn [app]. destruct rest; cbn [varint_scan]; reflexivity. }
    assert (Hk0 : exists e sz2 s2, varint_scan [] sz shift acc = (inr e, sz2, s2) /\ transport e = true).
    { cbn [varint_scan]. destruct (Z.ltb_spec sz 0); [lia|]. destruct (Z.eqb_spec sz 0); [lia|].
      exists EEOF, sz, []. auto. }
    set (acc' := N.lor acc (if (shift <? 64)%N then ((N.land b 127 * 2 ^ shift) mod M64)%N else 0%N)) in *.
    destruct (b <? 128)%N eqn:Eb.
    + inversion H; subst. exists [b]. split; [reflexivity|]. split.
      * intros _. split; [cbn; lia|]. intros rest. cbn [app varint_scan].
        destruct (Z.ltb_spec sz 0); [lia|]. destruct (Z.eqb_spec sz 0); [lia|].
        fold acc'. rewrite Eb. reflexivity.
      * intros k Hk. cbn in Hk. assert (k = 0%nat) by lia. subst k. exact Hk0.
    + destruct (IH _ _ _ _ _ _ H) as (c & Hs & Hb & Hd).
      exists (b :: c). split; [cbn; rewrite <- Hs; reflexivity|]. split.
      * intros Hr. destruct (Hb Hr) as [Hsz Hloc]. split; [cbn [length]; lia|].
        intros rest. cbn [app varint_scan].
        destruct (Z.ltb_spec sz 0); [lia|]. destruct (Z.eqb_spec sz 0); [lia|].
        fold acc'. rewrite Eb. apply Hloc.
      * intros k Hk. destruct k as [|k]; [exact Hk0|].
        cbn [length] in Hk. destruct (Hd k ltac:(lia)) as (e & sz2 & s2 & He & Ht).
        exists e, sz2, s2. split; [|exact Ht]. cbn [firstn varint_scan].
        destruct (Z.ltb_spec sz 0); [lia|]. destruct (Z.eqb_spec sz 0); [lia|].
        fold acc'. rewrite Eb. exact He.
Qed.

Lemma good_readVarInt : good readVarInt.
Proof.
  intros sz s r sz' s' H. unfold readVarInt in H.
  destruct (varint_scan s sz 0 0) as [[r0 sz0] s0] eqn:E.
  destruct (varint_scan_good _ _ _ _ _ _ _ E) as (c & Hs & Hb & Hd).
  assert (Hr : rtransport r = rtransport r0 /\ sz' = sz0 /\ s' = s0).
  { destruct r0; inversion H; subst; auto. }
  destruct Hr as (Hr & ? & ?). subst sz0 s0.
  exists c. split; [exact Hs|]. split.
  - intros Hnt. rewrite Hr in Hnt. destruct (Hb Hnt) as [Hsz Hloc]. split; [exact Hsz|].
    intros rest. unfold readVarInt. rewrite Hloc. destruct r0; inversion H; reflexivity.
  - intros k Hk. destruct (Hd k Hk) as (e & sz2 & s2 & He & Ht). exists e, sz2, s2.
    split; [|exact Ht]. unfold readVarInt. rewrite He. reflexivity.
Qed.

Lemma varint_scan_safe : forall s sz shift acc r sz' s',
  varint_scan s sz shift acc = (r, sz', s') -> sz <= Z.of_nat (length s) ->
  rtransport r = false /\ sz' <= Z.of_nat (length s').
Proof.
  induction s as [|b t IH]; intros sz shift acc r sz' s' H Hl; cbn [varint_scan] in H.
  - destruct (Z.ltb_spec sz 0); [inversion H; subst; auto|].
    destruct (Z.eqb_spec sz 0); [inversion H; subst; auto|]. cbn in Hl. lia.
  - destruct (Z.ltb_spec sz 0); [inversion H; subst; auto|].
    destruct (Z.eqb_spec sz 0); [inversion H; subst; auto|].
    destruct (b <? 128)%N.
    + inversion H; subst. split; [reflexivity|]. cbn [length] in Hl. lia.
    + eapply IH; [exact H|]. cbn [length] in Hl. lia.
Qed.
Lemma safe_readVarInt : safe readVarInt.
Proof.
  intros sz s r sz' s' H Hl. unfold readVarInt in H.
  destruct (varint_scan s sz 0 0) as [[r0 sz0] s0] eqn:E.
  destruct (varint_scan_safe _ _ _ _ _ _ _ E Hl) as [Hr Hl'].
  destruct r0; inversion H; subst; auto.
Qed.

(* ---- try_short ---- *)
Lemma good_try_short A (p : P A) : good p -> good (try_short p).
Proof.
  intros Hp sz s r sz' s' H. unfold try_short in H.
  destruct (p sz s) as [[ra sz1] s1] eqn:Ep.
  destruct (Hp _ _ _ _ _ Ep) as (c1 & Hs & Hb & Hd).
  assert (Hpass : forall k, (k < length c1)%nat ->
     exists e sz2 s2, try_short p sz (firstn k c1) = (inr e, sz2, s2) /\ transport e = true).
  { intros k Hk. destruct (Hd k Hk) as (e & sz2 & s2 & He & Ht). exists e, sz2, s2.
    split; [|exact Ht]. unfold try_short. rewrite He.
    destruct e; try reflexivity; discriminate Ht. }
  destruct ra as [a|e].
  { inversion H; subst r sz' s'. exists c1. split; [exact Hs|]. split; [|exact Hpass].
    intros _. destruct (Hb eq_refl) as [Hsz Hloc]. split; [exact Hsz|].
    intros rest. unfold try_short. rewrite Hloc. reflexivity. }
  destruct e as [| | |c| | | | | | |];
    try (inversion H; subst r sz' s'; exists c1; split; [exact Hs|]; split; [|exact Hpass];
         intros Hr; destruct (Hb Hr) as [Hsz Hloc]; split; [exact Hsz|];
         intros rest; unfold try_short; rewrite Hloc; reflexivity).
  (* errShortRead: the remainder is discarded, the batch ends *)
  destruct (Hb eq_refl) as [Hsz1 Hloc1].
  destruct (discardN sz1 sz1 s1) as [[rd sz2] s2] eqn:Ed.
  destruct (good_discardN sz1 _ _ _ _ _ Ed) as (c2 & Hs2 & Hb2 & Hd2).
  assert (Hr' : r = match rd with inl _ => inl None | inr e => inr e end /\ sz' = sz2 /\ s' = s2)
    by (destruct rd; inversion H; auto).
  destruct Hr' as (Hr' & ? & ?). subst sz' s'.
  exists (c1 ++ c2). split; [subst s s1; apply app_assoc|]. split.
  - intros Hrt.
    assert (Hrd : rtransport rd = false) by (destruct rd; [reflexivity|subst r; exact Hrt]).
    destruct (Hb2 Hrd) as [Hsz2 Hloc2]. split; [rewrite app_length; lia|].
    intros rest. unfold try_short. rewrite <- app_assoc, Hloc1, Hloc2.
    subst r. destruct rd; reflexivity.
  - intros k Hk. rewrite app_length in Hk.
    destruct (Nat.lt_ge_cases k (length c1)) as [Hlt|Hge].
    + rewrite firstn_app_lt by exact Hlt. apply Hpass. exact Hlt.
    + destruct (Hd2 (k - length c1)%nat ltac:(lia)) as (e & sz3 & s3 & He & Ht).
      exists e, sz3, s3. split; [|exact Ht].
      unfold try_short. rewrite firstn_app_ge by exact Hge. rewrite Hloc1, He. reflexivity.
Qed.

Lemma safe_try_short A (p : P A) : safe p -> safe (try_short p).
Proof.
  intros Hp sz s r sz' s' H Hl. unfold try_short in H.
  destruct (p sz s) as [[ra sz1] s1] eqn:Ep. destruct (Hp _ _ _ _ _ Ep Hl) as [Hr Hl1].
  destruct ra as [a|e]; [inversion H; subst; auto|].
  destruct e; try (inversion H; subst; auto).
  destruct (discardN sz1 sz1 s1) as [[rd sz2] s2] eqn:Ed.
  destruct (safe_discardN _ _ _ _ _ _ Ed Hl1) as [Hrd Hl2].
  destruct rd; inversion H; subst; auto.
Qed.
