(* Proofs/RoutingProofs.v — lemmas about Model/Routing.v: version selection, routing by
   leader / controller / coordinator, makeLayout well-formedness, the pool transition system. *)
From Coq Require Import List NArith ZArith Bool Lia.
From Coq Require Import ZifyN ZifyNat ZifyBool.
From KV Require Import Model.Routing.
Import ListNotations.
Open Scope Z_scope.

(* ================================================================== *)
(* SelectVersion *)

Lemma select_version_overlap : forall cmin cmax bmin bmax,
  cmin <= cmax -> bmin <= bmax ->
  Z.max cmin bmin <= Z.min cmax bmax ->
  select_version cmin cmax bmin bmax = Z.min cmax bmax
  /\ cmin <= select_version cmin cmax bmin bmax <= cmax
  /\ bmin <= select_version cmin cmax bmin bmax <= bmax.
Proof.
  intros. unfold select_version.
  destruct (cmin >? bmax) eqn:E1; [lia|].
  destruct (cmax <? bmax) eqn:E2; lia.
Qed.

Lemma select_version_disjoint : forall cmin cmax bmin bmax,
  cmin <= cmax -> bmin <= bmax ->
  (bmax < cmin -> select_version cmin cmax bmin bmax = cmin)
  /\ (cmax < bmin -> select_version cmin cmax bmin bmax = cmax).
Proof.
  intros. unfold select_version. split; intros.
  - destruct (cmin >? bmax) eqn:E1; lia.
  - destruct (cmin >? bmax) eqn:E1; [lia|].
    destruct (cmax <? bmax) eqn:E2; lia.
Qed.

(* whatever the ranges: the result is always one the client can encode, and it never
   exceeds the broker's maximum unless the client's minimum already does *)
Lemma select_version_client : forall cmin cmax bmin bmax,
  cmin <= cmax ->
  cmin <= select_version cmin cmax bmin bmax <= cmax.
Proof.
  intros. unfold select_version.
  destruct (cmin >? bmax) eqn:E1; [lia|].
  destruct (cmax <? bmax) eqn:E2; lia.
Qed.

(* a connection's negotiated version for an advertised key *)
Lemma mget_mset_same : forall (V : Type) (m : list (Z * V)) k v, mget Z.eqb (mset Z.eqb m k v) k = Some v.
Proof. intros. unfold mset. cbn [mget]. rewrite Z.eqb_refl. reflexivity. Qed.

Lemma mget_mdel_other : forall (V : Type) (m : list (Z * V)) k k', k' <> k ->
  mget Z.eqb (mdel Z.eqb m k) k' = mget Z.eqb m k'.
Proof.
  induction m as [|[k0 v0] m IH]; intros; cbn [mdel mget]; [reflexivity|].
  destruct (Z.eqb k k0) eqn:E.
  - apply Z.eqb_eq in E. subst k0. rewrite IH by assumption.
    destruct (Z.eqb k' k) eqn:E'; [apply Z.eqb_eq in E'; contradiction | reflexivity].
  - cbn [mget]. destruct (Z.eqb k' k0); [reflexivity | apply IH; assumption].
Qed.

Lemma mget_mdel_same : forall (V : Type) (m : list (Z * V)) k, mget Z.eqb (mdel Z.eqb m k) k = None.
Proof.
  induction m as [|[k0 v0] m IH]; intros; cbn [mdel mget]; [reflexivity|].
  destruct (Z.eqb k k0) eqn:E; [apply IH|].
  cbn [mget]. rewrite E. apply IH.
Qed.

Lemma mget_mset_other : forall (V : Type) (m : list (Z * V)) k v k', k' <> k ->
  mget Z.eqb (mset Z.eqb m k v) k' = mget Z.eqb m k'.
Proof.
  intros. unfold mset. cbn [mget].
  destruct (Z.eqb k' k) eqn:E; [apply Z.eqb_eq in E; contradiction|].
  apply mget_mdel_other; assumption.
Qed.

Lemma mget_in : forall (V : Type) (m : list (Z * V)) k v, mget Z.eqb m k = Some v -> In (k, v) m.
Proof.
  induction m as [|[k0 v0] m IH]; intros k v H; cbn [mget] in H; [discriminate|].
  destruct (Z.eqb k k0) eqn:E.
  - apply Z.eqb_eq in E. inversion H. subst. left. reflexivity.
  - right. apply IH. assumption.
Qed.

Lemma mdel_incl : forall (K V : Type) (eqb : K -> K -> bool) (m : list (K * V)) k x,
  In x (mdel eqb m k) -> In x m.
Proof.
  induction m as [|[k0 v0] m IH]; intros k x H; cbn [mdel] in H; [contradiction|].
  destruct (eqb k k0).
  - right. eapply IH. eassumption.
  - destruct H as [H|H]; [left; assumption | right; eapply IH; eassumption].
Qed.

Lemma mget_in_any : forall (K V : Type) (eqb : K -> K -> bool) (m : list (K * V)) k v,
  mget eqb m k = Some v -> exists k', In (k', v) m.
Proof.
  induction m as [|[k0 v0] m IH]; intros k v H; cbn [mget] in H; [discriminate|].
  destruct (eqb k k0).
  - inversion H. subst. exists k0. left. reflexivity.
  - destruct (IH _ _ H) as [k' Hk]. exists k'. right. assumption.
Qed.

(* ================================================================== *)
(* routing by partition leader (produce, fetch, raw produce) *)

(* the broker that layout [c] designates for partition [p] of topic [t] *)
Definition leader_of (c : cluster) (t : name) (p : Z) : option broker :=
  match get_topic c t with
  | None => None
  | Some tp =>
      match mget Z.eqb (t_parts tp) p with
      | None => None
      | Some part => get_broker c (p_leader part)
      end
  end.

Definition names_topic (ts : tps) (t : name) : Prop := exists ps, In (t, ps) ts.
Definition names_part (ts : tps) (t : name) (p : Z) : Prop := exists ps, In (t, ps) ts /\ In p ps.

(* Brokers map: key = ID field, ids non-negative (what makeLayout builds from a metadata
   response whose node ids are non-negative) *)
Definition brokers_wf (c : cluster) : Prop :=
  forall k b, In (k, b) (c_brokers c) -> b_id b = k /\ 0 <= k.

Lemma get_broker_wf : forall c k b, brokers_wf c -> get_broker c k = Some b ->
  b_id b = k /\ 0 <= b_id b /\ get_broker c (b_id b) = Some b.
Proof.
  intros c k b W H. unfold get_broker in *.
  destruct (W k b (mget_in _ _ _ _ H)) as [E P]. subst k. auto.
Qed.

Definition cur_good (c : cluster) (cur : broker) : Prop :=
  b_id cur < 0 \/ get_broker c (b_id cur) = Some cur.

Lemma route_parts_ok : forall c tn tp, brokers_wf c -> forall ps cur b,
  cur_good c cur ->
  route_parts c tn tp ps cur = Ok b ->
  cur_good c b
  /\ (0 <= b_id cur -> b = cur)
  /\ (ps = [] -> b = cur)
  /\ (forall p, In p ps -> exists part, mget Z.eqb (t_parts tp) p = Some part
                                         /\ get_broker c (p_leader part) = Some b).
Proof.
  intros c tn tp W. induction ps as [|p ps IH]; intros cur b G H; cbn [route_parts] in H.
  - inversion H. subst. split; [assumption|]. split; [auto|]. split; [auto|]. intros p [].
  - destruct (mget Z.eqb (t_parts tp) p) as [part|] eqn:Ep; [|discriminate].
    destruct (get_broker c (p_leader part)) as [b1|] eqn:Eb; [|discriminate].
    destruct (get_broker_wf _ _ _ W Eb) as [Hid [Hnn Hself]].
    destruct (b_id cur <? 0) eqn:Ec.
    + (* first partition seen: broker := b1 *)
      destruct (IH b1 b (or_intror Hself) H) as [G' [Hsame [_ Hall]]].
      specialize (Hsame Hnn). subst b.
      split; [assumption|]. split; [intro; lia|]. split; [intro; discriminate|].
      intros q [<-|Hq]; [exists part; auto | apply Hall; assumption].
    + destruct (negb (b_id b1 =? b_id cur)) eqn:En; [discriminate|].
      apply negb_false_iff in En. apply Z.eqb_eq in En.
      assert (Hc : 0 <= b_id cur) by lia.
      destruct G as [G|G]; [lia|].
      assert (b1 = cur) by (rewrite En in Hself; congruence). subst b1.
      destruct (IH cur b (or_intror G) H) as [G' [Hsame [_ Hall]]].
      specialize (Hsame Hc). subst b.
      split; [assumption|]. split; [auto|]. split; [intro; discriminate|].
      intros q [<-|Hq]; [exists part; auto | apply Hall; assumption].
Qed.

Lemma route_topics_ok : forall c, brokers_wf c -> forall ts cur b,
  cur_good c cur ->
  route_topics c ts cur = Ok b ->
  cur_good c b
  /\ (0 <= b_id cur -> b = cur)
  /\ ((forall t p, ~ names_part ts t p) -> b = cur)
  /\ (forall t, names_topic ts t -> get_topic c t <> None)
  /\ (forall t p, names_part ts t p -> leader_of c t p = Some b).
Proof.
  intros c W. induction ts as [|[tn ps] ts IH]; intros cur b G H; cbn [route_topics] in H.
  - inversion H. subst. repeat split; auto.
    + intros t [ps []].
    + intros t p [ps [[] _]].
  - destruct (get_topic c tn) as [tp|] eqn:Et; [|discriminate].
    destruct (route_parts c tn tp ps cur) as [cur'| |] eqn:Ep; try discriminate.
    destruct (route_parts_ok c tn tp W ps cur cur' G Ep) as [G1 [S1 [N1 A1]]].
    destruct (IH cur' b G1 H) as [G2 [S2 [N2 [T2 A2]]]].
    assert (Hmono : 0 <= b_id cur' -> b = cur') by exact S2.
    repeat split; auto.
    + intro Hc. rewrite <- (S1 Hc) in *. apply S2. rewrite (S1 Hc). assumption.
    + intro Hno.
      assert (ps = []).
      { destruct ps as [|p0 ps0]; [reflexivity|]. exfalso. apply (Hno tn p0).
        exists (p0 :: ps0). split; left; reflexivity. }
      rewrite <- (N1 H0). apply N2. intros t p [ps' [Hin Hp]]. apply (Hno t p).
      exists ps'. split; [right; assumption | assumption].
    + intros t [ps' [Hin|Hin]].
      * inversion Hin. subst. rewrite Et. discriminate.
      * apply T2. exists ps'. assumption.
    + intros t p [ps' [[Hin|Hin] Hp]].
      * inversion Hin. subst t ps'. unfold leader_of. rewrite Et.
        destruct (A1 p Hp) as [part [E1 E2]]. rewrite E1.
        (* the broker after this topic is cur'; after the rest it is b *)
        destruct (get_broker_wf _ _ _ W E2) as [_ [Hnn _]].
        rewrite (S2 Hnn). assumption.
      * apply A2. exists ps'. split; assumption.
Qed.

(* the error cases, one constructor at a time *)
Lemma route_parts_err : forall c tn tp ps cur e,
  route_parts c tn tp ps cur = Err e ->
  (exists p, In p ps /\ e = ENoPartition tn p /\ mget Z.eqb (t_parts tp) p = None)
  \/ (exists p part, In p ps /\ e = ENoLeader tn p /\ mget Z.eqb (t_parts tp) p = Some part
                      /\ get_broker c (p_leader part) = None)
  \/ (exists p part b1 x, In p ps /\ e = EMismatch (b_id b1) x /\ b_id b1 <> x /\ 0 <= x
                          /\ mget Z.eqb (t_parts tp) p = Some part
                          /\ get_broker c (p_leader part) = Some b1
                          /\ (x = b_id cur \/
                              exists q part' b0, In q ps /\ mget Z.eqb (t_parts tp) q = Some part'
                                                 /\ get_broker c (p_leader part') = Some b0 /\ b_id b0 = x)).
Proof.
  intros c tn tp. induction ps as [|p ps IH]; intros cur e H; cbn [route_parts] in H; [discriminate|].
  destruct (mget Z.eqb (t_parts tp) p) as [part|] eqn:Ep.
  2:{ inversion H. left. exists p. split; [left; reflexivity | auto]. }
  destruct (get_broker c (p_leader part)) as [b1|] eqn:Eb.
  2:{ inversion H. right. left. exists p, part. split; [left; reflexivity | auto]. }
  destruct (b_id cur <? 0) eqn:Ec.
  - destruct (IH _ _ H) as [[q [Hq R]] | [[q [pt [Hq R]]] | [q [pt [b2 [x [Hq [R1 [R2 [R3 [R4 [R5 R6]]]]]]]]]]]].
    + left. exists q. split; [right; assumption | assumption].
    + right. left. exists q, pt. split; [right; assumption | assumption].
    + right. right. exists q, pt, b2, x. split; [right; assumption|].
      repeat split; auto. right.
      destruct R6 as [R6 | [q' [pt' [b0 [Hq' R6]]]]].
      * exists p, part, b1. split; [left; reflexivity|]. auto.
      * exists q', pt', b0. split; [right; assumption | assumption].
  - destruct (negb (b_id b1 =? b_id cur)) eqn:En.
    + inversion H. apply negb_true_iff in En. apply Z.eqb_neq in En.
      right. right. exists p, part, b1, (b_id cur). split; [left; reflexivity|].
      repeat split; auto. lia.
    + destruct (IH _ _ H) as [[q [Hq R]] | [[q [pt [Hq R]]] | [q [pt [b2 [x [Hq [R1 [R2 [R3 [R4 [R5 R6]]]]]]]]]]]].
      * left. exists q. split; [right; assumption | assumption].
      * right. left. exists q, pt. split; [right; assumption | assumption].
      * right. right. exists q, pt, b2, x. split; [right; assumption|].
        repeat split; auto.
        destruct R6 as [R6 | [q' [pt' [b0 [Hq' R6]]]]]; [left; assumption|].
        right. exists q', pt', b0. split; [right; assumption | assumption].
Qed.

Lemma route_parts_no_panic : forall c tn tp ps cur, route_parts c tn tp ps cur <> Panic.
Proof.
  intros c tn tp. induction ps as [|p ps IH]; intros cur; cbn [route_parts]; [discriminate|].
  destruct (mget Z.eqb (t_parts tp) p); [|discriminate].
  destruct (get_broker c (p_leader p0)); [|discriminate].
  destruct (b_id cur <? 0); [apply IH|].
  destruct (negb (b_id b =? b_id cur)); [discriminate | apply IH].
Qed.

Lemma route_topics_no_panic : forall c ts cur, route_topics c ts cur <> Panic.
Proof.
  intros c. induction ts as [|[tn ps] ts IH]; intros cur; cbn [route_topics]; [discriminate|].
  destruct (get_topic c tn); [|discriminate].
  destruct (route_parts c tn t ps cur) eqn:E; [apply IH | discriminate | ].
  exfalso. eapply route_parts_no_panic. eassumption.
Qed.

(* what is wrong with a request when routing by leader fails *)
Inductive route_problem (c : cluster) (ts : tps) : rerr -> Prop :=
| PNoTopic : forall t, names_topic ts t -> get_topic c t = None -> route_problem c ts (ENoTopic t)
| PNoPartition : forall t p tp, names_part ts t p -> get_topic c t = Some tp ->
    mget Z.eqb (t_parts tp) p = None -> route_problem c ts (ENoPartition t p)
| PNoLeader : forall t p tp part, names_part ts t p -> get_topic c t = Some tp ->
    mget Z.eqb (t_parts tp) p = Some part -> get_broker c (p_leader part) = None ->
    route_problem c ts (ENoLeader t p)
| PMismatch : forall t p t' p' b b', names_part ts t p -> names_part ts t' p' ->
    leader_of c t p = Some b -> leader_of c t' p' = Some b' -> b_id b <> b_id b' ->
    route_problem c ts (EMismatch (b_id b) (b_id b')).

Lemma route_parts_stays : forall c tn tp ps cur cur',
  0 <= b_id cur -> route_parts c tn tp ps cur = Ok cur' -> cur' = cur.
Proof.
  intros c tn tp. induction ps as [|r ps IH]; intros cur cur' Hc H; cbn [route_parts] in H.
  - inversion H. reflexivity.
  - destruct (mget Z.eqb (t_parts tp) r); [|discriminate].
    destruct (get_broker c (p_leader p)); [|discriminate].
    destruct (b_id cur <? 0) eqn:E; [lia|].
    destruct (negb (b_id b =? b_id cur)); [discriminate|]. apply IH; assumption.
Qed.

Lemma route_parts_source : forall c tn tp ps cur cur',
  b_id cur < 0 -> route_parts c tn tp ps cur = Ok cur' ->
  cur' = cur \/ exists q part, In q ps /\ mget Z.eqb (t_parts tp) q = Some part
                               /\ get_broker c (p_leader part) = Some cur'.
Proof.
  intros c tn tp. induction ps as [|q ps IH]; intros cur cur' Hneg H; cbn [route_parts] in H.
  - inversion H. left. reflexivity.
  - destruct (mget Z.eqb (t_parts tp) q) as [part|] eqn:E1; [|discriminate].
    destruct (get_broker c (p_leader part)) as [b1|] eqn:E2; [|discriminate].
    destruct (b_id cur <? 0) eqn:Ec; [|lia].
    right. destruct (Z_lt_ge_dec (b_id b1) 0) as [Hb | Hb].
    + destruct (IH _ _ Hb H) as [-> | [q' [pt' [Hq' R]]]].
      * exists q, part. split; [left; reflexivity | auto].
      * exists q', pt'. split; [right; assumption | assumption].
    + assert (cur' = b1) by (eapply route_parts_stays; [|eassumption]; lia).
      subst cur'. exists q, part. split; [left; reflexivity | auto].
Qed.

Lemma route_topics_err : forall c ts cur e,
  route_topics c ts cur = Err e ->
  route_problem c ts e
  \/ (exists t p b x, e = EMismatch (b_id b) x /\ x = b_id cur /\ 0 <= x /\ b_id b <> x
                      /\ names_part ts t p /\ leader_of c t p = Some b).
Proof.
  intros c. induction ts as [|[tn ps] ts IH]; intros cur e H; cbn [route_topics] in H; [discriminate|].
  assert (Hw : forall e', route_problem c ts e' -> route_problem c ((tn, ps) :: ts) e').
  { intros e' P. destruct P.
    - apply PNoTopic; auto. destruct H0 as [x Hx]. exists x. right. assumption.
    - eapply PNoPartition; eauto. destruct H0 as [x [Hx Hp]]. exists x. split; [right|]; assumption.
    - eapply PNoLeader; eauto. destruct H0 as [x [Hx Hp]]. exists x. split; [right|]; assumption.
    - eapply PMismatch; eauto.
      + destruct H0 as [x [Hx Hp]]. exists x. split; [right|]; assumption.
      + destruct H1 as [x [Hx Hp]]. exists x. split; [right|]; assumption. }
  destruct (get_topic c tn) as [tp|] eqn:Et.
  2:{ inversion H. left. apply PNoTopic; [exists ps; left; reflexivity | assumption]. }
  assert (Hn : forall q, In q ps -> names_part ((tn, ps) :: ts) tn q).
  { intros q Hq. exists ps. split; [left; reflexivity | assumption]. }
  assert (Hl : forall q part b0, mget Z.eqb (t_parts tp) q = Some part ->
                                 get_broker c (p_leader part) = Some b0 -> leader_of c tn q = Some b0).
  { intros q part b0 E1 E2. unfold leader_of. rewrite Et, E1. assumption. }
  destruct (route_parts c tn tp ps cur) as [cur'| e' |] eqn:Ep.
  - (* this topic went through; the error is in the rest *)
    destruct (IH _ _ H) as [P | [t [p [b [x [He [Hx [Hnn [Hne [Hnm Hld]]]]]]]]]].
    + left. apply Hw. assumption.
    + (* mismatch against cur': where does cur' come from? *)
      assert (Hnm' : names_part ((tn, ps) :: ts) t p).
      { destruct Hnm as [y [Hy Hp]]. exists y. split; [right|]; assumption. }
      destruct (Z_lt_ge_dec (b_id cur) 0) as [Hneg | Hpos].
      * destruct (route_parts_source c tn tp ps cur cur' Hneg Ep) as [-> | [q [part [Hq [E1 E2]]]]]; [lia|].
        left. subst e x.
        eapply PMismatch; [exact Hnm' | apply (Hn q Hq) | exact Hld | eapply Hl; eassumption | assumption].
      * assert (cur' = cur) by (eapply route_parts_stays; [|eassumption]; lia).
        subst cur'. right. exists t, p, b, x. repeat split; auto.
  - inversion H. subst e'. clear H.
    destruct (route_parts_err _ _ _ _ _ _ Ep) as
        [[q [Hq [-> R]]] | [[q [pt [Hq [-> [R1 R2]]]]] | [q [pt [b1 [x [Hq [-> [R2 [R3 [R4 [R5 R6]]]]]]]]]]]].
    + left. eapply PNoPartition; eauto.
    + left. eapply PNoLeader; eauto.
    + destruct R6 as [-> | [q' [pt' [b0 [Hq' [E1 [E2 <-]]]]]]].
      * right. exists tn, q, b1, (b_id cur). repeat split; auto. eapply Hl; eassumption.
      * left. eapply PMismatch; [apply (Hn q Hq) | apply (Hn q' Hq') | eapply Hl; eassumption
                                 | eapply Hl; eassumption | assumption].
  - exfalso. eapply route_parts_no_panic. eassumption.
Qed.

Theorem route_leader_spec : forall c ts, brokers_wf c ->
  (* Ok b: every named topic is known, b leads EVERY named partition *)
  (forall b, route_leader c ts = Ok b ->
     (forall t, names_topic ts t -> get_topic c t <> None)
     /\ (forall t p, names_part ts t p -> leader_of c t p = Some b)
     /\ ((forall t p, ~ names_part ts t p) -> b = no_broker))
  (* an error says what is wrong, and something is wrong *)
  /\ (forall e, route_leader c ts = Err e -> route_problem c ts e)
  (* and conversely: whenever something is wrong, it is an error *)
  /\ (forall e, route_problem c ts e -> exists e', route_leader c ts = Err e')
  /\ route_leader c ts <> Panic.
Proof.
  intros c ts W. unfold route_leader.
  assert (G0 : cur_good c no_broker) by (left; cbn; lia).
  split; [|split; [|split]].
  - intros b H. destruct (route_topics_ok c W ts no_broker b G0 H) as [_ [_ [N [T A]]]]. auto.
  - intros e H. destruct (route_topics_err _ _ _ _ H) as [P | [t [p [b [x [_ [Hx [Hnn _]]]]]]]]; [assumption|].
    cbn in Hx. lia.
  - intros e P. destruct (route_topics c ts no_broker) as [b|e'|] eqn:E.
    + exfalso. destruct (route_topics_ok c W ts no_broker b G0 E) as [_ [_ [_ [T A]]]].
      destruct P.
      * apply (T t); assumption.
      * specialize (A _ _ H). unfold leader_of in A. rewrite H0, H1 in A. discriminate.
      * specialize (A _ _ H). unfold leader_of in A. rewrite H0, H1, H2 in A. discriminate.
      * rewrite (A _ _ H) in H1. rewrite (A _ _ H0) in H2. congruence.
    + exists e'. reflexivity.
    + exfalso. eapply route_topics_no_panic. eassumption.
  - apply route_topics_no_panic.
Qed.

(* ---- list-offsets (one partition per message after Split) ---- *)
Definition parts_wf (c : cluster) : Prop :=
  forall n tp k part, get_topic c n = Some tp -> In (k, part) (t_parts tp) -> p_id part = k.

Lemma find_part_by_id : forall (parts : list (Z * partition)) p part,
  (forall k x, In (k, x) parts -> p_id x = k) ->
  mget Z.eqb parts p = Some part ->
  exists k, find (fun kv => p_id (snd kv) =? p) parts = Some (k, part).
Proof.
  induction parts as [|[k0 x0] parts IH]; intros p part W H; cbn [mget] in H; [discriminate|].
  assert (E0 : p_id x0 = k0) by (apply W; left; reflexivity).
  unfold find; fold (find (fun kv : Z * partition => p_id (snd kv) =? p) parts).
  cbn [snd]. rewrite E0.
  destruct (Z.eqb p k0) eqn:E.
  - apply Z.eqb_eq in E. inversion H as [Hx]. rewrite E, Z.eqb_refl. eauto.
  - rewrite Z.eqb_sym, E. apply IH; [|assumption].
    intros. apply W. right. assumption.
Qed.

Lemma find_part_none : forall (parts : list (Z * partition)) p,
  (forall k x, In (k, x) parts -> p_id x = k) ->
  mget Z.eqb parts p = None ->
  find (fun kv => p_id (snd kv) =? p) parts = None.
Proof.
  induction parts as [|[k0 x0] parts IH]; intros p W H; [reflexivity|].
  cbn [mget] in H.
  assert (E0 : p_id x0 = k0) by (apply W; left; reflexivity).
  unfold find; fold (find (fun kv : Z * partition => p_id (snd kv) =? p) parts).
  cbn [snd]. rewrite E0.
  destruct (Z.eqb p k0) eqn:E; [discriminate|].
  rewrite Z.eqb_sym, E. apply IH; [|assumption].
  intros. apply W. right. assumption.
Qed.

(* the whole behaviour of list-offsets routing on a well-formed layout *)
Lemma route_listoffsets_spec : forall c t p rest_p rest_t,
  parts_wf c ->
  route_listoffsets c ((t, p :: rest_p) :: rest_t) =
  match get_topic c t with
  | None => Err (ENoTopic t)
  | Some tp =>
      match mget Z.eqb (t_parts tp) p with
      | None => Err (ENoPartition t p)
      | Some part =>
          match get_broker c (p_leader part) with
          | Some b => Ok b
          | None => Err (ENoLeader t p)
          end
      end
  end.
Proof.
  intros c t p rp rt W. unfold route_listoffsets.
  destruct (get_topic c t) as [tp|] eqn:Et; [|reflexivity].
  destruct (mget Z.eqb (t_parts tp) p) as [part|] eqn:Ep.
  - destruct (find_part_by_id (t_parts tp) p part (fun k x Hin => W t tp k x Et Hin) Ep) as [k Hk].
    rewrite Hk. reflexivity.
  - rewrite (find_part_none (t_parts tp) p (fun k x Hin => W t tp k x Et Hin) Ep). reflexivity.
Qed.

Lemma route_listoffsets_ok_iff : forall c t p rest_p rest_t b,
  parts_wf c ->
  (route_listoffsets c ((t, p :: rest_p) :: rest_t) = Ok b <-> leader_of c t p = Some b).
Proof.
  intros c t p rp rt b W. rewrite (route_listoffsets_spec c t p rp rt W). unfold leader_of.
  destruct (get_topic c t) as [tp|]; [|split; discriminate].
  destruct (mget Z.eqb (t_parts tp) p) as [part|]; [|split; discriminate].
  destruct (get_broker c (p_leader part)) as [b'|]; split; intro H; inversion H; reflexivity.
Qed.

Lemma split_listoffsets_single : forall ts m, In m (split_listoffsets ts) ->
  exists t p, m = [(t, [p])] /\ names_part ts t p.
Proof.
  intros ts m H. unfold split_listoffsets in H. apply in_flat_map in H.
  destruct H as [[t ps] [Hin Hm]]. cbn [fst snd] in Hm. apply in_map_iff in Hm.
  destruct Hm as [p [<- Hp]]. exists t, p. split; [reflexivity|]. exists ps. auto.
Qed.

Lemma split_listoffsets_complete : forall ts t p, names_part ts t p -> In [(t, [p])] (split_listoffsets ts).
Proof.
  intros ts t p [ps [Hin Hp]]. unfold split_listoffsets. apply in_flat_map.
  exists (t, ps). split; [assumption|]. cbn [fst snd]. apply in_map_iff. exists p. auto.
Qed.

(* ---- controller ---- *)
Lemma route_controller_known : forall c b,
  get_broker c (c_controller c) = Some b -> route_controller c = Ok b.
Proof. intros c b H. unfold route_controller, get_broker_or_zero. rewrite H. reflexivity. Qed.

(* ================================================================== *)
(* sendRequest *)

Lemma send_broker_message : forall c conns r fc b,
  route c r = Some (Ok b) -> 0 <= b_id b -> mhas Z.eqb conns (b_id b) = true ->
  send_request c conns r fc = Sent [WReq (TBroker (b_id b)) (api_of r)].
Proof.
  intros c conns r fc b H Hnn Hc. unfold send_request. rewrite H. unfold send_to, grab.
  destruct (b_id b >=? 0) eqn:E; [|lia]. rewrite Hc. reflexivity.
Qed.

Lemma send_route_error : forall c conns r fc e,
  route c r = Some (Err e) -> send_request c conns r fc = Rejected [] (RejRoute e).
Proof. intros c conns r fc e H. unfold send_request. rewrite H. reflexivity. Qed.

(* the coordinator exchange, for either key type *)
Lemma via_coordinator_ok : forall conns coord kt key api a,
  coord kt key = Some a -> fc_err a = 0 -> 0 <= fc_node a -> mhas Z.eqb conns (fc_node a) = true ->
  via_coordinator conns coord kt key api = Sent [WFind kt key; WReq (TBroker (fc_node a)) api].
Proof.
  intros conns coord kt key api a Hk He Hnn Hc. unfold via_coordinator. rewrite Hk, He. cbn [Z.eqb negb].
  unfold send_to, grab. destruct (fc_node a >=? 0) eqn:E; [|lia]. rewrite Hc. reflexivity.
Qed.

Lemma via_coordinator_unknown_broker : forall conns coord kt key api a,
  coord kt key = Some a -> fc_err a = 0 -> 0 <= fc_node a -> mhas Z.eqb conns (fc_node a) = false ->
  via_coordinator conns coord kt key api = Rejected [WFind kt key] RejBrokerNotAvailable.
Proof.
  intros conns coord kt key api a Hk He Hnn Hc. unfold via_coordinator. rewrite Hk, He. cbn [Z.eqb negb].
  unfold send_to, grab. destruct (fc_node a >=? 0) eqn:E; [|lia]. rewrite Hc. reflexivity.
Qed.

Lemma via_coordinator_error : forall conns coord kt key api a,
  coord kt key = Some a -> fc_err a <> 0 ->
  via_coordinator conns coord kt key api = Rejected [WFind kt key] (RejCoordinatorError (fc_err a)).
Proof.
  intros conns coord kt key api a Hk He. unfold via_coordinator. rewrite Hk.
  destruct (fc_err a =? 0) eqn:E; [apply Z.eqb_eq in E; contradiction|]. reflexivity.
Qed.

Lemma via_coordinator_failed : forall conns coord kt key api,
  coord kt key = None ->
  via_coordinator conns coord kt key api = Rejected [WFind kt key] RejCoordinatorLookup.
Proof. intros conns coord kt key api Hk. unfold via_coordinator. rewrite Hk. reflexivity. Qed.

(* a GroupMessage looks up (Group, m.Group()), a TransactionalMessage (Transaction, m.Transaction()) *)
Lemma send_group_is : forall c conns coord api g,
  send_request c conns (RGroup api g) coord = via_coordinator conns coord KT_Group g api.
Proof. reflexivity. Qed.

Lemma send_txn_is : forall c conns coord api t,
  send_request c conns (RTxn api t) coord = via_coordinator conns coord KT_Txn t api.
Proof. reflexivity. Qed.

Lemma send_other : forall c conns api fc,
  send_request c conns (ROther api) fc = Sent [WReq TControl api].
Proof. intros. reflexivity. Qed.

(* ================================================================== *)
(* makeLayout *)

Lemma fold_mset_values : forall (K V X : Type) (eqb : K -> K -> bool) (P : K * V -> Prop)
    (key : X -> K) (val : X -> V) (l : list X) (m : list (K * V)),
  (forall x, In x l -> P (key x, val x)) ->
  (forall kv, In kv m -> P kv) ->
  forall kv, In kv (fold_left (fun acc x => mset eqb acc (key x) (val x)) l m) -> P kv.
Proof.
  intros K V X eqb P key val. induction l as [|x l IH]; intros m Hl Hm kv H; cbn [fold_left] in H.
  - apply Hm. assumption.
  - eapply IH; [| |exact H].
    + intros y Hy. apply Hl. right. assumption.
    + intros kv' [<-|H']; [apply Hl; left; reflexivity|].
      apply Hm. eapply mdel_incl. eassumption.
Qed.

Lemma make_layout_brokers_wf : forall m,
  (forall b, In b (md_brokers m) -> 0 <= mb_id b) -> brokers_wf (make_layout m).
Proof.
  intros m Hnn k b H. unfold make_layout in H. cbn [c_brokers] in H.
  eapply (fold_mset_values Z broker md_broker Z.eqb (fun kv => b_id (snd kv) = fst kv /\ 0 <= fst kv)
                           mb_id (fun b => {| b_id := mb_id b; b_addr := mb_addr b |})) in H.
  - exact H.
  - intros x Hx. cbn. split; [reflexivity | apply Hnn; assumption].
  - intros kv [].
Qed.

Lemma make_partitions_wf : forall ps k part, In (k, part) (make_partitions ps) -> p_id part = k.
Proof.
  intros ps k part H. unfold make_partitions in H.
  eapply (fold_mset_values Z partition md_part Z.eqb (fun kv => p_id (snd kv) = fst kv)
                           mp_idx (fun p => {| p_id := mp_idx p; p_err := mp_err p; p_leader := mp_leader p |})) in H.
  - exact H.
  - intros x Hx. reflexivity.
  - intros kv [].
Qed.

Lemma make_layout_topics_values : forall (l : list md_topic) (acc : list (name * topic)) (P : topic -> Prop),
  (forall t, In t l -> P {| t_name := mt_name t; t_err := mt_err t; t_parts := make_partitions (mt_parts t) |}) ->
  (forall kv, In kv acc -> P (snd kv)) ->
  forall kv, In kv (fold_left (fun acc t =>
                                 if mt_internal t then acc
                                 else mset name_eqb acc (mt_name t)
                                           {| t_name := mt_name t; t_err := mt_err t;
                                              t_parts := make_partitions (mt_parts t) |}) l acc) -> P (snd kv).
Proof.
  induction l as [|t l IH]; intros acc P Hl Hacc kv H; cbn [fold_left] in H.
  - apply Hacc. assumption.
  - eapply IH; [| |exact H].
    + intros y Hy. apply Hl. right. assumption.
    + destruct (mt_internal t); [assumption|].
      intros kv' [<-|H']; [apply Hl; left; reflexivity|].
      apply Hacc. eapply mdel_incl. eassumption.
Qed.

Lemma make_layout_parts_wf : forall m, parts_wf (make_layout m).
Proof.
  intros m n tp k part Ht Hin. unfold get_topic, make_layout in Ht. cbn [c_topics] in Ht.
  apply mget_in_any in Ht. destruct Ht as [k' Hk'].
  pose proof (make_layout_topics_values (md_topics m) []
           (fun t => forall k part, In (k, part) (t_parts t) -> p_id part = k)) as HH.
  assert (H1 : forall t : md_topic, In t (md_topics m) ->
               forall k part, In (k, part) (t_parts {| t_name := mt_name t; t_err := mt_err t;
                                                       t_parts := make_partitions (mt_parts t) |}) -> p_id part = k).
  { intros t _ k0 p0 H0. cbn [t_parts] in H0. eapply make_partitions_wf. eassumption. }
  assert (H2 : forall kv : name * topic, In kv [] -> forall k part, In (k, part) (t_parts (snd kv)) -> p_id part = k).
  { intros kv []. }
  specialize (HH H1 H2 (k', tp) Hk'). cbn [snd] in HH. apply HH. assumption.
Qed.

Lemma make_layout_controller : forall m, c_controller (make_layout m) = md_controller m.
Proof. reflexivity. Qed.

(* ================================================================== *)
(* the pool *)

Lemma update_error_keeps : forall p m e md,
  ps_meta p = Some md -> update p m (Some e) = p.
Proof. intros p m e md H. unfold update. rewrite H. reflexivity. Qed.

Lemma update_error_first : forall p m e,
  ps_meta p = None ->
  let p' := update p m (Some e) in
  ps_meta p' = None /\ ps_err p' = Some e /\ ps_layout p' = ps_layout p /\ ps_conns p' = ps_conns p
  /\ ps_ready p' = true.
Proof. intros p m e H. unfold update. rewrite H. cbn. auto. Qed.

Lemma update_success : forall p m,
  let p' := update p (Some m) None in
  ps_meta p' = Some (normalize m) /\ ps_err p' = None /\ ps_layout p' = make_layout (normalize m)
  /\ ps_ready p' = true.
Proof. intros p m. unfold update. cbn. auto. Qed.

(* labels that are not a successful update *)
Definition keeps_view (l : label) : Prop :=
  match l with
  | LRefresh _ (Some _) => True     (* failed refresh *)
  | LRefresh _ None => False
  | LRequest _ _ => True
  end.

(* "the pool's view is the one installed by the update with metadata M" *)
Definition view_of (m : metadata) (p : pool) : Prop :=
  ps_meta p = Some (normalize m) /\ ps_err p = None /\ ps_layout p = make_layout (normalize m)
  /\ ps_ready p = true.

Lemma pool_step_keeps_view : forall m p l, view_of m p -> keeps_view l -> view_of m (fst (pool_step p l)).
Proof.
  intros m p l V K. destruct l as [md [e|] | q fc]; cbn [keeps_view] in K; try contradiction; cbn [pool_step fst].
  - destruct V as [V1 V]. rewrite (update_error_keeps p md e _ V1). split; assumption.
  - assumption.
Qed.

Lemma pool_run_app : forall ls1 ls2 p,
  pool_run p (ls1 ++ ls2) =
  (fst (pool_run (fst (pool_run p ls1)) ls2), snd (pool_run p ls1) ++ snd (pool_run (fst (pool_run p ls1)) ls2)).
Proof.
  induction ls1 as [|l ls1 IH]; intros ls2 p; cbn [app pool_run].
  - cbn [fst snd app]. destruct (pool_run p ls2). reflexivity.
  - destruct (pool_step p l) as [p1 o] eqn:E1.
    rewrite IH. destruct (pool_run p1 ls1) as [p2 os] eqn:E2. cbn [fst snd].
    destruct (pool_run p2 ls2) as [p3 os'] eqn:E3. cbn [fst snd].
    destruct o; reflexivity.
Qed.

Lemma pool_run_keeps_view : forall m ls p, view_of m p -> Forall keeps_view ls -> view_of m (fst (pool_run p ls)).
Proof.
  intros m. induction ls as [|l ls IH]; intros p V F; cbn [pool_run]; [assumption|].
  inversion F as [|? ? K F']. subst.
  pose proof (pool_step_keeps_view m p l V K) as V1.
  destruct (pool_step p l) as [p1 o]. cbn [fst] in V1.
  specialize (IH p1 V1 F'). destruct (pool_run p1 ls) as [p2 os]. assumption.
Qed.

(* the main statement about the transition system *)
Theorem follows_refresh : forall p0 pre m mid q fc,
  Forall keeps_view mid ->
  let history := pre ++ [LRefresh (Some m) None] ++ mid in
  let p := fst (pool_run p0 history) in
  (* the view in force is the one built from M ... *)
  view_of m p
  (* ... and a round trip that starts now is answered from it *)
  /\ snd (pool_run p0 (history ++ [LRequest q fc])) = snd (pool_run p0 history) ++ [round_trip p q fc]
  /\ (forall r, q = QOne r ->
        round_trip p q fc = RTSend [send_request (make_layout (normalize m)) (ps_conns p) r fc])
  /\ (forall names auto, q = QMetadata names auto ->
        round_trip p q fc =
          (if auto && has_unknown (filter_metadata names (normalize m))
           then RTSend [send_request (make_layout (normalize m)) (ps_conns p) (ROther K_Metadata) fc]
           else RTCache (filter_metadata names (normalize m)))).
Proof.
  intros p0 pre m mid q fc F history p.
  assert (V : view_of m p).
  { unfold p, history. rewrite pool_run_app. cbn [fst].
    change ([LRefresh (Some m) None] ++ mid) with (LRefresh (Some m) None :: mid).
    cbn [pool_run pool_step].
    pose proof (pool_run_keeps_view m mid (update (fst (pool_run p0 pre)) (Some m) None)) as K.
    destruct (pool_run (update (fst (pool_run p0 pre)) (Some m) None) mid) as [p2 os] eqn:E.
    cbn [fst] in *. apply K; [|assumption].
    destruct (update_success (fst (pool_run p0 pre)) m) as [A [B [C D]]]. repeat split; assumption. }
  split; [assumption|]. split; [|split].
  - rewrite pool_run_app. cbn [snd]. fold p. cbn [pool_run pool_step]. reflexivity.
  - intros r ->. destruct V as [V1 [V2 [V3 V4]]]. unfold round_trip. rewrite V4, V3. reflexivity.
  - intros names auto ->. destruct V as [V1 [V2 [V3 V4]]]. unfold round_trip. rewrite V4, V2, V1, V3. reflexivity.
Qed.

(* a failed refresh changes nothing once a view exists *)
Theorem failed_refresh_keeps : forall p md m e,
  ps_meta p = Some md -> fst (pool_step p (LRefresh m (Some e))) = p.
Proof. intros. cbn [pool_step fst]. eapply update_error_keeps. eassumption. Qed.

(* before the first successful update nothing is routed: round trips block, or report the error *)
Lemma round_trip_blocked : forall q fc, round_trip pool_init q fc = RTBlocked.
Proof. reflexivity. Qed.

(* ---- discover: the refresh loop ---- *)
(* from the select both the timer and a wake-up start a refresh, whatever happened before *)
Lemma discover_refresh_enabled : forall s,
  d_phase s = DWaiting ->
  (exists s1, discover_step s DTimer = Some s1 /\ d_phase s1 = DFetching false /\ d_pool s1 = d_pool s)
  /\ (exists s2, discover_step s DWake = Some s2 /\ d_phase s2 = DFetching true /\ d_pool s2 = d_pool s).
Proof.
  intros s H. unfold discover_step. rewrite H. split; eexists; (split; [reflexivity|]); cbn; auto.
Qed.

(* only the cancellation of the pool's context ends the loop *)
Lemma discover_stops_only_when_closed : forall s l s',
  discover_step s l = Some s' -> d_phase s' = DStopped -> d_ctx_err s <> None.
Proof.
  intros s l s' H Hs. destruct (d_ctx_err s) as [c|] eqn:Ec; [discriminate|]. exfalso.
  unfold discover_step in H. rewrite Ec in H. cbn [err_is] in H.
  destruct (d_phase s) as [n| |] eqn:Ep; [| |discriminate];
    destruct l as [| | | |[m|e|e]]; try discriminate;
    inversion H; subst s'; cbn [d_phase] in Hs; congruence.
Qed.

Lemma refresh_turn_failure : forall s w r,
  d_phase s = DWaiting -> d_ctx_err s = None -> is_failure r = true ->
  exists s', discover_run s (refresh_turn w r) = Some s'
             /\ d_phase s' = DWaiting /\ d_ctx_err s' = None
             /\ (forall md, ps_meta (d_pool s) = Some md -> d_pool s' = d_pool s).
Proof.
  intros s w r Hp Hc Hf. unfold refresh_turn. cbn [discover_run].
  assert (H1 : exists s1, discover_step s (if w then DWake else DTimer) = Some s1
                          /\ (exists n, d_phase s1 = DFetching n) /\ d_ctx_err s1 = None /\ d_pool s1 = d_pool s).
  { unfold discover_step. rewrite Hp. destruct w; eexists; (split; [reflexivity|]); cbn [d_phase d_ctx_err d_pool];
    (split; [eexists; reflexivity|]); (split; [assumption | reflexivity]). }
  destruct H1 as [s1 [E1 [[n Hn] [Hc1 Hpool]]]]. rewrite E1.
  destruct r as [m|e|e]; [discriminate| |]; unfold discover_step; rewrite Hn, Hc1; cbn [err_is].
  - eexists. split; [reflexivity|]. cbn [d_phase d_ctx_err d_pool]. split; [reflexivity|]. split; [auto|].
    intros md Hmd. rewrite Hpool. exact (update_error_keeps (d_pool s) None e md Hmd).
  - eexists. split; [reflexivity|]. cbn [d_phase d_ctx_err d_pool]. split; [reflexivity|]. split; [auto|].
    intros md Hmd. rewrite Hpool. exact (update_error_keeps (d_pool s) None e md Hmd).
Qed.

(* after any number of failed or timed-out refreshes the next turn sends another request, and an
   answered one installs the brokers' layout *)
Theorem discover_survives_failures : forall (fs : list (bool * refresh_result)) s w m,
  d_phase s = DWaiting -> d_ctx_err s = None ->
  Forall (fun f => is_failure (snd f) = true) fs ->
  exists s', discover_run s (flat_map (fun f => refresh_turn (fst f) (snd f)) fs ++ refresh_turn w (FAnswered m)) = Some s'
             /\ d_phase s' = DWaiting /\ d_ctx_err s' = None /\ view_of m (d_pool s').
Proof.
  induction fs as [|[w0 r0] fs IH]; intros s w m Hp Hc F.
  - cbn [flat_map app]. unfold refresh_turn. cbn [discover_run].
    assert (H1 : exists s1, discover_step s (if w then DWake else DTimer) = Some s1
                            /\ (exists n, d_phase s1 = DFetching n) /\ d_ctx_err s1 = None).
    { unfold discover_step. rewrite Hp. destruct w; eexists; (split; [reflexivity|]); cbn [d_phase d_ctx_err d_pool];
      (split; [eexists; reflexivity | assumption]). }
    destruct H1 as [s1 [E1 [[n Hn] Hc1]]]. rewrite E1. unfold discover_step. rewrite Hn.
    eexists. split; [reflexivity|]. cbn [d_phase d_ctx_err d_pool]. repeat split; auto.
  - inversion F as [|? ? F0 F']. subst. cbn [fst snd] in F0.
    destruct (refresh_turn_failure s w0 r0 Hp Hc F0) as [s1 [R1 [Hp1 [Hc1 _]]]].
    cbn [flat_map fst snd]. rewrite <- app_assoc.
    assert (Hrun : forall l1 l2 a b, discover_run a l1 = Some b -> discover_run a (l1 ++ l2) = discover_run b l2).
    { induction l1 as [|x l1 IHl]; intros l2 a b Hab; cbn [app discover_run] in *.
      - inversion Hab. reflexivity.
      - destruct (discover_step a x); [apply IHl; assumption | discriminate]. }
    rewrite (Hrun _ _ _ _ R1). apply IH; assumption.
Qed.

Lemma create_topics_forces_refresh : forall tr,
  forces_refresh (QOne (RController K_CreateTopics)) (RTSend [Sent tr]) = true.
Proof. reflexivity. Qed.

(* ================================================================== *)
(* version negotiation on a connection *)

Definition negotiate_step (client : list (Z * (Z * Z))) (m : list (Z * Z)) (e : Z * (Z * Z)) : list (Z * Z) :=
  let k := fst e in
  let cr := lookup_range client k in
  mset Z.eqb m k (select_version (fst cr) (snd cr) (fst (snd e)) (snd (snd e))).

Lemma negotiate_fold : forall client adv, negotiate client adv = fold_left (negotiate_step client) adv [].
Proof. reflexivity. Qed.

Lemma negotiate_fold_absent : forall client adv m k,
  (forall e, In e adv -> fst e <> k) ->
  mget Z.eqb (fold_left (negotiate_step client) adv m) k = mget Z.eqb m k.
Proof.
  intros client. induction adv as [|e adv IH]; intros m k H; cbn [fold_left]; [reflexivity|].
  rewrite IH by (intros e' He'; apply H; right; assumption).
  unfold negotiate_step. apply mget_mset_other. intro E. apply (H e); [left; reflexivity | auto].
Qed.

(* the last entry the broker advertised for key k decides *)
Lemma negotiate_advertised : forall client adv1 adv2 k bmin bmax,
  (forall e, In e adv2 -> fst e <> k) ->
  conn_version (negotiate client (adv1 ++ (k, (bmin, bmax)) :: adv2)) k =
  select_version (fst (lookup_range client k)) (snd (lookup_range client k)) bmin bmax.
Proof.
  intros client adv1 adv2 k bmin bmax H. unfold conn_version. rewrite negotiate_fold.
  rewrite fold_left_app. cbn [fold_left]. rewrite negotiate_fold_absent by assumption.
  unfold negotiate_step. cbn [fst snd]. rewrite mget_mset_same. reflexivity.
Qed.

Lemma negotiate_not_advertised : forall client adv k,
  (forall e, In e adv -> fst e <> k) -> conn_version (negotiate client adv) k = 0.
Proof.
  intros client adv k H. unfold conn_version. rewrite negotiate_fold.
  rewrite negotiate_fold_absent by assumption. reflexivity.
Qed.

(* ================================================================== *)
(* which APIs are sent to a coordinator *)
(* Kafka protocol: requests that must be handled by the group coordinator ... *)
Definition kafka_group_coordinator_apis : list Z :=
  [8 (*OffsetCommit*); 9 (*OffsetFetch*); 11 (*JoinGroup*); 12 (*Heartbeat*); 13 (*LeaveGroup*);
   14 (*SyncGroup*); 15 (*DescribeGroups*); 28 (*TxnOffsetCommit*); 42 (*DeleteGroups*); 47 (*OffsetDelete*)].
(* ... and by the transaction coordinator *)
Definition kafka_txn_coordinator_apis : list Z :=
  [22 (*InitProducerId*); 24 (*AddPartitionsToTxn*); 25 (*AddOffsetsToTxn*); 26 (*EndTxn*)].

Lemma coordinator_apis_classified :
  Forall (fun api => message_class api = CGroup) kafka_group_coordinator_apis
  /\ Forall (fun api => message_class api = CTxn) kafka_txn_coordinator_apis.
Proof. split; repeat (constructor; [reflexivity|]); constructor. Qed.

(* hence a request of any of these APIs takes the coordinator route *)
Lemma coordinator_apis_keyed : forall key,
  Forall (fun api => keyed_request api key = RGroup api key) kafka_group_coordinator_apis
  /\ Forall (fun api => keyed_request api key = RTxn api key) kafka_txn_coordinator_apis.
Proof. intro key. split; repeat (constructor; [reflexivity|]); constructor. Qed.

(* ================================================================== *)
(* the connection groups follow the layout's brokers *)

Lemma mdel_keys : forall (V : Type) (m : list (Z * V)) k x,
  In x (map fst (mdel Z.eqb m k)) -> In x (map fst m) /\ x <> k.
Proof.
  induction m as [|[k0 v0] m IH]; intros k x H; cbn [mdel] in H; [contradiction|].
  destruct (Z.eqb k k0) eqn:E.
  - destruct (IH _ _ H). split; [right; assumption | assumption].
  - cbn [map fst In] in H. destruct H as [<-|H].
    + split; [left; reflexivity|]. intro. subst. rewrite Z.eqb_refl in E. discriminate.
    + destruct (IH _ _ H). split; [right; assumption | assumption].
Qed.

Lemma mdel_nodup : forall (V : Type) (m : list (Z * V)) k,
  NoDup (map fst m) -> NoDup (map fst (mdel Z.eqb m k)).
Proof.
  induction m as [|[k0 v0] m IH]; intros k H; cbn [mdel]; [constructor|].
  inversion H as [|? ? Hn Hd]. subst.
  destruct (Z.eqb k k0); [apply IH; assumption|].
  cbn [map fst]. constructor; [|apply IH; assumption].
  intro Hin. apply mdel_keys in Hin. destruct Hin. contradiction.
Qed.

Lemma mset_nodup : forall (V : Type) (m : list (Z * V)) k v,
  NoDup (map fst m) -> NoDup (map fst (mset Z.eqb m k v)).
Proof.
  intros. unfold mset. cbn [map fst]. constructor; [|apply mdel_nodup; assumption].
  intro Hin. apply mdel_keys in Hin. destruct Hin. congruence.
Qed.

Lemma mget_none_notin : forall (V : Type) (m : list (Z * V)) k,
  ~ In k (map fst m) -> mget Z.eqb m k = None.
Proof.
  induction m as [|[k0 v0] m IH]; intros k H; cbn [mget]; [reflexivity|].
  destruct (Z.eqb k k0) eqn:E.
  - apply Z.eqb_eq in E. subst. exfalso. apply H. left. reflexivity.
  - apply IH. intro. apply H. right. assumption.
Qed.

Lemma in_mget : forall (V : Type) (m : list (Z * V)) k v,
  NoDup (map fst m) -> In (k, v) m -> mget Z.eqb m k = Some v.
Proof.
  induction m as [|[k0 v0] m IH]; intros k v Hd H; [contradiction|].
  inversion Hd as [|? ? Hn Hd']. subst. cbn [mget]. destruct H as [H|H].
  - inversion H. subst. rewrite Z.eqb_refl. reflexivity.
  - destruct (Z.eqb k k0) eqn:E.
    + apply Z.eqb_eq in E. subst. exfalso. apply Hn. apply (in_map fst) in H. exact H.
    + apply IH; assumption.
Qed.

Lemma existsb_filter_key : forall (V : Type) (f : Z * V -> bool) (m : list (Z * V)) id,
  NoDup (map fst m) ->
  existsb (fun kv => fst kv =? id) (filter f m) =
  match mget Z.eqb m id with Some v => f (id, v) | None => false end.
Proof.
  induction m as [|[k v] m IH]; intros id Hd; [reflexivity|].
  inversion Hd as [|? ? Hn Hd']. subst. cbn [filter mget].
  destruct (Z.eqb id k) eqn:E.
  - apply Z.eqb_eq in E. subst k.
    destruct (f (id, v)) eqn:Ef.
    + cbn [existsb fst]. rewrite Z.eqb_refl. reflexivity.
    + rewrite IH by assumption. rewrite (mget_none_notin _ m id Hn). reflexivity.
  - destruct (f (k, v)).
    + cbn [existsb fst]. rewrite Z.eqb_sym, E. cbn [orb]. apply IH. assumption.
    + apply IH. assumption.
Qed.

Lemma fold_mdel_get : forall (V : Type) (l : list (Z * V)) (cs : list (Z * V)) id,
  mget Z.eqb (fold_left (fun cs kv => mdel Z.eqb cs (fst kv)) l cs) id =
  if existsb (fun kv => fst kv =? id) l then None else mget Z.eqb cs id.
Proof.
  induction l as [|[k v] l IH]; intros cs id; cbn [fold_left existsb fst]; [reflexivity|].
  rewrite IH. destruct (existsb (fun kv => fst kv =? id) l); [rewrite orb_true_r; reflexivity|].
  rewrite orb_false_r. destruct (Z.eqb k id) eqn:E.
  - apply Z.eqb_eq in E. subst. apply mget_mdel_same.
  - apply mget_mdel_other. intro. subst. rewrite Z.eqb_refl in E. discriminate.
Qed.

Lemma fold_mset_get : forall (V : Type) (new : list (Z * V)) (l : list (Z * V)) (cs : list (Z * V)) id,
  (forall kv, In kv l -> mget Z.eqb new (fst kv) = Some (snd kv)) ->
  mget Z.eqb (fold_left (fun cs kv => mset Z.eqb cs (fst kv) (snd kv)) l cs) id =
  if existsb (fun kv => fst kv =? id) l then mget Z.eqb new id else mget Z.eqb cs id.
Proof.
  intros V new. induction l as [|[k v] l IH]; intros cs id H; cbn [fold_left existsb fst snd]; [reflexivity|].
  rewrite IH by (intros kv Hkv; apply H; right; assumption).
  destruct (existsb (fun kv => fst kv =? id) l); [rewrite orb_true_r; reflexivity|].
  rewrite orb_false_r. destruct (Z.eqb k id) eqn:E.
  - apply Z.eqb_eq in E. subst. rewrite mget_mset_same. symmetry. apply (H (id, v)). left. reflexivity.
  - apply mget_mset_other. intro. subst. rewrite Z.eqb_refl in E. discriminate.
Qed.

Lemma broker_eqb_eq : forall a b, broker_eqb a b = true -> a = b.
Proof.
  intros [i1 a1] [i2 a2] H. unfold broker_eqb in H. cbn [b_id b_addr] in H.
  apply andb_true_iff in H. destruct H as [H1 H2].
  apply Z.eqb_eq in H1. apply N.eqb_eq in H2. subst. reflexivity.
Qed.

Lemma fold_mset_nodup : forall (X V : Type) (key : X -> Z) (val : X -> V) (l : list X) (m : list (Z * V)),
  NoDup (map fst m) -> NoDup (map fst (fold_left (fun acc x => mset Z.eqb acc (key x) (val x)) l m)).
Proof.
  intros X V key val. induction l as [|x l IH]; intros m H; cbn [fold_left]; [assumption|].
  apply IH. apply mset_nodup. assumption.
Qed.

Lemma make_layout_brokers_nodup : forall m, NoDup (map fst (c_brokers (make_layout m))).
Proof.
  intros m. unfold make_layout. cbn [c_brokers].
  apply (fold_mset_nodup md_broker broker mb_id (fun b => {| b_id := mb_id b; b_addr := mb_addr b |})).
  constructor.
Qed.

Definition conns_ok (p : pool) : Prop :=
  NoDup (map fst (c_brokers (ps_layout p)))
  /\ forall id, mget Z.eqb (ps_conns p) id = mget Z.eqb (c_brokers (ps_layout p)) id.

Lemma update_conns_ok : forall p m e, conns_ok p -> conns_ok (update p m e).
Proof.
  intros p m e [Hd Hc]. unfold update.
  destruct e as [e|].
  - destruct (ps_meta p); split; assumption.
  - set (layout := match option_map normalize m with Some x => make_layout x | None => empty_cluster end).
    assert (Hn : NoDup (map fst (c_brokers layout))).
    { unfold layout. destruct (option_map normalize m); [apply make_layout_brokers_nodup | constructor]. }
    cbn [ps_layout ps_conns]. split; [assumption|]. intro id.
    set (old := c_brokers (ps_layout p)) in *. set (new := c_brokers layout) in *.
    cbn [ps_layout ps_conns]. fold new.
    rewrite (fold_mset_get broker new).
    2:{ intros [k v] Hin. cbn [fst snd]. apply in_app_or in Hin.
        destruct Hin as [Hin|Hin]; apply filter_In in Hin; destruct Hin as [Hin _]; apply in_mget; assumption. }
    rewrite fold_mdel_get. rewrite !existsb_app.
    rewrite !(existsb_filter_key broker _ new id Hn). rewrite (existsb_filter_key broker _ old id Hd).
    rewrite Hc. cbn [fst snd]. unfold mhas.
    destruct (mget Z.eqb new id) as [b2|] eqn:En; destruct (mget Z.eqb old id) as [b1|] eqn:Eo; cbn; try reflexivity.
    destruct (broker_eqb b1 b2) eqn:Eb; cbn; [|reflexivity].
    apply broker_eqb_eq in Eb. subst. reflexivity.
Qed.

Theorem conns_follow_layout : forall ls,
  let p := fst (pool_run pool_init ls) in
  forall id, mget Z.eqb (ps_conns p) id = mget Z.eqb (c_brokers (ps_layout p)) id.
Proof.
  intros ls.
  assert (G : forall ls p, conns_ok p -> conns_ok (fst (pool_run p ls))).
  { induction ls0 as [|l ls0 IH]; intros p H; cbn [pool_run]; [assumption|].
    destruct l as [m e | q fc]; cbn [pool_step].
    - specialize (IH (update p m e) (update_conns_ok p m e H)).
      destruct (pool_run (update p m e) ls0). assumption.
    - specialize (IH p H). destruct (pool_run p ls0). assumption. }
  cbv zeta. apply G. split; [constructor | reflexivity].
Qed.

(* ================================================================== *)
(* the record format follows the negotiated Produce version *)
Lemma produce_record_format : forall v,
  (produce_record_version v = 2 <-> 3 <= v) /\ (produce_record_version v = 1 <-> v < 3).
Proof. intro v. unfold produce_record_version. destruct (v <? 3) eqn:E; lia. Qed.

(* ================================================================== *)
(* split requests to coordinators: describe-groups *)

Lemma split_describegroups_concat : forall gs, concat (split_describegroups gs) = gs.
Proof.
  induction gs as [|g gs IH]; [reflexivity|].
  unfold split_describegroups in *. cbn [map concat app]. rewrite IH. reflexivity.
Qed.

Lemma split_describegroups_singletons : forall gs part,
  In part (split_describegroups gs) -> exists g, part = [g] /\ In g gs.
Proof.
  intros gs part H. unfold split_describegroups in H. apply in_map_iff in H.
  destruct H as [g [<- Hg]]. exists g. auto.
Qed.

(* the obligation of a split: a part is routed by its first group only, so it must be
   homogeneous -- every group it names has the coordinator it is routed to.  Parts made by
   Split are singletons, hence homogeneous for every coordinator assignment. *)
Definition part_homogeneous (coord : coord_fn) (part : list name) : Prop :=
  forall g g', In g part -> In g' part -> coord KT_Group g = coord KT_Group g'.

Lemma split_describegroups_routed_by_every_group : forall gs part g,
  In part (split_describegroups gs) -> In g part ->
  describegroups_request part = Some (RGroup K_DescribeGroups g).
Proof.
  intros gs part g Hp Hg. destruct (split_describegroups_singletons gs part Hp) as [g0 [-> _]].
  destruct Hg as [<-|[]]. reflexivity.
Qed.

Lemma split_describegroups_homogeneous : forall coord gs part,
  In part (split_describegroups gs) -> part_homogeneous coord part.
Proof.
  intros coord gs part Hp g g' Hg Hg'. destruct (split_describegroups_singletons gs part Hp) as [g0 [-> _]].
  destruct Hg as [<-|[]]. destruct Hg' as [<-|[]]. reflexivity.
Qed.

Lemma round_trip_describegroups : forall p gs fc,
  ps_ready p = true ->
  round_trip p (QDescribeGroups gs) fc =
  RTSend (map (fun g => via_coordinator (ps_conns p) fc KT_Group g K_DescribeGroups) gs).
Proof.
  intros p gs fc H. unfold round_trip. rewrite H. cbn [negb]. f_equal.
  unfold split_describegroups. rewrite map_map. reflexivity.
Qed.

(* ================================================================== *)
(* the pool's reference count *)

Definition rp_inv (s : rpool) : Prop :=
  (rp_created s = false -> rp_registered s = false /\ rp_users s = 0 /\ rp_cancelled s = false)
  /\ (rp_created s = true ->
      rp_refs s = rp_users s + (if rp_registered s then 1 else 0)
      /\ 0 <= rp_users s
      /\ rp_cancelled s = (rp_refs s =? 0)).

Lemma rp_inv_init : rp_inv rpool_init.
Proof. split; cbn; intros; [auto | discriminate]. Qed.

Lemma rp_step_inv : forall s l s', rp_inv s -> rp_step s l = Some s' -> rp_inv s'.
Proof.
  intros s l s' [I0 I1] H. unfold rp_step in H.
  destruct l as [[| |]| |].
  - (* GFast *)
    destruct (rp_registered s) eqn:Er; [|discriminate]. inversion H; subst s'; clear H.
    destruct (rp_created s) eqn:Ec.
    + destruct (I1 eq_refl) as [A [B C]]. try rewrite Er in A. split; cbn; intros; [discriminate|].
      try rewrite Ec in *. split; [lia|]. split; [lia|]. rewrite C.
      destruct (rp_refs s =? 0) eqn:E1; destruct (rp_refs s + 1 =? 0) eqn:E2; lia.
    + destruct (I0 eq_refl) as [A _]. congruence.
  - (* GRecheck *)
    destruct (rp_registered s) eqn:Er; [|discriminate]. inversion H; subst s'; clear H.
    destruct (rp_created s) eqn:Ec.
    + destruct (I1 eq_refl) as [A [B C]]. try rewrite Er in A. split; cbn; intros; [discriminate|].
      try rewrite Ec in *. split; [lia|]. split; [lia|]. rewrite C.
      destruct (rp_refs s =? 0) eqn:E1; destruct (rp_refs s + 1 =? 0) eqn:E2; lia.
    + destruct (I0 eq_refl) as [A _]. congruence.
  - (* GCreate *)
    destruct (rp_created s); [discriminate|]. inversion H; subst s'. split; cbn; intros; [discriminate|]. lia.
  - (* RDone *)
    destruct (rp_users s >? 0) eqn:Eu; [|discriminate]. inversion H; subst s'; clear H.
    destruct (rp_created s) eqn:Ec.
    + destruct (I1 eq_refl) as [A [B C]]. split; cbn; intros; [congruence|].
      split; [lia|]. split; [lia|]. rewrite C.
      destruct (rp_registered s); destruct (rp_refs s =? 0) eqn:E1; destruct (rp_refs s - 1 =? 0) eqn:E2; cbn; lia.
    + destruct (I0 eq_refl) as [_ [A _]]. lia.
  - (* RCloseIdle *)
    destruct (rp_registered s) eqn:Er; [|discriminate]. inversion H; subst s'; clear H.
    destruct (rp_created s) eqn:Ec.
    + destruct (I1 eq_refl) as [A [B C]]. try rewrite Er in A. split; cbn; intros; [congruence|].
      split; [lia|]. split; [lia|]. rewrite C.
      destruct (rp_refs s =? 0) eqn:E1; destruct (rp_refs s - 1 =? 0) eqn:E2; cbn; lia.
    + destruct (I0 eq_refl) as [A _]. congruence.
Qed.

Lemma rp_run_inv : forall ls s s', rp_inv s -> rp_run s ls = Some s' -> rp_inv s'.
Proof.
  induction ls as [|l ls IH]; intros s s' I H; cbn [rp_run] in H.
  - inversion H. subst. assumption.
  - destruct (rp_step s l) as [s1|] eqn:E; [|discriminate]. eapply IH; [|eassumption]. eapply rp_step_inv; eassumption.
Qed.

(* every RoundTrip in progress holds a reference, and so does the registry: the context is not
   cancelled (discover keeps running) while the pool is registered or in use *)
Theorem pool_refs_cover_users : forall ls s,
  rp_run rpool_init ls = Some s ->
  rp_users s + (if rp_registered s then 1 else 0) <= rp_refs s \/ rp_created s = false.
Proof.
  intros ls s H. destruct (rp_run_inv ls _ _ rp_inv_init H) as [I0 I1].
  destruct (rp_created s) eqn:Ec; [left | right; reflexivity].
  destruct (I1 eq_refl) as [A _]. lia.
Qed.

Theorem pool_alive_while_registered_or_used : forall ls s,
  rp_run rpool_init ls = Some s ->
  (rp_registered s = true \/ 0 < rp_users s) -> rp_cancelled s = false.
Proof.
  intros ls s H Hu. destruct (rp_run_inv ls _ _ rp_inv_init H) as [I0 I1].
  destruct (rp_created s) eqn:Ec.
  - destruct (I1 eq_refl) as [A [B C]]. rewrite C.
    destruct (rp_refs s =? 0) eqn:E; [|reflexivity]. exfalso.
    destruct Hu as [Hu|Hu]; [rewrite Hu in A|destruct (rp_registered s)]; lia.
  - destruct (I0 eq_refl) as [A [B C]]. assumption.
Qed.

(* ================================================================== *)
(* the cache hands partition fields back unchanged; Client.Metadata's view *)

Lemma find_metadata_topic_in : forall topics n t, find_metadata_topic topics n = Some t -> In t topics.
Proof.
  intros topics n t H. unfold find_metadata_topic in H.
  set (i := sort_search (length topics) (fun i => negb (name_ltb (mt_name (nth i topics dummy_topic)) n))) in *.
  destruct (Nat.ltb i (length topics)) eqn:E; cbn [andb] in H; [|discriminate].
  destruct (name_eqb (mt_name (nth i topics dummy_topic)) n); [|discriminate].
  inversion H. apply nth_In. apply Nat.ltb_lt. assumption.
Qed.

(* every topic entry the filter returns is an entry of the cache, untouched (so its partitions,
   with leader, replicas, ISR, offline replicas and error codes), or the Unknown entry *)
Lemma filter_preserves_partition_fields : forall names m t,
  In t (md_topics (filter_metadata (Some names) m)) ->
  In t (md_topics m) \/ exists n, In n names /\ t = unknown_topic n.
Proof.
  intros names m t H. cbn [filter_metadata md_topics] in H. apply in_map_iff in H.
  destruct H as [n [E Hn]].
  destruct (find_metadata_topic (md_topics m) n) as [t0|] eqn:F.
  - left. subst t. eapply find_metadata_topic_in. eassumption.
  - right. exists n. auto.
Qed.

Lemma normalize_topic_parts_perm_fields : forall t p,
  In p (mt_parts (normalize_topic t)) -> In p (mt_parts t).
Proof.
  intros t p H. cbn [normalize_topic mt_parts] in H.
  assert (G : forall (l acc : list md_part), In p (fold_left (fun a x => insert_by part_lt x a) l acc) -> In p l \/ In p acc).
  { induction l as [|x l IH]; intros acc Hin; cbn [fold_left] in Hin; [right; assumption|].
    destruct (IH _ Hin) as [H1|H1]; [left; right; assumption|].
    assert (I : forall a, In p (insert_by part_lt x a) -> p = x \/ In p a).
    { induction a as [|y a IHa]; cbn [insert_by]; intro Hi.
      - destruct Hi as [<-|[]]. left. reflexivity.
      - destruct (part_lt x y).
        + destruct Hi as [<-|Hi]; [left; reflexivity | right; assumption].
        + destruct Hi as [<-|Hi]; [right; left; reflexivity|].
          destruct (IHa Hi) as [->|Hi']; [left; reflexivity | right; right; assumption]. }
    destruct (I _ H1) as [->|H2]; [left; left; reflexivity | right; assumption]. }
  destruct (G _ _ H) as [H1|[]]. assumption.
Qed.

Lemma client_metadata_fields : forall m,
  cm_brokers (client_metadata m) = md_brokers m
  /\ map ct_name (cm_topics (client_metadata m)) = map mt_name (md_topics m)
  /\ forall t, In t (md_topics m) ->
       In (client_topic (md_brokers m) t) (cm_topics (client_metadata m))
       /\ ct_internal (client_topic (md_brokers m) t) = mt_internal t
       /\ ct_err (client_topic (md_brokers m) t) = mt_err t
       /\ map cp_id (ct_parts (client_topic (md_brokers m) t)) = map mp_idx (mt_parts t)
       /\ forall p, In p (mt_parts t) ->
            In (client_partition (md_brokers m) p) (ct_parts (client_topic (md_brokers m) t))
            /\ cp_leader (client_partition (md_brokers m) p) = cm_lookup (md_brokers m) (mp_leader p)
            /\ cp_replicas (client_partition (md_brokers m) p) = map (cm_lookup (md_brokers m)) (mp_replicas p)
            /\ cp_isr (client_partition (md_brokers m) p) = map (cm_lookup (md_brokers m)) (mp_isr p)
            /\ cp_err (client_partition (md_brokers m) p) = mp_err p.
Proof.
  intro m. split; [reflexivity|]. split.
  - cbn [client_metadata cm_topics]. rewrite map_map. reflexivity.
  - intros t Ht. split; [cbn [client_metadata cm_topics]; apply in_map; assumption|].
    split; [reflexivity|]. split; [reflexivity|]. split.
    + cbn [client_topic ct_parts]. rewrite map_map. reflexivity.
    + intros p Hp. split; [cbn [client_topic ct_parts]; apply in_map; assumption|]. repeat split.
Qed.

(* a broker id that is listed once resolves to its entry *)
Lemma cm_lookup_unique : forall bs b,
  In b bs -> NoDup (map mb_id bs) -> cm_lookup bs (mb_id b) = b.
Proof.
  intros bs b Hin Hd. unfold cm_lookup.
  assert (G : forall l acc, NoDup (map mb_id l) ->
              (In b l -> fold_left (fun a x => if mb_id x =? mb_id b then x else a) l acc = b)
              /\ (~ In (mb_id b) (map mb_id l) -> fold_left (fun a x => if mb_id x =? mb_id b then x else a) l acc = acc)).
  { induction l as [|x l IH]; intros acc Hn; cbn [fold_left].
    - split; [intros []|reflexivity].
    - inversion Hn as [|? ? Hx Hl]. subst. split.
      + intros [->|Hb].
        * rewrite Z.eqb_refl. apply (proj2 (IH b Hl)). assumption.
        * destruct (mb_id x =? mb_id b) eqn:E.
          -- exfalso. apply Z.eqb_eq in E. apply Hx. rewrite E. apply in_map. assumption.
          -- apply (proj1 (IH acc Hl)). assumption.
      + intro Hni. destruct (mb_id x =? mb_id b) eqn:E.
        * exfalso. apply Z.eqb_eq in E. apply Hni. left. assumption.
        * apply (proj2 (IH acc Hl)). intro. apply Hni. right. assumption. }
  apply (proj1 (G bs zero_md_broker Hd)). assumption.
Qed.

(* ================================================================== *)
(* connection set-up requests use the negotiated versions like every other request *)

Lemma connection_setup_sasl : forall neg,
  connection_setup true neg =
  [SReq K_ApiVersions 0; SReq K_SaslHandshake (conn_version neg K_SaslHandshake);
   if conn_version neg K_SaslHandshake =? 0 then SRawToken
   else SReq K_SaslAuthenticate (conn_version neg K_SaslAuthenticate)].
Proof. reflexivity. Qed.

Lemma connection_setup_versions : forall client adv1 adv2 bmin bmax,
  (forall e, In e adv2 -> fst e <> K_SaslHandshake) ->
  let neg := negotiate client (adv1 ++ (K_SaslHandshake, (bmin, bmax)) :: adv2) in
  let hv := select_version (fst (lookup_range client K_SaslHandshake)) (snd (lookup_range client K_SaslHandshake)) bmin bmax in
  connection_setup true neg =
  [SReq K_ApiVersions 0; SReq K_SaslHandshake hv;
   if hv =? 0 then SRawToken else SReq K_SaslAuthenticate (conn_version neg K_SaslAuthenticate)].
Proof.
  intros client adv1 adv2 bmin bmax H neg hv. rewrite connection_setup_sasl.
  unfold neg. rewrite (negotiate_advertised client adv1 adv2 K_SaslHandshake bmin bmax H). reflexivity.
Qed.

(* ================================================================== *)
(* update: delete, then add *)

Lemma update_moved_broker : forall p m id b_new,
  conns_ok p ->
  mget Z.eqb (c_brokers (make_layout (normalize m))) id = Some b_new ->
  mget Z.eqb (ps_conns (update p (Some m) None)) id = Some b_new.
Proof.
  intros p m id b_new H Hn. destruct (update_conns_ok p (Some m) None H) as [_ Hc].
  rewrite Hc. destruct (update_success p m) as [_ [_ [L _]]]. rewrite L. assumption.
Qed.

Lemma update_order_matters : forall (conns : list (Z * broker)) id b,
  mget Z.eqb (mset Z.eqb (mdel Z.eqb conns id) id b) id = Some b        (* delete, then add *)
  /\ mget Z.eqb (mdel Z.eqb (mset Z.eqb conns id b) id) id = None.       (* add, then delete *)
Proof. intros. split; [apply mget_mset_same | apply mget_mdel_same]. Qed.
