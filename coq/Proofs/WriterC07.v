(* Proofs/WriterC07.v — C07 (ordering) theorems about the Writer model. *)
From Coq Require Import List NArith Bool Arith Lia ZifyN ZifyNat ZifyBool.
From KV Require Import Lib.LTS Model.Writer Proofs.WriterStmts Proofs.WriterBase.
Import ListNotations.

Ltac inv H := inversion H; subst; clear H.

(* ------------------------------------------------------------------ generic list lemmas *)
Section ListLemmas.
Context {A : Type}.

Definition before (l : list A) (x y : A) : Prop :=
  exists i j, i < j /\ nth_error l i = Some x /\ nth_error l j = Some y.

Lemma nth_error_In' : forall (l : list A) i x, nth_error l i = Some x -> In x l.
Proof. intros; eapply nth_error_In; eauto. Qed.

Lemma before_in_l : forall l x y, before l x y -> In x l.
Proof. intros l x y (i & j & _ & H & _). eapply nth_error_In; eauto. Qed.
Lemma before_in_r : forall l x y, before l x y -> In y l.
Proof. intros l x y (i & j & _ & _ & H). eapply nth_error_In; eauto. Qed.

Lemma before_app_inv : forall l1 l2 x y, before (l1 ++ l2) x y ->
  before l1 x y \/ (In x l1 /\ In y l2) \/ before l2 x y.
Proof.
  intros l1 l2 x y (i & j & L & Hi & Hj).
  destruct (Nat.lt_ge_cases j (length l1)) as [J|J].
  - left. exists i, j. rewrite nth_error_app1 in Hi, Hj by lia. auto.
  - rewrite nth_error_app2 in Hj by lia.
    destruct (Nat.lt_ge_cases i (length l1)) as [I|I].
    + right; left. rewrite nth_error_app1 in Hi by lia. split; eapply nth_error_In; eauto.
    + right; right. rewrite nth_error_app2 in Hi by lia.
      exists (i - length l1), (j - length l1). split; [lia|auto].
Qed.

Lemma before_app_l : forall l1 l2 x y, before l1 x y -> before (l1 ++ l2) x y.
Proof.
  intros l1 l2 x y (i & j & L & Hi & Hj). exists i, j.
  assert (j < length l1) by (apply nth_error_Some; congruence).
  rewrite !nth_error_app1 by lia. auto.
Qed.

Lemma before_app_r : forall l1 l2 x y, before l2 x y -> before (l1 ++ l2) x y.
Proof.
  intros l1 l2 x y (i & j & L & Hi & Hj). exists (length l1 + i), (length l1 + j).
  rewrite !nth_error_app2 by lia.
  replace (length l1 + i - length l1) with i by lia.
  replace (length l1 + j - length l1) with j by lia. split; [lia|auto].
Qed.

Lemma before_app_mid : forall l1 l2 x y, In x l1 -> In y l2 -> before (l1 ++ l2) x y.
Proof.
  intros l1 l2 x y Hx Hy. apply In_nth_error in Hx. apply In_nth_error in Hy.
  destruct Hx as [i Hi], Hy as [j Hj]. exists i, (length l1 + j).
  assert (i < length l1) by (apply nth_error_Some; congruence).
  rewrite nth_error_app1 by lia. rewrite nth_error_app2 by lia.
  replace (length l1 + j - length l1) with j by lia. split; [lia|auto].
Qed.

Lemma before_split : forall l1 l2 l3 x y, before (l1 ++ x :: l2 ++ y :: l3) x y.
Proof.
  intros. apply before_app_r. change (x :: l2 ++ y :: l3) with ([x] ++ (l2 ++ y :: l3)).
  apply before_app_mid; [left; auto|apply in_or_app; right; left; auto].
Qed.

Lemma before_cons_inv : forall a l x y, before (a :: l) x y -> (a = x /\ In y l) \/ before l x y.
Proof.
  intros a l x y H. change (a :: l) with ([a] ++ l) in H. apply before_app_inv in H.
  destruct H as [H|[[H1 H2]|H]]; auto.
  - destruct H as (i & j & L & Hi & Hj). destruct j as [|[|j]]; simpl in Hj; try discriminate. lia.
  - left. destruct H1 as [H1|[]]. auto.
Qed.

Lemma before_filter : forall f l x y, before (filter f l) x y -> before l x y.
Proof.
  induction l as [|a l IH]; simpl; intros x y H; [exact H|].
  destruct (f a).
  - apply before_cons_inv in H. destruct H as [[-> H]|H].
    + change (x :: l) with ([x] ++ l). apply before_app_mid; [left; auto|].
      apply filter_In in H. tauto.
    + change (a :: l) with ([a] ++ l). apply before_app_r. auto.
  - change (a :: l) with ([a] ++ l). apply before_app_r. auto.
Qed.

Lemma NoDup_before_irrefl : forall l x, NoDup l -> before l x x -> False.
Proof.
  intros l x N (i & j & L & Hi & Hj). rewrite NoDup_nth_error in N.
  assert (i = j); [|lia]. apply N; [apply nth_error_Some; congruence|congruence].
Qed.

Lemma NoDup_before_asym : forall l x y, NoDup l -> before l x y -> before l y x -> False.
Proof.
  intros l x y N (i & j & L & Hi & Hj) (i' & j' & L' & Hi' & Hj'). rewrite NoDup_nth_error in N.
  assert (i = j') by (apply N; [apply nth_error_Some; congruence|congruence]).
  assert (j = i') by (apply N; [apply nth_error_Some; congruence|congruence]). lia.
Qed.

Lemma NoDup_app_disj : forall (l1 l2 : list A) z, NoDup (l1 ++ l2) -> In z l1 -> In z l2 -> False.
Proof.
  induction l1; simpl; intros l2 z N H1 H2; [auto|]. inv N. destruct H1 as [->|H1].
  - apply H3. apply in_or_app; auto.
  - eauto.
Qed.

Lemma NoDup_app_rem_l : forall (l1 l2 : list A), NoDup (l1 ++ l2) -> NoDup l2.
Proof. induction l1; simpl; intros l2 N; auto. inv N. auto. Qed.

Lemma NoDup_app_rem_r : forall (l1 l2 : list A), NoDup (l1 ++ l2) -> NoDup l1.
Proof.
  induction l1; simpl; intros l2 N; [constructor|]. inv N. constructor; eauto.
  intro; apply H1; apply in_or_app; auto.
Qed.

Lemma NoDup_app_intro : forall (l1 l2 : list A), NoDup l1 -> NoDup l2 ->
  (forall z, In z l1 -> In z l2 -> False) -> NoDup (l1 ++ l2).
Proof.
  induction l1; simpl; intros l2 N1 N2 D; [auto|]. inv N1. constructor.
  - intro H. apply in_app_or in H. destruct H; [auto|]. eapply D; eauto.
  - apply IHl1; auto. intros; eapply D; eauto.
Qed.

End ListLemmas.

Lemma before_flat_map_inv : forall A B (F : A -> list B) l x y, before (flat_map F l) x y ->
  exists i j a b, nth_error l i = Some a /\ nth_error l j = Some b /\ In x (F a) /\ In y (F b) /\
                  (i < j \/ (i = j /\ before (F a) x y)).
Proof.
  induction l as [|a l IH]; simpl; intros x y H.
  - destruct H as (i & j & _ & Hi & _). destruct i; discriminate.
  - apply before_app_inv in H. destruct H as [H|[[H1 H2]|H]].
    + exists 0, 0, a, a. simpl. repeat split; auto; [eapply before_in_l|eapply before_in_r]; eauto.
    + apply in_flat_map in H2. destruct H2 as (b & Hb & Hy). apply In_nth_error in Hb.
      destruct Hb as [j Hj]. exists 0, (S j), a, b. simpl. repeat split; auto. left; lia.
    + apply IH in H. destruct H as (i & j & a' & b' & Hi & Hj & Hx & Hy & O).
      exists (S i), (S j), a', b'. simpl. repeat split; auto. destruct O as [O|[O1 O2]]; [left; lia|right; split; [lia|auto]].
Qed.

Lemma before_flat_map_in : forall A B (F : A -> list B) l a x y, In a l -> before (F a) x y ->
  before (flat_map F l) x y.
Proof.
  intros A B F l a x y Hin H. apply in_split in Hin. destruct Hin as (l1 & l2 & ->).
  rewrite flat_map_app. simpl. apply before_app_r. apply before_app_l. exact H.
Qed.

Lemma before_flat_map_lt : forall A B (F : A -> list B) l i j a b x y,
  i < j -> nth_error l i = Some a -> nth_error l j = Some b -> In x (F a) -> In y (F b) ->
  before (flat_map F l) x y.
Proof.
  induction l as [|c l IH]; intros i j a b x y L Hi Hj Hx Hy.
  - destruct i; discriminate.
  - simpl. destruct j as [|j]; [lia|]. simpl in Hj. destruct i as [|i]; simpl in Hi.
    + inv Hi. apply before_app_mid; auto. apply in_flat_map. exists b. split; auto. eapply nth_error_In; eauto.
    + apply before_app_r. eapply IH with (i := i) (j := j); eauto. lia.
Qed.

Lemma NoDup_flat_map_idx : forall A B (G : A -> list B) l i j a b z,
  NoDup (flat_map G l) -> nth_error l i = Some a -> nth_error l j = Some b ->
  In z (G a) -> In z (G b) -> i = j.
Proof.
  induction l as [|c l IH]; intros i j a b z N Hi Hj Ha Hb.
  - destruct i; discriminate.
  - simpl in N. destruct i as [|i], j as [|j]; simpl in *; auto.
    + inv Hi. exfalso. eapply NoDup_app_disj; eauto. apply in_flat_map. exists b. split; auto. eapply nth_error_In; eauto.
    + inv Hj. exfalso. eapply NoDup_app_disj; eauto. apply in_flat_map. exists a. split; auto. eapply nth_error_In; eauto.
    + f_equal. eapply IH; eauto. eapply NoDup_app_rem_l; eauto.
Qed.

Lemma NoDup_flat_map_nth : forall A B (G : A -> list B) l i a,
  NoDup (flat_map G l) -> nth_error l i = Some a -> NoDup (G a).
Proof.
  induction l as [|c l IH]; intros i a N Hi.
  - destruct i; discriminate.
  - simpl in N. destruct i as [|i]; simpl in Hi.
    + inv Hi. eapply NoDup_app_rem_r; eauto.
    + eapply IH; eauto. eapply NoDup_app_rem_l; eauto.
Qed.

Lemma flat_map_upd : forall A B (F : A -> list B) l i x y,
  nth_error l i = Some y -> F x = F y -> flat_map F (upd l i x) = flat_map F l.
Proof.
  induction l as [|c l IH]; intros i x y H E; [reflexivity|].
  destruct i as [|i]; simpl in *.
  - inv H. rewrite E. reflexivity.
  - f_equal. eauto.
Qed.

Lemma NoDup_map_inj_in : forall A B (f : A -> B) l x y,
  NoDup (map f l) -> In x l -> In y l -> f x = f y -> x = y.
Proof.
  induction l as [|c l IH]; simpl; intros x y N Hx Hy E; [tauto|]. inv N.
  destruct Hx as [->|Hx], Hy as [->|Hy]; auto.
  - exfalso. apply H1. rewrite E. apply in_map; auto.
  - exfalso. apply H1. rewrite <- E. apply in_map; auto.
Qed.

Lemma seq_idx : forall A (f : A -> nat) l n i x,
  map f l = seq 0 n -> nth_error l i = Some x -> f x = i.
Proof.
  intros A f l n i x H E. apply (map_nth_error f) in E. rewrite H in E.
  assert (L : i < length (seq 0 n)) by (apply nth_error_Some; congruence).
  rewrite seq_length in L. apply nth_error_nth with (d := 0) in E. rewrite seq_nth in E by lia. lia.
Qed.

(* pointwise relations between two lists of the same length *)
Definition lrel {A} (R : A -> A -> Prop) (l l' : list A) : Prop :=
  length l = length l' /\ forall q x x', nth_error l q = Some x -> nth_error l' q = Some x' -> R x x'.

Lemma lrel_fwd : forall A (R : A -> A -> Prop) l l' q x, lrel R l l' -> nth_error l q = Some x ->
  exists x', nth_error l' q = Some x' /\ R x x'.
Proof.
  intros A R l l' q x [L H] E. destruct (nth_error l' q) eqn:E'; [eauto|].
  apply nth_error_None in E'. assert (q < length l) by (apply nth_error_Some; congruence). lia.
Qed.

Lemma lrel_bwd : forall A (R : A -> A -> Prop) l l' q x', lrel R l l' -> nth_error l' q = Some x' ->
  exists x, nth_error l q = Some x /\ R x x'.
Proof.
  intros A R l l' q x' [L H] E. destruct (nth_error l q) eqn:E'; [eauto|].
  apply nth_error_None in E'. assert (q < length l') by (apply nth_error_Some; congruence). lia.
Qed.

Lemma lrel_upd : forall A (R : A -> A -> Prop) l p x y, (forall z, R z z) ->
  nth_error l p = Some x -> R x y -> lrel R l (upd l p y).
Proof.
  intros A R l p x y Rf E Rxy. split; [rewrite upd_length; auto|].
  intros q a a' E1 E2. apply nth_error_upd in E2. destruct E2 as [(-> & -> & _)|[N E2]].
  - congruence.
  - assert (a = a') by congruence. subst; auto.
Qed.

Lemma lrel_map : forall A (R : A -> A -> Prop) (f : A -> A) l, (forall z, R z (f z)) -> lrel R l (map f l).
Proof.
  intros A R f l H. split; [rewrite map_length; auto|].
  intros q a a' E1 E2. rewrite nth_error_map, E1 in E2. inv E2. auto.
Qed.

Lemma lrel_refl : forall A (R : A -> A -> Prop) l, (forall z, R z z) -> lrel R l l.
Proof. intros A R l H. split; auto. intros q a a' E1 E2. assert (a = a') by congruence. subst; auto. Qed.

(* ------------------------------------------------------------------ partition writers *)
Definition fs (pw : pwriter) : list batch :=
  map fst (pw_fin pw) ++ opt_list (option_map sd_batch (pw_snd pw)).

Definition pw_seq (pw : pwriter) : list msg := flat_map b_msgs (pw_all pw).

Definition pw_ok (pw : pwriter) : Prop :=
  map b_k (pw_all pw) = seq 0 (pw_nb pw) /\ (pw_curr pw <> None -> pw_open pw = true).

Lemma pw_all_fs : forall pw, pw_all pw = fs pw ++ pw_queue pw ++ opt_list (pw_curr pw).
Proof. intros. unfold pw_all, fs. rewrite app_assoc. reflexivity. Qed.

Lemma fs_incl_all : forall pw b, In b (fs pw) -> In b (pw_all pw).
Proof. intros. rewrite pw_all_fs. apply in_or_app; auto. Qed.

Lemma new_pw_ok : forall tp, pw_ok (new_pw tp).
Proof. intros. split; simpl; auto. Qed.

Lemma pw_add_props : forall cfg pw m pw' k sp,
  pw_add cfg pw m = (pw', k, sp) -> pw_open pw = true -> pw_ok pw ->
  pw_ok pw' /\ pw_open pw' = true /\ pw_tp pw' = pw_tp pw /\ pw_fin pw' = pw_fin pw /\
  pw_snd pw' = pw_snd pw /\ pw_seq pw' = pw_seq pw ++ [m].
Proof.
  intros cfg [tp op nb fin snd q cur al aw] m pw' k sp H Ho [Hk Hc]; simpl in *. subst op.
  unfold pw_add in H. simpl in H. unfold pw_ok, pw_seq, pw_all in *. simpl in *.
  remember (map fst fin ++ opt_list (option_map sd_batch snd)) as X.
  destruct cur as [b|]; simpl in *.
  - destruct (add_fits cfg b m); simpl in H.
    + destruct (full cfg (add_msg b m)); inv H; unfold put; simpl;
        rewrite ?app_nil_r, ?app_assoc in *; rewrite ?map_app, ?flat_map_app in *; simpl in *;
        rewrite ?app_nil_r, ?app_assoc in *; repeat split; auto.
    + destruct (full cfg (add_msg (mkBatch nb [] 0%N) m)); inv H; unfold put; simpl;
        rewrite ?app_nil_r, ?app_assoc in *; rewrite ?map_app, ?flat_map_app in *; simpl in *;
        rewrite ?app_nil_r, ?app_assoc in *; repeat split; auto;
        rewrite Hk; match goal with |- _ = 0 :: seq 1 ?k => change (seq 0 k ++ [0 + k] = seq 0 (S k)) end; symmetry; apply seq_S.
  - destruct (full cfg (add_msg (mkBatch nb [] 0%N) m)); inv H; unfold put; simpl;
      rewrite ?app_nil_r, ?app_assoc in *; rewrite ?map_app, ?flat_map_app in *; simpl in *;
      rewrite ?app_nil_r, ?app_assoc in *; repeat split; auto;
      rewrite Hk; match goal with |- _ = 0 :: seq 1 ?k => change (seq 0 k ++ [0 + k] = seq 0 (S k)) end; symmetry; apply seq_S.
Qed.

(* ------------------------------------------------------------------ Assign: one message *)
Lemma pws_add_some : forall cfg tp m pws i pws' ref sp,
  pws_add cfg tp m i pws = Some (pws', ref, sp) ->
  exists p pw pw' k, nth_error pws p = Some pw /\ pw_open pw = true /\ pw_tp pw = tp /\
     pw_add cfg pw m = (pw', k, sp) /\ pws' = upd pws p pw'.
Proof.
  induction pws as [|a r IH]; simpl; intros i pws' ref sp H; [discriminate|].
  destruct (pw_open a && tp_eqb (pw_tp a) tp) eqn:E.
  - destruct (pw_add cfg a m) as [[p' k] sp'] eqn:EA. inv H. apply andb_true_iff in E. destruct E as [E1 E2].
    apply tp_eqb_eq in E2. exists 0, a, p', k. simpl. auto.
  - destruct (pws_add cfg tp m (S i) r) as [[[r' ref'] sp']|] eqn:ER; [|discriminate]. inv H.
    apply IH in ER. destruct ER as (p & pw & pw' & k & H1 & H2 & H3 & H4 & H5).
    exists (S p), pw, pw', k. simpl. subst. auto.
Qed.

Lemma pws_add_none : forall cfg tp m pws i, pws_add cfg tp m i pws = None ->
  forall p pw, nth_error pws p = Some pw -> pw_open pw && tp_eqb (pw_tp pw) tp = false.
Proof.
  induction pws as [|a r IH]; simpl; intros i H p pw E; [destruct p; discriminate|].
  destruct (pw_open a && tp_eqb (pw_tp a) tp) eqn:E1.
  - destruct (pw_add cfg a m) as [[p' k] sp']. discriminate.
  - destruct (pws_add cfg tp m (S i) r) as [[[r' ref'] sp']|] eqn:ER; [discriminate|].
    destruct p; simpl in E; [inv E; auto|eauto].
Qed.

Definition grow (m : msg) (pw pw' : pwriter) : Prop :=
  pw_ok pw' /\ pw_open pw' = true /\ pw_tp pw' = pw_tp pw /\ pw_fin pw' = pw_fin pw /\
  pw_snd pw' = pw_snd pw /\ pw_seq pw' = pw_seq pw ++ [m].

Definition all_ok (pws : list pwriter) := forall p pw, nth_error pws p = Some pw -> pw_ok pw.
Definition all_open (pws : list pwriter) := forall p pw, nth_error pws p = Some pw -> pw_open pw = true.
Definition uniq_tp (pws : list pwriter) := forall p p' pw pw',
  nth_error pws p = Some pw -> nth_error pws p' = Some pw' -> pw_tp pw = pw_tp pw' -> p = p'.

Definition astep (cfg : config) (m : msg) (pws pws' : list pwriter) : Prop :=
  (exists p pw pw', nth_error pws p = Some pw /\ pw_open pw = true /\ pw_tp pw = tp_of cfg m /\
                    grow m pw pw' /\ pws' = upd pws p pw') \/
  (exists pw', (forall p pw, nth_error pws p = Some pw -> pw_open pw && tp_eqb (pw_tp pw) (tp_of cfg m) = false) /\
               grow m (new_pw (tp_of cfg m)) pw' /\ pws' = pws ++ [pw']).

Lemma assign_one_spec : forall cfg pws wg refs m pws' wg' refs',
  assign_one cfg (pws, wg, refs) m = (pws', wg', refs') -> all_ok pws -> astep cfg m pws pws'.
Proof.
  intros cfg pws wg refs m pws' wg' refs' H Hok. unfold assign_one in H.
  destruct (pws_add cfg (tp_of cfg m) m 0 pws) as [[[r' ref'] sp']|] eqn:E.
  - inv H. apply pws_add_some in E. destruct E as (p & pw & pw' & k & H1 & H2 & H3 & H4 & H5).
    left. exists p, pw, pw'. repeat split; auto; eapply pw_add_props; eauto.
  - destruct (pw_add cfg (new_pw (tp_of cfg m)) m) as [[p' k] sp'] eqn:EA. inv H.
    right. exists p'. split; [eapply pws_add_none; eauto|]. split; auto.
    eapply pw_add_props in EA; [exact EA|reflexivity|apply new_pw_ok].
Qed.

Lemma assign_all_ind : forall cfg (P : list msg -> list pwriter -> Prop) ms,
  (forall ms1 m ms2 pws wg refs pws' wg' refs', ms = ms1 ++ m :: ms2 -> P ms1 pws ->
     assign_one cfg (pws, wg, refs) m = (pws', wg', refs') -> P (ms1 ++ [m]) pws') ->
  forall pws0 wg0 pws wg refs, P [] pws0 -> assign_all cfg pws0 wg0 ms = (pws, wg, refs) -> P ms pws.
Proof.
  intros cfg P ms Hstep.
  assert (G : forall ms2 ms1 st, ms = ms1 ++ ms2 -> P ms1 (fst (fst st)) ->
                                 P ms (fst (fst (fold_left (assign_one cfg) ms2 st)))).
  { induction ms2 as [|m ms2 IH]; intros ms1 st E H; simpl.
    - rewrite app_nil_r in E. subst; auto.
    - destruct st as [[pws wg] refs].
      destruct (assign_one cfg (pws, wg, refs) m) as [[pws' wg'] refs'] eqn:EA.
      apply (IH (ms1 ++ [m])); [rewrite <- app_assoc; simpl; auto|]. simpl. eapply Hstep; eauto. }
  intros pws0 wg0 pws wg refs H H0. unfold assign_all in H0.
  specialize (G ms [] (pws0, wg0, []) eq_refl H). rewrite H0 in G. exact G.
Qed.

Definition Rasg (x x' : pwriter) : Prop :=
  pw_tp x' = pw_tp x /\ pw_fin x' = pw_fin x /\ pw_snd x' = pw_snd x /\ pw_open x' = pw_open x /\
  incl (pw_seq x) (pw_seq x').

Definition fwd {A} (R : A -> A -> Prop) (l l' : list A) : Prop :=
  forall q x, nth_error l q = Some x -> exists x', nth_error l' q = Some x' /\ R x x'.

Lemma Rasg_refl : forall x, Rasg x x.
Proof. intros; repeat split; auto. apply incl_refl. Qed.
Lemma Rasg_trans : forall x y z, Rasg x y -> Rasg y z -> Rasg x z.
Proof.
  intros x y z (A1 & A2 & A3 & A4 & A5) (B1 & B2 & B3 & B4 & B5). repeat split; try congruence.
  eapply incl_tran; eauto.
Qed.

Lemma grow_Rasg : forall m pw pw', pw_open pw = true -> grow m pw pw' -> Rasg pw pw'.
Proof.
  intros m pw pw' Ho (G1 & G2 & G3 & G4 & G5 & G6). repeat split; try congruence.
  rewrite G6. apply incl_appl, incl_refl.
Qed.

Lemma astep_fwd : forall cfg m pws pws', astep cfg m pws pws' -> fwd Rasg pws pws'.
Proof.
  intros cfg m pws pws' [(p & pw & pw' & E & Ho & Htp & G & ->)|(pw' & Hn & G & ->)] q x Hq.
  - destruct (Nat.eq_dec p q) as [->|N].
    + exists pw'. split. apply nth_error_upd_eq. apply nth_error_Some; congruence.
      assert (x = pw) by congruence. subst. eapply grow_Rasg; eauto.
    + exists x. rewrite nth_error_upd_neq by auto. split; auto. apply Rasg_refl.
  - exists x. split; [|apply Rasg_refl]. rewrite nth_error_app1; auto. apply nth_error_Some; congruence.
Qed.

(* every pwriter of the result: unchanged, grown by m, or new with exactly m *)
Definition oseq (pws : list pwriter) (q : nat) : list msg :=
  match nth_error pws q with Some x => pw_seq x | None => [] end.

Lemma astep_bwd : forall cfg m pws pws' q x', astep cfg m pws pws' -> nth_error pws' q = Some x' ->
  nth_error pws q = Some x' \/
  (pw_ok x' /\ pw_open x' = true /\ pw_seq x' = oseq pws q ++ [m] /\ pw_tp x' = tp_of cfg m /\
   (forall x, nth_error pws q = Some x -> pw_tp x = tp_of cfg m) /\
   (nth_error pws q = None -> forall p pw, nth_error pws p = Some pw ->
        pw_open pw && tp_eqb (pw_tp pw) (tp_of cfg m) = false)).
Proof.
  intros cfg m pws pws' q x' [(p & pw & pw' & E & Ho & Htp & G & ->)|(pw' & Hn & G & ->)] Hq.
  - apply nth_error_upd in Hq. destruct Hq as [(-> & -> & L)|[N Hq]]; [|auto].
    right. destruct G as (G1 & G2 & G3 & G4 & G5 & G6). unfold oseq. rewrite E.
    split; [exact G1|]. split; [exact G2|]. split; [exact G6|]. split; [congruence|].
    split; [intros x Hx; congruence|intros; congruence].
  - destruct (Nat.lt_ge_cases q (length pws)) as [L|L].
    + rewrite nth_error_app1 in Hq by auto. auto.
    + rewrite nth_error_app2 in Hq by auto. destruct (q - length pws) as [|d] eqn:D; simpl in Hq; [|destruct d; discriminate].
      inv Hq. right. destruct G as (G1 & G2 & G3 & G4 & G5 & G6). unfold oseq.
      assert (EN : nth_error pws q = None) by (apply nth_error_None; auto). rewrite EN.
      split; [exact G1|]. split; [exact G2|]. split; [exact G6|]. split; [exact G3|].
      split; [intros x Hx; congruence|intros; eauto].
Qed.

Lemma astep_ok : forall cfg m pws pws', astep cfg m pws pws' -> all_ok pws -> all_ok pws'.
Proof.
  intros cfg m pws pws' H Hok q x' Hq. eapply astep_bwd in Hq; eauto.
  destruct Hq as [Hq|Hq]; [eauto|tauto].
Qed.

Lemma astep_open : forall cfg m pws pws', astep cfg m pws pws' -> all_open pws -> all_open pws'.
Proof.
  intros cfg m pws pws' H Hok q x' Hq. eapply astep_bwd in Hq; eauto.
  destruct Hq as [Hq|Hq]; [eauto|tauto].
Qed.

Lemma astep_uniq : forall cfg m pws pws', astep cfg m pws pws' -> all_open pws -> uniq_tp pws -> uniq_tp pws'.
Proof.
  intros cfg m pws pws' H Hop Hu.
  assert (K : forall q x', nth_error pws' q = Some x' ->
     (exists x, nth_error pws q = Some x /\ pw_tp x = pw_tp x') \/
     (nth_error pws q = None /\ forall p pw, nth_error pws p = Some pw -> pw_tp pw <> pw_tp x')).
  { intros q x' Hq. eapply astep_bwd in Hq; eauto. destruct Hq as [Hq|(_ & _ & _ & T & T1 & T2)]; [left; eauto|].
    destruct (nth_error pws q) as [x|] eqn:E.
    - left. exists x. split; auto. rewrite T. auto.
    - right. split; auto. intros p pw Hp Eq. specialize (T2 eq_refl p pw Hp).
      rewrite (Hop _ _ Hp) in T2. simpl in T2. rewrite T in Eq. apply tp_eqb_eq in Eq. congruence. }
  intros p p' pw pw' Hp Hp' Eq.
  destruct (K _ _ Hp) as [(x & Hx & Tx)|[Nx Fx]], (K _ _ Hp') as [(y & Hy & Ty)|[Ny Fy]].
  - eapply Hu; eauto. congruence.
  - exfalso. eapply Fy; eauto. congruence.
  - exfalso. eapply Fx; eauto. congruence.
  - (* both new: only one new index *)
    apply nth_error_None in Nx, Ny.
    assert (L : length pws' <= S (length pws)).
    { destruct H as [(p0 & pw0 & pw0' & _ & _ & _ & _ & ->)|(pw0' & _ & _ & ->)].
      rewrite upd_length; lia. rewrite app_length; simpl; lia. }
    assert (p < length pws') by (apply nth_error_Some; congruence).
    assert (p' < length pws') by (apply nth_error_Some; congruence). lia.
Qed.

(* ------------------------------------------------------------------ the other steps *)
Definition Rloc (pw pw' : pwriter) : Prop :=
  pw_ok pw -> pw_all pw' = pw_all pw /\ pw_nb pw' = pw_nb pw /\ pw_tp pw' = pw_tp pw /\
              incl (fs pw) (fs pw') /\ (pw_curr pw' <> None -> pw_open pw' = true).

Lemma Rloc_refl : forall pw, Rloc pw pw.
Proof. intros pw [H1 H2]. repeat split; auto. apply incl_refl. Qed.

Lemma Rloc_ok : forall pw pw', Rloc pw pw' -> pw_ok pw -> pw_ok pw'.
Proof. intros pw pw' H Hok. destruct (H Hok) as (A1 & A2 & A3 & A4 & A5). destruct Hok. split; auto. congruence. Qed.

Lemma Rloc_seq : forall pw pw', Rloc pw pw' -> pw_ok pw -> pw_seq pw' = pw_seq pw.
Proof. intros pw pw' H Hok. destruct (H Hok) as (A1 & _). unfold pw_seq. congruence. Qed.

Definition Ropen (a b : pwriter) : Prop := pw_open b = pw_open a.

Lemma Rloc_timer : forall pw k aw,
  let pw1 := match pw_curr pw with
             | Some b => if Nat.eqb (b_k b) k then set_curr (put pw b) None else pw
             | None => pw end in
  Rloc pw (set_await pw1 aw) /\ Ropen pw (set_await pw1 aw).
Proof.
  intros [tp op nb fin snd q cur al aw0] k aw. unfold Rloc, Ropen, pw_ok, pw_all, fs, put. simpl.
  destruct cur as [b|]; [destruct (Nat.eqb (b_k b) k)|]; simpl.
  - split; [|destruct op; auto]. intros [Hk Hc]. rewrite Hc by congruence. simpl.
    rewrite ?app_nil_r, <- ?app_assoc. repeat split; auto using incl_refl; congruence.
  - split; auto. intros [Hk Hc]. repeat split; auto using incl_refl.
  - split; auto. intros [Hk Hc]. repeat split; auto using incl_refl.
Qed.

Lemma Rloc_close : forall pw, Rloc pw (close_pw pw).
Proof.
  intros [tp op nb fin snd q cur al aw0]. unfold Rloc, close_pw, pw_ok, pw_all, fs, put. simpl.
  destruct op; simpl; [|intros [Hk Hc]; repeat split; auto using incl_refl].
  destruct cur as [b|]; simpl; intros [Hk Hc]; rewrite ?app_nil_r, <- ?app_assoc; repeat split; auto using incl_refl; congruence.
Qed.

Definition is_local (l : label) : bool :=
  match l with
  | Timer _ _ | Get _ | SenderExit _ | BackoffDone _ | Finish _ | CloseMark | CloseWaitDone => true
  | _ => false
  end.

Ltac split6 := split; [|split; [|split; [|split]]].

Lemma Ropen_refl : forall z, Ropen z z.
Proof. intro; reflexivity. Qed.

Lemma step_local : forall cfg s l s', is_local l = true -> step cfg s l = Some s' ->
  s_calls s' = s_calls s /\ s_journal s' = s_journal s /\ s_log s' = s_log s /\
  lrel Rloc (s_pws s) (s_pws s') /\
  (closed s' = false -> closed s = false /\ lrel Ropen (s_pws s) (s_pws s')).
Proof.
  intros cfg s l s' Hl H. destruct l; try discriminate; simpl in H.
  - (* Timer *)
    destruct (nth_error (s_pws s) p) as [pw|] eqn:E; [|discriminate].
    destruct (existsb (Nat.eqb k) (pw_await pw)); inv H.
    match goal with |- context [set_await ?a ?b] => destruct (Rloc_timer pw k b) as [R1 R2] end.
    split6; try reflexivity.
    + eapply lrel_upd; eauto using Rloc_refl.
    + intro Hc. split; [exact Hc|]. eapply lrel_upd; eauto using Ropen_refl.
  - (* Get *)
    destruct (nth_error (s_pws s) p) as [pw|] eqn:E; [|discriminate].
    destruct (pw_alive pw) eqn:Ea; [|discriminate]. destruct (pw_snd pw) eqn:Es; [discriminate|].
    destruct (pw_queue pw) as [|b q] eqn:Eq; inv H.
    split6; try reflexivity.
    + eapply lrel_upd; eauto using Rloc_refl.
      destruct pw; simpl in *; subst. unfold Rloc, pw_ok, pw_all, fs. simpl. intros [Hk Hc].
      rewrite ?app_nil_r. repeat split; auto. apply incl_appl, incl_refl.
    + intro Hc. split; [exact Hc|]. eapply lrel_upd; eauto using Ropen_refl. reflexivity.
  - (* SenderExit *)
    destruct (nth_error (s_pws s) p) as [pw|] eqn:E; [|discriminate].
    destruct (pw_alive pw) eqn:Ea; [|discriminate]. destruct (pw_snd pw) eqn:Es; [discriminate|].
    destruct (pw_queue pw) as [|b q] eqn:Eq; [|discriminate]. destruct (pw_open pw) eqn:Eo; inv H.
    split6; try reflexivity.
    + eapply lrel_upd; eauto using Rloc_refl.
      destruct pw; simpl in *; subst. unfold Rloc, pw_ok, pw_all, fs. simpl. intros [Hk Hc].
      repeat split; auto using incl_refl.
    + intro Hc. split; [exact Hc|]. eapply lrel_upd; eauto using Ropen_refl. unfold Ropen; simpl; congruence.
  - (* BackoffDone *)
    destruct (nth_error (s_pws s) p) as [pw|] eqn:E; [|discriminate].
    destruct (pw_snd pw) as [[b n [| |e]]|] eqn:Es; inv H.
    split6; try reflexivity.
    + eapply lrel_upd; eauto using Rloc_refl.
      destruct pw; simpl in *; subst. unfold Rloc, pw_ok, pw_all, fs. simpl. intros [Hk Hc].
      repeat split; auto using incl_refl.
    + intro Hc. split; [exact Hc|]. eapply lrel_upd; eauto using Ropen_refl. reflexivity.
  - (* Finish *)
    destruct (nth_error (s_pws s) p) as [pw|] eqn:E; [|discriminate].
    destruct (pw_snd pw) as [[b n [| |e]]|] eqn:Es; inv H.
    split6; try reflexivity.
    + eapply lrel_upd; eauto using Rloc_refl.
      destruct pw; simpl in *; subst. unfold Rloc, pw_ok, pw_all, fs. simpl. intros [Hk Hc].
      rewrite map_app, ?app_nil_r, <- ?app_assoc. simpl. repeat split; auto using incl_refl.
    + intro Hc. split; [exact Hc|]. eapply lrel_upd; eauto using Ropen_refl. reflexivity.
  - (* CloseMark *)
    destruct (s_close s) eqn:Ec; inv H. split6; try reflexivity.
    + apply lrel_map. apply Rloc_close.
    + discriminate.
  - (* CloseWaitDone *)
    destruct (s_close s) eqn:Ec; try discriminate. destruct (s_wg s); inv H.
    split6; try reflexivity.
    + apply lrel_refl, Rloc_refl.
    + discriminate.
Qed.

Lemma step_call : forall cfg s g msgs merr s', step cfg s (Call g msgs merr) = Some s' ->
  exists wg ph, s' = add_call s wg (mkCall g msgs [] ph) /\ call_admissible s g msgs = true /\
                (ph = CEntered \/ rejected (mkCall g msgs [] ph) = true \/ msgs = []).
Proof.
  intros cfg s g msgs merr s' H. simpl in H.
  destruct (call_admissible s g msgs); [|discriminate].
  destruct (closed s); [inv H; eauto 10|]. destruct msgs; [inv H; eauto 10|].
  destruct (validate cfg merr (m :: msgs)) as [e|] eqn:V; inv H; [|eauto 10].
  do 2 eexists. split; [reflexivity|]. split; auto. right. left.
  unfold validate in V. destruct (first_too_large cfg 0 (m :: msgs)); [inv V; reflexivity|].
  revert V. generalize 0 (m :: msgs). intros n l. revert n. induction l as [|x l IH]; simpl; intros n V; [discriminate|].
  destruct (choose_topic cfg x); [|inv V; reflexivity].
  destruct merr as [[j e']|]; [destruct (Nat.eqb n j); [inv V; reflexivity|]|]; eauto.
Qed.

Lemma step_ret : forall cfg s l c s', (l = Return c \/ l = CtxDone c) -> step cfg s l = Some s' ->
  exists cl r, nth_error (s_calls s) c = Some cl /\ c_ph cl = CWaiting /\ s' = ret_call s c cl r /\
               (r = RNil \/ (exists we, r = RWriteErrors we) \/ r = RErr ECtx).
Proof.
  intros cfg s l c s' [-> | ->] H; simpl in H;
    (destruct (nth_error (s_calls s) c) as [cl|] eqn:E; [|discriminate]);
    destruct (c_ph cl) eqn:Ep; try discriminate.
  - destruct (async cfg). inv H; eauto 10.
    destruct (all_results (s_pws s) (c_refs cl)); inv H.
    exists cl. eexists. repeat split; eauto. destruct (forallb is_none l); eauto.
  - destruct (async cfg); inv H. eauto 10.
Qed.

(* ------------------------------------------------------------------ invariant 1 *)
Definition jr_ok (pws : list pwriter) (j : list attempt) : Prop :=
  forall a, In a j -> exists pw b, nth_error pws (a_pw a) = Some pw /\ a_tp a = pw_tp pw /\
                                   In b (fs pw) /\ b_k b = a_k a /\ b_msgs b = a_msgs a.

Definition jr_sorted (j : list attempt) : Prop :=
  forall i i' a b, i < i' -> nth_error j i = Some a -> nth_error j i' = Some b ->
                   a_pw a = a_pw b -> a_k a <= a_k b.

Record Inv1 (s : state) : Prop := {
  i1_ok : all_ok (s_pws s);
  i1_open : closed s = false -> all_open (s_pws s);
  i1_uniq : uniq_tp (s_pws s);
  i1_jr : jr_ok (s_pws s) (s_journal s);
  i1_sorted : jr_sorted (s_journal s)
}.

Definition Rjr (x x' : pwriter) : Prop := pw_tp x' = pw_tp x /\ incl (fs x) (fs x').

Lemma jr_ok_fwd : forall pws pws' j, fwd Rjr pws pws' -> jr_ok pws j -> jr_ok pws' j.
Proof.
  intros pws pws' j F H a Ha. destruct (H a Ha) as (pw & b & H1 & H2 & H3 & H4 & H5).
  destruct (F _ _ H1) as (pw' & E' & T & I). exists pw', b. repeat split; auto. congruence.
Qed.

Lemma uniq_lrel : forall pws pws', lrel (fun a b => pw_tp b = pw_tp a) pws pws' -> uniq_tp pws -> uniq_tp pws'.
Proof.
  intros pws pws' L U p p' pw pw' Hp Hp' E.
  destruct (lrel_bwd _ _ _ _ _ _ L Hp) as (x & Hx & Tx).
  destruct (lrel_bwd _ _ _ _ _ _ L Hp') as (y & Hy & Ty). eapply U; eauto. congruence.
Qed.

Lemma lrel_imp : forall A (R R' : A -> A -> Prop) l l', (forall q x x', nth_error l q = Some x -> R x x' -> R' x x') ->
  lrel R l l' -> lrel R' l l'.
Proof. intros A R R' l l' H [L K]. split; auto. intros; eauto. Qed.

Lemma batch_le_snd : forall pw sd b0, pw_ok pw -> pw_snd pw = Some sd -> In b0 (fs pw) ->
  b_k b0 <= b_k (sd_batch sd).
Proof.
  intros pw sd b0 [Hk _] Es Hin. rewrite pw_all_fs in Hk. unfold fs in *. rewrite Es in *. simpl in *.
  set (X := map fst (pw_fin pw)) in *.
  assert (E1 : b_k (sd_batch sd) = length X).
  { eapply seq_idx; [exact Hk|]. rewrite <- app_assoc. rewrite nth_error_app2 by lia.
    rewrite Nat.sub_diag. reflexivity. }
  apply In_nth_error in Hin. destruct Hin as [i Hi].
  assert (L : i < length (X ++ [sd_batch sd])) by (apply nth_error_Some; congruence).
  rewrite app_length in L. simpl in L.
  assert (E2 : b_k b0 = i). { eapply seq_idx; [exact Hk|]. rewrite nth_error_app1; auto. rewrite app_length; simpl; lia. }
  lia.
Qed.

Lemma Inv1_init : Inv1 init.
Proof.
  split; simpl.
  - intros p pw H; destruct p; discriminate.
  - intros _ p pw H; destruct p; discriminate.
  - intros p p' pw pw' H; destruct p; discriminate.
  - intros a [].
  - intros i i' a b _ H; destruct i; discriminate.
Qed.

Lemma Inv1_step : forall cfg s l s', Inv1 s -> step cfg s l = Some s' -> Inv1 s'.
Proof.
  intros cfg s l s' I H.
  destruct (is_local l) eqn:Hl.
  { destruct (step_local _ _ _ _ Hl H) as (Ec & Ej & Elog & LR & LO). destruct I as [I1 I2 I3 I4 I5].
    split.
    - intros q x' Hq. destruct (lrel_bwd _ _ _ _ _ _ LR Hq) as (x & Hx & R). eapply Rloc_ok; eauto.
    - intros Hc q x' Hq. destruct (LO Hc) as [Hc0 LO']. destruct (lrel_bwd _ _ _ _ _ _ LO' Hq) as (x & Hx & R).
      unfold Ropen in R. rewrite R. eapply I2; eauto.
    - eapply uniq_lrel; [|apply I3; auto].
      eapply lrel_imp; [|exact LR]. intros q x x' Hx R. simpl in R. apply R. eapply I1; eauto.
    - rewrite Ej. eapply jr_ok_fwd; [|exact I4]. intros q x Hx.
      destruct (lrel_fwd _ _ _ _ _ _ LR Hx) as (x' & Hx' & R). exists x'. split; auto.
      destruct (R (I1 _ _ Hx)) as (_ & _ & T & F & _). split; auto.
    - rewrite Ej. exact I5. }
  destruct l; try discriminate.
  - (* Call *)
    apply step_call in H. destruct H as (wg & ph & -> & _ & _). destruct I. split; auto.
  - (* Assign *)
    simpl in H. destruct (nth_error (s_calls s) c) as [cl|] eqn:Ec; [|discriminate].
    destruct (c_ph cl) eqn:Ep; try discriminate.
    destruct (closed s) eqn:Ecl; [inv H; destruct I; split; auto|].
    destruct (assign_all cfg (s_pws s) (s_wg s) (c_msgs cl)) as [[pws wg] refs] eqn:EA. inv H.
    destruct I as [I1 I2 I3 I4 I5].
    assert (P : all_ok pws /\ fwd Rasg (s_pws s) pws /\ (all_open (s_pws s) -> all_open pws) /\
                (all_open (s_pws s) -> uniq_tp (s_pws s) -> uniq_tp pws)).
    { eapply (assign_all_ind cfg (fun _ pws => all_ok pws /\ fwd Rasg (s_pws s) pws /\
                (all_open (s_pws s) -> all_open pws) /\
                (all_open (s_pws s) -> uniq_tp (s_pws s) -> uniq_tp pws))); [| |exact EA].
      - intros ms1 m ms2 pws1 wg1 refs1 pws' wg' refs' _ (A1 & A2 & A3 & A4) E1.
        apply assign_one_spec in E1; auto. split; [eapply astep_ok; eauto|].
        split. { intros q x Hx. destruct (A2 _ _ Hx) as (x1 & Hx1 & R1).
                 destruct (astep_fwd _ _ _ _ E1 _ _ Hx1) as (x2 & Hx2 & R2). exists x2. split; auto.
                 eapply Rasg_trans; eauto. }
        split. { intros O. eapply astep_open; eauto. }
        intros O U. eapply astep_uniq; eauto.
      - split; auto. split; [intros q x Hx; exists x; split; auto; apply Rasg_refl|]. auto. }
    destruct P as (P1 & P2 & P3 & P4).
    split; simpl.
    + exact P1.
    + unfold closed; simpl. intros Hc. apply P3. apply I2. exact Hc.
    + apply P4; auto.
    + eapply jr_ok_fwd; [|exact I4]. intros q x Hx. destruct (P2 _ _ Hx) as (x' & Hx' & T & F & S & _).
      exists x'. split; auto. split; auto. unfold fs. rewrite F, S. apply incl_refl.
    + exact I5.
  - (* Attempt *)
    simpl in H. destruct (nth_error (s_pws s) p) as [pw|] eqn:E; [|discriminate].
    destruct (pw_snd pw) as [[b n [| |e]]|] eqn:Es; inv H.
    destruct I as [I1 I2 I3 I4 I5].
    set (pw' := set_snd pw (Some (mkSnd b (S n) (after_attempt cfg n (r_seen r))))).
    assert (RL : Rloc pw pw' /\ Ropen pw pw' /\ fs pw' = fs pw).
    { subst pw'. destruct pw; simpl in *; subst. unfold Rloc, Ropen, pw_ok, pw_all, fs. simpl.
      split; [|split; reflexivity]. intros [Hk Hc]. repeat split; auto using incl_refl. }
    destruct RL as (RL & RO & RF).
    assert (LR : lrel Rloc (s_pws s) (upd (s_pws s) p pw')) by (eapply lrel_upd; eauto using Rloc_refl).
    assert (LO : lrel Ropen (s_pws s) (upd (s_pws s) p pw')) by (eapply lrel_upd; eauto using Ropen_refl).
    assert (Ep' : nth_error (upd (s_pws s) p pw') p = Some pw').
    { apply nth_error_upd_eq. apply nth_error_Some. congruence. }
    split; simpl; fold pw'.
    + intros q x' Hq. destruct (lrel_bwd _ _ _ _ _ _ LR Hq) as (x & Hx & R). eapply Rloc_ok; eauto.
    + intros Hc q x' Hq. destruct (lrel_bwd _ _ _ _ _ _ LO Hq) as (x & Hx & R).
      unfold Ropen in R. rewrite R. eapply I2; eauto.
    + eapply uniq_lrel; [|apply I3; auto].
      eapply lrel_imp; [|exact LR]. intros q x x' Hx R. simpl in R. apply R. eapply I1; eauto.
    + intros a Ha. apply in_app_or in Ha. destruct Ha as [Ha|[<-|[]]].
      * revert a Ha. change (jr_ok (upd (s_pws s) p pw') (s_journal s)).
        eapply jr_ok_fwd; [|exact I4]. intros q x Hx.
        destruct (lrel_fwd _ _ _ _ _ _ LR Hx) as (x' & Hx' & R). exists x'. split; auto.
        destruct (R (I1 _ _ Hx)) as (_ & _ & T & F & _). split; auto.
      * simpl. exists pw', b. rewrite Ep'. repeat split; auto.
        rewrite RF. unfold fs. rewrite Es. simpl. apply in_or_app. right. left. reflexivity.
    + intros i i' a b0 L Hi Hi'.
      destruct (Nat.lt_ge_cases i' (length (s_journal s))) as [L'|L'].
      * rewrite nth_error_app1 in Hi' by lia. rewrite nth_error_app1 in Hi by lia. intros Epw. exact (I5 i i' a b0 L Hi Hi' Epw).
      * rewrite nth_error_app2 in Hi' by lia.
        destruct (i' - length (s_journal s)) as [|d] eqn:D; simpl in Hi'; [|destruct d; discriminate].
        inv Hi'. simpl. intros Epw.
        assert (i < length (s_journal s)).
        { assert (i < length (s_journal s ++ [mkAtt p (b_k b) (pw_tp pw) (b_msgs b) (r_applied r) (r_seen r)])) by (apply nth_error_Some; congruence).
          rewrite app_length in H. simpl in H. lia. }
        rewrite nth_error_app1 in Hi by lia.
        destruct (I4 a (nth_error_In _ _ Hi)) as (pwa & ba & A1 & A2 & A3 & A4 & A5).
        rewrite Epw in A1. assert (pwa = pw) by congruence. subst pwa.
        rewrite <- A4. apply (batch_le_snd pw (mkSnd b n PAttempt) ba); auto. eapply I1; eauto.
  - (* Return *)
    eapply step_ret in H; [|left; reflexivity]. destruct H as (cl & r & _ & _ & -> & _).
    destruct I. split; auto.
  - (* CtxDone *)
    eapply step_ret in H; [|right; reflexivity]. destruct H as (cl & r & _ & _ & -> & _).
    destruct I. split; auto.
Qed.

Lemma Inv1_runs : forall cfg ls s, runs cfg ls s -> Inv1 s.
Proof.
  intros cfg ls s H. eapply (runs_inv cfg Inv1); eauto using Inv1_init. intros; eapply Inv1_step; eauto.
Qed.

Lemma C07_retries_contiguous_proof : stmt_C07_retries_contiguous.
Proof.
  intros cfg ls s Hr i j a b Hi Hj. destruct (Inv1_runs _ _ _ Hr) as [I1 I2 I3 I4 I5].
  destruct (I4 a (nth_error_In _ _ Hi)) as (pwa & ba & A1 & A2 & A3 & A4 & A5).
  destruct (I4 b (nth_error_In _ _ Hj)) as (pwb & bb & B1 & B2 & B3 & B4 & B5).
  split; [|split].
  - intros Ep Ek. destruct (Nat.lt_ge_cases i j) as [L|L]; auto.
    destruct (Nat.eq_dec i j) as [->|N]; [assert (a = b) by congruence; subst; lia|].
    assert (a_k b <= a_k a) by (eapply (I5 j i); eauto; lia). lia.
  - intros Ep Ek. rewrite Ep in A1. assert (pwa = pwb) by congruence. subst pwb.
    assert (ba = bb).
    { destruct (I1 _ _ A1) as [Hk _]. eapply (NoDup_map_inj_in _ _ b_k (pw_all pwa)).
      - rewrite Hk. apply seq_NoDup.
      - apply fs_incl_all; auto.
      - apply fs_incl_all; auto.
      - congruence. }
    subst. split; congruence.
  - intros Et. eapply I3; eauto. congruence.
Qed.

(* ------------------------------------------------------------------ calls: ids and order *)
Lemma existsb_eqb_false : forall x l, existsb (N.eqb x) l = false -> ~ In x l.
Proof.
  intros x l H Hin. assert (existsb (N.eqb x) l = true); [|congruence].
  apply existsb_exists. exists x. split; auto. apply N.eqb_refl.
Qed.

Lemma nodupb_NoDup : forall l, nodupb l = true -> NoDup l.
Proof.
  induction l as [|x r IH]; simpl; intros H; [constructor|].
  apply andb_true_iff in H. destruct H as [H1 H2]. apply negb_true_iff in H1.
  constructor; auto. apply existsb_eqb_false; auto.
Qed.

Lemma admissible_facts : forall s g msgs, call_admissible s g msgs = true ->
  (forall cl, In cl (s_calls s) -> c_g cl = g -> returned cl = true) /\
  NoDup (map m_id msgs) /\
  (forall m, In m msgs -> ~ In (m_id m) (used_ids (s_calls s))).
Proof.
  intros s g msgs H. unfold call_admissible in H.
  apply andb_true_iff in H. destruct H as [H H3]. apply andb_true_iff in H. destruct H as [H1 H2].
  split; [|split].
  - intros cl Hin Eg. rewrite forallb_forall in H1. specialize (H1 _ Hin). rewrite Eg, N.eqb_refl in H1. exact H1.
  - apply nodupb_NoDup; auto.
  - intros m Hin. rewrite forallb_forall in H3. specialize (H3 _ Hin). apply negb_true_iff in H3.
    apply existsb_eqb_false; auto.
Qed.

Lemma ids_idx : forall cs i j a b x y, NoDup (used_ids cs) ->
  nth_error cs i = Some a -> nth_error cs j = Some b -> In x (c_msgs a) -> In y (c_msgs b) ->
  m_id x = m_id y -> i = j.
Proof.
  intros cs i j a b x y N Hi Hj Hx Hy E. unfold used_ids in N.
  eapply (NoDup_flat_map_idx _ _ (fun c => map m_id (c_msgs c)) cs i j a b (m_id x)); eauto.
  - apply in_map; auto.
  - rewrite E. apply in_map; auto.
Qed.

Lemma ids_call_nodup : forall cs i a, NoDup (used_ids cs) -> nth_error cs i = Some a -> NoDup (map m_id (c_msgs a)).
Proof.
  intros cs i a N Hi. unfold used_ids in N.
  eapply (NoDup_flat_map_nth _ _ (fun c => map m_id (c_msgs c))); eauto.
Qed.

Lemma sub_before : forall cs g x y, before (submitted cs g) x y ->
  exists i j a b, nth_error cs i = Some a /\ nth_error cs j = Some b /\ In x (c_msgs a) /\ In y (c_msgs b) /\
                  c_g a = g /\ c_g b = g /\ (i < j \/ (i = j /\ before (c_msgs a) x y)).
Proof.
  intros cs g x y H. unfold submitted in H. apply before_flat_map_inv in H.
  destruct H as (i & j & a & b & Hi & Hj & Hx & Hy & O). exists i, j, a, b.
  destruct (N.eqb (c_g a) g && negb (rejected a)) eqn:Ea; [|destruct Hx].
  destruct (N.eqb (c_g b) g && negb (rejected b)) eqn:Eb; [|destruct Hy].
  apply andb_true_iff in Ea, Eb. destruct Ea as [Ea _], Eb as [Eb _]. apply N.eqb_eq in Ea, Eb.
  repeat split; auto.
Qed.

Lemma sub_before_same_call : forall cs g x y c cl, NoDup (used_ids cs) -> before (submitted cs g) x y ->
  nth_error cs c = Some cl -> In x (c_msgs cl) -> In y (c_msgs cl) -> before (c_msgs cl) x y.
Proof.
  intros cs g x y c cl N H Hc Hx Hy. apply sub_before in H.
  destruct H as (i & j & a & b & Hi & Hj & Hx' & Hy' & _ & _ & O).
  assert (i = c) by (apply (ids_idx cs i c a cl x x N Hi Hc Hx' Hx eq_refl)).
  assert (j = c) by (apply (ids_idx cs j c b cl y y N Hj Hc Hy' Hy eq_refl)). subst i j.
  destruct O as [O|[_ O]]; [lia|]. congruence.
Qed.

Lemma NoDup_map_mid : forall A B (f : A -> B) l1 m l2 x, NoDup (map f (l1 ++ m :: l2)) -> In x l1 -> f x = f m -> False.
Proof.
  intros A B f l1 m l2 x N Hx E. rewrite map_app in N. simpl in N.
  eapply (NoDup_app_disj _ _ (f m) N); [rewrite <- E; apply in_map; auto|left; auto].
Qed.

Lemma in_flat_map_upd_nil : forall A B (F : A -> list B) l i x b, F x = [] ->
  In b (flat_map F (upd l i x)) -> In b (flat_map F l).
Proof.
  induction l as [|h t IH]; intros i x b E H; [exact H|]. destruct i as [|i]; simpl in *.
  - rewrite E in H. simpl in H. apply in_or_app; auto.
  - apply in_app_or in H. apply in_or_app. destruct H; [auto|right; eauto].
Qed.

Lemma before_flat_map_upd_nil : forall A B (F : A -> list B) l i x a b, F x = [] ->
  before (flat_map F (upd l i x)) a b -> before (flat_map F l) a b.
Proof.
  induction l as [|h t IH]; intros i x a b E H; [exact H|]. destruct i as [|i]; simpl in *.
  - rewrite E in H. simpl in H. apply before_app_r. auto.
  - apply before_app_inv in H. destruct H as [H|[[H1 H2]|H]].
    + apply before_app_l; auto.
    + apply before_app_mid; auto. eapply in_flat_map_upd_nil; eauto.
    + apply before_app_r. eauto.
Qed.

Definition seqc (cs : list call) : Prop :=
  forall c1 c2 cl1 cl2, c1 < c2 -> nth_error cs c1 = Some cl1 -> nth_error cs c2 = Some cl2 ->
                        c_g cl1 = c_g cl2 -> returned cl1 = true.

Lemma calls_upd : forall cs c cl cl', nth_error cs c = Some cl ->
  c_g cl' = c_g cl -> c_msgs cl' = c_msgs cl -> rejected cl' = rejected cl ->
  (returned cl = true -> returned cl' = true) ->
  used_ids (upd cs c cl') = used_ids cs /\ (forall g, submitted (upd cs c cl') g = submitted cs g) /\
  (seqc cs -> seqc (upd cs c cl')).
Proof.
  intros cs c cl cl' Hc Eg Em Er Ert. split; [|split].
  - unfold used_ids. eapply flat_map_upd; eauto. congruence.
  - intros g. unfold submitted. eapply flat_map_upd; eauto. rewrite Eg, Em, Er. reflexivity.
  - intros S c1 c2 cl1 cl2 L H1 H2 E.
    assert (K : forall i x, nth_error (upd cs c cl') i = Some x ->
                exists x0, nth_error cs i = Some x0 /\ c_g x0 = c_g x /\ (returned x0 = true -> returned x = true)).
    { intros i x Hx. apply nth_error_upd in Hx. destruct Hx as [(-> & -> & _)|[_ Hx]]; eauto. }
    destruct (K _ _ H1) as (y1 & Y1 & G1 & R1). destruct (K _ _ H2) as (y2 & Y2 & G2 & R2).
    apply R1. eapply S; eauto. congruence.
Qed.

(* ------------------------------------------------------------------ invariant 2 *)
Definition assigned_in (cs : list call) (x : msg) : Prop :=
  exists c cl, nth_error cs c = Some cl /\ In x (c_msgs cl) /\ c_ph cl <> CEntered /\ rejected cl = false.

Definition covered (cfg : config) (pws : list pwriter) (m : msg) : Prop :=
  exists q pw, nth_error pws q = Some pw /\ pw_tp pw = tp_of cfg m /\ In m (pw_seq pw).

Definition tp_okl (cfg : config) (pws : list pwriter) : Prop :=
  forall q pw x, nth_error pws q = Some pw -> In x (pw_seq pw) -> tp_of cfg x = pw_tp pw.

Definition order_ok (cs : list call) (pws : list pwriter) : Prop :=
  forall g q m1 m2, before (submitted cs g) m1 m2 -> In m1 (oseq pws q) -> In m2 (oseq pws q) ->
                    before (oseq pws q) m1 m2.

Record Inv2 (cfg : config) (s : state) : Prop := {
  i2_ids : NoDup (used_ids (s_calls s));
  i2_seqc : seqc (s_calls s);
  i2_prov : forall q x, In x (oseq (s_pws s) q) -> assigned_in (s_calls s) x;
  i2_tp : tp_okl cfg (s_pws s);
  i2_nodup : forall q, NoDup (map m_id (oseq (s_pws s) q));
  i2_order : order_ok (s_calls s) (s_pws s);
  i2_cover : forall c cl m, nth_error (s_calls s) c = Some cl -> c_ph cl <> CEntered -> rejected cl = false ->
                            In m (c_msgs cl) -> covered cfg (s_pws s) m
}.

Lemma oseq_in : forall pws q x, In x (oseq pws q) -> exists pw, nth_error pws q = Some pw /\ In x (pw_seq pw).
Proof. intros pws q x H. unfold oseq in H. destruct (nth_error pws q); [eauto|destruct H]. Qed.

Lemma oseq_some : forall pws q pw, nth_error pws q = Some pw -> oseq pws q = pw_seq pw.
Proof. intros pws q pw H. unfold oseq. rewrite H. reflexivity. Qed.


Lemma astep_oseq : forall cfg m pws pws' q, astep cfg m pws pws' ->
  oseq pws' q = oseq pws q \/ oseq pws' q = oseq pws q ++ [m].
Proof.
  intros cfg m pws pws' q H. destruct (nth_error pws' q) as [x'|] eqn:E.
  - destruct (astep_bwd _ _ _ _ _ _ H E) as [K|(_ & _ & K & _)].
    + left. unfold oseq. rewrite E, K. reflexivity.
    + right. rewrite (oseq_some _ _ _ E). exact K.
  - left. unfold oseq. rewrite E. destruct (nth_error pws q) as [x|] eqn:E0; auto.
    destruct (astep_fwd _ _ _ _ H _ _ E0) as (x' & Hx' & _). congruence.
Qed.

Lemma astep_has : forall cfg m pws pws', astep cfg m pws pws' -> covered cfg pws' m.
Proof.
  intros cfg m pws pws' [(p & pw & pw' & E & Ho & Htp & G & ->)|(pw' & Hn & G & ->)];
    destruct G as (G1 & G2 & G3 & G4 & G5 & G6).
  - exists p, pw'. split; [apply nth_error_upd_eq; apply nth_error_Some; congruence|].
    split; [congruence|]. rewrite G6. apply in_or_app. right. left. reflexivity.
  - exists (length pws), pw'. split; [rewrite nth_error_app2, Nat.sub_diag by lia; reflexivity|].
    split; [exact G3|]. rewrite G6. apply in_or_app. right. left. reflexivity.
Qed.

Lemma covered_fwd : forall cfg pws pws' m, fwd Rasg pws pws' -> covered cfg pws m -> covered cfg pws' m.
Proof.
  intros cfg pws pws' m F (q & pw & E & T & I). destruct (F _ _ E) as (pw' & E' & T' & _ & _ & _ & I').
  exists q, pw'. split; auto. split; [congruence|auto].
Qed.

Section AssignFold.
Variable cfg : config.
Variable cs : list call.
Variable c : nat.
Variable cl : call.
Hypothesis Hc : nth_error cs c = Some cl.
Hypothesis Hph : c_ph cl = CEntered.
Hypothesis HN : NoDup (used_ids cs).
Hypothesis HS : seqc cs.

Definition prov_f (ms1 : list msg) (pws : list pwriter) : Prop :=
  forall q x, In x (oseq pws q) ->
    (exists c2 cl2, c2 <> c /\ nth_error cs c2 = Some cl2 /\ In x (c_msgs cl2) /\
                    c_ph cl2 <> CEntered /\ rejected cl2 = false) \/ In x ms1.

Definition Q (ms1 : list msg) (pws : list pwriter) : Prop :=
  all_ok pws /\ prov_f ms1 pws /\ tp_okl cfg pws /\ (forall q, NoDup (map m_id (oseq pws q))) /\
  order_ok cs pws /\ (forall m, In m ms1 -> covered cfg pws m).

Lemma cl_nodup : NoDup (c_msgs cl).
Proof. eapply NoDup_map_inv. eapply ids_call_nodup; eauto. Qed.

Lemma fresh_m : forall ms1 m ms2 pws q x, prov_f ms1 pws -> c_msgs cl = ms1 ++ m :: ms2 ->
  In x (oseq pws q) -> m_id x = m_id m -> False.
Proof.
  intros ms1 m ms2 pws q x P E Hx Eid. destruct (P _ _ Hx) as [(c2 & cl2 & N2 & H2 & I2 & _)|I1].
  - apply N2. eapply (ids_idx cs c2 c cl2 cl x m); eauto. rewrite E. apply in_or_app. right. left. reflexivity.
  - eapply (NoDup_map_mid _ _ m_id ms1 m ms2 x); eauto. rewrite <- E. eapply ids_call_nodup; eauto.
Qed.

Lemma noback_m : forall ms1 m ms2 pws q g m2, prov_f ms1 pws -> c_msgs cl = ms1 ++ m :: ms2 ->
  In m2 (oseq pws q) -> before (submitted cs g) m m2 -> False.
Proof.
  intros ms1 m ms2 pws q g m2 P E H2 B.
  assert (Hm : In m (c_msgs cl)) by (rewrite E; apply in_or_app; right; left; reflexivity).
  destruct (P _ _ H2) as [(c2 & cl2 & N2 & Hc2 & I2 & Ph2 & _)|I1].
  - apply sub_before in B. destruct B as (i & j & a & b & Hi & Hj & Hx & Hy & Ga & Gb & O).
    assert (i = c) by (apply (ids_idx cs i c a cl m m HN Hi Hc Hx Hm eq_refl)).
    assert (j = c2) by (apply (ids_idx cs j c2 b cl2 m2 m2 HN Hj Hc2 Hy I2 eq_refl)). subst i j.
    destruct O as [O|[O _]]; [|congruence].
    assert (a = cl) by congruence. subst a.
    assert (R : returned cl = true) by (eapply HS; eauto; congruence).
    unfold returned in R. rewrite Hph in R. discriminate.
  - assert (B' : before (c_msgs cl) m m2).
    { eapply sub_before_same_call; eauto. rewrite E. apply in_or_app. left. auto. }
    eapply (NoDup_before_asym (c_msgs cl) m m2); [apply cl_nodup|exact B'|].
    rewrite E. apply before_app_mid; [auto|left; reflexivity].
Qed.

Lemma Q_step : forall ms1 m ms2 pws pws', c_msgs cl = ms1 ++ m :: ms2 -> Q ms1 pws ->
  astep cfg m pws pws' -> Q (ms1 ++ [m]) pws'.
Proof.
  intros ms1 m ms2 pws pws' E (Q1 & Q2 & Q3 & Q4 & Q5 & Q6) A.
  assert (Hm : In m (c_msgs cl)) by (rewrite E; apply in_or_app; right; left; reflexivity).
  split; [eapply astep_ok; eauto|]. split; [|split; [|split; [|split]]].
  - intros q x Hx. destruct (astep_oseq _ _ _ _ q A) as [K|K]; rewrite K in Hx.
    + destruct (Q2 _ _ Hx) as [L|R]; [left; auto|right; apply in_or_app; auto].
    + apply in_app_or in Hx. destruct Hx as [Hx|[<-|[]]].
      * destruct (Q2 _ _ Hx) as [L|R]; [left; auto|right; apply in_or_app; auto].
      * right. apply in_or_app. right. left. reflexivity.
  - intros q x' x Hq Hx. destruct (astep_bwd _ _ _ _ _ _ A Hq) as [K|(_ & _ & K1 & K2 & K3 & _)].
    + eapply Q3; eauto.
    + rewrite K1 in Hx. apply in_app_or in Hx. destruct Hx as [Hx|[<-|[]]]; [|congruence].
      apply oseq_in in Hx. destruct Hx as (x0 & E0 & I0). rewrite (Q3 _ _ _ E0 I0). rewrite (K3 _ E0). congruence.
  - intros q. destruct (astep_oseq _ _ _ _ q A) as [K|K]; rewrite K; [apply Q4|].
    rewrite map_app. apply NoDup_app_intro; [apply Q4|simpl; constructor; [intros []|constructor]|].
    intros z Hz [<-|[]]. apply in_map_iff in Hz. destruct Hz as (x & Ex & Hx).
    eapply fresh_m; eauto.
  - intros g q m1 m2 B H1 H2. destruct (astep_oseq _ _ _ _ q A) as [K|K]; rewrite K in *; [eapply Q5; eauto|].
    apply in_app_or in H1. apply in_app_or in H2. destruct H1 as [H1|[<-|[]]], H2 as [H2|[<-|[]]].
    + apply before_app_l. eapply Q5; eauto.
    + apply before_app_mid; [auto|left; reflexivity].
    + exfalso. eapply noback_m; eauto.
    + exfalso. eapply (NoDup_before_irrefl (c_msgs cl) m); [apply cl_nodup|].
      eapply sub_before_same_call; eauto.
  - intros m' Hm'. apply in_app_or in Hm'. destruct Hm' as [Hm'|[<-|[]]].
    + eapply covered_fwd; [eapply astep_fwd; eauto|auto].
    + eapply astep_has; eauto.
Qed.

End AssignFold.

Definition Rseq (a b : pwriter) : Prop := pw_tp b = pw_tp a /\ pw_seq b = pw_seq a.

Lemma lrel_Rseq_oseq : forall pws pws' q, lrel Rseq pws pws' -> oseq pws' q = oseq pws q.
Proof.
  intros pws pws' q L. unfold oseq. destruct (nth_error pws' q) as [x'|] eqn:E.
  - destruct (lrel_bwd _ _ _ _ _ _ L E) as (x & Hx & _ & R). rewrite Hx. auto.
  - destruct (nth_error pws q) as [x|] eqn:E0; auto.
    destruct (lrel_fwd _ _ _ _ _ _ L E0) as (x' & Hx' & _). congruence.
Qed.

Lemma Inv2_same_seq : forall cfg s s', Inv2 cfg s -> s_calls s' = s_calls s ->
  lrel Rseq (s_pws s) (s_pws s') -> Inv2 cfg s'.
Proof.
  intros cfg s s' [I1 I2 I3 I4 I5 I6 I7] Ec L.
  assert (O : forall q, oseq (s_pws s') q = oseq (s_pws s) q) by (intros; apply lrel_Rseq_oseq; auto).
  split; rewrite ?Ec; auto.
  - intros q x Hx. rewrite O in Hx. eauto.
  - intros q pw' x Hq Hx. destruct (lrel_bwd _ _ _ _ _ _ L Hq) as (pw & Hpw & T & S).
    rewrite S in Hx. rewrite T. eapply I4; eauto.
  - intros q. rewrite O. auto.
  - intros g q m1 m2 B H1 H2. rewrite O in *. eapply I6; eauto.
  - intros c cl m H1 H2 H3 H4. destruct (I7 _ _ _ H1 H2 H3 H4) as (q & pw & E & T & I).
    destruct (lrel_fwd _ _ _ _ _ _ L E) as (pw' & E' & T' & S'). exists q, pw'. split; auto. split; congruence.
Qed.

Lemma lrel_Rloc_Rseq : forall pws pws', all_ok pws -> lrel Rloc pws pws' -> lrel Rseq pws pws'.
Proof.
  intros pws pws' Hok L. eapply lrel_imp; [|exact L]. intros q x x' Hx R. split.
  - apply R. eapply Hok; eauto.
  - eapply Rloc_seq; eauto.
Qed.

Lemma step_attempt : forall cfg s p r s', step cfg s (Attempt p r) = Some s' ->
  s_calls s' = s_calls s /\ lrel Rloc (s_pws s) (s_pws s').
Proof.
  intros cfg s p r s' H. simpl in H. destruct (nth_error (s_pws s) p) as [pw|] eqn:E; [|discriminate].
  destruct (pw_snd pw) as [[b n [| |e]]|] eqn:Es; inv H. simpl. split; auto.
  eapply lrel_upd; eauto using Rloc_refl.
  destruct pw; simpl in *; subst. unfold Rloc, pw_ok, pw_all, fs. simpl.
  intros [Hk Hc]. repeat split; auto using incl_refl.
Qed.

Lemma Inv2_init : forall cfg, Inv2 cfg init.
Proof.
  intros cfg. split; simpl.
  - constructor.
  - intros c1 c2 cl1 cl2 _ H. destruct c1; discriminate.
  - intros q x H. unfold oseq in H. destruct q; destruct H.
  - intros q pw x H. destruct q; discriminate.
  - intros q. unfold oseq. destruct q; constructor.
  - intros g q m1 m2 _ H. unfold oseq in H. destruct q; destruct H.
  - intros c cl m H. destruct c; discriminate.
Qed.

Lemma Inv2_step : forall cfg s l s', Inv1 s -> Inv2 cfg s -> step cfg s l = Some s' -> Inv2 cfg s'.
Proof.
  intros cfg s l s' J I H.
  destruct (is_local l) eqn:Hl.
  { destruct (step_local _ _ _ _ Hl H) as (Ec & Ej & Elog & LR & LO).
    eapply Inv2_same_seq; eauto. apply lrel_Rloc_Rseq; auto. apply J. }
  destruct l; try discriminate.
  - (* Call *)
    apply step_call in H. destruct H as (wg & ph & -> & Adm & Ph).
    destruct (admissible_facts _ _ _ Adm) as (A1 & A2 & A3).
    destruct I as [I1 I2 I3 I4 I5 I6 I7]. split; simpl; auto.
    + unfold used_ids. rewrite flat_map_app. simpl. rewrite app_nil_r.
      apply NoDup_app_intro; auto. intros z Hz Hz'. apply in_map_iff in Hz'. destruct Hz' as (m & <- & Hm).
      eapply A3; eauto.
    + intros c1 c2 cl1 cl2 L H1 H2 Eg.
      destruct (Nat.lt_ge_cases c2 (length (s_calls s))) as [L2|L2].
      * rewrite nth_error_app1 in H2 by lia. rewrite nth_error_app1 in H1 by lia. exact (I2 _ _ _ _ L H1 H2 Eg).
      * rewrite nth_error_app2 in H2 by lia.
        destruct (c2 - length (s_calls s)) as [|d] eqn:D; simpl in H2; [|destruct d; discriminate]. inv H2.
        rewrite nth_error_app1 in H1 by lia. apply A1; [eapply nth_error_In; eauto|exact Eg].
    + intros q x Hx. destruct (I3 _ _ Hx) as (c2 & cl2 & H2 & R). exists c2, cl2. split; auto.
      rewrite nth_error_app1; auto. apply nth_error_Some. congruence.
    + intros g0 q m1 m2 B H1 H2. unfold submitted in B. rewrite flat_map_app in B. simpl in B. rewrite app_nil_r in B.
      assert (K : forall y, In y (if (g =? g0)%N && negb (rejected (mkCall g msgs [] ph)) then msgs else []) ->
                            In y (oseq (s_pws s) q) -> False).
      { intros y Hy Hy'. assert (In y msgs) by (destruct ((g =? g0)%N && negb (rejected (mkCall g msgs [] ph))); [auto|destruct Hy]).
        destruct (I3 _ _ Hy') as (c2 & cl2 & E2 & In2 & _). eapply A3; eauto.
        unfold used_ids. apply in_flat_map. exists cl2. split; [eapply nth_error_In; eauto|apply in_map; auto]. }
      apply before_app_inv in B. destruct B as [B|[[_ B]|B]].
      * eapply I6; eauto.
      * exfalso. eapply K; eauto.
      * exfalso. eapply K; eauto. eapply before_in_r; eauto.
    + intros c cl m H1 H2 H3 H4.
      destruct (Nat.lt_ge_cases c (length (s_calls s))) as [L2|L2].
      * rewrite nth_error_app1 in H1 by lia. eapply I7; eauto.
      * rewrite nth_error_app2 in H1 by lia.
        destruct (c - length (s_calls s)) as [|d] eqn:D; simpl in H1; [|destruct d; discriminate]. inv H1.
        simpl in *. destruct Ph as [ -> | [ Ph | -> ] ]; [congruence|congruence|destruct H4].
  - (* Assign *)
    simpl in H. destruct (nth_error (s_calls s) c) as [cl|] eqn:Ec; [|discriminate].
    destruct (c_ph cl) eqn:Ep; try discriminate.
    destruct (closed s) eqn:Ecl.
    { inv H. destruct I as [I1 I2 I3 I4 I5 I6 I7].
      set (cl' := mkCall (c_g cl) (c_msgs cl) (c_refs cl) (CReturned (RErr EClosed))).
      assert (K : forall i x, nth_error (upd (s_calls s) c cl') i = Some x ->
                  exists x0, nth_error (s_calls s) i = Some x0 /\ c_g x0 = c_g x /\ (returned x0 = true -> returned x = true)).
      { intros i x Hx. apply nth_error_upd in Hx. destruct Hx as [(-> & -> & _)|[_ Hx]]; eauto. }
      split; simpl; fold cl'; auto.
      + unfold used_ids. erewrite flat_map_upd; eauto.
      + intros c1 c2 cl1 cl2 L H1 H2 E.
        destruct (K _ _ H1) as (y1 & Y1 & G1 & R1). destruct (K _ _ H2) as (y2 & Y2 & G2 & R2).
        apply R1. eapply I2; eauto. congruence.
      + intros q x Hx. destruct (I3 _ _ Hx) as (c2 & cl2 & E2 & In2 & Ph2 & R2).
        exists c2, cl2. rewrite nth_error_upd_neq; auto. intros ->. congruence.
      + intros g q m1 m2 B. eapply I6. unfold submitted in *.
        eapply before_flat_map_upd_nil; [|exact B]. unfold cl'. simpl. rewrite andb_false_r. reflexivity.
      + intros c0 cl0 m H1 H2 H3 H4. apply nth_error_upd in H1. destruct H1 as [(-> & -> & _)|[N0 H1]].
        * discriminate.
        * eapply I7; eauto. }
    destruct (assign_all cfg (s_pws s) (s_wg s) (c_msgs cl)) as [[pws wg] refs] eqn:EA. inv H.
    destruct I as [I1 I2 I3 I4 I5 I6 I7].
    assert (P : Q cfg (s_calls s) c (c_msgs cl) pws /\ fwd Rasg (s_pws s) pws).
    { eapply (assign_all_ind cfg (fun ms1 pws => Q cfg (s_calls s) c ms1 pws /\ fwd Rasg (s_pws s) pws)); [| |exact EA].
      - intros ms1 m ms2 pws1 wg1 refs1 pws' wg' refs' E (A1 & A2) E1.
        apply assign_one_spec in E1; [|apply A1]. split.
        + eapply Q_step; eauto.
        + intros q x Hx. destruct (A2 _ _ Hx) as (x1 & Hx1 & R1).
          destruct (astep_fwd _ _ _ _ E1 _ _ Hx1) as (x2 & Hx2 & R2). exists x2. split; auto.
          eapply Rasg_trans; eauto.
      - split; [|intros q x Hx; exists x; split; auto; apply Rasg_refl].
        split; [apply J|]. split; [|split; [|split; [|split]]]; auto.
        + intros q x Hx. left. destruct (I3 _ _ Hx) as (c2 & cl2 & E2 & In2 & Ph2 & R2).
          exists c2, cl2. repeat split; auto. intros ->. congruence.
        + intros m []. }
    destruct P as ((P1 & P2 & P3 & P4 & P5 & P6) & PF).
    set (cl' := mkCall (c_g cl) (c_msgs cl) refs CWaiting).
    assert (Rj : rejected cl = false) by (unfold rejected; rewrite Ep; reflexivity).
    destruct (calls_upd (s_calls s) c cl cl' Ec eq_refl eq_refl) as (U1 & U2 & U3).
    { unfold rejected; simpl. rewrite Ep. reflexivity. }
    { unfold returned. rewrite Ep. discriminate. }
    assert (Ec' : nth_error (upd (s_calls s) c cl') c = Some cl').
    { apply nth_error_upd_eq. apply nth_error_Some. congruence. }
    split; simpl; fold cl'; auto.
    + rewrite U1. auto.
    + intros q x Hx. destruct (P2 _ _ Hx) as [(c2 & cl2 & N2 & E2 & In2 & Ph2 & R2)|Hin].
      * exists c2, cl2. rewrite nth_error_upd_neq by auto. auto.
      * exists c, cl'. split; auto. split; auto. split; [discriminate|reflexivity].
    + intros g q m1 m2 B. rewrite U2 in B. eapply P5; eauto.
    + intros c0 cl0 m H1 H2 H3 H4. apply nth_error_upd in H1. destruct H1 as [(-> & -> & _)|[N0 H1]].
      * apply P6. exact H4.
      * eapply covered_fwd; [exact PF|]. eapply I7; eauto.
  - (* Attempt *)
    destruct (step_attempt _ _ _ _ _ H) as [Ec LR].
    eapply Inv2_same_seq; eauto. apply lrel_Rloc_Rseq; auto. apply J.
  - (* Return *)
    eapply step_ret in H; [|left; reflexivity]. destruct H as (cl & r & Ec & Ep & -> & Hr).
    destruct I as [I1 I2 I3 I4 I5 I6 I7].
    set (cl' := mkCall (c_g cl) (c_msgs cl) (c_refs cl) (CReturned r)).
    assert (Rj' : rejected cl' = false) by (destruct Hr as [ -> | [ [we -> ] | -> ] ]; reflexivity).
    assert (Rj : rejected cl = false) by (unfold rejected; rewrite Ep; reflexivity).
    destruct (calls_upd (s_calls s) c cl cl' Ec eq_refl eq_refl) as (U1 & U2 & U3); [congruence|reflexivity|].
    split; simpl; fold cl'; auto.
    + rewrite U1. auto.
    + intros q x Hx. destruct (I3 _ _ Hx) as (c2 & cl2 & E2 & In2 & Ph2 & R2).
      destruct (Nat.eq_dec c c2) as [<-|N].
      * exists c, cl'. split; [apply nth_error_upd_eq; apply nth_error_Some; congruence|].
        assert (cl2 = cl) by congruence. subst. split; auto. split; [discriminate|auto].
      * exists c2, cl2. rewrite nth_error_upd_neq by auto. auto.
    + intros g q m1 m2 B. rewrite U2 in B. eapply I6; eauto.
    + intros c0 cl0 m H1 H2 H3 H4. apply nth_error_upd in H1. destruct H1 as [(-> & -> & _)|[N0 H1]].
      * eapply (I7 c0 cl); eauto. congruence.
      * eapply I7; eauto.
  - (* CtxDone *)
    eapply step_ret in H; [|right; reflexivity]. destruct H as (cl & r & Ec & Ep & -> & Hr).
    destruct I as [I1 I2 I3 I4 I5 I6 I7].
    set (cl' := mkCall (c_g cl) (c_msgs cl) (c_refs cl) (CReturned r)).
    assert (Rj' : rejected cl' = false) by (destruct Hr as [ -> | [ [we -> ] | -> ] ]; reflexivity).
    assert (Rj : rejected cl = false) by (unfold rejected; rewrite Ep; reflexivity).
    destruct (calls_upd (s_calls s) c cl cl' Ec eq_refl eq_refl) as (U1 & U2 & U3); [congruence|reflexivity|].
    split; simpl; fold cl'; auto.
    + rewrite U1. auto.
    + intros q x Hx. destruct (I3 _ _ Hx) as (c2 & cl2 & E2 & In2 & Ph2 & R2).
      destruct (Nat.eq_dec c c2) as [<-|N].
      * exists c, cl'. split; [apply nth_error_upd_eq; apply nth_error_Some; congruence|].
        assert (cl2 = cl) by congruence. subst. split; auto. split; [discriminate|auto].
      * exists c2, cl2. rewrite nth_error_upd_neq by auto. auto.
    + intros g q m1 m2 B. rewrite U2 in B. eapply I6; eauto.
    + intros c0 cl0 m H1 H2 H3 H4. apply nth_error_upd in H1. destruct H1 as [(-> & -> & _)|[N0 H1]].
      * eapply (I7 c0 cl); eauto. congruence.
      * eapply I7; eauto.
Qed.

Lemma Inv12_runs : forall cfg ls s, runs cfg ls s -> Inv1 s /\ Inv2 cfg s.
Proof.
  intros cfg ls s H. eapply (runs_inv cfg (fun s => Inv1 s /\ Inv2 cfg s)); eauto.
  - split; [apply Inv1_init|apply Inv2_init].
  - intros s0 l s1 [A B] St. split; [eapply Inv1_step; eauto|eapply Inv2_step; eauto].
Qed.

Lemma C07_batch_internal_order_proof : stmt_C07_batch_internal_order.
Proof.
  intros cfg ls s Hr g tp m1 m2 a (l1 & l2 & l3 & Hsub) Ha i j Hi Hj.
  destruct (Inv12_runs _ _ _ Hr) as [J I].
  assert (B : before (submitted (s_calls s) g) m1 m2).
  { eapply before_filter. rewrite Hsub. apply before_split. }
  destruct (i1_jr _ J a Ha) as (pw & b & E & T & Hb & Hk & Hm).
  assert (Hall : In b (pw_all pw)) by (apply fs_incl_all; auto).
  assert (O : oseq (s_pws s) (a_pw a) = pw_seq pw) by (apply oseq_some; auto).
  assert (In1 : In m1 (pw_seq pw)).
  { unfold pw_seq. apply in_flat_map. exists b. split; auto. rewrite Hm. eapply nth_error_In; eauto. }
  assert (In2 : In m2 (pw_seq pw)).
  { unfold pw_seq. apply in_flat_map. exists b. split; auto. rewrite Hm. eapply nth_error_In; eauto. }
  assert (BS : before (pw_seq pw) m1 m2).
  { rewrite <- O. eapply (i2_order _ _ I); eauto; rewrite O; auto. }
  assert (ND : NoDup (pw_seq pw)).
  { eapply NoDup_map_inv. rewrite <- O. apply (i2_nodup _ _ I). }
  destruct (Nat.lt_ge_cases i j) as [L|L]; auto. exfalso.
  destruct (Nat.eq_dec i j) as [->|N].
  - assert (m1 = m2) by congruence. subst. eapply NoDup_before_irrefl; eauto.
  - eapply (NoDup_before_asym (pw_seq pw) m1 m2); eauto. unfold pw_seq.
    eapply before_flat_map_in; eauto. rewrite Hm. exists j, i. split; [lia|auto].
Qed.

(* ------------------------------------------------------------------ the log *)
Definition jlog (j : list attempt) : list (tpart * msg) :=
  flat_map (fun a => if a_applied a then map (pair (a_tp a)) (a_msgs a) else []) j.

Lemma log_inv_runs : forall cfg ls s, runs cfg ls s -> s_log s = jlog (s_journal s).
Proof.
  intros cfg ls s H. eapply (runs_inv cfg (fun s => s_log s = jlog (s_journal s))); eauto.
  intros s0 l s1 I St. destruct (is_local l) eqn:Hl.
  { destruct (step_local _ _ _ _ Hl St) as (_ & Ej & Elog & _). congruence. }
  destruct l; try discriminate.
  - apply step_call in St. destruct St as (wg & ph & -> & _). exact I.
  - simpl in St. destruct (nth_error (s_calls s0) c) as [cl|]; [|discriminate].
    destruct (c_ph cl); try discriminate. destruct (closed s0); [inv St; exact I|].
    destruct (assign_all cfg (s_pws s0) (s_wg s0) (c_msgs cl)) as [[pws wg] refs]. inv St. exact I.
  - simpl in St. destruct (nth_error (s_pws s0) p) as [pw|]; [|discriminate].
    destruct (pw_snd pw) as [[b n [| |e]]|]; inv St. simpl. rewrite I. unfold jlog.
    rewrite flat_map_app. simpl. rewrite app_nil_r. reflexivity.
  - eapply step_ret in St; [|left; reflexivity]. destruct St as (cl & r & _ & _ & -> & _). exact I.
  - eapply step_ret in St; [|right; reflexivity]. destruct St as (cl & r & _ & _ & -> & _). exact I.
Qed.

Definition amsgs (tp : tpart) (a : attempt) : list msg :=
  if a_applied a && tp_eqb (a_tp a) tp then a_msgs a else [].

Lemma filter_pair : forall tp t (l : list msg),
  map snd (filter (fun e : tpart * msg => tp_eqb (fst e) tp) (map (pair t) l)) = if tp_eqb t tp then l else [].
Proof.
  intros tp t l. induction l as [|x l IH]; simpl; [destruct (tp_eqb t tp); reflexivity|].
  destruct (tp_eqb t tp) eqn:E; simpl; [f_equal|]; exact IH.
Qed.

Lemma log_of_jlog : forall tp j,
  map snd (filter (fun e : tpart * msg => tp_eqb (fst e) tp) (jlog j)) = flat_map (amsgs tp) j.
Proof.
  intros tp j. induction j as [|a j IH]; simpl; [reflexivity|].
  rewrite filter_app, map_app, IH. f_equal. unfold amsgs. destruct (a_applied a); simpl; [apply filter_pair|reflexivity].
Qed.

Lemma flat_map_order : forall A B (F : A -> list B) l i j x y,
  nth_error (flat_map F l) i = Some x -> nth_error (flat_map F l) j = Some y ->
  (forall p p' a b, nth_error l p = Some a -> nth_error l p' = Some b -> In x (F a) -> In y (F b) -> p < p') ->
  i < j.
Proof.
  intros A B F l i j x y Hi Hj H. destruct (Nat.lt_ge_cases i j) as [L|L]; auto. exfalso.
  destruct (Nat.eq_dec i j) as [->|N].
  - assert (x = y) by congruence. subst y. apply nth_error_In in Hi. apply in_flat_map in Hi.
    destruct Hi as (a & Ha & Hx). apply In_nth_error in Ha. destruct Ha as [p Hp].
    specialize (H p p a a Hp Hp Hx Hx). lia.
  - assert (Bf : before (flat_map F l) y x) by (exists j, i; split; [lia|auto]).
    apply before_flat_map_inv in Bf. destruct Bf as (p' & p & b & a & Hp' & Hp & Hy & Hx & O).
    specialize (H p p' a b Hp Hp' Hx Hy). lia.
Qed.

Lemma C07_order_proof : stmt_C07_order.
Proof.
  intros cfg ls s _ Hr g tp m1 m2 (l1 & l2 & l3 & Hsub) Hno i j Hi Hj.
  destruct (Inv12_runs _ _ _ Hr) as [J I].
  assert (B : before (submitted (s_calls s) g) m1 m2).
  { eapply before_filter. rewrite Hsub. apply before_split. }
  unfold log_of in Hi, Hj. rewrite (log_inv_runs _ _ _ Hr), log_of_jlog in Hi, Hj.
  eapply flat_map_order; eauto.
  intros p p' a b Hp Hp' Ha Hb. unfold amsgs in Ha, Hb.
  destruct (a_applied a && tp_eqb (a_tp a) tp) eqn:Ea; [|destruct Ha].
  destruct (a_applied b && tp_eqb (a_tp b) tp) eqn:Eb; [|destruct Hb].
  apply andb_true_iff in Ea, Eb. destruct Ea as [_ Ea], Eb as [_ Eb]. apply tp_eqb_eq in Ea, Eb.
  destruct (C07_retries_contiguous_proof cfg ls s Hr p p' a b Hp Hp') as (R1 & _ & R3).
  assert (Epw : a_pw a = a_pw b) by (apply R3; congruence).
  apply R1; auto.
  destruct (i1_jr _ J a (nth_error_In _ _ Hp)) as (pwa & ba & A1 & A2 & A3 & A4 & A5).
  destruct (i1_jr _ J b (nth_error_In _ _ Hp')) as (pwb & bb & B1 & B2 & B3 & B4 & B5).
  rewrite Epw in A1. assert (pwa = pwb) by congruence. subst pwb.
  destruct (i1_ok _ J _ _ A1) as [Hk _].
  apply fs_incl_all in A3, B3.
  assert (O : oseq (s_pws s) (a_pw b) = pw_seq pwa) by (apply oseq_some; auto).
  assert (In1 : In m1 (pw_seq pwa)).
  { unfold pw_seq. apply in_flat_map. exists ba. split; auto. rewrite A5. auto. }
  assert (In2 : In m2 (pw_seq pwa)).
  { unfold pw_seq. apply in_flat_map. exists bb. split; auto. rewrite B5. auto. }
  assert (BS : before (pw_seq pwa) m1 m2).
  { rewrite <- O. eapply (i2_order _ _ I); eauto; rewrite O; auto. }
  assert (ND : NoDup (pw_seq pwa)).
  { eapply NoDup_map_inv. rewrite <- O. apply (i2_nodup _ _ I). }
  destruct (Nat.lt_ge_cases (a_k a) (a_k b)) as [L|L]; auto. exfalso.
  destruct (Nat.eq_dec (a_k a) (a_k b)) as [Ek|Nk].
  - assert (ba = bb).
    { eapply (NoDup_map_inj_in _ _ b_k (pw_all pwa)); auto; [rewrite Hk; apply seq_NoDup|congruence]. }
    subst bb. apply (Hno a (nth_error_In _ _ Hp)). split; auto. rewrite <- A5, B5. auto.
  - apply In_nth_error in A3, B3. destruct A3 as [ia Hia], B3 as [ib Hib].
    assert (b_k ba = ia) by (eapply seq_idx; eauto).
    assert (b_k bb = ib) by (eapply seq_idx; eauto).
    eapply (NoDup_before_asym (pw_seq pwa) m1 m2); eauto. unfold pw_seq.
    eapply (before_flat_map_lt _ _ b_msgs (pw_all pwa) ib ia bb ba); eauto; [lia|rewrite B5; auto|rewrite A5; auto].
Qed.

Print Assumptions C07_retries_contiguous_proof.
Print Assumptions C07_batch_internal_order_proof.
Print Assumptions C07_order_proof.
