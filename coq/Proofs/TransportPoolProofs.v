(* Proofs/TransportPoolProofs.v — structural invariant of the transport pool: a connection
   is held by at most one requester, idle connections have no pending exchange. *)
From Coq Require Import List ZArith Bool Arith Lia.
From KV Require Import Model.ConnMux Model.TransportPool Proofs.ConnMuxBase Proofs.TransportPoolBase.
Import ListNotations.
Local Open Scope Z_scope.

Record PInv (s : pstate) : Prop := mkPInv {
  p_nodup : NoDup (idle s);
  p_idle : forall c, In c (idle s) -> cst (cn s c) = CLoop /\ (c < nconn s)%nat;
  p_hold : forall r c, qph (rq s r) = QHold c ->
           cst (cn s c) = CLoop /\ ~ In c (idle s) /\ (c < nconn s)%nat;
  p_excl : forall r r' c, qph (rq s r) = QHold c -> qph (rq s r') = QHold c -> r = r';
  p_fresh : forall c, (nconn s <= c)%nat -> cn s c = conn0;
  p_ok : forall c, cst (cn s c) <> CClosed -> lastok (cn s c) = true
}.

Lemma PInv_init : PInv pinit.
Proof.
  constructor; cbn; intros; try contradiction; try discriminate; auto; try constructor.
  all: exfalso; apply H; reflexivity.
Qed.

Ltac unf := unfold cn, rq in *; simp_p; cbn [lookupG] in *.

Lemma filter_nodup : forall (A : Type) (f : A -> bool) l, NoDup l -> NoDup (filter f l).
Proof.
  induction l as [|a l IH]; intros N; simpl; [constructor|].
  inversion N; subst. destruct (f a); auto. constructor; auto.
  intros X. apply filter_In in X. tauto.
Qed.

Lemma PInv_closeidle : forall s g s', PInv s -> pstep s (CloseIdle g) = Some s' -> PInv s'.
Proof.
  intros s g s' I H. unfold pstep in H. inversion H; subst; clear H.
  set (mine := filter (in_group s g) (idle s)).
  set (rest := filter (fun c => negb (in_group s g c)) (idle s)).
  set (s1 := add_gclosed (set_idle s rest) g).
  destruct (close_all_fields mine s1) as [Fr [Fi [Fg Fn]]].
  assert (Hother : forall c, ~ In c mine -> cn (close_all s1 mine) c = cn s c).
  { intros c N. rewrite close_all_other by exact N. reflexivity. }
  assert (Hrest : forall c, In c rest -> ~ In c mine).
  { intros c X Y. apply filter_In in X. apply filter_In in Y.
    destruct X as [_ X]. destruct Y as [_ Y]. rewrite Y in X. discriminate. }
  assert (Hmine : forall c, In c mine -> In c (idle s)).
  { intros c X. apply filter_In in X. tauto. }
  constructor.
  - rewrite Fi. cbn. apply filter_nodup. apply (p_nodup s I).
  - intros c X. rewrite Fi in X. cbn in X. rewrite Fn. cbn.
    rewrite Hother by (apply Hrest; exact X).
    apply (p_idle s I). apply filter_In in X. tauto.
  - intros r c X. unfold rq in X. rewrite Fr in X. cbn in X.
    destruct (p_hold s I r c X) as [A [B C]].
    rewrite Hother by (intros Y; apply B, Hmine, Y). rewrite Fi, Fn. cbn.
    repeat split; auto. intros Y. apply B. apply filter_In in Y. tauto.
  - intros r r' c X Y. unfold rq in X, Y. rewrite Fr in X, Y. cbn in X, Y.
    eapply (p_excl s I); eauto.
  - intros c X. rewrite Fn in X. cbn in X.
    rewrite Hother; [apply (p_fresh s I); exact X|].
    intros Y. apply Hmine in Y. destruct (p_idle s I c Y) as [_ Z]. lia.
  - intros c X. destruct (close_all_cn mine s1 c) as [E|E]; rewrite E in *.
    + apply (p_ok s I). exact X.
    + cbn in X. exfalso. apply X. reflexivity.
Qed.

Definition done_ {A : Type} (x : A) : Prop := True.

Ltac inst1 Pi Ph Pf :=
  repeat match goal with
  | X : In ?c (idle _) |- _ =>
    lazymatch goal with _ : done_ X |- _ => fail | _ => idtac end;
    pose proof (Pi c X); assert (done_ X) by exact Logic.I
  | X : qph (lookupG req0 _ ?r) = QHold ?c |- _ =>
    lazymatch goal with _ : done_ X |- _ => fail | _ => idtac end;
    pose proof (Ph r c X); assert (done_ X) by exact Logic.I
  | X : (nconn _ <= ?c)%nat |- _ =>
    lazymatch goal with _ : done_ X |- _ => fail | _ => idtac end;
    pose proof (Pf c X); assert (done_ X) by exact Logic.I
  end.

Ltac fin2 Pi Ph Pf Pe :=
  inst1 Pi Ph Pf;
  repeat match goal with E : lookupG conn0 _ _ = conn0 |- _ => rewrite E in *; cbn in * end;
  try (intuition (try congruence; try lia); fail);
  try (eapply Pe; eauto; fail).

Lemma PInv_step : forall s l s', PInv s -> pstep s l = Some s' -> PInv s'.
Proof.
  intros s l s' I H. destruct l; try (eapply PInv_closeidle; eauto; fail).
  all: pose proof (p_nodup s I) as N; pose proof (p_idle s I) as Pi; pose proof (p_hold s I) as Ph;
       pose proof (p_excl s I) as Pe; pose proof (p_fresh s I) as Pf; pose proof (p_ok s I) as Po.
  all: pstep_inv H.
  all: try match goal with E : pop_group _ _ _ = Some _ |- _ =>
         apply pop_group_spec in E; destruct E as [Pa [Pb [Pc Pd]]]; destruct (Pd N) as [Pd1 Pd2] end.
  all: constructor; unf; intros; case_eqb; simp_p; try congruence; try lia; eauto.
  all: try match goal with Pb : (forall x, In x ?l -> In x (idle _)), X : In ?c ?l |- _ => pose proof (Pb c X) end.
  all: fin2 Pi Ph Pf Pe.
  all: try (apply Po; congruence).
  all: try (apply Pf; lia).
  all: try match goal with X : mem _ _ = true |- _ => apply mem_true in X end.
  all: try match goal with |- context [remove_cid ?c ?l] =>
         destruct (remove_cid_spec c l) as [Ra [Rb Rc]]
       | _ : context [remove_cid ?c ?l] |- _ =>
         destruct (remove_cid_spec c l) as [Ra [Rb Rc]] end.
  all: try (apply Rc; assumption).
  all: try match goal with X : In ?c (remove_cid _ _) |- _ => pose proof (Rb c X) end.
  all: try (constructor; [intros X; destruct (Pi _ X); first [congruence|lia] | assumption]).
  all: fin2 Pi Ph Pf Pe.
  all: repeat match goal with X : QHold _ = QHold _ |- _ => injection X as X; try subst end.
  all: cbn [In] in *.
  all: inst1 Pi Ph Pf.
  all: try (intuition (try congruence; try lia;
        try match goal with Pb : (forall x, In x ?l -> In x (idle _)), X : In ?c ?l |- _ => apply Pb in X; contradiction end;
        try match goal with X : In ?c (idle _) |- _ => destruct (Pi c X); first [congruence|lia] end); fail).
  all: try (exfalso; match goal with E : ?r <> ?r0 |- _ => apply E; eapply Pe; eauto end; fail).
  all: try (split; auto; match goal with |- (?c < nconn ?s)%nat =>
         destruct (le_lt_dec (nconn s) c) as [L|L]; [rewrite (Pf c L) in *; cbn in *; congruence|assumption] end).
  all: try contradiction.
Qed.

Lemma PInv_run : forall ls s, prun pinit ls = Some s -> PInv s.
Proof. intros ls s H. eapply (pinv_run PInv); [|exact PInv_init|exact H]. intros; eapply PInv_step; eauto. Qed.
