(* Proofs/DRFBridge.v — C10: from the type-level discipline check on extracted access
   facts to the instance-level lockset condition, and (with DRFSound) to race freedom
   of every conforming trace. *)
From Coq Require Import List Arith Bool String Relations.
From KV Require Import Model.DRF Proofs.DRFSound.
Import ListNotations.

Lemma lmode_eqb_eq : forall a b, lmode_eqb a b = true -> a = b.
Proof. intros [] [] H; try reflexivity; discriminate. Qed.

Lemma has_lock_In : forall l m ls, has_lock l m ls = true -> In (l, m) ls.
Proof.
  intros l m ls H. unfold has_lock in H.
  apply existsb_exists in H. destruct H as [[l' m'] [Hin H]].
  cbn [fst snd] in H. apply andb_true_iff in H. destruct H as [H1 H2].
  apply String.eqb_eq in H1. apply lmode_eqb_eq in H2. subst. exact Hin.
Qed.

Lemma discipline_fact_ok : forall facts pol f,
  discipline_ok facts pol = true -> In f facts -> fact_ok pol f = true.
Proof.
  intros facts pol f H Hin. unfold discipline_ok in H.
  rewrite forallb_forall in H. auto.
Qed.

Lemma without_discipline : forall exc facts pol,
  discipline_ok (without exc facts) pol = true ->
  forall f, In f facts -> is_exception exc f = false -> fact_ok pol f = true.
Proof.
  intros exc facts pol H f Hin Hex.
  apply (discipline_fact_ok _ _ _ H).
  unfold without. apply filter_In. split; [exact Hin|]. rewrite Hex. reflexivity.
Qed.

Theorem discipline_respects : forall facts pol field_of lock_inst tr,
  discipline_ok facts pol = true -> conforms facts field_of lock_inst tr ->
  respects (ipol pol field_of lock_inst) tr.
Proof.
  intros facts pol field_of lock_inst tr Hok Hconf i t a x Hev Hacc.
  destruct (Hconf i t a x Hev Hacc) as [f [Hin [Hfresh [Hfield [Hkind Hlocks]]]]].
  pose proof (discipline_fact_ok _ _ _ Hok Hin) as Hf.
  unfold ipol. rewrite <- Hfield. cbn [fst snd].
  unfold fact_ok in Hf.
  destruct (lookup pol (a_type f) (a_field f)) as [pr|]; [|discriminate].
  unfold access_ok in Hf. rewrite Hfresh in Hf.
  destruct pr as [l|l| | |c| | |l| | ]; try exact I.
  - (* GuardedBy *)
    destruct (a_kind f); try discriminate;
      apply has_lock_In in Hf; exact (Hlocks _ _ Hf).
  - (* RGuardedBy *)
    destruct (a_kind f) eqn:Ek; try discriminate.
    + apply orb_true_iff in Hf. destruct Hf as [Hf|Hf]; apply has_lock_In in Hf.
      * left. exact (Hlocks _ _ Hf).
      * right. split; [|exact (Hlocks _ _ Hf)].
        destruct a; try discriminate; reflexivity.
    + left. apply has_lock_In in Hf. exact (Hlocks _ _ Hf).
    + left. apply has_lock_In in Hf. exact (Hlocks _ _ Hf).
    + left. apply has_lock_In in Hf. exact (Hlocks _ _ Hf).
  - (* AtomicOnly *)
    destruct (a_kind f) eqn:Ek; try discriminate.
    destruct a; try discriminate; reflexivity.
  - (* ImmutableAfterPublish: the cell itself is only accessed atomically *)
    destruct (a_kind f) eqn:Ek; try discriminate.
    destruct a; try discriminate; reflexivity.
Qed.

Theorem discipline_sound : forall facts pol field_of lock_inst tr,
  discipline_ok facts pol = true -> wf_locks tr -> conforms facts field_of lock_inst tr ->
  forall x, ipol pol field_of lock_inst x <> IOther -> ~ race_on tr x.
Proof.
  intros facts pol field_of lock_inst tr Hok Hwf Hconf.
  apply lockset_sound; [exact Hwf|].
  eapply discipline_respects; eauto.
Qed.
