(* Proofs/ReaderWrap.v — C02, L1: a compressed v0 / v1 wrapper message: its header, the
   decompression of its value into a new frame on the reader stack, the base offset computed by
   extractOffset from the (relative or absolute) offsets of the inner messages. *)
From Coq Require Import List NArith ZArith Bool Lia.
From Coq Require Import ZifyN ZifyNat ZifyBool.
From KV Require Import Lib.Bits Lib.Bytes Lib.Varint Model.MsgSetReader Model.ReaderModel Spec.FetchSpec
  Proofs.ReaderPrim Proofs.ReaderV2 Proofs.ReaderV1 Proofs.ReaderV1Run.
Import ListNotations.
Open Scope Z_scope.

(* the inner messages carry offsets relative to d *)
Definition shiftr (d : Z) (r : record) : record :=
  mkRec (r_off r - d) (r_ts r) (r_key r) (r_val r) (r_hdrs r).
Definition wire (d : Z) (it : item) : item := (fst it, shiftr d (snd it)).

(* ---------------------------------------------------------------- extractOffset *)
Definition mbody (fmt : Z) (r : record) : list N :=
  i32 0 ++ i8 fmt ++ i8 0 ++ (if fmt =? 1 then i64 (r_ts r) else []) ++ b32 (r_key r) ++ b32 (r_val r).

Lemma enc_item_split (it : item) :
  enc_item it = i64 (r_off (snd it)) ++ i32 (msize (fst it) (snd it)) ++ mbody (fst it) (snd it)
  /\ len (mbody (fst it) (snd it)) = msize (fst it) (snd it).
Proof.
  unfold enc_item, mh, mb, mbody, msize. split; [|reflexivity].
  destruct (fst it =? 1); rewrite <- ?app_assoc, ?app_nil_r; reflexivity.
Qed.

Lemma stream_nonempty it t : 0 < len (stream (it :: t)).
Proof.
  unfold stream. cbn [flat_map]. destruct (enc_item_split it) as [E _]. rewrite E, !len_app.
  unfold i64. rewrite put_bes_len. pose proof (len_nonneg (i32 (msize (fst it) (snd it)) ++ mbody (fst it) (snd it))).
  pose proof (len_nonneg (flat_map enc_item t)). rewrite len_app in H. lia.
Qed.

Lemma extract_last_stream : forall witems fuel last,
  Forall item_ok witems -> (length witems < fuel)%nat ->
  extract_last fuel (ex (stream witems)) last = inl (Some (last_off (recs_of witems) last)).
Proof.
  induction witems as [|it t IH]; intros fuel last Hok Hf.
  - destruct fuel as [|f]; [lia|]. reflexivity.
  - destruct fuel as [|f]; [cbn [length] in Hf; lia|]. apply Forall_cons_iff in Hok as [Hit Hok].
    cbn [extract_last]. pose proof (stream_nonempty it t). unfold ex at 1. cbn [snd].
    replace (len (stream (it :: t)) <=? 0) with false by lia.
    pose proof (msize_bound (fst it) (snd it) Hit) as Hs. destruct Hit as (_ & Ho & _). unfold small in Ho.
    destruct (enc_item_split it) as [E El].
    change (stream (it :: t)) with (enc_item it ++ stream t). rewrite E, <- !app_assoc.
    fold (ex (i64 (r_off (snd it)) ++ i32 (msize (fst it) (snd it)) ++ mbody (fst it) (snd it) ++ stream t)).
    rewrite (pspec_int 8 (r_off (snd it))) by (try lia; apply sg8; lia).
    rewrite (pspec_int 4 (msize (fst it) (snd it))) by (try lia; apply sg4; lia).
    unfold p_discard, ex. rewrite len_app, El. pose proof (len_nonneg (stream t)).
    replace (msize (fst it) (snd it) <=? msize (fst it) (snd it) + len (stream t)) with true by lia.
    replace (msize (fst it) (snd it) <? 0) with false by lia.
    replace (msize (fst it) (snd it) + len (stream t) <? msize (fst it) (snd it)) with false by lia.
    rewrite <- El, zdrop_app.
    replace (len (mbody (fst it) (snd it)) + len (stream t) - len (mbody (fst it) (snd it))) with (len (stream t)) by lia.
    fold (ex (stream t)). rewrite (IH f (r_off (snd it)) Hok) by (cbn [length] in Hf; lia). reflexivity.
Qed.

(* ---------------------------------------------------------------- the wrapper header *)
Definition wh (fmt codec W ts size : Z) : list N :=
  i64 W ++ i32 size ++ i32 0 ++ i8 fmt ++ i8 codec ++ (if fmt =? 1 then i64 ts ++ [] else []).
Definition whdr (fmt codec W ts size : Z) : hdr :=
  mkHdr W size fmt codec (if fmt =? 1 then ts else 0) 0 0.

Definition wh_fits (fmt codec W ts size : Z) : Prop :=
  (fmt = 0 \/ fmt = 1) /\ 1 <= codec <= 4 /\ small W /\ small ts /\ 0 <= size < 2 ^ 31.

Lemma wheader_ok fmt codec W ts size rest c h lr el :
  wh_fits fmt codec W ts size ->
  read_next_header (st (wh fmt codec W ts size ++ rest) c h lr el) = MOk tt (st rest 1 (whdr fmt codec W ts size) 1 el).
Proof.
  intros (Hfmt & Hc & Ho & Ht & Hs).
  unfold read_next_header, wh. rewrite <- !app_assoc.
  rewrite (step_st _ _ (i64 W) W) by int_spec.
  rewrite (step_st _ _ (i32 size) size) by int_spec.
  rewrite (step_st _ _ (i32 0) 0) by int_spec.
  destruct Hfmt as [-> | ->].
  - rewrite (step_st _ _ (i8 0) 0) by int_spec. cbn [Z.eqb Pos.eqb].
    rewrite (step_st _ _ (i8 codec) codec) by int_spec. cbn [app].
    reflexivity.
  - rewrite (step_st _ _ (i8 1) 1) by int_spec. cbn [Z.eqb Pos.eqb].
    rewrite (step_st _ _ (i8 codec) codec) by int_spec. rewrite <- app_assoc.
    rewrite (step_st _ _ (i64 ts) ts) by int_spec. cbn [app].
    reflexivity.
Qed.

Lemma wh_len fmt codec W ts size : (fmt = 0 \/ fmt = 1) -> len (wh fmt codec W ts size) = if fmt =? 1 then 26 else 18.
Proof.
  intros [-> | ->]; unfold wh; cbn [Z.eqb Pos.eqb]; rewrite !len_app; unfold i64, i32, i8; rewrite !put_bes_len; reflexivity.
Qed.

Lemma wheader_short fmt codec W ts size q q' c h lr el :
  wh_fits fmt codec W ts size -> wh fmt codec W ts size = q ++ q' -> q' <> [] ->
  exists i', read_next_header (st q c h lr el) = MErr EShort (st i' c h lr el).
Proof.
  intros (Hfmt & Hc & Ho & Ht & Hs) He Hq.
  eapply (mshort_st read_next_header (wh fmt codec W ts size)); [|exact He|exact Hq].
  unfold read_next_header, wh.
  apply mshort_bind with (v1 := W); [int_spec|int_short|].
  apply mshort_bind with (v1 := size); [int_spec|int_short|].
  apply mshort_bind with (v1 := 0); [int_spec|int_short|].
  destruct Hfmt as [-> | ->].
  - apply mshort_bind with (v1 := 0); [int_spec|int_short|]. cbn [Z.eqb Pos.eqb].
    apply mshort_bind with (v1 := codec); [int_spec|int_short|]. apply mshort_nil.
  - apply mshort_bind with (v1 := 1); [int_spec|int_short|]. cbn [Z.eqb Pos.eqb].
    apply mshort_bind with (v1 := codec); [int_spec|int_short|].
    apply mshort_bind with (v1 := ts); [int_spec|int_short|]. apply mshort_nil.
Qed.

(* ---------------------------------------------------------------- entering the wrapper *)
Lemma pspec_discard4 z : pspec (p_discard 4) (i32 z) tt.
Proof.
  intros rest. unfold p_discard, ex. rewrite len_app, i32_len. pose proof (len_nonneg rest).
  replace (4 <=? 4 + len rest) with true by lia. replace (4 <? 0) with false by lia.
  replace (4 + len rest <? 4) with false by lia.
  replace 4 with (len (i32 z)) at 1 by apply i32_len. rewrite zdrop_app. f_equal. f_equal. lia.
Qed.

Lemma pshort_discard4 z : pshort (p_discard 4) (i32 z).
Proof.
  intros q q' He Hq. assert (Hl : len q < 4).
  { apply (f_equal len) in He. rewrite len_app, i32_len in He. pose proof (len_pos q' Hq). lia. }
  unfold p_discard, ex. pose proof (len_nonneg q).
  replace (4 <=? len q) with false by lia. replace (len q <? 0) with false by lia.
  replace (len q <? len q) with false by lia. rewrite zdrop_all. exists []. reflexivity.
Qed.

Lemma land7' c : 1 <= c <= 4 -> Z.land c 7 = c.
Proof. intros H. assert (c = 1 \/ c = 2 \/ c = 3 \/ c = 4) as [-> | [-> | [-> | ->]]] by lia; reflexivity. Qed.

Lemma stream_length_ge witems : (length witems <= length (stream witems))%nat.
Proof.
  induction witems as [|it t IH]; [cbn; lia|].
  pose proof (stream_nonempty it []) as H. change (stream (it :: t)) with (enc_item it ++ stream t).
  change (stream [it]) with (enc_item it ++ []) in H. rewrite app_nil_r in H. unfold len in H.
  rewrite app_length. cbn [length]. lia.
Qed.

Section Enter.
Variable compress : Z -> list N -> list N.
Variable decomp : Z -> list N -> option (list N).
Hypothesis decomp_law : forall c x, decomp c (compress c x) = Some x.

(* the bytes after the wrapper's header: the null key, the value length, the compressed set *)
Definition wtail (codec : Z) (witems : list item) : list N :=
  i32 (-1) ++ i32 (len (compress codec (stream witems))) ++ compress codec (stream witems) ++ [].

Definition pushed (fmt codec W ts size : Z) (witems : list item) (R : list N) (el : Z) : msr :=
  mkMsr [mkFrame (stream witems) (len (stream witems)) (wrap64 (W - last_off (recs_of witems) 0)) 0 hdr0;
         mkFrame R (len R) 0 0 (whdr fmt codec W ts size)] false 1 el.

Lemma codec_whdr fmt codec W ts size m :
  (fmt = 0 \/ fmt = 1) -> 1 <= codec <= 4 -> codec_of (whdr fmt codec W ts size) m = MOk (Some codec) m.
Proof.
  intros Hf Hc. unfold codec_of, whdr. cbn [h_magic h_attr]. rewrite land7' by exact Hc.
  replace (codec =? 0) with false by lia. replace ((1 <=? codec) && (codec <=? 4)) with true by lia.
  destruct Hf as [-> | ->]; reflexivity.
Qed.

Lemma wrapper_enter again mn fmt codec W ts size witems R el :
  wh_fits fmt codec W ts size -> Forall item_ok witems ->
  len (compress codec (stream witems)) < 2 ^ 30 ->
  v1_body decomp again mn (st (wtail codec witems ++ R) 1 (whdr fmt codec W ts size) 1 el)
  = again (pushed fmt codec W ts size witems R el).
Proof.
  intros (Hfmt & Hc & Ho & Ht & Hs) Hok Hlen. pose proof (len_nonneg (compress codec (stream witems))) as HC0.
  unfold v1_body. rewrite top_st. cbv zeta. cbn [f_hdr].
  unfold bind at 1. rewrite codec_whdr by assumption.
  unfold wtail. rewrite <- !app_assoc.
  rewrite (step_st _ _ (i32 (-1)) tt) by (apply mspec_lift, pspec_discard4).
  rewrite (step_st _ _ (i32 (len (compress codec (stream witems)))) (len (compress codec (stream witems))))
    by (apply mspec_lift, pspec_int; [lia|apply sg4; lia]).
  rewrite top_st. cbn [f_remain app]. rewrite len_app. pose proof (len_nonneg R).
  replace (len (compress codec (stream witems)) + len R <? len (compress codec (stream witems))) with false by lia.
  unfold bind at 1, ret at 1.
  unfold bind at 1. unfold lift at 1. cbn [m_stack st f_in f_remain]. unfold p_decompress.
  replace (len (compress codec (stream witems)) <? 0) with false by lia. rewrite len_app.
  replace (len (compress codec (stream witems)) + len R <? len (compress codec (stream witems))) with false by lia.
  rewrite ztake_app, zdrop_app, decomp_law.
  unfold bind at 1. unfold extract_offset.
  change (stream witems, len (stream witems)) with (ex (stream witems)).
  rewrite (extract_last_stream witems (S (length (stream witems))) 0 Hok)
    by (pose proof (stream_length_ge witems); lia).
  unfold ret at 1. unfold bind at 1, mark_read.
  cbn [m_stack set_stack set_rd fst snd f_count f_in f_remain f_base f_hdr unwind m_empty m_lrem m_elast st]. cbn [Z.eqb].
  unfold bind at 1. cbn [m_stack set_stack m_empty m_lrem m_elast whdr h_first].
  unfold pushed. f_equal. unfold set_stack, st. cbn [m_stack m_empty m_lrem m_elast].
  repeat f_equal; lia.
Qed.

Lemma wrapper_short again mn fmt codec W ts size witems q q' el :
  wh_fits fmt codec W ts size -> len (compress codec (stream witems)) < 2 ^ 30 ->
  wtail codec witems = q ++ q' -> q' <> [] ->
  ended el (v1_body decomp again mn (st q 1 (whdr fmt codec W ts size) 1 el)).
Proof.
  intros (Hfmt & Hc & Ho & Ht & Hs) Hlen He Hq. pose proof (len_nonneg (compress codec (stream witems))) as HC0.
  unfold v1_body. rewrite top_st. cbv zeta. cbn [f_hdr].
  unfold bind at 1. rewrite codec_whdr by assumption.
  set (C := compress codec (stream witems)) in *.
  unfold wtail in He. fold C in He.
  destruct (prefix_split _ _ _ _ He) as [(r & H1 & H2 & H3)|(q2 & H1 & H2)].
  - (* inside the key length *)
    destruct (mshort_st (lift (p_discard 4)) (i32 (-1)) q r 1 (whdr fmt codec W ts size) 1 el
                (mshort_lift _ _ (pshort_discard4 (-1))) H1 H2) as [i' Hi'].
    unfold bind at 1. rewrite Hi'. apply (ended_st decomp).
  - subst q. rewrite (step_st _ _ (i32 (-1)) tt) by (apply mspec_lift, pspec_discard4).
    destruct (prefix_split _ _ _ _ H2) as [(r & H3 & H4 & H5)|(q3 & H3 & H4)].
    + (* inside the value length *)
      destruct (mshort_st (lift (p_int 4)) (i32 (len C)) q2 r 1 (whdr fmt codec W ts size) 1 el
                  (mshort_lift _ _ (pshort_int 4 _ (i32_len _))) H3 H4) as [i' Hi'].
      unfold bind at 1. rewrite Hi'. apply (ended_st decomp).
    + (* the compressed set is cut *)
      subst q2. rewrite (step_st _ _ (i32 (len C)) (len C)) by (apply mspec_lift, pspec_int; [lia|apply sg4; lia]).
      rewrite top_st. cbn [f_remain].
      assert (Hl : len q3 < len C).
      { apply (f_equal len) in H4. rewrite app_nil_r, len_app in H4. pose proof (len_pos q' Hq). lia. }
      replace (len q3 <? len C) with true by lia. unfold bind at 1, fail. apply (ended_st decomp).
Qed.

End Enter.
