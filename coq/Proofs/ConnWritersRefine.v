(* Proofs/ConnWritersRefine.v — every frame a hand-written Conn writer produces is the frame
   [Schema.write_request] produces for the grammar the translator regenerates from /repo's
   protocol package for that (api key, version), applied to the value built from the same
   arguments. *)
From Coq Require Import List NArith ZArith Bool Lia.
From Coq Require Import ZifyN ZifyNat ZifyBool.
From KV Require Import Lib.Bits Lib.Bytes Lib.Varint Spec.RecordFormat Model.Records Model.ConnWriters
  Model.Schema Gen.Schemas Proofs.BitsLemmas Proofs.RecordsCodec Proofs.SchemaBase Proofs.SchemaDefs Proofs.SchemaEqns
  Proofs.ConnWritersSize Proofs.ConnWritersDefs.
Import ListNotations.
Open Scope Z_scope.

(* ------------------------------------------------------------------ the regenerated schema table *)
Lemma lookup_creq_ty r :
  lookup_schema schemas false (creq_key r) (creq_ver r) = Some (false, creq_ty true r).
Proof. destruct r; try destruct v; vm_compute; reflexivity. Qed.

Lemma conn_view_ty r : conn_view r (creq_ty true r) = creq_ty false r.
Proof. destruct r; try destruct v; reflexivity. Qed.

(* ------------------------------------------------------------------ primitives *)
Lemma enc_int w z : encode false (TInt w) (VInt z) = Some (put_bes w z).
Proof. reflexivity. Qed.
Lemma enc_bool b : encode false TBool (VBool b) = Some (w_bool b).
Proof. destruct b; reflexivity. Qed.
Lemma enc_str (s : gostr) : encode false (TString false) (VString s) = Some (w_string s).
Proof. reflexivity. Qed.
Lemma enc_nstr nl (s : gostr) : (nl = true -> nonempty s = true) -> encode false (TString nl) (VString s) = Some (w_string s).
Proof.
  intros H. destruct nl; [|reflexivity]. destruct s as [|x s]; [specialize (H eq_refl); discriminate|reflexivity].
Qed.
Lemma enc_bytes b : encode false (TBytes false) (VBytes b) = Some (w_non_null_bytes b).
Proof. destruct b; reflexivity. Qed.
Lemma enc_marker : encode false TMarker VUnit = Some []. Proof. reflexivity. Qed.
Lemma enc_records raw b : encode false (TRecords raw) (VRecords b) = Some b. Proof. reflexivity. Qed.

Lemma enc_fields_cons E t ts v vs :
  enc_fields E (t :: ts) (v :: vs) =
  match E t v, enc_fields E ts vs with Some bx, Some br => Some (bx ++ br) | _, _ => None end.
Proof. reflexivity. Qed.
Lemma enc_fields_nil E : enc_fields E [] [] = Some []. Proof. reflexivity. Qed.

(* a struct without tagged fields, in a non-flexible message *)
Lemma enc_struct fields vs : encode false (TStruct fields []) (vstruct vs) = enc_fields (encode false) fields vs.
Proof.
  unfold vstruct. rewrite encode_struct_eq. change (enc_tags (encode false) [] []) with (Some (0%N, @nil N)).
  destruct (enc_fields (encode false) fields vs); reflexivity.
Qed.

Lemma enc_list_map {A} (E : value -> option (list N)) (g : A -> value) (f : A -> list N) l :
  (forall x, In x l -> E (g x) = Some (f x)) -> enc_list E (map g l) = Some (concat (map f l)).
Proof.
  induction l as [|x l IH]; intros H; [reflexivity|].
  cbn [map concat]. change (enc_list E (g x :: map g l)) with
    (match E (g x), enc_list E (map g l) with Some bx, Some br => Some (bx ++ br) | _, _ => None end).
  rewrite H by (left; reflexivity). rewrite IH by (intros y Hy; apply H; right; exact Hy). reflexivity.
Qed.

(* writeArray over the elements = the ARRAY of the grammar *)
Lemma enc_varr {A} nullable esize elem (g : A -> value) (f : A -> list N) l :
  (forall x, In x l -> encode false elem (g x) = Some (f x)) ->
  encode false (TArray nullable esize elem) (varr g l) = Some (w_array f l).
Proof.
  intros H. unfold varr. rewrite encode_array_eq. cbn [negb N.eqb].
  cbv zeta. rewrite (enc_list_map _ g f l H).
  rewrite andb_false_r. unfold w_array, w_array_len, w_int32, enc_i32, lenZ, zlen. rewrite map_length. reflexivity.
Qed.
(* an explicit list of elements *)
Lemma enc_arr1 nullable esize elem v b :
  encode false elem v = Some b ->
  encode false (TArray nullable esize elem) (VArray (Some [v]) 0) = Some (w_array_len 1 ++ b).
Proof.
  intros H. rewrite encode_array_eq. cbn [negb N.eqb]. cbv zeta.
  change (enc_list (encode false elem) [v]) with
    (match encode false elem v with Some bx => Some (bx ++ []) | None => None end).
  rewrite H, andb_false_r, app_nil_r. reflexivity.
Qed.
Lemma enc_arr0 nullable esize elem :
  encode false (TArray nullable esize elem) (VArray (Some []) 0) = Some (w_array_len 0).
Proof. rewrite encode_array_eq. cbn [negb N.eqb]. cbv zeta. rewrite andb_false_r. reflexivity. Qed.
Lemma enc_arr_null esize elem :
  encode false (TArray true esize elem) (VArray None 0) = Some (w_array_len (-1)).
Proof. reflexivity. Qed.

(* rewriting machinery: unfold a struct into its fields, encode the fields, flatten *)
Ltac enc_fields_go :=
  repeat (rewrite enc_fields_cons); rewrite enc_fields_nil.
Ltac enc_prims :=
  rewrite ?enc_int, ?enc_bool, ?enc_str, ?enc_bytes, ?enc_marker, ?enc_records.
Ltac flat := cbv beta iota; rewrite ?app_nil_r, <- ?app_assoc.

(* ------------------------------------------------------------------ sub-structures *)
Lemma enc_name_bytes (p : gostr * obytes) :
  encode false (TStruct [TString false; TBytes false] []) (v_name_bytes p) = Some (sb_write p).
Proof. unfold v_name_bytes, sb_write. rewrite enc_struct. enc_fields_go. enc_prims. flat. reflexivity. Qed.
Lemma enc_name_bytes_arr l : encode false t_name_bytes (varr v_name_bytes l) = Some (w_array sb_write l).
Proof. apply enc_varr. intros x _. apply enc_name_bytes. Qed.

Lemma enc_varr_int nullable esize l :
  encode false (TArray nullable esize (TInt 4)) (varr VInt l) = Some (w_int32_array l).
Proof. apply enc_varr. intros x _. reflexivity. Qed.
Lemma enc_varr_str nullable esize l :
  encode false (TArray nullable esize (TString false)) (varr VString l) = Some (w_string_array l).
Proof. apply enc_varr. intros x _. reflexivity. Qed.

Lemma enc_commit_partition nl (p : Z * Z * gostr) : (nl = true -> nonempty (snd p) = true) ->
  encode false (TStruct [TInt 4; TInt 8; TString nl] []) (v_commit_partition p) = Some (ocp_write p).
Proof.
  intros H. unfold v_commit_partition, ocp_write. rewrite enc_struct. enc_fields_go.
  rewrite (enc_nstr nl _ H). enc_prims. flat. reflexivity.
Qed.
Lemma enc_commit_topic nl (t : gostr * list (Z * Z * gostr)) :
  (nl = true -> forallb (fun p : Z * Z * gostr => nonempty (snd p)) (snd t) = true) ->
  encode false (TStruct [TString false; TArray false 48 (TStruct [TInt 4; TInt 8; TString nl] [])] [])
         (v_commit_topic t) = Some (oct_write t).
Proof.
  intros H. unfold v_commit_topic, oct_write. rewrite enc_struct. enc_fields_go.
  rewrite (enc_varr _ _ _ v_commit_partition ocp_write).
  - enc_prims. flat. reflexivity.
  - intros p Hp. apply enc_commit_partition. intros E. specialize (H E).
    rewrite forallb_forall in H. apply H, Hp.
Qed.

Lemma enc_fetch_topic (t : gostr * list Z) :
  encode false (TStruct [TString false; TArray false 4 (TInt 4)] []) (v_fetch_topic t) = Some (oft_write t).
Proof. unfold v_fetch_topic, oft_write. rewrite enc_struct. enc_fields_go. rewrite enc_varr_int. enc_prims. flat. reflexivity. Qed.

Lemma enc_ct_assignment (a : Z * list Z) :
  encode false (TStruct [TInt 4; TArray false 4 (TInt 4)] []) (v_ct_assignment a) = Some (cta_write a).
Proof.
  unfold v_ct_assignment, cta_write. rewrite enc_struct. enc_fields_go. rewrite enc_varr_int. enc_prims. flat.
  reflexivity.
Qed.
Lemma enc_ct_config nl (e : gostr * gostr) : (nl = true -> nonempty (snd e) = true) ->
  encode false (TStruct [TString false; TString nl] []) (v_ct_config e) = Some (cte_write e).
Proof.
  intros H. unfold v_ct_config, cte_write. rewrite enc_struct. enc_fields_go.
  rewrite (enc_nstr nl _ H). enc_prims. flat. reflexivity.
Qed.
Lemma enc_ct_topic nl (t : ct_topic) :
  (nl = true -> forallb (fun e : gostr * gostr => nonempty (snd e)) (ct_configs t) = true) ->
  encode false (TStruct [TString false; TInt 4; TInt 2;
                         TArray false 32 (TStruct [TInt 4; TArray false 4 (TInt 4)] []);
                         TArray false 32 (TStruct [TString false; TString nl] [])] [])
         (v_ct_topic t) = Some (ctt_write t).
Proof.
  intros H. unfold v_ct_topic, ctt_write. rewrite enc_struct. enc_fields_go.
  rewrite (enc_varr _ _ _ v_ct_assignment cta_write) by (intros a _; apply enc_ct_assignment).
  rewrite (enc_varr _ _ _ v_ct_config cte_write).
  - enc_prims. flat. reflexivity.
  - intros e He. apply enc_ct_config. intros E. specialize (H E). rewrite forallb_forall in H. apply H, He.
Qed.

(* one topic with one partition: writeArrayLen(1) writeString(topic) writeArrayLen(1) fields *)
Lemma enc_one e1 e2 topic pfields pvals b :
  enc_fields (encode false) pfields pvals = Some b ->
  encode false (TArray false e1 (TStruct [TString false; TArray false e2 (TStruct pfields [])] []))
         (v_one topic pvals)
  = Some (w_array_len 1 ++ w_string topic ++ w_array_len 1 ++ b).
Proof.
  intros H. unfold v_one. apply enc_arr1. rewrite enc_struct. enc_fields_go.
  rewrite (enc_arr1 _ _ _ _ b) by (rewrite enc_struct; exact H).
  enc_prims. flat. reflexivity.
Qed.

(* ------------------------------------------------------------------ every request *)
Theorem creq_encode nl r :
  creq_txid_ok r = true -> (nl = true -> creq_strs_ok r = true) ->
  encode false (creq_ty nl r) (creq_value r) = Some (creq_body r).
Proof.
  intros Htx Hs. destruct r; cbn [creq_ty creq_value creq_body]; unfold t_one.
  - (* produce *)
    unfold produce_body. destruct v; cbn [app]; rewrite enc_struct; enc_fields_go.
    + rewrite (enc_one _ _ _ _ _ (w_int32 partition ++ produce_set_write PV2 cz m0 rest))
        by (enc_fields_go; enc_prims; flat; reflexivity).
      enc_prims. flat. reflexivity.
    + rewrite (enc_one _ _ _ _ _ (w_int32 partition ++ produce_set_write PV3 cz m0 rest))
        by (enc_fields_go; enc_prims; flat; reflexivity).
      assert (Hn : encode false (TString true) (vnstr txid) = Some (w_nullable_string txid)).
      { destruct txid as [s|]; [|reflexivity]. cbn [creq_txid_ok] in Htx. unfold vnstr.
        destruct s; [discriminate|reflexivity]. }
      rewrite Hn. enc_prims. flat. reflexivity.
    + rewrite (enc_one _ _ _ _ _ (w_int32 partition ++ produce_set_write PV7 cz m0 rest))
        by (enc_fields_go; enc_prims; flat; reflexivity).
      assert (Hn : encode false (TString true) (vnstr txid) = Some (w_nullable_string txid)).
      { destruct txid as [s|]; [|reflexivity]. cbn [creq_txid_ok] in Htx. unfold vnstr.
        destruct s; [discriminate|reflexivity]. }
      rewrite Hn. enc_prims. flat. reflexivity.
  - (* fetch *)
    destruct v; cbn [creq_ty creq_value fetch_body]; unfold t_one; rewrite enc_struct; enc_fields_go.
    + rewrite (enc_one _ _ _ _ _ (w_int32 partition ++ w_int64 offset ++ w_int32 max_bytes))
        by (enc_fields_go; enc_prims; flat; reflexivity).
      enc_prims. flat. reflexivity.
    + rewrite (enc_one _ _ _ _ _ (w_int32 partition ++ w_int64 offset ++ w_int64 0 ++ w_int32 max_bytes))
        by (enc_fields_go; enc_prims; flat; reflexivity).
      enc_prims. flat. reflexivity.
    + rewrite (enc_one _ _ _ _ _ (w_int32 partition ++ w_int32 (-1) ++ w_int64 offset ++ w_int64 0 ++ w_int32 max_bytes))
        by (enc_fields_go; enc_prims; flat; reflexivity).
      rewrite enc_arr0. enc_prims. flat. reflexivity.
  - (* list offsets *)
    unfold list_offsets_body. rewrite enc_struct. enc_fields_go.
    rewrite (enc_one _ _ _ _ _ (w_int32 partition ++ w_int64 time))
      by (enc_fields_go; enc_prims; flat; reflexivity).
    enc_prims. flat. reflexivity.
  - (* api versions *) reflexivity.
  - (* metadata *)
    assert (Ht : encode false (TArray true 16 (TString nl))
                        (VArray (match topics with None => None | Some l => Some (map VString l) end) 0)
                 = Some (match topics with None => w_array_len (-1) | Some l => w_string_array l end)).
    { destruct topics as [l|]; [|apply enc_arr_null].
      apply (enc_varr true 16 (TString nl) VString w_string l). intros x Hx. apply enc_nstr. intros E.
      specialize (Hs E). cbn [creq_strs_ok] in Hs. rewrite forallb_forall in Hs. apply Hs, Hx. }
    destruct v; rewrite enc_struct; enc_fields_go; rewrite Ht; enc_prims; flat; reflexivity.
  - (* find coordinator *) rewrite enc_struct. enc_fields_go. enc_prims. flat. reflexivity.
  - (* join group *)
    rewrite enc_struct. enc_fields_go. rewrite enc_name_bytes_arr. enc_prims. flat. reflexivity.
  - (* sync group *)
    rewrite enc_struct. enc_fields_go. rewrite enc_name_bytes_arr. enc_prims. flat. reflexivity.
  - (* heartbeat *) rewrite enc_struct. enc_fields_go. enc_prims. flat. reflexivity.
  - (* leave group *) rewrite enc_struct. enc_fields_go. enc_prims. flat. reflexivity.
  - (* offset commit *)
    rewrite enc_struct. enc_fields_go.
    rewrite (enc_varr _ _ _ v_commit_topic oct_write).
    + enc_prims. flat. reflexivity.
    + intros t Ht. apply enc_commit_topic. intros E. specialize (Hs E). cbn [creq_strs_ok] in Hs.
      rewrite forallb_forall in Hs. apply Hs, Ht.
  - (* offset fetch *)
    rewrite enc_struct. enc_fields_go.
    rewrite (enc_varr _ _ _ v_fetch_topic oft_write) by (intros t _; apply enc_fetch_topic).
    enc_prims. flat. reflexivity.
  - (* list groups *) reflexivity.
  - (* create topics *)
    assert (Ht : encode false
                   (TArray false 72 (TStruct [TString false; TInt 4; TInt 2;
                                              TArray false 32 (TStruct [TInt 4; TArray false 4 (TInt 4)] []);
                                              TArray false 32 (TStruct [TString false; TString nl] [])] []))
                   (varr v_ct_topic topics) = Some (w_array ctt_write topics)).
    { apply enc_varr. intros t Ht. apply enc_ct_topic. intros E. specialize (Hs E). cbn [creq_strs_ok] in Hs.
      rewrite forallb_forall in Hs. apply Hs, Ht. }
    destruct v; rewrite enc_struct; enc_fields_go; rewrite Ht; enc_prims; flat; reflexivity.
  - (* delete topics *)
    rewrite enc_struct. enc_fields_go. rewrite enc_varr_str. enc_prims. flat. reflexivity.
  - (* sasl handshake *) rewrite enc_struct. enc_fields_go. enc_prims. flat. reflexivity.
  - (* sasl authenticate *) rewrite enc_struct. enc_fields_go. enc_prims. flat. reflexivity.
Qed.

(* ------------------------------------------------------------------ frames *)
Lemma N_of_nat_mod_M32 n : Z.to_N (Z.of_nat n mod ZM32) = (N.of_nat n mod M32)%N.
Proof.
  unfold ZM32, M32.
  pose proof (Z.mod_pos_bound (Z.of_nat n) 4294967296 ltac:(lia)).
  pose proof (N.mod_lt (N.of_nat n) 4294967296 ltac:(lia)).
  apply N2Z.inj. rewrite Z2N.id by lia. rewrite N2Z.inj_mod by lia. rewrite nat_N_Z. reflexivity.
Qed.

(* the Conn's size prefix (int32 of the pre-computed size) is the prefix [Schema.frame] puts
   (uint32 of the number of bytes): for all lengths *)
Lemma conn_frame_is_frame corr client r :
  conn_frame corr client r = frame (frame_rest corr client r).
Proof.
  rewrite conn_frame_split. unfold frame. f_equal.
  rewrite put_bes4_wrap32. unfold put_bes, zlen. change (Z.of_N (pow256 4)) with ZM32.
  rewrite N_of_nat_mod_M32. reflexivity.
Qed.

Theorem conn_frame_refines nl corr client r :
  creq_txid_ok r = true -> (nl = true -> creq_strs_ok r = true) ->
  write_request false (creq_ty nl r) (creq_key r) (creq_ver r) corr client (creq_value r)
  = Some (conn_frame corr client r).
Proof.
  intros Htx Hs. unfold write_request. rewrite (creq_encode nl r Htx Hs).
  rewrite conn_frame_is_frame. reflexivity.
Qed.

(* the statement for the regenerated schema table *)
Theorem conn_canonical corr client r :
  creq_canon_ok r = true ->
  exists t, lookup_schema schemas false (creq_key r) (creq_ver r) = Some (false, t) /\
    write_request false t (creq_key r) (creq_ver r) corr client (creq_value r)
    = Some (conn_frame corr client r).
Proof.
  intros H. unfold creq_canon_ok in H. apply andb_prop in H as [Htx Hs].
  exists (creq_ty true r). split; [apply lookup_creq_ty|].
  apply conn_frame_refines; [exact Htx|intros _; exact Hs].
Qed.

(* with empty strings in nullable-string positions: the same grammar, those strings non-null *)
Theorem conn_canonical_nonnull_strings corr client r :
  creq_txid_ok r = true ->
  exists t, lookup_schema schemas false (creq_key r) (creq_ver r) = Some (false, t) /\
    write_request false (conn_view r t) (creq_key r) (creq_ver r) corr client (creq_value r)
    = Some (conn_frame corr client r).
Proof.
  intros Htx. exists (creq_ty true r). split; [apply lookup_creq_ty|].
  rewrite conn_view_ty. apply conn_frame_refines; [exact Htx|discriminate].
Qed.

(* the header: api key, version, correlation id, client id at the offsets of the grammar *)
Theorem conn_header_fields corr client r :
  conn_frame corr client r =
  frame (enc_i16 (creq_key r) ++ enc_i16 (creq_ver r) ++ enc_i32 corr ++
         (enc_i16 (lenZ client) ++ client) ++ creq_body r).
Proof. rewrite conn_frame_is_frame. reflexivity. Qed.

(* Conn: the transactional id comes from emptyToNullable *)
Lemma empty_to_nullable_ok s v cz acks timeout topic partition m0 rest :
  creq_txid_ok (QProduce v cz (empty_to_nullable s) acks timeout topic partition m0 rest) = true.
Proof. destruct s; reflexivity. Qed.
