(* Proofs/QueriesReadParts.v — Conn.ReadPartitions: the request that goes out for every
   shape of the argument, and the result against a broker holding a cluster. *)
From Coq Require Import List NArith ZArith Bool.
From Coq Require Import Sorting.Permutation.
From KV Require Import Lib.Bits Model.Queries Proofs.QueriesSpec Proofs.QueriesSeekMap Proofs.QueriesMerge.
Import ListNotations.
Open Scope Z_scope.

Lemma read_partitions_request_exact : forall ct arg,
  read_partitions_request ct arg = topics_asked ct arg.
Proof.
  intros ct arg. unfold read_partitions_request, topics_asked, arg_topics.
  destruct arg as [l|]; [destruct l|]; destruct ct; reflexivity.
Qed.

(* no topic named by the caller or the connection: all topics, whatever the nil-ness *)
Lemma read_partitions_asks_all : forall arg,
  arg_topics arg = [] -> read_partitions_request [] arg = None.
Proof.
  intros arg H. rewrite read_partitions_request_exact. unfold topics_asked. rewrite H. reflexivity.
Qed.

Lemma read_partitions_call_exact : forall v6 ct arg cluster,
  let topics := topics_of_cluster cluster (topics_asked ct arg) in
  read_partitions_call v6 ct arg cluster =
  match find (rp_topic_fails ct) topics with
  | Some t => PartsErr (mt_error t)
  | None => PartsOk (flat_map (fun t => map (rp_part v6 (md_brokers cluster) (mt_name t)) (mt_parts t)) topics)
  end.
Proof.
  intros v6 ct arg cluster topics. unfold read_partitions_call.
  rewrite read_partitions_exact, read_partitions_request_exact.
  unfold broker_metadata_answer, topics, topics_of_cluster; cbn [md_topics md_brokers].
  destruct (topics_asked ct arg); reflexivity.
Qed.

(* in particular on a connection without topic and a call naming none: every partition
   of the cluster (or the error of its first failing topic) *)
Lemma read_partitions_all_topics : forall v6 arg cluster,
  arg_topics arg = [] ->
  read_partitions_call v6 [] arg cluster =
  match find (fun t => negb (mt_error t =? 0)) (md_topics cluster) with
  | Some t => PartsErr (mt_error t)
  | None => PartsOk (flat_map (fun t => map (rp_part v6 (md_brokers cluster) (mt_name t)) (mt_parts t)) (md_topics cluster))
  end.
Proof.
  intros v6 arg cluster H. rewrite read_partitions_call_exact.
  unfold topics_asked. rewrite H. cbn [topics_of_cluster].
  assert (E : forall ts, find (rp_topic_fails []) ts = find (fun t => negb (mt_error t =? 0)) ts).
  { induction ts as [|t r IH]; [reflexivity|]. cbn [find]. unfold rp_topic_fails at 1.
    cbn [str_eqb]. rewrite orb_true_l, andb_true_r. rewrite IH. reflexivity. }
  rewrite E. reflexivity.
Qed.

(* ---- Client.roundTrip: the cluster a query is answered by ---- *)
Lemma client_round_trip_exact : forall (A Q R : Type) (transport : A -> Q -> R) req_addr client_addr q,
  client_round_trip transport req_addr client_addr q =
  option_map (fun a => transport a q) (effective_addr req_addr client_addr).
Proof. intros. destruct req_addr, client_addr; reflexivity. Qed.

Lemma client_round_trip_request_addr : forall (A Q R : Type) (transport : A -> Q -> R) a client_addr q,
  client_round_trip transport (Some a) client_addr q = Some (transport a q).
Proof. reflexivity. Qed.

Lemma client_round_trip_no_addr : forall (A Q R : Type) (transport : A -> Q -> R) q,
  client_round_trip transport None None q = None.
Proof. reflexivity. Qed.

(* composed with a user-level mapping f (metadata_map, offsetfetch_map, ...): the API
   result is f of the answer of the cluster at the effective address *)
Lemma client_query_exact : forall (A Q R U : Type) (transport : A -> Q -> R) (f : R -> U) req_addr client_addr q,
  option_map f (client_round_trip transport req_addr client_addr q) =
  match effective_addr req_addr client_addr with
  | Some a => Some (f (transport a q))
  | None => None
  end.
Proof. intros. destruct req_addr, client_addr; reflexivity. Qed.

(* ---- transport.go join / await: tied to the Merge theorems ---- *)
Lemma await_results_of : forall outcome_of rep iso es,
  await_all (send_of outcome_of) (map (sub_request rep iso) es) = results_of es (map outcome_of es).
Proof.
  intros outcome_of rep iso es. unfold await_all, results_of.
  induction es as [|e es IH]; [reflexivity|].
  cbn [map combine]. rewrite IH. f_equal.
  destruct e as [t p]. reflexivity.
Qed.

Lemma split_round_trip_merge : forall outcome_of r,
  split_round_trip (send_of outcome_of) r =
  listoffsets_merge (listoffsets_split r) (results_of (req_entries r) (map outcome_of (req_entries r))).
Proof.
  intros. unfold split_round_trip. rewrite split_exact at 2. rewrite await_results_of. reflexivity.
Qed.

Lemma split_round_trip_exact : forall outcome_of r,
  existsb is_answer (map outcome_of (req_entries r)) = true \/ req_entries r = [] ->
  exists resp,
    split_round_trip (send_of outcome_of) r = MergeOk resp /\
    Permutation (resp_entries (r_topics resp)) (expected_entries (req_entries r) (map outcome_of (req_entries r))) /\
    r_throttle resp = max_throttle (map outcome_of (req_entries r)) /\
    merged_sorted (r_topics resp).
Proof.
  intros outcome_of r H. rewrite split_round_trip_merge.
  apply listoffsets_exact.
  - apply map_length.
  - destruct H as [H|H]; [left; exact H|right; rewrite H; reflexivity].
Qed.

Lemma split_round_trip_all_failed : forall outcome_of r,
  req_entries r <> [] -> existsb is_answer (map outcome_of (req_entries r)) = false ->
  split_round_trip (send_of outcome_of) r = MergeErr (first_error (map outcome_of (req_entries r))).
Proof.
  intros outcome_of r Hne H. rewrite split_round_trip_merge.
  apply listoffsets_all_failed.
  - apply map_length.
  - intro E. apply Hne. destruct (req_entries r); [reflexivity|discriminate E].
  - exact H.
Qed.

(* ---- fan-out mergers (ListGroups, DescribeGroups, DescribeConfigs): no silent drop ---- *)
Lemma concat_merge_from_spec : forall (A : Type) (results : list (part_result A)) acc,
  match concat_merge_from results acc with
  | FanOk l => exists parts, results = map PartOk parts /\ l = acc ++ concat parts
  | FanErr e => exists pre rest, results = map PartOk pre ++ PartErr e :: rest
  end.
Proof.
  intros A results. induction results as [|r rs IH]; intro acc.
  - cbn. exists []. split; [reflexivity|]. cbn. rewrite app_nil_r. reflexivity.
  - destruct r as [l|e]; cbn [concat_merge_from].
    + specialize (IH (acc ++ l)). destruct (concat_merge_from rs (acc ++ l)) as [items|e].
      * destruct IH as [parts [H1 H2]]. exists (l :: parts). split.
        { cbn. rewrite H1. reflexivity. }
        { cbn. rewrite H2, app_assoc. reflexivity. }
      * destruct IH as [pre [rest H]]. exists (l :: pre), rest. cbn. rewrite H. reflexivity.
    + exists [], rs. reflexivity.
Qed.

(* every requested part is in the result, or the call carries the error of a failed part *)
Lemma fanout_no_silent_drop : forall (A : Type) (results : list (part_result A)),
  match concat_merge results with
  | FanOk l => exists parts, results = map PartOk parts /\ l = concat parts
  | FanErr e => exists pre rest, results = map PartOk pre ++ PartErr e :: rest
  end.
Proof.
  intros A results. unfold concat_merge.
  pose proof (concat_merge_from_spec A results []) as H.
  destruct (concat_merge_from results []); exact H.
Qed.

Lemma listgroups_no_silent_drop : forall (A : Type) (brokers : list Z) (results : list (part_result A)),
  length brokers = length results ->
  match listgroups_merge brokers results with
  | FanOk l => exists parts, results = map PartOk parts /\
                 l = concat (map (fun bp => map (fun g => (g, fst bp)) (snd bp)) (combine brokers parts))
  | FanErr e => In (PartErr e) results
  end.
Proof.
  intros A brokers results. unfold listgroups_merge, concat_merge.
  assert (G : forall acc, length brokers = length results ->
    match concat_merge_from (map (fun br => label_part (fst br) (snd br)) (combine brokers results)) acc with
    | FanOk l => exists parts, results = map PartOk parts /\
                   l = acc ++ concat (map (fun bp => map (fun g => (g, fst bp)) (snd bp)) (combine brokers parts))
    | FanErr e => In (PartErr e) results
    end).
  { revert results. induction brokers as [|b bs IH]; intros results acc Hl.
    - destruct results; [|discriminate Hl]. cbn. exists []. split; [reflexivity|]. cbn. rewrite app_nil_r. reflexivity.
    - destruct results as [|r rs]; [discriminate Hl|]. injection Hl as Hl.
      cbn [combine map fst snd]. destruct r as [l|e]; cbn [label_part concat_merge_from].
      + specialize (IH rs (acc ++ map (fun g => (g, b)) l) Hl).
        destruct (concat_merge_from _ _) as [items|e].
        * destruct IH as [parts [H1 H2]]. exists (l :: parts). split.
          { cbn. rewrite H1. reflexivity. }
          { cbn [combine map concat fst snd]. rewrite H2, app_assoc. reflexivity. }
        * right. exact IH.
      + left. reflexivity. }
  intro Hl. specialize (G [] Hl). exact G.
Qed.
