(* Proofs/GroupBalancersRR.v — RoundRobinGroupBalancer: residue classes *)
From Coq Require Import List NArith ZArith Bool Arith Lia Permutation.
From KV Require Import Model.GroupBalancers Proofs.GroupBalancersBase Proofs.GroupBalancersRange.
Import ListNotations.

Lemma select_from_nth keep s l d :
  select_from keep s l = map (fun j => nth (j - s) l d) (filter keep (seq s (length l))).
Proof.
  revert s. induction l as [|p t IH]; intros s; cbn [select_from length seq filter]; [reflexivity|].
  assert (E : map (fun j => nth (j - S s) t d) (filter keep (seq (S s) (length t))) =
              map (fun j => nth (j - s) (p :: t) d) (filter keep (seq (S s) (length t)))).
  { apply map_ext_in. intros j Hj. apply filter_In in Hj. destruct Hj as [Hj _].
    apply in_seq in Hj. replace (j - s) with (S (j - S s)) by lia. reflexivity. }
  destruct (keep s); cbn [map]; rewrite IH, E; [rewrite Nat.sub_diag|]; reflexivity.
Qed.

(* ---- every element lands in exactly one class ---- *)
Lemma filter_lt_S {A} (f : A -> nat) n l :
  Permutation (filter (fun a => f a <? n) l ++ filter (fun a => f a =? n) l)
              (filter (fun a => f a <? S n) l).
Proof.
  induction l as [|a l IH]; cbn [filter app]; [constructor|].
  destruct (Nat.ltb_spec (f a) n), (Nat.eqb_spec (f a) n), (Nat.ltb_spec (f a) (S n)); try lia.
  - cbn [app]. constructor. exact IH.
  - apply Permutation_sym, Permutation_cons_app, Permutation_sym. exact IH.
  - exact IH.
Qed.

Lemma classes_perm_lt {A} (f : A -> nat) n l :
  Permutation (flat_map (fun i => filter (fun a => f a =? i) l) (seq 0 n))
              (filter (fun a => f a <? n) l).
Proof.
  induction n as [|n IH].
  - cbn [seq flat_map]. induction l as [|a l IHl]; cbn [filter]; [constructor|exact IHl].
  - rewrite seq_S, flat_map_app. cbn [flat_map plus]. rewrite app_nil_r, IH.
    apply filter_lt_S.
Qed.

Lemma classes_perm {A} (f : A -> nat) n l : (forall a, In a l -> f a < n) ->
  Permutation (flat_map (fun i => filter (fun a => f a =? i) l) (seq 0 n)) l.
Proof.
  intros H. rewrite classes_perm_lt.
  replace (filter (fun a => f a <? n) l) with l; [reflexivity|].
  induction l as [|a l IH]; cbn [filter]; [reflexivity|].
  destruct (Nat.ltb_spec (f a) n) as [_|Hge]; [|specialize (H a (or_introl eq_refl)); lia].
  f_equal. apply IH. intros; apply H; right; assumption.
Qed.

Lemma flat_map_map_out {A B C} (g : B -> C) (h : A -> list B) l :
  flat_map (fun i => map g (h i)) l = map g (flat_map h l).
Proof.
  induction l as [|a l IH]; cbn [flat_map]; [reflexivity|]. rewrite map_app, IH. reflexivity.
Qed.

Definition rr_sel (parts : list Z) (mc i : nat) : list Z :=
  select_from (fun j => j mod mc =? i) 0 parts.

Lemma rr_sel_all parts mc : 0 < mc -> Permutation (flat_map (rr_sel parts mc) (seq 0 mc)) parts.
Proof.
  intros H. unfold rr_sel.
  erewrite flat_map_ext; [|intros i; apply (select_from_nth _ 0 parts 0%Z)].
  rewrite (flat_map_map_out (fun j => nth (j - 0) parts 0%Z)
             (fun i => filter (fun j => j mod mc =? i) (seq 0 (length parts)))).
  rewrite (classes_perm (fun j => j mod mc) mc) by (intros; apply Nat.mod_upper_bound; lia).
  replace (map (fun j => nth (j - 0) parts 0%Z) (seq 0 (length parts))) with parts; [reflexivity|].
  clear. induction parts as [|p t IH] using rev_ind; [reflexivity|].
  rewrite app_length, seq_app, map_app. cbn [length seq map plus].
  replace (map (fun j => nth (j - 0) (t ++ [p]) 0%Z) (seq 0 (length t)))
    with (map (fun j => nth (j - 0) t 0%Z) (seq 0 (length t))).
  - rewrite <- IH. f_equal. rewrite Nat.sub_0_r, app_nth2 by lia. rewrite Nat.sub_diag. reflexivity.
  - apply map_ext_in. intros j Hj. apply in_seq in Hj. rewrite app_nth1 by lia. reflexivity.
Qed.

(* ---- the class of i is i, i+M, i+2M, ... ---- *)
Definition rr_count (P M i : nat) : nat := (P + M - 1 - i) / M.

Lemma rr_count_hit P M i : i < M -> P mod M = i ->
  rr_count (S P) M i = S (rr_count P M i) /\ P = i + rr_count P M i * M.
Proof.
  intros Hi Hm. unfold rr_count.
  pose proof (Nat.div_mod_eq P M) as E. rewrite Hm in E. set (q := P / M) in *.
  assert (E1 : (P + M - 1 - i) / M = q).
  { symmetry. apply Nat.div_unique with (M - 1); [lia|nia]. }
  assert (E2 : (S P + M - 1 - i) / M = S q).
  { symmetry. apply Nat.div_unique with 0; [lia|nia]. }
  rewrite E1, E2. split; [reflexivity|nia].
Qed.

Lemma rr_count_miss P M i : i < M -> P mod M <> i -> rr_count (S P) M i = rr_count P M i.
Proof.
  intros Hi Hm. unfold rr_count.
  pose proof (Nat.div_mod_eq P M) as E.
  pose proof (Nat.mod_upper_bound P M ltac:(lia)) as B.
  set (q := P / M) in *. set (r := P mod M) in *.
  destruct (Nat.lt_ge_cases r i).
  - assert (E1 : (P + M - 1 - i) / M = q).
    { symmetry. apply Nat.div_unique with (r + M - 1 - i); [lia|nia]. }
    assert (E2 : (S P + M - 1 - i) / M = q).
    { symmetry. apply Nat.div_unique with (r + M - i); [lia|nia]. }
    congruence.
  - assert (E1 : (P + M - 1 - i) / M = S q).
    { symmetry. apply Nat.div_unique with (r - 1 - i); [lia|nia]. }
    assert (E2 : (S P + M - 1 - i) / M = S q).
    { symmetry. apply Nat.div_unique with (r - i); [lia|nia]. }
    congruence.
Qed.

Lemma rr_class_seq P M i : i < M ->
  filter (fun j => j mod M =? i) (seq 0 P) = map (fun n => i + n * M) (seq 0 (rr_count P M i)).
Proof.
  intros Hi. induction P as [|P IH].
  - unfold rr_count. cbn [seq filter plus]. rewrite Nat.div_small by lia. reflexivity.
  - rewrite seq_S, filter_app, IH. cbn [filter plus].
    destruct (Nat.eqb_spec (P mod M) i) as [E|N].
    + destruct (rr_count_hit P M i Hi E) as [E1 E2]. rewrite E1, seq_S, map_app.
      cbn [map plus]. rewrite <- E2. reflexivity.
    + rewrite (rr_count_miss P M i Hi N), app_nil_r. reflexivity.
Qed.

Lemma rr_sel_kth parts mc i : i < mc ->
  rr_sel parts mc i =
  map (fun n => nth (i + n * mc) parts 0%Z) (seq 0 (rr_count (length parts) mc i)).
Proof.
  intros Hi. unfold rr_sel. rewrite (select_from_nth _ 0 parts 0%Z).
  rewrite rr_class_seq by exact Hi. rewrite map_map.
  apply map_ext. intros n. rewrite Nat.sub_0_r. reflexivity.
Qed.

Lemma rr_count_bounds P M i : i < M -> P / M <= rr_count P M i <= P / M + 1.
Proof.
  intros Hi. unfold rr_count. split.
  - apply Nat.div_le_mono; lia.
  - pose proof (Nat.div_mod_eq P M) as E.
    pose proof (Nat.mod_upper_bound P M ltac:(lia)) as B.
    set (q := P / M) in *. set (r := P mod M) in *.
    transitivity ((M * (q + 1) + (M - 1)) / M).
    + apply Nat.div_le_mono; [lia|nia].
    + apply Nat.eq_le_incl. symmetry. apply Nat.div_unique with (M - 1); [lia|reflexivity].
Qed.

Lemma rr_sel_len parts mc i : i < mc ->
  length parts / mc <= length (rr_sel parts mc i) <= length parts / mc + 1.
Proof.
  intros Hi. rewrite rr_sel_kth by exact Hi. rewrite map_length, seq_length.
  apply rr_count_bounds. exact Hi.
Qed.

Lemma rr_assign_ib ms ps : rr_assign ms ps = ib_assign rr_sel ms ps.
Proof.
  unfold rr_assign, ib_assign, lift, ib_topic. apply flat_map_ext.
  intros [k l]. reflexivity.
Qed.
