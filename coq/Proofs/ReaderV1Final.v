(* Proofs/ReaderV1Final.v — C02, L1, stage 2: the fetch contract for responses made of
   uncompressed v0 / v1 messages, for every fetch offset and every legal cut. *)
From Coq Require Import List NArith ZArith Bool Lia.
From Coq Require Import ZifyN ZifyNat ZifyBool.
From KV Require Import Lib.Bits Lib.Bytes Model.MsgSetReader Model.ReaderModel Spec.FetchSpec
  Proofs.ReaderPrim Proofs.ReaderV2 Proofs.ReaderV1 Proofs.ReaderV1Run Proofs.ReaderV2Final Proofs.ReaderProofs.
Import ListNotations.
Open Scope Z_scope.

Definition items_of (b : pbatch) : list item := map (fun r => (pb_fmt b, r)) (pb_recs b).
Definition all_items (bs : list pbatch) : list item := flat_map items_of bs.

Definition legacy_ok (b : pbatch) : Prop :=
  (pb_fmt b = 0 \/ pb_fmt b = 1) /\ pb_codec b = 0 /\ Forall (msg_fits (pb_fmt b)) (pb_recs b).

Lemma enc_legacy_stream compress b : legacy_ok b -> enc_batch compress b = stream (items_of b).
Proof.
  intros (Hf & Hc & _). unfold enc_batch, enc_legacy.
  replace (pb_fmt b =? 2) with false by lia. rewrite Hc. cbn [Z.eqb].
  unfold stream, items_of. induction (pb_recs b) as [|r t IH]; [reflexivity|].
  cbn [flat_map map]. rewrite IH. f_equal. unfold enc_item. cbn [fst snd]. apply enc_message_eq.
Qed.

Lemma stream_app a b : stream (a ++ b) = stream a ++ stream b.
Proof. apply flat_map_app. Qed.

Lemma encs_stream compress bs : Forall legacy_ok bs -> flat_map (enc_batch compress) bs = stream (all_items bs).
Proof.
  induction bs as [|b t IH]; intros H; [reflexivity|]. apply Forall_cons_iff in H as [Hb H].
  cbn [flat_map all_items]. fold (all_items t). rewrite stream_app, IH by exact H. f_equal.
  apply enc_legacy_stream, Hb.
Qed.

Lemma recs_of_items bs : recs_of (all_items bs) = flat_map pb_recs bs.
Proof.
  induction bs as [|b t IH]; [reflexivity|]. cbn [all_items flat_map]. fold (all_items t).
  unfold recs_of in *. rewrite map_app. f_equal; [|exact IH].
  unfold items_of. rewrite map_map. cbn [snd]. apply map_id.
Qed.

Lemma items_ok bs : Forall legacy_ok bs -> Forall item_ok (all_items bs).
Proof.
  induction bs as [|b t IH]; intros H; [constructor|]. apply Forall_cons_iff in H as [(Hf & _ & Hm) H].
  cbn [all_items flat_map]. apply Forall_app. split; [|apply IH, H].
  unfold items_of. apply Forall_forall. intros it Hit. apply in_map_iff in Hit as (r & <- & Hr).
  unfold item_ok. cbn [fst snd]. apply (proj1 (Forall_forall _ _) Hm r Hr).
Qed.

Lemma last_off_max : forall rs lo d r, increasing lo rs -> In r rs -> r_off r <= last_off rs d.
Proof.
  induction rs as [|x t IH]; intros lo d r Hi Hr; [destruct Hr|].
  destruct Hi as [H1 H2]. cbn [last_off]. destruct Hr as [->|Hr].
  - destruct t as [|y t']; [cbn; lia|].
    pose proof (IH _ (r_off r) y H2 (or_introl eq_refl)). destruct H2 as [H2 _]. lia.
  - apply (IH _ _ r H2 Hr).
Qed.

Lemma pre_below_legacy o : forall pre lo,
  Forall legacy_ok pre -> Forall (fun b => pb_last b < o) pre -> increasing lo (flat_map pb_recs pre) ->
  Forall (fun r => r_off r < o) (flat_map pb_recs pre).
Proof.
  induction pre as [|b t IH]; intros lo Hl Hp Hi; [constructor|].
  apply Forall_cons_iff in Hl as [(Hf & _) Hl]. apply Forall_cons_iff in Hp as [Hpb Hp].
  cbn [flat_map] in *. apply Forall_app. split.
  - pose proof (increasing_app_l _ _ _ Hi) as Hib. unfold pb_last in Hpb.
    replace (pb_fmt b =? 2) with false in Hpb by lia.
    apply Forall_forall. intros r Hr. pose proof (last_off_max _ _ (pb_base b + pb_lod b) r Hib Hr). lia.
  - destruct (increasing_app_r _ _ _ Hi) as [lo2 Hi2]. apply (IH lo2 Hl Hp Hi2).
Qed.

Section Final.
Variable compress : Z -> list N -> list N.
Variable decomp : Z -> list N -> option (list N).

Theorem batch_decode_exact_legacy_uncompressed_full log l o k hwm :
  log_ok log -> layout_ok log l -> Forall legacy_ok l -> 0 <= o ->
  from_offset l o <> [] -> valid_cut compress l o k -> hwm <> o ->
  forall fuel, (length (all_items (from_offset l o)) + 4 <= fuel)%nat ->
  exists ms f,
    fetch_run decomp fuel o hwm (fetch_response compress l o k) (Z.of_nat k) false = Some (ms, EEOF, f)
    /\ fetch_ok log o ms f /\ ms <> [].
Proof.
  intros (Hlog1 & Hlog2) (Hrecs & Hpb & Hranges) Hleg Ho0 Hne Hcut Hhwm fuel Hfuel.
  destruct (from_offset_split l o) as (pre & Hsplit & Hpre).
  set (bs := from_offset l o) in *.
  destruct bs as [|b1 bs'] eqn:Ebs; [contradiction|].
  assert (Hleg_bs : Forall legacy_ok (b1 :: bs')) by (rewrite Hsplit in Hleg; apply Forall_app in Hleg; apply Hleg).
  assert (Hleg_pre : Forall legacy_ok pre) by (rewrite Hsplit in Hleg; apply Forall_app in Hleg; apply Hleg).
  assert (Hpb_bs : Forall pbatch_ok (b1 :: bs')) by (rewrite Hsplit in Hpb; apply Forall_app in Hpb; apply Hpb).
  assert (Hlogsplit : log = flat_map pb_recs pre ++ flat_map pb_recs (b1 :: bs')).
  { rewrite <- Hrecs. unfold layout_records. rewrite Hsplit at 1. apply flat_map_app. }
  (* the first batch has a record *)
  pose proof (Forall_inv Hleg_bs) as (Hf1 & Hc1 & Hm1).
  pose proof (Forall_inv Hpb_bs) as (_ & _ & _ & _ & _ & _ & Hne1 & _).
  specialize (Hne1 ltac:(lia)).
  destruct (pb_recs b1) as [|r1 rs1] eqn:Er1; [contradiction|].
  set (it1 := (pb_fmt b1, r1)).
  assert (Hitems : all_items (b1 :: bs') = it1 :: (map (fun r => (pb_fmt b1, r)) rs1 ++ all_items bs')).
  { cbn [all_items flat_map]. unfold items_of at 1. rewrite Er1. reflexivity. }
  set (rest := map (fun r => (pb_fmt b1, r)) rs1 ++ all_items bs') in *.
  pose proof (items_ok (b1 :: bs') Hleg_bs) as Hiok. rewrite Hitems in Hiok.
  apply Forall_cons_iff in Hiok as [Hok1 Hokr].
  (* the bytes *)
  unfold fetch_response, fetch_bytes, enc_layout. fold bs. rewrite Ebs.
  rewrite (encs_stream compress (b1 :: bs') Hleg_bs), Hitems.
  unfold valid_cut in Hcut. fold bs in Hcut. rewrite Ebs in Hcut.
  unfold fetch_bytes, enc_layout in Hcut. fold bs in Hcut. rewrite Ebs in Hcut.
  rewrite (encs_stream compress (b1 :: bs') Hleg_bs), Hitems in Hcut.
  rewrite (enc_legacy_stream compress b1 (Forall_inv Hleg_bs)) in Hcut.
  destruct Hcut as [Hk1 Hk2].
  pose proof (mh_pos decomp [] it1 Hok1) as Hmh.
  assert (Hkmh : len (mh (fst it1) (snd it1)) <= Z.of_nat k).
  { unfold items_of in Hk1. rewrite Er1 in Hk1. cbn [map stream flat_map] in Hk1. unfold enc_item in Hk1.
    cbn [fst snd] in Hk1. rewrite !app_length in Hk1. unfold len, it1. cbn [fst snd]. lia. }
  rewrite <- ztake_firstn.
  set (j0 := Z.of_nat k - len (mh (fst it1) (snd it1))).
  assert (Hlenk : len (ztake (Z.of_nat k) (stream (it1 :: rest))) = Z.of_nat k).
  { rewrite ztake_firstn. unfold len. rewrite firstn_length. lia. }
  assert (Hstart : fetch_run decomp fuel o hwm (ztake (Z.of_nat k) (stream (it1 :: rest))) (Z.of_nat k) false
                   = batch_run decomp fuel (LB [] o (PIn it1 rest j0) o) []).
  { unfold fetch_run, new_batch. replace (hwm =? o) with false by lia.
    unfold new_msr. rewrite <- Hlenk at 2.
    change (mkMsr [mkFrame ?i (len ?i) 0 0 hdr0] false 0 (-1)) with (st i 0 hdr0 0 (-1)).
    rewrite <- (app_nil_r (stream (it1 :: rest))). rewrite (stream_cons []), ztake_ge by lia.
    rewrite (mheader_ok (fst it1) (snd it1) _ 0 hdr0 0 (-1) Hok1). reflexivity. }
  rewrite Hstart.
  assert (Hpos : pos_ok1 (PIn it1 rest j0)) by (cbn [pos_ok1]; split; [exact Hok1|split; [exact Hokr|unfold j0; lia]]).
  assert (Hcnt : (pcount (PIn it1 rest j0) + 3 <= fuel)%nat).
  { cbn [pcount]. rewrite Hitems in Hfuel. cbn [length] in Hfuel. lia. }
  assert (Hpend : pend (PIn it1 rest j0) = flat_map pb_recs (b1 :: bs')).
  { cbn [pend]. rewrite <- recs_of_items, Hitems. reflexivity. }
  assert (HI : linv [] o (PIn it1 rest j0) o).
  { split; [exact Ho0|]. split; [lia|]. rewrite app_nil_r, Hpend. split.
    - rewrite Hlogsplit in Hlog2. apply (increasing_app_r _ _ _ Hlog2).
    - split; [|intros r _ H; exact H].
      intros _. (* the first batch reaches o, everything later is above *)
      assert (Hlast1 : o <= pb_last b1).
      { unfold bs in Ebs. clear -Ebs. induction l as [|b t IH]; [discriminate|].
        cbn [from_offset] in Ebs. destruct (pb_last b <? o) eqn:E; [apply IH; exact Ebs|].
        injection Ebs as <- _. lia. }
      unfold pb_last in Hlast1. replace (pb_fmt b1 =? 2) with false in Hlast1 by lia. rewrite Er1 in Hlast1.
      assert (Hinc : exists lo, increasing lo (flat_map pb_recs (b1 :: bs')))
        by (rewrite Hlogsplit in Hlog2; apply (increasing_app_r _ _ _ Hlog2)).
      destruct Hinc as [lo Hinc]. cbn [flat_map] in *. rewrite Er1 in *.
      destruct (last_off_in ((r1 :: rs1) ++ flat_map pb_recs bs') 0 ltac:(discriminate)) as (rl & Hrl & Hel).
      rewrite <- Hel.
      destruct (last_off_in (r1 :: rs1) (pb_base b1 + pb_lod b1) ltac:(discriminate)) as (r0 & Hr0 & He0).
      rewrite <- He0 in Hlast1.
      pose proof (last_off_max _ _ 0 r0 Hinc (in_or_app _ _ r0 (or_introl Hr0))). lia. }
  (* progress: the first batch is whole and its last record is at or after o *)
  assert (Hwit : exists r, In r (r1 :: rs1) /\ o <= r_off r).
  { assert (Hlast1 : o <= pb_last b1).
    { unfold bs in Ebs. clear -Ebs. induction l as [|b t IH]; [discriminate|].
      cbn [from_offset] in Ebs. destruct (pb_last b <? o) eqn:E; [apply IH; exact Ebs|].
      injection Ebs as <- _. lia. }
    unfold pb_last in Hlast1. replace (pb_fmt b1 =? 2) with false in Hlast1 by lia. rewrite Er1 in Hlast1.
    destruct (last_off_in (r1 :: rs1) (pb_base b1 + pb_lod b1) ltac:(discriminate)) as (r0 & Hr0 & He0).
    exists r0. split; [exact Hr0|lia]. }
  assert (Hfirst : exists it' items' j', lstep o (PIn it1 rest j0) = LDeliver it' items' j').
  { cbn [lstep]. apply (lg_read_delivers decomp [] o rest it1 j0 (length rs1)).
    - unfold rest. rewrite firstn_app, firstn_all2 by (rewrite map_length; lia).
      rewrite map_length, Nat.sub_diag. cbn [firstn]. rewrite app_nil_r.
      unfold items_of in Hk1. rewrite Er1 in Hk1. cbn [map] in Hk1.
      change (stream ((pb_fmt b1, r1) :: map (fun r => (pb_fmt b1, r)) rs1))
        with (enc_item it1 ++ stream (map (fun r => (pb_fmt b1, r)) rs1)) in Hk1.
      unfold enc_item in Hk1. rewrite !app_length in Hk1. unfold j0, len. lia.
    - unfold rest. rewrite firstn_app, firstn_all2 by (rewrite map_length; lia).
      rewrite map_length, Nat.sub_diag. cbn [firstn]. rewrite app_nil_r.
      destruct Hwit as (r & Hr & Hge). exists r. split; [|exact Hge].
      unfold recs_of. rewrite map_map. cbn [snd]. rewrite map_id. exact Hr. }
  destruct Hfirst as (itf & itemsf & jf & Hfirst).
  pose proof (run_refine_v1 decomp [] [] o fuel (PIn it1 rest j0) o [] Hpos HI Hcnt) as Href.
  pose proof (l_run_spec decomp [] [] o fuel (PIn it1 rest j0) o [] HI) as Hspec.
  assert (Hne0 : match l_run fuel (PIn it1 rest j0) o [] with
                 | LDone ms x => ms <> [] | LGo _ _ _ acc' _ => acc' <> [] | LFail => True end).
  { destruct fuel as [|f0]; [lia|]. apply (l_run_nonempty decomp [] [] o f0 _ o [] itf itemsf jf HI Hfirst). }
  assert (Hres : exists ms x, batch_run decomp fuel (LB [] o (PIn it1 rest j0) o) [] = Some (ms, EEOF, x) /\ ms <> []
                  /\ exists Rp Rs, pend (PIn it1 rest j0) = Rp ++ Rs /\ ms = mm (filter (fun r => o <=? r_off r) Rp)
                       /\ Forall (fun r => r_off r < x) Rp /\ (forall r, In r Rs -> o <= r_off r -> x <= r_off r) /\ o <= x).
  { destruct (l_run fuel (PIn it1 rest j0) o []) as [ms x|j h off' acc' f'|]; [| |contradiction].
    - exists ms, x. split; [exact Href|]. split; [exact Hne0|]. destruct Hspec as (Rp & Rs & G1 & G2 & G3 & G4 & G5).
      exists Rp, Rs. cbn [rev app] in G2. rewrite app_nil_r in G4. auto.
    - destruct Href as (Hr1 & Hf' & Hoo & Hjj & _). destruct Hspec as (G1 & G2 & G3 & _).
      destruct f' as [|f2]; [lia|]. rewrite (bnd_nil_done decomp [] o f2 j h off' acc' eq_refl) in Hr1.
      exists (rev acc'), (lfinal off'). split; [exact Hr1|].
      split; [intros Hn; apply Hne0; destruct acc' as [|a t]; [reflexivity|cbn [rev] in Hn; destruct (rev t); discriminate]|].
      exists (pend (PIn it1 rest j0)), []. rewrite app_nil_r. cbn [rev app] in G1.
      unfold lfinal. replace (off' <=? -1) with false by lia.
      split; [reflexivity|]. split; [exact G1|]. split; [exact G2|]. split; [intros r []|lia]. }
  destruct Hres as (ms & x & Hrun & Hms & Rp & Rs & G1 & G2 & G3 & G4 & G5).
  exists ms, x. split; [exact Hrun|]. split; [|exact Hms].
  left. split; [exact G5|]. rewrite G2. unfold mm. f_equal.
  rewrite Hlogsplit. unfold between. rewrite filter_app. rewrite <- Hpend, G1, filter_app.
  rewrite (filter_all_false _ (flat_map pb_recs pre)).
  2:{ rewrite Hlogsplit in Hlog2. pose proof (increasing_app_l _ _ _ Hlog2) as Hip.
      eapply Forall_impl; [|apply (pre_below_legacy o pre 0 Hleg_pre Hpre Hip)]. cbn. intros a Ha. lia. }
  rewrite (filter_all_false _ Rs).
  2:{ apply Forall_forall. intros r Hr. specialize (G4 r Hr). lia. }
  cbn [app]. rewrite app_nil_r. apply filter_ext_in'.
  eapply Forall_impl; [|exact G3]. cbn. intros a Ha. lia.
Qed.

Theorem batch_decode_exact_legacy_uncompressed log l o k hwm :
  log_ok log -> layout_ok log l -> Forall legacy_ok l -> 0 <= o ->
  from_offset l o <> [] -> valid_cut compress l o k -> hwm <> o ->
  forall fuel, (length (all_items (from_offset l o)) + 4 <= fuel)%nat ->
  exists ms f,
    fetch_run decomp fuel o hwm (fetch_response compress l o k) (Z.of_nat k) false = Some (ms, EEOF, f)
    /\ fetch_ok log o ms f.
Proof.
  intros H1 H2 H3 H4 H5 H6 H7 fuel H8.
  destruct (batch_decode_exact_legacy_uncompressed_full log l o k hwm H1 H2 H3 H4 H5 H6 H7 fuel H8) as (ms & f & Hr & Hok & _).
  exists ms, f. split; assumption.
Qed.

(* C02_progress for v0/v1 responses: the first batch is whole and reaches the fetch offset, so
   at least one message is delivered *)
Theorem progress_legacy_uncompressed log l o k hwm :
  log_ok log -> layout_ok log l -> Forall legacy_ok l -> 0 <= o ->
  from_offset l o <> [] -> valid_cut compress l o k -> hwm <> o ->
  forall fuel ms e f, (length (all_items (from_offset l o)) + 4 <= fuel)%nat ->
  fetch_run decomp fuel o hwm (fetch_response compress l o k) (Z.of_nat k) false = Some (ms, e, f) ->
  ms <> [].
Proof.
  intros H1 H2 H3 H4 H5 H6 H7 fuel ms e f H8 Hrun.
  destruct (batch_decode_exact_legacy_uncompressed_full log l o k hwm H1 H2 H3 H4 H5 H6 H7 fuel H8) as (ms0 & f0 & Hr0 & _ & Hp).
  rewrite Hr0 in Hrun. injection Hrun as <- _ _. exact Hp.
Qed.

Theorem contract_legacy_uncompressed log l k hwm fuel g :
  log_ok log -> layout_ok log l -> Forall legacy_ok l -> 0 <= g_conn g ->
  from_offset l (g_conn g) <> [] -> valid_cut compress l (g_conn g) k -> hwm <> g_conn g ->
  (length (all_items (from_offset l (g_conn g))) + 4 <= fuel)%nat ->
  ev_ok (fetch_run decomp fuel) log g
        (GFetch (FData hwm (fetch_response compress l (g_conn g) k) (Z.of_nat k) false)).
Proof.
  intros H1 H2 H3 H4 H5 H6 H7 H8 _.
  destruct (batch_decode_exact_legacy_uncompressed log l (g_conn g) k hwm H1 H2 H3 H4 H5 H6 H7 fuel H8)
    as (ms & f & Hr & Hok).
  exists ms, EEOF, f. split; assumption.
Qed.

End Final.
