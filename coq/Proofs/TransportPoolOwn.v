(* Proofs/TransportPoolOwn.v — per-connection request numbering and the own-response
   invariant of the transport pool. *)
From Coq Require Import List ZArith Bool Arith Lia.
From KV Require Import Model.ConnMux Model.TransportPool Proofs.ConnMuxBase Proofs.ConnMuxProofs
  Proofs.TransportPoolBase Proofs.TransportPoolProofs.
Import ListNotations.
Local Open Scope Z_scope.

Record NInv (s : pstate) : Prop := mkNInv {
  n_id : forall c, idgen (cn s c) = wrap32 (nex (cn s c)) /\ 0 <= nex (cn s c);
  n_sent : forall c k r, lookup_ord k (bsent (cn s c)) = Some r -> 1 <= k <= nex (cn s c);
  n_cur : forall c r k, cst (cn s c) = CSent r k -> lookup_ord k (bsent (cn s c)) = Some r;
  n_wire : forall c f, In f (cwire (cn s c)) ->
           exists k, fid f = wrap32 k /\ lookup_ord k (bsent (cn s c)) = Some (fown f)
}.

Lemma NInv_init : NInv pinit.
Proof.
  constructor; unfold cn; cbn; intros; try discriminate; try contradiction.
  split; [reflexivity|lia].
Qed.

Lemma closeidle_cn : forall s g s', pstep s (CloseIdle g) = Some s' ->
  (forall c, cn s' c = cn s c \/ cn s' c = set_cst (cn s c) CClosed) /\ reqs s' = reqs s.
Proof.
  intros s g s' H. unfold pstep in H. inversion H; subst; clear H. split.
  - intros c. match goal with |- context [close_all ?s1 ?l] => destruct (close_all_cn l s1 c) as [E|E] end;
      rewrite E; [left|right]; reflexivity.
  - match goal with |- context [close_all ?s1 ?l] => destruct (close_all_fields l s1) as [A _] end.
    rewrite A. reflexivity.
Qed.

(* what one step does to one connection's numbering ghosts *)
Definition conn_ext (a b : conn) : Prop :=
  nex a <= nex b /\
  (forall k r, 1 <= k <= nex a -> lookup_ord k (bsent a) = Some r -> lookup_ord k (bsent b) = Some r).

Lemma conn_ext_refl : forall a, conn_ext a a.
Proof. intros a. split; [lia|auto]. Qed.

Lemma NInv_step : forall s l s', PInv s -> NInv s -> pstep s l = Some s' ->
  NInv s' /\ (forall c, conn_ext (cn s c) (cn s' c)) /\
  (forall r, rq s' r = rq s r \/
     (exists v, prom (rq s' r) = Some v /\ qph (rq s' r) = qph (rq s r) /\
        match v with RVal f => exists c k, cst (cn s c) = CSent r k /\ fid f = wrap32 k /\
                                           In f (cwire (cn s c))
                | _ => True end) \/
     (prom (rq s' r) = None /\ (qph (rq s' r) = QDone RErr \/ (exists c, qph (rq s' r) = QHold c) \/
                               qph (rq s' r) = QAwait \/
                               (exists v, prom (rq s r) = Some v /\ qph (rq s' r) = QDone v))) \/
     (prom (rq s' r) = prom (rq s r) /\ qph (rq s' r) = QDone RErr)).
Proof.
  intros s l s' PI I H.
  destruct l.
  14: { (* CloseIdle *)
    destruct (closeidle_cn s g s' H) as [Hc Hr]. split; [|split].
    - constructor.
      + intros c. destruct (Hc c) as [E|E]; rewrite E; apply (n_id s I).
      + intros c k r. destruct (Hc c) as [E|E]; rewrite E; apply (n_sent s I).
      + intros c r k. destruct (Hc c) as [E|E]; rewrite E; [apply (n_cur s I)|cbn; discriminate].
      + intros c f. destruct (Hc c) as [E|E]; rewrite E; apply (n_wire s I).
    - intros c. destruct (Hc c) as [E|E]; rewrite E; [apply conn_ext_refl|split; cbn; [lia|auto]].
    - intros r. left. unfold rq. rewrite Hr. reflexivity. }
  all: pose proof (n_id s I) as Ni; pose proof (n_sent s I) as Ns; pose proof (n_cur s I) as Nc;
       pose proof (n_wire s I) as Nw.
  all: pstep_inv H.
  all: split; [constructor|split]; unf; intros; case_eqb; simp_p;
       try (apply conn_ext_refl); eauto; try (left; reflexivity).
  all: try (split; [reflexivity|lia]).
  all: try (match goal with H : nconn ?s = _ |- _ => idtac end).
  all: try (pose proof (p_fresh s PI (nconn s) (le_n _)) as Fz; unfold cn in Fz; rewrite Fz in *; cbn in * ).
  all: try discriminate; try contradiction; try lia.
  all: try (split; cbn; [lia|auto]; fail).
  all: try (right; right; left; split; [reflexivity|eauto 7]; fail).
  all: try (right; right; right; split; reflexivity).
  all: try (right; left; eexists; repeat split; eauto; fail).
  (* B *)
  all: try (match goal with |- wrap32 (idgen ?x + 1) = _ /\ _ =>
         let A := fresh in let B := fresh in
         match x with lookupG conn0 (conns ?s) ?c => destruct (Ni c) as [A B] end;
         rewrite A, wrap32_succ; split; [reflexivity|lia] end).
  (* D *)
  all: try (match goal with X : CSent _ _ = CSent _ _ |- _ => injection X as ? ?; subst end;
            cbn [lookup_ord]; rewrite Z.eqb_refl; reflexivity).
  (* C *)
  all: try (match goal with X : lookup_ord ?k (_ :: _) = Some _ |- _ <= ?k <= _ =>
         cbn [lookup_ord] in X; destruct (Z.eqb _ k) eqn:Ek;
         [apply Z.eqb_eq in Ek; match goal with c : cid |- _ => pose proof (proj2 (Ni c)) end; lia
         |apply Ns in X; lia] end).
  all: try (match goal with X : lookup_ord ?k _ = Some _ |- _ <= ?k <= _ => apply Ns in X; lia end).
  (* F *)
  all: try (match goal with |- conn_ext _ _ => split; cbn [nex bsent set_cst add_bsent bump_idgen];
         [lia|intros k0 r1 Hk Hl; cbn [lookup_ord];
              destruct (Z.eqb _ k0) eqn:Ek; [apply Z.eqb_eq in Ek; lia|exact Hl]] end).
  (* G H E *)
  all: try (match goal with X : In _ (_ ++ [_]) |- _ => apply in_app_or in X; destruct X as [X|[X|[]]] end).
  all: try (match goal with X : In ?f ?w, W : cwire ?x = _ :: ?w |- _ =>
         assert (In f (cwire x)) by (rewrite W; right; exact X) end).
  all: try (match goal with X : In ?f (cwire _) |- exists k, fid ?f = _ /\ _ =>
         destruct (Nw _ _ X) as [k1 [K1 K2]]; exists k1; split; [exact K1|];
         cbn [lookup_ord];
         try (destruct (Z.eqb _ k1) eqn:Ek; [apply Z.eqb_eq in Ek; apply Ns in K2; lia|]); exact K2 end).
  all: try (subst; cbn [fid fown]; eexists; split; [reflexivity|eassumption]).
  right; left. exists (RVal f). split; [reflexivity|split; [reflexivity|]].
  match goal with X : cst (lookupG conn0 (conns s) ?c) = CSent _ ?k |- _ => exists c, k end.
  repeat split; auto.
  - match goal with X : (fid f =? _) = true |- _ => apply Z.eqb_eq in X; exact X end.
  - match goal with W : cwire _ = f :: _ |- _ => rewrite W; left; reflexivity end.
Qed.

Lemma NInv_run : forall ls s, prun pinit ls = Some s -> PInv s /\ NInv s.
Proof.
  intros ls s H.
  eapply (pinv_run (fun x => PInv x /\ NInv x)); [|split; [exact PInv_init|exact NInv_init]|exact H].
  intros x l x' [A B] St. split; [eapply PInv_step; eauto|eapply NInv_step; eauto].
Qed.

(* ---- the value delivered to a RoundTrip caller ---- *)
Definition val_ok (s : pstate) (r : rqid) (f : frame) : Prop :=
  fown f = r /\ exists c k, fid f = wrap32 k /\ lookup_ord k (bsent (cn s c)) = Some r.

Definition delivered (s : pstate) (r : rqid) (f : frame) : Prop :=
  prom (rq s r) = Some (RVal f) \/ qph (rq s r) = QDone (RVal f).

Definition bounded (s : pstate) : Prop := forall c, nex (cn s c) < ID_BOUND.

Definition OwnP (s : pstate) : Prop :=
  bounded s -> forall r f, delivered s r f -> val_ok s r f.

Lemma OwnP_init : OwnP pinit.
Proof. intros _ r f [H|H]; unfold rq in H; cbn in H; discriminate. Qed.

Lemma OwnP_step : forall s l s', PInv s -> NInv s -> OwnP s -> pstep s l = Some s' -> OwnP s'.
Proof.
  intros s l s' PI NI O H B' r f D.
  destruct (NInv_step s l s' PI NI H) as [NI' [Ext Rq]].
  assert (B : bounded s).
  { intros c. destruct (Ext c) as [E _]. pose proof (B' c). lia. }
  assert (Mono : forall r0 f0, val_ok s r0 f0 -> val_ok s' r0 f0).
  { intros r0 f0 [A [c [k [K1 K2]]]]. split; [exact A|]. exists c, k. split; [exact K1|].
    destruct (Ext c) as [_ E]. apply E; [|exact K2]. apply (n_sent s NI c k r0 K2). }
  destruct (Rq r) as [E|[[v [Pv [Qv Hv]]]|[[Pn Qn]|[Pp Qe]]]].
  - apply Mono, (O B). unfold delivered in *. rewrite E in D. exact D.
  - destruct D as [D|D].
    + rewrite Pv in D. injection D as ->.
      destruct Hv as [c [k [Cs [Fk Fin]]]].
      destruct (n_wire s NI c f Fin) as [k' [Fk' Lk']].
      pose proof (n_cur s NI c r k Cs) as Lk.
      pose proof (n_sent s NI c k r Lk). pose proof (n_sent s NI c k' _ Lk'). pose proof (B c).
      assert (k' = k).
      { apply wrap32_inj; [congruence|]. unfold ID_BOUND in *. lia. }
      subst k'. apply Mono. split; [congruence|]. exists c, k. split; auto.
    + apply Mono, (O B). right. rewrite <- Qv. exact D.
  - destruct D as [D|D]; [congruence|].
    destruct Qn as [Q|[[c Q]|[Q|[v [Pv Q]]]]]; try congruence.
    rewrite Q in D. injection D as ->. apply Mono, (O B). left. exact Pv.
  - destruct D as [D|D]; [|congruence].
    apply Mono, (O B). left. rewrite <- Pp. exact D.
Qed.

Lemma OwnP_run : forall ls s, prun pinit ls = Some s -> PInv s /\ NInv s /\ OwnP s.
Proof.
  intros ls s H.
  eapply (pinv_run (fun x => PInv x /\ NInv x /\ OwnP x));
    [|split; [exact PInv_init|split; [exact NInv_init|exact OwnP_init]]|exact H].
  intros x l x' [A [B C]] St. split; [eapply PInv_step; eauto|].
  split; [eapply NInv_step; eauto|eapply OwnP_step; eauto].
Qed.

Lemma transport_own_response : forall ls s, prun pinit ls = Some s -> bounded s ->
  forall r f, qph (rq s r) = QDone (RVal f) ->
    fown f = r /\ exists c k, fid f = wrap32 k /\ lookup_ord k (bsent (cn s c)) = Some r.
Proof.
  intros ls s H B r f D. destruct (OwnP_run ls s H) as [_ [_ O]].
  apply (O B r f). right. exact D.
Qed.

Lemma pool_exclusive : forall ls s, prun pinit ls = Some s ->
  (forall r r' c, qph (rq s r) = QHold c -> qph (rq s r') = QHold c -> r = r') /\
  (forall r c, qph (rq s r) = QHold c -> cst (cn s c) = CLoop /\ ~ In c (idle s)) /\
  NoDup (idle s) /\
  (forall c, In c (idle s) -> cst (cn s c) = CLoop /\ lastok (cn s c) = true).
Proof.
  intros ls s H. destruct (NInv_run ls s H) as [P _]. repeat split.
  - apply (p_excl s P).
  - destruct (p_hold s P r c H0) as [A _]. exact A.
  - destruct (p_hold s P r c H0) as [_ [A _]]. exact A.
  - apply (p_nodup s P).
  - destruct (p_idle s P c H0) as [A _]. exact A.
  - destruct (p_idle s P c H0) as [A _]. apply (p_ok s P). rewrite A. discriminate.
Qed.

(* ---- request numbering on one connection: strictly increasing, and final once it failed ---- *)
From Coq Require Import Sorted.

Lemma step_bsent : forall s l s', PInv s -> pstep s l = Some s' -> forall c,
  (bsent (cn s' c) = bsent (cn s c) /\ nex (cn s c) <= nex (cn s' c)) \/
  (exists r, bsent (cn s' c) = (nex (cn s c) + 1, r) :: bsent (cn s c) /\
             nex (cn s' c) = nex (cn s c) + 1 /\ cst (cn s c) = CBusy r).
Proof.
  intros s l s' PI H c.
  destruct l.
  14: { destruct (closeidle_cn s g s' H) as [Hc _]. left.
        destruct (Hc c) as [E|E]; rewrite E; (split; [reflexivity|cbn [nex set_cst]; try lia]). }
  all: pose proof (p_fresh s PI (nconn s) (le_n _)) as Fz; unfold cn in Fz.
  all: pstep_inv H; unf; case_eqb; simp_p;
       try (left; split; [reflexivity|lia]);
       try (rewrite Fz; cbn; left; split; [reflexivity|lia]);
       try (right; eexists; repeat split; eauto; fail).
Qed.

Lemma closed_stays : forall s l s', PInv s -> pstep s l = Some s' -> forall c,
  (c < nconn s)%nat -> cst (cn s c) = CClosed -> cst (cn s' c) = CClosed.
Proof.
  intros s l s' PI H c Lt Cc.
  destruct l.
  14: { destruct (closeidle_cn s g s' H) as [Hc _]. destruct (Hc c) as [E|E]; rewrite E; auto. }
  all: pose proof (p_idle s PI) as Pi.
  all: pstep_inv H;
       try match goal with E : pop_group _ _ _ = Some _ |- _ =>
         apply pop_group_spec in E; destruct E as [Pa _]; destruct (Pi _ Pa) as [Pl _] end;
       try match goal with X : mem _ _ = true |- _ => apply mem_true in X; destruct (Pi _ X) as [Pl _] end;
       unf; case_eqb; simp_p; try congruence; try lia; auto.
Qed.

Definition SInv (s : pstate) : Prop := forall c,
  StronglySorted Z.gt (map fst (bsent (cn s c))) /\
  Forall (fun k => 1 <= k <= nex (cn s c)) (map fst (bsent (cn s c))).

Lemma SInv_init : SInv pinit.
Proof. intros c. unfold cn. cbn. split; constructor. Qed.

Lemma SInv_step : forall s l s', PInv s -> NInv s -> SInv s -> pstep s l = Some s' -> SInv s'.
Proof.
  intros s l s' PI NI S H c. destruct (S c) as [Ss Sf].
  destruct (step_bsent s l s' PI H c) as [[E M]|[r [E [M _]]]]; rewrite E.
  - split; [exact Ss|]. eapply Forall_impl; [|exact Sf]. cbn. intros k X. lia.
  - cbn [map fst]. rewrite M. destruct (n_id s NI c) as [_ N0]. split.
    + constructor; [exact Ss|]. eapply Forall_impl; [|exact Sf]. cbn. intros k X. lia.
    + constructor; [lia|]. eapply Forall_impl; [|exact Sf]. cbn. intros k X. lia.
Qed.

(* in every reachable state the ordinals of the requests a connection carried are strictly
   increasing in send order (newest first in [bsent]); the id on the wire of ordinal k is
   [wrap32 k], so below 2^31 requests the wire ids are strictly increasing as well *)
Lemma pool_ids_increasing : forall ls s, prun pinit ls = Some s ->
  forall c, StronglySorted Z.gt (map fst (bsent (cn s c))) /\
            Forall (fun k => 1 <= k <= nex (cn s c)) (map fst (bsent (cn s c))).
Proof.
  intros ls s H.
  assert (X : PInv s /\ NInv s /\ SInv s).
  { eapply (pinv_run (fun x => PInv x /\ NInv x /\ SInv x));
      [|split; [exact PInv_init|split; [exact NInv_init|exact SInv_init]]|exact H].
    intros x l x' [A [B C]] St. split; [eapply PInv_step; eauto|].
    split; [eapply NInv_step; eauto|eapply SInv_step; eauto]. }
  destruct X as [_ [_ S]]. exact S.
Qed.

(* a failed exchange leaves the run loop: the connection is CClosed at once ... *)
Lemma failing_steps_close : forall s c,
  (forall s', pstep s (CWrite c false) = Some s' -> cst (cn s' c) = CClosed) /\
  (forall s', pstep s (CReadFail c) = Some s' -> cst (cn s' c) = CClosed) /\
  (forall s', pstep s (CRead c) = Some s' ->
     cst (cn s' c) = CClosed \/ lastok (cn s' c) = true).
Proof.
  intros s c. repeat split; intros s' H; pstep_inv H; unf; rewrite ?Nat.eqb_refl; cbn; auto.
Qed.

(* ... and CClosed is final: such a connection never carries another request *)
Lemma pool_failed_conn_final : forall ls s s' c,
  PInv s -> (c < nconn s)%nat -> cst (cn s c) = CClosed -> prun s ls = Some s' ->
  cst (cn s' c) = CClosed /\ bsent (cn s' c) = bsent (cn s c).
Proof.
  intros ls s s' c PI Lt Cc H.
  assert (X : PInv s' /\ (c < nconn s')%nat /\ cst (cn s' c) = CClosed /\ bsent (cn s' c) = bsent (cn s c)).
  { eapply (pinv_run (fun x => PInv x /\ (c < nconn x)%nat /\ cst (cn x c) = CClosed /\
                               bsent (cn x c) = bsent (cn s c))); [| |exact H].
    - intros x l x' [A [B [C D]]] St. split; [eapply PInv_step; eauto|].
      assert (Mn : (nconn x <= nconn x')%nat).
      { destruct l; try (destruct (closeidle_cn x g x' St) as [_ _]);
          try (unfold pstep in St; inversion St; subst;
               match goal with |- context [close_all ?s1 ?l0] =>
                 destruct (close_all_fields l0 s1) as [_ [_ [_ Fn]]]; rewrite Fn; cbn; lia end);
          pstep_inv St; unf; lia. }
      split; [lia|]. split; [eapply closed_stays; eauto|].
      destruct (step_bsent x l x' A St c) as [[E _]|[r [_ [_ E]]]]; [congruence|congruence].
    - split; [exact PI|split; [exact Lt|split; [exact Cc|reflexivity]]]. }
  tauto.
Qed.

(* ---- split calls: result i handed to the merger is the answer to sub-request i ---- *)
Lemma split_results_nth : forall s subs i r,
  nth_error subs i = Some r -> nth_error (split_results s subs) i = Some (sub_result s r).
Proof. intros s subs i r H. unfold split_results. apply map_nth_error. exact H. Qed.

Lemma transport_split_own_response : forall ls s, prun pinit ls = Some s -> bounded s ->
  forall subs i r f,
    nth_error subs i = Some r ->
    nth_error (split_results s subs) i = Some (Some (RVal f)) ->
    fown f = r /\ exists c k, fid f = wrap32 k /\ lookup_ord k (bsent (cn s c)) = Some r.
Proof.
  intros ls s H B subs i r f Hs Hr.
  rewrite (split_results_nth s subs i r Hs) in Hr. injection Hr as Hr.
  unfold sub_result in Hr. destruct (qph (rq s r)) eqn:E; try discriminate.
  injection Hr as ->. eapply transport_own_response; eauto.
Qed.

Lemma split_results_length : forall s subs, length (split_results s subs) = length subs.
Proof. intros. unfold split_results. apply map_length. Qed.

(* ---- an idle (released) connection sits at a frame boundary ---- *)
Lemma released_at_frame_boundary : forall ls s c, prun pinit ls = Some s -> In c (idle s) ->
  cst (cn s c) = CLoop /\ lastok (cn s c) = true /\
  forall f, In f (cwire (cn s c)) ->
    exists k, fid f = wrap32 k /\ lookup_ord k (bsent (cn s c)) = Some (fown f).
Proof.
  intros ls s c H Hi. destruct (NInv_run ls s H) as [P N].
  destruct (p_idle s P c Hi) as [A _]. repeat split; auto.
  - apply (p_ok s P). rewrite A. discriminate.
  - intros f Hf. apply (n_wire s N c f Hf).
Qed.
