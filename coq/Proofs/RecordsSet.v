(* Proofs/RecordsSet.v — items and record sets of the reference codec round-trip, for every
   compression function that has a left inverse. *)
From Coq Require Import List NArith ZArith Bool Lia.
From Coq Require Import ZifyN ZifyNat ZifyBool.
From KV Require Import Lib.Bits Lib.Bytes Lib.Crc Spec.RecordFormat Proofs.RecordsCodec.
Import ListNotations.
Open Scope Z_scope.

Section Codec.
Variable comp decomp : N -> list N -> list N.
Hypothesis decomp_comp : forall c b, decomp c (comp c b) = b.

Definition wf_batch (b : batch2) : Prop :=
  in_i64 (b_base b) /\ in_i32 (b_epoch b) /\ -32768 <= b_attrs b < 32768 /\ in_i32 (b_last b) /\
  in_i64 (b_first b) /\ in_i64 (b_max b) /\ in_i64 (b_pid b) /\ -32768 <= b_pepoch b < 32768 /\
  in_i32 (b_seq b) /\ small (b_recs b) /\ Forall wf_rec (b_recs b) /\
  9 + zlen (batch_tail comp b) < ZM31.

Lemma dec_enc_batch_body b : wf_batch b ->
  dec_batch_body decomp (b_base b)
    (put_bes 4 (b_epoch b) ++ put_bes 1 2 ++ put_be 4 (crc32c (batch_tail comp b)) ++ batch_tail comp b)
  = Some b.
Proof.
  intros (Hb & He & Ha & Hl & Hf & Hm & Hp & Hpe & Hs & Hn & Hr & _). unfold dec_batch_body.
  rewrite get_i_put by (try lia; apply in_signed_4, He).
  rewrite get_i_put by (try lia; apply in_signed_1; lia).
  cbn [Z.eqb negb Pos.eqb].
  rewrite take_app by apply put_be_length. rewrite bytes_eqb_refl. cbn [negb].
  unfold batch_tail.
  rewrite get_i_put by (try lia; apply in_signed_2, Ha).
  rewrite get_i_put by (try lia; apply in_signed_4, Hl).
  rewrite get_i_put by (try lia; apply in_signed_8, Hf).
  rewrite get_i_put by (try lia; apply in_signed_8, Hm).
  rewrite get_i_put by (try lia; apply in_signed_8, Hp).
  rewrite get_i_put by (try lia; apply in_signed_2, Hpe).
  rewrite get_i_put by (try lia; apply in_signed_4, Hs).
  rewrite get_i_put by (try lia; apply in_signed_4, small_i32, Hn).
  pose proof (zlen_nonneg (b_recs b)). destruct (Z.ltb_spec (zlen (b_recs b)) 0); [lia|].
  replace (Z.to_nat (zlen (b_recs b))) with (length (b_recs b)) by (unfold zlen; lia).
  unfold batch_payload.
  destruct (codec_of (b_attrs b) =? 0)%N.
  - rewrite dec_enc_recs by exact Hr. destruct b; reflexivity.
  - rewrite decomp_comp. rewrite dec_enc_recs by exact Hr. destruct b; reflexivity.
Qed.

Lemma split_enc_batch b rest : wf_batch b ->
  split_item (enc_batch comp b ++ rest) =
  Some (b_base b,
        put_bes 4 (b_epoch b) ++ put_bes 1 2 ++ put_be 4 (crc32c (batch_tail comp b)) ++ batch_tail comp b,
        rest).
Proof.
  intros (Hb & _ & _ & _ & _ & _ & _ & _ & _ & _ & _ & Hsz). unfold split_item, enc_batch. rewrite <- !app_assoc.
  rewrite get_i_put by (try lia; apply in_signed_8, Hb).
  pose proof (zlen_nonneg (batch_tail comp b)).
  rewrite get_i_put by (try lia; apply in_signed_4; unfold in_i32, ZM31 in *; lia).
  destruct (Z.ltb_spec (9 + zlen (batch_tail comp b)) 0); [lia|].
  rewrite !app_assoc. rewrite take_app; [reflexivity|].
  rewrite !app_length, put_be_length. unfold put_bes. rewrite !put_be_length. unfold zlen. lia.
Qed.

(* the magic byte is the fifth byte of the body *)
Lemma nth4_app (a : list N) x t : length a = 4%nat -> nth_error (a ++ x :: t) 4 = Some x.
Proof.
  intros H. rewrite nth_error_app2 by lia. rewrite H. reflexivity.
Qed.

Definition wf_wrap (magic off attrs ts : Z) (inner : list msg) : Prop :=
  wf_msg {| m_magic := magic; m_off := off; m_attrs := attrs; m_ts := ts; m_key := None;
            m_val := Some (comp (codec_of attrs) (concat (map enc_msg inner))) |} /\
  codec_of attrs <> 0%N /\ Forall wf_msg inner /\ forallb plain inner = true.

Definition wf_item (it : item) : Prop :=
  match it with
  | IMsg m => wf_msg m /\ plain m = true
  | IWrap magic off attrs ts inner => wf_wrap magic off attrs ts inner
  | IBatch b => wf_batch b
  end.

Lemma put_bes_1 z : -128 <= z < 128 -> exists x, put_bes 1 z = [x] /\ Z.of_N x = z mod 256.
Proof.
  intros H. unfold put_bes. cbn [put_be app]. change (pow256 1) with 256%N. change (Z.of_N 256) with 256.
  eexists. split; [reflexivity|].
  assert (0 <= z mod 256 < 256) by (apply Z.mod_pos_bound; lia).
  rewrite N.mod_small by lia. lia.
Qed.

Lemma dec_item_msg m : wf_msg m ->
  dec_item_body decomp (m_off m) (put_be 4 (crc32_ieee (msg_body m)) ++ msg_body m) =
  if plain m then Some (IMsg m)
  else match m_key m, m_val m with
       | None, Some v =>
         let inner := decomp (codec_of (m_attrs m)) v in
         match dec_msgs (length inner) inner with
         | Some ms => if forallb plain ms then Some (IWrap (m_magic m) (m_off m) (m_attrs m) (m_ts m) ms) else None
         | None => None
         end
       | _, _ => None
       end.
Proof.
  intros Hm. unfold dec_item_body.
  assert (Hmg : exists x, nth_error (put_be 4 (crc32_ieee (msg_body m)) ++ msg_body m) 4 = Some x /\ x <> 2%N).
  { destruct Hm as (Hmg & _). unfold msg_body.
    destruct (put_bes_1 (m_magic m) ltac:(lia)) as (x & Hx & Hv). rewrite Hx. cbn [app].
    exists x. split; [apply nth4_app, put_be_length|].
    destruct Hmg as [H|H]; rewrite H in Hv; cbn in Hv; lia. }
  destruct Hmg as (x & Hx & Hne). rewrite Hx.
  destruct (N.eqb_spec x 2); [contradiction|].
  rewrite dec_enc_msg_body by exact Hm. reflexivity.
Qed.

Lemma dec_enc_item it : wf_item it ->
  exists off body, (forall rest, split_item (enc_item comp it ++ rest) = Some (off, body, rest)) /\
                   dec_item_body decomp off body = Some it /\ (16 <= length (enc_item comp it))%nat.
Proof.
  destruct it as [m|magic off attrs ts inner|b]; cbn [wf_item enc_item].
  - intros [Hm Hp]. eexists _, _. split; [intros rest; apply split_enc_msg, Hm|]. split.
    + rewrite dec_item_msg by exact Hm. rewrite Hp. reflexivity.
    + unfold enc_msg. rewrite !app_length. unfold put_bes. rewrite !put_be_length. lia.
  - intros (Hm & Hc & Hin & Hpl). unfold enc_wrap. eexists _, _.
    split; [intros rest; apply split_enc_msg, Hm|]. split.
    + rewrite dec_item_msg by exact Hm. unfold plain at 1. cbn [m_attrs m_key m_val m_magic m_off m_ts].
      destruct (N.eqb_spec (codec_of attrs) 0); [contradiction|].
      cbn zeta. rewrite decomp_comp. rewrite dec_enc_msgs by (try exact Hin; lia).
      rewrite Hpl. reflexivity.
    + unfold enc_msg. rewrite !app_length. unfold put_bes. rewrite !put_be_length. lia.
  - intros Hb. eexists _, _. split; [intros rest; apply split_enc_batch, Hb|]. split.
    + unfold dec_item_body.
      replace (nth_error _ 4) with (Some 2%N).
      2:{ symmetry. change (put_bes 1 2) with [2%N]. cbn [app]. apply nth4_app. unfold put_bes. apply put_be_length. }
      cbn [N.eqb Pos.eqb]. rewrite dec_enc_batch_body by exact Hb. reflexivity.
    + unfold enc_batch. rewrite !app_length. unfold put_bes. rewrite !put_be_length. lia.
Qed.

Lemma dec_enc_items its : forall fuel, Forall wf_item its ->
  (length (enc_items comp its) <= fuel)%nat ->
  dec_items decomp fuel (enc_items comp its) = Some its.
Proof.
  unfold enc_items.
  induction its as [|it its IH]; intros fuel H Hf.
  - cbn. destruct fuel; reflexivity.
  - apply Forall_cons_iff in H as [Hi Hs]. cbn [map concat] in *.
    destruct (dec_enc_item it Hi) as (off & body & Hsplit & Hdec & Hlen).
    rewrite app_length in Hf.
    destruct fuel as [|fuel]; [lia|].
    cbn [dec_items].
    destruct (enc_item comp it ++ concat (map (enc_item comp) its)) as [|x t] eqn:Hbt.
    { exfalso. apply (f_equal (@length N)) in Hbt. rewrite app_length in Hbt. cbn in Hbt. lia. }
    rewrite <- Hbt. rewrite Hsplit, Hdec. rewrite IH by (try exact Hs; lia). reflexivity.
Qed.

(* the reference decoder accepts exactly what the reference encoder wrote *)
Theorem dec_enc_set its : Forall wf_item its -> zlen (enc_items comp its) < ZM31 ->
  dec_set decomp (enc_set comp its) = Some its.
Proof.
  intros H Hsz. unfold dec_set, enc_set.
  pose proof (zlen_nonneg (enc_items comp its)).
  rewrite get_i_put by (try lia; apply in_signed_4; unfold in_i32, ZM31 in *; lia).
  rewrite Z.eqb_refl. apply dec_enc_items; [exact H|lia].
Qed.

End Codec.
