(* Proofs/ConnWritersDefs.v — definitions used by the statements that tie the Conn request
   writers (Model/ConnWriters.v) to the generic schema codec (Model/Schema.v): the value of
   the generic model that carries a request's arguments, the grammar of each request as a
   [ty], and the side conditions of the refinement as boolean predicates. *)
From Coq Require Import List NArith ZArith Bool.
From KV Require Import Lib.Bits Lib.Bytes Lib.Varint Spec.RecordFormat Model.Records Model.ConnWriters Model.Schema.
Import ListNotations.
Open Scope Z_scope.

(* ------------------------------------------------------------------ values *)
Definition varr {A : Type} (f : A -> value) (l : list A) : value := VArray (Some (map f l)) 0.
Definition vstruct (fs : list value) : value := VStruct fs [].
(* a *string: nil is the null string; the generic model has no other way to say "null" than the
   empty string in a nullable position *)
Definition vnstr (s : option gostr) : value := VString (match s with None => [] | Some s => s end).

Definition v_name_bytes (p : gostr * obytes) : value := vstruct [VString (fst p); VBytes (snd p)].
Definition v_commit_partition (p : Z * Z * gostr) : value :=
  vstruct [VInt (fst (fst p)); VInt (snd (fst p)); VString (snd p)].
Definition v_commit_topic (t : gostr * list (Z * Z * gostr)) : value :=
  vstruct [VString (fst t); varr v_commit_partition (snd t)].
Definition v_fetch_topic (t : gostr * list Z) : value := vstruct [VString (fst t); varr VInt (snd t)].
Definition v_ct_assignment (a : Z * list Z) : value := vstruct [VInt (fst a); varr VInt (snd a)].
Definition v_ct_config (e : gostr * gostr) : value := vstruct [VString (fst e); VString (snd e)].
Definition v_ct_topic (t : ct_topic) : value :=
  vstruct [VString (ct_name t); VInt (ct_partitions t); VInt (ct_replication t);
           varr v_ct_assignment (ct_assignments t); varr v_ct_config (ct_configs t)].

(* one topic with one partition *)
Definition v_one (topic : gostr) (partition_fields : list value) : value :=
  VArray (Some [vstruct [VString topic; VArray (Some [vstruct partition_fields]) 0]]) 0.

(* the value of the generic model for a request: the same arguments, field by field in the
   order of the Kafka grammar; the record set of a produce request is the opaque [VRecords]
   (its int32 size and the message set / record batch the writer produced) *)
Definition creq_value (r : creq) : value :=
  match r with
  | QProduce v cz txid acks timeout topic partition m0 rest =>
    vstruct ((match v with PV2 => [] | PV3 | PV7 => [vnstr txid] end) ++
             [VInt acks; VInt (milliseconds timeout);
              v_one topic [VInt partition; VRecords (produce_set_write v cz m0 rest)]])
  | QFetch FV2 topic partition offset min_bytes max_bytes max_wait _ =>
    vstruct [VInt (-1); VInt (milliseconds max_wait); VInt min_bytes;
             v_one topic [VInt partition; VInt offset; VInt max_bytes]]
  | QFetch FV5 topic partition offset min_bytes max_bytes max_wait isolation =>
    vstruct [VInt (-1); VInt (milliseconds max_wait); VInt min_bytes; VInt max_bytes; VInt isolation;
             v_one topic [VInt partition; VInt offset; VInt 0; VInt max_bytes]]
  | QFetch FV10 topic partition offset min_bytes max_bytes max_wait isolation =>
    vstruct [VInt (-1); VInt (milliseconds max_wait); VInt min_bytes; VInt max_bytes; VInt isolation;
             VInt 0; VInt (-1);
             v_one topic [VInt partition; VInt (-1); VInt offset; VInt 0; VInt max_bytes];
             VArray (Some []) 0]
  | QListOffsets topic partition time =>
    vstruct [VInt (-1); v_one topic [VInt partition; VInt time]]
  | QApiVersions => vstruct [VUnit]
  | QMetadata v topics auto =>
    vstruct (VArray (match topics with None => None | Some l => Some (map VString l) end) 0 ::
             match v with MV1 => [] | MV6 => [VBool auto] end)
  | QFindCoordinator key => vstruct [VString key]
  | QJoinGroup _ group session rebalance member ptype protos =>
    vstruct [VString group; VInt session; VInt rebalance; VString member; VString ptype;
             varr v_name_bytes protos]
  | QSyncGroup group gen member assigns =>
    vstruct [VString group; VInt gen; VString member; varr v_name_bytes assigns]
  | QHeartbeat group gen member => vstruct [VString group; VInt gen; VString member]
  | QLeaveGroup group member => vstruct [VString group; VString member]
  | QOffsetCommit group gen member retention topics =>
    vstruct [VString group; VInt gen; VString member; VInt retention; varr v_commit_topic topics]
  | QOffsetFetch group topics => vstruct [VString group; varr v_fetch_topic topics]
  | QListGroups => vstruct [VUnit]
  | QCreateTopics v topics timeout validate =>
    vstruct (varr v_ct_topic topics :: VInt timeout ::
             match v with CV0 => [] | CV1 | CV2 => [VBool validate] end)
  | QDeleteTopics _ topics timeout => vstruct [varr VString topics; VInt timeout]
  | QSaslHandshake _ mech => vstruct [VString mech]
  | QSaslAuthenticate data => vstruct [VBytes data]
  end.

(* ------------------------------------------------------------------ grammars *)
(* [nl]: the nullable flag of the NULLABLE_STRING fields that the Conn's request structs hold
   as a plain Go string (metadata topic names, the offset-commit metadata, the config values of
   create-topics).  With [nl = true] these are the types of Gen/Schemas.v. *)
Definition t_one (partition_fields : list ty) : ty :=
  TArray false 40 (TStruct [TString false; TArray false 32 (TStruct partition_fields [])] []).
Definition t_name_bytes : ty := TArray false 40 (TStruct [TString false; TBytes false] []).

Definition creq_ty (nl : bool) (r : creq) : ty :=
  match r with
  | QProduce v _ _ _ _ _ _ _ _ =>
    TStruct ((match v with PV2 => [] | PV3 | PV7 => [TString true] end) ++
             [TInt 2; TInt 4; t_one [TInt 4; TRecords false]]) []
  | QFetch FV2 _ _ _ _ _ _ _ =>
    TStruct [TInt 4; TInt 4; TInt 4; t_one [TInt 4; TInt 8; TInt 4]] []
  | QFetch FV5 _ _ _ _ _ _ _ =>
    TStruct [TInt 4; TInt 4; TInt 4; TInt 4; TInt 1; t_one [TInt 4; TInt 8; TInt 8; TInt 4]] []
  | QFetch FV10 _ _ _ _ _ _ _ =>
    TStruct [TInt 4; TInt 4; TInt 4; TInt 4; TInt 1; TInt 4; TInt 4;
             t_one [TInt 4; TInt 4; TInt 8; TInt 8; TInt 4];
             TArray false 40 (TStruct [TString false; TArray false 4 (TInt 4)] [])] []
  | QListOffsets _ _ _ =>
    TStruct [TInt 4; TArray false 40 (TStruct [TString false; TArray false 16 (TStruct [TInt 4; TInt 8] [])] [])] []
  | QApiVersions | QListGroups => TStruct [TMarker] []
  | QMetadata v _ _ =>
    TStruct (TArray true 16 (TString nl) :: match v with MV1 => [] | MV6 => [TBool] end) []
  | QFindCoordinator _ | QSaslHandshake _ _ => TStruct [TString false] []
  | QJoinGroup _ _ _ _ _ _ _ =>
    TStruct [TString false; TInt 4; TInt 4; TString false; TString false; t_name_bytes] []
  | QSyncGroup _ _ _ _ => TStruct [TString false; TInt 4; TString false; t_name_bytes] []
  | QHeartbeat _ _ _ => TStruct [TString false; TInt 4; TString false] []
  | QLeaveGroup _ _ => TStruct [TString false; TString false] []
  | QOffsetCommit _ _ _ _ _ =>
    TStruct [TString false; TInt 4; TString false; TInt 8;
             TArray false 40 (TStruct [TString false;
                                       TArray false 48 (TStruct [TInt 4; TInt 8; TString nl] [])] [])] []
  | QOffsetFetch _ _ =>
    TStruct [TString false; TArray true 40 (TStruct [TString false; TArray false 4 (TInt 4)] [])] []
  | QCreateTopics v _ _ _ =>
    TStruct (TArray false 72 (TStruct [TString false; TInt 4; TInt 2;
                                       TArray false 32 (TStruct [TInt 4; TArray false 4 (TInt 4)] []);
                                       TArray false 32 (TStruct [TString false; TString nl] [])] []) ::
             TInt 4 :: match v with CV0 => [] | CV1 | CV2 => [TBool] end) []
  | QDeleteTopics _ _ _ => TStruct [TArray false 16 (TString false); TInt 4] []
  | QSaslAuthenticate _ => TStruct [TBytes false] []
  end.

(* the looked-up grammar with those string fields read as non-null strings: how the Conn, whose
   structs cannot hold a null there, uses the grammar (an empty string is sent as the empty
   string: a valid NULLABLE_STRING distinct from null) *)
Fixpoint nonnull_strings (t : ty) {struct t} : ty :=
  match t with
  | TString _ => TString false
  | TArray n e elem => TArray n e (nonnull_strings elem)
  | TStruct fields tagged =>
    TStruct ((fix go (l : list ty) : list ty := match l with [] => [] | x :: r => nonnull_strings x :: go r end) fields)
            ((fix go (l : list (Z * ty)) : list (Z * ty) :=
                match l with [] => [] | (i, x) :: r => (i, nonnull_strings x) :: go r end) tagged)
  | _ => t
  end.
(* produce keeps its nullable transactional id: the Conn holds it as a *string *)
Definition conn_view (r : creq) (t : ty) : ty :=
  match r with QProduce _ _ _ _ _ _ _ _ _ => t | _ => nonnull_strings t end.

(* ------------------------------------------------------------------ side conditions *)
Definition nonempty {A : Type} (l : list A) : bool := match l with [] => false | _ => true end.

(* the transactional id is never a pointer to "" (Conn: emptyToNullable) *)
Definition creq_txid_ok (r : creq) : bool :=
  match r with
  | QProduce _ _ (Some s) _ _ _ _ _ _ => nonempty s
  | _ => true
  end.
(* no empty string in a position where the protocol package's schema has a NULLABLE_STRING *)
Definition creq_strs_ok (r : creq) : bool :=
  match r with
  | QMetadata _ (Some l) _ => forallb nonempty l
  | QOffsetCommit _ _ _ _ topics => forallb (fun t => forallb (fun p : Z * Z * gostr => nonempty (snd p)) (snd t)) topics
  | QCreateTopics _ topics _ _ => forallb (fun t => forallb (fun e : gostr * gostr => nonempty (snd e)) (ct_configs t)) topics
  | _ => true
  end.
Definition creq_canon_ok (r : creq) : bool := creq_txid_ok r && creq_strs_ok r.
