(* Proofs/ReaderV2Sound.v — C02, L1, stage 1 (offsets): what the abstract reader of
   ReaderV2Run.v delivers from an ordered sequence of v2 batches is exactly the wholly
   contained records at or after the fetch offset, and the final offset separates them from
   the rest. *)
From Coq Require Import List NArith ZArith Bool Lia.
From Coq Require Import ZifyN ZifyNat ZifyBool.
From KV Require Import Lib.Bits Model.MsgSetReader Model.ReaderModel Spec.FetchSpec
  Proofs.ReaderPrim Proofs.ReaderV2 Proofs.ReaderV2Run Proofs.ReaderProofs.
Import ListNotations.
Open Scope Z_scope.

Section Sound.
Variable compress : Z -> list N -> list N.
Variable decomp : Z -> list N -> option (list N).
Hypothesis decomp_law : forall c x, decomp c (compress c x) = Some x.
Variable o : Z.

Notation rec_step := (rec_step compress).
Notation bstep := (bstep compress).
Notation step1 := (step1 compress).
Notation cstep := (cstep compress).

(* batches in increasing, disjoint offset ranges, records inside their batch's range *)
Fixpoint chain (lo : Z) (bs : list pbatch) {struct bs} : Prop :=
  match bs with
  | [] => True
  | b :: t => lo <= pb_base b /\ 0 <= pb_lod b /\ increasing (pb_base b) (pb_recs b)
              /\ Forall (fun r => r_off r <= pb_base b + pb_lod b) (pb_recs b)
              /\ chain (pb_base b + pb_lod b + 1) t
  end.

Lemma chain_lb bs : forall lo r, chain lo bs -> In r (flat_map pb_recs bs) -> lo <= r_off r.
Proof.
  induction bs as [|b t IH]; intros lo r Hc Hr; [destruct Hr|].
  destruct Hc as (H1 & H2 & H3 & H4 & H5). cbn [flat_map] in Hr. apply in_app_or in Hr as [Hr|Hr].
  - pose proof (increasing_lb _ _ H3 r Hr). lia.
  - specialize (IH _ r H5 Hr). lia.
Qed.

Definition remp (p : apos) : list record := a_rs p ++ flat_map pb_recs (a_bs p).

Definition Inv (p : apos) : Prop :=
  o <= a_off p
  /\ exists lo_rs lo_bs,
      increasing lo_rs (a_rs p) /\ chain lo_bs (a_bs p)
      /\ (forall r, In r (a_rs p) -> r_off r < lo_bs)
      /\ a_el p < lo_rs /\ a_el p < lo_bs
      /\ (a_rs p = [] -> a_last p < lo_bs)
      /\ (a_rs p <> [] -> pb_base (a_b p) + pb_lod (a_b p) < lo_bs)
      /\ (forall r, In r (remp p) -> o <= r_off r -> a_off p <= r_off r).

Lemma inv_lb p : Inv p -> forall r, In r (remp p) -> a_el p < r_off r.
Proof.
  intros (_ & lo_rs & lo_bs & H1 & H2 & H3 & H4 & H5 & _) r Hr. unfold remp in Hr.
  apply in_app_or in Hr as [Hr|Hr].
  - pose proof (increasing_lb _ _ H1 r Hr). lia.
  - pose proof (chain_lb _ _ r H2 Hr). lia.
Qed.

(* a record step inside a batch *)
Lemma inv_rec_step md md0 lr0 b r rs' bs j j0 hdr off last el r0 p' :
  Inv (mkPos b (r :: rs') bs j0 hdr off last el md0 lr0) ->
  rec_step md b r rs' bs j off el = ARec r0 p' ->
  r0 = r /\ Inv p' /\ remp p' = rs' ++ flat_map pb_recs bs /\ r_off r < a_off p' /\ off <= a_off p'.
Proof.
  intros (Ho & lo_rs & lo_bs & H1 & H2 & H3 & H4 & H5 & H6 & H7 & H8) Hs.
  cbn [a_b a_rs a_bs a_j a_hdr a_off a_last a_el a_mode a_lr] in *.
  destruct (rec_step_inv compress decomp decomp_law _ _ _ _ _ _ _ _ _ _ Hs) as (E0 & E1 & E2 & E3 & E4 & E5 & E6 & E7 & E8 & E9 & E10).
  subst r0. split; [reflexivity|].
  destruct H1 as [Hr1 Hr2]. specialize (H7 ltac:(discriminate)).
  assert (Hoff : r_off r < a_off p' /\ off <= a_off p'
                 /\ (forall x, In x (rs' ++ flat_map pb_recs bs) -> o <= r_off x -> a_off p' <= r_off x)).
  { rewrite E9. cbv zeta.
    assert (Hx : forall x, In x (rs' ++ flat_map pb_recs bs) -> r_off r + 1 <= r_off x).
    { intros x Hx. apply in_app_or in Hx as [Hx|Hx].
      - pose proof (increasing_lb _ _ Hr2 x Hx). lia.
      - pose proof (chain_lb _ _ x H2 Hx). specialize (H3 r (or_introl eq_refl)). lia. }
    set (off1 := if off <=? r_off r then r_off r + 1 else off) in *.
    assert (Ho1 : off <= off1 /\ r_off r + 1 <= off1 /\ (off1 = off \/ off1 = r_off r + 1))
      by (unfold off1; destruct (off <=? r_off r) eqn:?; lia).
    clearbody off1.
    destruct ((len (erecs b rs') =? 0) && _) eqn:Ej.
    - assert (Hnil : rs' = []).
      { destruct rs' as [|r1 t]; [reflexivity|exfalso]. rewrite erecs_cons, len_app in Ej.
        pose proof (enc_record_nonempty compress decomp decomp_law (pb_base b) (pb_ts b) r1). pose proof (len_nonneg (erecs b t)). lia. }
      rewrite Hnil in *. split; [lia|]. split; [lia|].
      intros x Hx0 _. cbn [app] in Hx0. pose proof (chain_lb _ _ x H2 Hx0). lia.
    - split; [lia|]. split; [lia|].
      intros x Hx' Hox. specialize (Hx x Hx').
      assert (off <= r_off x) by (apply H8; [unfold remp; cbn [a_rs a_bs]; right; exact Hx'|exact Hox]).
      lia. }
  destruct Hoff as (Hf1 & Hf2 & Hf3).
  assert (Hrem : remp p' = rs' ++ flat_map pb_recs bs) by (unfold remp; rewrite E2, E3; reflexivity).
  split; [|split; [exact Hrem|split; [exact Hf1|exact Hf2]]].
  split; [lia|]. exists (r_off r + 1), lo_bs. rewrite E1, E2, E3, E5, E8.
  split; [exact Hr2|]. split; [exact H2|]. split; [intros x Hx; apply H3; right; exact Hx|].
  split; [lia|]. split; [lia|]. split; [intros _; lia|]. split; [intros _; lia|].
  rewrite Hrem. exact Hf3.
Qed.

(* entering the first batch with records after a run of record-less batches *)
Lemma inv_bstep : forall bs j off last el r0 p' lo_bs,
  o <= off -> chain lo_bs bs -> el < lo_bs -> last < lo_bs ->
  (forall r, In r (flat_map pb_recs bs) -> o <= r_off r -> off <= r_off r) ->
  bstep bs j off last el = ARec r0 p' ->
  exists pre, flat_map pb_recs bs = pre ++ r0 :: remp p' /\ pre = [] /\ Inv p' /\ r_off r0 < a_off p' /\ off <= a_off p'.
Proof.
  induction bs as [|b t IH]; intros j off last el r0 p' lo_bs Ho Hc Hel Hlast HJ Hs; [discriminate Hs|].
  cbn [bstep] in Hs. destruct (j <? 61); [discriminate|].
  destruct Hc as (C1 & C2 & C3 & C4 & C5).
  destruct (pb_recs b) as [|r rs'] eqn:Er.
  - cbn [flat_map]. rewrite Er. cbn [app].
    apply (IH (j - 61) off last (pb_base b + pb_lod b) r0 p' (pb_base b + pb_lod b + 1)); try assumption; try lia.
    intros x Hx. apply HJ. cbn [flat_map]. rewrite Er. exact Hx.
  - assert (HI : Inv (mkPos b (r :: rs') t (j - 61) (hdr_of compress b) off last el MPlain 0)).
    { split; [exact Ho|]. exists (pb_base b), (pb_base b + pb_lod b + 1).
      cbn [a_b a_rs a_bs a_j a_hdr a_off a_last a_el].
      split; [exact C3|]. split; [exact C5|].
      split; [intros x Hx; pose proof (proj1 (Forall_forall _ _) C4 x Hx); cbn in *; lia|].
      split; [lia|]. split; [lia|]. split; [intros H; discriminate H|]. split; [intros _; lia|].
      intros x Hx. apply HJ. cbn [flat_map]. rewrite Er. exact Hx. }
    assert (Hfin : forall md jj, rec_step md b r rs' t jj off el = ARec r0 p' ->
              exists pre, flat_map pb_recs (b :: t) = pre ++ r0 :: remp p' /\ pre = [] /\ Inv p' /\ r_off r0 < a_off p' /\ off <= a_off p').
    { intros md jj Hs'.
      destruct (inv_rec_step md MPlain 0 b r rs' t jj (j - 61) (hdr_of compress b) off last el r0 p' HI Hs') as (E0 & HI' & Hrem & Hlt & Hle).
      subst r0. exists []. cbn [flat_map app]. rewrite Er, Hrem.
      split; [reflexivity|]. split; [reflexivity|]. split; [exact HI'|]. split; [exact Hlt|exact Hle]. }
    destruct (pb_codec b =? 0).
    + apply (Hfin _ _ Hs).
    + destruct (cstep_inv compress decomp decomp_law _ _ _ _ _ _ _ _ _ Hs) as [_ Hs']. apply (Hfin _ _ Hs').
Qed.

Lemma step1_rec p r0 p' : Inv p -> step1 p = ARec r0 p' ->
  remp p = r0 :: remp p' /\ Inv p' /\ r_off r0 < a_off p' /\ a_off p <= a_off p'.
Proof.
  intros HI Hs. unfold ReaderV2Run.step1 in Hs. destruct p as [b rs bs j hdr off last el md lr].
  cbn [a_b a_rs a_bs a_j a_hdr a_off a_last a_el a_mode a_lr] in *. destruct rs as [|r rs'].
  - destruct HI as (Ho & lo_rs & lo_bs & H1 & H2 & H3 & H4 & H5 & H6 & H7 & H8).
    cbn [a_b a_rs a_bs a_j a_hdr a_off a_last a_el] in *.
    assert (HJ : forall x, In x (flat_map pb_recs bs) -> o <= r_off x -> off <= r_off x)
      by (intros x Hx; apply H8; unfold remp; cbn [a_rs a_bs app]; exact Hx).
    destruct (inv_bstep bs j off last el r0 p' lo_bs Ho H2 H5 (H6 eq_refl) HJ Hs) as (pre & E1 & E2 & E3 & E4 & E5).
    subst pre. unfold remp at 1. cbn [a_rs a_bs app]. rewrite E1. auto.
  - assert (Hfin : forall md' jj, rec_step md' b r rs' bs jj off el = ARec r0 p' ->
              remp (mkPos b (r :: rs') bs j hdr off last el md lr) = r0 :: remp p' /\ Inv p' /\ r_off r0 < a_off p' /\ off <= a_off p').
    { intros md' jj Hs'.
      destruct (inv_rec_step md' md lr b r rs' bs jj j hdr off last el r0 p' HI Hs') as (E0 & HI' & Hrem & Hlt & Hle).
      subst r0. unfold remp at 1. cbn [a_rs a_bs]. rewrite Hrem. auto. }
    destruct md.
    + apply (Hfin _ _ Hs).
    + destruct (cstep_inv compress decomp decomp_law _ _ _ _ _ _ _ _ _ Hs) as [_ Hs']. apply (Hfin _ _ Hs').
    + apply (Hfin _ _ Hs).
Qed.

(* the end of the response: the final offset is at or below every remaining record >= o *)
Lemma bstep_end : forall bs j off last el x lo_bs,
  chain lo_bs bs -> el < lo_bs -> last < lo_bs ->
  (forall r, In r (flat_map pb_recs bs) -> o <= r_off r -> off <= r_off r) ->
  bstep bs j off last el = AEnd x ->
  off <= x /\ forall r, In r (flat_map pb_recs bs) -> o <= r_off r -> x <= r_off r.
Proof.
  induction bs as [|b t IH]; intros j off last el x lo_bs Hc Hel Hlast HJ Hs.
  - cbn [bstep] in Hs. injection Hs as <-. unfold eoff0. cbv zeta. split; [|intros r []].
    destruct (el <? last) eqn:?; destruct (off <=? _) eqn:E; lia.
  - cbn [bstep] in Hs. destruct Hc as (C1 & C2 & C3 & C4 & C5).
    assert (Hall : forall r, In r (flat_map pb_recs (b :: t)) -> lo_bs <= r_off r)
      by (intros r Hr; apply (chain_lb (b :: t) lo_bs r); [cbn [chain]; auto|exact Hr]).
    destruct (j <? 61).
    + injection Hs as <-. unfold eoff0. cbv zeta. split; [destruct (el <? last) eqn:?; destruct (off <=? _) eqn:E; lia|].
      intros r Hr Hor. specialize (Hall r Hr). specialize (HJ r Hr Hor).
      destruct (el <? last) eqn:?; destruct (off <=? _) eqn:E; lia.
    + destruct (pb_recs b) as [|r1 rs'] eqn:Er.
      * destruct (IH (j - 61) off last (pb_base b + pb_lod b) x (pb_base b + pb_lod b + 1)) as [I1 I2]; try assumption; try lia.
        { intros r Hr. apply HJ. cbn [flat_map]. rewrite Er. exact Hr. }
        split; [exact I1|]. intros r Hr. apply I2. cbn [flat_map] in Hr. rewrite Er in Hr. exact Hr.
      * assert (Hx : x = eoff_in off el).
        { destruct (pb_codec b =? 0).
          - unfold ReaderV2Run.rec_step in Hs. cbv zeta in Hs. destruct (_ <? _) in Hs; [|discriminate]. injection Hs as <-. reflexivity.
          - unfold ReaderV2Run.cstep in Hs. destruct (_ <? _) in Hs; [injection Hs as <-; reflexivity|].
            unfold ReaderV2Run.rec_step in Hs. cbv zeta in Hs. destruct (_ <? _) in Hs; [|discriminate]. injection Hs as <-. reflexivity. }
        subst x. unfold eoff_in. split; [destruct (off <=? el) eqn:?; lia|].
        intros r Hr Hor. specialize (Hall r Hr). specialize (HJ r Hr Hor). destruct (off <=? el) eqn:?; lia.
Qed.

Lemma step1_end p x : Inv p -> step1 p = AEnd x ->
  a_off p <= x /\ forall r, In r (remp p) -> o <= r_off r -> x <= r_off r.
Proof.
  intros HI Hs. pose proof (inv_lb p HI) as Hlb.
  destruct HI as (Ho & lo_rs & lo_bs & H1 & H2 & H3 & H4 & H5 & H6 & H7 & H8).
  unfold ReaderV2Run.step1 in Hs. destruct (a_rs p) as [|r rs'] eqn:Ers.
  - assert (Hrm : remp p = flat_map pb_recs (a_bs p)) by (unfold remp; rewrite Ers; reflexivity).
    rewrite Hrm in *.
    apply (bstep_end (a_bs p) (a_j p) (a_off p) (a_last p) (a_el p) x lo_bs); try assumption.
    apply H6. reflexivity.
  - assert (Hx : x = eoff_in (a_off p) (a_el p)).
    { destruct (a_mode p).
      - unfold ReaderV2Run.rec_step in Hs. cbv zeta in Hs. destruct (_ <? _) in Hs; [|discriminate]. injection Hs as <-. reflexivity.
      - unfold ReaderV2Run.cstep in Hs. destruct (_ <? _) in Hs; [injection Hs as <-; reflexivity|].
        unfold ReaderV2Run.rec_step in Hs. cbv zeta in Hs. destruct (_ <? _) in Hs; [|discriminate]. injection Hs as <-. reflexivity.
      - unfold ReaderV2Run.rec_step in Hs. cbv zeta in Hs. destruct (_ <? _) in Hs; [|discriminate]. injection Hs as <-. reflexivity. }
    subst x. unfold eoff_in. split; [destruct (a_off p <=? a_el p) eqn:?; lia|].
    intros x Hx Hox. specialize (Hlb x Hx). specialize (H8 x Hx Hox). destruct (a_off p <=? a_el p) eqn:?; lia.
Qed.

(* Batch.ReadMessage: skips records below o, then delivers one or stops *)
Lemma a_read_spec : forall fuel p, Inv p ->
  match a_read compress o fuel p with
  | ADeliver r p' => exists sk, remp p = sk ++ r :: remp p' /\ Forall (fun x => r_off x < o) sk
                                /\ o <= r_off r /\ Inv p' /\ a_off p <= a_off p'
                                /\ Forall (fun x => r_off x < a_off p') (sk ++ [r])
  | AStop x => exists sk rest, remp p = sk ++ rest /\ Forall (fun x => r_off x < o) sk
                               /\ a_off p <= x /\ (forall r, In r rest -> o <= r_off r -> x <= r_off r)
  | AOut => True
  end.
Proof.
  induction fuel as [|f IH]; intros p HI; [exact I|].
  cbn [a_read]. destruct (step1 p) as [r p1|x] eqn:Es.
  - destruct (step1_rec p r p1 HI Es) as (E1 & HI1 & Hlt & Hle).
    destruct (r_off r <? o) eqn:Er.
    + specialize (IH p1 HI1). destruct (a_read compress o f p1) as [r2 p2|x2|]; [| |exact I].
      * destruct IH as (sk & F1 & F2 & F3 & F4 & F5 & F6).
        exists (r :: sk). rewrite E1, F1. split; [reflexivity|]. split; [constructor; [lia|exact F2]|].
        split; [exact F3|]. split; [exact F4|]. split; [lia|].
        cbn [app]. constructor; [lia|exact F6].
      * destruct IH as (sk & rest & F1 & F2 & F3 & F4).
        exists (r :: sk), rest. rewrite E1, F1. split; [reflexivity|]. split; [constructor; [lia|exact F2]|].
        split; [lia|exact F4].
    + exists []. cbn [app]. split; [exact E1|]. split; [constructor|]. split; [lia|]. split; [exact HI1|].
      split; [exact Hle|]. constructor; [exact Hlt|constructor].
  - destruct (step1_end p x HI Es) as [E1 E2]. exists [], (remp p). cbn [app].
    split; [reflexivity|]. split; [constructor|]. split; [exact E1|exact E2].
Qed.

Lemma filter_below sk : Forall (fun x => r_off x < o) sk -> filter (fun r => o <=? r_off r) sk = [].
Proof.
  induction 1 as [|x t Hx _ IH]; [reflexivity|]. cbn [filter]. replace (o <=? r_off x) with false by lia. exact IH.
Qed.

Lemma a_run_spec : forall fuel p acc ms x, Inv p -> a_run compress o fuel p acc = Some (ms, x) ->
  exists Rp Rs, remp p = Rp ++ Rs /\ ms = rev acc ++ mm (filter (fun r => o <=? r_off r) Rp)
                /\ Forall (fun r => r_off r < x) Rp
                /\ (forall r, In r Rs -> o <= r_off r -> x <= r_off r) /\ a_off p <= x.
Proof.
  induction fuel as [|f IH]; intros p acc ms x HI Hrun; [discriminate|].
  cbn [a_run] in Hrun. pose proof (a_read_spec (S f) p HI) as Hr.
  destruct (a_read compress o (S f) p) as [r p1|x1|]; [| |discriminate].
  - destruct Hr as (sk & F1 & F2 & F3 & F4 & F5 & F6).
    destruct (IH p1 (msg_of r :: acc) ms x F4 Hrun) as (Rp & Rs & G1 & G2 & G3 & G4 & G5).
    exists (sk ++ r :: Rp), Rs. split; [rewrite F1, G1, <- app_assoc; reflexivity|].
    split.
    + rewrite G2. cbn [rev]. rewrite filter_app, (filter_below sk F2). cbn [app filter].
      replace (o <=? r_off r) with true by lia. unfold mm. cbn [map]. rewrite <- app_assoc. reflexivity.
    + split; [|split; [exact G4|lia]].
      apply Forall_app. split.
      * apply Forall_app in F6 as [F6 _]. eapply Forall_impl; [|exact F6]. cbn. intros. lia.
      * constructor; [|exact G3]. apply Forall_app in F6 as [_ F6]. apply Forall_cons_iff in F6 as [F6 _]. lia.
  - injection Hrun as <- <-. destruct Hr as (sk & rest & F1 & F2 & F3 & F4).
    pose proof (proj1 HI) as Ho.
    exists sk, rest. split; [exact F1|]. split; [rewrite (filter_below sk F2); unfold mm; cbn; rewrite app_nil_r; reflexivity|].
    split; [eapply Forall_impl; [|exact F2]; cbn; intros; lia|]. split; [exact F4|exact F3].
Qed.

(* ---------------------------------------------------------------- progress *)
(* the records left of the current batch are all present *)
Definition covered (p : apos) : Prop :=
  match a_rs p with
  | [] => True
  | _ => match a_mode p with
         | MPending => plen_of compress (a_b p) <= a_j p
         | _ => len (erecs (a_b p) (a_rs p)) <= a_j p
         end
  end.

Lemma covered_step p r rs' : a_rs p = r :: rs' -> covered p ->
  exists p', step1 p = ARec r p' /\ a_rs p' = rs' /\ covered p'.
Proof.
  intros Hrs Hc. unfold covered in Hc. unfold ReaderV2Run.step1. rewrite Hrs in *.
  set (b := a_b p) in *. set (L := len (enc_record (pb_base b) (pb_ts b) r)).
  pose proof (len_nonneg (erecs b rs')) as Hn.
  assert (Hgo : forall md jj, md <> MPending -> len (erecs b (r :: rs')) <= jj ->
            exists p', rec_step md b r rs' (a_bs p) jj (a_off p) (a_el p) = ARec r p' /\ a_rs p' = rs' /\ covered p').
  { intros md jj Hmd Hjj. rewrite erecs_cons, len_app in Hjj. fold L in Hjj.
    unfold ReaderV2Run.rec_step. cbv zeta. fold L. replace (jj <? L) with false by lia.
    eexists. split; [reflexivity|]. cbn [a_rs]. split; [reflexivity|].
    unfold covered. cbn [a_rs a_mode a_b a_j]. destruct rs'; [exact I|]. destruct md; [lia|contradiction|lia]. }
  destruct (a_mode p).
  - apply Hgo; [discriminate|exact Hc].
  - unfold ReaderV2Run.cstep. fold b. replace (a_j p <? plen_of compress b) with false by lia.
    destruct (Hgo MInside (a_j p - plen_of compress b + len (erecs b (r :: rs'))) ltac:(discriminate) ltac:(lia)) as (p' & H1 & H2 & H3).
    exists p'. split; [exact H1|]. split; [exact H2|exact H3].
  - apply Hgo; [discriminate|exact Hc].
Qed.

Lemma a_read_delivers : forall rs p fuel,
  a_rs p = rs -> covered p -> (exists r, In r rs /\ o <= r_off r) -> (length rs <= fuel)%nat ->
  exists r p', a_read compress o fuel p = ADeliver r p'.
Proof.
  induction rs as [|r rs' IH]; intros p fuel Hrs Hc (r0 & Hin & Hge) Hf; [destruct Hin|].
  destruct fuel as [|f]; [cbn [length] in Hf; lia|]. cbn [a_read].
  destruct (covered_step p r rs' Hrs Hc) as (p' & Hs & Hrs' & Hc'). rewrite Hs.
  destruct (r_off r <? o) eqn:E.
  - destruct Hin as [<-|Hin]; [lia|].
    apply (IH p' f Hrs' Hc'); [exists r0; auto|cbn [length] in Hf; lia].
  - exists r, p'. reflexivity.
Qed.

Lemma a_run_nonempty fuel p acc ms x :
  Inv p -> a_run compress o fuel p acc = Some (ms, x) ->
  (exists r p', a_read compress o fuel p = ADeliver r p') -> ms <> [].
Proof.
  intros HI Hrun (r & p' & Hr). destruct fuel as [|f]; [discriminate|].
  cbn [a_run] in Hrun. pose proof (a_read_spec (S f) p HI) as Hsp. rewrite Hr in Hrun, Hsp.
  destruct Hsp as (sk & _ & _ & _ & HI' & _).
  destruct (a_run_spec f p' (msg_of r :: acc) ms x HI' Hrun) as (Rp & Rs & _ & G2 & _).
  rewrite G2. cbn [rev]. destruct (rev acc); discriminate.
Qed.

End Sound.
