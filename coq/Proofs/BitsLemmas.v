(* Proofs/BitsLemmas.v — relating two's-complement (Java/Go signed) operators on Z
   to unsigned 32-bit operators on N. *)
From Coq Require Import List NArith ZArith Bool Lia.
From Coq Require Import ZifyN ZifyNat ZifyBool.
From KV Require Import Lib.Bits.
Open Scope Z_scope.

Lemma of_N_u32 z : Z.of_N (u32 z) = z mod ZM32.
Proof.
  unfold u32, ZM32. rewrite Z2N.id; [reflexivity|].
  apply Z.mod_pos_bound. lia.
Qed.

Lemma u32_inj_mod a b : a mod ZM32 = b mod ZM32 -> u32 a = u32 b.
Proof. unfold u32. intros ->. reflexivity. Qed.

Lemma u32_of_N x : (x < M32)%N -> u32 (Z.of_N x) = x.
Proof.
  unfold u32, ZM32, M32. intros H. rewrite Z.mod_small by lia. lia.
Qed.

Lemma u32_lt z : (u32 z < M32)%N.
Proof.
  unfold u32, ZM32, M32.
  pose proof (Z.mod_pos_bound z 4294967296 ltac:(lia)). lia.
Qed.

Lemma wrap32_mod z : wrap32 z mod ZM32 = z mod ZM32.
Proof.
  unfold wrap32, ZM31, ZM32.
  rewrite Zminus_mod, Zmod_mod, <- Zminus_mod.
  f_equal. lia.
Qed.

Lemma u32_wrap32 z : u32 (wrap32 z) = u32 z.
Proof. apply u32_inj_mod, wrap32_mod. Qed.

Lemma wrap32_range z : in_i32 (wrap32 z).
Proof.
  unfold in_i32, wrap32, ZM31, ZM32.
  pose proof (Z.mod_pos_bound (z + 2147483648) 4294967296 ltac:(lia)). lia.
Qed.

Lemma wrap32_id z : in_i32 z -> wrap32 z = z.
Proof.
  unfold in_i32, wrap32, ZM31, ZM32. intros H.
  rewrite Z.mod_small by lia. lia.
Qed.

Lemma s32_wrap32 x : (x < M32)%N -> s32 x = wrap32 (Z.of_N x).
Proof.
  unfold s32, wrap32, M32, M31, ZM31, ZM32. intros H.
  rewrite N.mod_small by exact H.
  destruct (N.ltb_spec x 2147483648) as [Hl|Hg].
  - rewrite Z.mod_small by lia. lia.
  - replace (Z.of_N x + 2147483648) with ((Z.of_N x - 2147483648) + 1 * 4294967296) by lia.
    rewrite Z.mod_add by lia. rewrite Z.mod_small by lia. lia.
Qed.

Lemma u32_mul a b : u32 (wrap32 (a * b)) = mul32 (u32 a) (u32 b).
Proof.
  rewrite u32_wrap32. unfold mul32.
  apply N2Z.inj. rewrite of_N_u32, N2Z.inj_mod, N2Z.inj_mul, !of_N_u32.
  change (Z.of_N M32) with ZM32. rewrite <- Zmult_mod. reflexivity.
Qed.

Lemma u32_add a b : u32 (wrap32 (a + b)) = add32 (u32 a) (u32 b).
Proof.
  rewrite u32_wrap32. unfold add32.
  apply N2Z.inj. rewrite of_N_u32, N2Z.inj_mod, N2Z.inj_add, !of_N_u32.
  change (Z.of_N M32) with ZM32. rewrite <- Zplus_mod. reflexivity.
Qed.

Lemma N2Z_inj_lxor a b : Z.of_N (N.lxor a b) = Z.lxor (Z.of_N a) (Z.of_N b).
Proof.
  apply Z.bits_inj'. intros n Hn.
  rewrite Z.lxor_spec, !Z.testbit_of_N' by exact Hn. apply N.lxor_spec.
Qed.

Lemma N2Z_inj_land a b : Z.of_N (N.land a b) = Z.land (Z.of_N a) (Z.of_N b).
Proof.
  apply Z.bits_inj'. intros n Hn.
  rewrite Z.land_spec, !Z.testbit_of_N' by exact Hn. apply N.land_spec.
Qed.

Lemma N2Z_inj_shiftr a k : Z.of_N (N.shiftr a k) = Z.shiftr (Z.of_N a) (Z.of_N k).
Proof.
  apply Z.bits_inj'. intros n Hn.
  rewrite Z.shiftr_spec by exact Hn.
  rewrite Z.testbit_of_N' by exact Hn.
  replace (n + Z.of_N k) with (Z.of_N (Z.to_N n + k)) by lia.
  rewrite Z.testbit_of_N. apply N.shiftr_spec. lia.
Qed.

Lemma ZM32_pow : ZM32 = 2 ^ 32. Proof. reflexivity. Qed.

Lemma mod32_lxor a b : (Z.lxor a b) mod ZM32 = Z.lxor (a mod ZM32) (b mod ZM32).
Proof.
  rewrite ZM32_pow. apply Z.bits_inj'. intros n Hn.
  rewrite Z.lxor_spec.
  destruct (Z_lt_le_dec n 32) as [Hl|Hg].
  - rewrite !Z.mod_pow2_bits_low by lia. rewrite Z.lxor_spec. reflexivity.
  - rewrite !Z.mod_pow2_bits_high by lia. reflexivity.
Qed.

Lemma u32_lxor a b : u32 (Z.lxor a b) = N.lxor (u32 a) (u32 b).
Proof.
  apply N2Z.inj. rewrite N2Z_inj_lxor, !of_N_u32. apply mod32_lxor.
Qed.

Lemma u32_shl a k : 0 <= k -> u32 (wrap32 (a * 2 ^ k)) = shl32 (u32 a) (Z.to_N k).
Proof.
  intros Hk. rewrite u32_wrap32. unfold shl32.
  apply N2Z.inj. rewrite of_N_u32, N2Z.inj_mod, N2Z.inj_mul, N2Z.inj_pow, of_N_u32.
  rewrite Z2N.id by lia. change (Z.of_N 2) with 2. change (Z.of_N M32) with ZM32.
  rewrite Z.mul_mod_idemp_l by (unfold ZM32; lia). reflexivity.
Qed.

Lemma u32_ushr a k : 0 <= k -> u32 (wrap32 ((a mod ZM32) / 2 ^ k)) = N.shiftr (u32 a) (Z.to_N k).
Proof.
  intros Hk. rewrite u32_wrap32.
  apply N2Z.inj. rewrite of_N_u32, N2Z_inj_shiftr, of_N_u32, Z2N.id by lia.
  rewrite Z.shiftr_div_pow2 by lia.
  apply Z.mod_small.
  pose proof (Z.mod_pos_bound a ZM32 ltac:(unfold ZM32; lia)) as Hm.
  assert (0 < 2 ^ k) by (apply Z.pow_pos_nonneg; lia).
  split.
  - apply Z.div_pos; lia.
  - apply Z.le_lt_trans with (a mod ZM32); [|lia].
    apply Z.div_le_upper_bound; [lia|]. nia.
Qed.
