(* Proofs/ReaderRefute.v — C02: statements that the faithful model refutes, with concrete
   witnesses evaluated by vm_compute (each is replayed on the real code by harness/cmd/c02 f1). *)
From Coq Require Import List NArith ZArith Bool Lia.
From KV Require Import Lib.Bits Lib.Bytes Lib.Varint Model.MsgSetReader Model.ReaderModel Spec.FetchSpec.
Import ListNotations.
Open Scope Z_scope.

Definition no_compress : Z -> list N -> list N := fun _ b => b.
Definition no_decomp : Z -> list N -> option (list N) := fun _ b => Some b.

(* "after Batch.close, Conn.offset is never below the offset the fetch was issued at", for every
   well-formed layout, fetch offset and legal cut *)
Definition conn_offset_never_regresses : Prop :=
  forall log l o k fuel ms e f,
    log_ok log -> layout_ok log l -> valid_cut no_compress l o k ->
    fetch_run no_decomp fuel o (last_off log 0 + 1) (fetch_response no_compress l o k) (Z.of_nat k) false
      = Some (ms, e, f) ->
    o <= f.

(* "no call of Batch.ReadMessage panics" *)
Definition fetch_never_panics : Prop :=
  forall log l o k fuel,
    log_ok log -> layout_ok log l -> valid_cut no_compress l o k ->
    fetch_run no_decomp fuel o (last_off log 0 + 1) (fetch_response no_compress l o k) (Z.of_nat k) false <> None.

Ltac ok_tac :=
  cbn -[Z.pow];
  repeat match goal with
         | |- _ /\ _ => split
         | |- Forall _ (_ :: _) => constructor
         | |- Forall _ [] => constructor
         | |- bytes_ok _ => unfold bytes_ok
         | |- is_byte _ => reflexivity
         | |- True => exact I
         | |- _ = _ \/ _ => first [left; reflexivity | right]
         | |- _ -> _ => let H := fresh in intros H; try discriminate H; try (exfalso; apply H; reflexivity)
         | |- _ <> _ => discriminate
         | |- _ => progress cbn -[Z.pow]
         end; try reflexivity; try lia.

Definition ts0 : Z := 1600000000000.
Definition rec (o : Z) : record := mkRec o ts0 (Some [107%N]) (Some [118%N]) [].

(* F1: the partition ends with a retained record-less v2 batch covering offsets 100..104 *)
Definition f1_log : list record := [rec 90].
Definition f1_layout : layout := [mkPB 2 0 90 9 ts0 [rec 90]; mkPB 2 0 100 4 ts0 []].

Lemma f1_layout_ok : log_ok f1_log /\ layout_ok f1_log f1_layout /\ valid_cut no_compress f1_layout 100 61.
Proof.
  unfold log_ok, layout_ok, valid_cut, record_ok, pbatch_ok, small, f1_log, f1_layout, rec, ts0.
  ok_tac.
Qed.

Lemma f1_run :
  fetch_run no_decomp 100 100 101 (fetch_response no_compress f1_layout 100 61) 61 false = Some ([], EEOF, 1).
Proof. vm_compute. reflexivity. Qed.

Lemma empty_tail_batch_refutes : ~ conn_offset_never_regresses.
Proof.
  intros H.
  destruct f1_layout_ok as (Hl & Hy & Hc).
  specialize (H f1_log f1_layout 100 61%nat 100%nat [] EEOF 1 Hl Hy Hc).
  assert (E : last_off f1_log 0 + 1 = 91) by reflexivity. rewrite E in H.
  assert (R : fetch_run no_decomp 100 100 91 (fetch_response no_compress f1_layout 100 61) (Z.of_nat 61) false
              = Some ([], EEOF, 1)) by (vm_compute; reflexivity).
  specialize (H R). lia.
Qed.

(* two consecutive record-less batches between data: markRead panics *)
Definition p_log : list record := [rec 90; rec 130].
Definition p_layout : layout :=
  [mkPB 2 0 90 0 ts0 [rec 90]; mkPB 2 0 100 4 ts0 []; mkPB 2 0 110 4 ts0 []; mkPB 2 0 130 0 ts0 [rec 130]].

Lemma p_layout_ok : log_ok p_log /\ layout_ok p_log p_layout /\ valid_cut no_compress p_layout 90 262.
Proof.
  unfold log_ok, layout_ok, valid_cut, record_ok, pbatch_ok, small, p_log, p_layout, rec, ts0.
  ok_tac.
Qed.

Lemma consecutive_empty_batches_panic : ~ fetch_never_panics.
Proof.
  intros H.
  destruct p_layout_ok as (Hl & Hy & Hc).
  apply (H p_log p_layout 90 262%nat 100%nat Hl Hy Hc).
  vm_compute. reflexivity.
Qed.

(* the fetch offset lies in the compacted tail of the first batch and the response is cut
   inside the next one: Conn.offset moves back (no record is lost: the range is a hole) *)
Definition g_log : list record := [rec 47; rec 51].
Definition g_layout : layout := [mkPB 2 0 47 3 ts0 [rec 47]; mkPB 2 0 51 0 ts0 [rec 51]].

Lemma g_layout_ok : log_ok g_log /\ layout_ok g_log g_layout /\ valid_cut no_compress g_layout 50 135.
Proof.
  unfold log_ok, layout_ok, valid_cut, record_ok, pbatch_ok, small, g_log, g_layout, rec, ts0.
  ok_tac.
Qed.

Lemma compacted_tail_then_partial_batch_regresses :
  fetch_run no_decomp 100 50 52 (fetch_response no_compress g_layout 50 135) 135 false = Some ([], EEOF, 48).
Proof. vm_compute. reflexivity. Qed.
