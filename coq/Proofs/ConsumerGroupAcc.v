(* Proofs/ConsumerGroupAcc.v — state invariants of the ConsumerGroup model:
   routine accounting (Generation.Start / exit handler / close), no double close,
   no lost wake-up in gen.close, cancel-on-end. *)
From Coq Require Import List ZArith Bool Arith Lia ZifyNat ZifyBool.
From KV Require Import Model.ConsumerGroup Proofs.ConsumerGroupBase.
Import ListNotations.

Definition acc_of (k : nat) (f : fn) : bool := Nat.eqb (f_gen f) k && f_acc f.
Definition live_of (k : nat) (f : fn) : bool :=
  acc_of k f && match f_st f with FExited => false | _ => true end.
Definition count_live (k : nat) (l : list fn) : nat := length (filter (live_of k) l).
Definition has_acc (k : nat) (l : list fn) : bool := existsb (acc_of k) l.
Definition quiescent (p : pcs) : bool :=
  match p with
  | PStartHB | PStartWatch _ | PPublish | PWait | PCloseLock _ | PCloseWait _ => false
  | _ => true end.

(* ================= list lemmas ================= *)
Definition b2n (b : bool) : nat := if b then 1 else 0.

Lemma nth_lt : forall A (l : list A) i x, nth_error l i = Some x -> i < length l.
Proof. intros A l i x H. apply nth_error_Some. congruence. Qed.

Lemma nth_snoc : forall A (l : list A) x j y,
  nth_error (l ++ [x]) j = Some y -> nth_error l j = Some y \/ (j = length l /\ y = x).
Proof.
  intros A l x j y H. destruct (Nat.lt_ge_cases j (length l)) as [L|L].
  - rewrite nth_error_app1 in H by exact L. left; exact H.
  - rewrite nth_error_app2 in H by exact L. right.
    destruct (j - length l) as [|n] eqn:E.
    + cbn in H. inversion H. split; [lia|reflexivity].
    + cbn in H. destruct n; discriminate.
Qed.

Lemma nth_snoc_old : forall A (l : list A) x j y,
  nth_error l j = Some y -> nth_error (l ++ [x]) j = Some y.
Proof. intros. rewrite nth_error_app1; [assumption|eapply nth_lt; eauto]. Qed.

Lemma nth_snoc_new : forall A (l : list A) x, nth_error (l ++ [x]) (length l) = Some x.
Proof. intros. rewrite nth_error_app2 by lia. rewrite Nat.sub_diag. reflexivity. Qed.

Lemma In_upd : forall A i (y : A) l x, In x (upd i y l) -> x = y \/ In x l.
Proof.
  induction i; destruct l; cbn; intros x H; auto.
  - destruct H; auto.
  - destruct H as [H|H]; auto. apply IHi in H. tauto.
Qed.

Lemma count_live_app : forall k l f, count_live k (l ++ [f]) = count_live k l + b2n (live_of k f).
Proof.
  intros. unfold count_live. rewrite filter_app, app_length. cbn [filter].
  destruct (live_of k f); reflexivity.
Qed.

Lemma has_acc_app : forall k l f, has_acc k (l ++ [f]) = has_acc k l || acc_of k f.
Proof. intros. unfold has_acc. rewrite existsb_app. cbn [existsb]. rewrite orb_false_r. reflexivity. Qed.

Lemma count_live_upd : forall k l i f f', nth_error l i = Some f ->
  count_live k (upd i f' l) + b2n (live_of k f) = count_live k l + b2n (live_of k f').
Proof.
  intros k l. induction l as [|h t IH]; intros [|i] f f' H; cbn in H; try discriminate.
  - inversion H; subst. unfold count_live. cbn [upd filter].
    destruct (live_of k f), (live_of k f'); cbn; lia.
  - specialize (IH _ _ f' H). unfold count_live in *. cbn [upd filter].
    destruct (live_of k h); cbn [length]; lia.
Qed.

Lemma has_acc_upd : forall k l i f f', nth_error l i = Some f -> acc_of k f' = acc_of k f ->
  has_acc k (upd i f' l) = has_acc k l.
Proof.
  intros k l. induction l as [|h t IH]; intros [|i] f f' H E; cbn in H; try discriminate;
    unfold has_acc in *; cbn [upd existsb].
  - inversion H; subst. rewrite E. reflexivity.
  - f_equal. eapply IH; eauto.
Qed.

Lemma count_live_pos : forall k l i f, nth_error l i = Some f -> live_of k f = true -> 0 < count_live k l.
Proof.
  intros k l. induction l as [|h t IH]; intros [|i] f H E; cbn in H; try discriminate;
    unfold count_live in *; cbn [filter].
  - inversion H; subst. rewrite E. cbn; lia.
  - specialize (IH _ _ H E). destruct (live_of k h); cbn [length]; lia.
Qed.

Lemma count_live_zero : forall k l i f, count_live k l = 0 -> nth_error l i = Some f -> live_of k f = false.
Proof.
  intros k l i f Z H. destruct (live_of k f) eqn:E; [|reflexivity].
  pose proof (count_live_pos _ _ _ _ H E). lia.
Qed.

Lemma count_live_ex : forall k l, 0 < count_live k l -> exists i f, nth_error l i = Some f /\ live_of k f = true.
Proof.
  intros k l. induction l as [|h t IH]; unfold count_live in *; cbn [filter]; intro H.
  - cbn in H; lia.
  - destruct (live_of k h) eqn:E.
    + exists 0, h. split; [reflexivity|exact E].
    + destruct (IH H) as (i & f & A & B). exists (S i), f. split; assumption.
Qed.

Lemma live_acc : forall k f, live_of k f = true -> acc_of k f = true.
Proof. unfold live_of. intros k f H. apply andb_true_iff in H. tauto. Qed.

Lemma has_acc_nth : forall k l i f, nth_error l i = Some f -> acc_of k f = true -> has_acc k l = true.
Proof.
  intros. unfold has_acc. apply existsb_exists. exists f. split; [eapply nth_error_In; eauto|assumption].
Qed.

Lemma has_acc_ex : forall k l, has_acc k l = true -> exists i f, nth_error l i = Some f /\ acc_of k f = true.
Proof.
  intros k l H. apply existsb_exists in H. destruct H as (f & I & A).
  apply In_nth_error in I. destruct I as [i I]. exists i, f. tauto.
Qed.

Lemma count_live_has_acc : forall k l, 0 < count_live k l -> has_acc k l = true.
Proof.
  intros k l H. apply count_live_ex in H. destruct H as (i & f & A & B).
  eapply has_acc_nth; eauto using live_acc.
Qed.

Lemma no_gen : forall k l, (forall f, In f l -> f_gen f <> k) -> count_live k l = 0 /\ has_acc k l = false.
Proof.
  intros k l. induction l as [|h t IH]; intro H; [split; reflexivity|].
  destruct IH as [A B]; [intros; apply H; right; assumption|].
  assert (E : acc_of k h = false).
  { unfold acc_of. destruct (Nat.eqb_spec (f_gen h) k) as [e|e]; [|reflexivity].
    exfalso. eapply H; [left; reflexivity|exact e]. }
  unfold count_live, has_acc, live_of in *. cbn [filter existsb]. rewrite E. cbn [andb orb]. tauto.
Qed.

(* ================= the shape of a step ================= *)
Definition boring (e : event) : bool :=
  match e with
  | HGenNew _ _ | HStart _ _ _ | HFnRet _ _ | HDone _ | HJoined _ | HHeartbeat _ _ _ | HNextRet _ _ => false
  | _ => true end.

Inductive ext (P : event -> Prop) (h : list event) : list event -> Prop :=
| ext_nil : ext P h h
| ext_cons e h' : P e -> ext P h h' -> ext P h (e :: h').

Lemma ext_app : forall P h h', ext P h h' -> exists es, h' = es ++ h /\ Forall P es.
Proof.
  induction 1 as [|e h' Pe _ (es & E & F)].
  - exists []. split; [reflexivity|constructor].
  - exists (e :: es). subst. split; [reflexivity|constructor; assumption].
Qed.

Definition evP (s' : state) (e : event) : Prop :=
  boring e = true /\ (ev_is_runexit e = true -> pc s' = PExited).

Definition pcrel (p p' : pcs) : Prop :=
  p' = p \/ (quiescent p = true /\ quiescent p' = true) \/ (quiescent p = false /\ exists w, p' = PCloseLock w).

Definition closed_gen (g : gen) : gen :=
  if g_closed g then g else mkgen (g_mid g) true true (g_routines g) (g_joined g) (g_pub g).
Definition dec_gen (g : gen) : gen :=
  mkgen (g_mid g) (g_closed g) (g_done g) (g_routines g - 1)
        (if (g_routines g - 1 =? 0)%Z then true else g_joined g) (g_pub g).

Definition start_ctx (s s' : state) (k : nat) (kd : fkind) (g : gen) : Prop :=
  (kd = KUser /\ g_pub g = true /\ pc s' = pc s) \/
  (kd = KHeartbeat /\ k = cur s /\ pc s = PStartHB /\ pc s' = after_start (nwatch s)) \/
  (kd = KWatcher /\ k = cur s /\ exists n, pc s = PStartWatch (S n) /\ pc s' = after_start n).

Inductive shape (s s' : state) : Prop :=
| ShQuiet :
    gens s' = gens s -> fns s' = fns s -> panicked s' = false ->
    pcrel (pc s) (pc s') -> (pc s = PExited -> pc s' = PExited) ->
    ext (evP s') (hist s) (hist s') -> shape s s'
| ShNewGen m :
    pc s = PFetch -> gens s' = gens s ++ [new_gen m] -> fns s' = fns s -> panicked s' = false ->
    pc s' = PStartHB -> hist s' = HGenNew (length (gens s)) m :: HFetchReq :: hist s -> shape s s'
| ShStart k kd g :
    nth_error (gens s) k = Some g ->
    gens s' = (if g_closed g then gens s else upd k (g_inc g) (gens s)) ->
    fns s' = fns s ++ [mkfn k kd (negb (g_closed g)) FRunning false] ->
    panicked s' = false ->
    hist s' = HStart k (length (fns s)) (negb (g_closed g)) :: hist s ->
    start_ctx s s' k kd g -> shape s s'
| ShPub n g :
    pc s = PPublish -> nth_error (gens s) (cur s) = Some g ->
    gens s' = upd (cur s) (g_set_pub g) (gens s) -> fns s' = fns s -> panicked s' = false ->
    pc s' = PWait -> hist s' = HNextRet n (cur s) :: hist s -> shape s s'
| ShClose w g :
    pc s = PCloseLock w -> nth_error (gens s) (cur s) = Some g ->
    gens s' = upd (cur s) (closed_gen g) (gens s) -> fns s' = fns s ->
    panicked s' = negb (g_closed g) && g_done g ->
    (if (0 <? g_routines g)%Z then pc s' = PCloseWait w else quiescent (pc s') = true) ->
    ext (evP s') (if g_closed g then hist s else HDone (cur s) :: hist s) (hist s') -> shape s s'
| ShJoined w g :
    pc s = PCloseWait w -> nth_error (gens s) (cur s) = Some g -> g_joined g = true ->
    gens s' = gens s -> fns s' = fns s -> panicked s' = false ->
    quiescent (pc s') = true -> ext (evP s') (hist s) (hist s') -> shape s s'
| ShFnRet i f :
    nth_error (fns s) i = Some f -> f_st f = FRunning ->
    gens s' = gens s ->
    fns s' = upd i (f_set_st (if f_acc f then FReturned else FExited) f) (fns s) ->
    panicked s' = false -> pc s' = pc s ->
    (hist s' = HFnRet (f_gen f) i :: hist s \/
     (is_hb f = true /\ exists g, nth_error (gens s) (f_gen f) = Some g /\
        hist s' = HFnRet (f_gen f) i :: HHeartbeat (f_gen f) i (g_mid g) :: hist s)) ->
    shape s s'
| ShHb i f g :
    nth_error (fns s) i = Some f -> f_st f = FRunning -> is_hb f = true ->
    nth_error (gens s) (f_gen f) = Some g ->
    gens s' = gens s -> fns s' = fns s -> panicked s' = false -> pc s' = pc s ->
    hist s' = HHeartbeat (f_gen f) i (g_mid g) :: hist s -> shape s s'
| ShInit i f :
    nth_error (fns s) i = Some f -> f_st f = FRunning ->
    gens s' = gens s -> fns s' = upd i (f_set_init f) (fns s) ->
    panicked s' = false -> pc s' = pc s -> hist s' = hist s -> shape s s'
| ShHandler i f g :
    nth_error (fns s) i = Some f -> f_st f = FReturned -> f_acc f = true ->
    nth_error (gens s) (f_gen f) = Some g ->
    gens s' = upd (f_gen f) (dec_gen (closed_gen g)) (gens s) ->
    fns s' = upd i (f_set_st FExited f) (fns s) ->
    panicked s' = (negb (g_closed g) && g_done g) || ((g_routines g - 1 =? 0)%Z && g_joined g) ->
    pc s' = pc s ->
    hist s' = (if (g_routines g - 1 =? 0)%Z then [HJoined (f_gen f)] else []) ++
              (if g_closed g then [] else [HDone (f_gen f)]) ++ hist s ->
    shape s s'.

Definition is_quiet (l : label) : bool :=
  match l with
  | LCoord _ | LJoin _ | LSync _ _ | LFetch (AErr _) | LPublishAbort | LWaitClosed | LWaitGenDone
  | LLeaveCoord _ | LLeaveReq _ | LOfferAbort | LNextErr _ | LBackoffAbort | LBackoffFire
  | LNextCall _ | LNextClosed _ | LNextCtx _ | LCloseCall _ | LCloseRet _
  | LWatchTick _ WSame | LWatchTick _ WKafkaErr => true
  | _ => false end.

Ltac bm H := match type of H with context [match ?x with _ => _ end] => destruct x eqn:? end.

Ltac ext_tac :=
  repeat first [ apply ext_nil
               | apply ext_cons; [split; [reflexivity | cbn; intros; try discriminate; reflexivity] |] ].

Ltac pcrel_tac :=
  repeat match goal with H : pc ?s = _ |- _ => rewrite H end;
  first [ left; reflexivity
        | right; left; split; reflexivity
        | right; right; split; [reflexivity | eexists; reflexivity] ].

Lemma quiet_step : forall s l s', panicked s = false -> is_quiet l = true -> step s l = Some s' -> shape s s'.
Proof.
  intros s l s' Hp Hq H. unfold step in H. rewrite Hp in H.
  destruct l; cbn in Hq; repeat bm Hq; try discriminate Hq; clear Hq.
  all: unfold fail_ng, enter_leave, finish_leave, exit_run in H.
  all: repeat (cbn in H; bm H); try discriminate H.
  all: cbn in H; inversion H; subst s'; clear H.
  all: apply ShQuiet; cbn;
    [ reflexivity | reflexivity | assumption | pcrel_tac
    | intros; first [reflexivity | congruence] | ext_tac ].
Qed.

Lemma running_st : forall f, running f = true -> f_st f = FRunning.
Proof. unfold running. intros f. destruct (f_st f); intro; try discriminate; reflexivity. Qed.

Lemma do_start_shape : forall k kd s s1, do_start k kd s = Some s1 ->
  exists g, nth_error (gens s) k = Some g /\
    gens s1 = (if g_closed g then gens s else upd k (g_inc g) (gens s)) /\
    fns s1 = fns s ++ [mkfn k kd (negb (g_closed g)) FRunning false] /\
    panicked s1 = panicked s /\ pc s1 = pc s /\
    hist s1 = HStart k (length (fns s)) (negb (g_closed g)) :: hist s.
Proof.
  intros k kd s s1 H. unfold do_start in H.
  destruct (nth_error (gens s) k) as [g|] eqn:Eg; [|discriminate].
  exists g. split; [reflexivity|].
  destruct (g_closed g); inversion H; subst s1; cbn; repeat split; reflexivity.
Qed.

Lemma fn_return_shape : forall s i f s0 s',
  nth_error (fns s) i = Some f -> running f = true ->
  gens s0 = gens s -> fns s0 = fns s -> panicked s0 = false -> pc s0 = pc s ->
  (hist s0 = hist s \/
   (is_hb f = true /\ exists g, nth_error (gens s) (f_gen f) = Some g /\
      hist s0 = HHeartbeat (f_gen f) i (g_mid g) :: hist s)) ->
  s' = fn_return i f s0 -> shape s s'.
Proof.
  intros s i f s0 s' Hf Hr Hg Hfs Hp Hpc Hh ->.
  apply (ShFnRet s _ i f); cbn; try assumption; try congruence.
  - apply running_st; assumption.
  - destruct Hh as [Hh|(Hb & g & Eg & Hh)].
    + left. congruence.
    + right. split; [assumption|]. exists g. split; [assumption|]. congruence.
Qed.

Lemma step_shape : forall s l s', step s l = Some s' -> panicked s = false /\ shape s s'.
Proof.
  intros s l s' H.
  assert (Hp : panicked s = false).
  { unfold step in H. destruct (panicked s); [discriminate|reflexivity]. }
  split; [exact Hp|].
  destruct (is_quiet l) eqn:Hq; [eapply quiet_step; eauto|].
  unfold step in H; rewrite Hp in H.
  destruct l; cbn in Hq; repeat bm Hq; try discriminate Hq; clear Hq.
  - (* LFetch AOk *)
    destruct (pc s) eqn:Epc; try discriminate H. destruct (mid s) as [m|] eqn:Em; try discriminate H.
    inversion H; subst s'; clear H. apply (ShNewGen s _ m); cbn; auto.
  - (* LStartHB *)
    destruct (pc s) eqn:Epc; try discriminate H.
    destruct (do_start (cur s) KHeartbeat s) as [s1|] eqn:E; [|discriminate H].
    cbn in H. inversion H; subst s'; clear H.
    apply do_start_shape in E. destruct E as (g & Eg & A & B & C & D & F).
    apply (ShStart s _ (cur s) KHeartbeat g); cbn; try assumption; try congruence.
    right; left. repeat split; auto.
  - (* LStartWatch *)
    destruct (pc s) eqn:Epc; try discriminate H. destruct n as [|n]; [discriminate H|].
    destruct (do_start (cur s) KWatcher s) as [s1|] eqn:E; [|discriminate H].
    cbn in H. inversion H; subst s'; clear H.
    apply do_start_shape in E. destruct E as (g & Eg & A & B & C & D & F).
    apply (ShStart s _ (cur s) KWatcher g); cbn; try assumption; try congruence.
    right; right. repeat split; auto. exists n. split; auto.
  - (* LGenCloseLock *)
    destruct (pc s) eqn:Epc; try discriminate H.
    destruct (nth_error (gens s) (cur s)) as [g|] eqn:Eg; [|discriminate H].
    unfold end_gen in H.
    destruct (g_closed g) eqn:Ec; cbv beta iota zeta in H; cbn [g_routines] in H;
      destruct (0 <? g_routines g)%Z eqn:Er.
    all: unfold after_close, enter_leave, finish_leave, exit_run in H.
    all: destruct (g_done g) eqn:Ed.
    all: repeat (cbn [mid ev set_gens set_pc set_mid set_panic] in H; bm H); try discriminate H.
    all: inversion H; subst s'; clear H.
    all: apply (ShClose s _ w g); unfold closed_gen; rewrite ?Ec, ?Ed, ?Er; cbn;
      try reflexivity; try assumption; try congruence; ext_tac.
  - (* LGenCloseJoined *)
    destruct (pc s) eqn:Epc; try discriminate H.
    destruct (nth_error (gens s) (cur s)) as [g|] eqn:Eg; [|discriminate H].
    destruct (g_joined g) eqn:Ej; [|discriminate H].
    unfold after_close, enter_leave, finish_leave, exit_run in H.
    repeat (cbn in H; bm H); try discriminate H.
    all: cbn in H; inversion H; subst s'; clear H.
    all: apply (ShJoined s _ w g); cbn; try reflexivity; try assumption; try congruence; ext_tac.
  - (* LNextGen *)
    destruct (pc s) eqn:Epc; try discriminate H.
    destruct (nth_error (gens s) (cur s)) as [g|] eqn:Eg; [|discriminate H].
    destruct (mem n (nexts s)); [|discriminate H].
    inversion H; subst s'; clear H. apply (ShPub s _ n g); cbn; auto.
  - (* LStart *)
    destruct (nth_error (gens s) k) as [g0|] eqn:Eg0; [|discriminate H].
    destruct (g_pub g0) eqn:Epub; [|discriminate H].
    apply do_start_shape in H. destruct H as (g & Eg & A & B & C & D & F).
    assert (g = g0) by congruence. subst g0.
    apply (ShStart s _ k KUser g); try assumption; try congruence.
    left. auto.
  - (* LFnReturn *)
    destruct (nth_error (fns s) f) as [fn|] eqn:Ef; [|discriminate H].
    destruct (is_user fn && running fn) eqn:Ec; [|discriminate H].
    apply andb_true_iff in Ec. destruct Ec as [_ Er]. inversion H.
    eapply fn_return_shape; eauto.
  - (* LFnSeeDone *)
    destruct (nth_error (fns s) f) as [fn|] eqn:Ef; [|discriminate H].
    match type of H with (if ?c then _ else _) = _ => destruct c eqn:Ec end; [|discriminate H].
    apply andb_true_iff in Ec. destruct Ec as [Ec _]. apply andb_true_iff in Ec. destruct Ec as [Er _].
    inversion H. eapply fn_return_shape; eauto.
  - (* LHbTick *)
    destruct (nth_error (fns s) f) as [fn|] eqn:Ef; [|discriminate H].
    destruct (running fn && is_hb fn) eqn:Ec; [|discriminate H].
    apply andb_true_iff in Ec. destruct Ec as [Er Eh].
    destruct (nth_error (gens s) (f_gen fn)) as [g|] eqn:Eg; [|discriminate H].
    destruct a as [|e].
    + inversion H; subst s'; clear H.
      apply (ShHb s _ f fn g); cbn; auto using running_st.
    + inversion H.
      eapply (fn_return_shape s f fn (ev (HHeartbeat (f_gen fn) f (g_mid g)) s)); eauto.
  - (* LWatchInit *)
    destruct (nth_error (fns s) f) as [fn|] eqn:Ef; [|discriminate H].
    match type of H with (if ?c then _ else _) = _ => destruct c eqn:Ec end; [|discriminate H].
    apply andb_true_iff in Ec. destruct Ec as [Ec _]. apply andb_true_iff in Ec. destruct Ec as [Er _].
    destruct a as [|e].
    + inversion H; subst s'; clear H.
      apply (ShInit s _ f fn); cbn; auto using running_st.
    + inversion H. eapply fn_return_shape; eauto.
  - (* LWatchTick WChanged *)
    destruct (nth_error (fns s) f) as [fn|] eqn:Ef; [|discriminate H].
    match type of H with (if ?c then _ else _) = _ => destruct c eqn:Ec end; [|discriminate H].
    apply andb_true_iff in Ec. destruct Ec as [Ec _]. apply andb_true_iff in Ec. destruct Ec as [Er _].
    inversion H. eapply fn_return_shape; eauto.
  - (* LWatchTick WDropped *)
    destruct (nth_error (fns s) f) as [fn|] eqn:Ef; [|discriminate H].
    match type of H with (if ?c then _ else _) = _ => destruct c eqn:Ec end; [|discriminate H].
    apply andb_true_iff in Ec. destruct Ec as [Ec _]. apply andb_true_iff in Ec. destruct Ec as [Er _].
    inversion H. eapply fn_return_shape; eauto.
  - (* LFnHandler *)
    destruct (nth_error (fns s) f) as [fn|] eqn:Ef; [|discriminate H].
    destruct (f_st fn) eqn:Est; try discriminate H.
    destruct (f_acc fn) eqn:Ea; [|discriminate H].
    unfold handler in H.
    destruct (nth_error (gens s) (f_gen fn)) as [g|] eqn:Eg; [|discriminate H].
    unfold end_gen in H.
    destruct (g_closed g) eqn:Ec; cbv beta iota zeta in H;
      cbn [g_routines g_closed g_done g_joined g_mid g_pub] in H;
      destruct (g_routines g - 1 =? 0)%Z eqn:Er; cbv beta iota zeta in H;
      destruct (g_done g) eqn:Ed; destruct (g_joined g) eqn:Ej;
      inversion H; subst s'; clear H.
    all: apply (ShHandler s _ f fn g); try assumption;
      unfold dec_gen, closed_gen; rewrite ?Ec; cbn [g_routines g_closed g_done g_joined g_mid g_pub];
      rewrite ?Er, ?Ed, ?Ej; cbn; try reflexivity; try assumption.
Qed.

(* ================= G1: accounting, independent of the control point ================= *)
Definition F1 (gs : list gen) (fs : list fn) : Prop :=
  forall i f, nth_error fs i = Some f ->
    exists g, nth_error gs (f_gen f) = Some g /\
      (f_acc f = false \/ f_st f = FExited -> g_closed g = true).
Definition F2 (gs : list gen) (fs : list fn) : Prop :=
  forall k g, nth_error gs k = Some g ->
    g_closed g = g_done g /\ g_routines g = Z.of_nat (count_live k fs) /\
    (g_joined g = true <-> (g_closed g = true /\ g_routines g = 0%Z /\ has_acc k fs = true)).
Definition G1 (gs : list gen) (fs : list fn) : Prop := F1 gs fs /\ F2 gs fs.

Lemma nth_upd_eq : forall A (l : list A) k x y, nth_error l k = Some x -> nth_error (upd k y l) k = Some y.
Proof. intros. apply nth_error_upd_same. eapply nth_lt; eauto. Qed.

Lemma nth_upd_cases : forall A (l : list A) i x y j z,
  nth_error l i = Some x -> nth_error (upd i y l) j = Some z ->
  (j = i /\ z = y) \/ (j <> i /\ nth_error l j = Some z).
Proof.
  intros A l i x y j z Hi Hj. destruct (Nat.eq_dec i j) as [e|e].
  - subst j. rewrite (nth_upd_eq _ _ _ _ _ Hi) in Hj. inversion Hj. left; auto.
  - rewrite nth_error_upd_other in Hj by exact e. right; auto.
Qed.

Lemma cg_closed : forall g, g_closed (closed_gen g) = true.
Proof. intro g. unfold closed_gen. destruct (g_closed g) eqn:E; [exact E|reflexivity]. Qed.
Lemma cg_routines : forall g, g_routines (closed_gen g) = g_routines g.
Proof. intro g. unfold closed_gen. destruct (g_closed g); reflexivity. Qed.
Lemma cg_joined : forall g, g_joined (closed_gen g) = g_joined g.
Proof. intro g. unfold closed_gen. destruct (g_closed g); reflexivity. Qed.
Lemma cg_mid : forall g, g_mid (closed_gen g) = g_mid g.
Proof. intro g. unfold closed_gen. destruct (g_closed g); reflexivity. Qed.
Lemma cg_pub : forall g, g_pub (closed_gen g) = g_pub g.
Proof. intro g. unfold closed_gen. destruct (g_closed g); reflexivity. Qed.
Lemma cg_done : forall g, g_closed g = g_done g -> g_done (closed_gen g) = true.
Proof. intros g H. unfold closed_gen. destruct (g_closed g) eqn:E; [congruence|reflexivity]. Qed.

Lemma F1_upd_gen : forall gs fs k g g',
  nth_error gs k = Some g -> (g_closed g = true -> g_closed g' = true) ->
  F1 gs fs -> F1 (upd k g' gs) fs.
Proof.
  intros gs fs k g g' Hk Hc H i f Hf. destruct (H i f Hf) as (g0 & E & C).
  destruct (Nat.eq_dec k (f_gen f)) as [e|e].
  - subst k. exists g'. split; [eapply nth_upd_eq; eauto|]. intro X. apply Hc.
    assert (g0 = g) by congruence. subst g0. auto.
  - exists g0. rewrite nth_error_upd_other by exact e. auto.
Qed.

Lemma G1_samefields : forall gs fs k g g',
  nth_error gs k = Some g ->
  g_closed g' = g_closed g -> g_done g' = g_done g -> g_routines g' = g_routines g ->
  g_joined g' = g_joined g ->
  G1 gs fs -> G1 (upd k g' gs) fs.
Proof.
  intros gs fs k g g' Hk A B C D [H1 H2]. split.
  - eapply F1_upd_gen; [exact Hk|congruence|exact H1].
  - intros k' g0 H0. destruct (nth_upd_cases _ _ _ _ _ _ _ Hk H0) as [[-> ->]|[N H0']].
    + rewrite A, B, C, D. apply H2; assumption.
    + apply H2; assumption.
Qed.

Lemma G1_newgen : forall gs fs m, G1 gs fs -> G1 (gs ++ [new_gen m]) fs.
Proof.
  intros gs fs m [H1 H2]. split.
  - intros i f Hf. destruct (H1 i f Hf) as (g & E & C). exists g. split; [apply nth_snoc_old; exact E|exact C].
  - intros k g Hk. apply nth_snoc in Hk. destruct Hk as [Hk|[-> ->]]; [apply H2; exact Hk|].
    destruct (no_gen (length gs) fs) as [A B].
    { intros f I e. apply In_nth_error in I. destruct I as [i I].
      destruct (H1 i f I) as (g & E & _). apply nth_lt in E. lia. }
    cbn [new_gen g_closed g_done g_routines g_joined]. rewrite A, B.
    split; [reflexivity|]. split; [reflexivity|]. split; [discriminate|intros (X & _); discriminate].
Qed.

Lemma acc_of_other : forall k k' f, f_gen f = k -> k <> k' -> acc_of k' f = false.
Proof. intros k k' f E N. unfold acc_of. destruct (Nat.eqb_spec (f_gen f) k'); [congruence|reflexivity]. Qed.
Lemma live_of_other : forall k k' f, f_gen f = k -> k <> k' -> live_of k' f = false.
Proof. intros. unfold live_of. erewrite acc_of_other; eauto. Qed.

Lemma G1_start : forall gs fs k kd g, G1 gs fs -> nth_error gs k = Some g ->
  G1 (if g_closed g then gs else upd k (g_inc g) gs)
     (fs ++ [mkfn k kd (negb (g_closed g)) FRunning false]).
Proof.
  intros gs fs k kd g [H1 H2] Hk. destruct (g_closed g) eqn:Ec; cbn [negb].
  - split.
    + intros i f Hf. apply nth_snoc in Hf. destruct Hf as [Hf|[-> ->]]; [apply H1 in Hf; exact Hf|].
      cbn [f_gen f_acc f_st]. exists g. auto.
    + intros k' g' Hk'. rewrite count_live_app, has_acc_app.
      unfold live_of, acc_of. cbn [f_gen f_acc f_st]. rewrite !andb_false_r. cbn [b2n andb].
      rewrite Nat.add_0_r, orb_false_r. apply H2; exact Hk'.
  - split.
    + intros i f Hf. apply nth_snoc in Hf. destruct Hf as [Hf|[-> ->]].
      * eapply F1_upd_gen; [exact Hk|intro X; exact X|exact H1|exact Hf].
      * cbn [f_gen f_acc f_st]. exists (g_inc g). split; [eapply nth_upd_eq; eauto|].
        intros [X|X]; discriminate.
    + intros k' g' Hk'. rewrite count_live_app, has_acc_app.
      destruct (nth_upd_cases _ _ _ _ _ _ _ Hk Hk') as [[-> ->]|[N Hk'']].
      * destruct (H2 k g Hk) as (A & B & C).
        unfold live_of, acc_of. cbn [f_gen f_acc f_st g_inc g_closed g_done g_routines g_joined].
        rewrite Nat.eqb_refl. cbn [andb b2n]. rewrite orb_true_r.
        split; [exact A|]. split; [lia|].
        split; [intro J; apply C in J; destruct J as (X & _); congruence|intros (X & _); congruence].
      * rewrite (live_of_other k k'), (acc_of_other k k') by (auto; reflexivity).
        cbn [b2n]. rewrite Nat.add_0_r, orb_false_r. apply H2; exact Hk''.
Qed.

Lemma G1_close : forall gs fs k g, G1 gs fs -> nth_error gs k = Some g ->
  G1 (upd k (closed_gen g) gs) fs /\ negb (g_closed g) && g_done g = false.
Proof.
  intros gs fs k g [H1 H2] Hk. destruct (H2 k g Hk) as (A & B & C). split.
  - split.
    + eapply F1_upd_gen; [exact Hk|intros _; apply cg_closed|exact H1].
    + intros k' g' Hk'. destruct (nth_upd_cases _ _ _ _ _ _ _ Hk Hk') as [[-> ->]|[N Hk'']]; [|apply H2; exact Hk''].
      rewrite cg_closed, cg_done, cg_routines, cg_joined by exact A.
      split; [reflexivity|]. split; [exact B|].
      destruct (g_closed g) eqn:Ec; [exact C|].
      split.
      * intro J. apply C in J. destruct J as (X & _); discriminate.
      * intros (_ & R & Hacc). exfalso.
        apply has_acc_ex in Hacc. destruct Hacc as (i & f & Hf & Ha).
        destruct (H1 i f Hf) as (g0 & E0 & C0).
        unfold acc_of in Ha. apply andb_true_iff in Ha. destruct Ha as [Hg Hacc].
        apply Nat.eqb_eq in Hg. rewrite Hg in E0. assert (g0 = g) by congruence. subst g0.
        assert (L : live_of k f = true).
        { unfold live_of, acc_of. rewrite Hg, Nat.eqb_refl, Hacc. cbn [andb].
          destruct (f_st f) eqn:Es; try reflexivity. rewrite C0 in Ec by (right; reflexivity). discriminate. }
        pose proof (count_live_pos _ _ _ _ Hf L). lia.
  - rewrite <- A. destruct (g_closed g); reflexivity.
Qed.

Lemma G1_fn_upd : forall gs fs i f f',
  nth_error fs i = Some f -> f_gen f' = f_gen f -> f_acc f' = f_acc f ->
  (forall k, live_of k f' = live_of k f) ->
  (f_st f' = FExited -> f_acc f = false \/ f_st f = FExited) ->
  G1 gs fs -> G1 gs (upd i f' fs).
Proof.
  intros gs fs i f f' Hf Eg Ea El Est [H1 H2]. split.
  - intros j fj Hj. destruct (nth_upd_cases _ _ _ _ _ _ _ Hf Hj) as [[-> ->]|[N Hj']]; [|apply H1 in Hj'; exact Hj'].
    destruct (H1 i f Hf) as (g & E & C). exists g. rewrite Eg, Ea. split; [exact E|].
    intros [X|X]; apply C; auto.
  - intros k g Hk. pose proof (count_live_upd k fs i f f' Hf) as Q. rewrite El in Q.
    assert (Q' : count_live k (upd i f' fs) = count_live k fs) by lia. rewrite Q'.
    rewrite (has_acc_upd k fs i f f' Hf); [apply H2; exact Hk|].
    unfold acc_of. rewrite Eg, Ea. reflexivity.
Qed.

Lemma G1_fnret : forall gs fs i f, G1 gs fs -> nth_error fs i = Some f -> f_st f = FRunning ->
  G1 gs (upd i (f_set_st (if f_acc f then FReturned else FExited) f) fs).
Proof.
  intros gs fs i f H Hf Hs. eapply G1_fn_upd; eauto.
  - intro k. unfold live_of, acc_of. cbn [f_set_st f_gen f_acc f_st]. rewrite Hs.
    destruct (f_acc f); [reflexivity|]. rewrite !andb_false_r. reflexivity.
  - cbn [f_set_st f_st]. destruct (f_acc f); [discriminate|auto].
Qed.

Lemma G1_init : forall gs fs i f, G1 gs fs -> nth_error fs i = Some f -> G1 gs (upd i (f_set_init f) fs).
Proof.
  intros gs fs i f H Hf. eapply G1_fn_upd; eauto.
Qed.

Lemma G1_handler : forall gs fs i f g, G1 gs fs ->
  nth_error fs i = Some f -> f_st f = FReturned -> f_acc f = true -> nth_error gs (f_gen f) = Some g ->
  G1 (upd (f_gen f) (dec_gen (closed_gen g)) gs) (upd i (f_set_st FExited f) fs) /\
  (negb (g_closed g) && g_done g) || ((g_routines g - 1 =? 0)%Z && g_joined g) = false.
Proof.
  intros gs fs i f g [H1 H2] Hf Hs Ha Hk.
  destruct (H2 _ g Hk) as (A & B & C).
  assert (L : live_of (f_gen f) f = true).
  { unfold live_of, acc_of. rewrite Nat.eqb_refl, Ha, Hs. reflexivity. }
  pose proof (count_live_pos _ _ _ _ Hf L) as Pos.
  assert (J : g_joined g = false).
  { destruct (g_joined g); [|reflexivity]. destruct C as [C _]. destruct (C eq_refl) as (_ & R & _). lia. }
  assert (L' : forall k, live_of k (f_set_st FExited f) = false).
  { intro k. unfold live_of. cbn [f_set_st f_st]. apply andb_false_r. }
  assert (A' : forall k, acc_of k (f_set_st FExited f) = acc_of k f) by reflexivity.
  split.
  - split.
    + intros j fj Hj. destruct (nth_upd_cases _ _ _ _ _ _ _ Hf Hj) as [[-> ->]|[N Hj']].
      * cbn [f_set_st f_gen]. exists (dec_gen (closed_gen g)).
        split; [eapply nth_upd_eq; eauto|]. intros _. cbn [dec_gen g_closed]. apply cg_closed.
      * eapply F1_upd_gen; [exact Hk|intros _; cbn [dec_gen g_closed]; apply cg_closed|exact H1|exact Hj'].
    + intros k g' Hk'. pose proof (count_live_upd k fs i f (f_set_st FExited f) Hf) as Q.
      rewrite L' in Q. rewrite (has_acc_upd k fs i f _ Hf) by apply A'.
      destruct (nth_upd_cases _ _ _ _ _ _ _ Hk Hk') as [[-> ->]|[N Hk'']].
      * rewrite L in Q. cbn [b2n] in Q.
        cbn [dec_gen g_closed g_done g_routines g_joined].
        rewrite cg_closed, cg_done, cg_routines, cg_joined, J by exact A.
        split; [reflexivity|]. split; [lia|].
        destruct (Z.eqb_spec (g_routines g - 1) 0) as [e|e].
        -- split; [intros _|reflexivity]. split; [reflexivity|]. split; [lia|].
           eapply has_acc_nth; eauto using live_acc.
        -- split; [discriminate|]. intros (_ & R & _). lia.
      * rewrite (live_of_other (f_gen f) k) in Q by auto. cbn [b2n] in Q.
        assert (Q' : count_live k (upd i (f_set_st FExited f) fs) = count_live k fs) by lia.
        rewrite Q'. apply H2; exact Hk''.
  - rewrite J, andb_false_r, orb_false_r, <- A. destruct (g_closed g); reflexivity.
Qed.

Ltac inv_shape Sh :=
  destruct Sh as [ Hg Hf Hp Hpc Hex Hh
                 | m Hpc Hg Hf Hp Hpc' Hh
                 | k kd g Hk Hg Hf Hp Hh Hctx
                 | n g Hpc Hk Hg Hf Hp Hpc' Hh
                 | w g Hpc Hk Hg Hf Hp Hpc' Hh
                 | w g Hpc Hk Hj Hg Hf Hp Hpc' Hh
                 | i f Hi Hst Hg Hf Hp Hpc Hh
                 | i f g Hi Hst Hhb Hk Hg Hf Hp Hpc Hh
                 | i f Hi Hst Hg Hf Hp Hpc Hh
                 | i f g Hi Hst Hacc Hk Hg Hf Hp Hpc Hh ].

Lemma G1_shape : forall s s', shape s s' -> G1 (gens s) (fns s) ->
  G1 (gens s') (fns s') /\ panicked s' = false.
Proof.
  intros s s' Sh H. inv_shape Sh; rewrite ?Hg, ?Hf, ?Hp.
  - auto.
  - split; [apply G1_newgen; exact H|reflexivity].
  - split; [apply G1_start; assumption|reflexivity].
  - split; [|reflexivity]. eapply G1_samefields; eauto.
  - apply G1_close; assumption.
  - auto.
  - split; [apply G1_fnret; assumption|reflexivity].
  - auto.
  - split; [apply G1_init; assumption|reflexivity].
  - apply G1_handler; assumption.
Qed.

(* ================= G2: accounting against the control point of run ================= *)
Definition cd (g : gen) : Prop := g_closed g = true /\ g_routines g = 0%Z.

Record G2 (gs : list gen) (fs : list fn) (p : pcs) : Prop := {
  g2_q : quiescent p = true -> forall k g, nth_error gs k = Some g -> cd g;
  g2_nq : quiescent p = false ->
          0 < length gs /\ forall k g, nth_error gs k = Some g -> k < pred (length gs) -> cd g;
  g2_cw : forall w, p = PCloseWait w ->
          exists g, nth_error gs (pred (length gs)) = Some g /\ g_closed g = true /\
                    has_acc (pred (length gs)) fs = true;
  g2_hb : p = PStartHB ->
          exists g, nth_error gs (pred (length gs)) = Some g /\ g_closed g = false /\ g_pub g = false /\
                    forall f, In f fs -> f_gen f <> pred (length gs);
  g2_acc : forall f, In f fs -> is_hb f = true -> f_acc f = true }.

Lemma G2_quiet : forall gs fs p p', pcrel p p' -> G2 gs fs p -> G2 gs fs p'.
Proof.
  intros gs fs p p' R H. destruct R as [E | [[Q Q'] | [Q [w E]]]].
  - subst p'. exact H.
  - constructor.
    + intros _. apply (g2_q _ _ _ H Q).
    + intro X. congruence.
    + intros w E. rewrite E in Q'. discriminate.
    + intros E. rewrite E in Q'. discriminate.
    + apply (g2_acc _ _ _ H).
  - subst p'. constructor.
    + discriminate.
    + intros _. apply (g2_nq _ _ _ H Q).
    + discriminate.
    + discriminate.
    + apply (g2_acc _ _ _ H).
Qed.

Lemma G2_newgen : forall gs fs m, G1 gs fs -> G2 gs fs PFetch -> G2 (gs ++ [new_gen m]) fs PStartHB.
Proof.
  intros gs fs m [H1 _] H.
  assert (L : pred (length (gs ++ [new_gen m])) = length gs) by (rewrite app_length; cbn [length]; lia).
  constructor; rewrite ?L.
  - discriminate.
  - intros _. split; [rewrite app_length; cbn [length]; lia|].
    intros k g Hk Hlt. apply nth_snoc in Hk. destruct Hk as [Hk|[-> _]]; [|lia].
    eapply (g2_q _ _ _ H); [reflexivity|exact Hk].
  - discriminate.
  - intros _. exists (new_gen m). split; [apply nth_snoc_new|]. split; [reflexivity|]. split; [reflexivity|].
    intros f I e. apply In_nth_error in I. destruct I as [i I].
    destruct (H1 i f I) as (g & E & _). apply nth_lt in E. lia.
  - apply (g2_acc _ _ _ H).
Qed.

Definition start_gens (k : nat) (g : gen) (gs : list gen) : list gen :=
  if g_closed g then gs else upd k (g_inc g) gs.

Lemma sg_length : forall k g gs, length (start_gens k g gs) = length gs.
Proof. intros. unfold start_gens. destruct (g_closed g); [reflexivity|apply upd_length]. Qed.

Lemma sg_nth : forall k g gs k' g', nth_error gs k = Some g ->
  nth_error (start_gens k g gs) k' = Some g' ->
  nth_error gs k' = Some g' \/ (k' = k /\ g_closed g = false /\ g' = g_inc g).
Proof.
  intros k g gs k' g' Hk H. unfold start_gens in H. destruct (g_closed g) eqn:Ec; [left; exact H|].
  destruct (nth_upd_cases _ _ _ _ _ _ _ Hk H) as [[-> ->]|[N H']]; auto.
Qed.

Lemma sg_other : forall k g gs k', k' <> k -> nth_error (start_gens k g gs) k' = nth_error gs k'.
Proof.
  intros. unfold start_gens. destruct (g_closed g); [reflexivity|]. apply nth_error_upd_other. auto.
Qed.

Lemma sg_keep : forall k g gs k' g', nth_error gs k = Some g -> nth_error gs k' = Some g' ->
  g_closed g' = true -> nth_error (start_gens k g gs) k' = Some g'.
Proof.
  intros k g gs k' g' Hk Hk' C. destruct (Nat.eq_dec k' k) as [e|e].
  - subst k'. assert (g' = g) by congruence. subst g'. unfold start_gens. rewrite C. exact Hk.
  - rewrite sg_other by exact e. exact Hk'.
Qed.

Lemma G2_start_user : forall gs fs p k g, G2 gs fs p -> nth_error gs k = Some g -> g_pub g = true ->
  G2 (start_gens k g gs) (fs ++ [mkfn k KUser (negb (g_closed g)) FRunning false]) p.
Proof.
  intros gs fs p k g H Hk Hpub. constructor; rewrite ?sg_length.
  - intros Q k' g' Hk'. destruct (sg_nth _ _ _ _ _ Hk Hk') as [O|(-> & C & ->)].
    + eapply (g2_q _ _ _ H); eauto.
    + destruct (g2_q _ _ _ H Q _ _ Hk) as [X _]. congruence.
  - intros Q. destruct (g2_nq _ _ _ H Q) as [NE Hlt]. split; [exact NE|].
    intros k' g' Hk' L. destruct (sg_nth _ _ _ _ _ Hk Hk') as [O|(-> & C & ->)].
    + eapply Hlt; eauto.
    + destruct (Hlt _ _ Hk L) as [X _]. congruence.
  - intros w E. destruct (g2_cw _ _ _ H w E) as (gc & Egc & Cc & Ha). exists gc.
    split; [eapply sg_keep; eauto|]. split; [exact Cc|]. rewrite has_acc_app, Ha. reflexivity.
  - intros E. destruct (g2_hb _ _ _ H E) as (gc & Egc & Cc & Pc & Hno).
    assert (N : k <> pred (length gs)) by (intro e; subst k; congruence).
    exists gc. split; [rewrite sg_other by auto; exact Egc|]. split; [exact Cc|]. split; [exact Pc|].
    intros f I. apply in_app_iff in I. destruct I as [I|[<-|[]]]; [apply Hno; exact I|exact N].
  - intros f I. apply in_app_iff in I. destruct I as [I|[<-|[]]]; [apply (g2_acc _ _ _ H); exact I|discriminate].
Qed.

Lemma G2_nq_step : forall gs fs p gs' fs' p', G2 gs fs p ->
  quiescent p = false -> quiescent p' = false -> p' <> PStartHB -> (forall w, p' <> PCloseWait w) ->
  length gs' = length gs ->
  (forall k, k < pred (length gs) -> nth_error gs' k = nth_error gs k) ->
  (forall f, In f fs' -> is_hb f = true -> f_acc f = true) ->
  G2 gs' fs' p'.
Proof.
  intros gs fs p gs' fs' p' H Q Q' N1 N2 L Same Acc. constructor; rewrite ?L.
  - congruence.
  - intros _. destruct (g2_nq _ _ _ H Q) as [NE Hlt]. split; [exact NE|].
    intros k g Hk Lk. rewrite Same in Hk by exact Lk. eapply Hlt; eauto.
  - intros w E. destruct (N2 w E).
  - intros E. destruct (N1 E).
  - exact Acc.
Qed.

Lemma after_start_nq : forall n, quiescent (after_start n) = false /\ after_start n <> PStartHB /\
  forall w, after_start n <> PCloseWait w.
Proof. intros [|n]; cbn; repeat split; try discriminate; intros; discriminate. Qed.

Lemma G2_start_cur : forall gs fs p kd g n, G2 gs fs p -> quiescent p = false ->
  nth_error gs (pred (length gs)) = Some g ->
  (kd = KHeartbeat -> g_closed g = false) ->
  G2 (start_gens (pred (length gs)) g gs)
     (fs ++ [mkfn (pred (length gs)) kd (negb (g_closed g)) FRunning false]) (after_start n).
Proof.
  intros gs fs p kd g n H Q Hk Hkd. destruct (after_start_nq n) as (A & B & C).
  eapply G2_nq_step; eauto.
  - apply sg_length.
  - intros k L. apply sg_other. lia.
  - intros f I. apply in_app_iff in I. destruct I as [I|[<-|[]]]; [apply (g2_acc _ _ _ H); exact I|].
    unfold is_hb. cbn [f_kind f_acc]. destruct kd; try discriminate. intros _. rewrite Hkd; reflexivity.
Qed.

Lemma G2_to_q : forall gs fs p gs' p' g', G2 gs fs p ->
  quiescent p = false -> quiescent p' = true -> length gs' = length gs ->
  (forall k, k < pred (length gs) -> nth_error gs' k = nth_error gs k) ->
  nth_error gs' (pred (length gs)) = Some g' -> cd g' ->
  G2 gs' fs p'.
Proof.
  intros gs fs p gs' p' g' H Q Q' L Same Hc Cd. constructor; rewrite ?L.
  - intros _ k g Hk. destruct (g2_nq _ _ _ H Q) as [NE Hlt].
    destruct (lt_dec k (pred (length gs))) as [Lk|Lk].
    + rewrite Same in Hk by exact Lk. eapply Hlt; eauto.
    + apply nth_lt in Hk as Hk'. assert (k = pred (length gs)) by lia. subst k.
      assert (g = g') by congruence. subst g. exact Cd.
  - congruence.
  - intros w E. rewrite E in Q'. discriminate.
  - intros E. rewrite E in Q'. discriminate.
  - apply (g2_acc _ _ _ H).
Qed.

Lemma G2_fn_upd : forall gs fs p i f f', G2 gs fs p -> nth_error fs i = Some f ->
  f_gen f' = f_gen f -> f_acc f' = f_acc f -> f_kind f' = f_kind f ->
  G2 gs (upd i f' fs) p.
Proof.
  intros gs fs p i f f' H Hf Eg Ea Ek. constructor.
  - apply (g2_q _ _ _ H).
  - apply (g2_nq _ _ _ H).
  - intros w E. destruct (g2_cw _ _ _ H w E) as (gc & Egc & Cc & Ha). exists gc.
    split; [exact Egc|]. split; [exact Cc|]. rewrite (has_acc_upd _ _ _ f _ Hf); [exact Ha|].
    unfold acc_of. rewrite Eg, Ea. reflexivity.
  - intros E. destruct (g2_hb _ _ _ H E) as (gc & Egc & Cc & Pc & Hno). exists gc.
    split; [exact Egc|]. split; [exact Cc|]. split; [exact Pc|].
    intros x I. apply In_upd in I. destruct I as [->|I]; [|apply Hno; exact I].
    rewrite Eg. apply Hno. eapply nth_error_In; eauto.
  - intros x I. apply In_upd in I. destruct I as [->|I]; [|apply (g2_acc _ _ _ H); exact I].
    unfold is_hb. rewrite Ek, Ea. apply (g2_acc _ _ _ H f). eapply nth_error_In; eauto.
Qed.

Lemma G2_handler_gens : forall gs fs p k g g', G2 gs fs p -> nth_error gs k = Some g ->
  (0 < g_routines g)%Z -> g_closed g' = true -> (exists f, In f fs /\ f_gen f = k) ->
  G2 (upd k g' gs) fs p.
Proof.
  intros gs fs p k g g' H Hk R C (f & I & Ef). constructor; rewrite ?upd_length.
  - intros Q. destruct (g2_q _ _ _ H Q _ _ Hk) as [_ X]. lia.
  - intros Q. destruct (g2_nq _ _ _ H Q) as [NE Hlt]. split; [exact NE|].
    intros k' g0 Hk' L.
    destruct (nth_upd_cases _ _ _ _ _ _ _ Hk Hk') as [[-> ->]|[N Hk'']].
    + destruct (Hlt _ _ Hk L) as [_ X]. lia.
    + eapply Hlt; eauto.
  - intros w E. destruct (g2_cw _ _ _ H w E) as (gc & Egc & Cc & Ha).
    destruct (Nat.eq_dec k (pred (length gs))) as [e|e].
    + exists g'. rewrite <- e. split; [eapply nth_upd_eq; eauto|]. split; [exact C|]. rewrite e. exact Ha.
    + exists gc. rewrite nth_error_upd_other by exact e. auto.
  - intros E. destruct (g2_hb _ _ _ H E) as (gc & Egc & Cc & Pc & Hno).
    assert (N : k <> pred (length gs)) by (rewrite <- Ef; apply Hno; exact I).
    exists gc. rewrite nth_error_upd_other by exact N. auto.
  - apply (g2_acc _ _ _ H).
Qed.

Lemma G2_shape : forall s s', shape s s' -> G1 (gens s) (fns s) ->
  G2 (gens s) (fns s) (pc s) -> G2 (gens s') (fns s') (pc s').
Proof.
  intros s s' Sh [H1 H2] H. inv_shape Sh; rewrite ?Hg, ?Hf.
  - eapply G2_quiet; eauto.
  - rewrite Hpc'. rewrite Hpc in H. apply G2_newgen; [split; assumption|exact H].
  - fold (start_gens k g (gens s)).
    destruct Hctx as [(-> & Hpub & E) | [(-> & -> & E & E') | (-> & -> & n & E & E')]].
    + rewrite E. apply G2_start_user; assumption.
    + rewrite E'. unfold cur. eapply G2_start_cur; eauto.
      * rewrite E; reflexivity.
      * intros _. rewrite E in H. destruct (g2_hb _ _ _ H eq_refl) as (gc & Egc & Cc & _).
        unfold cur in Hk. congruence.
    + rewrite E'. unfold cur. eapply G2_start_cur; eauto.
      * rewrite E; reflexivity.
      * discriminate.
  - rewrite Hpc'. eapply G2_nq_step; eauto.
    + rewrite Hpc; reflexivity.
    + discriminate.
    + discriminate.
    + apply upd_length.
    + intros k L. apply nth_error_upd_other. unfold cur. lia.
    + apply (g2_acc _ _ _ H).
  - destruct (H2 _ _ Hk) as (A & B & C).
    destruct (0 <? g_routines g)%Z eqn:Er.
    + rewrite Hpc'. constructor; rewrite ?upd_length.
      * discriminate.
      * intros _. rewrite Hpc in H. destruct (g2_nq _ _ _ H eq_refl) as [NE Hlt]. split; [exact NE|].
        intros k g0 Hk0 L. rewrite nth_error_upd_other in Hk0 by (unfold cur; lia). eapply Hlt; eauto.
      * intros w0 _. exists (closed_gen g). split; [eapply nth_upd_eq; exact Hk|].
        split; [apply cg_closed|]. apply count_live_has_acc. fold (cur s). lia.
      * discriminate.
      * apply (g2_acc _ _ _ H).
    + eapply (G2_to_q _ _ _ _ _ (closed_gen g) H); eauto.
      * rewrite Hpc; reflexivity.
      * apply upd_length.
      * intros k L. apply nth_error_upd_other. unfold cur. lia.
      * eapply nth_upd_eq; exact Hk.
      * split; [apply cg_closed|]. rewrite cg_routines. lia.
  - destruct (H2 _ _ Hk) as (A & B & C). apply C in Hj. destruct Hj as (X & Y & _).
    eapply (G2_to_q _ _ _ _ _ g H); eauto.
    + rewrite Hpc; reflexivity.
    + split; assumption.
  - rewrite Hpc. eapply G2_fn_upd; eauto.
  - rewrite Hpc. exact H.
  - rewrite Hpc. eapply G2_fn_upd; eauto.
  - rewrite Hpc. eapply G2_fn_upd; eauto.
    destruct (H2 _ _ Hk) as (A & B & C).
    assert (L : live_of (f_gen f) f = true).
    { unfold live_of, acc_of. rewrite Nat.eqb_refl, Hacc, Hst. reflexivity. }
    pose proof (count_live_pos _ _ _ _ Hi L) as Pos.
    eapply G2_handler_gens; eauto.
    + lia.
    + cbn [dec_gen g_closed]. apply cg_closed.
    + exists f. split; [eapply nth_error_In; eauto|reflexivity].
Qed.

(* ================= the invariant on reachable states ================= *)
Record Inv (s : state) : Prop := {
  inv_pan : panicked s = false;
  inv_g1 : G1 (gens s) (fns s);
  inv_g2 : G2 (gens s) (fns s) (pc s) }.

Lemma Inv_init : forall w, Inv (init w).
Proof.
  intro w. constructor; cbn.
  - reflexivity.
  - split; intros [|i] x H; discriminate H.
  - constructor; cbn; try discriminate.
    + intros _ [|k] g H; discriminate H.
    + intros f [].
Qed.

Lemma Inv_step : forall s l s', Inv s -> step s l = Some s' -> Inv s'.
Proof.
  intros s l s' [P A B] H. apply step_shape in H. destruct H as [_ Sh].
  destruct (G1_shape _ _ Sh A) as [A' P']. constructor; [exact P'|exact A'|].
  eapply G2_shape; eauto.
Qed.

Lemma Inv_run : forall w ls s, run (init w) ls = Some s -> Inv s.
Proof. intros w ls s H. eapply (inv_run Inv); eauto using Inv_init, Inv_step. Qed.

(* ---- A: accounting ---- *)
Theorem accounting_holds : forall w ls s, run (init w) ls = Some s ->
  panicked s = false /\
  (forall k g, nth_error (gens s) k = Some g ->
     g_closed g = g_done g /\ g_routines g = Z.of_nat (count_live k (fns s)) /\
     (g_joined g = true <-> (g_closed g = true /\ g_routines g = 0%Z /\ has_acc k (fns s) = true))) /\
  (forall wy, pc s = PCloseWait wy ->
     exists g, nth_error (gens s) (cur s) = Some g /\ g_closed g = true /\
               has_acc (cur s) (fns s) = true /\
               (g_joined g = false -> 0 < count_live (cur s) (fns s))).
Proof.
  intros w ls s H. apply Inv_run in H. destruct H as [P [H1 H2] B].
  split; [exact P|]. split; [exact H2|].
  intros wy E. destruct (g2_cw _ _ _ B wy E) as (g & Eg & C & Ha).
  exists g. fold (cur s) in Eg, Ha. split; [exact Eg|]. split; [exact C|]. split; [exact Ha|].
  intro J. destruct (H2 _ _ Eg) as (_ & R & I).
  destruct (count_live (cur s) (fns s)) eqn:Ecl; [|lia].
  assert (X : g_joined g = true) by (apply I; repeat split; auto; lia). congruence.
Qed.

Lemma live_fn_can_move : forall w ls s, run (init w) ls = Some s ->
  forall k i f, nth_error (fns s) i = Some f -> live_of k f = true -> f_st f = FReturned ->
  exists s', step s (LFnHandler i) = Some s'.
Proof.
  intros w ls s H k i f Hf L Hs. apply Inv_run in H. destruct H as [P [H1 H2] B].
  unfold step. rewrite P, Hf, Hs.
  apply live_acc in L. unfold acc_of in L. apply andb_true_iff in L. destruct L as [_ L]. rewrite L.
  destruct (H1 _ _ Hf) as (g & Eg & _). unfold handler. rewrite Eg.
  destruct (end_gen (f_gen f) g s) as [g1 s1].
  destruct (g_routines g1 - 1 =? 0)%Z; eexists; reflexivity.
Qed.

(* ---- B: cancel on end ---- *)
Definition ends_gen (s : state) (l : label) : option nat :=
  match l with
  | LFnHandler i => option_map f_gen (nth_error (fns s) i)
  | LGenCloseLock => Some (cur s)
  | _ => None end.

Definition triggers (l : label) : option nat :=
  match l with
  | LFnReturn i | LFnSeeDone i | LHbTick i (AErr _) | LWatchInit i (AErr _)
  | LWatchTick i WChanged | LWatchTick i WDropped => Some i
  | _ => None end.

Lemma step_handler : forall s i s', step s (LFnHandler i) = Some s' ->
  exists f g, nth_error (fns s) i = Some f /\ f_st f = FReturned /\ f_acc f = true /\
    nth_error (gens s) (f_gen f) = Some g /\
    gens s' = upd (f_gen f) (dec_gen (closed_gen g)) (gens s) /\
    hist s' = (if (g_routines g - 1 =? 0)%Z then [HJoined (f_gen f)] else []) ++
              (if g_closed g then [] else [HDone (f_gen f)]) ++ hist s.
Proof.
  intros s f s' H. unfold step in H. destruct (panicked s); [discriminate|].
  destruct (nth_error (fns s) f) as [fn|] eqn:Ef; [|discriminate H].
  destruct (f_st fn) eqn:Est; try discriminate H.
  destruct (f_acc fn) eqn:Ea; [|discriminate H].
  unfold handler in H.
  destruct (nth_error (gens s) (f_gen fn)) as [g|] eqn:Eg; [|discriminate H].
  exists fn, g. repeat (split; [first [reflexivity|assumption]|]).
  unfold end_gen in H.
  destruct (g_closed g) eqn:Ec; cbv beta iota zeta in H;
    cbn [g_routines g_closed g_done g_joined g_mid g_pub] in H;
    destruct (g_routines g - 1 =? 0)%Z eqn:Er; cbv beta iota zeta in H;
    destruct (g_done g) eqn:Ed; destruct (g_joined g) eqn:Ej;
    inversion H; subst s'; clear H.
  all: unfold dec_gen, closed_gen; rewrite ?Ec; cbn [g_routines g_closed g_done g_joined g_mid g_pub];
    rewrite ?Er, ?Ed, ?Ej; cbn; split; reflexivity.
Qed.

Lemma step_closelock : forall s s', step s LGenCloseLock = Some s' ->
  exists w g, pc s = PCloseLock w /\ nth_error (gens s) (cur s) = Some g /\
    gens s' = upd (cur s) (closed_gen g) (gens s) /\
    ext (evP s') (if g_closed g then hist s else HDone (cur s) :: hist s) (hist s').
Proof.
  intros s s' H. unfold step in H. destruct (panicked s); [discriminate|].
  destruct (pc s) eqn:Epc; try discriminate H.
  destruct (nth_error (gens s) (cur s)) as [g|] eqn:Eg; [|discriminate H].
  exists w, g. repeat (split; [first [reflexivity|assumption]|]).
  unfold end_gen in H.
  destruct (g_closed g) eqn:Ec; cbv beta iota zeta in H; cbn [g_routines] in H;
    destruct (0 <? g_routines g)%Z eqn:Er.
  all: unfold after_close, enter_leave, finish_leave, exit_run in H.
  all: destruct (g_done g) eqn:Ed.
  all: repeat (cbn [mid ev set_gens set_pc set_mid set_panic] in H; bm H); try discriminate H.
  all: inversion H; subst s'; clear H.
  all: unfold closed_gen; rewrite ?Ec, ?Ed, ?Er; cbn; split; [reflexivity|ext_tac].
Qed.

Theorem cancel_on_end_holds : forall w ls s l s',
  run (init w) ls = Some s -> step s l = Some s' ->
  forall k, ends_gen s l = Some k ->
  exists g', nth_error (gens s') k = Some g' /\ g_done g' = true /\ g_closed g' = true /\
    (gen_done s k = false -> exists es, hist s' = es ++ hist s /\ In (HDone k) es).
Proof.
  intros w ls s l s' R H k E. apply Inv_run in R. destruct R as [P [H1 H2] B].
  destruct l; try discriminate E; cbn [ends_gen] in E.
  - (* LGenCloseLock *)
    inversion E; subst k; clear E.
    apply step_closelock in H. destruct H as (wy & g & Epc & Eg & Hg & Hh).
    destruct (H2 _ _ Eg) as (A & _).
    exists (closed_gen g). rewrite Hg. split; [eapply nth_upd_eq; exact Eg|].
    split; [apply cg_done; exact A|]. split; [apply cg_closed|].
    unfold gen_done. rewrite Eg. intro D. rewrite <- A in D. rewrite D in Hh.
    apply ext_app in Hh. destruct Hh as (es & Ees & _).
    exists (es ++ [HDone (cur s)]). rewrite <- app_assoc. split; [exact Ees|].
    apply in_or_app. right. left. reflexivity.
  - (* LFnHandler *)
    apply step_handler in H. destruct H as (fn & g & Ef & Est & Ea & Eg & Hg & Hh).
    rewrite Ef in E. cbn in E. inversion E; subst k; clear E.
    destruct (H2 _ _ Eg) as (A & _).
    exists (dec_gen (closed_gen g)). rewrite Hg. split; [eapply nth_upd_eq; exact Eg|].
    cbn [dec_gen g_done g_closed].
    split; [apply cg_done; exact A|]. split; [apply cg_closed|].
    unfold gen_done. rewrite Eg. intro D. rewrite <- A in D. rewrite D in Hh.
    eexists. rewrite app_assoc in Hh. split; [exact Hh|].
    apply in_or_app. right. left. reflexivity.
Qed.

Lemma trigger_returns : forall s l s' i, step s l = Some s' -> triggers l = Some i ->
  exists f f', nth_error (fns s) i = Some f /\ f_st f = FRunning /\
    nth_error (fns s') i = Some f' /\
    f_st f' = (if f_acc f then FReturned else FExited) /\ f_gen f' = f_gen f /\ f_acc f' = f_acc f.
Proof.
  intros s l s' i H Ht. unfold step in H. destruct (panicked s); [discriminate|].
  destruct l; cbn in Ht; repeat bm Ht; try discriminate Ht; inversion Ht; subst; clear Ht.
  all: destruct (nth_error (fns s) i) as [fn|] eqn:Ef; [|discriminate H].
  all: match type of H with (if ?c then _ else _) = _ => destruct c eqn:Ec end; [|discriminate H].
  all: try (destruct (nth_error (gens s) (f_gen fn)) eqn:Eg; [|discriminate H]).
  all: inversion H; subst s'; clear H.
  all: repeat match goal with X : _ && _ = true |- _ => apply andb_true_iff in X; destruct X end.
  all: exists fn, (f_set_st (if f_acc fn then FReturned else FExited) fn).
  all: split; [reflexivity|]; split; [apply running_st; assumption|].
  all: split; [cbn; eapply nth_upd_eq; exact Ef|]; cbn; auto.
Qed.

Lemma late_fn_gen_done : forall w ls s, run (init w) ls = Some s ->
  forall i f, nth_error (fns s) i = Some f -> f_acc f = false -> gen_done s (f_gen f) = true.
Proof.
  intros w ls s R i f Hf Ha. apply Inv_run in R. destruct R as [P [H1 H2] B].
  destruct (H1 _ _ Hf) as (g & Eg & C). unfold gen_done. rewrite Eg.
  destruct (H2 _ _ Eg) as (A & _). rewrite <- A. apply C. left. exact Ha.
Qed.
