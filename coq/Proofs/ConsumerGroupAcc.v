(* Proofs/ConsumerGroupAcc.v — state invariants of the ConsumerGroup model:
   routine accounting (Generation.Start / exit handler / close), no double close,
   no lost wake-up in gen.close, cancel-on-end. *)
From Coq Require Import List ZArith Bool Arith Lia ZifyNat ZifyBool.
From KV Require Import Model.ConsumerGroup Proofs.ConsumerGroupBase.
Import ListNotations.

Definition acc_of (k : nat) (f : fn) : bool := Nat.eqb (f_gen f) k && f_acc f.
Definition live_of (k : nat) (f : fn) : bool :=
  acc_of k f && match f_st f with FExited => false | _ => true end.
Definition count_live (k : nat) (l : list fn) : nat := length (filter (live_of k) l).
Definition has_acc (k : nat) (l : list fn) : bool := existsb (acc_of k) l.
Definition quiescent (p : pcs) : bool :=
  match p with
  | PStartHB | PStartWatch _ | PPublish | PWait | PCloseLock _ | PCloseWait _ => false
  | _ => true end.

(* ================= list lemmas ================= *)
Definition b2n (b : bool) : nat := if b then 1 else 0.

Lemma nth_lt : forall A (l : list A) i x, nth_error l i = Some x -> i < length l.
Proof. intros A l i x H. apply nth_error_Some. congruence. Qed.

Lemma nth_snoc : forall A (l : list A) x j y,
  nth_error (l ++ [x]) j = Some y -> nth_error l j = Some y \/ (j = length l /\ y = x).
Proof.
  intros A l x j y H. destruct (Nat.lt_ge_cases j (length l)) as [L|L].
  - rewrite nth_error_app1 in H by exact L. left; exact H.
  - rewrite nth_error_app2 in H by exact L. right.
    destruct (j - length l) as [|n] eqn:E.
    + cbn in H. inversion H. split; [lia|reflexivity].
    + cbn in H. destruct n; discriminate.
Qed.

Lemma nth_snoc_old : forall A (l : list A) x j y,
  nth_error l j = Some y -> nth_error (l ++ [x]) j = Some y.
Proof. intros. rewrite nth_error_app1; [assumption|eapply nth_lt; eauto]. Qed.

Lemma nth_snoc_new : forall A (l : list A) x, nth_error (l ++ [x]) (length l) = Some x.
Proof. intros. rewrite nth_error_app2 by lia. rewrite Nat.sub_diag. reflexivity. Qed.

Lemma In_upd : forall A i (y : A) l x, In x (upd i y l) -> x = y \/ In x l.
Proof.
  induction i; destruct l; cbn; intros x H; auto.
  - destruct H; auto.
  - destruct H as [H|H]; auto. apply IHi in H. tauto.
Qed.

Lemma count_live_app : forall k l f, count_live k (l ++ [f]) = count_live k l + b2n (live_of k f).
Proof.
  intros. unfold count_live. rewrite filter_app, app_length. cbn [filter].
  destruct (live_of k f); reflexivity.
Qed.

Lemma has_acc_app : forall k l f, has_acc k (l ++ [f]) = has_acc k l || acc_of k f.
Proof. intros. unfold has_acc. rewrite existsb_app. cbn [existsb]. rewrite orb_false_r. reflexivity. Qed.

Lemma count_live_upd : forall k l i f f', nth_error l i = Some f ->
  count_live k (upd i f' l) + b2n (live_of k f) = count_live k l + b2n (live_of k f').
Proof.
  intros k l. induction l as [|h t IH]; intros [|i] f f' H; cbn in H; try discriminate.
  - inversion H; subst. unfold count_live. cbn [upd filter].
    destruct (live_of k f), (live_of k f'); cbn; lia.
  - specialize (IH _ _ f' H). unfold count_live in *. cbn [upd filter].
    destruct (live_of k h); cbn [length]; lia.
Qed.

Lemma has_acc_upd : forall k l i f f', nth_error l i = Some f -> acc_of k f' = acc_of k f ->
  has_acc k (upd i f' l) = has_acc k l.
Proof.
  intros k l. induction l as [|h t IH]; intros [|i] f f' H E; cbn in H; try discriminate;
    unfold has_acc in *; cbn [upd existsb].
  - inversion H; subst. rewrite E. reflexivity.
  - f_equal. eapply IH; eauto.
Qed.

Lemma count_live_pos : forall k l i f, nth_error l i = Some f -> live_of k f = true -> 0 < count_live k l.
Proof.
  intros k l. induction l as [|h t IH]; intros [|i] f H E; cbn in H; try discriminate;
    unfold count_live in *; cbn [filter].
  - inversion H; subst. rewrite E. cbn; lia.
  - specialize (IH _ _ H E). destruct (live_of k h); cbn [length]; lia.
Qed.

Lemma count_live_zero : forall k l i f, count_live k l = 0 -> nth_error l i = Some f -> live_of k f = false.
Proof.
  intros k l i f Z H. destruct (live_of k f) eqn:E; [|reflexivity].
  pose proof (count_live_pos _ _ _ _ H E). lia.
Qed.

Lemma count_live_ex : forall k l, 0 < count_live k l -> exists i f, nth_error l i = Some f /\ live_of k f = true.
Proof.
  intros k l. induction l as [|h t IH]; unfold count_live in *; cbn [filter]; intro H.
  - cbn in H; lia.
  - destruct (live_of k h) eqn:E.
    + exists 0, h. split; [reflexivity|exact E].
    + destruct (IH H) as (i & f & A & B). exists (S i), f. split; assumption.
Qed.

Lemma live_acc : forall k f, live_of k f = true -> acc_of k f = true.
Proof. unfold live_of. intros k f H. apply andb_true_iff in H. tauto. Qed.

Lemma has_acc_nth : forall k l i f, nth_error l i = Some f -> acc_of k f = true -> has_acc k l = true.
Proof.
  intros. unfold has_acc. apply existsb_exists. exists f. split; [eapply nth_error_In; eauto|assumption].
Qed.

Lemma has_acc_ex : forall k l, has_acc k l = true -> exists i f, nth_error l i = Some f /\ acc_of k f = true.
Proof.
  intros k l H. apply existsb_exists in H. destruct H as (f & I & A).
  apply In_nth_error in I. destruct I as [i I]. exists i, f. tauto.
Qed.

Lemma count_live_has_acc : forall k l, 0 < count_live k l -> has_acc k l = true.
Proof.
  intros k l H. apply count_live_ex in H. destruct H as (i & f & A & B).
  eapply has_acc_nth; eauto using live_acc.
Qed.

Lemma no_gen : forall k l, (forall f, In f l -> f_gen f <> k) -> count_live k l = 0 /\ has_acc k l = false.
Proof.
  intros k l. induction l as [|h t IH]; intro H; [split; reflexivity|].
  destruct IH as [A B]; [intros; apply H; right; assumption|].
  assert (E : acc_of k h = false).
  { unfold acc_of. destruct (Nat.eqb_spec (f_gen h) k) as [e|e]; [|reflexivity].
    exfalso. eapply H; [left; reflexivity|exact e]. }
  unfold count_live, has_acc, live_of in *. cbn [filter existsb]. rewrite E. cbn [andb orb]. tauto.
Qed.

(* ================= the shape of a step ================= *)
Definition boring (e : event) : bool :=
  match e with
  | HGenNew _ _ | HStart _ _ _ | HFnRet _ _ | HDone _ | HJoined _ | HHeartbeat _ _ _ | HNextRet _ _ => false
  | _ => true end.

Inductive ext (P : event -> Prop) (h : list event) : list event -> Prop :=
| ext_nil : ext P h h
| ext_cons e h' : P e -> ext P h h' -> ext P h (e :: h').

Lemma ext_app : forall P h h', ext P h h' -> exists es, h' = es ++ h /\ Forall P es.
Proof.
  induction 1 as [|e h' Pe _ (es & E & F)].
  - exists []. split; [reflexivity|constructor].
  - exists (e :: es). subst. split; [reflexivity|constructor; assumption].
Qed.

Definition evP (s' : state) (e : event) : Prop :=
  boring e = true /\ (ev_is_runexit e = true -> pc s' = PExited).

Definition pcrel (p p' : pcs) : Prop :=
  p' = p \/ (quiescent p = true /\ quiescent p' = true) \/ (quiescent p = false /\ exists w, p' = PCloseLock w).

Definition closed_gen (g : gen) : gen :=
  if g_closed g then g else mkgen (g_mid g) true true (g_routines g) (g_joined g) (g_pub g).
Definition dec_gen (g : gen) : gen :=
  mkgen (g_mid g) (g_closed g) (g_done g) (g_routines g - 1)
        (if (g_routines g - 1 =? 0)%Z then true else g_joined g) (g_pub g).

Definition start_ctx (s s' : state) (k : nat) (kd : fkind) (g : gen) : Prop :=
  (kd = KUser /\ g_pub g = true /\ pc s' = pc s) \/
  (kd = KHeartbeat /\ k = cur s /\ pc s = PStartHB /\ pc s' = after_start (nwatch s)) \/
  (kd = KWatcher /\ k = cur s /\ exists n, pc s = PStartWatch (S n) /\ pc s' = after_start n).

Inductive shape (s s' : state) : Prop :=
| ShQuiet :
    gens s' = gens s -> fns s' = fns s -> panicked s' = false ->
    pcrel (pc s) (pc s') -> (pc s = PExited -> pc s' = PExited) ->
    ext (evP s') (hist s) (hist s') -> shape s s'
| ShNewGen m :
    pc s = PFetch -> gens s' = gens s ++ [new_gen m] -> fns s' = fns s -> panicked s' = false ->
    pc s' = PStartHB -> hist s' = HGenNew (length (gens s)) m :: HFetchReq :: hist s -> shape s s'
| ShStart k kd g :
    nth_error (gens s) k = Some g ->
    gens s' = (if g_closed g then gens s else upd k (g_inc g) (gens s)) ->
    fns s' = fns s ++ [mkfn k kd (negb (g_closed g)) FRunning false] ->
    panicked s' = false ->
    hist s' = HStart k (length (fns s)) (negb (g_closed g)) :: hist s ->
    start_ctx s s' k kd g -> shape s s'
| ShPub n g :
    pc s = PPublish -> nth_error (gens s) (cur s) = Some g ->
    gens s' = upd (cur s) (g_set_pub g) (gens s) -> fns s' = fns s -> panicked s' = false ->
    pc s' = PWait -> hist s' = HNextRet n (cur s) :: hist s -> shape s s'
| ShClose w g :
    pc s = PCloseLock w -> nth_error (gens s) (cur s) = Some g ->
    gens s' = upd (cur s) (closed_gen g) (gens s) -> fns s' = fns s ->
    panicked s' = negb (g_closed g) && g_done g ->
    (if (0 <? g_routines g)%Z then pc s' = PCloseWait w else quiescent (pc s') = true) ->
    ext (evP s') (if g_closed g then hist s else HDone (cur s) :: hist s) (hist s') -> shape s s'
| ShJoined w g :
    pc s = PCloseWait w -> nth_error (gens s) (cur s) = Some g -> g_joined g = true ->
    gens s' = gens s -> fns s' = fns s -> panicked s' = false ->
    quiescent (pc s') = true -> ext (evP s') (hist s) (hist s') -> shape s s'
| ShFnRet i f :
    nth_error (fns s) i = Some f -> f_st f = FRunning ->
    gens s' = gens s ->
    fns s' = upd i (f_set_st (if f_acc f then FReturned else FExited) f) (fns s) ->
    panicked s' = false -> pc s' = pc s ->
    (hist s' = HFnRet (f_gen f) i :: hist s \/
     (is_hb f = true /\ exists g, nth_error (gens s) (f_gen f) = Some g /\
        hist s' = HFnRet (f_gen f) i :: HHeartbeat (f_gen f) i (g_mid g) :: hist s)) ->
    shape s s'
| ShHb i f g :
    nth_error (fns s) i = Some f -> f_st f = FRunning -> is_hb f = true ->
    nth_error (gens s) (f_gen f) = Some g ->
    gens s' = gens s -> fns s' = fns s -> panicked s' = false -> pc s' = pc s ->
    hist s' = HHeartbeat (f_gen f) i (g_mid g) :: hist s -> shape s s'
| ShInit i f :
    nth_error (fns s) i = Some f -> f_st f = FRunning ->
    gens s' = gens s -> fns s' = upd i (f_set_init f) (fns s) ->
    panicked s' = false -> pc s' = pc s -> hist s' = hist s -> shape s s'
| ShHandler i f g :
    nth_error (fns s) i = Some f -> f_st f = FReturned -> f_acc f = true ->
    nth_error (gens s) (f_gen f) = Some g ->
    gens s' = upd (f_gen f) (dec_gen (closed_gen g)) (gens s) ->
    fns s' = upd i (f_set_st FExited f) (fns s) ->
    panicked s' = (negb (g_closed g) && g_done g) || ((g_routines g - 1 =? 0)%Z && g_joined g) ->
    pc s' = pc s ->
    hist s' = (if (g_routines g - 1 =? 0)%Z then [HJoined (f_gen f)] else []) ++
              (if g_closed g then [] else [HDone (f_gen f)]) ++ hist s ->
    shape s s'.

Definition is_quiet (l : label) : bool :=
  match l with
  | LCoord _ | LJoin _ | LSync _ | LFetch (AErr _) | LPublishAbort | LWaitClosed | LWaitGenDone
  | LLeaveCoord _ | LLeaveReq _ | LOfferAbort | LNextErr _ | LBackoffAbort | LBackoffFire
  | LNextCall _ | LNextClosed _ | LNextCtx _ | LCloseCall _ | LCloseRet _
  | LWatchTick _ WSame | LWatchTick _ WKafkaErr => true
  | _ => false end.

Ltac bm H := match type of H with context [match ?x with _ => _ end] => destruct x eqn:? end.

Ltac ext_tac :=
  repeat first [ apply ext_nil
               | apply ext_cons; [split; [reflexivity | cbn; intros; try discriminate; reflexivity] |] ].

Ltac pcrel_tac :=
  repeat match goal with H : pc ?s = _ |- _ => rewrite H end;
  first [ left; reflexivity
        | right; left; split; reflexivity
        | right; right; split; [reflexivity | eexists; reflexivity] ].

Lemma quiet_step : forall s l s', panicked s = false -> is_quiet l = true -> step s l = Some s' -> shape s s'.
Proof.
  intros s l s' Hp Hq H. unfold step in H. rewrite Hp in H.
  destruct l; cbn in Hq; repeat bm Hq; try discriminate Hq; clear Hq.
  all: unfold fail_ng, enter_leave, finish_leave, exit_run in H.
  all: repeat (cbn in H; bm H); try discriminate H.
  all: cbn in H; inversion H; subst s'; clear H.
  all: apply ShQuiet; cbn;
    [ reflexivity | reflexivity | assumption | pcrel_tac
    | intros; first [reflexivity | congruence] | ext_tac ].
Qed.

Lemma running_st : forall f, running f = true -> f_st f = FRunning.
Proof. unfold running. intros f. destruct (f_st f); intro; try discriminate; reflexivity. Qed.

Lemma do_start_shape : forall k kd s s1, do_start k kd s = Some s1 ->
  exists g, nth_error (gens s) k = Some g /\
    gens s1 = (if g_closed g then gens s else upd k (g_inc g) (gens s)) /\
    fns s1 = fns s ++ [mkfn k kd (negb (g_closed g)) FRunning false] /\
    panicked s1 = panicked s /\ pc s1 = pc s /\
    hist s1 = HStart k (length (fns s)) (negb (g_closed g)) :: hist s.
Proof.
  intros k kd s s1 H. unfold do_start in H.
  destruct (nth_error (gens s) k) as [g|] eqn:Eg; [|discriminate].
  exists g. split; [reflexivity|].
  destruct (g_closed g); inversion H; subst s1; cbn; repeat split; reflexivity.
Qed.

Lemma fn_return_shape : forall s i f s0 s',
  nth_error (fns s) i = Some f -> running f = true ->
  gens s0 = gens s -> fns s0 = fns s -> panicked s0 = false -> pc s0 = pc s ->
  (hist s0 = hist s \/
   (is_hb f = true /\ exists g, nth_error (gens s) (f_gen f) = Some g /\
      hist s0 = HHeartbeat (f_gen f) i (g_mid g) :: hist s)) ->
  s' = fn_return i f s0 -> shape s s'.
Proof.
  intros s i f s0 s' Hf Hr Hg Hfs Hp Hpc Hh ->.
  apply (ShFnRet s _ i f); cbn; try assumption; try congruence.
  - apply running_st; assumption.
  - destruct Hh as [Hh|(Hb & g & Eg & Hh)].
    + left. congruence.
    + right. split; [assumption|]. exists g. split; [assumption|]. congruence.
Qed.

Lemma step_shape : forall s l s', step s l = Some s' -> panicked s = false /\ shape s s'.
Proof.
  intros s l s' H.
  assert (Hp : panicked s = false).
  { unfold step in H. destruct (panicked s); [discriminate|reflexivity]. }
  split; [exact Hp|].
  destruct (is_quiet l) eqn:Hq; [eapply quiet_step; eauto|].
  unfold step in H; rewrite Hp in H.
  destruct l; cbn in Hq; repeat bm Hq; try discriminate Hq; clear Hq.
  - (* LFetch AOk *)
    destruct (pc s) eqn:Epc; try discriminate H. destruct (mid s) as [m|] eqn:Em; try discriminate H.
    inversion H; subst s'; clear H. apply (ShNewGen s _ m); cbn; auto.
  - (* LStartHB *)
    destruct (pc s) eqn:Epc; try discriminate H.
    destruct (do_start (cur s) KHeartbeat s) as [s1|] eqn:E; [|discriminate H].
    cbn in H. inversion H; subst s'; clear H.
    apply do_start_shape in E. destruct E as (g & Eg & A & B & C & D & F).
    apply (ShStart s _ (cur s) KHeartbeat g); cbn; try assumption; try congruence.
    right; left. repeat split; auto.
  - (* LStartWatch *)
    destruct (pc s) eqn:Epc; try discriminate H. destruct n as [|n]; [discriminate H|].
    destruct (do_start (cur s) KWatcher s) as [s1|] eqn:E; [|discriminate H].
    cbn in H. inversion H; subst s'; clear H.
    apply do_start_shape in E. destruct E as (g & Eg & A & B & C & D & F).
    apply (ShStart s _ (cur s) KWatcher g); cbn; try assumption; try congruence.
    right; right. repeat split; auto. exists n. split; auto.
  - (* LGenCloseLock *)
    destruct (pc s) eqn:Epc; try discriminate H.
    destruct (nth_error (gens s) (cur s)) as [g|] eqn:Eg; [|discriminate H].
    unfold end_gen in H.
    destruct (g_closed g) eqn:Ec; cbv beta iota zeta in H; cbn [g_routines] in H;
      destruct (0 <? g_routines g)%Z eqn:Er.
    all: unfold after_close, enter_leave, finish_leave, exit_run in H.
    all: destruct (g_done g) eqn:Ed.
    all: repeat (cbn [mid ev set_gens set_pc set_mid set_panic] in H; bm H); try discriminate H.
    all: inversion H; subst s'; clear H.
    all: apply (ShClose s _ w g); unfold closed_gen; rewrite ?Ec, ?Ed, ?Er; cbn;
      try reflexivity; try assumption; try congruence; ext_tac.
  - (* LGenCloseJoined *)
    destruct (pc s) eqn:Epc; try discriminate H.
    destruct (nth_error (gens s) (cur s)) as [g|] eqn:Eg; [|discriminate H].
    destruct (g_joined g) eqn:Ej; [|discriminate H].
    unfold after_close, enter_leave, finish_leave, exit_run in H.
    repeat (cbn in H; bm H); try discriminate H.
    all: cbn in H; inversion H; subst s'; clear H.
    all: apply (ShJoined s _ w g); cbn; try reflexivity; try assumption; try congruence; ext_tac.
  - (* LNextGen *)
    destruct (pc s) eqn:Epc; try discriminate H.
    destruct (nth_error (gens s) (cur s)) as [g|] eqn:Eg; [|discriminate H].
    destruct (mem n (nexts s)); [|discriminate H].
    inversion H; subst s'; clear H. apply (ShPub s _ n g); cbn; auto.
  - (* LStart *)
    destruct (nth_error (gens s) k) as [g0|] eqn:Eg0; [|discriminate H].
    destruct (g_pub g0) eqn:Epub; [|discriminate H].
    apply do_start_shape in H. destruct H as (g & Eg & A & B & C & D & F).
    assert (g = g0) by congruence. subst g0.
    apply (ShStart s _ k KUser g); try assumption; try congruence.
    left. auto.
  - (* LFnReturn *)
    destruct (nth_error (fns s) f) as [fn|] eqn:Ef; [|discriminate H].
    destruct (is_user fn && running fn) eqn:Ec; [|discriminate H].
    apply andb_true_iff in Ec. destruct Ec as [_ Er]. inversion H.
    eapply fn_return_shape; eauto.
  - (* LFnSeeDone *)
    destruct (nth_error (fns s) f) as [fn|] eqn:Ef; [|discriminate H].
    match type of H with (if ?c then _ else _) = _ => destruct c eqn:Ec end; [|discriminate H].
    apply andb_true_iff in Ec. destruct Ec as [Ec _]. apply andb_true_iff in Ec. destruct Ec as [Er _].
    inversion H. eapply fn_return_shape; eauto.
  - (* LHbTick *)
    destruct (nth_error (fns s) f) as [fn|] eqn:Ef; [|discriminate H].
    destruct (running fn && is_hb fn) eqn:Ec; [|discriminate H].
    apply andb_true_iff in Ec. destruct Ec as [Er Eh].
    destruct (nth_error (gens s) (f_gen fn)) as [g|] eqn:Eg; [|discriminate H].
    destruct a as [|e].
    + inversion H; subst s'; clear H.
      apply (ShHb s _ f fn g); cbn; auto using running_st.
    + inversion H.
      eapply (fn_return_shape s f fn (ev (HHeartbeat (f_gen fn) f (g_mid g)) s)); eauto.
  - (* LWatchInit *)
    destruct (nth_error (fns s) f) as [fn|] eqn:Ef; [|discriminate H].
    match type of H with (if ?c then _ else _) = _ => destruct c eqn:Ec end; [|discriminate H].
    apply andb_true_iff in Ec. destruct Ec as [Ec _]. apply andb_true_iff in Ec. destruct Ec as [Er _].
    destruct a as [|e].
    + inversion H; subst s'; clear H.
      apply (ShInit s _ f fn); cbn; auto using running_st.
    + inversion H. eapply fn_return_shape; eauto.
  - (* LWatchTick WChanged *)
    destruct (nth_error (fns s) f) as [fn|] eqn:Ef; [|discriminate H].
    match type of H with (if ?c then _ else _) = _ => destruct c eqn:Ec end; [|discriminate H].
    apply andb_true_iff in Ec. destruct Ec as [Ec _]. apply andb_true_iff in Ec. destruct Ec as [Er _].
    inversion H. eapply fn_return_shape; eauto.
  - (* LWatchTick WDropped *)
    destruct (nth_error (fns s) f) as [fn|] eqn:Ef; [|discriminate H].
    match type of H with (if ?c then _ else _) = _ => destruct c eqn:Ec end; [|discriminate H].
    apply andb_true_iff in Ec. destruct Ec as [Ec _]. apply andb_true_iff in Ec. destruct Ec as [Er _].
    inversion H. eapply fn_return_shape; eauto.
  - (* LFnHandler *)
    destruct (nth_error (fns s) f) as [fn|] eqn:Ef; [|discriminate H].
    destruct (f_st fn) eqn:Est; try discriminate H.
    destruct (f_acc fn) eqn:Ea; [|discriminate H].
    unfold handler in H.
    destruct (nth_error (gens s) (f_gen fn)) as [g|] eqn:Eg; [|discriminate H].
    unfold end_gen in H.
    destruct (g_closed g) eqn:Ec; cbv beta iota zeta in H;
      cbn [g_routines g_closed g_done g_joined g_mid g_pub] in H;
      destruct (g_routines g - 1 =? 0)%Z eqn:Er; cbv beta iota zeta in H;
      destruct (g_done g) eqn:Ed; destruct (g_joined g) eqn:Ej;
      inversion H; subst s'; clear H.
    all: apply (ShHandler s _ f fn g); try assumption;
      unfold dec_gen, closed_gen; rewrite ?Ec; cbn [g_routines g_closed g_done g_joined g_mid g_pub];
      rewrite ?Er, ?Ed, ?Ej; cbn; try reflexivity; try assumption.
Qed.
