(* Proofs/RecordsLegacy.v — the legacy Conn writer for format 2: what it writes is the
   reference encoding of [lbatch], whose records carry every input record's millisecond
   timestamp (timestamp delta = timestamp(t_i) - timestamp(t_0)). *)
From Coq Require Import List NArith ZArith Bool Lia.
From Coq Require Import ZifyN ZifyNat ZifyBool.
From KV Require Import Lib.Bits Lib.Bytes Lib.Varint Lib.Crc Spec.RecordFormat Model.Records
  Proofs.BitsLemmas Proofs.RecordsCodec Proofs.RecordsSet Proofs.RecordsWriters.
Import ListNotations.
Open Scope Z_scope.

Definition lrec (base i : Z) (m : irec) : rec2 :=
  {| r_tsd := ts_ms (i_ns m) - ts_ms base; r_offd := i; r_key := i_key m; r_val := i_val m;
     r_hdrs := i_hdrs m |}.

Lemma write_record_enc base i m :
  wf_in m -> 0 <= i < ZM31 -> in_i64 (ts_ms (i_ns m) - ts_ms base) -> small (rec_body (lrec base i m)) ->
  write_record base i m = enc_rec (lrec base i m) /\
  record_size base i m = zlen (rec_body (lrec base i m)).
Proof.
  intros (Hk & Hv & Hn & Hh) Hi Ht Hsm.
  assert (Htd : ts_delta base (i_ns m) = ts_ms (i_ns m) - ts_ms base) by (apply wrap64_id, Ht).
  assert (Hhs : Forall (fun h => write_hdr h = enc_hdr h) (i_hdrs m)).
  { eapply Forall_impl; [|exact Hh]. intros h [H1 H2]. unfold enc_hdr, write_hdr.
    rewrite put_varint_sv by (apply small_i64, H1). rewrite wb_var_bytes_enc by exact H2. reflexivity. }
  assert (Hsz : Forall (fun h => hdr_size h = zlen (enc_hdr h)) (i_hdrs m)).
  { eapply Forall_impl; [|exact Hh]. intros h [H1 H2]. unfold enc_hdr, hdr_size, var_string_len, var_int_len.
    rewrite !zlen_app. rewrite varint_len_sv by (apply small_i64, H1). rewrite var_bytes_len_enc by exact H2. lia. }
  assert (Hsize : record_size base i m = zlen (rec_body (lrec base i m))).
  { unfold record_size, rec_body, lrec. rewrite Htd. cbn [r_tsd r_offd r_key r_val r_hdrs]. cbn zeta.
    rewrite (zsum_map_ext _ _ _ Hsz). rewrite <- zlen_concat_map.
    rewrite !zlen_app, zlen_put_bes. unfold var_int_len.
    rewrite (varint_len_sv _ Ht). rewrite (varint_len_sv i) by (apply i64_of_small, Hi).
    rewrite (varint_len_sv (zlen (i_hdrs m))) by (apply small_i64, Hn).
    rewrite !var_bytes_len_enc by assumption. unfold header, obytes in *. lia. }
  split; [|exact Hsize].
  unfold write_record, enc_rec. cbn zeta. rewrite Hsize, Htd.
  rewrite (put_varint_sv _ (small_i64 _ Hsm)). unfold rec_body, lrec.
  cbn [r_tsd r_offd r_key r_val r_hdrs].
  rewrite (concat_map_ext _ _ _ Hhs).
  rewrite !wb_var_bytes_enc by assumption.
  rewrite (put_varint_sv _ Ht). rewrite (put_varint_sv i) by (apply i64_of_small, Hi).
  rewrite (put_varint_sv (zlen (i_hdrs m))) by (apply small_i64, Hn).
  reflexivity.
Qed.

Lemma mapi_zsum_ext {A} (F : Z -> A -> Z) (g : Z -> A -> rec2) l : forall i,
  (forall j x, i <= j < i + zlen l -> In x l -> small (rec_body (g j x)) -> F j x = zlen (enc_rec (g j x))) ->
  Forall (fun r => small (rec_body r)) (mapi_from g i l) ->
  zsum (mapi_from F i l) = zlen (concat (map enc_rec (mapi_from g i l))).
Proof.
  induction l as [|x l IH]; intros i H Hs; cbn [mapi_from map concat zsum fold_right]; [reflexivity|].
  cbn [mapi_from] in Hs. apply Forall_cons_iff in Hs as [S1 S2].
  rewrite zlen_cons in H. pose proof (zlen_nonneg l).
  rewrite zlen_app. rewrite H by (try lia; try exact S1; left; reflexivity).
  unfold zsum in IH. rewrite IH; [reflexivity| |exact S2]. intros j y Hj Hy. apply H; [lia|right; exact Hy].
Qed.

Section Codec.
Variable comp decomp : N -> list N -> list N.
Hypothesis decomp_comp : forall c b, decomp c (comp c b) = b.

Definition lbatch (codec : N) (ms : list irec) : batch2 :=
  let base := match ms with m0 :: _ => i_ns m0 | [] => 0 end in
  {| b_base := 0; b_epoch := -1; b_attrs := Z.of_N codec; b_last := zlen ms - 1; b_first := ts_ms base;
     b_max := ts_ms (last_ns ms base); b_pid := -1; b_pepoch := -1; b_seq := -1;
     b_recs := mapi_from (lrec base) 0 ms |}.

Lemma codec_of_small c : (c <= 4)%N -> codec_of (Z.of_N c) = c.
Proof.
  intros H. unfold codec_of.
  assert (c = 0 \/ c = 1 \/ c = 2 \/ c = 3 \/ c = 4)%N as [->|[->|[->|[->| ->]]]] by lia; reflexivity.
Qed.

Definition ltimes_ok (ms : list irec) : Prop :=
  forall m, In m ms -> - ZM31 * ZM31 <= ts_ms (i_ns m) < ZM31 * ZM31.

Lemma legacy_v2_is_enc codec ms :
  ms <> [] -> Forall wf_in ms -> ltimes_ok ms -> small ms -> (codec <= 4)%N -> v2_fits comp (lbatch codec ms) ->
  legacy_v2 comp codec ms = Some (enc_set comp [IBatch (lbatch codec ms)]).
Proof.
  intros Hne Hwf Hts Hn Hc [Hfit Hfit2]. destruct ms as [|m0 ms']; [contradiction|].
  set (ms := m0 :: ms') in *.
  assert (Htd : forall x, In x ms -> in_i64 (ts_ms (i_ns x) - ts_ms (i_ns m0))).
  { intros x Hx. pose proof (Hts x Hx). pose proof (Hts m0 (or_introl eq_refl)).
    unfold in_i64, ZM63, ZM31 in *. lia. }
  pose proof (rec_body_small_of_fits _ Hfit) as Hsm.
  unfold lbatch in Hsm, Hfit. cbn [b_recs] in Hsm, Hfit.
  change (match ms with [] => 0 | m1 :: _ => i_ns m1 end) with (i_ns m0) in *.
  assert (Hraw : concat (mapi_from (write_record (i_ns m0)) 0 ms) =
                 concat (map enc_rec (mapi_from (lrec (i_ns m0)) 0 ms))).
  { apply mapi_concat_ext; [|exact Hsm]. intros j x Hj Hx Hs.
    rewrite Forall_forall in Hwf.
    apply write_record_enc; [apply Hwf, Hx|unfold small in Hn; lia|apply Htd, Hx|exact Hs]. }
  assert (Hsum : zsum (mapi_from (fun i m => record_size (i_ns m0) i m + var_int_len (record_size (i_ns m0) i m)) 0 ms) =
                 zlen (concat (map enc_rec (mapi_from (lrec (i_ns m0)) 0 ms)))).
  { apply mapi_zsum_ext; [|exact Hsm]. intros j x Hj Hx Hs.
    rewrite Forall_forall in Hwf.
    destruct (write_record_enc (i_ns m0) j x (Hwf x Hx) ltac:(unfold small in Hn; lia) (Htd x Hx) Hs) as [_ E].
    cbn zeta. rewrite E. unfold enc_rec. rewrite zlen_app. unfold var_int_len.
    rewrite varint_len_sv by (apply small_i64, Hs). lia. }
  rewrite zlen_enc_batch in Hfit2.
  unfold legacy_v2. unfold ms at 1. cbn beta iota zeta.
  rewrite enc_set_single. cbn [enc_item]. rewrite zlen_enc_batch.
  pose proof (zlen_nonneg (batch_payload comp (lbatch codec ms))) as Hpn.
  destruct (N.eqb_spec codec 0) as [E0|E0].
  - assert (Hpay : batch_payload comp (lbatch codec ms) = concat (map enc_rec (mapi_from (lrec (i_ns m0)) 0 ms))).
    { unfold batch_payload, lbatch. cbn [b_attrs b_recs]. rewrite E0. reflexivity. }
    rewrite Hsum, <- Hpay. rewrite Hraw, <- Hpay.
    rewrite wrap32_id by (unfold in_i32, ZM31 in *; lia).
    set (P := batch_payload comp (lbatch codec ms)) in *.
    f_equal. unfold write_record_batch, enc_batch, batch_tail. cbn zeta. fold P.
    unfold lbatch.
    cbn [b_base b_epoch b_attrs b_last b_first b_max b_pid b_pepoch b_seq b_recs].
    change (match ms with [] => 0 | m1 :: _ => i_ns m1 end) with (i_ns m0).
    rewrite E0. cbn [Z.of_N].
    rewrite !zlen_app, !zlen_put_bes, zlen_mapi.
    repeat (f_equal; try lia).
  - assert (Hpay : batch_payload comp (lbatch codec ms) = comp codec (concat (map enc_rec (mapi_from (lrec (i_ns m0)) 0 ms)))).
    { unfold batch_payload, lbatch. cbn [b_attrs b_recs]. rewrite codec_of_small by exact Hc.
      destruct (N.eqb_spec codec 0); [contradiction|]. reflexivity. }
    rewrite Hraw, <- Hpay.
    rewrite wrap32_id by (unfold in_i32, ZM31 in *; lia).
    set (P := batch_payload comp (lbatch codec ms)) in *.
    f_equal. unfold write_record_batch, enc_batch, batch_tail. cbn zeta. fold P.
    unfold lbatch.
    cbn [b_base b_epoch b_attrs b_last b_first b_max b_pid b_pepoch b_seq b_recs].
    change (match ms with [] => 0 | m1 :: _ => i_ns m1 end) with (i_ns m0).
    rewrite !zlen_app, !zlen_put_bes, zlen_mapi.
    repeat (f_equal; try lia).
Qed.

Lemma lbatch_wf codec ms :
  ms <> [] -> Forall wf_in ms -> ltimes_ok ms -> small ms -> (codec <= 4)%N ->
  v2_fits comp (lbatch codec ms) -> wf_batch comp (lbatch codec ms).
Proof.
  intros Hne Hwf Ht Hn Hc [Hf1 Hf0].
  assert (Hf2 : 9 + zlen (batch_tail comp (lbatch codec ms)) < ZM31)
    by (rewrite zlen_enc_batch in Hf0; rewrite zlen_batch_tail; lia).
  clear Hf0. destruct ms as [|m0 ms']; [contradiction|].
  set (ms := m0 :: ms') in *.
  pose proof (Ht m0 (or_introl eq_refl)) as Ht0.
  assert (Hlast : In (match rev ms with m :: _ => m | [] => m0 end) ms).
  { destruct (rev ms) as [|x l] eqn:E; [left; reflexivity|]. apply in_rev. rewrite E. left. reflexivity. }
  assert (Hl : - ZM31 * ZM31 <= ts_ms (last_ns ms (i_ns m0)) < ZM31 * ZM31).
  { unfold last_ns. destruct (rev ms) as [|x l] eqn:E; [exact Ht0|]. apply Ht. exact Hlast. }
  pose proof (zlen_nonneg ms) as Hnn.
  assert (0 < zlen ms) by (unfold ms; rewrite zlen_cons; pose proof (zlen_nonneg ms'); lia).
  unfold v2_fits, wf_batch, lbatch in *.
  change (match ms with [] => 0 | m1 :: _ => i_ns m1 end) with (i_ns m0) in *.
  cbn [b_base b_epoch b_attrs b_last b_first b_max b_pid b_pepoch b_seq b_recs] in *.
  unfold small in Hn.
  repeat split; try (unfold in_i64, in_i32, ZM63, ZM31 in *; lia).
  - unfold small. rewrite zlen_mapi. exact Hn.
  - pose proof (rec_body_small_of_fits _ Hf1) as Hsm.
    assert (Hall : Forall (fun r => in_i64 (r_tsd r) /\ in_i64 (r_offd r) /\ osmall (r_key r) /\ osmall (r_val r) /\
                                    small (r_hdrs r) /\ Forall wf_hdr (r_hdrs r))
                          (mapi_from (lrec (i_ns m0)) 0 ms)).
    { apply mapi_Forall. intros j x Hj Hx. rewrite Forall_forall in Hwf. destruct (Hwf x Hx) as (A & B & C & D).
      pose proof (Ht x Hx). unfold lrec. cbn [r_tsd r_offd r_key r_val r_hdrs].
      repeat split; try assumption; unfold in_i64, ZM63, ZM31 in *; lia. }
    clear - Hall Hsm. induction Hall as [|x l Hx Hl IH]; [constructor|].
    apply Forall_cons_iff in Hsm as [S1 S2]. constructor; [|apply IH, S2].
    unfold wf_rec. tauto.
Qed.

(* what a consumer decodes from the legacy v2 writer's bytes: exactly [lbatch] — record i
   carries timestamp delta milliseconds(time_i - time_0) against base timestamp(time_0) *)
Theorem legacy_v2_decodable codec ms :
  ms <> [] -> Forall wf_in ms -> ltimes_ok ms -> small ms -> (codec <= 4)%N ->
  v2_fits comp (lbatch codec ms) ->
  exists bytes, legacy_v2 comp codec ms = Some bytes /\
                dec_set decomp bytes = Some [IBatch (lbatch codec ms)].
Proof.
  intros Hne Hwf Ht Hn Hc Hf. eexists. split; [apply legacy_v2_is_enc; assumption|].
  apply dec_enc_set; [exact decomp_comp| |].
  - constructor; [|constructor]. cbn [wf_item]. apply lbatch_wf; assumption.
  - unfold enc_items. cbn [map concat enc_item]. rewrite app_nil_r. apply Hf.
Qed.

End Codec.

(* ------------------------------------------------------------------ consumer-visible records *)
Definition canon (ts : Z) (i : Z) (r : irec) : orec := mk_rec i ts (i_key r) (i_val r) (i_hdrs r).

Lemma map_mapi_pbatch (B : batch2) now first rs : b_base B = 0 -> b_first B = first -> forall i,
  map (rec_of_rec2 B) (mapi_from (prec now first) i rs) = mapi_from (fun i r => canon (pts now (i_ns r)) i r) i rs.
Proof.
  intros H0 H1. induction rs as [|r rs IH]; intros i; cbn [mapi_from map]; [reflexivity|].
  rewrite IH. f_equal. unfold rec_of_rec2, prec, canon, mk_rec. cbn [r_tsd r_offd r_key r_val r_hdrs].
  rewrite H0, H1. f_equal; lia.
Qed.

Lemma raw_records_pbatch attrs now rs :
  raw_records [IBatch (pbatch attrs now rs)] = mapi_from (fun i r => canon (pts now (i_ns r)) i r) 0 rs.
Proof.
  unfold raw_records. cbn [flat_map raw_records_of]. rewrite app_nil_r.
  apply map_mapi_pbatch; reflexivity.
Qed.

Lemma map_mapi_lbatch (B : batch2) base ms : b_base B = 0 -> b_first B = ts_ms base -> forall i,
  map (rec_of_rec2 B) (mapi_from (lrec base) i ms) = mapi_from (fun i r => canon (ts_ms (i_ns r)) i r) i ms.
Proof.
  intros H0 H1. induction ms as [|r rs IH]; intros i; cbn [mapi_from map]; [reflexivity|].
  rewrite IH. f_equal.
  unfold rec_of_rec2, lrec, canon, mk_rec. cbn [r_tsd r_offd r_key r_val r_hdrs].
  rewrite H0, H1. f_equal; lia.
Qed.

Lemma raw_records_lbatch codec ms :
  raw_records [IBatch (lbatch codec ms)] = mapi_from (fun i r => canon (ts_ms (i_ns r)) i r) 0 ms.
Proof.
  unfold raw_records. cbn [flat_map raw_records_of]. rewrite app_nil_r.
  destruct ms as [|m0 ms']; [reflexivity|].
  set (ms := m0 :: ms') in *. unfold lbatch.
  change (match ms with [] => 0 | m1 :: _ => i_ns m1 end) with (i_ns m0). cbn [b_recs].
  apply map_mapi_lbatch; reflexivity.
Qed.

(* ------------------------------------------------------------------ statements used by Properties/C05.v *)
Definition expected_records (ts : irec -> Z) (rs : list irec) : list orec :=
  mapi_from (fun i r => canon (ts r) i r) 0 rs.

Lemma proto_v2_full : forall comp decomp : N -> list N -> list N,
  (forall c b, decomp c (comp c b) = b) ->
  forall attrs now rs,
  rs <> [] -> Forall wf_in rs -> ptimes_ok now rs -> small rs -> -32768 <= attrs < 32768 ->
  (codec_of attrs <= 4)%N -> v2_fits comp (pbatch attrs now rs) ->
  exists bytes, proto_v2 comp attrs now rs = Some bytes /\
                dec_set decomp bytes = Some [IBatch (pbatch attrs now rs)] /\
                raw_records [IBatch (pbatch attrs now rs)] = expected_records (fun r => pts now (i_ns r)) rs.
Proof.
  intros comp decomp Hdc attrs now rs H1 H2 H3 H4 H5 H6 H7.
  destruct (proto_v2_decodable comp decomp Hdc attrs now rs H1 H2 H3 H4 H5 H6 H7) as (bytes & A & B).
  exists bytes. split; [exact A|]. split; [exact B|]. apply raw_records_pbatch.
Qed.

Lemma legacy_v2_full : forall comp decomp : N -> list N -> list N,
  (forall c b, decomp c (comp c b) = b) ->
  forall codec ms,
  ms <> [] -> Forall wf_in ms -> ltimes_ok ms -> small ms -> (codec <= 4)%N ->
  v2_fits comp (lbatch codec ms) ->
  exists bytes, legacy_v2 comp codec ms = Some bytes /\
                dec_set decomp bytes = Some [IBatch (lbatch codec ms)] /\
                raw_records [IBatch (lbatch codec ms)] = expected_records (fun r => ts_ms (i_ns r)) ms.
Proof.
  intros comp decomp Hdc codec ms H1 H2 H3 H4 H5 H6.
  destruct (legacy_v2_decodable comp decomp Hdc codec ms H1 H2 H3 H4 H5 H6) as (bytes & A & B).
  exists bytes. split; [exact A|]. split; [exact B|]. apply raw_records_lbatch.
Qed.

Definition idc (c : N) (b : list N) : list N := b.
(* the former F4 witness: 0.9 ms and 1.1 ms after 1 600 000 000 000 ms *)
Definition f4_witness : list irec :=
  [ {| i_off := 0; i_ns := 1600000000000900000; i_key := None; i_val := Some [97%N]; i_hdrs := [] |};
    {| i_off := 0; i_ns := 1600000000001100000; i_key := None; i_val := Some [98%N]; i_hdrs := [] |} ].
