(* Proofs/WriterBase.v — small shared lemmas for the Writer proofs. *)
From Coq Require Import List NArith Bool Arith Lia.
From KV Require Import Lib.LTS Model.Writer Proofs.WriterStmts.
Import ListNotations.

Lemma upd_length : forall A (l : list A) i x, length (upd l i x) = length l.
Proof. induction l; destruct i; simpl; intros; auto. Qed.

Lemma nth_error_upd_eq : forall A (l : list A) i x, i < length l -> nth_error (upd l i x) i = Some x.
Proof. induction l; destruct i; simpl; intros; try lia; auto. apply IHl; lia. Qed.

Lemma nth_error_upd_neq : forall A (l : list A) i j x, i <> j -> nth_error (upd l i x) j = nth_error l j.
Proof. induction l; destruct i, j; simpl; intros; auto; try congruence. Qed.

Lemma nth_error_upd : forall A (l : list A) i j x y,
  nth_error (upd l i x) j = Some y -> (i = j /\ y = x /\ i < length l) \/ (i <> j /\ nth_error l j = Some y).
Proof.
  intros A l i j x y H. destruct (Nat.eq_dec i j) as [->|N].
  - destruct (Nat.lt_ge_cases j (length l)) as [L|L].
    + rewrite nth_error_upd_eq in H by exact L. inversion H; subst. left; auto.
    + assert (nth_error (upd l j x) j = None) by (apply nth_error_None; rewrite upd_length; exact L).
      congruence.
  - right. split; [exact N|]. rewrite nth_error_upd_neq in H by exact N. exact H.
Qed.

Lemma upd_In : forall A (l : list A) i x y, In y (upd l i x) -> y = x \/ In y l.
Proof.
  induction l; destruct i; simpl; intros; auto.
  - destruct H; auto.
  - destruct H; auto. destruct (IHl _ _ _ H); auto.
Qed.

Lemma tp_eqb_eq : forall a b, tp_eqb a b = true <-> a = b.
Proof.
  intros [a1 a2] [b1 b2]. unfold tp_eqb; simpl. rewrite andb_true_iff, !N.eqb_eq.
  split; [intros [-> ->]; reflexivity|intros H; inversion H; auto].
Qed.

Lemma tp_eqb_refl : forall a, tp_eqb a a = true.
Proof. intros; apply tp_eqb_eq; reflexivity. Qed.

(* a run is an invariant-carrying induction: the form every proof file uses *)
Lemma runs_inv : forall cfg (P : state -> Prop),
  P init ->
  (forall s l s', P s -> step cfg s l = Some s' -> P s') ->
  forall ls s, runs cfg ls s -> P s.
Proof.
  intros cfg P H0 Hs ls s Hr. unfold runs in Hr.
  eapply (inv_run state label (step cfg) P); eauto.
Qed.
