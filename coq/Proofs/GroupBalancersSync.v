(* Proofs/GroupBalancersSync.v — the leader's SyncGroup request (makeSyncGroupRequestV0)
   carries, member by member, exactly the balancer's assignment *)
From Coq Require Import List NArith ZArith Bool Arith Lia Permutation.
From KV Require Import Model.GroupBalancers Proofs.GroupBalancersBase Proofs.GroupBalancersRange
  Proofs.GroupBalancersRR Proofs.GroupBalancersProofs Proofs.GroupBalancersRackGlobal
  Proofs.GroupBalancersLeader.
Import ListNotations.

Lemma int32_of_small z : (-2147483648 <= z < 2147483648)%Z -> int32_of z = z.
Proof. intros H. unfold int32_of. rewrite Z.mod_small by lia. lia. Qed.

Lemma dedup_bytes_in l x : In x (dedup_bytes l) <-> In x l.
Proof.
  induction l as [|y l IH]; cbn [dedup_bytes In]; [tauto|].
  destruct (existsb (bytes_eqb y) l) eqn:E.
  - rewrite IH. apply existsb_eqb_in in E. split; [tauto|]. intros [<-|H]; tauto.
  - cbn [In]. rewrite IH. tauto.
Qed.

Lemma dedup_bytes_nodup l : NoDup (dedup_bytes l).
Proof.
  induction l as [|y l IH]; cbn [dedup_bytes]; [constructor|].
  destruct (existsb (bytes_eqb y) l) eqn:E; [exact IH|].
  constructor; [|exact IH]. rewrite dedup_bytes_in. intros H. apply existsb_eqb_in in H. congruence.
Qed.

Lemma flat_map_ext_in' {A B} (f g : A -> list B) l :
  (forall a, In a l -> f a = g a) -> flat_map f l = flat_map g l.
Proof.
  induction l as [|a l IH]; intros H; [reflexivity|]. cbn [flat_map].
  rewrite (H a (or_introl eq_refl)), IH; [reflexivity|]. intros; apply H; right; assumption.
Qed.

Lemma Permutation_flat_map' {A B} (f : A -> list B) l l' :
  Permutation l l' -> Permutation (flat_map f l) (flat_map f l').
Proof.
  induction 1; cbn [flat_map]; auto.
  - apply Permutation_app_head. assumption.
  - rewrite !app_assoc. apply Permutation_app_tail, Permutation_app_comm.
  - etransitivity; eassumption.
Qed.

Definition tkey_id (tr : triple) : bytes := fst (fst tr).
Definition wrap3 (tr : triple) : triple := (fst tr, map int32_of (snd tr)).

Lemma wire_triples_sync a :
  wire_triples (sync_request a) =
  flat_map (fun id => map wrap3 (filter (fun tr => bytes_eqb (tkey_id tr) id) a)) (sync_member_ids a).
Proof.
  unfold wire_triples, sync_request. induction (sync_member_ids a) as [|id ids IH]; [reflexivity|].
  cbn [map flat_map fst snd]. rewrite IH. f_equal.
  unfold sync_entry. rewrite map_map. apply map_ext_in. intros [[i t] l] Hin.
  apply filter_In in Hin. destruct Hin as [_ Hin]. unfold tkey_id in Hin. cbn [fst snd] in *.
  destruct (bytes_eqb_spec i id) as [->|N]; [reflexivity|discriminate].
Qed.

Lemma assigned_wrap_filter a id t :
  assigned (map wrap3 (filter (fun tr => bytes_eqb (tkey_id tr) id) a)) id t =
  map int32_of (assigned a id t).
Proof.
  induction a as [|[[i t'] l] a IH]; [reflexivity|]. cbn [filter]. unfold tkey_id at 1. cbn [fst].
  rewrite (assigned_cons (i, t', l) a). cbn [fst snd]. rewrite map_app, <- IH.
  destruct (bytes_eqb i id) eqn:E; cbn [andb map].
  - rewrite assigned_cons. cbn [wrap3 fst snd]. rewrite E. cbn [andb].
    destruct (bytes_eqb t' t); reflexivity.
  - reflexivity.
Qed.

Lemma assigned_wrap_filter_other a id' id t : id' <> id ->
  assigned (map wrap3 (filter (fun tr => bytes_eqb (tkey_id tr) id') a)) id t = [].
Proof.
  intros N. apply assigned_notin. intros tr Htr. apply in_map_iff in Htr.
  destruct Htr as [tr0 [<- H0]]. apply filter_In in H0. destruct H0 as [_ H0].
  unfold wrap3, tkey_id in *. cbn [fst]. destruct (bytes_eqb_spec (fst (fst tr0)) id'); congruence.
Qed.

Lemma assigned_grouped a ids id t : NoDup ids ->
  assigned (flat_map (fun id' => map wrap3 (filter (fun tr => bytes_eqb (tkey_id tr) id') a)) ids) id t =
  if in_dec bytes_eq_dec id ids then map int32_of (assigned a id t) else [].
Proof.
  induction ids as [|i ids IH]; intros Hnd; [reflexivity|].
  inversion Hnd; subst. cbn [flat_map]. rewrite assigned_app, IH by assumption.
  destruct (bytes_eq_dec i id) as [->|N].
  - rewrite assigned_wrap_filter.
    destruct (in_dec bytes_eq_dec id ids) as [|n0]; [contradiction|].
    destruct (in_dec bytes_eq_dec id (id :: ids)) as [|n1]; [apply app_nil_r|exfalso; apply n1; left; reflexivity].
  - rewrite assigned_wrap_filter_other by exact N. cbn [app].
    destruct (in_dec bytes_eq_dec id ids) as [i0|n0], (in_dec bytes_eq_dec id (i :: ids)) as [[?|?]|n1];
      try reflexivity; try congruence; try contradiction.
    exfalso. apply n1. right. assumption.
Qed.

Lemma sync_member_ids_in a id :
  In id (sync_member_ids a) <-> exists tr, In tr a /\ fst (fst tr) = id.
Proof.
  unfold sync_member_ids. rewrite dedup_bytes_in, in_map_iff. split.
  - intros [tr [E H]]. exists tr. tauto.
  - intros [tr [H E]]. exists tr. tauto.
Qed.

(* the request names every member of the assignment once and carries for it exactly
   assignments[member] (as int32s) *)
Lemma sync_request_is_assignment a :
  map fst (sync_request a) = sync_member_ids a /\
  NoDup (map fst (sync_request a)) /\
  (forall id, In id (map fst (sync_request a)) <-> exists tr, In tr a /\ fst (fst tr) = id) /\
  (forall id t, assigned (wire_triples (sync_request a)) id t = map int32_of (assigned a id t)).
Proof.
  assert (E : map fst (sync_request a) = sync_member_ids a).
  { unfold sync_request. rewrite map_map. cbn [fst]. apply map_id. }
  split; [exact E|]. rewrite E. split; [apply dedup_bytes_nodup|]. split; [apply sync_member_ids_in|].
  intros id t. rewrite wire_triples_sync, assigned_grouped by apply dedup_bytes_nodup.
  destruct (in_dec bytes_eq_dec id (sync_member_ids a)) as [|n]; [reflexivity|].
  rewrite assigned_notin; [reflexivity|].
  intros tr Htr Eid. apply n, sync_member_ids_in. exists tr. tauto.
Qed.

(* ---- the request as a whole is a regrouping of the assignment ---- *)
Lemma filter_partition_perm {A} (p : A -> bool) l :
  Permutation (filter p l ++ filter (fun x => negb (p x)) l) l.
Proof.
  induction l as [|a l IH]; [constructor|]. cbn [filter]. destruct (p a); cbn [negb app].
  - constructor. exact IH.
  - apply Permutation_sym, Permutation_cons_app, Permutation_sym. exact IH.
Qed.

Lemma group_perm (ids : list bytes) : forall l : list triple, NoDup ids ->
  (forall tr, In tr l -> In (tkey_id tr) ids) ->
  Permutation (flat_map (fun id => filter (fun tr => bytes_eqb (tkey_id tr) id) l) ids) l.
Proof.
  induction ids as [|i ids IH]; intros l Hnd Hin.
  - destruct l as [|tr l]; [constructor|]. destruct (Hin tr (or_introl eq_refl)).
  - inversion Hnd; subst. cbn [flat_map].
    set (l' := filter (fun tr => negb (bytes_eqb (tkey_id tr) i)) l).
    rewrite (flat_map_ext_in' _ (fun id => filter (fun tr => bytes_eqb (tkey_id tr) id) l') ids).
    + rewrite (IH l' H2).
      * apply filter_partition_perm.
      * intros tr Htr. apply filter_In in Htr. destruct Htr as [Htr Hne].
        destruct (Hin tr Htr) as [E|H]; [|exact H]. rewrite E, bytes_eqb_refl in Hne. discriminate.
    + intros id Hid. unfold l'. clear - Hid H1.
      induction l as [|tr l IHl]; [reflexivity|]. cbn [filter].
      destruct (bytes_eqb_spec (tkey_id tr) id) as [E|N].
      * rewrite bytes_eqb_neq by (intros E'; apply H1; congruence). cbn [negb filter].
        rewrite E, bytes_eqb_refl. f_equal. exact IHl.
      * destruct (negb (bytes_eqb (tkey_id tr) i)); cbn [filter]; [rewrite bytes_eqb_neq by exact N|]; exact IHl.
Qed.

Lemma wire_triples_perm a : Permutation (wire_triples (sync_request a)) (map wrap3 a).
Proof.
  rewrite wire_triples_sync.
  rewrite (flat_map_map_out wrap3 (fun id => filter (fun tr => bytes_eqb (tkey_id tr) id) a)).
  apply Permutation_map, group_perm; [apply dedup_bytes_nodup|].
  intros tr Htr. apply sync_member_ids_in. exists tr. split; [exact Htr|reflexivity].
Qed.

Lemma exact_partition_perm ms ps a b : Permutation a b ->
  exact_partition ms ps a -> exact_partition ms ps b.
Proof.
  intros Hp [H1 [H2 H3]]. split; [|split].
  - eapply Permutation_NoDup; [apply Permutation_map; exact Hp|exact H1].
  - intros tr Htr. apply H2. eapply Permutation_in; [apply Permutation_sym; exact Hp|exact Htr].
  - intros t. rewrite <- (H3 t). unfold topic_parts.
    apply Permutation_flat_map', Permutation_sym, Hp.
Qed.

Definition int32_cluster (cluster : list partition) : Prop :=
  forall p, In p cluster -> (-2147483648 <= p_id p < 2147483648)%Z.

(* what the coordinator receives satisfies the same three clauses as the assignment *)
Lemma wire_exact_partition ms cluster a : int32_cluster cluster ->
  exact_partition ms cluster a -> exact_partition ms cluster (wire_triples (sync_request a)).
Proof.
  intros Hc Ha. apply (exact_partition_perm ms cluster a); [|exact Ha].
  rewrite wire_triples_perm. replace (map wrap3 a) with a; [reflexivity|].
  rewrite <- (map_id a) at 1. apply map_ext_in. intros [[i t] l] Htr. unfold wrap3. cbn [fst snd].
  f_equal. rewrite <- (map_id l) at 1. apply map_ext_in. intros p Hp. symmetry. apply int32_of_small.
  destruct Ha as [_ [_ H3]]. specialize (H3 t).
  assert (Hin : In p (topic_parts a t)).
  { unfold topic_parts. apply in_flat_map. exists (i, t, l). split; [exact Htr|].
    cbn [fst snd]. rewrite bytes_eqb_refl. exact Hp. }
  apply (Permutation_in _ H3) in Hin. destruct (existsb (subscribes t) ms); [|destruct Hin].
  unfold find_partitions in Hin. apply in_map_iff in Hin. destruct Hin as [q [<- Hq]].
  apply filter_In in Hq. apply Hc. tauto.
Qed.

Lemma wire_even_loads ms cluster a :
  even_loads ms cluster a -> even_loads ms cluster (wire_triples (sync_request a)).
Proof.
  intros H t m1 m2 I1 I2 T1 T2. specialize (H t m1 m2 I1 I2 T1 T2). cbv zeta in *.
  destruct (sync_request_is_assignment a) as [_ [_ [_ E]]]. rewrite !E, !map_length. exact H.
Qed.

Lemma leader_wire_partition ms cluster : wf_group ms -> int32_cluster cluster ->
  forall a, leader_result ms cluster a ->
    exact_partition ms cluster (wire_triples (sync_request a)) /\
    even_loads ms cluster (wire_triples (sync_request a)).
Proof.
  intros H Hc a Ha. split.
  - apply wire_exact_partition; [exact Hc|]. apply leader_partition_all; assumption.
  - apply wire_even_loads. apply leader_even_all; assumption.
Qed.

Lemma sync_request_spec a :
  NoDup (map fst (sync_request a)) /\
  (forall id, In id (map fst (sync_request a)) <-> exists tr, In tr a /\ fst (fst tr) = id) /\
  (forall id t, assigned (wire_triples (sync_request a)) id t = map int32_of (assigned a id t)) /\
  (forall z, (-2147483648 <= z < 2147483648)%Z -> int32_of z = z).
Proof.
  destruct (sync_request_is_assignment a) as [_ [H1 [H2 H3]]].
  split; [exact H1|]. split; [exact H2|]. split; [exact H3|exact int32_of_small].
Qed.
