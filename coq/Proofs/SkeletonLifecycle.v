(* Proofs/SkeletonLifecycle.v — who closes a connection: the ownership assumptions of the lookup steps of
   Model/Lifecycle.v and of Model/TransportConnect.v hold of /repo's CURRENT source. *)
From Coq Require Import List String Bool.
From KV Require Import Model.DRF Model.SkeletonAssumptions Gen.Skeleton.
Import ListNotations.
Open Scope string_scope.

Lemma lifecycle_skeleton_ok : lifecycle_assumptions_hold calls accesses = true.
Proof. vm_compute. reflexivity. Qed.

Definition without (caller callee : string) : list call_fact :=
  filter (fun k => negb (String.eqb (k_caller k) caller && String.eqb (k_callee k) callee)) calls.

(* the checker discriminates: the lookup connection closed by the helper goroutine instead of the
   function; the connect helper releasing without closing *)
Lemma lifecycle_skeleton_rejects :
  lifecycle_assumptions_hold
    (mkCall "Dialer.LookupPartition$1" "Conn.Close" HDefer [] [] [] [] true "x" :: without "Dialer.LookupPartition" "Conn.Close") accesses = false /\
  lifecycle_assumptions_hold (without "connGroup.grabConnOrConnect$1" "conn.close") accesses = false.
Proof. split; vm_compute; reflexivity. Qed.
