(* Proofs/TransportPoolBase.v — lookup / pop / close_all lemmas and the inversion tactic
   for TransportPool.pstep. *)
From Coq Require Import List ZArith Bool Arith Lia.
From KV Require Import Model.ConnMux Model.TransportPool Proofs.ConnMuxBase.
Import ListNotations.
Local Open Scope Z_scope.

Lemma prun_is_grun : forall ls s, prun s ls = grun pstep s ls.
Proof. induction ls as [|l ls IH]; intros s; simpl; [reflexivity|]. destruct (pstep s l); auto. Qed.

Lemma pinv_run : forall (P : pstate -> Prop),
  (forall s l s', P s -> pstep s l = Some s' -> P s') ->
  forall ls s s', P s -> prun s ls = Some s' -> P s'.
Proof. intros P H ls s s' Hs Hr. rewrite prun_is_grun in Hr. eapply ginv_run; eauto. Qed.

Lemma cn_upd_conn : forall s c v c', cn (upd_conn s c v) c' = if Nat.eqb c c' then v else cn s c'.
Proof. reflexivity. Qed.
Lemma rq_upd_req : forall s r v r', rq (upd_req s r v) r' = if Nat.eqb r r' then v else rq s r'.
Proof. reflexivity. Qed.

Lemma mem_true : forall x l, mem x l = true -> In x l.
Proof.
  intros x l H. unfold mem in H. apply existsb_exists in H. destruct H as [y [I E]].
  apply Nat.eqb_eq in E. subst. exact I.
Qed.
Lemma mem_false : forall x l, mem x l = false -> ~ In x l.
Proof.
  intros x l H I. assert (mem x l = true).
  { unfold mem. apply existsb_exists. exists x. split; [exact I|apply Nat.eqb_refl]. }
  congruence.
Qed.

Lemma pop_group_spec : forall s g l c rest, pop_group s g l = Some (c, rest) ->
  In c l /\ (forall x, In x rest -> In x l) /\ (forall x, In x l -> x = c \/ In x rest) /\
  (NoDup l -> NoDup rest /\ ~ In c rest).
Proof.
  induction l as [|a l IH]; intros c rest H; simpl in H; [discriminate|].
  destruct (in_group s g a).
  - inversion H; subst. repeat split; simpl; auto.
    + intros x [E|I]; auto.
    + inversion H0; auto.
    + inversion H0; auto.
  - destruct (pop_group s g l) as [[c' l'']|] eqn:E; [|discriminate].
    inversion H; subst. destruct (IH c l'' eq_refl) as [A [B [C D]]].
    repeat split; simpl; auto.
    + intros x [X|X]; auto.
    + intros x [X|X]; auto. destruct (C x X); auto.
    + inversion H0; subst. destruct (D H4) as [D1 D2]. constructor; auto.
    + inversion H0; subst. destruct (D H4) as [D1 D2]. intros [X|X]; [subst; contradiction|contradiction].
Qed.

Lemma remove_cid_spec : forall c l,
  ~ In c (remove_cid c l) /\ (forall x, In x (remove_cid c l) -> In x l) /\
  (NoDup l -> NoDup (remove_cid c l)).
Proof.
  induction l as [|a l [A [B C]]]; simpl.
  - repeat split; auto.
  - destruct (Nat.eqb a c) eqn:E.
    + repeat split; auto. intros N. inversion N; auto.
    + apply Nat.eqb_neq in E. repeat split.
      * intros [X|X]; [congruence|contradiction].
      * intros x [X|X]; auto.
      * intros N. inversion N; subst. constructor; auto.
Qed.

Lemma close_all_fields : forall l s,
  reqs (close_all s l) = reqs s /\ idle (close_all s l) = idle s /\
  gclosed (close_all s l) = gclosed s /\ nconn (close_all s l) = nconn s.
Proof.
  induction l as [|a l IH]; intros s; simpl; [auto|].
  destruct (IH (upd_conn s a (set_cst (cn s a) CClosed))) as [A [B [C D]]]. auto.
Qed.

Lemma close_all_cn : forall l s c,
  cn (close_all s l) c = cn s c \/ cn (close_all s l) c = set_cst (cn s c) CClosed.
Proof.
  induction l as [|a l IH]; intros s c; simpl; [left; reflexivity|].
  destruct (IH (upd_conn s a (set_cst (cn s a) CClosed)) c) as [H|H]; rewrite H, cn_upd_conn;
    destruct (Nat.eqb a c) eqn:E; try (apply Nat.eqb_eq in E; subst); auto.
Qed.

Lemma close_all_other : forall l s c, ~ In c l -> cn (close_all s l) c = cn s c.
Proof.
  induction l as [|a l IH]; intros s c N; simpl; [reflexivity|].
  rewrite IH by (intros X; apply N; right; exact X).
  rewrite cn_upd_conn. destruct (Nat.eqb a c) eqn:E; [|reflexivity].
  apply Nat.eqb_eq in E. subst. exfalso. apply N. left. reflexivity.
Qed.

Ltac pstep_inv H :=
  unfold pstep, release_or_close, resolve in H;
  repeat match type of H with
  | context [match ?x with _ => _ end] => destruct x eqn:?
  end; try discriminate; inversion H; subst; clear H.

Ltac simp_p :=
  cbn [conns reqs idle gclosed nconn upd_conn upd_req set_idle add_gclosed bump_nconn
       cgrp cst idgen nex cwire bsent timer lastok set_cst set_timer set_lastok set_cwire
       bump_idgen add_bsent fresh_conn qph prom] in *.

Ltac case_eqb :=
  repeat match goal with
  | |- context [if Nat.eqb ?a ?b then _ else _] =>
    let E := fresh "E" in destruct (Nat.eqb a b) eqn:E;
    [apply Nat.eqb_eq in E; subst|apply Nat.eqb_neq in E]
  | H : context [if Nat.eqb ?a ?b then _ else _] |- _ =>
    let E := fresh "E" in destruct (Nat.eqb a b) eqn:E;
    [apply Nat.eqb_eq in E; subst|apply Nat.eqb_neq in E]
  end.
