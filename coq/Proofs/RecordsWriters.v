(* Proofs/RecordsWriters.v — the writers of Model/Records.v produce exactly the reference
   encoding of the batch one expects, hence the reference decoder returns that batch. *)
From Coq Require Import List NArith ZArith Bool Lia.
From Coq Require Import ZifyN ZifyNat ZifyBool.
From KV Require Import Lib.Bits Lib.Bytes Lib.Varint Lib.Crc Spec.RecordFormat Model.Records
  Proofs.RecordsCodec Proofs.RecordsSet.
Import ListNotations.
Open Scope Z_scope.

(* ------------------------------------------------------------------ Go varints = spec varints *)
Lemma uvarint_enc_uv : forall f x, (x < pow128 (S f))%N -> uvarint_enc (S f) x = uv_enc f x.
Proof.
  induction f as [|f IH]; intros x Hx.
  - change (pow128 1) with 128%N in Hx. cbn [uvarint_enc uv_enc].
    destruct (N.ltb_spec x 128); [reflexivity|lia].
  - rewrite pow128_S in Hx.
    change (uvarint_enc (S (S f)) x) with
      (if (x <? 128)%N then [x] else (x mod 128 + 128)%N :: uvarint_enc (S f) (x / 128)%N).
    cbn [uv_enc]. destruct (N.ltb_spec x 128); [reflexivity|].
    rewrite IH by (apply N.div_lt_upper_bound; lia). reflexivity.
Qed.
Lemma uvarint_len_uv : forall f x, (x < pow128 (S f))%N -> uvarint_len (S f) x = length (uv_enc f x).
Proof.
  induction f as [|f IH]; intros x Hx.
  - change (pow128 1) with 128%N in Hx. cbn [uvarint_len uv_enc].
    destruct (N.ltb_spec x 128); [reflexivity|lia].
  - rewrite pow128_S in Hx.
    change (uvarint_len (S (S f)) x) with
      (if (x <? 128)%N then 1%nat else S (uvarint_len (S f) (x / 128)%N)).
    cbn [uv_enc]. destruct (N.ltb_spec x 128); [reflexivity|].
    rewrite IH by (apply N.div_lt_upper_bound; lia). reflexivity.
Qed.

Lemma wrap64_id z : in_i64 z -> wrap64 z = z.
Proof. unfold in_i64, wrap64, ZM63, ZM64. intros H. rewrite Z.mod_small by lia. lia. Qed.

Lemma zigzag_zz z : in_i64 z -> zigzag z = zz_enc z.
Proof.
  intros Hz. unfold zigzag, zz_enc, u64. unfold in_i64, ZM63 in Hz.
  assert (Hw : exists k, wrap64 (z * 2) = 2 * z + ZM64 * k).
  { unfold wrap64. exists (- ((z * 2 + ZM63) / ZM64)).
    pose proof (Z.div_mod (z * 2 + ZM63) ZM64 ltac:(unfold ZM64; lia)). lia. }
  destruct Hw as (k & Hk). rewrite Hk.
  destruct (Z.ltb_spec z 0) as [Hn|Hp].
  - rewrite Z.lxor_m1_r. unfold Z.lnot.
    replace (Z.pred (- (2 * z + ZM64 * k))) with ((-2 * z - 1) + (- k) * ZM64) by lia.
    rewrite Z.mod_add by (unfold ZM64; lia). rewrite Z.mod_small by (unfold ZM64; lia). reflexivity.
  - rewrite Z.lxor_0_r. replace (2 * z + ZM64 * k) with (2 * z + k * ZM64) by lia.
    rewrite Z.mod_add by (unfold ZM64; lia). rewrite Z.mod_small by (unfold ZM64; lia). reflexivity.
Qed.

Lemma put_varint_sv z : in_i64 z -> put_varint z = sv_enc z.
Proof.
  intros Hz. unfold put_varint, put_uvarint, sv_enc. rewrite zigzag_zz by exact Hz.
  pose proof (zz_enc_lt z Hz). pose proof M64_lt_pow128_10.
  rewrite N.mod_small by assumption. apply uvarint_enc_uv. lia.
Qed.
Lemma varint_len_sv z : in_i64 z -> Z.of_nat (uvarint_len 10 (zigzag z)) = zlen (sv_enc z).
Proof.
  intros Hz. unfold sv_enc, zlen. rewrite zigzag_zz by exact Hz.
  pose proof (zz_enc_lt z Hz). pose proof M64_lt_pow128_10.
  rewrite uvarint_len_uv by lia. reflexivity.
Qed.

(* ------------------------------------------------------------------ list helpers *)
Lemma zlen_concat_map {A} (g : A -> list N) l : zlen (concat (map g l)) = zsum (map (fun x => zlen (g x)) l).
Proof.
  induction l as [|x l IH]; cbn [map concat zsum fold_right]; [reflexivity|].
  rewrite zlen_app. unfold zsum in IH. rewrite IH. reflexivity.
Qed.
Lemma zsum_map_ext {A} (f g : A -> Z) l : Forall (fun x => f x = g x) l -> zsum (map f l) = zsum (map g l).
Proof.
  induction 1 as [|x l Hx Hl IH]; cbn [map zsum fold_right]; [reflexivity|].
  unfold zsum in IH. rewrite IH, Hx. reflexivity.
Qed.
Lemma concat_map_ext {A} (f g : A -> list N) l : Forall (fun x => f x = g x) l -> concat (map f l) = concat (map g l).
Proof. induction 1 as [|x l Hx Hl IH]; cbn [map concat]; [reflexivity|]. rewrite IH, Hx. reflexivity. Qed.
Lemma zlen_mapi {A B} (f : Z -> A -> B) l : forall i, zlen (mapi_from f i l) = zlen l.
Proof. unfold zlen. induction l as [|x l IH]; intros i; cbn [mapi_from length]; [reflexivity|]. specialize (IH (i + 1)). lia. Qed.
Lemma zlen_cons {A} (x : A) l : zlen (x :: l) = 1 + zlen l.
Proof. unfold zlen. cbn [length]. lia. Qed.

(* index-wise transfer from [mapi_from f] to [mapi_from g] *)
Lemma mapi_concat_ext {A} (f : Z -> A -> list N) (g : Z -> A -> rec2) l : forall i,
  (forall j x, i <= j < i + zlen l -> In x l -> small (rec_body (g j x)) -> f j x = enc_rec (g j x)) ->
  Forall (fun r => small (rec_body r)) (mapi_from g i l) ->
  concat (mapi_from f i l) = concat (map enc_rec (mapi_from g i l)).
Proof.
  induction l as [|x l IH]; intros i H Hs; cbn [mapi_from map concat]; [reflexivity|].
  cbn [mapi_from] in Hs. apply Forall_cons_iff in Hs as [S1 S2].
  rewrite zlen_cons in H. pose proof (zlen_nonneg l).
  rewrite H by (try lia; try exact S1; left; reflexivity).
  rewrite IH; [reflexivity| |exact S2]. intros j y Hj Hy. apply H; [lia|right; exact Hy].
Qed.
Lemma rec_body_small_of_fits recs :
  zlen (concat (map enc_rec recs)) < ZM31 -> Forall (fun r => small (rec_body r)) recs.
Proof.
  induction recs as [|r recs IH]; intros H; constructor.
  - cbn [map concat] in H. rewrite zlen_app in H. unfold enc_rec in H at 1. rewrite zlen_app in H.
    pose proof (zlen_nonneg (sv_enc (zlen (rec_body r)))). pose proof (zlen_nonneg (concat (map enc_rec recs))).
    unfold small. lia.
  - apply IH. cbn [map concat] in H. rewrite zlen_app in H.
    pose proof (zlen_nonneg (enc_rec r)). lia.
Qed.
Lemma mapi_Forall {A B} (P : B -> Prop) (g : Z -> A -> B) l : forall i,
  (forall j x, i <= j < i + zlen l -> In x l -> P (g j x)) -> Forall P (mapi_from g i l).
Proof.
  induction l as [|x l IH]; intros i H; cbn [mapi_from]; constructor.
  - rewrite zlen_cons in H. pose proof (zlen_nonneg l). apply H; [lia|left; reflexivity].
  - apply IH. intros j y Hj Hy. rewrite zlen_cons in H. apply H; [lia|right; exact Hy].
Qed.

(* ------------------------------------------------------------------ input records *)
Definition wf_in (r : irec) : Prop :=
  osmall (i_key r) /\ osmall (i_val r) /\ small (i_hdrs r) /\ Forall wf_hdr (i_hdrs r).

Lemma osmall_blen b : osmall b -> in_i64 (blen b).
Proof. destruct b as [l|]; cbn; [apply small_i64|]. intros _. unfold in_i64, ZM63. lia. Qed.

(* protocol writer pieces *)
Lemma pw_vnb_enc b : osmall b -> pw_vnb b = enc_vbytes b.
Proof. destruct b as [l|]; cbn [pw_vnb enc_vbytes osmall]; intros H.
  - rewrite put_varint_sv by (apply small_i64, H). reflexivity.
  - apply put_varint_sv, m1_i64. Qed.
Lemma size_of_vnb_enc b : osmall b -> size_of_vnb b = zlen (enc_vbytes b).
Proof. destruct b as [l|]; cbn [size_of_vnb enc_vbytes osmall]; intros H; unfold size_of_varint.
  - rewrite zlen_app. rewrite varint_len_sv by (apply small_i64, H). reflexivity.
  - apply varint_len_sv, m1_i64. Qed.
(* legacy writer pieces *)
Lemma wb_var_bytes_enc b : osmall b -> wb_var_bytes b = enc_vbytes b.
Proof. destruct b as [l|]; cbn [wb_var_bytes enc_vbytes osmall]; intros H.
  - rewrite put_varint_sv by (apply small_i64, H). reflexivity.
  - apply put_varint_sv, m1_i64. Qed.
Lemma var_bytes_len_enc b : osmall b -> var_bytes_len b = zlen (enc_vbytes b).
Proof. destruct b as [l|]; cbn [var_bytes_len enc_vbytes osmall blen]; intros H; unfold var_bytes_len, var_int_len; cbn [blen].
  - rewrite zlen_app. rewrite varint_len_sv by (apply small_i64, H). reflexivity.
  - rewrite Z.add_0_r.
    transitivity 1; [vm_compute; reflexivity|vm_compute; reflexivity]. Qed.

Lemma i64_of_small z : 0 <= z < ZM31 -> in_i64 z.
Proof. unfold in_i64, ZM31, ZM63. lia. Qed.

(* ================================================================== protocol v2 *)
Definition prec (now first i : Z) (r : irec) : rec2 :=
  {| r_tsd := pts now (i_ns r) - first; r_offd := i; r_key := i_key r; r_val := i_val r; r_hdrs := i_hdrs r |}.

Lemma proto_record_enc now first i r :
  wf_in r -> in_i64 (pts now (i_ns r) - first) -> 0 <= i < ZM31 ->
  small (rec_body (prec now first i r)) ->
  proto_record now first i r = enc_rec (prec now first i r).
Proof.
  intros (Hk & Hv & Hn & Hh) Ht Hi Hsm. unfold proto_record, enc_rec.
  rewrite <- (put_varint_sv _ (small_i64 _ Hsm)). unfold rec_body, prec in *.
  cbn [r_tsd r_offd r_key r_val r_hdrs] in *.
  rewrite (wrap64_id _ Ht).
  assert (Hhs : Forall (fun h => put_varint (zlen (fst h)) ++ fst h ++ pw_vnb (snd h) = enc_hdr h) (i_hdrs r)).
  { eapply Forall_impl; [|exact Hh]. intros h [H1 H2]. unfold enc_hdr.
    rewrite put_varint_sv by (apply small_i64, H1). rewrite pw_vnb_enc by exact H2. reflexivity. }
  assert (Hsz : Forall (fun h => size_of_varint (zlen (fst h)) + zlen (fst h) + size_of_vnb (snd h) = zlen (enc_hdr h)) (i_hdrs r)).
  { eapply Forall_impl; [|exact Hh]. intros h [H1 H2]. unfold enc_hdr, size_of_varint.
    rewrite !zlen_app. rewrite varint_len_sv by (apply small_i64, H1). rewrite size_of_vnb_enc by exact H2. lia. }
  rewrite (concat_map_ext _ _ _ Hhs). rewrite (zsum_map_ext _ _ _ Hsz).
  rewrite <- zlen_concat_map.
  rewrite !pw_vnb_enc by assumption.
  rewrite (put_varint_sv _ Ht). rewrite (put_varint_sv i) by (apply i64_of_small, Hi).
  rewrite (put_varint_sv (zlen (i_hdrs r))) by (apply small_i64, Hn).
  f_equal. f_equal.
  rewrite !zlen_app, zlen_put_bes. unfold size_of_varint.
  rewrite (varint_len_sv _ Ht). rewrite (varint_len_sv i) by (apply i64_of_small, Hi).
  rewrite (varint_len_sv (zlen (i_hdrs r))) by (apply small_i64, Hn).
  rewrite !size_of_vnb_enc by assumption. unfold header, obytes in *. lia.
Qed.

Section Codec.
Variable comp decomp : N -> list N -> list N.
Hypothesis decomp_comp : forall c b, decomp c (comp c b) = b.

Definition pbatch (attrs now : Z) (rs : list irec) : batch2 :=
  let first := match rs with r0 :: _ => pts now (i_ns r0) | [] => 0 end in
  {| b_base := 0; b_epoch := -1; b_attrs := attrs; b_last := zlen rs - 1; b_first := first;
     b_max := max_ts now rs; b_pid := -1; b_pepoch := -1; b_seq := -1;
     b_recs := mapi_from (prec now first) 0 rs |}.

Definition ptimes_ok (now : Z) (rs : list irec) : Prop :=
  forall r, In r rs -> - ZM31 * ZM31 <= pts now (i_ns r) < ZM31 * ZM31.

Lemma enc_set_single it : enc_set comp [it] = put_bes 4 (zlen (enc_item comp it)) ++ enc_item comp it.
Proof. unfold enc_set, enc_items. cbn [map concat]. rewrite app_nil_r. reflexivity. Qed.

Lemma zlen_batch_tail b : zlen (batch_tail comp b) = 40 + zlen (batch_payload comp b).
Proof. unfold batch_tail. rewrite !zlen_app, !zlen_put_bes. lia. Qed.
Lemma zlen_enc_batch b : zlen (enc_batch comp b) = 61 + zlen (batch_payload comp b).
Proof. unfold enc_batch. cbn zeta. rewrite !zlen_app, !zlen_put_bes, zlen_put_be, zlen_batch_tail. lia. Qed.

(* byte-exact: the protocol v2 writer emits the reference encoding of [pbatch] *)
Lemma proto_v2_is_enc attrs now rs :
  rs <> [] -> Forall wf_in rs -> ptimes_ok now rs -> small rs -> (codec_of attrs <= 4)%N ->
  zlen (concat (map enc_rec (b_recs (pbatch attrs now rs)))) < ZM31 ->
  proto_v2 comp attrs now rs = Some (enc_set comp [IBatch (pbatch attrs now rs)]).
Proof.
  intros Hne Hwf Ht Hn Hc Hfit. destruct rs as [|r0 rs']; [contradiction|].
  set (rs := r0 :: rs') in *.
  unfold proto_v2. unfold rs at 1. cbn beta iota zeta. f_equal.
  rewrite enc_set_single. cbn [enc_item].
  rewrite zlen_enc_batch.
  assert (Hraw : concat (mapi_from (proto_record now (pts now (i_ns r0))) 0 rs) =
                 concat (map enc_rec (b_recs (pbatch attrs now rs)))).
  { apply rec_body_small_of_fits in Hfit.
    unfold pbatch in *. cbn [b_recs rs] in *. apply mapi_concat_ext; [|exact Hfit]. intros j x Hj Hx Hsm.
    rewrite Forall_forall in Hwf.
    apply proto_record_enc; [apply Hwf, Hx| |unfold small in Hn; fold rs in Hj; lia|exact Hsm].
    pose proof (Ht x Hx). pose proof (Ht r0 (or_introl eq_refl)).
    unfold in_i64, ZM63, ZM31 in *. lia. }
  assert (Hpay : (if codec_known (codec_of attrs) then comp (codec_of attrs) (concat (mapi_from (proto_record now (pts now (i_ns r0))) 0 rs))
                  else concat (mapi_from (proto_record now (pts now (i_ns r0))) 0 rs)) =
                 batch_payload comp (pbatch attrs now rs)).
  { unfold batch_payload. rewrite Hraw. cbn [b_attrs pbatch]. unfold codec_known.
    destruct (N.eqb_spec (codec_of attrs) 0) as [E|E].
    - rewrite E. reflexivity.
    - replace ((1 <=? codec_of attrs)%N && (codec_of attrs <=? 4)%N) with true by lia. reflexivity. }
  rewrite Hpay.
  unfold enc_batch, batch_tail. cbn zeta. cbn [b_base b_epoch b_attrs b_last b_first b_max b_pid b_pepoch b_seq pbatch].
  rewrite !zlen_app, !zlen_put_bes.
  replace (b_recs (pbatch attrs now rs)) with (mapi_from (prec now (pts now (i_ns r0))) 0 rs) by reflexivity.
  rewrite zlen_mapi.
  repeat (f_equal; try lia).
Qed.

Definition v2_fits (b : batch2) : Prop :=
  zlen (concat (map enc_rec (b_recs b))) < ZM31 /\ zlen (enc_batch comp b) < ZM31.

Lemma max_ts_range now rs : ptimes_ok now rs -> 0 <= max_ts now rs < ZM31 * ZM31.
Proof.
  unfold max_ts, ptimes_ok. intros H.
  assert (G : forall l m, (forall r, In r l -> In r rs) -> 0 <= m < ZM31 * ZM31 ->
          0 <= fold_left (fun m r => let t := pts now (i_ns r) in if m <? t then t else m) l m < ZM31 * ZM31).
  { induction l as [|x l IH]; intros m Hin Hm; cbn [fold_left]; [exact Hm|].
    apply IH; [intros r Hr; apply Hin; right; exact Hr|].
    cbn zeta. pose proof (H x (Hin x (or_introl eq_refl))).
    destruct (Z.ltb_spec m (pts now (i_ns x))); lia. }
  apply G; [auto|unfold ZM31; lia].
Qed.

Lemma pbatch_wf attrs now rs :
  rs <> [] -> Forall wf_in rs -> ptimes_ok now rs -> small rs -> -32768 <= attrs < 32768 ->
  v2_fits (pbatch attrs now rs) -> wf_batch comp (pbatch attrs now rs).
Proof.
  intros Hne Hwf Ht Hn Ha [Hf1 Hf0].
  assert (Hf2 : 9 + zlen (batch_tail comp (pbatch attrs now rs)) < ZM31)
    by (rewrite zlen_enc_batch in Hf0; rewrite zlen_batch_tail; lia).
  clear Hf0. destruct rs as [|r0 rs']; [contradiction|].
  set (rs := r0 :: rs') in *.
  pose proof (Ht r0 (or_introl eq_refl)) as Ht0.
  pose proof (max_ts_range now rs Ht) as Hmx.
  pose proof (zlen_nonneg rs) as Hnn.
  assert (0 < zlen rs) by (unfold rs; rewrite zlen_cons; pose proof (zlen_nonneg rs'); lia).
  unfold v2_fits, wf_batch, pbatch in *. fold rs in Hf1, Hf2 |- *.
  change (match rs with [] => 0 | r1 :: _ => pts now (i_ns r1) end) with (pts now (i_ns r0)) in *.
  cbn [b_base b_epoch b_attrs b_last b_first b_max b_pid b_pepoch b_seq b_recs] in *.
  unfold small in Hn.
  repeat split; try (unfold in_i64, in_i32, ZM63, ZM31 in *; lia).
  - unfold small. rewrite zlen_mapi. exact Hn.
  - pose proof (rec_body_small_of_fits _ Hf1) as Hsm.
    assert (Hall : Forall (fun r => in_i64 (r_tsd r) /\ in_i64 (r_offd r) /\ osmall (r_key r) /\ osmall (r_val r) /\
                                    small (r_hdrs r) /\ Forall wf_hdr (r_hdrs r))
                          (mapi_from (prec now (pts now (i_ns r0))) 0 rs)).
    { apply mapi_Forall. intros j x Hj Hx. rewrite Forall_forall in Hwf. destruct (Hwf x Hx) as (A & B & C & D).
      pose proof (Ht x Hx). unfold prec. cbn [r_tsd r_offd r_key r_val r_hdrs].
      repeat split; try assumption; unfold in_i64, ZM63, ZM31 in *; lia. }
    clear - Hall Hsm. induction Hall as [|x l Hx Hl IH]; [constructor|].
    apply Forall_cons_iff in Hsm as [S1 S2]. constructor; [|apply IH, S2].
    unfold wf_rec. tauto.
Qed.

(* what a consumer decodes from the bytes the protocol v2 writer produced *)
Theorem proto_v2_decodable attrs now rs :
  rs <> [] -> Forall wf_in rs -> ptimes_ok now rs -> small rs -> -32768 <= attrs < 32768 ->
  (codec_of attrs <= 4)%N -> v2_fits (pbatch attrs now rs) ->
  exists bytes, proto_v2 comp attrs now rs = Some bytes /\
                dec_set decomp bytes = Some [IBatch (pbatch attrs now rs)].
Proof.
  intros Hne Hwf Ht Hn Ha Hc Hf. eexists. split; [apply proto_v2_is_enc; try assumption; apply Hf|].
  apply dec_enc_set; [exact decomp_comp| |].
  - constructor; [|constructor]. cbn [wf_item]. apply pbatch_wf; assumption.
  - unfold enc_items. cbn [map concat enc_item]. rewrite app_nil_r.
    apply Hf.
Qed.

End Codec.
