(* Proofs/ReaderWrapRun.v — C02, L1: a compressed v0 / v1 wrapper message read to its end:
   the header, the decompression, the inner messages, the pop back to the response's frame. *)
From Coq Require Import List NArith ZArith Bool Lia.
From Coq Require Import ZifyN ZifyNat ZifyBool.
From KV Require Import Lib.Bits Lib.Bytes Lib.Varint Model.MsgSetReader Model.ReaderModel Spec.FetchSpec
  Proofs.ReaderPrim Proofs.ReaderV2 Proofs.ReaderV1 Proofs.ReaderV1Run Proofs.ReaderWrap Proofs.ReaderWrapInner.
Import ListNotations.
Open Scope Z_scope.

Section WRun.
Variable compress : Z -> list N -> list N.
Variable decomp : Z -> list N -> option (list N).
Hypothesis decomp_law : forall c x, decomp c (compress c x) = Some x.
Variable tl : list N.            (* the response's bytes after the wrapper *)
Variable tlrecs : list record.
Variable o : Z.

(* ---------------------------------------------------------------- one call of Batch.readMessage *)
Lemma batch_deliver f m m' off acc r :
  msr_read decomp (S f) off m = MOk (msg_of r, -1) m' -> m_lrem m' = 1 -> off <= r_off r -> o <= r_off r ->
  batch_run decomp (S f) (mkBatch (Some m) true o off (-1) None false) acc
  = batch_run decomp f (mkBatch (Some m') true o (r_off r + 1) (-1) None false) (msg_of r :: acc).
Proof.
  intros Hm Hl H1 H2. cbn [batch_run batch_read]. unfold batch_read1. cbn [b_err b_msgs b_off b_last b_late]. rewrite Hm.
  cbn [g_off msg_of set_b b_has_conn b_conn_off andb]. rewrite Hl. cbn [Z.eqb andb].
  replace (off <=? r_off r) with true by lia. replace (r_off r <? o) with false by lia. reflexivity.
Qed.

Lemma batch_ended f m off acc :
  ended (-1) (msr_read decomp (S f) off m) ->
  batch_run decomp (S f) (mkBatch (Some m) true o off (-1) None false) acc = Some (rev acc, EEOF, lfinal off).
Proof.
  intros (m' & Hm1 & Hm2 & Hm3 & Hm4). cbn [batch_run batch_read]. unfold batch_read1. cbn [b_err b_msgs b_off b_last b_late].
  rewrite Hm1, Hm2. cbn [negb andb]. rewrite Hm3, Hm4. cbn [Z.eqb andb set_b b_off]. unfold lfinal.
  destruct (off <=? -1); reflexivity.
Qed.

(* ---------------------------------------------------------------- the wrapper *)
Variables fmt codec Wo ts size bse : Z.
Variable titems : list item.     (* the inner messages with their true offsets *)

Notation Wm := (wire bse).
Notation witems := (map (wire bse) titems).
Notation WH := (whdr fmt codec Wo ts size).

Definition wenc : list N := wh fmt codec Wo ts size ++ wtail compress codec witems.

Definition wrap_ok : Prop :=
  wh_fits fmt codec Wo ts size /\ Forall (inner_ok bse) titems /\ titems <> []
  /\ len (compress codec (stream witems)) < 2 ^ 30
  /\ wrap64 (Wo - last_off (recs_of witems) 0) = bse.

Definition rootf (jr : Z) : frame := mkFrame (ztake jr tl) (len (ztake jr tl)) 0 0 WH.
Definition ist (jr : Z) (items : list item) (h : hdr) (el : Z) : msr := ibnd [rootf jr] bse items h el.

Lemma ist_nil jr h el : ist jr [] h el = st (ztake jr tl) 0 WH 1 el.
Proof. reflexivity. Qed.

Lemma witems_ok : wrap_ok -> Forall item_ok witems.
Proof.
  intros (_ & Hin & _). apply Forall_forall. intros it Hit. apply in_map_iff in Hit as (t & <- & Ht).
  apply (proj1 (Forall_forall _ _) Hin t Ht).
Qed.

Lemma pushed_ist jr el : wrap_ok ->
  pushed fmt codec Wo ts size witems (ztake jr tl) el = ist jr titems hdr0 el.
Proof.
  intros (_ & _ & Hne & _ & Hb). destruct titems as [|it t] eqn:E; [contradiction|]. rewrite <- E in *.
  unfold ist. rewrite E at 2. rewrite (ibnd_cons decomp). rewrite <- E. unfold pushed, stp, rootf. rewrite Hb. reflexivity.
Qed.

Lemma msg_of_vals' (it : item) : inner_ok bse it ->
  (let '(o0, ts0, k, v) := vals it in mkMsg o0 ts0 k v []) = msg_of (snd it).
Proof. intros ((_ & _ & _ & _ & _ & _ & Hh) & _). unfold vals, msg_of. cbn [snd wire shiftr r_hdrs] in Hh. rewrite Hh. reflexivity. Qed.

Lemma lg_read_ok mn : forall items it j it' items' j',
  inner_ok bse it -> Forall (inner_ok bse) items -> lg_read mn it items j = LDeliver it' items' j' ->
  inner_ok bse it' /\ Forall (inner_ok bse) items' /\ (len (mb (snd it)) + len (stream items) <= j -> len (stream items') <= j').
Proof.
  induction items as [|it2 t IH]; intros it j it' items' j' Hok Hall H; cbn [lg_read] in H.
  - destruct (j <? _) eqn:Ej; [discriminate|]. destruct (_ <? mn); [discriminate|]. injection H as <- <- <-.
    split; [exact Hok|]. split; [constructor|]. change (len (stream [])) with 0. lia.
  - apply Forall_cons_iff in Hall as [Hok2 Hall]. destruct (j <? _) eqn:Ej; [discriminate|].
    destruct (_ <? mn).
    + destruct (_ <? _) eqn:Ej2 in H; [discriminate|]. destruct (IH _ _ _ _ _ Hok2 Hall H) as (G1 & G2 & G3).
      split; [exact G1|]. split; [exact G2|]. intros Hc. apply G3.
      change (stream (it2 :: t)) with (enc_item it2 ++ stream t) in Hc. unfold enc_item in Hc. rewrite !len_app in Hc. lia.
    + injection H as <- <- <-. split; [exact Hok|]. split; [constructor; assumption|]. lia.
Qed.

Lemma lg_bnd_ok mn items j it' items' j' :
  Forall (inner_ok bse) items -> lg_bnd mn items j = LDeliver it' items' j' ->
  inner_ok bse it' /\ Forall (inner_ok bse) items' /\ (len (stream items) <= j -> len (stream items') <= j')
  /\ (length items' < length items)%nat.
Proof.
  intros Hall H. destruct items as [|it t]; cbn [lg_bnd] in H; [discriminate|].
  apply Forall_cons_iff in Hall as [Hok Hall]. destruct (_ <? _) eqn:Ej in H; [discriminate|].
  destruct (lg_read_ok mn _ _ _ _ _ _ Hok Hall H) as (G1 & G2 & G3). split; [exact G1|]. split; [exact G2|].
  split.
  - intros Hc. apply G3. change (stream (it :: t)) with (enc_item it ++ stream t) in Hc. unfold enc_item in Hc.
    rewrite !len_app in Hc. lia.
  - destruct (lg_read_split decomp tl mn _ _ _ _ _ _ H) as (? & _ & _ & _ & H4). cbn [length]. lia.
Qed.

(* a call that starts at an inner boundary *)
Lemma inner_step fuel mn jr items J h el it' items' j' :
  Forall (inner_ok bse) items -> len (stream items) <= J -> (length items + 3 <= fuel)%nat ->
  lg_bnd mn items J = LDeliver it' items' j' ->
  msr_read decomp fuel mn (ist jr items h el)
  = MOk (msg_of (snd it'), -1) (ist jr items' (mhdr (fst it') (snd (Wm it'))) el).
Proof.
  intros Hall HJ Hf El. destruct items as [|it t]; [discriminate|].
  pose proof (lg_bnd_ok mn _ _ _ _ _ Hall El) as (Hok' & _).
  apply Forall_cons_iff in Hall as [Hok Hall].
  cbn [lg_bnd] in El. destruct (J <? len (mh (fst it) (snd it))) eqn:EJ; [discriminate|].
  change (stream (it :: t)) with (enc_item it ++ stream t) in HJ. unfold enc_item in HJ. rewrite !len_app in HJ.
  destruct fuel as [|f]; [cbn [length] in Hf; lia|]. cbn [length] in Hf.
  pose proof (proj2 (inner_loops decomp [rootf jr] bse t Hall) it (J - len (mh (fst it) (snd it))) f mn el Hok ltac:(lia) ltac:(lia)) as Hd.
  unfold ibody_ok in Hd. rewrite El in Hd.
  unfold msr_read, ist. rewrite (ibnd_cons decomp). cbn [m_empty stp]. fold (stp [rootf jr] bse (stream (map Wm (it :: t))) 0 h 1 el).
  unfold bind at 1. rewrite read_header_idle_p. cbn [read_header_loop]. unfold bind at 1.
  cbn [map]. change (stream (Wm it :: map Wm t)) with (enc_item (Wm it) ++ stream (map Wm t)).
  unfold enc_item. rewrite <- app_assoc. cbn [fst snd wire].
  rewrite (mheader_ok_p decomp [rootf jr] bse (fst it) (shiftr bse (snd it)) _ 0 h 1 el (proj1 Hok)).
  rewrite top_stp. cbn [f_hdr f_count]. change (h_magic (mhdr (fst it) (shiftr bse (snd it)))) with (fst it).
  assert (Hmag : ((fst it =? 0) || (fst it =? 1)) = true) by (destruct (proj1 Hok) as ([E|E] & _); cbn [fst wire] in E; rewrite E; reflexivity).
  assert (Hneg : negb (fst it =? 2) || negb (1 =? 0) = true) by (destruct (fst it =? 2); reflexivity).
  rewrite Hneg. unfold ret at 1. rewrite top_stp. cbn [f_hdr].
  change (h_magic (mhdr (fst it) (shiftr bse (snd it)))) with (fst it). rewrite Hmag.
  change (stp [rootf jr] bse (mb (shiftr bse (snd it)) ++ stream (map Wm t)) 1 (mhdr (fst it) (shiftr bse (snd it))) 1 el)
    with (iin [rootf jr] bse it t el).
  unfold bind at 1.
  assert (Hr : read_v1 decomp (S f) mn (iin [rootf jr] bse it t el)
               = v1_body decomp (read_v1 decomp f mn) mn (iin [rootf jr] bse it t el)).
  { cbn [read_v1]. unfold iin at 1. cbn [m_stack stp f_remain]. pose proof (mb_pos decomp tl it). pose proof (len_nonneg (stream (map Wm t))).
    rewrite len_app. replace (len (mb (snd it)) + len (stream (map Wm t)) =? 0) with false by lia.
    fold (iin [rootf jr] bse it t el). unfold bind at 1. unfold iin at 1. rewrite (read_header_busy_p' decomp) by lia. reflexivity. }
  rewrite Hr, Hd. pose proof (msg_of_vals' it' Hok') as Hm. unfold vals in *. cbn iota beta in *. unfold ret. rewrite Hm. reflexivity.
Qed.


Lemma wtail_len : len (wtail compress codec witems) = 8 + len (compress codec (stream witems)).
Proof. unfold wtail. rewrite !len_app. unfold i32. rewrite !put_bes_len. change (len []) with 0. lia. Qed.

(* the call that enters the wrapper, once the wrapper's header is current and its bytes are there *)
Lemma wrap_in fuel mn jr el m0 J it' items' j' :
  wrap_ok -> m_empty m0 = false ->
  read_header fuel m0 = MOk tt (st (wtail compress codec witems ++ ztake jr tl) 1 WH 1 el) ->
  (length titems + 4 <= fuel)%nat -> len (stream titems) <= J ->
  lg_bnd mn titems J = LDeliver it' items' j' ->
  msr_read decomp fuel mn m0 = MOk (msg_of (snd it'), -1) (ist jr items' (mhdr (fst it') (snd (Wm it'))) el).
Proof.
  intros Hw Hemp Hhdr Hf HJ El. pose proof Hw as (Hfit & Hin & Hne & Hlen & Hb).
  pose proof (lg_bnd_ok mn _ _ _ _ _ Hin El) as (Hok' & _).
  unfold msr_read. rewrite Hemp. unfold bind at 1. rewrite Hhdr. rewrite top_st. cbn [f_hdr].
  change (h_magic WH) with fmt.
  assert (Hmag : ((fmt =? 0) || (fmt =? 1)) = true) by (destruct Hfit as ([E|E] & _); rewrite E; reflexivity).
  rewrite Hmag. unfold bind at 1.
  destruct fuel as [|f]; [lia|].
  assert (Hr : read_v1 decomp (S f) mn (st (wtail compress codec witems ++ ztake jr tl) 1 WH 1 el)
               = read_v1 decomp f mn (ist jr titems hdr0 el)).
  { cbn [read_v1 m_stack st f_remain]. rewrite len_app, wtail_len.
    pose proof (len_nonneg (compress codec (stream witems))). pose proof (len_nonneg (ztake jr tl)).
    replace (8 + len (compress codec (stream witems)) + len (ztake jr tl) =? 0) with false by lia.
    unfold bind at 1.
    fold (st (wtail compress codec witems ++ ztake jr tl) 1 WH 1 el).
    rewrite (read_header_busy' decomp) by lia.
    rewrite (wrapper_enter compress decomp decomp_law _ mn fmt codec Wo ts size witems (ztake jr tl) el Hfit (witems_ok Hw) Hlen).
    rewrite pushed_ist by exact Hw. reflexivity. }
  rewrite Hr.
  pose proof (proj1 (inner_loops decomp [rootf jr] bse titems Hin) J f mn hdr0 el HJ ltac:(lia) Hne) as Hd.
  unfold ideliver_ok in Hd. rewrite El in Hd. unfold ist. rewrite Hd.
  pose proof (msg_of_vals' it' Hok') as Hm. unfold vals in *. cbn iota beta in *. unfold ret. rewrite Hm. reflexivity.
Qed.

(* the wrapper's header is current but its bytes are cut *)
Lemma wrap_in_short fuel mn el m0 q q' :
  wrap_ok -> m_empty m0 = false ->
  read_header fuel m0 = MOk tt (st q 1 WH 1 el) -> (3 <= fuel)%nat ->
  wtail compress codec witems = q ++ q' -> q' <> [] ->
  ended el (msr_read decomp fuel mn m0).
Proof.
  intros Hw Hemp Hhdr Hf He Hq. pose proof Hw as (Hfit & Hin & Hne & Hlen & Hb).
  unfold msr_read. rewrite Hemp. unfold bind at 1. rewrite Hhdr. rewrite top_st. cbn [f_hdr].
  change (h_magic WH) with fmt.
  assert (Hmag : ((fmt =? 0) || (fmt =? 1)) = true) by (destruct Hfit as ([E|E] & _); rewrite E; reflexivity).
  rewrite Hmag. apply ended_bind.
  destruct (Z.eq_dec (len q) 0) as [H0|H0].
  - apply (read_v1_pop decomp fuel mn q 1 WH 1 el nat eq_refl); [lia|exact H0].
  - destruct fuel as [|f]; [lia|]. cbn [read_v1 m_stack st f_remain].
    replace (len q =? 0) with false by lia. unfold bind at 1. fold (st q 1 WH 1 el).
    rewrite (read_header_busy' decomp) by lia.
    apply (wrapper_short compress decomp decomp_law _ mn fmt codec Wo ts size witems q q' el Hfit Hlen He Hq).
Qed.

(* a call that starts at the boundary in front of the wrapper, j bytes of the response left *)
Lemma wrap_bnd fuel mn j h el J :
  wrap_ok -> 0 <= j -> (length titems + 4 <= fuel)%nat -> len (stream titems) <= J ->
  if j <? len wenc then ended el (msr_read decomp fuel mn (st (ztake j (wenc ++ tl)) 0 h 1 el))
  else match lg_bnd mn titems J with
       | LDeliver it' items' _ =>
         msr_read decomp fuel mn (st (ztake j (wenc ++ tl)) 0 h 1 el)
         = MOk (msg_of (snd it'), -1) (ist (j - len wenc) items' (mhdr (fst it') (snd (Wm it'))) el)
       | _ => True
       end.
Proof.
  intros Hw Hj Hf HJ. pose proof Hw as (Hfit & Hin & Hne & Hlen & Hb).
  pose proof (wh_len fmt codec Wo ts size (proj1 Hfit)) as Hwl.
  assert (Hwh0 : 0 < len (wh fmt codec Wo ts size)) by (rewrite Hwl; destruct (fmt =? 1); lia).
  unfold wenc. rewrite <- app_assoc.
  assert (Hneg : negb (fmt =? 2) || negb (1 =? 0) = true) by (destruct (fmt =? 2); reflexivity).
  destruct fuel as [|f]; [lia|].
  destruct (j <? len (wh fmt codec Wo ts size)) eqn:E1.
  - (* the header is cut *)
    rewrite len_app. pose proof (len_nonneg (wtail compress codec witems)).
    replace (j <? len (wh fmt codec Wo ts size) + len (wtail compress codec witems)) with true by lia.
    unfold msr_read. cbn [m_empty st]. apply ended_bind. rewrite read_header_idle'.
    cbn [read_header_loop]. apply ended_bind.
    destruct (ztake_lt j (wh fmt codec Wo ts size) (wtail compress codec witems ++ tl) ltac:(lia)) as (H1 & H2 & H3).
    rewrite H1. destruct (wheader_short fmt codec Wo ts size _ _ 0 h 1 el Hfit H2 H3) as [i' Hi'].
    rewrite Hi'. apply (ended_st decomp).
  - (* the header is whole *)
    rewrite ztake_ge by lia.
    assert (Hhdr : forall rest, read_header (S f) (st (wh fmt codec Wo ts size ++ rest) 0 h 1 el) = MOk tt (st rest 1 WH 1 el)).
    { intros rest. rewrite read_header_idle'. cbn [read_header_loop]. unfold bind at 1.
      rewrite (wheader_ok fmt codec Wo ts size rest 0 h 1 el Hfit). rewrite top_st. cbn [f_hdr f_count].
      change (h_magic WH) with fmt. rewrite Hneg. reflexivity. }
    rewrite len_app.
    destruct (j <? len (wh fmt codec Wo ts size) + len (wtail compress codec witems)) eqn:E2.
    + destruct (ztake_lt (j - len (wh fmt codec Wo ts size)) (wtail compress codec witems) tl ltac:(lia)) as (H1 & H2 & H3).
      rewrite H1.
      apply (wrap_in_short (S f) mn el (st (wh fmt codec Wo ts size ++ _) 0 h 1 el) _ _ Hw (eq_refl false) (Hhdr _) ltac:(lia) H2 H3).
    + destruct (lg_bnd mn titems J) as [it' items' j'| |jc] eqn:El; [|exact I|exact I].
      rewrite ztake_ge by lia.
      replace (j - (len (wh fmt codec Wo ts size) + len (wtail compress codec witems)))
        with (j - len (wh fmt codec Wo ts size) - len (wtail compress codec witems)) by lia.
      apply (wrap_in (S f) mn _ el (st (wh fmt codec Wo ts size ++ _) 0 h 1 el) J it' items' j' Hw (eq_refl false) (Hhdr _) Hf HJ El).
Qed.


(* ---------------------------------------------------------------- Batch level *)
Definition IB (jr : Z) (items : list item) (h : hdr) (off : Z) : batch :=
  mkBatch (Some (ist jr items h (-1))) true o off (-1) None false.

Lemma lg_bnd_not_end mn items J : Forall (inner_ok bse) items -> len (stream items) <= J -> lg_bnd mn items J <> LEnd.
Proof.
  intros Hall HJ H. destruct items as [|it t]; [discriminate|].
  pose proof (proj1 (inner_loops decomp [] bse (it :: t) Hall) J (S (S (S (length t)))) mn hdr0 0 HJ ltac:(cbn [length]; lia) ltac:(discriminate)) as Hd.
  unfold ideliver_ok in Hd. rewrite H in Hd. exact Hd.
Qed.

Lemma inner_run : forall fuel items J h h2 off acc jr,
  Forall (inner_ok bse) items -> len (stream items) <= J -> linv tlrecs o (PBnd items J h) off ->
  (length items + 3 <= fuel)%nat ->
  match l_run fuel (PBnd items J h) off acc with
  | LGo _ _ off' acc' f' =>
    batch_run decomp fuel (IB jr items h2 off) acc = batch_run decomp f' (LB tl o (PBnd [] jr WH) off') acc'
    /\ (3 <= f')%nat /\ (fuel <= f' + length items)%nat
  | _ => False
  end.
Proof.
  induction fuel as [|f IH]; intros items J h h2 off acc jr Hall HJ HI Hf; [lia|].
  cbn [l_run lstep].
  destruct items as [|it t].
  - cbn [lg_bnd]. split; [reflexivity|]. cbn [length] in *. lia.
  - destruct (lg_bnd off (it :: t) J) as [it' items' j'| |jc] eqn:El.
    + destruct (lg_bnd_ok off _ _ _ _ _ Hall El) as (Hok' & Hall' & Hcov & Hcnt).
      destruct (linv_step decomp tl tlrecs o (PBnd (it :: t) J h) off it' items' j' HI El) as (HI' & sk & E1 & E2 & Hge).
      pose proof (inner_step (S f) off jr (it :: t) J h2 (-1) it' items' j' Hall HJ Hf El) as Hm.
      unfold IB. destruct HI as (Ho0 & Ho & _).
      rewrite (batch_deliver f _ _ off acc (snd it') Hm eq_refl Hge ltac:(lia)).
      specialize (IH items' j' (mhdr (fst it') (snd it')) (mhdr (fst it') (snd (Wm it'))) (r_off (snd it') + 1)
                    (msg_of (snd it') :: acc) jr Hall' (Hcov HJ) HI' ltac:(cbn [length] in *; lia)).
      destruct (l_run f _ _ _) as [ms x|jg hg og ag fg|]; [exact IH| |exact IH].
      destruct IH as (I1 & I2 & I3). split; [exact I1|]. split; [exact I2|]. cbn [length] in *. lia.
    + exact (lg_bnd_not_end off _ J Hall HJ El).
    + exact (lstep_no_cont decomp tl tlrecs o (PBnd (it :: t) J h) off jc HI ltac:(discriminate) El).
Qed.

(* the whole wrapper, from a state whose next call enters it *)
Lemma wrap_run_gen fuel m0 jr off acc h :
  wrap_ok -> linv tlrecs o (PBnd titems (len (stream titems)) h) off -> (length titems + 4 <= fuel)%nat ->
  (forall it' items' j', lg_bnd off titems (len (stream titems)) = LDeliver it' items' j' ->
     msr_read decomp fuel off m0 = MOk (msg_of (snd it'), -1) (ist jr items' (mhdr (fst it') (snd (Wm it'))) (-1))) ->
  match l_run fuel (PBnd titems (len (stream titems)) h) off acc with
  | LGo _ _ off' acc' f' =>
    batch_run decomp fuel (mkBatch (Some m0) true o off (-1) None false) acc
    = batch_run decomp f' (LB tl o (PBnd [] jr WH) off') acc'
    /\ (3 <= f')%nat /\ (fuel <= f' + length titems)%nat
  | _ => False
  end.
Proof.
  intros Hw HI Hf Hfirst. pose proof Hw as (Hfit & Hin & Hne & Hlen & Hb).
  destruct fuel as [|f]; [lia|]. cbn [l_run lstep].
  destruct (lg_bnd off titems (len (stream titems))) as [it' items' j'| |jc] eqn:El.
  - destruct (lg_bnd_ok off _ _ _ _ _ Hin El) as (Hok' & Hall' & Hcov & Hcnt).
    destruct (linv_step decomp tl tlrecs o _ off it' items' j' HI El) as (HI' & sk & E1 & E2 & Hge).
    destruct HI as (Ho0 & Ho & _).
    rewrite (batch_deliver f _ _ off acc (snd it') (Hfirst _ _ _ eq_refl) eq_refl Hge ltac:(lia)).
    pose proof (inner_run f items' j' (mhdr (fst it') (snd it')) (mhdr (fst it') (snd (Wm it'))) (r_off (snd it') + 1)
                  (msg_of (snd it') :: acc) jr Hall' (Hcov ltac:(lia)) HI' ltac:(lia)) as IH.
    unfold IB in IH.
    destruct (l_run f _ _ _) as [ms x|jg hg og ag fg|]; [exact IH| |exact IH].
    destruct IH as (I1 & I2 & I3). split; [exact I1|]. split; [exact I2|]. lia.
  - exact (lg_bnd_not_end off titems (len (stream titems)) Hin (Z.le_refl _) El).
  - exfalso. apply (lstep_no_cont decomp tl tlrecs o _ off jc HI); [|exact El]. cbn [pend]. destruct titems; [contradiction|discriminate].
Qed.

(* from the boundary in front of the wrapper with j bytes of the response left *)
Lemma wrap_run fuel j h off acc :
  wrap_ok -> 0 <= j -> linv tlrecs o (PBnd titems (len (stream titems)) hdr0) off -> (length titems + 4 <= fuel)%nat ->
  if j <? len wenc then
    batch_run decomp fuel (LB (wenc ++ tl) o (PBnd [] j h) off) acc = Some (rev acc, EEOF, lfinal off)
  else
    match l_run fuel (PBnd titems (len (stream titems)) hdr0) off acc with
    | LGo _ _ off' acc' f' =>
      batch_run decomp fuel (LB (wenc ++ tl) o (PBnd [] j h) off) acc
      = batch_run decomp f' (LB tl o (PBnd [] (j - len wenc) WH) off') acc'
      /\ (3 <= f')%nat /\ (fuel <= f' + length titems)%nat
    | _ => False
    end.
Proof.
  intros Hw Hj HI Hf.
  pose proof (wrap_bnd fuel off j h (-1) (len (stream titems)) Hw Hj Hf ltac:(lia)) as Hb.
  change (LB (wenc ++ tl) o (PBnd [] j h) off)
    with (mkBatch (Some (st (ztake j (wenc ++ tl)) 0 h 1 (-1))) true o off (-1) None false).
  destruct (j <? len wenc).
  - destruct fuel as [|f]; [lia|]. apply batch_ended, Hb.
  - apply (wrap_run_gen fuel _ (j - len wenc) off acc hdr0 Hw HI Hf).
    intros it' items' j' El. rewrite El in Hb. exact Hb.
Qed.

End WRun.
