(* Proofs/RecordsReaders.v — the protocol reader model (RecordSet.ReadFrom + RecordStream) on
   reference-encoded sequences of v2 batches: it returns exactly the reference's records. *)
From Coq Require Import List NArith ZArith Bool Lia.
From Coq Require Import ZifyN ZifyNat ZifyBool.
From KV Require Import Lib.Bits Lib.Bytes Lib.Varint Lib.Crc Spec.RecordFormat Model.Records
  Proofs.RecordsCodec Proofs.RecordsSet Proofs.RecordsWriters.
Import ListNotations.
Open Scope Z_scope.
Arguments PR {A}. Arguments PE {A}. Arguments PP {A}. Arguments PU {A}.
Arguments MR {A}. Arguments ME {A}.

(* ------------------------------------------------------------------ Go's varint readers *)
Lemma go_uvarint_eq : forall fuel bs, go_uvarint fuel bs = uv_dec fuel bs.
Proof.
  induction fuel as [|f IH]; intros bs; cbn [go_uvarint uv_dec]; [reflexivity|].
  destruct bs as [|b t]; [reflexivity|]. rewrite IH. reflexivity.
Qed.

Lemma uv_dec_S f b t : uv_dec (S f) (b :: t) =
  if (b <? 128)%N then Some (b, t)
  else match uv_dec f t with Some (v, r) => Some ((b - 128 + 128 * v)%N, r) | None => None end.
Proof. reflexivity. Qed.

Lemma uv_dec_enc_ge : forall f k x r, (x < pow128 (S f))%N ->
  uv_dec (S f + k) (uv_enc f x ++ r) = Some (x, r).
Proof.
  induction f as [|f IH]; intros k x r Hx.
  - cbn [uv_enc app Nat.add]. change (pow128 1) with 128%N in Hx. rewrite uv_dec_S.
    destruct (N.ltb_spec x 128); [reflexivity|lia].
  - cbn [uv_enc]. rewrite pow128_S in Hx. cbn [Nat.add].
    destruct (N.ltb_spec x 128) as [Hlt|Hge].
    + cbn [app]. rewrite uv_dec_S. destruct (N.ltb_spec x 128); [reflexivity|lia].
    + cbn [app]. rewrite uv_dec_S.
      destruct (N.ltb_spec (x mod 128 + 128) 128); [lia|].
      change (S (f + k)) with (S f + k)%nat.
      rewrite IH by (apply N.div_lt_upper_bound; lia).
      f_equal. f_equal. pose proof (N.div_mod x 128 ltac:(discriminate)). lia.
Qed.

Lemma odd_mod x : N.odd x = (x mod 2 =? 1)%N.
Proof.
  rewrite <- N.bit0_odd. pose proof (N.bit0_mod x) as H.
  destruct (N.testbit x 0); cbn [N.b2n] in H; rewrite <- H; reflexivity.
Qed.

Lemma unzigzag_zz z : unzigzag (zz_enc z) = z.
Proof.
  unfold unzigzag, zz_enc. rewrite odd_mod.
  destruct (Z.ltb_spec z 0) as [Hn|Hp].
  - destruct (N.eqb_spec (Z.to_N (-2 * z - 1) mod 2) 1) as [E|E]; [|exfalso; lia].
    rewrite Z.lxor_m1_r. unfold Z.lnot. lia.
  - destruct (N.eqb_spec (Z.to_N (2 * z) mod 2) 1) as [E|E]; [exfalso; lia|].
    rewrite Z.lxor_0_r. lia.
Qed.

Lemma go_varint_sv fuel z r : (10 <= fuel)%nat -> in_i64 z -> go_varint fuel (sv_enc z ++ r) = Some (z, r).
Proof.
  intros Hf Hz. unfold go_varint, sv_enc. rewrite go_uvarint_eq.
  replace fuel with (S 9 + (fuel - 10))%nat by lia.
  pose proof (zz_enc_lt z Hz). pose proof M64_lt_pow128_10.
  rewrite uv_dec_enc_ge by lia. rewrite N.mod_small by assumption. rewrite unzigzag_zz. reflexivity.
Qed.

(* ------------------------------------------------------------------ big-endian helpers *)
Lemma put_be_mod : forall w x, put_be w (x mod pow256 w)%N = put_be w x.
Proof.
  induction w as [|w IH]; intros x; [reflexivity|].
  cbn [put_be]. rewrite pow256_S.
  pose proof (pow256_pos w) as Hp.
  assert (Hm : (x mod (256 * pow256 w) = x mod 256 + 256 * ((x / 256) mod pow256 w))%N).
  { apply N.mod_mul_r; lia. }
  rewrite Hm.
  assert (H1 : ((x mod 256 + 256 * ((x / 256) mod pow256 w)) / 256 = (x / 256) mod pow256 w)%N).
  { pose proof (N.mod_lt x 256 ltac:(discriminate)).
    symmetry. apply N.div_unique with (r := (x mod 256)%N); lia. }
  assert (H2 : ((x mod 256 + 256 * ((x / 256) mod pow256 w)) mod 256 = x mod 256)%N).
  { pose proof (N.mod_lt x 256 ltac:(discriminate)).
    symmetry. apply N.mod_unique with (q := ((x / 256) mod pow256 w)%N); lia. }
  rewrite H1, H2, IH. reflexivity.
Qed.
Lemma get_put_be_mod w x : get_be (put_be w x) 0%N = (x mod pow256 w)%N.
Proof.
  rewrite <- put_be_mod. rewrite get_put_be0; [reflexivity|].
  apply N.mod_lt. pose proof (pow256_pos w). lia.
Qed.

Lemma skipn_app_exact {A} n (a b : list A) : length a = n -> skipn n (a ++ b) = b.
Proof. intros <-. rewrite skipn_app, skipn_all, Nat.sub_diag. reflexivity. Qed.
Lemma firstn_app_exact {A} n (a b : list A) : length a = n -> firstn n (a ++ b) = a.
Proof. intros <-. rewrite firstn_app, firstn_all, Nat.sub_diag. cbn. apply app_nil_r. Qed.
Lemma nth_app_exact (a : list N) x t n : length a = n -> nth n (a ++ x :: t) 0%N = x.
Proof. intros <-. rewrite app_nth2 by lia. rewrite Nat.sub_diag. reflexivity. Qed.

(* ------------------------------------------------------------------ records of a batch *)
Lemma p_vbytes_skip_enc b r : osmall b -> p_vbytes_skip (enc_vbytes b ++ r) = Some (b, r).
Proof.
  intros Hb. unfold p_vbytes_skip, enc_vbytes. destruct b as [l|].
  - rewrite <- app_assoc. rewrite go_varint_sv by (try lia; apply small_i64, Hb).
    pose proof (zlen_nonneg l). destruct (Z.ltb_spec (zlen l) 0); [lia|].
    rewrite take_zlen. reflexivity.
  - rewrite go_varint_sv by (try lia; apply m1_i64). reflexivity.
Qed.

Lemma p_hdr_enc h r : wf_hdr h -> p_hdr (enc_hdr h ++ r) = Some (h, r).
Proof.
  intros [Hk Hv]. unfold p_hdr, enc_hdr. rewrite <- !app_assoc.
  rewrite go_varint_sv by (try lia; apply small_i64, Hk).
  pose proof (zlen_nonneg (fst h)). destruct (Z.ltb_spec (zlen (fst h)) 0); [lia|].
  rewrite take_zlen. rewrite p_vbytes_skip_enc by exact Hv. destruct h; reflexivity.
Qed.

Lemma p_hdrs_enc hs : forall r, Forall wf_hdr hs ->
  p_hdrs (length hs) (concat (map enc_hdr hs) ++ r) = Some (hs, r).
Proof.
  induction hs as [|h hs IH]; intros r H; cbn [length map concat p_hdrs app]; [reflexivity|].
  apply Forall_cons_iff in H as [Hh Hs].
  rewrite <- app_assoc. rewrite p_hdr_enc by exact Hh. rewrite IH by exact Hs. reflexivity.
Qed.

Lemma p_record_enc base first r rest :
  wf_rec r -> in_i64 (base + r_offd r) -> in_i64 (first + r_tsd r) ->
  p_record base first (enc_rec r ++ rest) =
  Some (mk_rec (base + r_offd r) (first + r_tsd r) (r_key r) (r_val r) (r_hdrs r), rest).
Proof.
  intros (Ht & Ho & Hk & Hv & Hn & Hh & Hsm) Hbo Hft. unfold p_record, enc_rec.
  rewrite <- app_assoc. rewrite go_varint_sv by (try lia; apply small_i64, Hsm).
  unfold rec_body. rewrite <- !app_assoc.
  rewrite get_i_put by (try lia; apply in_signed_1; lia).
  rewrite go_varint_sv by (try lia; exact Ht). rewrite go_varint_sv by (try lia; exact Ho).
  rewrite p_vbytes_skip_enc by exact Hk. rewrite p_vbytes_skip_enc by exact Hv.
  rewrite go_varint_sv by (try lia; apply small_i64, Hn).
  rewrite (wrap64_id _ Hbo), (wrap64_id _ Hft).
  destruct (r_hdrs r) as [|h hs] eqn:E.
  - cbn [zlen length Z.of_nat map concat app]. cbn. reflexivity.
  - assert (0 < zlen (h :: hs)) by (rewrite zlen_cons; pose proof (zlen_nonneg hs); lia).
    destruct (Z.ltb_spec 0 (zlen (h :: hs))); [|lia].
    replace (Z.to_nat (zlen (h :: hs))) with (length (h :: hs)) by (unfold zlen; lia).
    rewrite p_hdrs_enc by exact Hh. reflexivity.
Qed.

Definition rec_ok (b : batch2) (r : rec2) : Prop :=
  in_i64 (b_base b + r_offd r) /\ in_i64 (b_first b + r_tsd r).

Lemma p_records_enc b rs : forall rest,
  Forall wf_rec rs -> Forall (rec_ok b) rs ->
  p_records (length rs) (b_base b) (b_first b) (concat (map enc_rec rs) ++ rest) =
  (map (rec_of_rec2 b) rs, false).
Proof.
  induction rs as [|r rs IH]; intros rest Hw Ho; cbn [length map concat p_records]; [reflexivity|].
  apply Forall_cons_iff in Hw as [Hr Hw]. apply Forall_cons_iff in Ho as [[O1 O2] Ho].
  rewrite <- app_assoc. rewrite p_record_enc by assumption.
  rewrite IH by assumption. reflexivity.
Qed.

Section Codec.
Variable comp decomp : N -> list N -> list N.
Hypothesis decomp_comp : forall c b, decomp c (comp c b) = b.

(* a batch a broker may return, as far as the readers are concerned *)
Definition batch_ok (b : batch2) : Prop :=
  wf_batch comp b /\ (codec_of (b_attrs b) <= 4)%N /\ Forall (rec_ok b) (b_recs b).

Definition reader_of (b : batch2) : preader := (is_control (b_attrs b), map (rec_of_rec2 b) (b_recs b)).

Lemma p_batch_tail_enc b rest : batch_ok b ->
  p_batch_tail decomp (b_base b) true (batch_tail comp b) rest = PR (Some (reader_of b)) rest.
Proof.
  intros ((Hb & He & Ha & Hl & Hf & Hm & Hp & Hpe & Hs & Hn & Hr & _) & Hc & Ho).
  unfold p_batch_tail, batch_tail.
  rewrite get_i_put by (try lia; apply in_signed_2, Ha).
  rewrite !app_assoc.
  rewrite <- (app_assoc _ (put_bes 4 (zlen (b_recs b)))).
  rewrite take_app by (rewrite !app_length; unfold put_bes; rewrite !put_be_length; reflexivity).
  rewrite <- !app_assoc.
  rewrite skipn_app_exact by (unfold put_bes; apply put_be_length).
  rewrite firstn_app_exact by (unfold put_bes; apply put_be_length).
  rewrite get_put_bes by (try lia; apply in_signed_8, Hf).
  rewrite get_i_put by (try lia; apply in_signed_4, small_i32, Hn).
  cbn zeta.
  assert (Hck : negb (codec_of (b_attrs b) =? 0)%N && negb (codec_known (codec_of (b_attrs b))) = false).
  { unfold codec_known. destruct (N.eqb_spec (codec_of (b_attrs b)) 0); [reflexivity|].
    replace ((1 <=? codec_of (b_attrs b))%N && (codec_of (b_attrs b) <=? 4)%N) with true by lia. reflexivity. }
  rewrite Hck. cbn [negb].
  pose proof (zlen_nonneg (b_recs b)). destruct (Z.ltb_spec (zlen (b_recs b)) 0); [lia|].
  replace (Z.to_nat (zlen (b_recs b))) with (length (b_recs b)) by (unfold zlen; lia).
  assert (Hraw : (if (codec_of (b_attrs b) =? 0)%N then batch_payload comp b
                  else decomp (codec_of (b_attrs b)) (batch_payload comp b)) = concat (map enc_rec (b_recs b))).
  { unfold batch_payload. destruct (codec_of (b_attrs b) =? 0)%N; [reflexivity|apply decomp_comp]. }
  rewrite Hraw. rewrite <- (app_nil_r (concat (map enc_rec (b_recs b)))).
  rewrite p_records_enc by assumption.
  unfold reader_of. destruct (map (rec_of_rec2 b) (b_recs b)); reflexivity.
Qed.

Lemma p_read_v2_enc b rest : batch_ok b ->
  p_read_v2 decomp (enc_batch comp b ++ rest) = PR (Some (reader_of b)) rest.
Proof.
  intros Hok. pose proof Hok as ((Hb & He & _ & _ & _ & _ & _ & _ & _ & _ & _ & Hsz) & _ & _).
  unfold p_read_v2, enc_batch. cbn zeta. rewrite <- !app_assoc.
  rewrite get_i_put by (try lia; apply in_signed_8, Hb).
  pose proof (zlen_nonneg (batch_tail comp b)) as Hnn.
  rewrite get_i_put by (try lia; apply in_signed_4; unfold in_i32, ZM31 in *; lia).
  set (T := batch_tail comp b) in *.
  assert (Hlen : length (put_bes 4 (b_epoch b) ++ put_bes 1 2 ++ put_be 4 (crc32c T) ++ T) = Z.to_nat (9 + zlen T)).
  { rewrite !app_length. unfold put_bes. rewrite !put_be_length. unfold zlen. lia. }
  replace (put_bes 4 (b_epoch b) ++ put_bes 1 2 ++ put_be 4 (crc32c T) ++ T ++ rest)
    with ((put_bes 4 (b_epoch b) ++ put_bes 1 2 ++ put_be 4 (crc32c T) ++ T) ++ rest)
    by (rewrite <- !app_assoc; reflexivity).
  destruct (Z.ltb_spec (Z.of_nat (length ((put_bes 4 (b_epoch b) ++ put_bes 1 2 ++ put_be 4 (crc32c T) ++ T) ++ rest))) (9 + zlen T)) as [Hlt|_].
  { rewrite app_length, Hlen in Hlt. lia. }
  destruct (Z.ltb_spec (9 + zlen T) 0); [lia|].
  rewrite take_app by exact Hlen.
  replace (put_bes 4 (b_epoch b) ++ put_bes 1 2 ++ put_be 4 (crc32c T) ++ T)
    with ((put_bes 4 (b_epoch b) ++ put_bes 1 2 ++ put_be 4 (crc32c T)) ++ T)
    by (rewrite <- !app_assoc; reflexivity).
  rewrite take_app by (rewrite !app_length; unfold put_bes; rewrite !put_be_length; reflexivity).
  rewrite app_assoc.
  rewrite skipn_app_exact by (rewrite app_length; unfold put_bes; rewrite !put_be_length; reflexivity).
  rewrite get_put_be_mod. change (pow256 4) with M32. unfold w32. rewrite N.eqb_refl.
  apply p_batch_tail_enc. exact Hok.
Qed.

Lemma enc_batch_len b : (61 <= length (enc_batch comp b))%nat.
Proof. pose proof (zlen_enc_batch comp b). pose proof (zlen_nonneg (batch_payload comp b)). unfold zlen in *. lia. Qed.

Lemma nth16_enc_batch b rest : nth 16 (enc_batch comp b ++ rest) 0%N = 2%N.
Proof.
  unfold enc_batch. cbn zeta. rewrite <- !app_assoc.
  rewrite app_assoc. rewrite (app_assoc _ (put_bes 4 (b_epoch b))).
  change (put_bes 1 2) with [2%N]. cbn [app].
  apply nth_app_exact. rewrite !app_length. unfold put_bes. rewrite !put_be_length. reflexivity.
Qed.

Lemma p_loop_batches bs : forall fuel acc, Forall batch_ok bs ->
  (length (concat (map (enc_batch comp) bs)) < fuel)%nat ->
  p_loop decomp fuel (concat (map (enc_batch comp) bs)) acc = PR (rev acc ++ map reader_of bs, false) [].
Proof.
  induction bs as [|b bs IH]; intros fuel acc H Hf.
  - cbn [map concat]. destruct fuel; cbn [p_loop]; rewrite app_nil_r; reflexivity.
  - apply Forall_cons_iff in H as [Hb Hs]. cbn [map concat] in *.
    pose proof (enc_batch_len b) as Hl. rewrite app_length in Hf.
    destruct fuel as [|fuel]; [lia|]. cbn [p_loop].
    destruct (enc_batch comp b ++ concat (map (enc_batch comp) bs)) as [|x t] eqn:Hbt.
    { exfalso. apply (f_equal (@length N)) in Hbt. rewrite app_length in Hbt. cbn in Hbt. lia. }
    rewrite <- Hbt.
    destruct (Nat.ltb_spec (length (enc_batch comp b ++ concat (map (enc_batch comp) bs))) 17) as [H17|_].
    { rewrite app_length in H17. lia. }
    rewrite nth16_enc_batch. cbn [N.leb N.compare Pos.compare Pos.compare_cont N.eqb Pos.eqb].
    rewrite p_read_v2_enc by exact Hb.
    rewrite IH by (try exact Hs; lia). cbn [rev map]. rewrite <- app_assoc. reflexivity.
Qed.

(* Client.Fetch path on any sequence of v2 batches (any codec, control batches included):
   exactly the reference's records, control batches hidden, no error *)
Theorem proto_read_v2_batches bs :
  Forall batch_ok bs -> zlen (enc_items comp (map IBatch bs)) < ZM31 ->
  proto_read decomp (enc_set comp (map IBatch bs)) = POut (records (map IBatch bs)) false.
Proof.
  intros H Hsz. unfold proto_read, enc_set.
  assert (Hitems : enc_items comp (map IBatch bs) = concat (map (enc_batch comp) bs)).
  { unfold enc_items. rewrite map_map. reflexivity. }
  rewrite Hitems in *. set (C := concat (map (enc_batch comp) bs)) in *.
  pose proof (zlen_nonneg C).
  rewrite get_i_put by (try lia; apply in_signed_4; unfold in_i32, ZM31 in *; lia).
  assert (Hrec : records (map IBatch bs) = flat_map (fun rd : preader => if fst rd then [] else snd rd) (map reader_of bs)).
  { unfold records. clear. induction bs as [|b bs IH]; [reflexivity|].
    cbn [map flat_map]. rewrite IH. f_equal. unfold records_of, reader_of. cbn [fst snd].
    destruct (is_control (b_attrs b)); reflexivity. }
  destruct (Z.leb_spec (zlen C) 0) as [Hz|Hz].
  - assert (bs = []).
    { destruct bs as [|b bs']; [reflexivity|]. exfalso. subst C. cbn [map concat] in Hz.
      rewrite zlen_app in Hz. pose proof (enc_batch_len b). pose proof (zlen_nonneg (concat (map (enc_batch comp) bs'))).
      unfold zlen in *. lia. }
    subst bs. reflexivity.
  - replace (Z.to_nat (zlen C)) with (length C) by (unfold zlen; lia). rewrite firstn_all.
    unfold C. rewrite p_loop_batches by (try exact H; lia). cbn [rev app].
    destruct bs as [|b bs']; [exfalso; subst C; cbn in Hz; lia|].
    rewrite Hrec. reflexivity.
Qed.

(* ---- a batch whose stored CRC differs from the CRC of its content yields no record ---- *)
Lemma p_batch_tail_badcrc base tail rest : p_batch_tail decomp base false tail rest = PE.
Proof.
  unfold p_batch_tail.
  destruct (get_i 2 tail) as [[attrs t1]|]; [|reflexivity].
  destruct (take 34 t1) as [[mid t2]|]; [|reflexivity].
  destruct (get_i 4 t2) as [[cnt payload]|]; [|reflexivity].
  cbn zeta. destruct (negb (codec_of attrs =? 0)%N && negb (codec_known (codec_of attrs))); reflexivity.
Qed.

(* the bytes of a v2 batch with an arbitrary stored CRC and arbitrary content after it *)
Definition raw_batch (base epoch : Z) (crc tail : list N) : list N :=
  put_bes 8 base ++ put_bes 4 (9 + zlen tail) ++ put_bes 4 epoch ++ put_bes 1 2 ++ crc ++ tail.

Lemma p_read_v2_badcrc base epoch crc tail rest :
  in_i64 base -> 9 + zlen tail < ZM31 -> length crc = 4%nat ->
  get_be crc 0%N <> w32 (crc32c tail) ->
  p_read_v2 decomp (raw_batch base epoch crc tail ++ rest) = PE.
Proof.
  intros Hb Hsz Hc Hne. unfold p_read_v2, raw_batch. rewrite <- !app_assoc.
  rewrite get_i_put by (try lia; apply in_signed_8, Hb).
  pose proof (zlen_nonneg tail) as Hnn.
  rewrite get_i_put by (try lia; apply in_signed_4; unfold in_i32, ZM31 in *; lia).
  assert (Hlen : length (put_bes 4 epoch ++ put_bes 1 2 ++ crc ++ tail) = Z.to_nat (9 + zlen tail)).
  { rewrite !app_length. unfold put_bes. rewrite !put_be_length. unfold zlen. lia. }
  replace (put_bes 4 epoch ++ put_bes 1 2 ++ crc ++ tail ++ rest)
    with ((put_bes 4 epoch ++ put_bes 1 2 ++ crc ++ tail) ++ rest) by (rewrite <- !app_assoc; reflexivity).
  destruct (Z.ltb_spec (Z.of_nat (length ((put_bes 4 epoch ++ put_bes 1 2 ++ crc ++ tail) ++ rest))) (9 + zlen tail)) as [Hlt|_].
  { rewrite app_length, Hlen in Hlt. lia. }
  destruct (Z.ltb_spec (9 + zlen tail) 0); [lia|].
  rewrite take_app by exact Hlen.
  replace (put_bes 4 epoch ++ put_bes 1 2 ++ crc ++ tail)
    with ((put_bes 4 epoch ++ put_bes 1 2 ++ crc) ++ tail) by (rewrite <- !app_assoc; reflexivity).
  rewrite take_app by (rewrite !app_length; unfold put_bes; rewrite !put_be_length; lia).
  rewrite app_assoc.
  rewrite skipn_app_exact by (rewrite app_length; unfold put_bes; rewrite !put_be_length; reflexivity).
  destruct (N.eqb_spec (get_be crc 0%N) (w32 (crc32c tail))); [contradiction|].
  apply p_batch_tail_badcrc.
Qed.

Lemma nth16_raw_batch base epoch crc tail rest : nth 16 (raw_batch base epoch crc tail ++ rest) 0%N = 2%N.
Proof.
  unfold raw_batch. rewrite <- !app_assoc.
  rewrite app_assoc. rewrite (app_assoc _ (put_bes 4 epoch)).
  change (put_bes 1 2) with [2%N]. cbn [app].
  apply nth_app_exact. rewrite !app_length. unfold put_bes. rewrite !put_be_length. reflexivity.
Qed.

Lemma p_loop_batches_then_bad bs base epoch crc tail rest : forall fuel acc, Forall batch_ok bs ->
  in_i64 base -> 9 + zlen tail < ZM31 -> length crc = 4%nat -> get_be crc 0%N <> w32 (crc32c tail) ->
  (length (concat (map (enc_batch comp) bs) ++ raw_batch base epoch crc tail ++ rest) < fuel)%nat ->
  p_loop decomp fuel (concat (map (enc_batch comp) bs) ++ raw_batch base epoch crc tail ++ rest) acc =
  PR (rev acc ++ map reader_of bs, true) [].
Proof.
  induction bs as [|b bs IH]; intros fuel acc H Hb Hsz Hc Hne Hf.
  - cbn [map concat app] in *.
    assert (Hl : (21 <= length (raw_batch base epoch crc tail))%nat).
    { unfold raw_batch. rewrite !app_length. unfold put_bes. rewrite !put_be_length. lia. }
    rewrite app_length in Hf.
    destruct fuel as [|fuel]; [lia|]. cbn [p_loop].
    destruct (raw_batch base epoch crc tail ++ rest) as [|x t] eqn:Hbt.
    { exfalso. apply (f_equal (@length N)) in Hbt. rewrite app_length in Hbt. cbn in Hbt. lia. }
    rewrite <- Hbt.
    destruct (Nat.ltb_spec (length (raw_batch base epoch crc tail ++ rest)) 17) as [H17|_].
    { rewrite app_length in H17. lia. }
    rewrite nth16_raw_batch. cbn [N.leb N.compare Pos.compare Pos.compare_cont N.eqb Pos.eqb].
    rewrite p_read_v2_badcrc by assumption. rewrite app_nil_r. reflexivity.
  - apply Forall_cons_iff in H as [Hbk Hs]. cbn [map concat] in *. rewrite <- app_assoc in *.
    pose proof (enc_batch_len b) as Hl. rewrite app_length in Hf.
    destruct fuel as [|fuel]; [lia|]. cbn [p_loop].
    destruct (enc_batch comp b ++ concat (map (enc_batch comp) bs) ++ raw_batch base epoch crc tail ++ rest) as [|x t] eqn:Hbt.
    { exfalso. apply (f_equal (@length N)) in Hbt. rewrite app_length in Hbt. cbn in Hbt. lia. }
    rewrite <- Hbt.
    destruct (Nat.ltb_spec (length (enc_batch comp b ++ concat (map (enc_batch comp) bs) ++ raw_batch base epoch crc tail ++ rest)) 17) as [H17|_].
    { rewrite app_length in H17. lia. }
    rewrite nth16_enc_batch. cbn [N.leb N.compare Pos.compare Pos.compare_cont N.eqb Pos.eqb].
    rewrite p_read_v2_enc by exact Hbk.
    rewrite IH by (try assumption; lia). cbn [rev map]. rewrite <- app_assoc. reflexivity.
Qed.

(* Client.Fetch path: good v2 batches, then a batch whose checksum does not match, then
   anything: exactly the records of the good batches (no record of the bad batch nor of what
   follows it); the error is reported only when nothing was read before *)
Theorem proto_read_crc_mismatch bs base epoch crc tail rest :
  Forall batch_ok bs -> in_i64 base -> 9 + zlen tail < ZM31 -> length crc = 4%nat ->
  get_be crc 0%N <> w32 (crc32c tail) ->
  let content := concat (map (enc_batch comp) bs) ++ raw_batch base epoch crc tail ++ rest in
  zlen content < ZM31 ->
  proto_read decomp (put_bes 4 (zlen content) ++ content) =
  POut (records (map IBatch bs)) (match bs with [] => true | _ => false end).
Proof.
  intros H Hb Hsz Hc Hne content Hcs. unfold proto_read.
  pose proof (zlen_nonneg content).
  rewrite get_i_put by (try lia; apply in_signed_4; unfold in_i32, ZM31 in *; lia).
  assert (Hpos : 0 < zlen content).
  { unfold content. rewrite !zlen_app. unfold raw_batch. rewrite !zlen_app, !zlen_put_bes.
    pose proof (zlen_nonneg (concat (map (enc_batch comp) bs))). pose proof (zlen_nonneg rest).
    pose proof (zlen_nonneg crc). pose proof (zlen_nonneg tail). lia. }
  destruct (Z.leb_spec (zlen content) 0); [lia|].
  replace (Z.to_nat (zlen content)) with (length content) by (unfold zlen; lia). rewrite firstn_all.
  unfold content. rewrite p_loop_batches_then_bad by (try assumption; fold content; lia). cbn [rev app].
  assert (Hrec : records (map IBatch bs) = flat_map (fun rd : preader => if fst rd then [] else snd rd) (map reader_of bs)).
  { unfold records. clear. induction bs as [|b bs IH]; [reflexivity|].
    cbn [map flat_map]. rewrite IH. f_equal. unfold records_of, reader_of. cbn [fst snd].
    destruct (is_control (b_attrs b)); reflexivity. }
  destruct bs as [|b bs']; [reflexivity|]. rewrite Hrec. reflexivity.
Qed.

End Codec.
