(* Proofs/DRFSound.v — C10: soundness of the semantic lockset condition.
   If a trace obeys lock semantics and every access to a location respects the
   location's instance-level protection (exclusive lock, reader/writer lock, atomic
   only), then no two conflicting accesses to that location are unordered by
   happens-before. *)
From Coq Require Import List Arith Bool Relations Lia.
From KV Require Import Model.DRF.
Import ListNotations.

(* ------------------------------------------------------------ state_at *)

Lemma state_at_S_inv : forall n s tr s',
  state_at s tr (S n) = Some s' ->
  exists sp e, state_at s tr n = Some sp /\ nth_error tr n = Some e /\ lock_step sp e = Some s'.
Proof.
  induction n as [|n IH]; intros s tr s' H.
  - destruct tr as [|e tr]; cbn [state_at] in H; [discriminate|].
    destruct (lock_step s e) as [s1|] eqn:E; [|discriminate].
    exists s, e. cbn [state_at nth_error]. inversion H; subst. auto.
  - destruct tr as [|e tr]; [cbn [state_at] in H; discriminate|].
    change (state_at s (e :: tr) (S (S n)))
      with (match lock_step s e with Some s1 => state_at s1 tr (S n) | None => None end) in H.
    destruct (lock_step s e) as [s1|] eqn:E; [|discriminate].
    destruct (IH _ _ _ H) as [sp [e' [H1 [H2 H3]]]].
    exists sp, e'. cbn [nth_error].
    change (state_at s (e :: tr) (S n))
      with (match lock_step s e with Some s1 => state_at s1 tr n | None => None end).
    rewrite E. auto.
Qed.

Lemma state_at_step : forall n s tr sn e,
  state_at s tr n = Some sn -> nth_error tr n = Some e ->
  state_at s tr (S n) = lock_step sn e.
Proof.
  induction n as [|n IH]; intros s tr sn e H Hn.
  - cbn [state_at] in H. inversion H; subst.
    destruct tr as [|e0 tr]; [discriminate|]. cbn [nth_error] in Hn. inversion Hn; subst.
    cbn [state_at]. destruct (lock_step sn e); reflexivity.
  - destruct tr as [|e0 tr]; [discriminate|]. cbn [nth_error] in Hn.
    change (state_at s (e0 :: tr) (S n))
      with (match lock_step s e0 with Some s1 => state_at s1 tr n | None => None end) in H.
    change (state_at s (e0 :: tr) (S (S n)))
      with (match lock_step s e0 with Some s1 => state_at s1 tr (S n) | None => None end).
    destruct (lock_step s e0) as [s1|]; [|discriminate].
    apply IH; assumption.
Qed.

Lemma state_at_le : forall n m s tr sn,
  m <= n -> state_at s tr n = Some sn -> exists sm, state_at s tr m = Some sm.
Proof.
  induction n as [|n IH]; intros m s tr sn Hle H.
  - assert (m = 0) by lia. subst. eauto.
  - destruct (Nat.eq_dec m (S n)) as [->|Hne]; [eauto|].
    destruct (state_at_S_inv _ _ _ _ H) as [sp [_ [Hp _]]].
    eapply IH; [|exact Hp]. lia.
Qed.

Lemma wf_locks_defined : forall tr n, wf_locks tr -> n <= length tr ->
  exists s, state_at init tr n = Some s.
Proof.
  intros tr n [s H] Hle. eapply state_at_le; eauto.
Qed.

(* Between a state satisfying P and a later one that does not, there is a step that
   takes P to ~P. *)
Lemma change_point : forall (P : lstate -> Prop), (forall s, P s \/ ~ P s) ->
  forall tr j i si sj, i <= j ->
  state_at init tr i = Some si -> state_at init tr j = Some sj -> P si -> ~ P sj ->
  exists r sr e sr', i <= r < j /\ state_at init tr r = Some sr /\ nth_error tr r = Some e /\
     lock_step sr e = Some sr' /\ state_at init tr (S r) = Some sr' /\ P sr /\ ~ P sr'.
Proof.
  intros P Pdec tr. induction j as [|j IH]; intros i si sj Hle Hi Hj HP HN.
  - assert (i = 0) by lia. subst. rewrite Hi in Hj. inversion Hj; subst. contradiction.
  - destruct (Nat.eq_dec i (S j)) as [->|Hne].
    + rewrite Hi in Hj. inversion Hj; subst. contradiction.
    + destruct (state_at_S_inv _ _ _ _ Hj) as [sp [e [Hp [He Hs]]]].
      destruct (Pdec sp) as [HPp|HNp].
      * exists j, sp, e, sj. repeat split; auto; lia.
      * destruct (IH i si sp ltac:(lia) Hi Hp HP HNp)
          as [r [sr [e' [sr' [Hr Hrest]]]]].
        exists r, sr, e', sr'. split; [lia|exact Hrest].
Qed.

(* ------------------------------------------------------------ single steps *)

Ltac step_inv H :=
  unfold lock_step in H; cbn [fst snd] in H;
  repeat match type of H with
  | context [match ?x with _ => _ end] => destruct x eqn:?; try discriminate H
  end; inversion H; subst; clear H; cbn [wr rd] in *.

Ltac upd_case l l0 :=
  unfold upd in *;
  let E := fresh "El" in
  destruct (Nat.eqb l l0) eqn:E; [apply Nat.eqb_eq in E; subst|apply Nat.eqb_neq in E].

Lemma step_wr_lose : forall s e s' l t,
  lock_step s e = Some s' -> wr s l = Some t -> wr s' l <> Some t ->
  e = (t, Rel l) /\ wr s' l = None.
Proof.
  intros s [t0 a] s' l t Hs Hw Hn.
  step_inv Hs; try contradiction.
  - upd_case l l0; [congruence|contradiction].
  - upd_case l l0; [|contradiction].
    match goal with H : Nat.eqb _ _ = true |- _ => apply Nat.eqb_eq in H; subst end.
    split; [|reflexivity]. congruence.
Qed.

Lemma step_wr_gain : forall s e s' l t,
  lock_step s e = Some s' -> wr s l <> Some t -> wr s' l = Some t ->
  e = (t, Acq l) /\ wr s l = None /\ rd s l = nil.
Proof.
  intros s [t0 a] s' l t Hs Hn Hw.
  step_inv Hs; try contradiction.
  - upd_case l l0; [|contradiction].
    inversion Hw; subst. auto.
  - upd_case l l0; [discriminate|contradiction].
Qed.

Lemma In_remove1 : forall t t' ts, t <> t' -> In t ts -> In t (remove1 t' ts).
Proof.
  induction ts as [|a ts IH]; intros Hne Hin; [contradiction|].
  cbn [remove1]. destruct (Nat.eqb t' a) eqn:E.
  - apply Nat.eqb_eq in E; subst. destruct Hin; [congruence|assumption].
  - destruct Hin; [left; assumption|right; auto].
Qed.

Lemma remove1_In : forall t t' ts, In t (remove1 t' ts) -> In t ts.
Proof.
  induction ts as [|a ts IH]; intros Hin; [contradiction|].
  cbn [remove1] in Hin. destruct (Nat.eqb t' a).
  - right; assumption.
  - destruct Hin; [left; assumption|right; auto].
Qed.

Lemma step_rd_lose : forall s e s' l t,
  lock_step s e = Some s' -> In t (rd s l) -> ~ In t (rd s' l) ->
  e = (t, RRel l).
Proof.
  intros s [t0 a] s' l t Hs Hi Hn.
  step_inv Hs; try contradiction.
  - upd_case l l0; [|contradiction]. exfalso; apply Hn; right; assumption.
  - upd_case l l0; [|contradiction].
    destruct (Nat.eq_dec t t0) as [->|Hne]; [reflexivity|].
    exfalso; apply Hn. apply In_remove1; assumption.
Qed.

Lemma step_rd_gain : forall s e s' l t,
  lock_step s e = Some s' -> ~ In t (rd s l) -> In t (rd s' l) ->
  e = (t, RAcq l) /\ wr s l = None.
Proof.
  intros s [t0 a] s' l t Hs Hn Hi.
  step_inv Hs; try contradiction.
  - upd_case l l0; [|contradiction].
    destruct Hi as [->|Hi]; [auto|contradiction].
  - upd_case l l0; [|contradiction].
    exfalso; apply Hn. eapply remove1_In; eassumption.
Qed.

(* a write-held lock has no readers *)
Definition linv (s : lstate) : Prop := forall l t, wr s l = Some t -> rd s l = nil.

Lemma linv_init : linv init.
Proof. intros l t H. discriminate. Qed.

Lemma linv_step : forall s e s', lock_step s e = Some s' -> linv s -> linv s'.
Proof.
  intros s [t0 a] s' Hs Hinv l t Hw.
  step_inv Hs; eauto.
  - upd_case l l0; [assumption|eauto].
  - upd_case l l0; [discriminate|eauto].
  - upd_case l l0; [congruence|eauto].
  - upd_case l l0; [|eauto].
    rewrite (Hinv _ _ Hw) in *. discriminate.
Qed.

Lemma linv_at : forall tr n s, state_at init tr n = Some s -> linv s.
Proof.
  intros tr. induction n as [|n IH]; intros s H.
  - cbn [state_at] in H. inversion H; subst. apply linv_init.
  - destruct (state_at_S_inv _ _ _ _ H) as [sp [e [Hp [_ Hs]]]].
    eapply linv_step; eauto.
Qed.

(* ------------------------------------------------------------ decidability *)

Lemma wr_dec : forall l t s, wr s l = Some t \/ wr s l <> Some t.
Proof.
  intros l t s. destruct (wr s l) as [t'|]; [|right; discriminate].
  destruct (Nat.eq_dec t' t); [left; congruence|right; congruence].
Qed.

Lemma nwr_dec : forall l t s, wr s l <> Some t \/ ~ wr s l <> Some t.
Proof. intros l t s. destruct (wr_dec l t s); tauto. Qed.

Lemma rd_dec : forall l t s, In t (rd s l) \/ ~ In t (rd s l).
Proof. intros l t s. destruct (in_dec Nat.eq_dec t (rd s l)); tauto. Qed.

Lemma nrd_dec : forall l t s, ~ In t (rd s l) \/ ~ ~ In t (rd s l).
Proof. intros l t s. destruct (rd_dec l t s); tauto. Qed.

(* ------------------------------------------------------------ trace lemmas *)

(* A: the holder t of l no longer holds it later: t released it in between *)
Lemma release_between : forall tr i j si sj l t, i <= j ->
  state_at init tr i = Some si -> state_at init tr j = Some sj ->
  wr si l = Some t -> wr sj l <> Some t ->
  exists r sr', i <= r < j /\ ev tr r = Some (t, Rel l) /\
     state_at init tr (S r) = Some sr' /\ wr sr' l = None.
Proof.
  intros tr i j si sj l t Hle Hi Hj Hw Hn.
  destruct (change_point (fun s => wr s l = Some t) (wr_dec l t) tr j i si sj Hle Hi Hj Hw Hn)
    as [r [sr [e [sr' [Hr [_ [He [Hs [Hsr' [HP HN]]]]]]]]]].
  destruct (step_wr_lose _ _ _ _ _ Hs HP HN) as [-> Hnone].
  exists r, sr'. auto.
Qed.

(* B: t holds l at j but not at the earlier k: t acquired it in between, at a moment
   when l had neither a writer nor readers *)
Lemma acquire_between : forall tr k j sk sj l t, k <= j ->
  state_at init tr k = Some sk -> state_at init tr j = Some sj ->
  wr sk l <> Some t -> wr sj l = Some t ->
  exists b sb, k <= b < j /\ ev tr b = Some (t, Acq l) /\
     state_at init tr b = Some sb /\ wr sb l = None /\ rd sb l = nil.
Proof.
  intros tr k j sk sj l t Hle Hk Hj Hn Hw.
  destruct (change_point (fun s => wr s l <> Some t) (nwr_dec l t) tr j k sk sj Hle Hk Hj Hn
              ltac:(tauto))
    as [b [sb [e [sb' [Hb [Hsb [He [Hs [_ [HP HN]]]]]]]]]].
  assert (Hw' : wr sb' l = Some t) by (destruct (wr_dec l t sb'); tauto).
  destruct (step_wr_gain _ _ _ _ _ Hs HP Hw') as [-> [H1 H2]].
  exists b, sb. auto.
Qed.

Lemma rrelease_between : forall tr i j si sj l t, i <= j ->
  state_at init tr i = Some si -> state_at init tr j = Some sj ->
  In t (rd si l) -> ~ In t (rd sj l) ->
  exists r, i <= r < j /\ ev tr r = Some (t, RRel l).
Proof.
  intros tr i j si sj l t Hle Hi Hj Hin Hn.
  destruct (change_point (fun s => In t (rd s l)) (rd_dec l t) tr j i si sj Hle Hi Hj Hin Hn)
    as [r [sr [e [sr' [Hr [_ [He [Hs [_ [HP HN]]]]]]]]]].
  rewrite (step_rd_lose _ _ _ _ _ Hs HP HN) in He.
  exists r. auto.
Qed.

Lemma racquire_between : forall tr k j sk sj l t, k <= j ->
  state_at init tr k = Some sk -> state_at init tr j = Some sj ->
  ~ In t (rd sk l) -> In t (rd sj l) ->
  exists b sb, k <= b < j /\ ev tr b = Some (t, RAcq l) /\
     state_at init tr b = Some sb /\ wr sb l = None.
Proof.
  intros tr k j sk sj l t Hle Hk Hj Hn Hin.
  destruct (change_point (fun s => ~ In t (rd s l)) (nrd_dec l t) tr j k sk sj Hle Hk Hj Hn
              ltac:(tauto))
    as [b [sb [e [sb' [Hb [Hsb [He [Hs [_ [HP HN]]]]]]]]]].
  assert (Hin' : In t (rd sb' l)) by (destruct (rd_dec l t sb'); tauto).
  destruct (step_rd_gain _ _ _ _ _ Hs HP Hin') as [-> H1].
  exists b, sb. auto.
Qed.

(* three-edge happens-before chain: program order, lock hand-over, program order *)
Lemma hb_chain : forall tr i r b j t1 t2 a1 a2 er eb,
  i < r -> r < b -> b < j ->
  ev tr i = Some (t1, a1) -> ev tr r = Some (t1, er) ->
  ev tr b = Some (t2, eb) -> ev tr j = Some (t2, a2) ->
  edge tr r b -> hb tr i j.
Proof.
  intros tr i r b j t1 t2 a1 a2 er eb Hir Hrb Hbj Hi Hr Hb Hj He.
  apply t_trans with r; [apply t_step; eapply e_po; eauto|].
  apply t_trans with b; [apply t_step; exact He|].
  apply t_step; eapply e_po; eauto.
Qed.

(* an access event is not a lock operation *)
Lemma acc_ne : forall tr i r t a x t' e,
  ev tr i = Some (t, a) -> acc_loc a = Some x -> ev tr r = Some (t', e) ->
  acc_loc e = None -> i <> r.
Proof.
  intros tr i r t a x t' e Hi Ha Hr He Heq. subst r.
  rewrite Hi in Hr. inversion Hr; subst. congruence.
Qed.

(* both hold l exclusively *)
Lemma ww_hb : forall tr i j t1 t2 a1 a2 x l,
  i < j -> ev tr i = Some (t1, a1) -> ev tr j = Some (t2, a2) -> t1 <> t2 ->
  acc_loc a1 = Some x ->
  holdsW tr i t1 l -> holdsW tr j t2 l -> hb tr i j.
Proof.
  intros tr i j t1 t2 a1 a2 x l Hij Hi Hj Hne Ha1 [si [Hsi Hwi]] [sj [Hsj Hwj]].
  destruct (release_between tr i j si sj l t1 ltac:(lia) Hsi Hsj Hwi ltac:(congruence))
    as [r [sr' [Hr [Hevr [Hsr' Hnone]]]]].
  assert (i <> r) by (eapply acc_ne; eauto).
  destruct (acquire_between tr (S r) j sr' sj l t2 ltac:(lia) Hsr' Hsj ltac:(congruence) Hwj)
    as [b [sb [Hb [Hevb _]]]].
  eapply hb_chain with (r := r) (b := b); eauto; try lia.
  eapply e_rel_acq; eauto; lia.
Qed.

(* first holds l exclusively, second holds it shared *)
Lemma wr_hb : forall tr i j t1 t2 a1 a2 x l,
  i < j -> ev tr i = Some (t1, a1) -> ev tr j = Some (t2, a2) ->
  acc_loc a1 = Some x ->
  holdsW tr i t1 l -> holdsR tr j t2 l -> hb tr i j.
Proof.
  intros tr i j t1 t2 a1 a2 x l Hij Hi Hj Ha1 [si [Hsi Hwi]] [sj [Hsj Hrj]].
  assert (Hnil : rd si l = nil) by (eapply (linv_at tr i si Hsi); eauto).
  destruct (racquire_between tr i j si sj l t2 ltac:(lia) Hsi Hsj
              ltac:(rewrite Hnil; intros []) Hrj)
    as [b [sb [Hb [Hevb [Hsb Hnone]]]]].
  destruct (release_between tr i b si sb l t1 ltac:(lia) Hsi Hsb Hwi ltac:(congruence))
    as [r [sr' [Hr [Hevr _]]]].
  assert (i <> r) by (eapply acc_ne; eauto).
  eapply hb_chain with (r := r) (b := b); eauto; try lia.
  eapply e_rel_racq; eauto; lia.
Qed.

(* first holds l shared, second holds it exclusively *)
Lemma rw_hb : forall tr i j t1 t2 a1 a2 x l,
  i < j -> ev tr i = Some (t1, a1) -> ev tr j = Some (t2, a2) ->
  acc_loc a1 = Some x ->
  holdsR tr i t1 l -> holdsW tr j t2 l -> hb tr i j.
Proof.
  intros tr i j t1 t2 a1 a2 x l Hij Hi Hj Ha1 [si [Hsi Hri]] [sj [Hsj Hwj]].
  assert (Hnw : wr si l <> Some t2).
  { intros Hw. rewrite (linv_at tr i si Hsi _ _ Hw) in Hri. contradiction. }
  destruct (acquire_between tr i j si sj l t2 ltac:(lia) Hsi Hsj Hnw Hwj)
    as [b [sb [Hb [Hevb [Hsb [_ Hnil]]]]]].
  destruct (rrelease_between tr i b si sb l t1 ltac:(lia) Hsi Hsb Hri
              ltac:(rewrite Hnil; intros []))
    as [r [Hr Hevr]].
  assert (i <> r) by (eapply acc_ne; eauto).
  eapply hb_chain with (r := r) (b := b); eauto; try lia.
  eapply e_rrel_acq; eauto; lia.
Qed.

(* ------------------------------------------------------------ the theorem *)

Lemma guarded_no_race : forall (pol : loc -> iprot) (tr : trace),
  wf_locks tr -> respects pol tr ->
  forall x l, pol x = IGuarded l -> ~ race_on tr x.
Proof.
  intros pol tr _ Hresp x l Hp
    [i [j [t1 [t2 [a1 [a2 [Hij [Hi [Hj [Hne [Ha1 [Ha2 [_ Hnhb]]]]]]]]]]]]].
  pose proof (Hresp i t1 a1 x Hi Ha1) as H1.
  pose proof (Hresp j t2 a2 x Hj Ha2) as H2.
  rewrite Hp in H1, H2.
  apply Hnhb. eapply ww_hb; eauto.
Qed.

Lemma atomic_no_race : forall (pol : loc -> iprot) (tr : trace),
  wf_locks tr -> respects pol tr ->
  forall x, pol x = IAtomic -> ~ race_on tr x.
Proof.
  intros pol tr _ Hresp x Hp
    [i [j [t1 [t2 [a1 [a2 [Hij [Hi [Hj [Hne [Ha1 [Ha2 [Hc _]]]]]]]]]]]]].
  pose proof (Hresp i t1 a1 x Hi Ha1) as H1.
  pose proof (Hresp j t2 a2 x Hj Ha2) as H2.
  rewrite Hp in H1, H2.
  unfold conflict in Hc. rewrite H1, H2 in Hc.
  rewrite andb_false_r in Hc. discriminate.
Qed.

Lemma rguarded_no_race : forall (pol : loc -> iprot) (tr : trace),
  wf_locks tr -> respects pol tr ->
  forall x l, pol x = IRGuarded l -> ~ race_on tr x.
Proof.
  intros pol tr _ Hresp x l Hp
    [i [j [t1 [t2 [a1 [a2 [Hij [Hi [Hj [Hne [Ha1 [Ha2 [Hc Hnhb]]]]]]]]]]]]].
  pose proof (Hresp i t1 a1 x Hi Ha1) as H1.
  pose proof (Hresp j t2 a2 x Hj Ha2) as H2.
  rewrite Hp in H1, H2.
  apply Hnhb.
  destruct H1 as [W1|[R1 HR1]]; destruct H2 as [W2|[R2 HR2]].
  - eapply ww_hb; eauto.
  - eapply wr_hb; eauto.
  - eapply rw_hb; eauto.
  - unfold conflict in Hc. rewrite R1, R2 in Hc. discriminate.
Qed.

Theorem lockset_sound : forall (pol : loc -> iprot) (tr : trace),
  wf_locks tr -> respects pol tr ->
  forall x, pol x <> IOther -> ~ race_on tr x.
Proof.
  intros pol tr Hwf Hresp x Hx.
  destruct (pol x) as [l|l| |] eqn:E.
  - eapply guarded_no_race; eauto.
  - eapply rguarded_no_race; eauto.
  - eapply atomic_no_race; eauto.
  - congruence.
Qed.

(* ------------------------------------------------------------ non-vacuity *)

Definition tr_ok : trace :=
  [(0, Go 1); (0, Acq 0); (0, Wr 5); (0, Rel 0); (1, Acq 0); (1, Rd 5); (1, Rel 0)].
Definition pol_ok : loc -> iprot := fun x => if Nat.eqb x 5 then IGuarded 0 else IOther.

Example tr_ok_wf : wf_locks tr_ok.
Proof. unfold wf_locks. eexists. vm_compute. reflexivity. Qed.

Example tr_ok_respects : respects pol_ok tr_ok.
Proof.
  intros i t a x Hev Ha.
  do 7 (destruct i as [|i];
        [cbv in Hev; inversion Hev; subst; cbv in Ha; try discriminate;
         inversion Ha; subst; cbv [pol_ok Nat.eqb]; eexists; split; vm_compute; reflexivity|]).
  destruct i; discriminate.
Qed.

Example tr_ok_no_race : ~ race_on tr_ok 5.
Proof.
  apply (lockset_sound pol_ok tr_ok tr_ok_wf tr_ok_respects). cbv. discriminate.
Qed.

(* the same two accesses without the lock race (the go edge orders nothing after it
   in the spawner with respect to the new thread) *)
Definition tr_racy : trace := [(0, Go 1); (0, Wr 5); (1, Rd 5)].

Lemma edge_lt : forall tr i j, edge tr i j -> i < j.
Proof. intros tr i j H. inversion H; assumption. Qed.

Lemma hb_lt : forall tr i j, hb tr i j -> i < j.
Proof.
  intros tr i j H. induction H as [i j H|i k j _ H1 _ H2]; [eapply edge_lt; eauto|lia].
Qed.

Example tr_racy_race : race_on tr_racy 5.
Proof.
  exists 1, 2, 0, 1, (Wr 5), (Rd 5).
  repeat split; try reflexivity; try lia; try discriminate.
  intros H.
  assert (He : edge tr_racy 1 2).
  { inversion H as [y He|y z H1 H2]; subst; [exact He|].
    apply hb_lt in H1. apply hb_lt in H2. lia. }
  inversion He;
    match goal with
    | H1 : ev tr_racy 1 = Some _, H2 : ev tr_racy 2 = Some _ |- _ =>
        cbv in H1, H2; congruence
    end.
Qed.
